(** What one event does to the step, the round, the channel generation and the held strategy call of the
    round state machine model, by the run state it is delivered in (idle / awaiting a round entrance
    response / not started / dead). One bundle of handler facts ([HB]) per handler from the three passes
    (Proofs/SMRel.v, SMOnce.v, SMOnceRel.v), one walk over [dispatch] per run state. *)
From Coq Require Import List NArith String Bool Lia.
From GV Require Import Base.Ints Gen.Math Gen.StepSM Model.StateMachine Model.SMWire Proofs.SMStep Proofs.SMOutputs
  Proofs.SMInv Proofs.SMInvH Proofs.SMInvStep Proofs.SMRel Proofs.SMTheorems Proofs.SMInvActs
  Proofs.SMOnce Proofs.SMOnceRel.
Import ListNotations.
Local Open Scope N_scope.

Definition awaiting (s : sm) : Prop := match run s with AwaitInit | AwaitAdv _ => True | _ => False end.
Definition dead (s : sm) : Prop := match run s with Halted | Panicked _ | Wedged => True | _ => False end.

(** ** keep on fall-through, for computations that also record actions *)
Definition kg (m : M) : Prop := forall s, fl (m s) = Go -> keep s (st (m s)).
Lemma kg_ret : kg ret. Proof. intros s _. apply keep_refl. Qed.
Lemma kg_stop f : f <> Go -> kg (stop f).
Proof. intros H s E. unfold stop, fl in E. simpl in E. congruence. Qed.
Lemma kg_say o : kg (say o). Proof. intros s _. apply keep_refl. Qed.
Lemma kg_upd f : (forall s, keep s (f s)) -> kg (upd f).
Proof. intros H s _. apply H. Qed.
Lemma kg_updr f : (forall l, keepl l (f l)) -> kg (updr f).
Proof. intros H s _. unfold updr, st, keep. simpl. split; [apply H|auto]. Qed.
Lemma kg_bind a b : kg a -> kg b -> kg (a ;; b).
Proof.
  intros Ha Hb s. unfold bindM, st, fl in *. specialize (Ha s). destruct (a s) as [[s1 o1] f1]. simpl in *.
  destruct f1; simpl; try (intros E; discriminate E).
  specialize (Ha eq_refl). specialize (Hb s1). destruct (b s1) as [[s2 o2] f2]. simpl in *.
  intros E. eapply keep_trans; [exact Ha|exact (Hb E)].
Qed.
Lemma kg_withS (k : sm -> M) : (forall s0, kg (k s0)) -> kg (withS k).
Proof. intros H s. unfold withS. apply H. Qed.
Lemma kg_when b m : kg m -> kg (when b m).
Proof. intros H. destruct b; simpl; [exact H|apply kg_ret]. Qed.

Ltac kg_step :=
  lazymatch goal with
  | |- kg ret => apply kg_ret
  | |- kg (stop _) => apply kg_stop; discriminate
  | |- kg (say _) => apply kg_say
  | |- kg (upd _) => apply kg_upd; hm_side
  | |- kg (updr _) => apply kg_updr; hm_side
  | |- kg (bindM _ _) => apply kg_bind
  | |- kg (when _ _) => apply kg_when
  | |- kg (withS _) => apply kg_withS; let s0 := fresh "s0" in intros s0
  | |- kg (if ?c then _ else _) => destruct c
  | |- kg (match ?x with _ => _ end) => destruct x
  end.
Ltac kgs := repeat (kg_step; cbv beta zeta).

Lemma kg_record_prevote t : kg (record_prevote t ;; updr (set_rPvCh false)).
Proof. unfold record_prevote, emit, cancel_timer. kgs. Qed.
Lemma kg_record_precommit t : kg (record_precommit t ;; updr (set_rPcCh false)).
Proof. unfold record_precommit, emit. kgs. Qed.
Lemma kg_record_proposed_header d : kg (record_proposed_header d ;; updr (set_rPropCh false) ;; upd (set_propOut 2)).
Proof. unfold record_proposed_header, emit. kgs. Qed.

(** ** The bundle *)
Record HB (idle : bool) (s : sm) (r : sm * list out * flow) : Prop := mkHB {
  hb_R : R idle s r;
  hb_rr : RRv s r;
  hb_ec : ents (ou r) = match fl r with Susp => 1%nat | _ => 0%nat end;
  hb_le7 : rS (rl s) <= 7 -> rS (rl (st r)) <= 7;
  hb_asks : cm s = None -> fl r = Go -> asks_ok (st r);
  hb_mono : idle = true -> rS (rl s) <= 7 -> fl r = Go -> rS (rl s) <= rS (rl (st r));
  hb_nodec : idle = true -> StepAwaitingPrecommits <= rS (rl s) -> ~ In K_decide (reqs (ou r));
  hb_nocho : idle = true -> rS (rl s) <> StepAwaitingProposal -> ~ In K_choose (reqs (ou r)) }.

Lemma reqs_nil_of_noreq o : (forall k, ~ In k (reqs o)) -> reqs o = [].
Proof. destruct (reqs o) as [|k l]; [reflexivity|]. intros H. destruct (H k). left. reflexivity. Qed.

Lemma asks_of_noreq b s r : R b s r -> reqs (ou r) = [] -> cm s = None -> asks_ok (st r).
Proof.
  intros (_ & C & _) E Hc. unfold cmrel in C. rewrite Hc in C.
  destruct C as [[_ C]|(k & g & b' & C1 & _)]; [apply Cn_asks; exact C|rewrite E in C1; discriminate].
Qed.

Lemma HB_view_update v ja s : HB true s (handle_view_update v ja s).
Proof.
  constructor.
  - apply hm_handle_view_update.
  - apply rr_handle_view_update.
  - apply ec_handle_view_update.
  - apply le7_handle_view_update.
  - intros C. apply B_handle_view_update. exact C.
  - intros _ _. apply (A_handle_view_update v ja (rS (rl s))). reflexivity.
  - intros _. apply nr_handle_view_update_decide.
  - intros _. apply nr_handle_view_update_choose.
Qed.

Lemma HB_timer s : HB true s (handle_timer_elapsed s).
Proof.
  constructor.
  - apply hm_handle_timer_elapsed.
  - apply rr_handle_timer_elapsed.
  - apply ec_handle_timer_elapsed.
  - apply le7_handle_timer_elapsed.
  - intros C. apply B_handle_timer_elapsed. exact C.
  - intros _ _. apply (A_handle_timer_elapsed (rS (rl s))). reflexivity.
  - intros _. apply nr_handle_timer_elapsed_decide.
  - intros _. apply nr_handle_timer_elapsed_choose.
Qed.

Lemma HB_height_committed s : HB true s (handle_height_committed s).
Proof.
  constructor.
  - apply hm_handle_height_committed.
  - apply rr_handle_height_committed.
  - apply ec_handle_height_committed.
  - apply le7_handle_height_committed.
  - intros C _. apply (asks_of_noreq true s); [apply hm_handle_height_committed| |exact C].
    apply reqs_nil_of_noreq. intros k. apply nr_handle_height_committed.
  - intros _ _. apply (A_handle_height_committed (rS (rl s))). reflexivity.
  - intros _ _. apply nr_handle_height_committed.
  - intros _ _. apply nr_handle_height_committed.
Qed.

Lemma HB_finalization h r bh vs ash s : HB true s (handle_finalization h r bh vs ash s).
Proof.
  constructor.
  - apply hm_handle_finalization.
  - apply rr_handle_finalization.
  - apply ec_handle_finalization.
  - apply le7_handle_finalization.
  - intros C _. apply (asks_of_noreq true s); [apply hm_handle_finalization| |exact C].
    apply reqs_nil_of_noreq. intros k. apply nr_handle_finalization.
  - intros _ _. apply (A_handle_finalization h r bh vs ash (rS (rl s))). unfold Ge. lia.
  - intros _ _. apply nr_handle_finalization.
  - intros _ _. apply nr_handle_finalization.
Qed.

Definition fin7 h r bh vs ash : M := updr (set_rS StepAwaitingFinalization) ;; handle_finalization h r bh vs ash.
Lemma hm_fin7 h r bh vs ash : hm true (fin7 h r bh vs ash).
Proof. unfold fin7. apply hm_bind; [apply hm_updr; hm_side|apply hm_handle_finalization]. Qed.
Lemma nr_fin7 k h r bh vs ash : noreq k (fin7 h r bh vs ash).
Proof. unfold fin7. apply nr_bind; [apply nr_updr|apply nr_handle_finalization]. Qed.

Lemma HB_fin7 h r bh vs ash s : HB true s (fin7 h r bh vs ash s).
Proof.
  constructor.
  - apply hm_fin7.
  - unfold fin7. apply rr_bind; [apply rr_updr; intros; split; reflexivity|apply rr_handle_finalization].
  - unfold fin7. apply ec_bind; [apply ec_updr|apply ec_handle_finalization].
  - unfold fin7. apply le7_bind; [l7|apply le7_handle_finalization].
  - intros C _. apply (asks_of_noreq true s); [apply hm_fin7| |exact C].
    apply reqs_nil_of_noreq. intros k. apply nr_fin7.
  - intros _ L7. unfold fin7.
    assert (T : tg (Eq (rS (rl s))) (updr (set_rS StepAwaitingFinalization);; handle_finalization h r bh vs ash) (Ge (rS (rl s)))).
    { apply (tg_bind (Ge (rS (rl s)))); [|apply A_handle_finalization].
      apply tg_updr. intros s1 H1. unfold Eq, Ge in *. fields. steps. lia. }
    exact (T s eq_refl).
  - intros _ _. apply nr_fin7.
  - intros _ _. apply nr_fin7.
Qed.

Lemma HB_block_data h r d s : HB true s (handle_block_data h r d s).
Proof.
  constructor.
  - apply hm_handle_block_data.
  - apply rr_handle_block_data.
  - apply ec_handle_block_data.
  - apply le7_handle_block_data.
  - intros C. apply B_handle_block_data. exact C.
  - intros _ _. apply (A_handle_block_data h r d (rS (rl s))). reflexivity.
  - intros _ _. apply nr_handle_block_data_decide.
  - intros _ _. apply nr_handle_block_data_choose.
Qed.

(** handlers run on a round entrance response *)
Lemma le7_resume m tail : le7 m -> forall s, rS (rl s) <= 7 -> rS (rl (st (resume_adv m tail s))) <= 7.
Proof.
  intros Hm s L. pose proof (Hm (set_run Idle s) L) as Ha. unfold resume_adv, st in *.
  destruct (m (set_run Idle s)) as [[s1 o1] f1]. simpl in *.
  destruct f1; simpl; try exact Ha.
  destruct tail as [[v ja]|]; [|exact Ha].
  pose proof (le7_view_tail v ja s1 Ha) as Hb. unfold st in Hb.
  destruct (view_tail v ja s1) as [[s2 o2] f2]. simpl in *. exact Hb.
Qed.

Lemma asks_resume m tail : tg Cn m asks_ok -> forall s, cm s = None ->
  fl (resume_adv m tail s) = Go -> asks_ok (st (resume_adv m tail s)).
Proof.
  intros Hm s C. pose proof (Hm (set_run Idle s) C) as Ha. unfold resume_adv, st, fl in *.
  destruct (m (set_run Idle s)) as [[s1 o1] f1]. simpl in *.
  destruct f1; simpl; try (intros E; discriminate E).
  specialize (Ha eq_refl).
  destruct tail as [[v ja]|]; [|intros _; exact Ha].
  pose proof (B_view_tail v ja s1 Ha) as Hb. unfold st, fl in Hb.
  destruct (view_tail v ja s1) as [[s2 o2] f2]. simpl in *. exact Hb.
Qed.

Lemma HB_resume m tail s : hm false m -> rr m -> ec m -> le7 m -> tg Cn m asks_ok ->
  HB false (set_run Idle s) (resume_adv m tail s).
Proof.
  intros H1 H2 H3 H4 H5. constructor; try (intros X; discriminate X).
  - apply R_resume. exact H1.
  - apply rr_resume. exact H2.
  - apply ec_resume. exact H3.
  - intros L. apply le7_resume; [exact H4|exact L].
  - intros C. apply asks_resume; [exact H5|exact C].
Qed.

Lemma HB_enter m s : hm false m -> rr m -> ec m -> le7 m -> tg Cn m asks_ok -> HB false s (m s).
Proof.
  intros H1 H2 H3 H4 H5. constructor; try (intros X; discriminate X).
  - apply H1. - apply H2. - apply H3. - apply H4. - intros C. apply H5. exact C.
Qed.

Lemma nr_init_after_ch k bh h pr : noreq k (init_after_ch bh h pr).
Proof. unfold init_after_ch. unf_h. nr. Qed.
Lemma nr_advance_after_ch k bh h pr : noreq k (advance_after_ch bh h pr).
Proof. unfold advance_after_ch. unf_h. nr. Qed.

Lemma tg_of_noreq b m : hm b m -> (forall k, noreq k m) -> tg Cn m asks_ok.
Proof.
  intros H N s C _. apply (asks_of_noreq b s); [apply H| |exact C].
  apply reqs_nil_of_noreq. intros k. apply N.
Qed.

(** ** What an event delivered to an idle machine does *)
Definition IF (s s' : sm) (o : list out) : Prop :=
  (run s' = Idle -> keep s s' /\ rS (rl s) <= rS (rl s')) /\
  (awaiting s' -> gen s < gen s' /\ ent_last o s' /\ (nowrap s -> hr_lt (cur s) (cur s'))) /\
  (ents o = 0%nat \/ (ents o = 1%nat /\ awaiting s')) /\
  run s' <> NotStarted /\
  (In K_decide (reqs o) -> rS (rl s) < StepAwaitingPrecommits /\ (run s' = Idle -> StepAwaitingPrecommits <= rS (rl s'))) /\
  (In K_choose (reqs o) -> rS (rl s) = StepAwaitingProposal /\ (run s' = Idle -> StepAwaitingPrevotes <= rS (rl s'))) /\
  rS (rl s') <= 7.

Lemma asked_held b s r k : R b s r -> In k (reqs (ou r)) -> cm s = None /\ cmk (st r) = Some k.
Proof.
  intros (_ & C & _) H. unfold cmrel in C. destruct (cm s) as [c|].
  - destruct C as [C _]. rewrite C in H. destruct H.
  - split; [reflexivity|]. destruct C as [[C _]|(k' & g & b' & C1 & C2)]; [rewrite C in H; destruct H|].
    rewrite C1 in H. destruct H as [<-|[]]. unfold cmk. rewrite C2. reflexivity.
Qed.

Lemma susp_state s1 :
  let s2 := match run s1 with AwaitAdv _ | AwaitInit => s1 | _ => set_run (AwaitAdv None) s1 end in
  rl s2 = rl s1 /\ gen s2 = gen s1 /\ awaiting s2.
Proof. unfold awaiting. destruct (run s1) eqn:E; simpl; rewrite ?E; auto. Qed.

Lemma awaiting_not_idle s : awaiting s -> run s <> Idle.
Proof. unfold awaiting. destruct (run s); try contradiction; discriminate. Qed.
Lemma awaiting_not_nst s : awaiting s -> run s <> NotStarted.
Proof. unfold awaiting. destruct (run s); try contradiction; discriminate. Qed.

Lemma ent_last_rl o s s' : rl s' = rl s -> ent_last o s -> ent_last o s'.
Proof. unfold ent_last. intros ->. auto. Qed.

Lemma ents_plain o x : is_ent x = false -> ents (o ++ [x]) = ents o.
Proof. intros H. rewrite ents_app. unfold ents at 2. simpl. rewrite H. simpl. lia. Qed.

Lemma idle_finish s r : HB true s r -> run s = Idle -> rS (rl s) <= 7 ->
  IF s (fst (finish r)) (snd (finish r)).
Proof.
  intros [HR Hrr Hec Hl7 Hasks Hmono Hnd Hnc] Rn L7.
  assert (D1 : In K_decide (reqs (ou r)) -> rS (rl s) < StepAwaitingPrecommits /\ (fl r = Go -> StepAwaitingPrecommits <= rS (rl (st r)))).
  { intros H. split.
    - destruct (N.lt_ge_cases (rS (rl s)) StepAwaitingPrecommits) as [X|X]; [exact X|]. destruct (Hnd eq_refl X H).
    - intros G. destruct (asked_held _ _ _ _ HR H) as [C K]. exact (proj1 (Hasks C G) K). }
  assert (D2 : In K_choose (reqs (ou r)) -> rS (rl s) = StepAwaitingProposal /\ (fl r = Go -> StepAwaitingPrevotes <= rS (rl (st r)))).
  { intros H. split.
    - destruct (N.eq_dec (rS (rl s)) StepAwaitingProposal) as [X|X]; [exact X|]. destruct (Hnc eq_refl X H).
    - intros G. destruct (asked_held _ _ _ _ HR H) as [C K]. exact (proj2 (Hasks C G) K). }
  specialize (Hl7 L7). specialize (Hmono eq_refl L7).
  destruct HR as (_ & _ & _ & _ & HK). specialize (HK eq_refl).
  destruct r as [[s1 o] f]. unfold st, fl, ou, RRv in *. simpl in *.
  destruct f; simpl.
  - (* Go *)
    specialize (HK eq_refl). specialize (Hmono eq_refl).
    split; [intros _; split; [|exact Hmono]|].
    { destruct HK as (K1 & K2 & K3 & K4). unfold keep. simpl. rewrite Rn. auto. }
    split; [intros []|]. split; [left; exact Hec|]. split; [simpl; discriminate|].
    split; [intros H; destruct (D1 H) as [A B]; split; [exact A|intros _; exact (B eq_refl)]|].
    split; [intros H; destruct (D2 H) as [A B]; split; [exact A|intros _; exact (B eq_refl)]|exact Hl7].
  - (* Susp *)
    destruct (susp_state s1) as (E1 & E2 & E3). cbv zeta in *.
    set (s2 := match run s1 with AwaitAdv _ | AwaitInit => s1 | _ => set_run (AwaitAdv None) s1 end) in *.
    destruct Hrr as (G1 & G2 & G3).
    split; [intros X; destruct (awaiting_not_idle _ E3 X)|].
    split; [intros _; rewrite E2; split; [exact G1|split; [apply (ent_last_rl o s1); auto|]]|].
    { unfold cur. rewrite E1. exact G3. }
    split; [right; split; [exact Hec|exact E3]|]. split; [apply awaiting_not_nst; exact E3|].
    split; [intros H; destruct (D1 H) as [A B]; split; [exact A|intros X; destruct (awaiting_not_idle _ E3 X)]|].
    split; [intros H; destruct (D2 H) as [A B]; split; [exact A|intros X; destruct (awaiting_not_idle _ E3 X)]|].
    rewrite E1. exact Hl7.
  - split; [intros X; discriminate X|]. split; [intros []|]. split; [left; rewrite ents_plain by reflexivity; exact Hec|].
    split; [simpl; discriminate|]. rewrite reqs_plain by reflexivity.
    split; [intros H; destruct (D1 H) as [A B]; split; [exact A|intros X; discriminate X]|].
    split; [intros H; destruct (D2 H) as [A B]; split; [exact A|intros X; discriminate X]|exact Hl7].
  - split; [intros X; discriminate X|]. split; [intros []|]. split; [left; rewrite ents_plain by reflexivity; exact Hec|].
    split; [simpl; discriminate|]. rewrite reqs_plain by reflexivity.
    split; [intros H; destruct (D1 H) as [A B]; split; [exact A|intros X; discriminate X]|].
    split; [intros H; destruct (D2 H) as [A B]; split; [exact A|intros X; discriminate X]|exact Hl7].
  - split; [intros X; discriminate X|]. split; [intros []|]. split; [left; rewrite ents_plain by reflexivity; exact Hec|].
    split; [simpl; discriminate|]. rewrite reqs_plain by reflexivity.
    split; [intros H; destruct (D1 H) as [A B]; split; [exact A|intros X; discriminate X]|].
    split; [intros H; destruct (D2 H) as [A B]; split; [exact A|intros X; discriminate X]|exact Hl7].
Qed.

(** an event that only touches fields outside the round lifecycle *)
Lemma IF_noop s s' o : run s = Idle -> run s' = Idle -> rl s' = rl s -> gen s' = gen s ->
  (propOut s' = 1 -> propOut s = 1) -> rS (rl s) <= 7 -> reqs o = [] -> ents o = 0%nat -> IF s s' o.
Proof.
  intros R1 R2 E1 E2 E3 L7 Q1 Q2. unfold IF. rewrite Q1.
  split; [intros _; split; [unfold keep; rewrite E1, E2, R1, R2; split; [apply keepl_refl|auto]|rewrite E1; lia]|].
  split; [unfold awaiting; rewrite R2; intros []|]. split; [left; exact Q2|]. split; [rewrite R2; discriminate|].
  split; [intros []|]. split; [intros []|rewrite E1; exact L7].
Qed.

(** a computation that neither suspends nor asks (recording an action) *)
Lemma IF_quiet s r : run s = Idle -> fl r <> Susp -> reqs (ou r) = [] -> ents (ou r) = 0%nat ->
  (fl r = Go -> keep s (st r) /\ rS (rl s) <= rS (rl (st r))) -> rS (rl (st r)) <= 7 ->
  IF s (fst (finish r)) (snd (finish r)).
Proof.
  intros Rn NS Q1 Q2 HK L7. destruct r as [[s1 o] f]. unfold st, fl, ou in *. simpl in *.
  destruct f; simpl; try congruence.
  - specialize (HK eq_refl). destruct HK as [(K1 & K2 & K3 & K4) M]. unfold IF. simpl. rewrite Q1.
    split; [intros _; split; [unfold keep; simpl; rewrite Rn; auto|exact M]|].
    split; [intros []|]. split; [left; exact Q2|]. split; [discriminate|]. split; [intros []|]. split; [intros []|exact L7].
  - unfold IF. simpl. rewrite reqs_plain, Q1 by reflexivity. rewrite ents_plain by reflexivity.
    split; [intros X; discriminate X|]. split; [intros []|]. split; [left; exact Q2|]. split; [discriminate|].
    split; [intros []|]. split; [intros []|exact L7].
  - unfold IF. simpl. rewrite reqs_plain, Q1 by reflexivity. rewrite ents_plain by reflexivity.
    split; [intros X; discriminate X|]. split; [intros []|]. split; [left; exact Q2|]. split; [discriminate|].
    split; [intros []|]. split; [intros []|exact L7].
  - unfold IF. simpl. rewrite reqs_plain, Q1 by reflexivity. rewrite ents_plain by reflexivity.
    split; [intros X; discriminate X|]. split; [intros []|]. split; [left; exact Q2|]. split; [discriminate|].
    split; [intros []|]. split; [intros []|exact L7].
Qed.

Lemma IF_dead s s' o : dead s' -> reqs o = [] -> ents o = 0%nat -> rS (rl s') <= 7 -> IF s s' o.
Proof.
  intros D Q1 Q2 L7. unfold IF, dead, awaiting in *. rewrite Q1.
  destruct (run s'); try contradiction;
    (split; [intros X; discriminate X|]; split; [intros []|]; split; [left; exact Q2|]; split; [discriminate|];
     split; [intros []|]; split; [intros []|exact L7]).
Qed.

Lemma ph_facts_go d s :
  let r := (record_proposed_header d ;; updr (set_rPropCh false) ;; upd (set_propOut 2)) s in
  reqs (ou r) = [] /\ fl r <> Susp.
Proof. pose proof (record_ph_facts d s) as F. cbv zeta in *. tauto. Qed.

Theorem idle_dispatch s e : run s = Idle -> rS (rl s) <= 7 -> e <> EvStop -> deliverable s e = true ->
  IF s (fst (dispatch s e)) (snd (dispatch s e)).
Proof.
  intros Rn L7 NS D. destruct e; unfold dispatch; unfold deliverable in D; try rewrite Rn in D; try discriminate D.
  - congruence.
  - unfold awaiting_re in D. rewrite Rn in D. discriminate D.
  - unfold awaiting_re in D. rewrite Rn in D. discriminate D.
  - (* view *) apply idle_finish; [apply HB_view_update|exact Rn|exact L7].
  - (* timer *)
    change (rTimer (rl (set_hTimer None s))) with (rTimer (rl s)).
    destruct (rTimer (rl s)).
    + apply (idle_finish (set_hTimer None s)); [apply HB_timer|exact Rn|exact L7].
    + apply IF_noop; auto.
  - (* answer *)
    destruct (cm s) as [[[ck g] op]|] eqn:EC; [|apply IF_noop; auto].
    destruct ((kind =? 1) && (ck =? K_consider)); [apply IF_noop; auto|].
    destruct (negb op).
    { apply IF_dead; [exact I|reflexivity|reflexivity|exact L7]. }
    match goal with |- context [if ?b then _ else _] => destruct b end; [|apply IF_noop; auto].
    destruct (kind =? 0); [|apply IF_dead; [exact I|reflexivity|reflexivity|exact L7]].
    destruct (ck =? K_decide).
    + pose proof (record_precommit_facts t (set_cm None s)) as F. destruct F as [_ F2 _ F4 _ _].
      apply (IF_quiet (set_cm None s)); [exact Rn|exact F4|exact F2|rewrite ec_record_precommit; destruct (fl _); try reflexivity; congruence| |apply le7_record_precommit; exact L7].
      intros G. split; [apply kg_record_precommit; exact G|apply (A_record_precommit t (rS (rl s))); [reflexivity|exact G]].
    + pose proof (record_prevote_facts t (set_cm None s)) as F. destruct F as [_ F2 _ F4 _ _].
      apply (IF_quiet (set_cm None s)); [exact Rn|exact F4|exact F2|rewrite ec_record_prevote; destruct (fl _); try reflexivity; congruence| |apply le7_record_prevote; exact L7].
      intros G. split; [apply kg_record_prevote; exact G|apply (A_record_prevote t (rS (rl s))); [reflexivity|exact G]].
  - (* proposal *)
    destruct (propOut s =? 1).
    + destruct (ph_facts_go d s) as [F2 F4]. cbv zeta in *.
      apply IF_quiet; [exact Rn|exact F4|exact F2|rewrite ec_record_proposed_header; destruct (fl _); try reflexivity; congruence| |apply le7_record_proposed_header; exact L7].
      intros G. split; [apply kg_record_proposed_header; exact G|apply (A_record_proposed_header d (rS (rl s))); [reflexivity|exact G]].
    + apply IF_noop; auto. simpl. intros X; discriminate X.
  - (* finalization response *)
    destruct (finReq s) as [[[[g ?] ?] ?]|]; [|apply IF_noop; auto].
    match goal with |- context [if ?b then _ else _] => destruct b end; [|apply IF_noop; auto].
    change (rVRV (rl (set_finReq None s))) with (rVRV (rl s)).
    destruct (rVRV (rl s)).
    + apply (idle_finish (set_finReq None s)); [apply HB_finalization|exact Rn|exact L7].
    + apply (idle_finish (set_finReq None s)); [apply HB_fin7|exact Rn|exact L7].
  - (* height committed *)
    match goal with |- context [if ?b then _ else _] => destruct b end; [|apply IF_noop; auto].
    apply (idle_finish (set_hcOpen false s)); [apply HB_height_committed|exact Rn|exact L7].
  - (* block data *) apply idle_finish; [apply HB_block_data|exact Rn|exact L7].
  - apply IF_noop; auto.
Qed.

Lemma set_liveSeen_IF s s1 o b : IF s s1 o -> IF s (set_liveSeen b s1) o.
Proof. intros H. exact H. Qed.

Theorem idle_step s e : run s = Idle -> rS (rl s) <= 7 -> e <> EvStop ->
  IF s (fst (step s e)) (snd (step s e)).
Proof.
  intros Rn L7 NS. unfold step. destruct (deliverable s e) eqn:D.
  - rewrite <- deliverable_pend in D.
    pose proof (idle_dispatch (set_pend 0 s) e Rn L7 NS D) as H.
    destruct (dispatch (set_pend 0 s) e) as [s1 o]. simpl in *. exact H.
  - simpl. apply IF_noop; auto.
Qed.

(** ** What an event delivered while a round entrance response is awaited does *)
Definition AF (s s' : sm) (o : list out) : Prop :=
  (run s' = Idle -> cur s' = cur s /\ gen s <= gen s') /\
  (awaiting s' ->
     (rl s' = rl s /\ gen s' = gen s /\ (o = [] \/ o = [OUndeliverable])) \/
     (gen s < gen s' /\ ent_last o s' /\ (nowrap s -> hr_lt (cur s) (cur s')))) /\
  (ents o = 0%nat \/ (ents o = 1%nat /\ awaiting s')) /\
  run s' <> NotStarted /\
  (In K_decide (reqs o) -> run s' = Idle -> StepAwaitingPrecommits <= rS (rl s')) /\
  (In K_choose (reqs o) -> run s' = Idle -> StepAwaitingPrevotes <= rS (rl s')) /\
  rS (rl s') <= 7.

Lemma await_finish s r : HB false s r -> rS (rl s) <= 7 -> AF s (fst (finish r)) (snd (finish r)).
Proof.
  intros [HR Hrr Hec Hl7 Hasks _ _ _] L7.
  assert (D : forall k, In k (reqs (ou r)) -> fl r = Go -> asks_ok (st r) /\ cmk (st r) = Some k).
  { intros k H G. destruct (asked_held _ _ _ _ HR H) as [C K]. split; [exact (Hasks C G)|exact K]. }
  specialize (Hl7 L7).
  destruct r as [[s1 o] f]. unfold st, fl, ou, RRv in *. simpl in *.
  destruct f; simpl.
  - destruct Hrr as [G1 G2]. unfold AF. simpl.
    split; [intros _; split; [exact G1|exact G2]|]. split; [intros []|]. split; [left; exact Hec|]. split; [discriminate|].
    split; [intros H _; destruct (D _ H eq_refl) as [A K]; exact (proj1 A K)|].
    split; [intros H _; destruct (D _ H eq_refl) as [A K]; exact (proj2 A K)|exact Hl7].
  - destruct (susp_state s1) as (E1 & E2 & E3). cbv zeta in *.
    set (s2 := match run s1 with AwaitAdv _ | AwaitInit => s1 | _ => set_run (AwaitAdv None) s1 end) in *.
    destruct Hrr as (G1 & G2 & G3). unfold AF.
    split; [intros X; destruct (awaiting_not_idle _ E3 X)|].
    split; [intros _; right; rewrite E2; split; [exact G1|split; [apply (ent_last_rl o s1); auto|]]|].
    { unfold cur. rewrite E1. exact G3. }
    split; [right; split; [exact Hec|exact E3]|]. split; [apply awaiting_not_nst; exact E3|].
    split; [intros _ X; destruct (awaiting_not_idle _ E3 X)|].
    split; [intros _ X; destruct (awaiting_not_idle _ E3 X)|rewrite E1; exact Hl7].
  - unfold AF. simpl. split; [intros X; discriminate X|]. split; [intros []|].
    split; [left; rewrite ents_plain by reflexivity; exact Hec|]. split; [discriminate|].
    split; [intros _ X; discriminate X|]. split; [intros _ X; discriminate X|exact Hl7].
  - unfold AF. simpl. split; [intros X; discriminate X|]. split; [intros []|].
    split; [left; rewrite ents_plain by reflexivity; exact Hec|]. split; [discriminate|].
    split; [intros _ X; discriminate X|]. split; [intros _ X; discriminate X|exact Hl7].
  - unfold AF. simpl. split; [intros X; discriminate X|]. split; [intros []|].
    split; [left; rewrite ents_plain by reflexivity; exact Hec|]. split; [discriminate|].
    split; [intros _ X; discriminate X|]. split; [intros _ X; discriminate X|exact Hl7].
Qed.

Lemma AF_noop s s' o : awaiting s -> run s' = run s -> rl s' = rl s -> gen s' = gen s -> rS (rl s) <= 7 ->
  (o = [] \/ o = [OUndeliverable]) -> AF s s' o.
Proof.
  intros A R1 E1 E2 L7 Q. pose proof (awaiting_not_idle _ A) as NI. pose proof (awaiting_not_nst _ A) as NN.
  assert (Q1 : reqs o = []) by (destruct Q as [-> | ->]; reflexivity).
  assert (Q2 : ents o = 0%nat) by (destruct Q as [-> | ->]; reflexivity).
  unfold AF. rewrite Q1, R1.
  split; [intros X; contradiction|]. split; [intros _; left; auto|]. split; [left; exact Q2|]. split; [exact NN|].
  split; [intros []|]. split; [intros []|rewrite E1; exact L7].
Qed.

Lemma AF_dead s s' o : dead s' -> reqs o = [] -> ents o = 0%nat -> rS (rl s') <= 7 -> AF s s' o.
Proof.
  intros D Q1 Q2 L7. unfold AF, dead, awaiting in *. rewrite Q1.
  destruct (run s'); try contradiction;
    (split; [intros X; discriminate X|]; split; [intros []|]; split; [left; exact Q2|]; split; [discriminate|];
     split; [intros []|]; split; [intros []|exact L7]).
Qed.

Theorem await_dispatch s e : awaiting s -> rS (rl s) <= 7 -> e <> EvStop -> deliverable s e = true ->
  AF s (fst (dispatch s e)) (snd (dispatch s e)).
Proof.
  intros A L7 NS D. unfold awaiting in A.
  destruct e; unfold dispatch; unfold deliverable, idle_live in D.
  - destruct (run s); try contradiction; discriminate D.
  - congruence.
  - (* response: view *)
    destruct (run s) eqn:Rn; try contradiction.
    + destruct (is_ch_view v).
      * apply (await_finish (set_run Idle s)); [|exact L7].
        apply HB_enter; [apply hm_init_after_ch|apply rr_init_after_ch|apply ec_init_after_ch|apply le7_init_after_ch|].
        apply (tg_of_noreq false); [apply hm_init_after_ch|intros k; apply nr_init_after_ch].
      * apply (await_finish (set_run Idle s)); [|exact L7].
        apply HB_enter; [apply hm_init_after_vrv|apply rr_init_after_vrv|apply ec_init_after_vrv|apply le7_init_after_vrv|apply B_init_after_vrv].
    + destruct (is_ch_view v).
      * apply (await_finish (set_run Idle s)); [|exact L7].
        apply HB_resume; [apply hm_advance_after_ch|apply rr_advance_after_ch|apply ec_advance_after_ch|apply le7_advance_after_ch|].
        apply (tg_of_noreq false); [apply hm_advance_after_ch|intros k; apply nr_advance_after_ch].
      * apply (await_finish (set_run Idle s)); [|exact L7].
        apply HB_resume; [apply hm_advance_after_vrv|apply rr_advance_after_vrv|apply ec_advance_after_vrv|apply le7_advance_after_vrv|apply B_advance_after_vrv].
  - (* response: committed header *)
    destruct (run s) eqn:Rn; try contradiction.
    + apply (await_finish (set_run Idle s)); [|exact L7].
      apply HB_enter; [apply hm_init_after_ch|apply rr_init_after_ch|apply ec_init_after_ch|apply le7_init_after_ch|].
      apply (tg_of_noreq false); [apply hm_init_after_ch|intros k; apply nr_init_after_ch].
    + apply (await_finish (set_run Idle s)); [|exact L7].
      apply HB_resume; [apply hm_advance_after_ch|apply rr_advance_after_ch|apply ec_advance_after_ch|apply le7_advance_after_ch|].
      apply (tg_of_noreq false); [apply hm_advance_after_ch|intros k; apply nr_advance_after_ch].
  - destruct (run s); try contradiction; discriminate D.
  - destruct (run s); try contradiction; discriminate D.
  - (* answer *)
    destruct (cm s) as [[[ck g] op]|] eqn:EC; [|apply AF_noop; auto].
    destruct ((kind =? 1) && (ck =? K_consider)); [apply AF_noop; auto|].
    destruct (negb op).
    { apply AF_dead; [exact I|reflexivity|reflexivity|exact L7]. }
    assert (X : match run (set_cm None s) with Idle => true | _ => false end = false)
      by (simpl; destruct (run s); try contradiction; reflexivity).
    rewrite X. simpl. apply AF_noop; auto.
  - destruct (run s); try contradiction; discriminate D.
  - destruct (run s); try contradiction; discriminate D.
  - destruct (run s); try contradiction; discriminate D.
  - destruct (run s); try contradiction; discriminate D.
  - apply AF_noop; auto.
Qed.

Theorem await_step s e : awaiting s -> rS (rl s) <= 7 -> e <> EvStop ->
  AF s (fst (step s e)) (snd (step s e)).
Proof.
  intros A L7 NS. unfold step. destruct (deliverable s e) eqn:D.
  - rewrite <- deliverable_pend in D.
    pose proof (await_dispatch (set_pend 0 s) e A L7 NS D) as H.
    destruct (dispatch (set_pend 0 s) e) as [s1 o]. simpl in *. exact H.
  - simpl. apply AF_noop; auto.
Qed.

(** ** Not started, dead, and Stop *)
Theorem nst_step s e : run s = NotStarted -> e <> EvStop ->
  let s' := fst (step s e) in let o := snd (step s e) in
  reqs o = [] /\ noact o /\ gen s' = gen s /\ rS (rl s') = rS (rl s) /\
  ((run s' = NotStarted /\ rl s' = rl s /\ ents o = 0%nat) \/
   (run s' = AwaitInit /\ ent_last o s' /\ ents o = 1%nat) \/ (dead s' /\ ents o = 0%nat)).
Proof.
  intros Rn NS. unfold step.
  destruct e; unfold deliverable, started, idle_live, awaiting_re; rewrite ?Rn; simpl;
    try (repeat split; auto; try (repeat constructor; fail); left; auto; fail); try congruence.
  unfold dispatch.
  destruct (start_up_shape (set_pend 0 s)) as ([(F & E & L)|(F & E)] & G & S & C); unfold st, fl, ou in *;
    destruct (start_up (set_pend 0 s)) as [[s1 o] f]; simpl in *; subst f.
  - simpl. destruct E as (o' & pk & act & E). subst o. destruct o'; [|destruct o'; discriminate L]. simpl.
    split; [reflexivity|]. split; [repeat constructor|]. split; [exact G|]. split; [exact S|].
    right; left. split; [reflexivity|]. split; [eexists [], pk, act; reflexivity|reflexivity].
  - subst o. simpl. split; [reflexivity|]. split; [repeat constructor|]. split; [exact G|]. split; [exact S|].
    right; right. split; [exact I|reflexivity].
Qed.

Theorem dead_step s e : dead s -> e <> EvStop ->
  let s' := fst (step s e) in let o := snd (step s e) in
  dead s' /\ reqs o = [] /\ noact o /\ ents o = 0%nat /\ rl s' = rl s /\ gen s' = gen s.
Proof.
  intros D NS. unfold dead in D. unfold step.
  destruct (run s) eqn:Rn; try contradiction;
    destruct e; unfold deliverable, started, idle_live, awaiting_re; rewrite ?Rn; simpl;
    try (unfold dead; rewrite ?Rn; repeat split; auto; repeat constructor; fail); try congruence.
  - (* Halted, answer *)
    destruct (cm s) as [[[ck g] op]|] eqn:EC; simpl; [|unfold dead; rewrite Rn; repeat split; auto; repeat constructor].
    destruct ((kind =? 1) && (ck =? K_consider)); simpl; [unfold dead; simpl; rewrite Rn; repeat split; auto; repeat constructor|].
    destruct (negb op); simpl; [unfold dead; simpl; repeat split; auto; repeat constructor|].
    rewrite Rn. simpl. unfold dead. simpl. rewrite Rn. repeat split; auto; repeat constructor.
  - (* Halted, arm *)
    unfold dead. simpl. rewrite Rn. repeat split; auto; repeat constructor.
Qed.

Theorem stop_step s :
  let s' := fst (step s EvStop) in let o := snd (step s EvStop) in
  (s' = s /\ o = [OUndeliverable]) \/ (run s' = NotStarted /\ o = [] /\ gen s' = 0 /\ rl s' = rlc0).
Proof.
  unfold step. destruct (deliverable s EvStop); simpl; auto.
Qed.

Lemma event_eq_stop e : e = EvStop \/ e <> EvStop.
Proof. destruct e; auto; right; discriminate. Qed.

(** the step stays a step constant along every event *)
Theorem step_le7 s e : rS (rl s) <= 7 -> rS (rl (fst (step s e))) <= 7.
Proof.
  intros L7. destruct (event_eq_stop e) as [->|NS].
  - destruct (stop_step s) as [[E _]|(_ & _ & _ & E)]; cbv zeta in *; rewrite E; [exact L7|vm_compute; discriminate].
  - destruct (run s) eqn:Rn.
    + destruct (nst_step s e Rn NS) as (_ & _ & _ & E & _). cbv zeta in E. rewrite E. exact L7.
    + assert (A : awaiting s) by (unfold awaiting; rewrite Rn; exact I).
      exact (proj2 (proj2 (proj2 (proj2 (proj2 (proj2 (await_step s e A L7 NS))))))).
    + assert (A : awaiting s) by (unfold awaiting; rewrite Rn; exact I).
      exact (proj2 (proj2 (proj2 (proj2 (proj2 (proj2 (await_step s e A L7 NS))))))).
    + exact (proj2 (proj2 (proj2 (proj2 (proj2 (proj2 (idle_step s e Rn L7 NS))))))).
    + assert (A : dead s) by (unfold dead; rewrite Rn; exact I).
      destruct (dead_step s e A NS) as (_ & _ & _ & _ & E & _). cbv zeta in E. rewrite E. exact L7.
    + assert (A : dead s) by (unfold dead; rewrite Rn; exact I).
      destruct (dead_step s e A NS) as (_ & _ & _ & _ & E & _). cbv zeta in E. rewrite E. exact L7.
    + assert (A : dead s) by (unfold dead; rewrite Rn; exact I).
      destruct (dead_step s e A NS) as (_ & _ & _ & _ & E & _). cbv zeta in E. rewrite E. exact L7.
Qed.
