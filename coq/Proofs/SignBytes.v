(** Proofs about the sign bytes of SimpleSignatureScheme (Model/SignBytes.v):
    injectivity per kind, pairwise disjointness of the kinds, and what a proposal signature covers. *)
From Coq Require Import List NArith ZArith String Ascii Bool Lia.
From GV Require Import Base.Ints Model.TextFmt Model.HashScheme Model.SignBytes Monitors.C15m Proofs.TextFmt.
Import ListNotations.
Local Open Scope N_scope.

(** Replace every label by its bytes. *)
Ltac norm_labels :=
  repeat match goal with
  | |- context [s2b ?s] => let v := eval vm_compute in (s2b s) in change (s2b s) with v
  | H : context [s2b ?s] |- _ => let v := eval vm_compute in (s2b s) in change (s2b s) with v in H
  end.

(** One "payload then newline" field whose payload is over the hex/decimal alphabet. *)
Ltac field_dec E E1 :=
  apply split_field with (P := is_hexchar) in E;
  [destruct E as [E1 E]; apply dec_inj in E1 | apply dec_chars | apply dec_chars | reflexivity].
Ltac field_hex E E1 :=
  apply split_field with (P := is_hexchar) in E;
  [destruct E as [E1 E]; apply hex_inj in E1; [|assumption|assumption]
  | apply hex_chars; assumption | apply hex_chars; assumption | reflexivity].

Definition opt_ok (o : option (list N)) : Prop := match o with Some v => bytes_ok v | None => True end.
Definition ann_ok (a : annotations) : Prop := opt_ok (an_user a) /\ opt_ok (an_driver a).

(** ** Optional annotation lines (shared by the hash scheme and the proposal sign bytes) *)
Lemma ser_annotation_inj l a a' :
  s2b l <> [] -> opt_ok a -> opt_ok a' -> ser_annotation l a = ser_annotation l a' -> a = a'.
Proof.
  intros Hl Ha Ha' E. destruct a as [v|], a' as [v'|]; cbn [ser_annotation opt_ok] in *; try reflexivity.
  - apply app_inv_head in E. unfold nl in E. field_hex E E1. now subst.
  - destruct (s2b l); [congruence|discriminate].
  - destruct (s2b l); [congruence|discriminate].
Qed.

Lemma ann_tail_inj lu ld cu cd ru rd u d u' d' :
  s2b lu = cu :: ru -> s2b ld = cd :: rd -> cu <> cd ->
  opt_ok u -> opt_ok d -> opt_ok u' -> opt_ok d' ->
  ser_annotation lu u ++ ser_annotation ld d = ser_annotation lu u' ++ ser_annotation ld d' ->
  u = u' /\ d = d'.
Proof.
  intros Hu Hd Hne Ou Od Ou' Od' E.
  assert (Hdn : s2b ld <> []) by (rewrite Hd; discriminate).
  destruct u as [v|], u' as [v'|]; cbn [ser_annotation opt_ok] in *.
  - rewrite <- !app_assoc in E. apply app_inv_head in E. unfold nl in E. cbn [app] in E.
    field_hex E E1. subst. split; [reflexivity|]. eapply ser_annotation_inj; eauto.
  - exfalso. rewrite <- !app_assoc, Hu in E. cbn [app] in E.
    destruct d' as [w|]; cbn [ser_annotation] in E; [rewrite Hd in E; cbn [app] in E; congruence|discriminate].
  - exfalso. rewrite <- !app_assoc, Hu in E. cbn [app] in E.
    destruct d as [w|]; cbn [ser_annotation] in E; [rewrite Hd in E; cbn [app] in E; congruence|discriminate].
  - split; [reflexivity|]. cbn [app] in E. eapply ser_annotation_inj; eauto.
Qed.

(** ** Votes *)
Definition vt_ok (vt : vote_target) : Prop := bytes_ok (vt_block_hash vt).

Lemma vote_target_eq h r b h' r' b' : h = h' -> r = r' -> b = b' ->
  Build_vote_target h r b = Build_vote_target h' r' b'.
Proof. congruence. Qed.

Ltac vote_cases :=
  intros [h r [|b bh]] [h' r' [|b' bh']] Hok Hok' E;
  unfold vt_ok, vote_sign_bytes, prevote_sign_bytes, precommit_sign_bytes in *;
  cbn [vt_height vt_round vt_block_hash] in *.

(** Full statement: kind, height, round and block hash (nil = []) are determined by the bytes. *)
Lemma sign_bytes_injective k k' : forall vt vt', vt_ok vt -> vt_ok vt' ->
  vote_sign_bytes k vt = vote_sign_bytes k' vt' -> k = k' /\ vt = vt'.
Proof.
  destruct k, k'; vote_cases;
    try (exfalso; norm_labels; unfold nl in E; cbn [app] in E; discriminate);
    (split; [reflexivity|]);
    repeat apply app_inv_head in E; unfold nl in E; cbn [app] in E;
    field_dec E E1; apply app_inv_head in E; field_dec E E2;
    try (apply app_inv_head in E; field_hex E E3);
    apply vote_target_eq; congruence.
Qed.

Lemma prevote_precommit_disjoint vt vt' : prevote_sign_bytes vt <> precommit_sign_bytes vt'.
Proof.
  destruct vt as [h r [|b bh]], vt' as [h' r' [|b' bh']];
    unfold prevote_sign_bytes, precommit_sign_bytes; cbn [vt_height vt_round vt_block_hash];
    intros E; norm_labels; unfold nl in E; cbn [app] in E; discriminate.
Qed.

Lemma vote_proposal_disjoint k vt h r pb : vote_sign_bytes k vt <> proposal_sign_bytes h r pb.
Proof.
  destruct k, vt as [vh vr [|b bh]];
    unfold vote_sign_bytes, prevote_sign_bytes, precommit_sign_bytes, proposal_sign_bytes;
    cbn [vt_height vt_round vt_block_hash];
    intros E; norm_labels; unfold nl in E; cbn [app] in E; discriminate.
Qed.

(** ** Proposals *)
Definition proposal_ok (h : header) (pb : annotations) : Prop :=
  bytes_ok (h_prev_block_hash h) /\ bytes_ok (h_prev_app_state_hash h) /\ bytes_ok (h_data_id h) /\ ann_ok pb.

(** What a proposal signature covers. *)
Definition proposal_same (h : header) (r : N) (pb : annotations) (h' : header) (r' : N) (pb' : annotations) : Prop :=
  h_height h = h_height h' /\ r = r' /\
  h_prev_block_hash h = h_prev_block_hash h' /\
  h_prev_app_state_hash h = h_prev_app_state_hash h' /\
  h_data_id h = h_data_id h' /\
  an_user pb = an_user pb' /\ an_driver pb = an_driver pb'.

Lemma proposal_bytes_injective h r pb h' r' pb' :
  proposal_ok h pb -> proposal_ok h' pb' ->
  proposal_sign_bytes h r pb = proposal_sign_bytes h' r' pb' -> proposal_same h r pb h' r' pb'.
Proof.
  intros (O1 & O2 & O3 & O4 & O5) (O1' & O2' & O3' & O4' & O5') E.
  unfold proposal_sign_bytes in E.
  repeat apply app_inv_head in E. unfold nl in E. cbn [app] in E.
  field_dec E E1. apply app_inv_head in E. field_dec E E2.
  apply app_inv_head in E. field_hex E E3.
  apply app_inv_head in E. field_hex E E4.
  apply app_inv_head in E. field_hex E E5.
  eapply ann_tail_inj in E; [|reflexivity|reflexivity|discriminate|assumption..].
  destruct E as [E6 E7]. repeat split; assumption.
Qed.

(** Converse: nothing else of the header is signed (not Hash, not the validator sets, not the
    previous commit proof, not the header's own annotations). *)
Lemma proposal_bytes_only_signed_fields h r pb h' r' pb' :
  proposal_same h r pb h' r' pb' -> proposal_sign_bytes h r pb = proposal_sign_bytes h' r' pb'.
Proof.
  intros (E1 & E2 & E3 & E4 & E5 & E6 & E7). unfold proposal_sign_bytes.
  now rewrite E1, E2, E3, E4, E5, E6, E7.
Qed.

(** ** All sign targets together *)
Definition target_ok (t : sign_target) : Prop :=
  match t with SignVote _ vt => vt_ok vt | SignProposal h _ pb => proposal_ok h pb end.

Definition target_same (a b : sign_target) : Prop :=
  match a, b with
  | SignVote k vt, SignVote k' vt' => k = k' /\ vt = vt'
  | SignProposal h r pb, SignProposal h' r' pb' => proposal_same h r pb h' r' pb'
  | _, _ => False
  end.

Lemma sign_target_injective a b : target_ok a -> target_ok b ->
  sign_bytes a = sign_bytes b -> target_same a b.
Proof.
  destruct a as [k vt|h r pb], b as [k' vt'|h' r' pb']; cbn [target_ok sign_bytes target_same]; intros Oa Ob E.
  - now apply sign_bytes_injective.
  - now apply vote_proposal_disjoint in E.
  - symmetry in E. now apply vote_proposal_disjoint in E.
  - now apply proposal_bytes_injective.
Qed.

Lemma sign_target_same_bytes a b : target_same a b -> sign_bytes a = sign_bytes b.
Proof.
  destruct a as [k vt|h r pb], b as [k' vt'|h' r' pb']; cbn [sign_bytes target_same]; try contradiction.
  - intros [-> ->]. reflexivity.
  - apply proposal_bytes_only_signed_fields.
Qed.

(** ** The executable monitor agrees with the propositions above. *)
Lemma opt_bytes_eqb_eq a b : opt_bytes_eqb a b = true <-> a = b.
Proof.
  destruct a, b; cbn [opt_bytes_eqb]; split; intros H; try discriminate; try reflexivity.
  - apply bytes_eqb_eq in H. now subst.
  - injection H as ->. apply bytes_eqb_refl.
Qed.

Lemma sign_target_eqb_same a b : sign_target_eqb a b = true <-> target_same a b.
Proof.
  destruct a as [k vt|h r pb], b as [k' vt'|h' r' pb']; cbn [sign_target_eqb target_same];
    try (split; [discriminate|contradiction]).
  - unfold vote_target_eqb. rewrite !andb_true_iff, !N.eqb_eq, bytes_eqb_eq.
    destruct vt as [h r b], vt' as [h' r' b']; cbn [vt_height vt_round vt_block_hash]. split.
    + intros (Hk & (-> & ->) & ->). split; [|reflexivity]. destruct k, k'; try reflexivity; discriminate.
    + intros [-> E]. injection E as -> -> ->. destruct k'; auto.
  - unfold proposal_eqb, proposal_same, annotations_eqb.
    rewrite !andb_true_iff, !N.eqb_eq, !bytes_eqb_eq, !opt_bytes_eqb_eq. tauto.
Qed.

Lemma model_satisfies_sign_mon a b : target_ok a -> target_ok b ->
  c15_sign_pair_mon a (sign_bytes a) b (sign_bytes b) = true.
Proof.
  intros Oa Ob. unfold c15_sign_pair_mon.
  destruct (sign_target_eqb a b) eqn:E.
  - apply sign_target_eqb_same, sign_target_same_bytes in E. rewrite E, bytes_eqb_refl. reflexivity.
  - destruct (bytes_eqb (sign_bytes a) (sign_bytes b)) eqn:E2; [|reflexivity].
    apply bytes_eqb_eq, sign_target_injective, sign_target_eqb_same in E2; auto. congruence.
Qed.

(** Non-vacuity: a nil prevote and a proposal, rendered. *)
Example prevote_nil_example :
  prevote_sign_bytes (Build_vote_target 7 2 []) = s2b "NIL PREVOTE:" ++ nl ++ s2b "Height=7" ++ nl ++ s2b "Round=2" ++ nl.
Proof. vm_compute. reflexivity. Qed.
