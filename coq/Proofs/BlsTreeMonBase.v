(** C13 (BLS tree) - bridge between the monitor's vocabulary (child-map ranges, masks, bit lists) and the model. *)
From Coq Require Import List NArith ZArith String Bool Lia Arith Permutation.
From GV Require Import Base.Ints Model.SimpleProofBase Model.BlsTree Monitors.C13Blsm
  Proofs.BlsTreeBase Proofs.BlsTreeAdd Proofs.BlsTreeProof Proofs.BlsTreeMachine Proofs.BlsTreeSparse
  Proofs.BlsTreeMerge.
Import ListNotations.
Local Open Scope N_scope.

(* ------------------------------------------------------------------ pow2_ge = leaves_width *)
Lemma pow2_ge_all : forallb (fun n => N.eqb (pow2_ge n) (leaves_width n)) (rangeN 1 65535) = true.
Proof. vm_compute. reflexivity. Qed.

Lemma pow2_ge_lw : forall n, 1 <= n <= 65535 -> pow2_ge n = leaves_width n.
Proof.
  intros n Hn. pose proof pow2_ge_all as H. rewrite forallb_forall in H. apply N.eqb_eq. apply H.
  apply rangeN_In. lia.
Qed.

Lemma pow2_ge_wf : forall h t, wf_tree h t -> t_n t <= 65535 -> pow2_ge (t_n t) = p2 h.
Proof.
  intros h t Hwf Hn. rewrite pow2_ge_lw; [apply (wf_lw _ _ Hwf)|]. pose proof (wf_n1 _ _ Hwf). lia.
Qed.

(* ------------------------------------------------------------------ node ranges by the child map *)
Lemma node_lo_hi : forall h m d off fuel, (h = d + m)%nat -> off < p2 d -> (m < fuel)%nat ->
  node_lo fuel (p2 h) (nidx h d off) = off * p2 m /\
  node_hi fuel (p2 h) (nidx h d off) = off * p2 m + p2 m.
Proof.
  intros h. induction m; intros d off fuel Hh Ho Hf.
  - assert (d = h) by lia. subst d. destruct fuel; [lia|]. cbn [node_lo node_hi]. unfold nidx. rewrite lstart_h.
    replace (0 + off <? p2 h) with true by (symmetry; apply N.ltb_lt; lia). cbn [p2]. lia.
  - destruct fuel; [lia|]. cbn [node_lo node_hi].
    assert (Hd : (S d <= h)%nat) by lia. pose proof (p2_mono (S d) h Hd) as Hm. cbn [p2] in Hm.
    pose proof (p2_pos d) as Hpd.
    assert (Hge : p2 h <= nidx h d off) by (unfold nidx, lstart; lia).
    replace (nidx h d off <? p2 h) with false by (symmetry; apply N.ltb_ge; exact Hge).
    assert (E1 : 2 * (nidx h d off - p2 h) = nidx h (S d) (2 * off)) by (unfold nidx, lstart; cbn [p2]; lia).
    rewrite E1. replace (nidx h (S d) (2 * off) + 1) with (nidx h (S d) (2 * off + 1)) by (unfold nidx; lia).
    destruct (IHm (S d) (2 * off) fuel ltac:(lia) ltac:(cbn [p2]; lia) ltac:(lia)) as [A _].
    destruct (IHm (S d) (2 * off + 1) fuel ltac:(lia) ltac:(cbn [p2]; lia) ltac:(lia)) as [_ B].
    rewrite A, B. cbn [p2]. lia.
Qed.

(** the monitor's leaves below a node = the leaves aggregated by the key the model stores there *)
Lemma leaves_under_of : forall h t d off, wf_tree h t -> t_n t <= 65535 -> (d <= h)%nat -> off < p2 d ->
  leaves_under (t_n t) (nidx h d off) = leaves_of (t_keys t) (nidx h d off).
Proof.
  intros h t d off Hwf Hn Hd Ho. unfold leaves_under, leaves_of. rewrite (pow2_ge_wf h t Hwf Hn).
  pose proof (wf_h _ _ Hwf) as Hh.
  destruct (node_lo_hi h (h - d) d off 20 ltac:(lia) Ho ltac:(lia)) as [A B]. rewrite A, B.
  unfold nidx. rewrite (wf_keys _ _ Hwf d off Hd Ho). unfold rkey. pose proof (p2_pos (h - d)) as Hp.
  set (lo := off * p2 (h - d)) in *. set (nl := p2 (h - d)) in *.
  destruct (lo <? t_n t) eqn:E.
  - apply N.ltb_lt in E. replace (lo <? N.min (lo + nl) (t_n t)) with true by (symmetry; apply N.ltb_lt; lia).
    reflexivity.
  - apply N.ltb_ge in E. replace (lo <? N.min (lo + nl) (t_n t)) with false by (symmetry; apply N.ltb_ge; lia).
    reflexivity.
Qed.

Lemma n_nodes_wf : forall h t, wf_tree h t -> t_n t <= 65535 -> n_nodes (t_n t) = 2 * p2 h - 1.
Proof. intros. unfold n_nodes. now rewrite (pow2_ge_wf h t). Qed.

Lemma leaves_under_idx : forall h t id, wf_tree h t -> t_n t <= 65535 -> id < n_nodes (t_n t) ->
  leaves_under (t_n t) id = leaves_of (t_keys t) id.
Proof.
  intros h t id Hwf Hn Hid. rewrite (n_nodes_wf h t Hwf Hn) in Hid.
  destruct (node_exists h id Hid) as (d & off & Hd & Ho & ->). now apply leaves_under_of.
Qed.

(* ------------------------------------------------------------------ masks *)
Lemma bit_spec : forall i j, N.testbit (bit i) j = N.eqb i j.
Proof. intros. unfold bit. rewrite N.shiftl_1_l. apply N.pow2_bits_eqb. Qed.

Lemma mask_of_spec : forall l i, N.testbit (mask_of l) i = true <-> In i l.
Proof.
  induction l as [|x l IH]; intro i; cbn [mask_of fold_right In].
  - rewrite N.bits_0. split; [discriminate|tauto].
  - fold (mask_of l). rewrite N.lor_spec, orb_true_iff, IH, bit_spec, N.eqb_eq. tauto.
Qed.

Lemma mask_of_zero : forall l, mask_of l = 0 <-> l = [].
Proof.
  intro l. split; intro H.
  - destruct l as [|x l]; [reflexivity|]. exfalso.
    assert (N.testbit (mask_of (x :: l)) x = true) by (apply mask_of_spec; left; reflexivity).
    rewrite H in H0. rewrite N.bits_0 in H0. discriminate.
  - subst. reflexivity.
Qed.

(* ------------------------------------------------------------------ bit lists *)
Lemma testbit_lt_size : forall b i, N.testbit b i = true -> i < N.size b.
Proof.
  intros b i H. destruct (N.eq_dec b 0) as [->|Hb]; [rewrite N.bits_0 in H; discriminate|].
  rewrite N.size_log2 by assumption. destruct (N.lt_ge_cases (N.log2 b) i) as [L|L]; [|lia].
  rewrite N.bits_above_log2 in H by assumption. discriminate.
Qed.

Lemma bits_list_spec : forall b i, In i (bits_list b) <-> N.testbit b i = true.
Proof.
  intros. unfold bits_list. rewrite filter_In, rangeN_In. split; [tauto|]. intro H. split; [|assumption].
  pose proof (testbit_lt_size b i H). lia.
Qed.

Lemma si_cons : forall a t, (forall x, In x t -> a < x) -> strictly_increasing t = true -> strictly_increasing (a :: t) = true.
Proof.
  intros a t H S. destruct t as [|y t']; [reflexivity|]. cbn [strictly_increasing] in *.
  rewrite S. replace (a <? y) with true; [reflexivity|]. symmetry. apply N.ltb_lt. apply H. left. reflexivity.
Qed.

Lemma si_filter_range : forall f c lo, strictly_increasing (filter f (rangeN_aux c lo)) = true /\
  forall x, In x (filter f (rangeN_aux c lo)) -> lo <= x.
Proof.
  induction c; intro lo; cbn [rangeN_aux filter]; [split; [reflexivity|intros x []]|].
  destruct (IHc (lo + 1)) as [A B]. destruct (f lo).
  - split.
    + apply si_cons; [|assumption]. intros x Hx. apply B in Hx. lia.
    + intros x [<-|Hx]; [lia|]. apply B in Hx. lia.
  - split; [assumption|]. intros x Hx. apply B in Hx. lia.
Qed.

Lemma bits_list_si : forall b, strictly_increasing (bits_list b) = true.
Proof. intro b. unfold bits_list, rangeN. apply si_filter_range. Qed.

Lemma all_lt_spec : forall l n, all_lt l n = true <-> forall x, In x l -> x < n.
Proof.
  induction l as [|a l IH]; intro n; cbn [all_lt In].
  - split; [intros _ x []|reflexivity].
  - rewrite andb_true_iff, IH, N.ltb_lt. split.
    + intros [A B] x [<-|Hx]; auto.
    + intro H. split; [apply H; left; reflexivity|]. intros x Hx. apply H. right. assumption.
Qed.

Lemma mask_of_bits_list : forall b, mask_of (bits_list b) = b.
Proof.
  intro b. apply same_bits_eq. intro i. rewrite mask_of_spec. apply bits_list_spec.
Qed.

Lemma bits_ok_model : forall n b, (forall i, N.testbit b i = true -> i < n) -> bits_ok n (bits_list b) b = true.
Proof.
  intros n b H. unfold bits_ok. rewrite bits_list_si, mask_of_bits_list, N.eqb_refl, !andb_true_r.
  apply all_lt_spec. intros x Hx. apply H. now apply bits_list_spec.
Qed.

(** bits of a proof with the invariant stay below n *)
Lemma pinv_bits_lt : forall p, pinv p -> forall i, N.testbit (p_bits p) i = true -> i < t_n (p_tree p).
Proof. intros p [h (_ & _ & Hex)] i Hi. apply Hex in Hi. tauto. Qed.

(* ------------------------------------------------------------------ masks as sets: lor, equality *)
Lemma lor_mask_iff : forall a l i, N.testbit (N.lor a (mask_of l)) i = true <-> N.testbit a i = true \/ In i l.
Proof. intros. rewrite N.lor_spec, orb_true_iff, mask_of_spec. tauto. Qed.
