(** C13 (BLS tree) - non-vacuity examples (key-set sizes that are no powers of two, aggregate ids reaching
    into the padding) and the witness refuting the sparse round trip above 32768 keys. *)
From Coq Require Import List NArith ZArith String Bool Lia.
From GV Require Import Base.Ints Model.SimpleProofBase Model.BlsTree Monitors.C13Blsm
  Proofs.BlsTreeBase Proofs.BlsTreeAdd Proofs.BlsTreeProof Proofs.BlsTreeMachine.
Import ListNotations.
Local Open Scope N_scope.

(** Derive(), then MergeSparse(AsSparse p): the resulting bit set *)
Definition roundtrip_bits (p : proof) : option N :=
  match as_sparse p with
  | Ok (h, ents) => match merge_sparse (derive p) h ents with
                    | Ok (q, _) => Some (p_bits q)
                    | Panic _ => None
                    end
  | Panic _ => None
  end.

Definition opt_N_eqb (a b : option N) : bool :=
  match a, b with Some x, Some y => N.eqb x y | None, None => true | _, _ => false end.

(** the register-0 proof after [ops] does NOT survive the sparse round trip *)
Definition roundtrip_fails (ops : list bop) : bool :=
  match reg_get (regs_after [] ops) 0%nat with
  | Some p => negb (opt_N_eqb (roundtrip_bits p) (Some (p_bits p)))
  | None => false
  end.

(** 32769 keys: leaves 0 and 1 sign, their aggregate sits at node 65536, whose id does not fit two bytes:
    AsSparse labels it 0, and the derived proof gains nothing.  (Replayed on the real code by the check.) *)
Definition big_ops : list bop :=
  [BNew 0 32769 0 0; BAdd 0 (SAgg 0 [0]) (Some [0]); BAdd 0 (SAgg 0 [1]) (Some [1])].

Theorem sparse_roundtrip_refuted : exists ops, roundtrip_fails ops = true.
Proof. exists big_ops. vm_compute. reflexivity. Qed.

Theorem sparse_id_truncation_refuted :
  exists n id, 1 <= n <= 65535 /\ id < 2 * leaves_width n - 1 /\ id_of_bytes (be16 (id mod 65536)) <> id.
Proof. exists 32769, 65536. vm_compute. repeat split; try discriminate; intros; discriminate. Qed.

Example big_run :
  run (big_ops ++ [BSparse 0; BDerive 0 1; BMergeFrom 1 0; BBits 0]) =
  [[0]; [0; 0]; [0; 0; 1]; [0; 0]; [0]; [0; 0; 0]; [0; 1]].
Proof. vm_compute. reflexivity. Qed.

(* ------------------------------------------------------------------ n = 5, 6, 7, 11 *)
(** n = 5: key 4 alone climbs through the padding to node 13 (= leaves 4..7, real: 4); id 13 round trips. *)
Example ex5 :
  run [BNew 0 5 0 0; BAdd 0 (SAgg 0 [4]) (Some [4]); BSparse 0; BDerive 0 1; BMergeFrom 1 0; BSparse 1; BBits 1;
       BHas 1 [0; 13]; BHas 1 [0; 4]; BMergeSparse 1 0 [([0; 4], SAgg 0 [4])]; BHas 1 [0; 10];
       BMergeSparse 1 0 [([0; 12], SAgg 0 [0; 1; 2; 3])]; BSparse 1] =
  [[0]; [0; 4]; [13; 1]; [0]; [1; 1; 0; 4]; [13; 1]; [4]; [1; 1]; [0; 1]; [1; 0; 0; 4]; [1; 1];
   [1; 1; 0; 0; 1; 2; 3; 4]; [14; 1]].
Proof. vm_compute. reflexivity. Qed.

(** n = 6: a parent (node 13 = leaves 4,5) arrives when only one child (leaf 4) is set; then the child 5
    arrives after the parent; node 11 is pure padding and is refused. *)
Example ex6 :
  run [BNew 0 6 0 0; BMergeSparse 0 0 [([0; 4], SAgg 0 [4]); ([0; 13], SAgg 0 [4; 5])]; BSparse 0;
       BMergeSparse 0 0 [([0; 5], SAgg 0 [5])]; BSparse 0; BHas 0 [0; 10];
       BMergeSparse 0 0 [([0; 11], SAgg 0 []); ([0; 13], SAgg 0 [4])]; BBits 0] =
  [[0]; [1; 1; 0; 4; 5]; [13; 1]; [1; 0; 0; 4; 5]; [13; 1]; [1; 1]; [0; 0; 0; 4; 5]; [4; 5]].
Proof. vm_compute. reflexivity. Qed.

(** n = 7: the same leaf alone and inside an aggregate; an aggregate of the wrong leaves is refused. *)
Example ex7 :
  run [BNew 0 7 0 0; BAdd 0 (SAgg 0 [6]) (Some [6]); BMergeSparse 0 0 [([0; 11], SAgg 0 [6])];
       BMergeSparse 0 0 [([0; 13], SAgg 0 [4; 5; 6]); ([0; 13], SAgg 0 [4; 5; 6; 7])]; BSparse 0; BBits 0] =
  [[0]; [0; 6]; [1; 0; 0; 6]; [0; 1; 0; 4; 5; 6]; [13; 1]; [4; 5; 6]].
Proof. vm_compute. reflexivity. Qed.

(** n = 11: leaves 8, 9, 10 aggregate to node 29 (= leaves 8..15, real: 8, 9, 10). *)
Example ex11 :
  run [BNew 0 11 0 0; BAdd 0 (SAgg 0 [10]) (Some [10]); BSparse 0; BAdd 0 (SAgg 0 [8]) (Some [8]);
       BAdd 0 (SAgg 0 [9]) (Some [9]); BSparse 0; BDerive 0 1; BMergeFrom 1 0; BBits 1] =
  [[0]; [0; 10]; [21; 1]; [0; 8; 10]; [0; 8; 9; 10]; [29; 1]; [0]; [1; 1; 0; 8; 9; 10]; [8; 9; 10]].
Proof. vm_compute. reflexivity. Qed.

(** the monitor accepts these model runs *)
Example ex_monitor :
  let ops := [BNew 0 5 0 0; BAdd 0 (SAgg 0 [4]) (Some [4]); BSparse 0; BDerive 0 1; BMergeFrom 1 0; BSparse 1;
              BMergeSparse 1 0 [([0; 12], SAgg 0 [0; 1; 2; 3]); ([0; 11], SAgg 0 []); ([0; 3], SBad 1)]; BBits 1] in
  c13bls_mon ops (run ops) = None.
Proof. vm_compute. reflexivity. Qed.

(** the hypotheses of the theorems are satisfiable: a fresh proof over 5 keys satisfies the invariant *)
Example ex_pinv : exists p, new_proof 0 5 0 = Ok p /\ pinv p.
Proof. destruct (new_proof_pinv 0 5 0 ltac:(lia)) as (p & A & B & _). eauto. Qed.
