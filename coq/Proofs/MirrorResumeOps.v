(** C10 (crash at any point): the store invariant [SI] holds of the stores of every state the
    kernel passes through BETWEEN two store writes, hence of every write prefix of every
    operation - except the one point between the committed-header write and the position write
    of a commit, where the header store is one header ahead of the stored position
    ([ends_hdr]; see Proofs/MirrorResume.v for what is proved there).

    [K] is what is carried from write to write: [INV] (cinv, auth_state, sinv, hinv), [pok]
    and the extras [X] of Proofs/MirrorResumeInv.v.  [pref s s'] says that the log of [s'] extends
    the log of [s] by writes whose every (non-ahead) prefix leaves stores satisfying [SI]. *)
From Coq Require Import List NArith Arith Bool Lia String.
From GV Require Import Base.Ints Gen.Math Gen.Kernel Model.Mirror
  Proofs.Thresholds Proofs.MirrorAuth Proofs.MirrorNoop Proofs.MirrorChain Proofs.MirrorCert
  Proofs.MirrorTotal Proofs.MirrorRestart Proofs.MirrorLog
  Proofs.MirrorResumeLoad Proofs.MirrorResumeInv Proofs.MirrorResumeStart Proofs.MirrorResumeAhead.
Import ListNotations.
Local Open Scope N_scope.

Definition K (ih : N) (ivs : valset) (s : kstate) : Prop := INV ih ivs s /\ pok s /\ X ih ivs s.

(** the voting view of [m] is about to commit the proposed header [p] *)
Definition commit_cond (m : kstate) (p : ph) : Prop :=
  In p (v_phs (k_vot m)) /\ hd_hash (ph_hdr p) <> [] /\ sm_mpc (v_sum (k_vot m)) = hd_hash (ph_hdr p) /\
  exists maj, byz_majority (sm_avail (v_sum (k_vot m))) = Ok maj /\
              maj <= map_get (sm_pcp (v_sum (k_vot m))) (hd_hash (ph_hdr p)).

Definition shift_pcp (m : kstate) : cproof :=
  mk_cproof (v_r (k_vot m)) (vs_pkh (v_vals (k_vot m))) (map (fun e => (fst e, as_sparse (snd e))) (v_pc (k_vot m))).

(** * Write prefixes *)
Definition ends_hdr (ws : list wr) : bool :=
  match rev ws with WHdr _ _ :: _ => true | _ => false end.

(** stores only move forward: no committed header is lost, the stored position does not regress *)

Definition sadv (a b : stores) : Prop :=
  (forall h x, In (h, x) (sr_hdrs a) -> In (h, x) (sr_hdrs b)) /\
  n_vh (sr_nhr a) <= n_vh (sr_nhr b) /\ n_ch (sr_nhr a) <= n_ch (sr_nhr b) /\
  (n_vh (sr_nhr b) = n_vh (sr_nhr a) ->
     n_ch (sr_nhr b) = n_ch (sr_nhr a) /\ n_cr (sr_nhr b) = n_cr (sr_nhr a) /\
     rsteps (n_vr (sr_nhr a)) (n_vr (sr_nhr b))).

Lemma sadv_refl a : sadv a a.
Proof. repeat split; try lia; auto. apply rs_refl. Qed.

Lemma sadv_trans a b c : sadv a b -> sadv b c -> sadv a c.
Proof.
  intros (A1&A2&A3&A4) (B1&B2&B3&B4). unfold sadv.
  split; [auto|]. split; [lia|]. split; [lia|].
  intros E. assert (Hb : n_vh (sr_nhr b) = n_vh (sr_nhr a)) by lia.
  assert (Hc : n_vh (sr_nhr c) = n_vh (sr_nhr b)) by lia.
  destruct (A4 Hb) as (X1&X2&X3). destruct (B4 Hc) as (Y1&Y2&Y3).
  split; [lia|]. split; [lia|]. eapply rsteps_trans; eassumption.
Qed.

Lemma adv_sadv ih ivs s s' : cinv ih ivs s -> cinv ih ivs s' -> adv s s' -> sadv (stores_of s) (stores_of s').
Proof.
  intros (_&_&_&_&_&Hn&_) (_&_&_&_&_&Hn'&_) (A1&A2&A3&A4).
  unfold sadv, stores_of. cbn [sr_hdrs sr_nhr]. rewrite Hn, Hn'. unfold n_vh, n_vr, n_ch, n_cr. cbn [fst snd].
  split; [exact A1|]. split; [exact A2|]. split; [exact A3|exact A4].
Qed.

(** stores one committed header ahead: the stores of a state [m] (between the stores [a] and [b])
    that is about to commit [p], plus the committed-header write of that commit *)
Definition ahead_ok2 (ih : N) (ivs : valset) (a b st : stores) : Prop :=
  exists m p, K ih ivs m /\ commit_cond m p /\ sadv a (stores_of m) /\ sadv (stores_of m) b /\
    st = apply_wr (stores_of m) (WHdr (hd_height (ph_hdr p)) (ph_hdr p, shift_pcp m)).

Definition pref (ih : N) (ivs : valset) (s s' : kstate) : Prop :=
  exists ws, st_log s' = st_log s ++ ws /\ stores_of s' = fold_left apply_wr ws (stores_of s) /\
    forall k,
      (ends_hdr (firstn k ws) = false ->
       SI ih ivs (fold_left apply_wr (firstn k ws) (stores_of s)) /\
       sadv (stores_of s) (fold_left apply_wr (firstn k ws) (stores_of s)) /\
       sadv (fold_left apply_wr (firstn k ws) (stores_of s)) (stores_of s')) /\
      (ends_hdr (firstn k ws) = true ->
       ahead_ok2 ih ivs (stores_of s) (stores_of s') (fold_left apply_wr (firstn k ws) (stores_of s))).

Lemma pref_quiet ih ivs s s' : st_log s' = st_log s -> stores_of s' = stores_of s ->
  SI ih ivs (stores_of s) -> pref ih ivs s s'.
Proof.
  intros L S H. exists []. rewrite app_nil_r. split; [exact L|]. split; [exact S|].
  intros k. rewrite firstn_nil. cbn [fold_left]. split; [|discriminate].
  intros _. rewrite S. split; [exact H|]. split; apply sadv_refl.
Qed.

Lemma pref_refl ih ivs s : SI ih ivs (stores_of s) -> pref ih ivs s s.
Proof. apply pref_quiet; reflexivity. Qed.

Lemma pref_one ih ivs s s' w :
  st_log s' = st_log s ++ [w] -> stores_of s' = apply_wr (stores_of s) w ->
  SI ih ivs (stores_of s) -> SI ih ivs (stores_of s') -> sadv (stores_of s) (stores_of s') ->
  ends_hdr [w] = false -> pref ih ivs s s'.
Proof.
  intros L S H H' A Hw. exists [w]. split; [exact L|]. split; [exact S|].
  intros [|k]; cbn [firstn fold_left].
  - split; [|discriminate]. intros _. split; [exact H|]. split; [apply sadv_refl|exact A].
  - rewrite firstn_nil. cbn [fold_left]. split; [|rewrite Hw; discriminate].
    intros _. rewrite <- S. split; [exact H'|]. split; [exact A|apply sadv_refl].
Qed.

(** the commit: the committed-header write followed by the position write *)
Lemma pref_commit ih ivs s s' p nhr :
  st_log s' = (st_log s ++ [WHdr (hd_height (ph_hdr p)) (ph_hdr p, shift_pcp s)]) ++ [WNhr nhr] ->
  stores_of s' = apply_wr (apply_wr (stores_of s) (WHdr (hd_height (ph_hdr p)) (ph_hdr p, shift_pcp s))) (WNhr nhr) ->
  SI ih ivs (stores_of s) -> SI ih ivs (stores_of s') -> sadv (stores_of s) (stores_of s') ->
  K ih ivs s -> commit_cond s p -> pref ih ivs s s'.
Proof.
  intros L S H H' A HK Hcc. exists [WHdr (hd_height (ph_hdr p)) (ph_hdr p, shift_pcp s); WNhr nhr].
  split; [rewrite L, <- app_assoc; reflexivity|]. split; [exact S|].
  intros [|[|k]]; cbn [firstn fold_left].
  - split; [|discriminate]. intros _. split; [exact H|]. split; [apply sadv_refl|exact A].
  - split; [discriminate|]. intros _. exists s, p. split; [exact HK|]. split; [exact Hcc|].
    split; [apply sadv_refl|]. split; [exact A|reflexivity].
  - rewrite firstn_nil. cbn [fold_left]. split; [|discriminate].
    intros _. rewrite <- S. split; [exact H'|]. split; [exact A|apply sadv_refl].
Qed.

Lemma ends_hdr_app a b : b <> [] -> ends_hdr (a ++ b) = ends_hdr b.
Proof.
  intros Hb. unfold ends_hdr. rewrite rev_app_distr.
  destruct (rev b) as [|w t] eqn:E; [|reflexivity].
  apply (f_equal (@rev wr)) in E. rewrite rev_involutive in E. cbn in E. contradiction.
Qed.

Lemma pref_ends ih ivs a b : pref ih ivs a b -> sadv (stores_of a) (stores_of b).
Proof.
  intros (w&L&S&P). destruct (P 0%nat) as [P0 _]. destruct P0 as (_&_&H); [reflexivity|].
  cbn [firstn fold_left] in H. exact H.
Qed.

Lemma pref_trans ih ivs a b c : pref ih ivs a b -> pref ih ivs b c -> pref ih ivs a c.
Proof.
  intros Hab Hbc. pose proof (pref_ends _ _ _ _ Hab) as Aab. pose proof (pref_ends _ _ _ _ Hbc) as Abc.
  destruct Hab as (w1&L1&S1&P1). destruct Hbc as (w2&L2&S2&P2). exists (w1 ++ w2).
  split; [rewrite L2, L1, app_assoc; reflexivity|].
  split; [rewrite S2, S1, fold_left_app; reflexivity|].
  intros k. rewrite firstn_app.
  destruct (firstn (k - List.length w1) w2) as [|x l] eqn:E.
  - rewrite app_nil_r. destruct (P1 k) as [Pc Pa]. split.
    + intros Hk. destruct (Pc Hk) as (Q1&Q2&Q3).
      split; [exact Q1|]. split; [exact Q2|eapply sadv_trans; eassumption].
    + intros Hk. destruct (Pa Hk) as (m&p&A1&A2&A3&A4&A5). exists m, p.
      split; [exact A1|]. split; [exact A2|]. split; [exact A3|]. split; [eapply sadv_trans; eassumption|exact A5].
  - assert (Hlen : (List.length w1 <= k)%nat).
    { destruct (Nat.le_gt_cases (List.length w1) k) as [Hle|Hgt]; [exact Hle|].
      replace (k - List.length w1)%nat with 0%nat in E by lia. discriminate E. }
    rewrite (firstn_all2 w1) by exact Hlen.
    rewrite (ends_hdr_app w1 (x :: l)) by discriminate.
    rewrite fold_left_app, <- S1.
    destruct (P2 (k - List.length w1)%nat) as [Pc Pa]. rewrite E in Pc, Pa.
    split.
    + intros Hk. destruct (Pc Hk) as (Q1&Q2&Q3).
      split; [exact Q1|]. split; [eapply sadv_trans; eassumption|exact Q3].
    + intros Hk. destruct (Pa Hk) as (m&p&A1&A2&A3&A4&A5). exists m, p.
      split; [exact A1|]. split; [exact A2|]. split; [eapply sadv_trans; eassumption|]. split; [exact A4|exact A5].
Qed.

(** * Round-store cells *)
Lemma rs_get_set rs h r e h' r' :
  rs_get (rs_set rs h r e) h' r' = if (h =? h') && (r =? r') then Some e else rs_get rs h' r'.
Proof.
  induction rs as [|[[h0 r0] e0] t IH]; cbn [rs_set rs_get].
  - reflexivity.
  - destruct ((h0 =? h) && (r0 =? r)) eqn:E0; cbn [rs_get].
    + apply andb_true_iff in E0 as [A B]. apply N.eqb_eq in A, B. subst h0 r0.
      destruct ((h =? h') && (r =? r')); reflexivity.
    + destruct ((h0 =? h') && (r0 =? r')) eqn:E1.
      * destruct ((h =? h') && (r =? r')) eqn:E2; [|reflexivity].
        apply andb_true_iff in E1 as [A B]. apply andb_true_iff in E2 as [C D].
        apply N.eqb_eq in A, B, C, D. subst. rewrite !N.eqb_refl in E0. discriminate.
      * exact IH.
Qed.

Lemma rs_entry_set rs h r e h' r' :
  rs_entry (rs_set rs h r e) h' r' = if (h =? h') && (r =? r') then e else rs_entry rs h' r'.
Proof. unfold rs_entry. rewrite rs_get_set. destruct ((h =? h') && (r =? r')); reflexivity. Qed.

(** * Updating one cell of a store satisfying [SI] *)
Lemma SI_set_cell ih ivs st vh vr ch cr h r e' :
  SI ih ivs st -> sr_nhr st = (vh, vr, ch, cr) -> h <= vh ->
  (h = vh -> rentry_good ih (vs_keys (chain_vals ih ivs (sr_hdrs st) vh)) (sr_hdrs st) vh r e') ->
  (h = ch -> r = cr -> sr_hdrs st <> [] ->
     committing_good (vs_keys (chain_vals ih ivs (sr_hdrs st) ch)) ch cr e') ->
  SI ih ivs (mk_stores (sr_nhr st) (sr_hdrs st) (rs_set (sr_rounds st) h r e') (sr_replayed st)).
Proof.
  intros (vh0&vr0&ch0&cr0&Hn&Hshape&Hfine&Hcert&Hrounds&Hrep) Hnhr Hle Hv Hc.
  rewrite Hn in Hnhr. inversion Hnhr; subst vh0 vr0 ch0 cr0. clear Hnhr.
  exists vh, vr, ch, cr. cbn [sr_nhr sr_hdrs sr_rounds sr_replayed].
  split; [exact Hn|]. split.
  { destruct Hshape as [Hs|(Hchain&E1&E2&Hcg)]; [left; exact Hs|right].
    split; [exact Hchain|]. split; [exact E1|]. split; [exact E2|].
    rewrite rs_entry_set. destruct ((h =? ch) && (r =? cr)) eqn:E; [|exact Hcg].
    apply andb_true_iff in E as [A B]. apply N.eqb_eq in A, B. apply Hc; try assumption.
    destruct (hchain_top _ _ _ Hchain) as (x&cp&rest&El). rewrite El. discriminate. }
  split; [exact Hfine|]. split; [exact Hcert|]. split; [|exact Hrep].
  intros h' r' e0. rewrite rs_get_set. destruct ((h =? h') && (r =? r')) eqn:E.
  - apply andb_true_iff in E as [A B]. apply N.eqb_eq in A, B. subst h' r'.
    intros E0; inversion E0; subst e0. split; [exact Hle|exact Hv].
  - apply Hrounds.
Qed.

(** the stored position changes its voting round only *)
Lemma SI_set_round ih ivs st vh vr ch cr vr' :
  SI ih ivs st -> sr_nhr st = (vh, vr, ch, cr) ->
  SI ih ivs (mk_stores (vh, vr', ch, cr) (sr_hdrs st) (sr_rounds st) (sr_replayed st)).
Proof.
  intros (vh0&vr0&ch0&cr0&Hn&Hshape&Hfine&Hcert&Hrounds&Hrep) Hnhr.
  rewrite Hn in Hnhr. inversion Hnhr; subst vh0 vr0 ch0 cr0. clear Hnhr.
  exists vh, vr', ch, cr. cbn [sr_nhr sr_hdrs sr_rounds sr_replayed].
  split; [reflexivity|]. repeat (split; [assumption|]). assumption.
Qed.

Lemma stores_eta st : mk_stores (sr_nhr st) (sr_hdrs st) (sr_rounds st) (sr_replayed st) = st.
Proof. destruct st; reflexivity. Qed.

(** * The views' validator sets are the ones the stores prescribe *)
Lemma vot_vals ih ivs s : cinv ih ivs s ->
  v_vals (k_vot s) = chain_vals ih ivs (st_hdrs s) (v_h (k_vot s)) /\
  v_vals (k_nxt s) = chain_vals ih ivs (st_hdrs s) (v_h (k_vot s)).
Proof.
  intros (Hi1&Hi2&Hi3&Hnh&Hnr&Hnhr&Hvv&Hvn&Hok&Hphs&Hch).
  rewrite Hvv, Hvn. unfold expected_vals, chain_ok in *.
  destruct (k_chdr s) as [ch|].
  - destruct Hch as (C1&C2&C3&(cp&rest&Hst)&Hchain).
    destruct (hchain_bounds _ _ _ Hchain) as [Hb _].
    assert (E : chain_vals ih ivs (st_hdrs s) (v_h (k_vot s)) = hd_next ch).
    { unfold chain_vals. destruct (N.eqb_spec (v_h (k_vot s)) ih) as [E|_]; [lia|].
      rewrite Hst. cbn [find fst]. replace (v_h (k_vot s) - 1) with (hd_height ch) by lia.
      rewrite N.eqb_refl. reflexivity. }
    rewrite E. split; reflexivity.
  - destruct Hch as (_&_&_&C4). rewrite C4, chain_vals_at_init, Hi2. split; reflexivity.
Qed.

Lemma cinv_nhr ih ivs s : cinv ih ivs s ->
  st_nhr s = (v_h (k_vot s), v_r (k_vot s), v_h (k_com s), v_r (k_com s)).
Proof. intros (_&_&_&_&_&H&_). exact H. Qed.

(** * Round increments (advance, jump) *)
Lemma X_increment ih ivs s : cinv ih ivs s -> X ih ivs s ->
  X ih ivs (update_observers (increment_voting_round s)).
Proof.
  intros Hc (Xc&(Nc&Nv&Nn)&(N1v&N1n)&Xk&Xs).
  pose proof Hc as (Hi1&Hi2&Hi3&Hnh&Hnr&Hnhr&_).
  split; [exact Xc|]. split.
  { unfold ne_state, update_observers, increment_voting_round. cbn.
    split; [exact Nc|]. split; [exact Nn|]. split; intros t p []. }
  split.
  { unfold n1, n1_view, update_observers, increment_voting_round. cbn. split; [exact N1n|].
    intros H; contradiction. }
  split.
  { destruct Xk as [Xk0 [Yv Yn]]. split.
    - unfold kok0, update_observers, increment_voting_round. cbn. intros p [Hp|[]]. apply Xk0. right; exact Hp.
    - split.
      + apply (yview_bump (st_rounds s) (st_replayed s) (k_nxt s)). exact Yn.
      + apply yview_fresh. reflexivity. }
  change (SI ih ivs (mk_stores (v_h (k_nxt s), v_r (k_nxt s), v_h (k_com s), v_r (k_com s))
                               (st_hdrs s) (st_rounds s) (st_replayed s))).
  rewrite Hnh.
  exact (SI_set_round ih ivs (stores_of s) (v_h (k_vot s)) (v_r (k_vot s)) (v_h (k_com s)) (v_r (k_com s))
           (v_r (k_nxt s)) Xs Hnhr).
Qed.

Lemma K_increment ih ivs s : K ih ivs s ->
  K ih ivs (update_observers (increment_voting_round s)) /\
  pref ih ivs s (update_observers (increment_voting_round s)).
Proof.
  intros (HI&HP&HX).
  assert (HX' : X ih ivs (update_observers (increment_voting_round s))) by (apply X_increment; [exact (proj1 HI)|exact HX]).
  split.
  - split; [apply INV_increment; exact HI|]. split; [apply pok_increment; exact HP|exact HX'].
  - eapply pref_one; [reflexivity|reflexivity|exact (proj2 (proj2 (proj2 (proj2 HX))))|exact (proj2 (proj2 (proj2 (proj2 HX'))))| |reflexivity].
    eapply adv_sadv; [exact (proj1 HI)|apply cinv_increment; exact (proj1 HI)|eapply adv_increment; exact (proj1 HI)].
Qed.

Lemma K_advance ih ivs s : K ih ivs s -> K ih ivs (advance_voting_round s) /\ pref ih ivs s (advance_voting_round s).
Proof. intros H. exact (K_increment ih ivs (ev_w s (EvNil (k_vot s))) H). Qed.
Lemma K_jump ih ivs s : K ih ivs s -> K ih ivs (jump_voting_round s) /\ pref ih ivs s (jump_voting_round s).
Proof. intros H. exact (K_increment ih ivs s H). Qed.

(** * The commit shift *)
Lemma shift_hdrs ih ivs s p : cinv ih ivs s -> In p (v_phs (k_vot s)) ->
  hstore_set (st_hdrs s) (hd_height (ph_hdr p)) =
    (fun x => (hd_height (ph_hdr p), x) :: st_hdrs s) /\
  (forall h' y, In (h', y) (st_hdrs s) -> h' < hd_height (ph_hdr p) /\ ih <= h') /\
  hd_height (ph_hdr p) = v_h (k_vot s) /\ ih <= v_h (k_vot s) /\ v_h (k_vot s) + 1 < two64.
Proof.
  intros Hc Hin. pose proof Hc as (Hi1&Hi2&Hi3&Hnh&Hnr&Hnhr&Hvv&Hvn&Hok&Hphs&Hch).
  destruct (Hphs p (or_introl Hin)) as (Ph&Pok&Pnext&Pb&Pprev).
  assert (Hold : forall h' y, In (h', y) (st_hdrs s) -> h' < hd_height (ph_hdr p) /\ ih <= h').
  { intros h' y Hy. unfold chain_ok in Hch. destruct (k_chdr s) as [ch|].
    - destruct Hch as (C1&C2&C3&_&Hchain). destruct (hchain_bounds _ _ _ Hchain) as [_ Hb].
      destruct (Hb _ _ Hy). lia.
    - destruct Hch as (_&_&C3&_). rewrite C3 in Hy. destruct Hy. }
  assert (Hfilter : filter (fun e : N * (hdr * cproof) => negb (fst e =? hd_height (ph_hdr p))) (st_hdrs s) = st_hdrs s).
  { clear -Hold. induction (st_hdrs s) as [|[h' y] l IH]; cbn; [reflexivity|].
    assert (h' < hd_height (ph_hdr p)) by (apply (Hold h' y); left; reflexivity).
    destruct (N.eqb_spec h' (hd_height (ph_hdr p))); [lia|]. cbn. f_equal. apply IH.
    intros h'' y' Hy'. apply (Hold h'' y'). right; exact Hy'. }
  split; [unfold hstore_set; rewrite Hfilter; reflexivity|]. split; [exact Hold|]. split; [exact Ph|].
  split; [|rewrite <- Ph; exact Pb].
  unfold chain_ok in Hch. destruct (k_chdr s) as [ch|].
  - destruct Hch as (C1&C2&C3&_&Hchain). destruct (hchain_bounds _ _ _ Hchain) as [Hb _]. lia.
  - destruct Hch as (_&_&_&C4). lia.
Qed.

Lemma K_shift ih ivs s p :
  K ih ivs s -> commit_cond s p ->
  K ih ivs (shift_voting_to_committing s (ph_hdr p)) /\
  pref ih ivs s (shift_voting_to_committing s (ph_hdr p)).
Proof.
  intros HK0 Hcc. pose proof Hcc as (Hin&_&_&Hmaj). pose proof HK0 as (HI&HP&HX).
  pose proof (INV_shift ih ivs s p HI Hin Hmaj) as HI'.
  pose proof (tinv_shift s p HP Hin) as [_ HP'].
  destruct HI as (Hc&Ha&Hs&Hh). destruct HX as (Xc&(Nc&Nv&Nn)&(N1v&N1n)&Xk&Xs).
  destruct (shift_hdrs ih ivs s p Hc Hin) as (Hset&Hold&Ph&Hge&Hb).
  destruct (vot_vals ih ivs s Hc) as [Evv _].
  pose proof (cinv_nhr ih ivs s Hc) as Hnhr.
  assert (Hcomlt : v_h (k_com s) < v_h (k_vot s)).
  { destruct Hc as (_&_&Hi3&_&_&_&_&_&_&_&Hch). unfold chain_ok in Hch. destruct (k_chdr s) as [ch|].
    - destruct Hch as (A&B&_). lia.
    - destruct Hch as (A&_&_&D). lia. }
  assert (Hw : wrap64 (v_h (k_vot s) + 1) = v_h (k_vot s) + 1) by (unfold wrap64; apply N.mod_small; exact Hb).
  (* the voting view holds a precommit proof *)
  assert (Hpcne : v_pc (k_vot s) <> []).
  { destruct Hmaj as (maj&Em&Hle). destruct Hs as [(Sa&Sp) _].
    assert (0 < maj) by (apply (byz_majority_pos (sm_avail (v_sum (k_vot s)))); [rewrite Sa; apply sum_pows_lt|exact Em]).
    rewrite Sp in Hle.
    destruct (blocks_in (vs_pows (v_vals (k_vot s))) (v_pc (k_vot s)) (hd_hash (ph_hdr p))) as (pf&Hpf&_); [lia|].
    intros E. rewrite E in Hpf. destruct Hpf. }
  set (pcp := mk_cproof (v_r (k_vot s)) (vs_pkh (v_vals (k_vot s)))
                (map (fun e => (fst e, as_sparse (snd e))) (v_pc (k_vot s)))).
  assert (Ehdrs : st_hdrs (shift_voting_to_committing s (ph_hdr p)) =
                  (v_h (k_vot s), (ph_hdr p, pcp)) :: st_hdrs s).
  { unfold shift_voting_to_committing, update_observers. cbn [st_hdrs log_w set_nhr set_hdrs set_chdr ev_w set_nxt set_vot set_com].
    rewrite Hset, Ph. reflexivity. }
  assert (Ecv : forall h, ih <= h -> h <= v_h (k_vot s) ->
            chain_vals ih ivs ((v_h (k_vot s), (ph_hdr p, pcp)) :: st_hdrs s) h = chain_vals ih ivs (st_hdrs s) h).
  { intros h H1 H2. apply chain_vals_ext; try assumption.
    - intros h' y Hy. destruct (Hold h' y Hy). lia.
    - destruct Hc as (_&_&Hi3&_). exact Hi3. }
  destruct Xs as (vh0&vr0&ch0&cr0&Hn&Hshape&Hfine&Hcert&Hrounds&Hrep).
  unfold stores_of in Hn. cbn [sr_nhr] in Hn. rewrite Hnhr in Hn. inversion Hn; subst vh0 vr0 ch0 cr0. clear Hn.
  cbn [stores_of sr_hdrs sr_rounds sr_replayed] in Hshape, Hfine, Hcert, Hrounds, Hrep.
  assert (HX' : X ih ivs (shift_voting_to_committing s (ph_hdr p))).
  { split.
    { unfold comvals. rewrite Ehdrs. unfold shift_voting_to_committing, update_observers.
      cbn [k_chdr k_com log_w set_nhr set_hdrs set_chdr ev_w set_nxt set_vot set_com bump v_vals v_h].
      rewrite Ecv by lia. exact Evv. }
    split.
    { unfold ne_state, shift_voting_to_committing, update_observers. cbn.
      split; [exact Nv|]. split; split; intros t q []. }
    split.
    { unfold n1, n1_view, shift_voting_to_committing, update_observers. cbn. split; intros H; contradiction. }
    split.
    { split; [unfold kok0, shift_voting_to_committing, update_observers; cbn; intros q [[]|[]]|].
      split; apply yview_fresh; reflexivity. }
    exists (v_h (k_vot s) + 1), 0, (v_h (k_vot s)), (v_r (k_vot s)).
    unfold stores_of. cbn [sr_nhr sr_hdrs sr_rounds sr_replayed]. rewrite Ehdrs.
    split.
    { unfold shift_voting_to_committing, update_observers.
      cbn [st_nhr log_w set_nhr set_hdrs set_chdr ev_w set_nxt set_vot set_com k_vot k_com bump v_h v_r].
      rewrite Hw. reflexivity. }
    assert (Erounds : st_rounds (shift_voting_to_committing s (ph_hdr p)) = st_rounds s) by reflexivity.
    assert (Erep : st_replayed (shift_voting_to_committing s (ph_hdr p)) = st_replayed s) by reflexivity.
    rewrite Erounds, Erep.
    split.
    { right. split.
      - destruct HI' as (Hc'&_). destruct Hc' as (_&_&_&_&_&_&_&_&_&_&Hch'). unfold chain_ok in Hch'.
        assert (Ek : k_chdr (shift_voting_to_committing s (ph_hdr p)) = Some (ph_hdr p)) by reflexivity.
        rewrite Ek, Ehdrs, Ph in Hch'. destruct Hch' as (_&_&_&_&Hchain). exact Hchain.
      - split; [reflexivity|]. split; [exact Hb|].
        pose proof (voting_entry_good ih ivs (stores_of s) (v_h (k_vot s)) Hrounds _ eq_refl (v_r (k_vot s))) as (G1&G2&_).
        cbn [stores_of sr_hdrs sr_rounds] in G1, G2.
        rewrite Ecv by lia. split; [exact G1|]. split; [exact G2|]. apply N1v. exact Hpcne. }
    split.
    { intros h x cp [E|Hx]; [|eapply Hfine; exact Hx]. inversion E; subst.
      destruct (HP p (or_introl Hin)) as [W1 W2].
      destruct Hc as (_&_&_&_&_&_&_&_&_&Hphs&_). destruct (Hphs p (or_introl Hin)) as (_&_&Pnext&_).
      split; [exact W1|]. split; [exact Pnext|]. split; [exact W2|]. apply (proj1 Xk). left; exact Hin. }
    split.
    { destruct HI' as (_&_&_&Hh'). unfold hinv in Hh'. rewrite Ehdrs in Hh'. exact Hh'. }
    split.
    { intros h r e He. destruct (Hrounds h r e He) as [Hle _]. split; [lia|]. intros E. lia. }
    intros x Hx. destruct (Hrep x Hx) as [Hle _]. split; [lia|]. intros E. lia. }
  split; [split; [exact HI'|split; [exact HP'|exact HX']]|].
  apply (pref_commit ih ivs s _ p
           (wrap64 (v_h (k_vot s) + 1), 0, v_h (k_vot s), v_r (k_vot s)));
    [reflexivity|reflexivity| |exact (proj2 (proj2 (proj2 (proj2 HX'))))|
     eapply adv_sadv; [exact Hc|exact (proj1 HI')|eapply adv_shift; eassumption]|exact HK0|exact Hcc].
  exists (v_h (k_vot s)), (v_r (k_vot s)), (v_h (k_com s)), (v_r (k_com s)).
  unfold stores_of. cbn [sr_nhr sr_hdrs sr_rounds sr_replayed].
  split; [exact Hnhr|]. repeat (split; [assumption|]). assumption.
Qed.

(** * The three shift checks *)
Lemma K_check_voting ih ivs s s' :
  K ih ivs s -> check_voting_precommit_shift s = Ok s' -> K ih ivs s' /\ pref ih ivs s s'.
Proof.
  intros H. pose proof H as (_&_&_&_&_&_&HS).
  unfold check_voting_precommit_shift, bind.
  destruct (byz_majority _) as [maj|] eqn:Hmaj; [|discriminate].
  destruct (_ <? maj) eqn:Hlt.
  - destruct (_ =? _); intros E; inversion E; subst; [apply K_advance; exact H|].
    split; [exact H|apply pref_refl; exact HS].
  - destruct (sm_mpc _) eqn:Hm.
    + intros E; inversion E; subst. apply K_advance; exact H.
    + rewrite <- Hm in *. destruct (find _ _) as [p|] eqn:Hf; intros E; inversion E; subst;
        [|split; [exact H|apply pref_refl; exact HS]].
      pose proof (find_in _ _ _ Hf) as Hin.
      pose proof (find_some _ _ Hf) as [_ Heq]. apply bytes_eqb_eq in Heq.
      apply K_shift; [exact H|].
      split; [exact Hin|]. split; [rewrite Heq, Hm; discriminate|]. split; [symmetry; exact Heq|].
      exists maj. split; [exact Hmaj|]. rewrite Heq. apply N.ltb_ge in Hlt. exact Hlt.
Qed.

Lemma K_check_next_round ih ivs s s' :
  K ih ivs s -> check_next_round_precommit_shift s = Ok s' -> K ih ivs s' /\ pref ih ivs s s'.
Proof.
  intros H. pose proof H as (_&_&_&_&_&_&HS).
  unfold check_next_round_precommit_shift, bind.
  destruct (byz_minority _) as [mn|]; [|discriminate].
  destruct (_ <? mn); [intros E; inversion E; subst; split; [exact H|apply pref_refl; exact HS]|].
  destruct (byz_majority _) as [maj|]; [|discriminate].
  destruct (K_jump ih ivs s H) as [H1 P1].
  destruct (maj <=? _).
  - intros E. destruct (K_check_voting _ _ _ _ H1 E) as [H2 P2].
    split; [exact H2|eapply pref_trans; eassumption].
  - intros E; inversion E; subst. split; assumption.
Qed.

Lemma K_check_prevote ih ivs s s' :
  K ih ivs s -> check_prevote_shift s = Ok s' -> K ih ivs s' /\ pref ih ivs s s'.
Proof.
  intros H. pose proof H as (_&_&_&_&_&_&HS).
  unfold check_prevote_shift, bind.
  destruct (byz_minority _) as [mn|]; [|discriminate].
  destruct (_ <? mn); intros E; inversion E; subst; [split; [exact H|apply pref_refl; exact HS]|].
  apply K_jump; exact H.
Qed.

Lemma K_recheck ih ivs s s' :
  K ih ivs s -> recheck_view_shifts s = Ok s' -> K ih ivs s' /\ pref ih ivs s s'.
Proof.
  intros H. unfold recheck_view_shifts, bind.
  destruct (check_voting_precommit_shift s) as [s1|] eqn:E1; [|discriminate].
  destruct (K_check_voting _ _ _ _ H E1) as [H1 P1].
  destruct (negb _); [intros E; inversion E; subst; split; assumption|].
  destruct (check_next_round_precommit_shift s1) as [s2|] eqn:E2; [|discriminate].
  destruct (K_check_next_round _ _ _ _ H1 E2) as [H2 P2].
  destruct (negb _); [intros E; inversion E; subst; split; [exact H2|eapply pref_trans; eassumption]|].
  intros E3. destruct (K_check_prevote _ _ _ _ H2 E3) as [H3 P3].
  split; [exact H3|]. eapply pref_trans; [exact P1|]. eapply pref_trans; eassumption.
Qed.

(** [update_observers] in a state whose stored position is already the views' position *)
Lemma update_observers_same ih ivs s : cinv ih ivs s ->
  stores_of (update_observers s) = stores_of s /\ frame_eq s (update_observers s).
Proof.
  intros Hc. pose proof (cinv_nhr _ _ _ Hc) as Hn. split.
  - unfold stores_of, update_observers. cbn. rewrite <- Hn. reflexivity.
  - unfold frame_eq, pos_eq, update_observers. cbn. rewrite <- Hn. repeat split.
Qed.

Lemma K_update_observers ih ivs s : K ih ivs s ->
  K ih ivs (update_observers s) /\ pref ih ivs s (update_observers s).
Proof.
  intros (HI&HP&(Xc&Xn&X1&Xk&Xs)).
  destruct (update_observers_same ih ivs s (proj1 HI)) as [Es F].
  assert (HS' : SI ih ivs (stores_of (update_observers s))) by (rewrite Es; exact Xs).
  split.
  - split; [eapply INV_frame_rounds; [exact F|reflexivity|reflexivity|reflexivity|exact HI]|].
    split; [exact HP|]. split; [exact Xc|]. split; [exact Xn|]. split; [exact X1|]. split; [exact Xk|exact HS'].
  - eapply pref_one; [reflexivity|reflexivity|exact Xs|exact HS'|rewrite Es; apply sadv_refl|reflexivity].
Qed.

(** * Clean restart and restart on any store satisfying [SI] *)
Theorem restart_K ih ivs st vals log :
  1 <= ih -> vwf ivs -> SI ih ivs st ->
  exists s0 s1,
    restart ih ivs st vals log = Ok (update_observers s1) /\
    recheck_view_shifts s0 = Ok s1 /\
    stores_of s0 = st /\ st_log s0 = log /\ st_vals s0 = vals /\
    K ih ivs s0 /\ tinv s0 /\ adv s0 s1 /\
    K ih ivs (update_observers s1) /\ tinv (update_observers s1) /\
    pref ih ivs s0 (update_observers s1).
Proof.
  intros Hih Hivs HSI.
  destruct (restart_on_SI ih ivs st vals log Hih Hivs HSI)
    as (s0&s1&Er&Ec&Es&El&Ev&I0&T0&C0&N0&N10&K0&L0&I1&T1&A1).
  assert (HK0 : K ih ivs s0).
  { split; [exact I0|]. split; [exact (proj2 T0)|]. split; [exact C0|]. split; [exact N0|].
    split; [exact N10|]. split; [exact K0|]. rewrite Es. exact HSI. }
  destruct (K_recheck _ _ _ _ HK0 Ec) as [HK1 P1].
  destruct (K_update_observers _ _ _ HK1) as [HK2 P2].
  exists s0, s1. split; [exact Er|]. split; [exact Ec|]. split; [exact Es|]. split; [exact El|].
  split; [exact Ev|]. split; [exact HK0|]. split; [exact T0|]. split; [exact A1|]. split; [exact HK2|].
  split; [|eapply pref_trans; eassumption].
  destruct T1 as [A P]. split; [|exact P].
  eapply aok_frame; [| | |exact A]; reflexivity.
Qed.
