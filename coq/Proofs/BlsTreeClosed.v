(** C13 (BLS tree) - the cascade closes the stored signatures upwards: a set node whose parent is not set has a
    keyed, unset sibling.  Consequence: the sparse form (the maximal set nodes) is determined by the bit set. *)
From Coq Require Import List NArith ZArith String Bool Lia Arith.
From GV Require Import Base.Ints Model.SimpleProofBase Model.BlsTree Proofs.BlsTreeBase Proofs.BlsTreeAdd
  Proofs.BlsTreeProof Proofs.BlsTreeMachine Proofs.BlsTreeSparse.
Import ListNotations.
Local Open Scope N_scope.

Definition sib (off : N) : N := if N.even off then off + 1 else off - 1.

(** node (d, off) has a real leaf *)
Definition keyed (h : nat) (n : N) (d : nat) (off : N) : bool := off * p2 (h - d) <? n.

Lemma sib_cases : forall off, exists q, (off = 2 * q /\ sib off = 2 * q + 1 /\ N.even off = true) \/
                                        (off = 2 * q + 1 /\ sib off = 2 * q /\ N.even off = false).
Proof.
  intro off. unfold sib. destruct (N.even off) eqn:E.
  - apply N.even_spec in E. destruct E as [m ->]. exists m. left. auto.
  - exists (off / 2). right. pose proof (N.div_mod off 2 ltac:(lia)) as A. pose proof (N.mod_upper_bound off 2 ltac:(lia)) as B.
    remember (off / 2) as q. remember (off mod 2) as r.
    assert (r = 0 \/ r = 1) as [-> | ->] by lia.
    + rewrite A in E. rewrite N.add_0_r, N.even_mul in E. discriminate.
    + split; [lia|]. split; [lia|reflexivity].
Qed.

Lemma half_2q : forall q, (2 * q) / 2 = q.
Proof. intro. rewrite N.mul_comm. apply N.div_mul. lia. Qed.
Lemma half_2q1 : forall q, (2 * q + 1) / 2 = q.
Proof.
  intro q. symmetry. apply (N.div_unique (2 * q + 1) 2 q 1); lia.
Qed.

Lemma sib_half : forall off, sib off / 2 = off / 2.
Proof. intro off. destruct (sib_cases off) as [q [(A & B & _)|(A & B & _)]]; rewrite B, A, ?half_2q, ?half_2q1; reflexivity. Qed.
Lemma sib_ne : forall off, sib off <> off.
Proof. intro off. destruct (sib_cases off) as [q [(A & B & _)|(A & B & _)]]; rewrite B, A; lia. Qed.
Lemma sib_lt : forall d off, off < p2 (S d) -> sib off < p2 (S d).
Proof. intros d off H. cbn [p2] in *. destruct (sib_cases off) as [q [(A & B & _)|(A & B & _)]]; rewrite B; lia. Qed.
Lemma same_half : forall a b, a / 2 = b / 2 -> a = b \/ a = sib b.
Proof.
  intros a b H. destruct (sib_cases b) as [q [(A & B & _)|(A & B & _)]]; rewrite B; subst b;
    rewrite ?half_2q, ?half_2q1 in H;
    pose proof (N.div_mod a 2 ltac:(lia)) as DA; pose proof (N.mod_upper_bound a 2 ltac:(lia)) as DB;
    rewrite H in DA; remember (a mod 2) as r; lia.
Qed.

(* ------------------------------------------------------------------ one turn of the AGAIN loop, structurally *)
Lemma set_at_upd : forall sigs idx sg x, idx < lenN sigs ->
  set_at (updN sigs idx (Some sg)) x = set_at sigs x || N.eqb x idx.
Proof.
  intros. unfold set_at. destruct (N.eq_dec idx x) as [->|Hne].
  - rewrite nthN_updN_same by assumption. rewrite N.eqb_refl. now rewrite orb_true_r.
  - rewrite nthN_updN_other by assumption. replace (x =? idx) with false by (symmetry; apply N.eqb_neq; congruence).
    now rewrite orb_false_r.
Qed.

Lemma tree_add_root : forall h f t sig added, wf_tree h t ->
  exists bits', tree_add (S f) t (nidx h 0 0) sig added =
                Ok (mk_tree (t_keys t) (updN (t_sigs t) (nidx h 0 0) (Some sig)) bits' (t_n t)).
Proof.
  intros h f t sig added Hwf. cbn [tree_add]. pose proof (wf_sigs _ _ Hwf) as HL. pose proof (p2_pos h).
  assert (Hidx : nidx h 0 0 = 2 * p2 h - 2) by (unfold nidx, lstart; cbn [p2]; lia). rewrite Hidx, HL.
  replace (2 * p2 h - 1 <=? 2 * p2 h - 2) with false by (symmetry; apply N.leb_gt; lia).
  replace (2 * p2 h - 2 =? 2 * p2 h - 1 - 1) with true by (symmetry; apply N.eqb_eq; lia).
  eexists. reflexivity.
Qed.

Lemma tree_add_step : forall h d f t off sig added, wf_tree h t -> (S d <= h)%nat -> off < p2 (S d) ->
  exists bits2,
    let t2 := mk_tree (t_keys t) (updN (t_sigs t) (nidx h (S d) off) (Some sig)) bits2 (t_n t) in
    let r := tree_add (S f) t (nidx h (S d) off) sig added in
    let par := set_at (t_sigs t) (nidx h d (off / 2)) in
    let sb := set_at (t_sigs t) (nidx h (S d) (sib off)) in
    let ky := keyed h (t_n t) (S d) (sib off) in
    wf_tree h t2 /\
    ((par = true /\ r = Ok t2) \/
     (par = false /\ ky = false /\ r = tree_add f t2 (nidx h d (off / 2)) sig true) \/
     (par = false /\ ky = true /\ sb = false /\ r = Ok t2) \/
     (par = false /\ ky = true /\ sb = true /\ exists sig', r = tree_add f t2 (nidx h d (off / 2)) sig' true)).
Proof.
  intros h d f t off sig added Hwf Hd Ho.
  remember (tree_add (S f) t (nidx h (S d) off) sig added) as r eqn:Er. cbn [tree_add] in Er. unfold nidx in *.
  pose proof (wf_sigs _ _ Hwf) as HL. pose proof (wf_keys_len _ _ Hwf) as HKL. pose proof (p2_pos h) as Hp.
  pose proof (p2_mono (S d) h Hd) as Hmono. pose proof (p2_pos d) as Hpd. cbn [p2] in Hmono, Ho.
  set (idx := lstart h (S d) + off) in *.
  assert (Hidx_lt : idx < 2 * p2 h - 2) by (unfold idx, lstart; cbn [p2]; lia).
  rewrite HL in Er.
  replace (2 * p2 h - 1 <=? idx) with false in Er by (symmetry; apply N.leb_gt; lia).
  replace (idx =? 2 * p2 h - 1 - 1) with false in Er by (symmetry; apply N.eqb_neq; lia).
  unfold set_sigs, set_bits in Er; cbn [t_n t_keys t_sigs t_bits] in Er.
  rewrite (wf_lw _ _ Hwf) in Er.
  assert (Hloc : locate 18 idx 0 (p2 h) 1 = Some (lstart h (S d), p2 (S d), p2 (h - S d))).
  { pose proof (locate_spec h h 18 (S d) off) as L. rewrite lstart_h, Nat.sub_diag in L.
    apply L; try (pose proof (wf_h _ _ Hwf)); cbn [p2]; lia. }
  rewrite Hloc in Er.
  replace (idx - lstart h (S d)) with off in Er by (unfold idx; lia).
  set (nl := p2 (h - S d)) in *.
  set (sigs2 := updN (t_sigs t) idx (Some sig)) in *.
  set (bits2 := if added then t_bits t
                else N.lor (t_bits t) (range_mask (off * nl) (N.min (off * nl + nl) (t_n t)))).
  exists bits2.
  set (t2 := mk_tree (t_keys t) sigs2 bits2 (t_n t)).
  match type of Er with context [if added then ?a else ?b] =>
    replace (if added then a else b) with t2 in Er by (unfold t2, bits2; destruct added; reflexivity) end.
  cbv zeta.
  assert (Hwf2 : wf_tree h t2).
  { destruct Hwf. constructor; cbn [t2 t_n t_sigs t_keys]; auto. unfold sigs2. now rewrite lenN_updN. }
  split; [exact Hwf2|].
  set (q := off / 2) in *.
  assert (Hqlt : q < p2 d) by (unfold q; apply N.div_lt_upper_bound; lia).
  assert (Hpar : lstart h (S d) + (2 * p2 d) + q = lstart h d + q) by (rewrite (lstart_S h d) by lia; cbn [p2]; lia).
  cbn [p2] in Er. rewrite Hpar in Er.
  assert (Hpar_lt : lstart h d + q < 2 * p2 h - 1) by (apply lstart_bound; [lia|assumption]).
  assert (Hpar_ne : idx <> lstart h d + q) by (unfold idx; rewrite (lstart_S h d) by lia; cbn [p2]; lia).
  cbn [t2 t_sigs t_keys] in Er. unfold sigs2 in Er at 1. rewrite nthN_updN_other in Er by assumption.
  destruct (nthN_lt_some _ (t_sigs t) (lstart h d + q)) as [ps Hps]; [lia|]. rewrite Hps in Er.
  assert (Hparv : set_at (t_sigs t) (lstart h d + q) = issome ps)
    by (unfold set_at; rewrite Hps; destruct ps; reflexivity).
  rewrite Hparv.
  destruct ps as [psig|]; cbn [issome]; [left; auto|]. right.
  replace (N.even idx) with (N.even off) in Er by (unfold idx; symmetry; apply even_node; lia).
  assert (Hnb : (if N.even off then idx + 1 else idx - 1) = lstart h (S d) + sib off).
  { unfold sib, idx. destruct (sib_cases off) as [q0 [(A & B & C)|(A & B & C)]]; rewrite C; lia. }
  rewrite Hnb in Er.
  pose proof (sib_lt d off ltac:(cbn [p2]; lia)) as Hsl. cbn [p2] in Hsl.
  pose proof (wf_keys _ _ Hwf (S d) (sib off) Hd) as Hk_nb. cbn [p2] in Hk_nb. specialize (Hk_nb Hsl).
  fold nl in Hk_nb. rewrite Hk_nb in Er.
  assert (Hnb_ne : idx <> lstart h (S d) + sib off) by (unfold idx; pose proof (sib_ne off); lia).
  unfold keyed. fold nl. unfold rkey in Er.
  destruct (sib off * nl <? t_n t) eqn:Ek.
  - unfold sigs2 in Er at 1. rewrite nthN_updN_other in Er by assumption.
    destruct (nthN_lt_some _ (t_sigs t) (lstart h (S d) + sib off)) as [ns Hns];
      [rewrite HL; apply lstart_bound; [lia|cbn [p2]; lia]|].
    assert (Hsbv : set_at (t_sigs t) (lstart h (S d) + sib off) = issome ns)
      by (unfold set_at; rewrite Hns; destruct ns; reflexivity).
    rewrite Hsbv. rewrite Hns in Er. destruct ns as [nbsig|]; cbn [issome].
    + right. right. repeat split; auto. eexists. exact Er.
    + right. left. auto.
  - left. auto.
Qed.

(* ------------------------------------------------------------------ closedness *)
(** node (S d, off): if set, then its parent is set, or its sibling has a key and is not set *)
Definition node_ok (h : nat) (n : N) (sigs : list (option bsig)) (d : nat) (off : N) : Prop :=
  set_at sigs (nidx h (S d) off) = true ->
  set_at sigs (nidx h d (off / 2)) = true \/
  (keyed h n (S d) (sib off) = true /\ set_at sigs (nidx h (S d) (sib off)) = false).

(** all nodes are ok, except possibly the children of node [ex] *)
Definition closed_except (h : nat) (n : N) (sigs : list (option bsig)) (ex : option (nat * N)) : Prop :=
  forall d off, (S d <= h)%nat -> off < p2 (S d) ->
    match ex with Some (de, oe) => ~ (d = de /\ off / 2 = oe) | None => True end ->
    node_ok h n sigs d off.

Definition closed (h : nat) (t : tree) : Prop := closed_except h (t_n t) (t_sigs t) None.

Lemma set_upd_iff : forall sigs idx sg x, idx < lenN sigs ->
  (set_at (updN sigs idx (Some sg)) x = true <-> set_at sigs x = true \/ x = idx).
Proof.
  intros. rewrite set_at_upd by assumption. rewrite orb_true_iff, N.eqb_eq. tauto.
Qed.

Lemma set_upd_false : forall sigs idx sg x, idx < lenN sigs -> x <> idx ->
  set_at (updN sigs idx (Some sg)) x = set_at sigs x.
Proof.
  intros. rewrite set_at_upd by assumption. replace (x =? idx) with false by (symmetry; apply N.eqb_neq; assumption).
  apply orb_false_r.
Qed.

Lemma sib_sib : forall off, sib (sib off) = off.
Proof.
  intro off. destruct (sib_cases off) as [q [(A & B & C)|(A & B & C)]]; rewrite B; unfold sib.
  - replace (N.even (2 * q + 1)) with false by (symmetry; rewrite N.even_add, N.even_mul; reflexivity). lia.
  - replace (N.even (2 * q)) with true by (symmetry; rewrite N.even_mul; reflexivity). lia.
Qed.

Lemma classic_pair : forall (d1 d : nat) (o off : N), (d1 = d /\ o / 2 = off / 2) \/ ~ (d1 = d /\ o / 2 = off / 2).
Proof.
  intros. destruct (Nat.eq_dec d1 d); [|right; tauto]. destruct (N.eq_dec (o / 2) (off / 2)); [left|right]; tauto.
Qed.

(** storing at node (dd, o0): which nodes stay / become ok *)
Lemma node_ok_upd : forall h n sigs dd o0 sg d1 o,
  lenN sigs = 2 * p2 h - 1 -> (dd <= h)%nat -> o0 < p2 dd -> (S d1 <= h)%nat -> o < p2 (S d1) ->
  let sigs2 := updN sigs (nidx h dd o0) (Some sg) in
  ((d1 = dd /\ o / 2 = o0) -> node_ok h n sigs2 d1 o) /\
  (~ (S d1 = dd /\ o = o0) -> ~ (S d1 = dd /\ o = sib o0) -> node_ok h n sigs d1 o -> node_ok h n sigs2 d1 o).
Proof.
  intros h n sigs dd o0 sg d1 o HL Hdd Ho0 Hd1 Ho sigs2.
  assert (Hlt : nidx h dd o0 < lenN sigs) by (rewrite HL; apply lstart_bound; assumption).
  split.
  - intros [-> <-] _. left. unfold sigs2. apply set_upd_iff; [assumption|]. right. reflexivity.
  - intros Hne Hns Hok Hset. unfold sigs2 in *. apply set_upd_iff in Hset; [|assumption].
    destruct Hset as [Hset|Heq].
    2:{ exfalso. unfold nidx in Heq.
        destruct (node_unique h (S d1) o dd o0 Hd1 Hdd Ho Ho0 Heq) as [A B]. apply Hne. auto. }
    destruct (Hok Hset) as [Hp|[Hk Hs]].
    + left. apply set_upd_iff; [assumption|]. left. exact Hp.
    + right. split; [assumption|]. rewrite set_upd_false; [assumption|assumption|].
      intro Heq. unfold nidx in Heq. pose proof (sib_lt d1 o Ho) as Hsl.
      destruct (node_unique h (S d1) (sib o) dd o0 Hd1 Hdd Hsl Ho0 Heq) as [A B].
      apply Hns. split; [assumption|]. subst o0. now rewrite sib_sib.
Qed.

Lemma closed_except_weaken : forall h n sigs ex, closed_except h n sigs None -> closed_except h n sigs ex.
Proof. intros h n sigs ex H d off A B _. apply H; auto. Qed.

(** the AGAIN loop re-establishes closedness *)
Lemma tree_add_closed : forall h d fuel t off sig added t',
  wf_tree h t -> (d <= h)%nat -> off < p2 d ->
  closed_except h (t_n t) (t_sigs t) (Some (d, off)) ->
  tree_add fuel t (nidx h d off) sig added = Ok t' -> closed h t' /\ wf_tree h t' /\ t_n t' = t_n t.
Proof.
  intros h. induction d; intros fuel t off sig added t' Hwf Hd Ho Hce E.
  - destruct fuel; [discriminate|]. cbn [p2] in Ho. assert (off = 0) by lia. subst off.
    destruct (tree_add_root h fuel t sig added Hwf) as [b' Er]. rewrite Er in E. inversion E; subst t'. clear E.
    pose proof (wf_sigs _ _ Hwf) as HL.
    split; [|split; [|reflexivity]].
    + intros d1 o Hd1 Ho1 _. cbn [t_n t_sigs].
      destruct (node_ok_upd h (t_n t) (t_sigs t) O 0 sig d1 o HL ltac:(lia) ltac:(cbn; lia) Hd1 Ho1) as [A B].
      destruct (Nat.eq_dec d1 O) as [->|Hne].
      * apply A. split; [reflexivity|]. cbn [p2] in Ho1. apply N.lt_1_r. apply N.div_lt_upper_bound; lia.
      * apply B; try lia. apply Hce; auto. lia.
    + destruct Hwf. constructor; cbn [t_n t_sigs t_keys]; auto. now rewrite lenN_updN.
  - destruct fuel; [discriminate|].
    destruct (tree_add_step h d fuel t off sig added Hwf Hd Ho) as (bits2 & Hwf2 & Hcases). cbv zeta in *.
    set (t2 := mk_tree (t_keys t) (updN (t_sigs t) (nidx h (S d) off) (Some sig)) bits2 (t_n t)) in *.
    pose proof (wf_sigs _ _ Hwf) as HL.
    (* nodes other than idx and its sibling *)
    assert (Hother : forall d1 o, (S d1 <= h)%nat -> o < p2 (S d1) -> ~ (d1 = d /\ o / 2 = off / 2) ->
                       node_ok h (t_n t) (t_sigs t2) d1 o).
    { intros d1 o Hd1 Ho1 Hnc. cbn [t2 t_sigs].
      destruct (node_ok_upd h (t_n t) (t_sigs t) (S d) off sig d1 o HL Hd Ho Hd1 Ho1) as [A B].
      destruct (Nat.eq_dec d1 (S d)) as [->|Hne1].
      - destruct (N.eq_dec (o / 2) off) as [Eo|Eo]; [apply A; auto|].
        apply B; try lia. apply Hce; auto. intros [_ C]. contradiction.
      - apply B.
        + intros [C1 C2]. apply Hnc. split; [lia|]. now rewrite C2.
        + intros [C1 C2]. apply Hnc. split; [lia|]. rewrite C2. apply sib_half.
        + apply Hce; auto. intros [C _]. lia. }
    assert (Hret : (set_at (t_sigs t) (nidx h d (off / 2)) = true \/
                    (keyed h (t_n t) (S d) (sib off) = true /\ set_at (t_sigs t) (nidx h (S d) (sib off)) = false)) ->
                   closed h t2).
    { intros Hcond d1 o Hd1 Ho1 _. cbn [t2 t_n].
      destruct (classic_pair d1 d o off) as [Hc|Hc]; [|apply Hother; assumption].
      destruct Hc as [-> Hh]. destruct (same_half _ _ Hh) as [->| ->].
      - (* idx itself *)
        intros _. cbn [t2 t_sigs].
        assert (Hlt : nidx h (S d) off < lenN (t_sigs t)) by (rewrite HL; apply lstart_bound; assumption).
        destruct Hcond as [Hp|[Hk Hs]].
        + left. apply set_upd_iff; [assumption|]. auto.
        + right. split; [assumption|]. rewrite set_upd_false; [assumption|assumption|].
          intro Heq. unfold nidx in Heq. pose proof (sib_ne off). lia.
      - (* the sibling of idx *)
        intro Hset. cbn [t2 t_sigs] in *.
        assert (Hlt : nidx h (S d) off < lenN (t_sigs t)) by (rewrite HL; apply lstart_bound; assumption).
        rewrite set_upd_false in Hset; [|assumption|unfold nidx; pose proof (sib_ne off); lia].
        destruct Hcond as [Hp|[Hk Hs]]; [|congruence].
        left. rewrite sib_half. apply set_upd_iff; [assumption|]. auto. }
    assert (Hcont : closed_except h (t_n t2) (t_sigs t2) (Some (d, off / 2))).
    { intros d1 o Hd1 Ho1 Hnc. apply Hother; assumption. }
    assert (Hqlt : off / 2 < p2 d) by (apply half_lt; assumption).
    destruct Hcases as [(Hp & Er)|[(Hp & Hk & Er)|[(Hp & Hk & Hs & Er)|(Hp & Hk & Hs & sig' & Er)]]];
      rewrite Er in E.
    + inversion E; subst t'. split; [apply Hret; auto|]. split; [assumption|reflexivity].
    + destruct (IHd fuel t2 (off / 2) sig true t' Hwf2 ltac:(lia) Hqlt Hcont E) as (A & B & C).
      split; [assumption|]. split; [assumption|]. rewrite C. reflexivity.
    + inversion E; subst t'. split; [apply Hret; auto|]. split; [assumption|reflexivity].
    + destruct (IHd fuel t2 (off / 2) sig' true t' Hwf2 ltac:(lia) Hqlt Hcont E) as (A & B & C).
      split; [assumption|]. split; [assumption|]. rewrite C. reflexivity.
Qed.

(* ------------------------------------------------------------------ closedness through the API *)
Lemma p2_inj : forall a b, p2 a = p2 b -> a = b.
Proof.
  intros a b H. destruct (lt_eq_lt_dec a b) as [[L|L]|L]; [|assumption|].
  - pose proof (p2_S_le a b L). pose proof (p2_pos a). lia.
  - pose proof (p2_S_le b a L). pose proof (p2_pos b). lia.
Qed.

Lemma wf_h_unique : forall h h' t, wf_tree h t -> wf_tree h' t -> h = h'.
Proof.
  intros h h' t A B. apply p2_inj. pose proof (wf_sigs _ _ A). pose proof (wf_sigs _ _ B).
  pose proof (p2_pos h). pose proof (p2_pos h'). lia.
Qed.

Lemma tree_add_signature_closed : forall h t idx sg t', wf_tree h t -> closed h t -> idx < 2 * p2 h - 1 ->
  tree_add_signature t idx sg = Ok t' -> closed h t' /\ wf_tree h t'.
Proof.
  intros h t idx sg t' Hwf Hc Hlt E. destruct (node_exists h idx Hlt) as (d & off & Hd & Ho & ->).
  unfold tree_add_signature in E.
  destruct (tree_add_closed h d _ t off sg false t' Hwf Hd Ho (closed_except_weaken _ _ _ _ Hc) E) as (A & B & _).
  auto.
Qed.

Lemma closed_of_empty : forall h t, (forall x, set_at (t_sigs t) x = false) -> closed h t.
Proof. intros h t H d off _ _ _ Hs. rewrite H in Hs. discriminate. Qed.

Lemma set_at_repeat_none : forall n x, set_at (repeatN None n) x = false.
Proof.
  intros n x. unfold set_at. destruct (N.ltb x n) eqn:E.
  - apply N.ltb_lt in E. now rewrite nthN_repeatN.
  - destruct (nthN (repeatN None n) x) as [v|] eqn:E2; [|reflexivity].
    apply nthN_some_lt in E2. rewrite lenN_repeatN in E2. apply N.ltb_ge in E. lia.
Qed.

Lemma merge_sparse_loop_closed : forall msg h ents t av t' av', wf_tree h t -> closed h t ->
  merge_sparse_loop msg ents t av = Ok (t', av') -> closed h t' /\ wf_tree h t'.
Proof.
  intros msg h. induction ents as [|[kid sg] rest IH]; intros t av t' av' Hwf Hc E.
  - cbn in E. inversion E; subst. auto.
  - cbn [merge_sparse_loop] in E.
    destruct kid as [|x [|y [|z kid']]]; try (eapply IH; eauto; fail).
    destruct (tree_get_spec h t (x * 256 + y) Hwf) as [(Hlt & k & s & Hk & Hs & Hg)|(Hge & Hg)];
      rewrite Hg in E; cbn [negb] in E; [|eapply IH; eauto].
    destruct s as [hs|].
    + destruct (decode sg); [destruct (bsig_eqb hs b)|]; eapply IH; eauto.
    + destruct (negb (verify k msg sg)); [eapply IH; eauto|].
      destruct (decode sg) as [g|]; [|discriminate].
      destruct (tree_add_signature t (x * 256 + y) g) as [t1|] eqn:Ea; [|discriminate].
      destruct (tree_add_signature_closed h t _ g t1 Hwf Hc Hlt Ea) as [A B]. eapply IH; eauto.
Qed.

Lemma merge_loop_closed : forall msg h ot ids t av inc t' av' inc', wf_tree h t -> closed h t ->
  merge_loop msg ot ids t av inc = Ok (t', av', inc') -> closed h t' /\ wf_tree h t'.
Proof.
  intros msg h ot. induction ids as [|oid rest IH]; intros t av inc t' av' inc' Hwf Hc E.
  - cbn in E. inversion E; subst. auto.
  - cbn [merge_loop] in E. destruct (tree_get ot oid) as [[okey osig] ook].
    destruct (tree_get_spec h t oid Hwf) as [(Hlt & k & s & Hk & Hs & Hg)|(Hge & Hg)]; rewrite Hg in E.
    + destruct s as [hs|].
      * destruct osig as [os|]; [destruct (bsig_eqb hs os)|]; eapply IH; eauto.
      * destruct osig as [os|]; [|eapply IH; eauto].
        destruct (negb (verify k msg os)); [eapply IH; eauto|].
        destruct (tree_add_signature t oid os) as [t1|] eqn:Ea; [|discriminate].
        destruct (tree_add_signature_closed h t _ os t1 Hwf Hc Hlt Ea) as [A B]. eapply IH; eauto.
    + destruct osig as [os|]; [|eapply IH; eauto]. cbn [verify negb] in E. eapply IH; eauto.
Qed.

(** closedness as a property of proofs *)
Definition pcl (p : proof) : Prop := forall h, wf_tree h (p_tree p) -> closed h (p_tree p).

Lemma pcl_intro : forall p h, wf_tree h (p_tree p) -> closed h (p_tree p) -> pcl p.
Proof. intros p h A B h' C. rewrite <- (wf_h_unique h h' _ A C). exact B. Qed.

Lemma merge_sparse_pcl : forall p hash ents p' f, pinv p -> pcl p ->
  merge_sparse p hash ents = Ok (p', f) -> pcl p'.
Proof.
  intros p hash ents p' f [h (Hwf & _)] Hc E. unfold merge_sparse in E.
  destruct (negb (hash =? p_hash p)); [inversion E; subst; exact Hc|].
  destruct (merge_sparse_loop (p_msg p) ents (p_tree p) true) as [[t av]|] eqn:El; [|discriminate].
  inversion E; subst. destruct (merge_sparse_loop_closed _ h _ _ _ _ _ Hwf (Hc h Hwf) El) as [A B].
  apply (pcl_intro _ h); assumption.
Qed.

Lemma merge_pcl : forall p o p' f, pinv p -> pcl p -> merge p o = Ok (p', f) -> pcl p'.
Proof.
  intros p o p' f [h (Hwf & _)] Hc E. unfold merge in E.
  destruct (negb (matches p o)); [inversion E; subst; exact Hc|].
  destruct (sparse_indices (p_tree o)) as [ids|]; [|discriminate].
  destruct (merge_loop (p_msg p) (p_tree o) ids (p_tree p) true false) as [[[t av] inc]|] eqn:El; [|discriminate].
  inversion E; subst. destruct (merge_loop_closed _ h _ _ _ _ _ _ _ _ Hwf (Hc h Hwf) El) as [A B].
  apply (pcl_intro _ h); assumption.
Qed.

Lemma add_signature_pcl : forall p sg key p' code, pinv p -> pcl p ->
  add_signature p sg key = Ok (p', code) -> pcl p'.
Proof.
  intros p sg key p' code [h (Hwf & _)] Hc E. unfold add_signature, tree_index in E.
  destruct (index_from (t_keys (p_tree p)) key 0) as [idx|] eqn:Ei; [|inversion E; subst; exact Hc].
  apply index_from_spec in Ei. destruct Ei as [_ Hk]. replace (idx - 0) with idx in Hk by lia.
  pose proof (nthN_some_lt _ _ _ _ Hk) as Hlt. rewrite (wf_keys_len _ _ Hwf) in Hlt.
  destruct (tree_get (p_tree p) idx) as [[k s] ok].
  destruct s as [hs|].
  - destruct (decode sg) as [g|]; [destruct (bsig_eqb g hs)|]; inversion E; subst; exact Hc.
  - destruct (negb (verify key (p_msg p) sg)); [inversion E; subst; exact Hc|].
    destruct (decode sg) as [g|]; [|discriminate].
    destruct (tree_add_signature (p_tree p) idx g) as [t1|] eqn:Ea; [|discriminate].
    inversion E; subst. destruct (tree_add_signature_closed h _ _ g t1 Hwf (Hc h Hwf) Hlt Ea) as [A B].
    apply (pcl_intro _ h); assumption.
Qed.

Lemma new_proof_pcl : forall msg n hash p, new_proof msg n hash = Ok p -> pcl p.
Proof.
  intros msg n hash p E h _. unfold new_proof, tree_new in E.
  destruct ((n <? 1) || (65535 <? n)); [discriminate|]. inversion E; subst. cbn [p_tree].
  apply closed_of_empty. cbn [t_sigs]. apply set_at_repeat_none.
Qed.

Lemma derive_pcl : forall p, pcl (derive p).
Proof.
  intros p h _. unfold derive, tree_derive. cbn [p_tree]. apply closed_of_empty. cbn [t_sigs]. apply set_at_repeat_none.
Qed.

(** every proof reachable through the API is closed *)
Definition regs_cl (rs : regs) : Prop := forall r p, reg_get rs r = Some p -> pinv p /\ pcl p.

Lemma regs_cl_set : forall rs r p, regs_cl rs -> pinv p -> pcl p -> regs_cl (reg_set rs r p).
Proof.
  intros rs r p H Hp Hc r' p'. unfold reg_set. cbn [reg_get]. destruct (Nat.eqb r r'); [|apply H].
  intro E. inversion E; subst. auto.
Qed.

Lemma regs_cl_ok : forall rs, regs_cl rs -> regs_ok rs.
Proof. intros rs H r p E. apply (H r p E). Qed.

Lemma step_regs_cl : forall rs o, regs_cl rs -> regs_cl (fst (step rs o)).
Proof.
  intros rs o H. pose proof (step_regs_ok rs o (regs_cl_ok rs H)) as Hok.
  intros r p E. split; [exact (Hok r p E)|]. revert r p E.
  destruct o; cbn [step].
  - destruct (new_proof msg n hash) eqn:En; cbn [fst]; [|intros r0 p0 E0; apply (H r0 p0 E0)].
    intros r0 p0. unfold reg_set. cbn [reg_get]. destruct (Nat.eqb r r0); [|intro E0; apply (H r0 p0 E0)].
    intro E0. inversion E0; subst. eapply new_proof_pcl; eauto.
  - destruct (reg_get rs r) as [p|] eqn:E; [|intros r0 p0 E0; apply (H r0 p0 E0)].
    destruct (add_signature p s key) as [[p' code]|] eqn:Ea; cbn [fst]; [|intros r0 p0 E0; apply (H r0 p0 E0)].
    intros r0 p0. unfold reg_set. cbn [reg_get]. destruct (Nat.eqb r r0); [|intro E0; apply (H r0 p0 E0)].
    intro E0. inversion E0; subst. destruct (H _ _ E). eapply add_signature_pcl; eauto.
  - destruct (reg_get rs r) as [p|] eqn:E; [|intros r0 p0 E0; apply (H r0 p0 E0)].
    destruct (reg_get rs o) as [q|] eqn:E2; [|intros r0 p0 E0; apply (H r0 p0 E0)].
    destruct (merge p q) as [[p' f]|] eqn:Ea; cbn [fst]; [|intros r0 p0 E0; apply (H r0 p0 E0)].
    intros r0 p0. unfold reg_set. cbn [reg_get]. destruct (Nat.eqb r r0); [|intro E0; apply (H r0 p0 E0)].
    intro E0. inversion E0; subst. destruct (H _ _ E). eapply merge_pcl; eauto.
  - destruct (reg_get rs r) as [p|] eqn:E; [|intros r0 p0 E0; apply (H r0 p0 E0)].
    destruct (merge_sparse p hash ents) as [[p' f]|] eqn:Ea; cbn [fst]; [|intros r0 p0 E0; apply (H r0 p0 E0)].
    intros r0 p0. unfold reg_set. cbn [reg_get]. destruct (Nat.eqb r r0); [|intro E0; apply (H r0 p0 E0)].
    intro E0. inversion E0; subst. destruct (H _ _ E). eapply merge_sparse_pcl; eauto.
  - destruct (reg_get rs r) as [p|] eqn:E; [|intros r0 p0 E0; apply (H r0 p0 E0)].
    destruct (reg_get rs o) as [q|] eqn:E2; [|intros r0 p0 E0; apply (H r0 p0 E0)].
    destruct (as_sparse q) as [[hh ents]|]; [|intros r0 p0 E0; apply (H r0 p0 E0)].
    destruct (merge_sparse p hh ents) as [[p' f]|] eqn:Ea; cbn [fst]; [|intros r0 p0 E0; apply (H r0 p0 E0)].
    intros r0 p0. unfold reg_set. cbn [reg_get]. destruct (Nat.eqb r r0); [|intro E0; apply (H r0 p0 E0)].
    intro E0. inversion E0; subst. destruct (H _ _ E). eapply merge_sparse_pcl; eauto.
  - destruct (reg_get rs r) as [p|]; [destruct (has_sparse_key_id p id)|]; intros r0 p0 E0; apply (H r0 p0 E0).
  - destruct (reg_get rs r) as [p|]; intros r0 p0 E0; apply (H r0 p0 E0).
  - destruct (reg_get rs r) as [p|] eqn:E; cbn [fst]; [|intros r0 p0 E0; apply (H r0 p0 E0)].
    intros r0 p0. unfold reg_set. cbn [reg_get]. destruct (Nat.eqb to r0); [|intro E0; apply (H r0 p0 E0)].
    intro E0. inversion E0; subst. rewrite clone_eq. apply (H _ _ E).
  - destruct (reg_get rs r) as [p|] eqn:E; cbn [fst]; [|intros r0 p0 E0; apply (H r0 p0 E0)].
    intros r0 p0. unfold reg_set. cbn [reg_get]. destruct (Nat.eqb to r0); [|intro E0; apply (H r0 p0 E0)].
    intro E0. inversion E0; subst. apply derive_pcl.
  - destruct (reg_get rs r) as [p|]; intros r0 p0 E0; apply (H r0 p0 E0).
Qed.

Theorem run_closed : forall ops rs, regs_cl rs -> regs_cl (regs_after rs ops).
Proof.
  induction ops as [|o ops IH]; intros rs H; cbn [regs_after fold_left]; [exact H|].
  apply IH. now apply step_regs_cl.
Qed.

Lemma regs_cl_nil : regs_cl [].
Proof. intros r p E. discriminate. Qed.
