(** Proofs about the block-hash serialisation of SimpleHashScheme (Model/HashScheme.v). *)
From Coq Require Import List NArith ZArith String Ascii Bool Lia Permutation Sorted.
From GV Require Import Base.Ints Model.TextFmt Model.HashScheme Model.SignBytes Monitors.C15m
  Proofs.TextFmt Proofs.SignBytes.
Import ListNotations.
Local Open Scope N_scope.

(** ** Well-formedness (bytes are bytes, Go map keys are unique) and header equivalence *)
Definition sig_ok (s : sparse_sig) : Prop := bytes_ok (ss_keyid s) /\ bytes_ok (ss_sig s).
Definition proofs_ok (p : list (list N * list sparse_sig)) : Prop :=
  NoDup (map fst p) /\ Forall (fun e => bytes_ok (fst e) /\ Forall sig_ok (snd e)) p.

Definition wf_header (h : header) : Prop :=
  bytes_ok (h_prev_block_hash h) /\
  bytes_ok (cp_pubkeyhash (h_prev_commit_proof h)) /\
  proofs_ok (cp_proofs (h_prev_commit_proof h)) /\
  bytes_ok (vs_pubkeyhash (h_valset h)) /\ bytes_ok (vs_votepowerhash (h_valset h)) /\
  bytes_ok (vs_pubkeyhash (h_next_valset h)) /\ bytes_ok (vs_votepowerhash (h_next_valset h)) /\
  bytes_ok (h_data_id h) /\ bytes_ok (h_prev_app_state_hash h) /\
  ann_ok (h_annotations h).

(** Commit-proof entries as a finite map from block hash to a multiset of signatures. *)
Definition entry_equiv (a b : option (list sparse_sig)) : Prop :=
  match a, b with
  | Some s, Some s' => Permutation s s'
  | None, None => True
  | _, _ => False
  end.
Definition proofs_equiv (pa pb : list (list N * list sparse_sig)) : Prop :=
  forall k, entry_equiv (alookup k pa) (alookup k pb).

(** Equality of every field except [h_hash]; the validator sets only through their two hashes
    (the validator lists themselves are not hashed by Block(); that gap is C07's subject). *)
Definition hdr_equiv (a b : header) : Prop :=
  h_prev_block_hash a = h_prev_block_hash b /\
  h_height a = h_height b /\
  cp_round (h_prev_commit_proof a) = cp_round (h_prev_commit_proof b) /\
  cp_pubkeyhash (h_prev_commit_proof a) = cp_pubkeyhash (h_prev_commit_proof b) /\
  proofs_equiv (cp_proofs (h_prev_commit_proof a)) (cp_proofs (h_prev_commit_proof b)) /\
  vs_pubkeyhash (h_valset a) = vs_pubkeyhash (h_valset b) /\
  vs_votepowerhash (h_valset a) = vs_votepowerhash (h_valset b) /\
  vs_pubkeyhash (h_next_valset a) = vs_pubkeyhash (h_next_valset b) /\
  vs_votepowerhash (h_next_valset a) = vs_votepowerhash (h_next_valset b) /\
  h_data_id a = h_data_id b /\
  h_prev_app_state_hash a = h_prev_app_state_hash b /\
  an_user (h_annotations a) = an_user (h_annotations b) /\
  an_driver (h_annotations a) = an_driver (h_annotations b).

(** ** Formatted keys and signatures *)
Definition keychar (c : N) : bool :=
  is_hexchar c || (c =? 60) || (c =? 62) || (c =? 110) || (c =? 105) || (c =? 108).
Definition sigchar (c : N) : bool := is_hexchar c || (c =? 58).

Lemma nil_marker : s2b "<nil>" = [60; 110; 105; 108; 62].
Proof. reflexivity. Qed.
Lemma sep_eq : s2b ", " = [44; 32].
Proof. reflexivity. Qed.
Lemma arrow_eq : s2b " => (" = [32; 61; 62; 32; 40].
Proof. reflexivity. Qed.
Lemma close_eq : s2b ")" = [41].
Proof. reflexivity. Qed.
Lemma colon_eq : s2b ":" = [58].
Proof. reflexivity. Qed.

Lemma hexchar_keychar c : is_hexchar c = true -> keychar c = true.
Proof. unfold keychar. intros ->. reflexivity. Qed.
Lemma hexchar_sigchar c : is_hexchar c = true -> sigchar c = true.
Proof. unfold sigchar. intros ->. reflexivity. Qed.

Lemma fmt_block_key_chars k : bytes_ok k -> all_chars keychar (fmt_block_key k).
Proof.
  destruct k as [|b k]; intros Hk; cbn [fmt_block_key].
  - rewrite nil_marker. repeat constructor.
  - eapply all_chars_weaken; [apply hexchar_keychar|]. now apply hex_chars.
Qed.

Lemma fmt_block_key_inj k k' : bytes_ok k -> bytes_ok k' -> fmt_block_key k = fmt_block_key k' -> k = k'.
Proof.
  destruct k as [|b k], k' as [|b' k']; cbn [fmt_block_key]; intros Hk Hk' E.
  - reflexivity.
  - exfalso. rewrite nil_marker, hex_cons in E. injection E as E _. inversion Hk'; subst.
    assert (Hc : is_hexchar (hexdigit (b' / 16)) = true) by (apply hexdigit_char; lia).
    rewrite <- E in Hc. discriminate.
  - exfalso. rewrite nil_marker, hex_cons in E. injection E as E _. inversion Hk; subst.
    assert (Hc : is_hexchar (hexdigit (b / 16)) = true) by (apply hexdigit_char; lia).
    rewrite E in Hc. discriminate.
  - now apply hex_inj.
Qed.

Lemma fmt_sig_inj s s' : sig_ok s -> sig_ok s' -> fmt_sig s = fmt_sig s' -> s = s'.
Proof.
  destruct s as [a b], s' as [a' b']; unfold sig_ok, fmt_sig; cbn [ss_keyid ss_sig].
  intros [Ha Hb] [Ha' Hb'] E. rewrite colon_eq in E. cbn [app] in E.
  apply split_field with (P := is_hexchar) in E;
    [|apply hex_chars; assumption|apply hex_chars; assumption|reflexivity].
  destruct E as [E1 E2]. apply hex_inj in E1; auto. apply hex_inj in E2; auto. congruence.
Qed.

Definition sigstr_ok (s : list N) : Prop := s <> [] /\ all_chars sigchar s.

Lemma fmt_sig_ok s : sig_ok s -> sigstr_ok (fmt_sig s).
Proof.
  intros [Ha Hb]. unfold fmt_sig. rewrite colon_eq. split.
  - destruct (hex (ss_keyid s)); discriminate.
  - apply all_chars_app; [eapply all_chars_weaken; [apply hexchar_sigchar|now apply hex_chars]|].
    cbn [app]. constructor; [reflexivity|].
    eapply all_chars_weaken; [apply hexchar_sigchar|now apply hex_chars].
Qed.

(** ** The canonical (sorted, formatted) form of the commit proof and its rendering *)
Definition centry : Type := (list N * list (list N))%type.

Definition render_centry (e : centry) : list N :=
  fst e ++ s2b " => (" ++ join (s2b ", ") (snd e) ++ s2b ")".

Definition canon (p : list (list N * list sparse_sig)) : list centry :=
  map (fun t => (t, sort_strings (map fmt_sig (commit_entry_sigs p t))))
      (sort_strings (map (fun e => fmt_block_key (fst e)) p)).

Lemma ser_commit_sigs_canon p : ser_commit_sigs p = join (s2b ", ") (map render_centry (canon p)).
Proof. unfold ser_commit_sigs, canon. rewrite map_map. reflexivity. Qed.

Definition centry_ok (e : centry) : Prop := all_chars keychar (fst e) /\ Forall sigstr_ok (snd e).

Lemma render_sigs_inj ss : forall ss' t t', Forall sigstr_ok ss -> Forall sigstr_ok ss' ->
  join (s2b ", ") ss ++ 41 :: t = join (s2b ", ") ss' ++ 41 :: t' -> ss = ss' /\ t = t'.
Proof.
  rewrite sep_eq.
  induction ss as [|s ss IH]; intros [|s' ss'] t t' Hs Hs' E.
  - cbn in E. injection E as E. auto.
  - exfalso. inversion Hs' as [|? ? [Hne Hc] _]; subst.
    destruct s' as [|c s']; [congruence|]. inversion Hc; subst.
    destruct ss'; cbn [join app] in E; injection E as E _; subst c; discriminate.
  - exfalso. inversion Hs as [|? ? [Hne Hc] _]; subst.
    destruct s as [|c s]; [congruence|]. inversion Hc; subst.
    destruct ss; cbn [join app] in E; injection E as E _; subst c; discriminate.
  - inversion Hs as [|? ? [Hne Hc] Hs1]; inversion Hs' as [|? ? [Hne' Hc'] Hs1']; subst.
    destruct ss as [|y l], ss' as [|y' l'].
    + rewrite !join_one in E.
      apply split_field with (P := sigchar) in E; auto. destruct E as [-> ->]. auto.
    + exfalso. rewrite join_one, join_cons2, <- !app_assoc in E.
      remember (join [44; 32] (y' :: l')) as J'. cbn [app] in E.
      apply split_stop with (P := sigchar) in E; auto. destruct E as [_ E]. discriminate.
    + exfalso. rewrite join_one, join_cons2, <- !app_assoc in E.
      remember (join [44; 32] (y :: l)) as J. cbn [app] in E.
      apply split_stop with (P := sigchar) in E; auto. destruct E as [_ E]. discriminate.
    + rewrite !join_cons2, <- !app_assoc in E.
      remember (join [44; 32] (y :: l)) as J. remember (join [44; 32] (y' :: l')) as J'. cbn [app] in E.
      apply split_field with (P := sigchar) in E; auto. destruct E as [-> E].
      injection E as E. subst J J'. apply IH in E; auto. destruct E as [E ->]. split; congruence.
Qed.

Lemma centry_step e e' X X' : centry_ok e -> centry_ok e' ->
  render_centry e ++ X = render_centry e' ++ X' -> e = e' /\ X = X'.
Proof.
  destruct e as [k ss], e' as [k' ss']. unfold centry_ok, render_centry. cbn [fst snd].
  intros [Hk Hs] [Hk' Hs'] E. rewrite arrow_eq, close_eq, <- !app_assoc in E. cbn [app] in E.
  apply split_field with (P := keychar) in E; auto. destruct E as [-> E].
  injection E as E. apply render_sigs_inj in E; auto. destruct E as [-> ->]. auto.
Qed.

Lemma render_centry_head e X : centry_ok e -> exists c Y, render_centry e ++ X = c :: Y /\ c <> 10.
Proof.
  destruct e as [[|c k] ss]; unfold centry_ok, render_centry; cbn [fst snd]; intros [Hk _].
  - rewrite arrow_eq. cbn [app]. eexists _, _. split; [reflexivity|discriminate].
  - inversion Hk; subst. cbn [app]. eexists _, _. split; [reflexivity|]. intros ->. discriminate.
Qed.

Lemma render_centries_inj es : forall es' r r', Forall centry_ok es -> Forall centry_ok es' ->
  join (s2b ", ") (map render_centry es) ++ 10 :: r = join (s2b ", ") (map render_centry es') ++ 10 :: r' ->
  es = es' /\ r = r'.
Proof.
  rewrite sep_eq.
  induction es as [|e es IH]; intros [|e' es'] r r' Hs Hs' E.
  - cbn in E. injection E as E. auto.
  - exfalso. inversion Hs'; subst. cbn [map] in E.
    destruct es' as [|y l]; cbn [map] in E.
    + rewrite join_one in E. destruct (render_centry_head e' (10 :: r')) as (c & Y & HY & Hc); auto.
      rewrite HY in E. cbn in E. congruence.
    + rewrite join_cons2, <- app_assoc in E.
      destruct (render_centry_head e' (([44; 32] ++ join [44; 32] (render_centry y :: map render_centry l)) ++ 10 :: r'))
        as (c & Y & HY & Hc); auto.
      rewrite HY in E. cbn in E. congruence.
  - exfalso. inversion Hs; subst. cbn [map] in E.
    destruct es as [|y l]; cbn [map] in E.
    + rewrite join_one in E. destruct (render_centry_head e (10 :: r)) as (c & Y & HY & Hc); auto.
      rewrite HY in E. cbn in E. congruence.
    + rewrite join_cons2, <- app_assoc in E.
      destruct (render_centry_head e (([44; 32] ++ join [44; 32] (render_centry y :: map render_centry l)) ++ 10 :: r))
        as (c & Y & HY & Hc); auto.
      rewrite HY in E. cbn in E. congruence.
  - inversion Hs as [|? ? He Hs1]; inversion Hs' as [|? ? He' Hs1']; subst.
    destruct es as [|y l], es' as [|y' l']; cbn [map] in E.
    + rewrite !join_one in E. apply centry_step in E; auto. destruct E as [-> E]. injection E as ->. auto.
    + exfalso. rewrite join_one, join_cons2, <- !app_assoc in E. apply centry_step in E; auto.
      destruct E as [_ E]. remember (join [44; 32] (render_centry y' :: map render_centry l')) as J'.
      cbn [app] in E. discriminate.
    + exfalso. rewrite join_one, join_cons2, <- !app_assoc in E. apply centry_step in E; auto.
      destruct E as [_ E]. remember (join [44; 32] (render_centry y :: map render_centry l)) as J.
      cbn [app] in E. discriminate.
    + rewrite !join_cons2, <- !app_assoc in E. apply centry_step in E; auto.
      destruct E as [-> E].
      change (render_centry y :: map render_centry l) with (map render_centry (y :: l)) in E.
      change (render_centry y' :: map render_centry l') with (map render_centry (y' :: l')) in E.
      remember (join [44; 32] (map render_centry (y :: l))) as J.
      remember (join [44; 32] (map render_centry (y' :: l'))) as J'.
      cbn [app] in E. injection E as E. subst J J'.
      apply IH in E; auto. destruct E as [E ->]. split; congruence.
Qed.

(** ** The canonical form characterised through the map *)
Lemma NoDup_map_inj_on {A B} (f : A -> B) l :
  (forall x y, In x l -> In y l -> f x = f y -> x = y) -> NoDup l -> NoDup (map f l).
Proof.
  induction l as [|a l IH]; intros Hinj Hnd; cbn [map]; [constructor|].
  inversion Hnd; subst. constructor.
  - intros Hin. apply in_map_iff in Hin as (x & Hx & Hxin).
    assert (x = a) by (apply Hinj; [now right|now left|exact Hx]). subst. contradiction.
  - apply IH; auto. intros x y Hx Hy. apply Hinj; now right.
Qed.

Lemma proofs_ok_key p k s : proofs_ok p -> In (k, s) p -> bytes_ok k /\ Forall sig_ok s.
Proof. intros [_ H] Hin. rewrite Forall_forall in H. apply (H (k, s) Hin). Qed.

Lemma commit_entry_sigs_spec p k s : proofs_ok p -> In (k, s) p ->
  commit_entry_sigs p (fmt_block_key k) = s.
Proof.
  intros Hok Hin. unfold commit_entry_sigs.
  assert (Hraw : alookup (fmt_block_key k) (map (fun e => (fmt_block_key (fst e), fst e)) p) = Some k).
  { apply In_alookup.
    - rewrite map_map. cbn [fst].
      rewrite <- (map_map fst fmt_block_key). apply NoDup_map_inj_on; [|apply Hok].
      intros x y Hx Hy. apply in_map_iff in Hx as ([x1 x2] & <- & Hx). apply in_map_iff in Hy as ([y1 y2] & <- & Hy).
      cbn [fst]. apply fmt_block_key_inj; [eapply proofs_ok_key; eauto|eapply proofs_ok_key; eauto].
    - apply in_map_iff. exists (k, s). auto. }
  rewrite Hraw. cbn [or_nil]. rewrite (In_alookup k s p); [reflexivity|apply Hok|exact Hin].
Qed.

Definition canon_of (k : list N) (s : list sparse_sig) : centry :=
  (fmt_block_key k, sort_strings (map fmt_sig s)).

Lemma canon_In p e : proofs_ok p ->
  (In e (canon p) <-> exists k s, In (k, s) p /\ e = canon_of k s).
Proof.
  intros Hok. unfold canon. rewrite in_map_iff. split.
  - intros (t & <- & Ht). apply sort_strings_In, in_map_iff in Ht as ([k s] & <- & Hin). cbn [fst].
    exists k, s. split; [exact Hin|]. unfold canon_of. now rewrite (commit_entry_sigs_spec p k s).
  - intros (k & s & Hin & ->). exists (fmt_block_key k). split.
    + unfold canon_of. now rewrite (commit_entry_sigs_spec p k s).
    + apply sort_strings_In, in_map_iff. exists (k, s). auto.
Qed.

Lemma canon_ok p : proofs_ok p -> Forall centry_ok (canon p).
Proof.
  intros Hok. apply Forall_forall. intros e He. apply canon_In in He as (k & s & Hin & ->); auto.
  destruct (proofs_ok_key p k s Hok Hin) as [Hk Hs]. split; cbn [canon_of fst snd].
  - now apply fmt_block_key_chars.
  - apply Forall_forall. intros x Hx. apply sort_strings_In, in_map_iff in Hx as (sg & <- & Hsg).
    apply fmt_sig_ok. rewrite Forall_forall in Hs. auto.
Qed.

Lemma map_inj_on {A B} (f : A -> B) (ok : A -> Prop) l l' :
  (forall x y, ok x -> ok y -> f x = f y -> x = y) -> Forall ok l -> Forall ok l' ->
  map f l = map f l' -> l = l'.
Proof.
  intros Hinj. revert l'; induction l as [|a l IH]; intros [|b l'] Hl Hl' E; try discriminate; [reflexivity|].
  inversion Hl; inversion Hl'; subst. cbn [map] in E. injection E as E1 E2. f_equal; auto.
Qed.

Lemma perm_map_inj_on {A B} (f : A -> B) (ok : A -> Prop) l l' :
  (forall x y, ok x -> ok y -> f x = f y -> x = y) -> Forall ok l -> Forall ok l' ->
  Permutation (map f l) (map f l') -> Permutation l l'.
Proof.
  intros Hinj Hl Hl' Hp. apply Permutation_map_inv in Hp as (l3 & E & Hp3).
  assert (Hl3 : Forall ok l3) by (eapply Permutation_Forall; [exact Hp3|exact Hl']).
  apply (map_inj_on f ok) in E; auto. subst. now symmetry.
Qed.

Lemma canon_sub pa pb k s : proofs_ok pa -> proofs_ok pb -> canon pa = canon pb ->
  alookup k pa = Some s -> exists s', alookup k pb = Some s' /\ Permutation s s'.
Proof.
  intros Ha Hb E Hl. apply alookup_In in Hl.
  assert (Hin : In (canon_of k s) (canon pb)).
  { rewrite <- E. apply canon_In; auto. exists k, s. auto. }
  apply canon_In in Hin as (k' & s' & Hin' & Ec); auto.
  destruct (proofs_ok_key pa k s Ha Hl) as [Hk Hs]. destruct (proofs_ok_key pb k' s' Hb Hin') as [Hk' Hs'].
  unfold canon_of in Ec. injection Ec as Ek Es.
  apply fmt_block_key_inj in Ek; auto. subst k'.
  exists s'. split; [apply In_alookup; [apply Hb|exact Hin']|].
  apply sort_strings_eq_perm in Es. eapply perm_map_inj_on; [|exact Hs|exact Hs'|exact Es].
  intros x y. apply fmt_sig_inj.
Qed.

Lemma canon_injective pa pb : proofs_ok pa -> proofs_ok pb -> canon pa = canon pb -> proofs_equiv pa pb.
Proof.
  intros Ha Hb E k. unfold entry_equiv.
  destruct (alookup k pa) as [s|] eqn:La.
  - destruct (canon_sub pa pb k s Ha Hb E La) as (s' & -> & Hp). exact Hp.
  - destruct (alookup k pb) as [s'|] eqn:Lb; [|exact I].
    destruct (canon_sub pb pa k s' Hb Ha (eq_sym E) Lb) as (s & Ls & _). congruence.
Qed.

Lemma proofs_equiv_keys pa pb : proofs_equiv pa pb -> forall k, In k (map fst pa) <-> In k (map fst pb).
Proof.
  intros He k. specialize (He k). unfold entry_equiv in He.
  destruct (alookup k pa) eqn:La, (alookup k pb) eqn:Lb; try contradiction.
  - apply alookup_In, (in_map fst) in La. apply alookup_In, (in_map fst) in Lb. tauto.
  - apply alookup_None in La. apply alookup_None in Lb. tauto.
Qed.

Lemma canon_invariant pa pb : proofs_ok pa -> proofs_ok pb -> proofs_equiv pa pb -> canon pa = canon pb.
Proof.
  intros Ha Hb He. unfold canon.
  assert (Hk : Permutation (map fst pa) (map fst pb)).
  { apply NoDup_Permutation; [apply Ha|apply Hb|]. now apply proofs_equiv_keys. }
  assert (Ht : sort_strings (map (fun e => fmt_block_key (fst e)) pa) =
               sort_strings (map (fun e => fmt_block_key (fst e)) pb)).
  { apply sort_strings_perm_eq. rewrite <- !(map_map fst fmt_block_key). now apply Permutation_map. }
  rewrite <- Ht. apply map_ext_in. intros t Hin.
  apply sort_strings_In, in_map_iff in Hin as ([k s] & <- & Hin). cbn [fst].
  pose proof (He k) as Hek. rewrite (In_alookup k s pa) in Hek; [|apply Ha|exact Hin].
  unfold entry_equiv in Hek. destruct (alookup k pb) as [s'|] eqn:Lb; [|contradiction].
  apply alookup_In in Lb.
  rewrite (commit_entry_sigs_spec pa k s), (commit_entry_sigs_spec pb k s'); auto.
  f_equal. apply sort_strings_perm_eq. now apply Permutation_map.
Qed.

(** Reordering the association list (Go map iteration order) or the signatures of an entry
    are instances of [proofs_equiv]. *)
Lemma perm_proofs_equiv pa pb : proofs_ok pa -> Permutation pa pb -> proofs_equiv pa pb.
Proof.
  intros Ha Hp k. unfold entry_equiv.
  assert (Hndb : NoDup (map fst pb)) by (eapply Permutation_NoDup; [apply Permutation_map; exact Hp|apply Ha]).
  destruct (alookup k pa) as [s|] eqn:La.
  - apply alookup_In in La. rewrite (In_alookup k s pb); [reflexivity|exact Hndb|].
    eapply Permutation_in; eauto.
  - destruct (alookup k pb) as [s'|] eqn:Lb; [|exact I].
    apply alookup_In in Lb. rewrite (In_alookup k s' pa) in La; [discriminate|apply Ha|].
    eapply Permutation_in; [symmetry; exact Hp|exact Lb].
Qed.

(** ** The header serialisation *)
Definition with_hash (x : list N) (h : header) : header :=
  Build_header x (h_prev_block_hash h) (h_height h) (h_prev_commit_proof h) (h_valset h) (h_next_valset h)
               (h_data_id h) (h_prev_app_state_hash h) (h_annotations h).

Definition with_validators (v v' : list (list N * N)) (h : header) : header :=
  Build_header (h_hash h) (h_prev_block_hash h) (h_height h) (h_prev_commit_proof h)
               (Build_valset v (vs_pubkeyhash (h_valset h)) (vs_votepowerhash (h_valset h)))
               (Build_valset v' (vs_pubkeyhash (h_next_valset h)) (vs_votepowerhash (h_next_valset h)))
               (h_data_id h) (h_prev_app_state_hash h) (h_annotations h).

Lemma ser_ignores_hash_field h x : ser_header (with_hash x h) = ser_header h.
Proof. reflexivity. Qed.

(** Stated explicitly: the validator LISTS are not part of the block hash, only their two hashes. *)
Lemma ser_ignores_validator_lists h v v' : ser_header (with_validators v v' h) = ser_header h.
Proof. reflexivity. Qed.

Lemma ser_perm_invariant a b : wf_header a -> wf_header b -> hdr_equiv a b -> ser_header a = ser_header b.
Proof.
  intros (_ & _ & Pa & _) (_ & _ & Pb & _) (E1 & E2 & E3 & E4 & E5 & E6 & E7 & E8 & E9 & E10 & E11 & E12 & E13).
  unfold ser_header. rewrite !ser_commit_sigs_canon.
  rewrite (canon_invariant _ _ Pa Pb E5).
  now rewrite E1, E2, E3, E4, E6, E7, E8, E9, E10, E11, E12, E13.
Qed.

Lemma cons_eq_tail {A} (x : A) a b : x :: a = x :: b -> a = b.
Proof. congruence. Qed.

Lemma ser_injective a b : wf_header a -> wf_header b -> ser_header a = ser_header b -> hdr_equiv a b.
Proof.
  intros (A1 & A2 & A3 & A4 & A5 & A6 & A7 & A8 & A9 & A10 & A11)
         (B1 & B2 & B3 & B4 & B5 & B6 & B7 & B8 & B9 & B10 & B11) E.
  unfold ser_header in E. rewrite !ser_commit_sigs_canon in E.
  repeat apply app_inv_head in E. unfold nl in E. cbn [app] in E.
  field_hex E E1. repeat apply app_inv_head in E. field_dec E E2.
  apply app_inv_head in E. apply cons_eq_tail in E. apply app_inv_head in E.
  field_dec E E3. repeat apply app_inv_head in E. field_hex E E4.
  apply app_inv_head in E.
  apply render_centries_inj in E; [|now apply canon_ok|now apply canon_ok].
  destruct E as [E5 E]. apply canon_injective in E5; auto.
  apply app_inv_head in E. change (s2b ".") with [46] in E. cbn [app] in E.
  field_hex E E6. field_hex E E7.
  apply app_inv_head in E. field_hex E E8. field_hex E E9.
  apply app_inv_head in E. field_hex E E10.
  apply app_inv_head in E. field_hex E E11.
  eapply ann_tail_inj in E; [|reflexivity|reflexivity|discriminate|assumption..].
  destruct E as [E12 E13].
  repeat split; assumption.
Qed.

Section Hash.
  Variable H : list N -> list N.

  (** An explicit collision of the hash function between two named pre-images. *)
  Definition collision (x y : list N) : Prop := x <> y /\ H x = H y.

  Lemma block_hash_binds a b : wf_header a -> wf_header b ->
    block_hash H a = block_hash H b -> hdr_equiv a b \/ collision (ser_header a) (ser_header b).
  Proof.
    intros Wa Wb E. destruct (list_eq_dec N.eq_dec (ser_header a) (ser_header b)) as [Es|Hne].
    - left. now apply ser_injective.
    - right. split; assumption.
  Qed.

  Lemma block_hash_respects_equiv a b : wf_header a -> wf_header b -> hdr_equiv a b ->
    block_hash H a = block_hash H b.
  Proof. intros Wa Wb E. unfold block_hash. now rewrite (ser_perm_invariant a b). Qed.
End Hash.
