(** C13 - sparse round trip and totality of ValidateFinalizedProof for the simple scheme. *)
From Coq Require Import List NArith ZArith String Bool Lia ZifyBool ZifyN Permutation.
From GV Require Import Base.Ints Gen.KeyID Model.SimpleProofBase Model.SimpleProof Monitors.C13m
  Proofs.SimpleProof Proofs.SimpleMerge Proofs.SimpleInv.
Import ListNotations.
Local Open Scope N_scope.
Ltac Zify.zify_post_hook ::= Z.div_mod_to_equations.

Lemma insert_by_perm {A} (key : A -> list N) x l : Permutation (x :: l) (insert_by key x l).
Proof.
  induction l as [|y t IH]; cbn [insert_by]; [reflexivity|].
  destruct (bytes_ltb (key x) (key y)); [reflexivity|].
  etransitivity; [apply perm_swap|]. apply perm_skip. exact IH.
Qed.

Lemma sort_by_perm {A} (key : A -> list N) l : Permutation l (sort_by key l).
Proof.
  induction l as [|x t IH]; cbn [sort_by fold_right]; [reflexivity|].
  etransitivity; [apply perm_skip; exact IH|]. apply insert_by_perm.
Qed.

Lemma entry_index_be16_roundtrip nkeys t :
  (N.to_nat t < nkeys)%nat -> t < 65536 -> entry_index nkeys (be16 (wrap16 t)) = Some t.
Proof.
  intros H1 H2. unfold entry_index, be16, wrap16, two16.
  rewrite (N.mod_small t 65536) by exact H2.
  replace (t / 256 mod 256 * 256 + t mod 256) with t by lia.
  destruct (Z.ltb_spec (Z.of_N t) (Z.of_nat nkeys)); [reflexivity|lia].
Qed.

Lemma good_entry_of_sig keys msg s k t :
  N.of_nat (List.length keys) <= 65536 ->
  key_index keys k = Some t -> sig_verify k msg s = true ->
  good_entry keys msg (sparse_of_sig keys (s, k)) = Some (t, t).
Proof.
  intros Hl K V. unfold good_entry, sparse_of_sig. cbn [fst snd]. rewrite K.
  pose proof (key_index_lt _ _ _ K) as Hlt.
  rewrite entry_index_be16_roundtrip by lia.
  rewrite (key_index_nth _ _ _ K), V, K. reflexivity.
Qed.

Lemma spec_av_forallb keys msg es :
  fst (spec_sparse keys msg es) =
  forallb (fun e => match good_entry keys msg e with Some _ => true | None => false end) es.
Proof.
  induction es as [|e t IH]; cbn [spec_sparse forallb]; [reflexivity|].
  destruct (spec_sparse keys msg t) as [sa [sd su]]. cbn [fst] in IH.
  destruct (good_entry keys msg e) as [[n i]|]; cbn [fst andb]; [exact IH|reflexivity].
Qed.

(** sparse_roundtrip: a fresh proof over the same message and keys that merges the sparse form of [p]
    accepts every signature and ends with exactly [p]'s signer set. *)
Theorem sparse_roundtrip p :
  Inv p -> N.of_nat (List.length (p_keys p)) <= 65536 -> p_keys p <> [] ->
  exists q0 q fl, new_proof (p_msg p) (p_keys p) (p_hash p) = Ok q0 /\
    merge_sparse q0 (as_sparse p) = Ok (q, fl) /\ p_bits q = p_bits p /\ fl_all_valid fl = true.
Proof.
  intros [I1 I2] Hl Hne. rewrite (new_proof_ok _ _ _ Hne). eexists. 
  set (q0 := mk_proof (p_msg p) (p_keys p) (p_hash p) 0 []).
  destruct (merge_sparse_spec q0 (fst (as_sparse p)) (snd (as_sparse p))) as (q & fl & E & F & B & _).
  exists q, fl. split; [reflexivity|]. split; [destruct (as_sparse p); exact E|].
  unfold exp_merge_sparse in *. cbn [mreg_of q0 m_hash m_bits m_keys m_msg p_hash p_keys p_msg p_bits as_sparse fst snd] in *.
  rewrite bytes_eqb_refl in *. cbn [negb] in *.
  set (es := sort_by (fun e : sparse_entry => fst e) (map (sparse_of_sig (p_keys p)) (p_sigs p))) in *.
  pose proof (spec_av_forallb (p_keys p) (p_msg p) es) as AV.
  pose proof (spec_un_perm (p_keys p) (p_msg p) _ _ (sort_by_perm (fun e : sparse_entry => fst e) (map (sparse_of_sig (p_keys p)) (p_sigs p)))) as UN.
  fold es in UN.
  destruct (spec_sparse (p_keys p) (p_msg p) es) as [sa [sd su]]. cbn [fst snd] in *.
  split.
  - rewrite B, N.lor_0_l, <- UN. apply N.bits_inj. intros i. rewrite spec_un_testbit.
    apply eq_true_iff_eq. rewrite existsb_exists. split.
    + intros (e & He & Ho). apply in_map_iff in He. destruct He as ([s k] & Heq & Hin). subst e.
      destruct (I1 _ _ Hin) as (V & t & K & Bt).
      unfold offers_bit in Ho. rewrite (good_entry_of_sig _ _ _ _ _ Hl K V) in Ho.
      apply N.eqb_eq in Ho. subst. exact Bt.
    + intros Hi. destruct (I2 _ Hi) as (s & k & Hin & K & V).
      exists (sparse_of_sig (p_keys p) (s, k)). split; [apply in_map; exact Hin|].
      unfold offers_bit. rewrite (good_entry_of_sig _ _ _ _ _ Hl K V). apply N.eqb_refl.
  - unfold obs_flags in F. assert (Hav : b2n (fl_all_valid fl) = b2n sa) by (injection F; auto).
    assert (sa = true).
    { rewrite AV. apply forallb_forall. intros e He.
      apply (Permutation_in _ (Permutation_sym (sort_by_perm _ _))) in He.
      apply in_map_iff in He. destruct He as ([s k] & Heq & Hin). subst e.
      destruct (I1 _ _ Hin) as (V & t & K & Bt). rewrite (good_entry_of_sig _ _ _ _ _ Hl K V). reflexivity. }
    rewrite H in Hav. destruct (fl_all_valid fl); [reflexivity|]. cbn in Hav. lia.
Qed.

(* ------------------------------------------------------------------ totality *)
Lemma vf_block_total keys hash msg sigs : keys <> [] -> exists r, vf_block keys hash msg sigs = Ok r.
Proof.
  intros Hne. unfold vf_block. rewrite (new_proof_ok _ _ _ Hne). cbn [bind].
  destruct (merge_sparse_total (mk_proof msg keys hash 0 []) (hash, sigs)) as [[p' fl] E]. rewrite E. cbn [bind].
  destruct (negb (fl_all_valid fl)); eauto.
Qed.

Lemma vf_rest_total keys hash hashes rest : keys <> [] -> forall out, exists r, vf_rest keys hash hashes rest out = Ok r.
Proof.
  intros Hne. induction rest as [|[msg sigs] t IH]; intros out; cbn [vf_rest]; [eauto|].
  destruct (vf_block_total keys hash msg sigs Hne) as [[b|] E]; rewrite E; cbn [bind]; [apply IH|eauto].
Qed.

(** total: with a non-empty trusted key list, ValidateFinalizedProof never panics, whatever the
    main/rest sparse signatures, key ids, hashes map. (MergeSparse: [merge_sparse_total].) *)
Theorem validate_finalized_total f hashes : f_keys f <> [] -> exists r, validate_finalized f hashes = Ok r.
Proof.
  intros Hne. unfold validate_finalized.
  destruct (vf_block_total (f_keys f) (f_hash f) (f_main_msg f) (f_main_sigs f) Hne) as [[b|] E]; rewrite E; cbn [bind]; [|eauto].
  destruct (vf_rest_total (f_keys f) (f_hash f) hashes (f_rest f) Hne [(hash_get hashes (f_main_msg f), b)]) as [[o|] E2];
    rewrite E2; cbn [bind]; eauto.
Qed.

Theorem has_sparse_key_id_total p id : exists r, has_sparse_key_id p id = Ok r.
Proof. rewrite has_sparse_key_id_spec. eauto. Qed.

Theorem key_id_checker_total nkeys id : exists r, key_id_checker_valid nkeys id = Ok r.
Proof. unfold key_id_checker_valid. rewrite key_id_valid_spec. eauto. Qed.

Theorem validate_empty_keys_panics f hashes : f_keys f = [] -> exists s, validate_finalized f hashes = Panic s.
Proof. intros H. unfold validate_finalized, vf_block, new_proof. rewrite H. cbn. eauto. Qed.
