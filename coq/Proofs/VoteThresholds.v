(** C06 consequences: what a set of signers of distinct power below ByzantineMinority can NOT do.
    Uses the generated threshold functions (Gen/Math.v), the generated step function (Gen/Step.v)
    and the hand-modelled kernel comparisons of Model/VoteSummary.v. *)
From Coq Require Import List NArith ZArith String Bool Lia ZifyBool ZifyN Permutation.
From GV Require Import Base.Ints Gen.Math Gen.Step Model.VoteSummary Monitors.C06m Model.C06Run
  Proofs.Thresholds Proofs.BytesOrder Proofs.VoteSummary Proofs.VoteDistribution.
Import ListNotations.
Local Open Scope N_scope.
Ltac Zify.zify_post_hook ::= Z.div_mod_to_equations.

Lemma maj_is_spec n : maj n = spec_majority n.
Proof. unfold maj, spec_majority. destruct (N.ltb_spec (n mod 3) 2); lia. Qed.

Lemma mnr_is_spec n : mnr n = spec_minority n.
Proof. unfold mnr, spec_minority. destruct (N.eqb_spec (n mod 3) 0); lia. Qed.

Lemma mnr_le_n n : 1 <= n -> mnr n <= n.
Proof. unfold mnr. destruct (N.eqb_spec (n mod 3) 0); lia. Qed.

Lemma mnr_pos n : 1 <= n -> 1 <= mnr n.
Proof. unfold mnr. destruct (N.eqb_spec (n mod 3) 0); lia. Qed.

(** The generated GetStepFromVoteSummary, in closed form, for every summary whose available
    power is in [1, 2^64). *)
Definition step_closed (s : vote_summary) : N :=
  let mj := maj (vs_available s) in
  let mn := mnr (vs_available s) in
  if mj <=? vs_total_precommit s then
    (if mj <=? map_get (vs_precommit_block s) (vs_most_precommit s) then StepCommitWait else StepPrecommitDelay)
  else if mn <=? vs_total_precommit s then StepAwaitingPrecommits
  else if mj <=? vs_total_prevote s then
    (if mj <=? map_get (vs_prevote_block s) (vs_most_prevote s) then StepAwaitingPrecommits else StepPrevoteDelay)
  else StepAwaitingProposal.

Lemma get_step_closed s : in_range (vs_available s) -> get_step (to_gen s) = Ok (step_closed s).
Proof.
  intros Hr. unfold get_step, to_gen, step_closed.
  cbn [vsum_AvailablePower vsum_TotalPrevotePower vsum_TotalPrecommitPower vsum_PrevoteBlockPower
       vsum_PrecommitBlockPower vsum_MostVotedPrevoteHash vsum_MostVotedPrecommitHash].
  rewrite (maj_closed_form _ Hr), (min_closed_form _ Hr). cbn [bind].
  fold (maj (vs_available s)). fold (mnr (vs_available s)).
  repeat match goal with |- context [if ?c then _ else _] => destruct c end; reflexivity.
Qed.

Lemma get_step_zero_panics s : vs_available s = 0 -> model_step s = None.
Proof.
  intros H. unfold model_step, get_step, to_gen. cbn [vsum_AvailablePower]. rewrite H. reflexivity.
Qed.

(** * Signers holding less than the minority threshold *)

Section Minority.
  Variables (vals : list N) (pv pc : list entry) (Bv Bc : N).
  Let T := sum_powers vals.
  Hypothesis HT1 : 1 <= T.
  Hypothesis HT2 : T < two64.
  (** every admitted prevote (precommit) signature comes from the set Bv (Bc) ... *)
  Hypothesis Hpv : forall e, In e pv -> mask_subset (snd e) Bv.
  Hypothesis Hpc : forall e, In e pc -> mask_subset (snd e) Bc.
  (** ... whose DISTINCT power is below ByzantineMinority(total), however many targets each member
      signs.  (One Byzantine set B is the instance Bv = Bc = B.) *)
  Hypothesis HBv : mask_power vals Bv < mnr T.
  Hypothesis HBc : mask_power vals Bc < mnr T.

  Let s := summarize vals pv pc.

  Lemma avail_T : vs_available s = T.
  Proof. unfold s, summarize. cbn [vs_available]. apply available_spec. exact HT2. Qed.

  Lemma tpv_le_B : vs_total_prevote s <= mask_power vals Bv.
  Proof.
    unfold s, summarize. cbn [vs_total_prevote]. rewrite (total_counts_once _ _ HT2).
    apply mask_power_mono, union_subset. exact Hpv.
  Qed.

  Lemma tpc_le_B : vs_total_precommit s <= mask_power vals Bc.
  Proof.
    unfold s, summarize. cbn [vs_total_precommit]. rewrite (total_counts_once _ _ HT2).
    apply mask_power_mono, union_subset. exact Hpc.
  Qed.

  Theorem minority_cannot_reach_thresholds :
    byz_minority (vs_available s) = Ok (mnr T) /\ byz_majority (vs_available s) = Ok (maj T) /\
    vs_total_prevote s < mnr T /\ vs_total_precommit s < mnr T /\
    vs_total_prevote s < maj T /\ vs_total_precommit s < maj T.
  Proof.
    rewrite avail_T.
    assert (Hr : in_range T) by (split; assumption).
    pose proof tpv_le_B. pose proof tpc_le_B. pose proof (mnr_le_maj T HT1).
    repeat split; try lia.
    - apply min_closed_form; exact Hr.
    - apply maj_closed_form; exact Hr.
  Qed.

  (** The step function (generated from tsi/step.go) stays AwaitingProposal: no delay timeout starts. *)
  Theorem minority_cannot_start_delay : get_step (to_gen s) = Ok StepAwaitingProposal.
  Proof.
    destruct minority_cannot_reach_thresholds as [_ [_ [H1 [H2 [H3 H4]]]]].
    rewrite get_step_closed by (rewrite avail_T; split; assumption).
    unfold step_closed. rewrite avail_T.
    destruct (N.leb_spec (maj T) (vs_total_precommit s)); [lia|].
    destruct (N.leb_spec (mnr T) (vs_total_precommit s)); [lia|].
    destruct (N.leb_spec (maj T) (vs_total_prevote s)); [lia|]. reflexivity.
  Qed.

  Theorem minority_cannot_make_fully_voted :
    vs_total_precommit s <> vs_available s /\ vs_total_prevote s <> vs_available s.
  Proof.
    destruct minority_cannot_reach_thresholds as [_ [_ [H1 [H2 _]]]].
    rewrite avail_T. pose proof (mnr_le_n T HT1). lia.
  Qed.

  (** The three comparisons the mirror kernel makes do not fire. *)
  Theorem minority_cannot_skip_round :
    NoDup (keys pc) ->
    prevote_view_shift s = Ok false /\
    next_round_precommit_view_shift s = Ok NRNothing /\
    voting_precommit_view_shift s = Ok VPNothing.
  Proof.
    intros Hnd.
    destruct minority_cannot_reach_thresholds as [Hmin [Hmaj [H1 [H2 [H3 H4]]]]].
    destruct minority_cannot_make_fully_voted as [Hf _].
    unfold prevote_view_shift, next_round_precommit_view_shift, voting_precommit_view_shift.
    rewrite Hmin, Hmaj. cbn [bind].
    destruct (N.ltb_spec (vs_total_prevote s) (mnr T)); [|lia].
    destruct (N.ltb_spec (vs_total_precommit s) (mnr T)); [|lia].
    split; [reflexivity|]. split; [reflexivity|].
    assert (Hhigh : map_get (vs_precommit_block s) (vs_most_precommit s) < maj T).
    { unfold s, summarize. cbn [vs_precommit_block vs_most_precommit].
      rewrite (most_block_is_max _ _ HT2 Hnd).
      pose proof (max_power_le_union vals pc) as Hle.
      assert (vs_total_precommit s = mask_power vals (union_mask pc)) as E.
      { unfold s, summarize. cbn [vs_total_precommit]. apply total_counts_once. exact HT2. }
      lia. }
    destruct (N.ltb_spec (map_get (vs_precommit_block s) (vs_most_precommit s)) (maj T)); [|lia].
    destruct (N.eqb_spec (vs_total_precommit s) (vs_available s)); [contradiction|]. reflexivity.
  Qed.
End Minority.

(** Non-vacuity and tightness: 4 equal validators, minority threshold 2.  One validator signing
    three targets stays below every threshold; two validators reach it (the round jump is live). *)
Example minority_hypotheses_satisfiable :
  let vals := [1;1;1;1] in
  let pv := [([170], 1); ([187], 1); ([], 1)] in
  sum_powers vals = 4 /\ mnr 4 = 2 /\ mask_power vals 1 = 1 /\
  vs_total_prevote (summarize vals pv []) = 1 /\
  prevote_view_shift (summarize vals pv []) = Ok false /\
  prevote_view_shift (summarize vals [([170], 1); ([187], 2)] []) = Ok true /\
  voting_precommit_view_shift (summarize vals [] [([170], 3); ([], 12)]) = Ok VPAdvanceFullyVoted /\
  voting_precommit_view_shift (summarize vals [] [([], 7)]) = Ok VPAdvanceNil /\
  get_step (to_gen (summarize vals [([170], 3); ([187], 4)] [])) = Ok StepPrevoteDelay.
Proof. vm_compute. repeat split. Qed.

(** * The model's outputs always satisfy the monitor *)

Lemma mem_key_in (m : list (hash * N)) k : mem_key k m = true <-> In k (keys m).
Proof.
  unfold keys. induction m as [|[k' v] m IH]; cbn [mem_key map fst In].
  - split; [discriminate|tauto].
  - rewrite orb_true_iff, IH, bytes_eqb_eq. tauto.
Qed.

Lemma nodup_keys_iff (m : list (hash * N)) : nodup_keys m = true <-> NoDup (keys m).
Proof.
  unfold keys. induction m as [|[k v] m IH]; cbn [nodup_keys map fst].
  - split; [constructor|reflexivity].
  - rewrite andb_true_iff, negb_true_iff, IH. split.
    + intros [Hn Hd]. constructor; [|exact Hd]. intros Hin. apply mem_key_in in Hin. congruence.
    + intros Hd. inversion Hd as [|? ? Hn Hd']; subst. split; [|exact Hd'].
      destruct (mem_key k m) eqn:E; [|reflexivity]. apply mem_key_in in E. contradiction.
Qed.

Lemma kind_ok_model vals es :
  sum_powers vals < two64 -> NoDup (keys es) ->
  let s := set_powers vals es in
  kind_ok vals es (p_total s) (p_block s) (p_most s) = true.
Proof.
  intros H Hnd. cbv zeta. unfold kind_ok. rewrite !andb_true_iff. repeat split.
  - apply N.eqb_eq. apply total_counts_once. exact H.
  - apply N.leb_le. rewrite (total_counts_once _ _ H). apply mask_power_le.
  - unfold block_ok. rewrite !andb_true_iff. repeat split.
    + apply forallb_forall. intros [h m] Hin. cbn [fst snd]. rewrite andb_true_iff. split.
      * apply mem_key_in, block_keys_spec, in_keys_exists. eauto.
      * apply N.eqb_eq. apply block_power_spec; assumption.
    + apply forallb_forall. intros [h v] Hin. cbn [fst]. apply mem_key_in.
      apply (block_keys_spec vals es h). unfold keys. apply in_map_iff. exists (h, v). auto.
    + apply nodup_keys_iff, block_keys_nodup.
  - unfold most_ok. destruct (most_voted_spec vals es H) as [Hz Hp].
    destruct (N.eqb_spec (max_power vals es) 0) as [E|E].
    + rewrite (Hz E). reflexivity.
    + destruct (Hp ltac:(lia)) as [[m [Hin Hm]] Hl]. rewrite andb_true_iff. split.
      * apply existsb_exists. exists (p_most (set_powers vals es), m). split; [exact Hin|].
        cbn [fst snd]. rewrite bytes_eqb_refl, Hm, N.eqb_refl. reflexivity.
      * apply forallb_forall. intros [h m'] Hin'. cbn [fst snd].
        destruct (N.eqb_spec (mask_power vals m') (max_power vals es)) as [E2|E2]; [|reflexivity].
        cbn [negb orb]. rewrite (Hl h m' Hin' E2). reflexivity.
Qed.

Lemma spec_step_model vals pv pc :
  sum_powers vals < two64 -> NoDup (keys pv) -> NoDup (keys pc) ->
  model_step (summarize vals pv pc) =
  spec_step (sum_powers vals) (mask_power vals (union_mask pv)) (max_power vals pv)
            (mask_power vals (union_mask pc)) (max_power vals pc).
Proof.
  intros H Hv Hc. unfold spec_step.
  assert (Ha : vs_available (summarize vals pv pc) = sum_powers vals)
    by (unfold summarize; cbn [vs_available]; apply available_spec; exact H).
  destruct (N.eqb_spec (sum_powers vals) 0) as [E|E].
  - apply get_step_zero_panics. rewrite Ha. exact E.
  - unfold model_step. rewrite get_step_closed by (rewrite Ha; split; [lia|exact H]).
    cbn [res_to_option]. unfold step_closed. rewrite Ha, maj_is_spec, mnr_is_spec.
    unfold summarize. cbn [vs_total_prevote vs_total_precommit vs_prevote_block vs_precommit_block vs_most_prevote vs_most_precommit].
    rewrite !(total_counts_once _ _ H), (most_block_is_max _ _ H Hv), (most_block_is_max _ _ H Hc).
    repeat match goal with |- context [if ?c then _ else _] => destruct c end; reflexivity.
Qed.

Lemma guard_ok_true vals es : guard_ok vals es = true -> sum_powers vals < two64 /\ NoDup (keys es).
Proof.
  unfold guard_ok. rewrite andb_true_iff, N.ltb_lt, nodup_keys_iff. tauto.
Qed.

Theorem model_satisfies_monitor vals pv pc :
  c06_mon vals pv pc (model_obs vals pv pc) = true.
Proof.
  unfold c06_mon. destruct (guard_ok vals pv && guard_ok vals pc) eqn:G; [|reflexivity].
  cbn [negb]. apply andb_true_iff in G as [G1 G2].
  apply guard_ok_true in G1 as [H Hv]. apply guard_ok_true in G2 as [_ Hc].
  unfold model_obs. cbn [o_available o_total_prevote o_total_precommit o_prevote_block o_precommit_block
                         o_most_prevote o_most_precommit o_step].
  rewrite (spec_step_model _ _ _ H Hv Hc).
  unfold summarize. cbn [vs_available vs_total_prevote vs_total_precommit vs_prevote_block vs_precommit_block vs_most_prevote vs_most_precommit].
  rewrite (kind_ok_model vals pv H Hv), (kind_ok_model vals pc H Hc), (available_spec _ H), N.eqb_refl.
  cbn [andb]. destruct (spec_step _ _ _ _ _); [apply N.eqb_refl|reflexivity].
Qed.

Theorem model_satisfies_minority_monitor vals pv pc :
  c06_minority_mon vals pv pc (model_obs vals pv pc) = true.
Proof.
  unfold c06_minority_mon. destruct (guard_ok vals pv && guard_ok vals pc && minority_only vals pv pc) eqn:G; [|reflexivity].
  cbn [negb]. apply andb_true_iff in G as [G G3]. apply andb_true_iff in G as [G1 G2].
  apply guard_ok_true in G1 as [H Hv]. apply guard_ok_true in G2 as [_ Hc].
  unfold minority_only in G3. rewrite !andb_true_iff, N.leb_le, !N.ltb_lt, <- !mnr_is_spec in G3.
  destruct G3 as [[HT1 Hmv] Hmc].
  pose proof (minority_cannot_reach_thresholds vals pv pc (union_mask pv) (union_mask pc) HT1 H
                (fun e Hin => entry_subset_union pv e Hin) (fun e Hin => entry_subset_union pc e Hin) Hmv Hmc)
    as [_ [_ [H1 [H2 _]]]].
  pose proof (minority_cannot_start_delay vals pv pc (union_mask pv) (union_mask pc) HT1 H
                (fun e Hin => entry_subset_union pv e Hin) (fun e Hin => entry_subset_union pc e Hin) Hmv Hmc) as Hs.
  pose proof (minority_cannot_make_fully_voted vals pv pc (union_mask pv) (union_mask pc) HT1 H
                (fun e Hin => entry_subset_union pv e Hin) (fun e Hin => entry_subset_union pc e Hin) Hmv Hmc) as [Hf1 Hf2].
  unfold model_obs. cbn [o_available o_total_prevote o_total_precommit o_step].
  unfold model_step. rewrite Hs. cbn [res_to_option].
  assert (Ha : vs_available (summarize vals pv pc) = sum_powers vals)
    by (unfold summarize; cbn [vs_available]; apply available_spec; exact H).
  rewrite Ha in *. rewrite <- !mnr_is_spec.
  rewrite !andb_true_iff, !negb_true_iff, !N.ltb_lt, !N.eqb_neq. repeat split; auto.
Qed.

(** * Mirror level: one vote message from a sub-minority signer set leaves the voting round alone *)

Theorem minority_message_cannot_move_round vals is_prevote round entries B :
  1 <= sum_powers vals -> sum_powers vals < two64 ->
  (forall e, In e entries -> mask_subset (snd e) B) ->
  mask_power vals B < mnr (sum_powers vals) ->
  NoDup (keys entries) ->
  exists pv pc, mirror_predict vals is_prevote round entries = Some (0, pv, pc).
Proof.
  intros HT1 HT2 Hsub HB Hnd.
  assert (Hnil : forall e : hash * N, In e [] -> mask_subset (snd e) B) by (intros e []).
  unfold mirror_predict. destruct is_prevote.
  - destruct (round =? 0); [eauto|].
    destruct (minority_cannot_skip_round vals entries [] B B HT1 HT2 Hsub Hnil HB HB) as [H1 _]; [constructor|].
    rewrite H1. eauto.
  - destruct (minority_cannot_skip_round vals [] entries B B HT1 HT2 Hnil Hsub HB HB Hnd) as [_ [H2 H3]].
    destruct (round =? 0).
    + rewrite H3. eauto.
    + rewrite H2. eauto.
Qed.

Theorem model_satisfies_round_monitor vals is_prevote round entries r pv pc :
  mirror_predict vals is_prevote round entries = Some (r, pv, pc) ->
  c06_round_mon vals entries 1 r = true.
Proof.
  intros Hp. unfold c06_round_mon.
  destruct (guard_ok vals entries && (1 <=? sum_powers vals) &&
            (mask_power vals (union_mask entries) <? spec_minority (sum_powers vals))) eqn:G; [|reflexivity].
  cbn [negb]. apply andb_true_iff in G as [G G3]. apply andb_true_iff in G as [G1 G2].
  apply guard_ok_true in G1 as [H Hnd]. apply N.leb_le in G2. apply N.ltb_lt in G3.
  rewrite <- mnr_is_spec in G3.
  destruct (minority_message_cannot_move_round vals is_prevote round entries (union_mask entries) G2 H
              (fun e Hin => entry_subset_union entries e Hin) G3 Hnd) as [pv' [pc' E]].
  rewrite E in Hp. inversion Hp; subst. reflexivity.
Qed.

Theorem model_satisfies_sum_monitor vals pv pc :
  c06_sum_mon vals pv pc (model_obs vals pv pc) = true.
Proof.
  unfold c06_sum_mon. destruct (guard_ok vals pv && guard_ok vals pc) eqn:G; [|reflexivity].
  cbn [negb]. apply andb_true_iff in G as [G1 G2].
  apply guard_ok_true in G1 as [H Hv]. apply guard_ok_true in G2 as [_ Hc].
  unfold model_obs, summarize.
  cbn [o_available o_total_prevote o_total_precommit o_prevote_block o_precommit_block
       o_most_prevote o_most_precommit vs_available vs_total_prevote vs_total_precommit
       vs_prevote_block vs_precommit_block vs_most_prevote vs_most_precommit].
  rewrite (kind_ok_model vals pv H Hv), (kind_ok_model vals pc H Hc), (available_spec _ H), N.eqb_refl.
  reflexivity.
Qed.

Theorem model_satisfies_dist_monitor vals entries :
  let d := vote_distribution vals entries in
  dist_mon vals entries (d_available d) (d_present d) (d_block d) = true.
Proof.
  cbv zeta. unfold dist_mon. destruct (guard_ok vals entries) eqn:G; [|reflexivity].
  cbn [negb]. apply guard_ok_true in G as [H Hnd].
  destruct (distribution_spec vals entries H) as [Ha [Hp [Hb [Hk Hn]]]].
  rewrite Ha, Hp, !N.eqb_refl. cbn [andb]. rewrite !andb_true_iff. repeat split.
  - apply forallb_forall. intros [h m] Hin. cbn [fst snd]. apply N.eqb_eq. apply Hb; assumption.
  - apply forallb_forall. intros [h v] Hin. cbn [fst]. apply mem_key_in. apply Hk.
    unfold keys. apply in_map_iff. exists (h, v). auto.
  - apply nodup_keys_iff. exact Hn.
Qed.
