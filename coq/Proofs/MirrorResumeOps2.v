(** C10 (crash at any point), continued: vote messages. *)
From Coq Require Import List NArith Arith Bool Lia String.
From GV Require Import Base.Ints Gen.Math Gen.Kernel Model.Mirror
  Proofs.Thresholds Proofs.MirrorAuth Proofs.MirrorNoop Proofs.MirrorChain Proofs.MirrorCert
  Proofs.MirrorTotal Proofs.MirrorRestart Proofs.MirrorLog
  Proofs.MirrorResumeLoad Proofs.MirrorResumeRT Proofs.MirrorResumeInv Proofs.MirrorResumeStart Proofs.MirrorResumeOps.
Import ListNotations.
Local Open Scope N_scope.

(** * Small facts *)
Lemma fold_pm_set_ne ups : forall pm : pmap, ne_pmap pm -> ne_pmap ups ->
  ne_pmap (fold_left (fun m e => pm_set m (fst e) (snd e)) ups pm).
Proof.
  induction ups as [|[t p] ups IH]; intros pm Hpm Hu; cbn [fold_left]; [exact Hpm|].
  apply IH.
  - apply pm_set_ne; [exact Hpm|]. apply (Hu t p). left; reflexivity.
  - intros t' p' Hin. apply (Hu t' p'). right; exact Hin.
Qed.

Lemma fold_pm_set_nonempty (ups : pmap) : forall pm : pmap, ups <> [] \/ pm <> [] ->
  fold_left (fun m e => pm_set m (fst e) (snd e)) ups pm <> [].
Proof.
  induction ups as [|[t p] ups IH]; intros pm H; cbn [fold_left].
  - destruct H as [H|H]; [contradiction|exact H].
  - apply IH. right. apply pm_set_nonempty.
Qed.

Lemma bit_count_nil_lt base p : Nat.ltb (bit_count base) (bit_count p) = true -> p <> [].
Proof. intros H E. subst p. apply Nat.ltb_lt in H. cbn in H. lia. Qed.

Lemma build_updates_ne kind v toadd : ne_pmap (fst (build_updates kind v toadd)).
Proof.
  unfold build_updates.
  assert (G : forall l ups allv, ne_pmap ups ->
    ne_pmap (fst (fold_left (fun acc e =>
      let '(ups, allv) := acc in
      let base := match pm_get (view_votes kind v) (fst e) with Some p => p | None => [] end in
      let '(p', av, inc) := merge_sparse kind (v_h v) (v_r v) (fst e) (vs_keys (v_vals v)) base (snd e) in
      (if inc then pm_set ups (fst e) p' else ups, allv && av)) l (ups, allv)))).
  { induction l as [|e l IH]; intros ups allv Hu; cbn [fold_left]; [exact Hu|].
    cbv zeta.
    destruct (merge_sparse kind (v_h v) (v_r v) (fst e) (vs_keys (v_vals v)) _ (snd e)) as [[p' av] inc] eqn:Em.
    destruct inc; apply IH; [|exact Hu].
    apply pm_set_ne; [exact Hu|]. unfold merge_sparse in Em.
    destruct (merge_sigs _ _ _ _ _ _ _) as [p0 a0]. inversion Em; subst.
    eapply bit_count_nil_lt. eassumption. }
  apply G. intros t p [].
Qed.

Lemma comvals_frame ih ivs s s' : frame_eq s s' -> comvals ih ivs s -> comvals ih ivs s'.
Proof.
  intros ((C1&C2&C3&C4)&_&_&Fc&_&Fh&_). unfold comvals. rewrite <- Fc, <- C3, <- C1, <- Fh. intros H; exact H.
Qed.

Lemma kok0_frame s s' :
  v_phs (k_vot s') = v_phs (k_vot s) -> v_phs (k_nxt s') = v_phs (k_nxt s) -> kok0 s -> kok0 s'.
Proof. intros E1 E2. unfold kok0. rewrite E1, E2. intros H; exact H. Qed.

Lemma wrap32_succ_neq r : wrap32 (r + 1) <> r.
Proof.
  unfold wrap32. intros E. destruct (N.lt_ge_cases r two32) as [Hlt|Hge].
  - destruct (N.eq_dec (r + 1) two32) as [E1|Hne].
    + rewrite E1, N.mod_same in E by (unfold two32; lia). unfold two32 in *. lia.
    + rewrite N.mod_small in E by lia. lia.
  - assert ((r + 1) mod two32 < two32) by (apply N.mod_upper_bound; unfold two32; lia). lia.
Qed.

Lemma fold_pm_set_nd ups : forall pm : pmap, nd_pmap pm -> nd_pmap ups ->
  nd_pmap (fold_left (fun m e => pm_set m (fst e) (snd e)) ups pm).
Proof.
  induction ups as [|[t p] ups IH]; intros pm Hpm Hu; cbn [fold_left]; [exact Hpm|].
  apply IH.
  - intros t' p' Hin. apply pm_set_in in Hin as [Heq|Hin]; [inversion Heq; subst; apply (Hu t p); left; reflexivity|exact (Hpm _ _ Hin)].
  - intros t' p' Hin. apply (Hu t' p'). right; exact Hin.
Qed.

Lemma build_updates_nd kind v toadd : nd_pmap (view_votes kind v) -> nd_pmap (fst (build_updates kind v toadd)).
Proof.
  intros Hv. unfold build_updates.
  assert (G : forall l ups allv, nd_pmap ups ->
    nd_pmap (fst (fold_left (fun acc e =>
      let '(ups, allv) := acc in
      let base := match pm_get (view_votes kind v) (fst e) with Some p => p | None => [] end in
      let '(p', av, inc) := merge_sparse kind (v_h v) (v_r v) (fst e) (vs_keys (v_vals v)) base (snd e) in
      (if inc then pm_set ups (fst e) p' else ups, allv && av)) l (ups, allv)))).
  { induction l as [|e l IH]; intros ups allv Hu; cbn [fold_left]; [exact Hu|].
    cbv zeta.
    assert (Hb : nd_proof (match pm_get (view_votes kind v) (fst e) with Some p => p | None => [] end)).
    { destruct (pm_get (view_votes kind v) (fst e)) eqn:Eg; [exact (Hv _ _ (pm_get_in _ _ _ Eg))|constructor]. }
    pose proof (merge_sparse_nd kind (v_h v) (v_r v) (fst e) (vs_keys (v_vals v)) _ (snd e) Hb) as Hm.
    destruct (merge_sparse kind (v_h v) (v_r v) (fst e) (vs_keys (v_vals v)) _ (snd e)) as [[p' av] inc]. cbn [fst] in Hm.
    destruct inc; apply IH; [|exact Hu].
    intros t' q Hin. apply pm_set_in in Hin as [Heq|Hin]; [inversion Heq; subst; exact Hm|exact (Hu _ _ Hin)]. }
  apply G. intros t p [].
Qed.

(** positions: the committing height is below the voting height; a header store that is not
    empty means there is a committing header *)
Lemma com_below ih ivs s : cinv ih ivs s ->
  v_h (k_com s) < v_h (k_vot s) /\ (st_hdrs s <> [] -> k_chdr s <> None).
Proof.
  intros (_&_&Hi3&_&_&_&_&_&_&_&Hch). unfold chain_ok in Hch. destruct (k_chdr s) as [ch|].
  - destruct Hch as (A&B&_). split; [lia|intros _; discriminate].
  - destruct Hch as (A&_&C&D). split; [lia|intros H; contradiction].
Qed.

Definition pc_ne (rs : list (N * N * rentry)) (h r : N) : Prop :=
  exists pkh e l, re_pc (rs_entry rs h r) = Some (pkh, e :: l).

(** * A vote write: one view gets new votes, its round-store cell the matching collection *)
Lemma K_apply_votes ih ivs kind s vid h r ups s' :
  (kind = KPrevote \/ kind = KPrecommit) ->
  find_view (kpos_of s) h r = Ok (vid, ViewFound) ->
  K ih ivs s -> ups <> [] ->
  auth_pmap (vs_keys (v_vals (get_view s vid))) kind (v_h (get_view s vid)) (v_r (get_view s vid)) ups ->
  ne_pmap ups -> (vid = ViewIDVoting \/ vid = ViewIDNextRound -> nd_pmap ups) ->
  apply_votes kind s vid h r ups = Ok s' -> K ih ivs s' /\ pref ih ivs s s'.
Proof.
  intros Hk Hfv (HI&HP&HX) Hune Hu Hne Hund Happ.
  pose proof HI as (Hc&Ha&Hs&Hh).
  destruct HX as (Xc&(Nc&Nv&Nn)&(N1v&N1n)&Xk&Xs).
  pose proof (find_view_found _ _ _ _ _ Hfv eq_refl) as Hcase. cbn in Hcase.
  assert (Hvid : vid = ViewIDVoting \/ vid = ViewIDNextRound \/ vid = ViewIDCommitting).
  { destruct Hcase as [(A&_)|[(A&_)|(A&_)]]; auto. }
  destruct (find_view_matches ih ivs s h r Hc vid ViewFound Hfv eq_refl) as [Mh Mr].
  pose proof (cinv_nhr _ _ _ Hc) as Hnhr.
  destruct (vot_vals _ _ _ Hc) as [Evv Evn].
  destruct (com_below _ _ _ Hc) as [Hlt Hne_hdrs].
  pose proof Hc as (Hi1&Hi2&Hi3&Hnh&Hnr&_).
  revert Happ. unfold apply_votes.
  set (v := get_view s vid) in *.
  set (votes' := fold_left (fun m e => pm_set m (fst e) (snd e)) ups (view_votes kind v)).
  set (v1 := if kind =? KPrevote then with_pv v votes' else with_pc v votes').
  set (sm' := if kind =? KPrevote then sum_set_prevotes _ _ _ else _).
  set (v2 := bump (with_sum v1 sm')).
  set (s1 := put_view s vid v2).
  set (coll := map_to_sparse (vs_pkh (v_vals v2)) votes').
  set (s2 := ev_w (log_w (set_rounds s1 _) _) _).
  assert (Hpos : pos_eq v v2) by (unfold v2, v1; destruct (kind =? KPrevote); repeat split).
  assert (F : frame_eq s s2) by (eapply frame_eq_trans; [apply frame_put_view; exact Hpos|apply frame_set_rounds]).
  assert (Hv : auth_view v) by (apply get_view_auth; exact Ha).
  assert (Hvne : ne_view v).
  { unfold v, get_view. destruct (vid =? ViewIDVoting); [exact Nv|]. destruct (vid =? ViewIDCommitting); [exact Nc|exact Nn]. }
  assert (Hvotes : auth_pmap (vs_keys (v_vals v)) kind (v_h v) (v_r v) votes')
    by (apply fold_pm_set_auth; [apply view_votes_auth; assumption|exact Hu]).
  assert (Hvotes_ne : ne_pmap votes').
  { apply fold_pm_set_ne; [|exact Hne]. unfold view_votes. destruct (kind =? KPrevote); apply Hvne. }
  assert (Hvotes_nn : votes' <> []) by (apply fold_pm_set_nonempty; left; exact Hune).
  (* the intermediate state *)
  assert (I2 : INV ih ivs s2).
  { split; [eapply cinv_frame; eassumption|].
    split.
    { assert (Hv1 : auth_view v1)
        by (unfold v1; destruct Hk as [->| ->]; cbn; split; cbn; try apply Hv; exact Hvotes).
      apply auth_set_rounds, put_view_auth; [exact Ha|].
      apply auth_view_bump. eapply auth_view_same; [apply same_votes_with_sum|exact Hv1]. }
    assert (Hsum2 : sum_ok v -> sum_ok v2).
    { intros [S1 S2]. unfold v2, v1, sm', sum_ok.
      destruct Hk as [->| ->]; cbn.
      - unfold sum_set_prevotes. destruct (set_powers _ _) as [[t b] m]. cbn. split; assumption.
      - unfold sum_set_precommits. cbn.
        destruct (set_powers (vs_pows (v_vals v)) votes') as [[t b] m] eqn:Esp. cbn.
        split; [exact S1|]. unfold blocks. rewrite Esp. reflexivity. }
    destruct Hs as [Sv Sn].
    unfold s2, s1, put_view, v in *. unfold get_view in *.
    destruct Hvid as [->|[->| ->]]; cbn in *.
    - split; [split; [apply Hsum2; exact Sv|exact Sn]|exact Hh].
    - split; [split; [exact Sv|apply Hsum2; exact Sn]|exact Hh].
    - split; [split; assumption|exact Hh]. }
  assert (Ep : v_phs v2 = v_phs v) by (unfold v2, v1; destruct (kind =? KPrevote); reflexivity).
  assert (Ephs : v_phs (k_vot s2) = v_phs (k_vot s) /\ v_phs (k_nxt s2) = v_phs (k_nxt s)).
  { unfold s2, s1, put_view, v in *. unfold get_view in *.
    destruct (vid =? ViewIDVoting); [|destruct (vid =? ViewIDCommitting)]; cbn; split; auto. }
  assert (P2 : pok s2) by (eapply pok_frame; [apply Ephs|apply Ephs|exact HP]).
  (* the stores of the intermediate state *)
  set (e := rs_entry (st_rounds s) h r).
  set (e' := if kind =? KPrevote then mk_rentry (re_phs e) (Some coll) (re_pc e)
             else mk_rentry (re_phs e) (re_pv e) (Some coll)).
  assert (Est : stores_of s2 = mk_stores (sr_nhr (stores_of s)) (sr_hdrs (stores_of s))
                                 (rs_set (sr_rounds (stores_of s)) h r e') (sr_replayed (stores_of s))).
  { unfold s2, s1, e', e, stores_of, put_view, rs_overwrite_pv, rs_overwrite_pc.
    destruct (vid =? ViewIDVoting); [|destruct (vid =? ViewIDCommitting)]; destruct (kind =? KPrevote); reflexivity. }
  assert (Hcoll : coll_good (vs_keys (v_vals v)) kind h r (Some coll)).
  { unfold coll. rewrite <- Mh, <- Mr. apply map_to_sparse_good; assumption. }
  assert (Hcollne : exists pkh en l, coll = (pkh, en :: l)) by (apply map_to_sparse_nonempty; exact Hvotes_nn).
  assert (S2 : SI ih ivs (stores_of s2)).
  { rewrite Est. eapply SI_set_cell; [exact Xs|exact Hnhr| | |].
    - destruct Hcase as [(_&B&_)|[(_&B&_)|(_&B&_)]]; rewrite B; lia.
    - intros Eh.
      assert (Evals : v_vals v = chain_vals ih ivs (st_hdrs s) (v_h (k_vot s))).
      { unfold v, get_view. destruct Hcase as [(A&_)|[(A&_)|(A&B&_&D)]]; subst vid; cbn; try assumption.
        exfalso. apply D. rewrite Eh. reflexivity. }
      destruct Xs as (vh0&vr0&ch0&cr0&Hn&_&_&_&Hrounds&_).
      unfold stores_of in Hn; cbn [sr_nhr] in Hn. rewrite Hnhr in Hn. inversion Hn; subst vh0 vr0 ch0 cr0.
      pose proof (voting_entry_good ih ivs (stores_of s) (v_h (k_vot s)) Hrounds _ eq_refl r) as (G1&G2&G3).
      cbn [stores_of sr_hdrs sr_rounds] in G1, G2, G3 |- *. rewrite <- Evals in G1, G2 |- *. rewrite <- Eh in G1, G2, G3 |- *.
      fold e in G1, G2, G3. unfold e'.
      destruct Hk as [->| ->]; cbn [N.eqb KPrevote KPrecommit Pos.eqb]; unfold rentry_good; cbn [re_pv re_pc re_phs].
      + split; [exact Hcoll|]. split; [exact G2|exact G3].
      + split; [exact G1|]. split; [exact Hcoll|exact G3].
    - intros Eh Er Hhd.
      assert (Evid : vid = ViewIDCommitting).
      { destruct Hcase as [(_&B&_)|[(_&B&_)|(A&_)]]; [rewrite B in Eh; lia|rewrite B in Eh; lia|exact A]. }
      assert (Evals : v_vals v = chain_vals ih ivs (st_hdrs s) (v_h (k_com s))).
      { unfold v, get_view. subst vid. cbn. unfold comvals in Xc.
        destruct (k_chdr s); [exact Xc|exfalso; apply (Hne_hdrs Hhd); reflexivity]. }
      destruct Xs as (vh0&vr0&ch0&cr0&Hn&Hshape&_).
      unfold stores_of in Hn; cbn [sr_nhr] in Hn. rewrite Hnhr in Hn. inversion Hn; subst vh0 vr0 ch0 cr0.
      destruct Hshape as [(_&_&_&E)|(_&_&_&(G1&G2&G3))]; [exfalso; apply Hhd; exact E|].
      cbn [stores_of sr_hdrs sr_rounds] in G1, G2, G3 |- *. rewrite <- Evals in G1, G2 |- *.
      rewrite <- Eh, <- Er in G1, G2, G3 |- *. fold e in G1, G2, G3. unfold e'.
      destruct Hk as [->| ->]; cbn [N.eqb KPrevote KPrecommit Pos.eqb]; unfold committing_good; cbn [re_pv re_pc re_phs].
      + split; [exact Hcoll|]. split; [exact G2|exact G3].
      + split; [exact G1|]. split; [exact Hcoll|].
        destruct Hcollne as (pkh&en&l&Ec). rewrite Ec. eexists; eexists; eexists; reflexivity. }
  assert (K2 : K ih ivs s2).
  { split; [exact I2|]. split; [exact P2|].
    split; [eapply comvals_frame; eassumption|].
    split.
    { assert (Hv2 : ne_view v2).
      { unfold v2, v1, ne_view. destruct Hk as [->| ->]; cbn; split; try apply Hvne; exact Hvotes_ne. }
      unfold ne_state, s2, s1, put_view.
      destruct (vid =? ViewIDVoting); [|destruct (vid =? ViewIDCommitting)]; cbn; repeat split;
        try apply Nc; try apply Nv; try apply Nn; apply Hv2. }
    split.
    { (* a precommit cell that was non-empty stays non-empty; a view whose precommits changed
         has just been written *)
      assert (Hcell : forall h0 r0, pc_ne (st_rounds s) h0 r0 -> pc_ne (st_rounds s2) h0 r0).
      { intros h0 r0 (pkh&en&l&Ec).
        assert (Er2 : st_rounds s2 = rs_set (st_rounds s) h r e').
        { apply (f_equal sr_rounds) in Est. exact Est. }
        unfold pc_ne. rewrite Er2, rs_entry_set.
        destruct ((h =? h0) && (r =? r0)) eqn:E; [|eexists; eexists; eexists; exact Ec].
        apply andb_true_iff in E as [A B]. apply N.eqb_eq in A, B. subst h0 r0. fold e in Ec.
        unfold e'. destruct (kind =? KPrevote); cbn [re_pc].
        - eexists; eexists; eexists; exact Ec.
        - destruct Hcollne as (pkh'&en'&l'&Ec'). rewrite Ec'. eexists; eexists; eexists; reflexivity. }
      assert (Hwritten : kind = KPrecommit -> pc_ne (st_rounds s2) h r).
      { intros ->. assert (Er2 : st_rounds s2 = rs_set (st_rounds s) h r e') by (apply (f_equal sr_rounds) in Est; exact Est).
        unfold pc_ne. rewrite Er2, rs_entry_set, !N.eqb_refl. cbn [andb]. unfold e'. cbn [N.eqb KPrevote KPrecommit Pos.eqb re_pc].
        destruct Hcollne as (pkh'&en'&l'&Ec'). rewrite Ec'. eexists; eexists; eexists; reflexivity. }
      assert (Hpcsame : kind = KPrevote -> v_pc v2 = v_pc v) by (intros ->; reflexivity).
      assert (Hn1old : forall w, n1_view (st_rounds s) w -> n1_view (st_rounds s2) w).
      { intros w Hw Hpc. apply Hcell. apply Hw. exact Hpc. }
      assert (Hn1v2 : n1_view (st_rounds s) v -> n1_view (st_rounds s2) v2).
      { intros Hold Hpc. destruct Hpos as (Ph&Pr&_). unfold n1_view in Hold.
        change (pc_ne (st_rounds s2) (v_h v2) (v_r v2)). rewrite <- Ph, <- Pr.
        destruct Hk as [Ek|Ek].
        - apply Hcell. apply Hold. rewrite <- (Hpcsame Ek). exact Hpc.
        - rewrite Mh, Mr. apply Hwritten. exact Ek. }
      assert (Evot2 : k_vot s2 = if vid =? ViewIDVoting then v2 else k_vot s).
      { unfold s2, s1, put_view. destruct (vid =? ViewIDVoting); [|destruct (vid =? ViewIDCommitting)]; reflexivity. }
      assert (Enxt2 : k_nxt s2 = if vid =? ViewIDVoting then k_nxt s else if vid =? ViewIDCommitting then k_nxt s else v2).
      { unfold s2, s1, put_view. destruct (vid =? ViewIDVoting); [|destruct (vid =? ViewIDCommitting)]; reflexivity. }
      unfold n1. rewrite Evot2, Enxt2. unfold v in Hn1v2. unfold get_view in Hn1v2.
      destruct Hvid as [Ev|[Ev|Ev]]; rewrite Ev in *; cbn [N.eqb ViewIDVoting ViewIDNextRound ViewIDCommitting Pos.eqb] in *.
      - split; [apply Hn1v2; exact N1v|apply Hn1old; exact N1n].
      - split; [apply Hn1old; exact N1v|apply Hn1v2; exact N1n].
      - split; [apply Hn1old; exact N1v|apply Hn1old; exact N1n]. }
    split; [|exact S2].
    split; [eapply kok0_frame; [apply Ephs|apply Ephs|exact (proj1 Xk)]|].
    destruct Xk as [_ [Yv Yn]].
    assert (Er2 : st_rounds s2 = rs_set (st_rounds s) h r e') by (apply (f_equal sr_rounds) in Est; exact Est).
    assert (Hrp2 : st_replayed s2 = st_replayed s) by (apply (f_equal sr_replayed) in Est; exact Est).
    assert (Hother : forall w, ((h =? v_h w) && (r =? v_r w)) = false ->
              yview (st_rounds s) (st_replayed s) w -> yview (st_rounds s2) (st_replayed s2) w).
    { intros w Hcw Hw. rewrite Er2, Hrp2. eapply yview_mono; [| | | |exact Hw]; rewrite ?rs_entry_set, ?Hcw; try reflexivity;
        intros x Hx; exact Hx. }
    assert (Hupd : nd_pmap ups -> yview (st_rounds s) (st_replayed s) v -> yview (st_rounds s2) (st_replayed s2) v2).
    { intros Hund' ((A1&A2)&(B1&B2)&YC&YD&YE&YF). rewrite Er2, Hrp2.
      assert (Hwf' : votes_wf votes').
      { unfold votes', view_votes. destruct (kind =? KPrevote).
        - split; [apply fold_pm_set_keys_nodup; exact A1|apply fold_pm_set_nd; assumption].
        - split; [apply fold_pm_set_keys_nodup; exact B1|apply fold_pm_set_nd; assumption]. }
      unfold yview, phs_corr. replace (v_h v2) with h by (rewrite <- Mh; apply Hpos). replace (v_r v2) with r by (rewrite <- Mr; apply Hpos).
      rewrite rs_entry_set, !N.eqb_refl. cbn [andb].
      unfold phs_corr in YF. rewrite Mh, Mr in YD, YE, YF. fold e in YD, YE, YF.
      unfold e', coll, v2, sm', v1. destruct Hk as [Ek|Ek]; subst kind;
        cbn [N.eqb KPrevote KPrecommit Pos.eqb re_pv re_pc re_phs bump with_sum with_pv with_pc v_pv v_pc v_sum v_h v_r v_vals v_phs].
      - split; [exact Hwf'|]. split; [split; assumption|]. split.
        { unfold mpc_ok in *. cbn [bump with_sum with_pv v_sum v_vals v_pc]. unfold sum_set_prevotes.
          destruct (set_powers (vs_pows (v_vals v)) votes') as [[t0 b0] m0]. exact YC. }
        split.
        { apply (vrel_written KPrevote (mk_view (v_h v) (v_r v) (v_vals v) (v_phs v) votes' (v_pc v) (v_pcp v)
                   (sum_set_prevotes (v_sum v) (vs_pows (v_vals v)) votes') (wrap32 (v_ver v + 1)))); cbn; try assumption. exact (proj2 Hwf'). }
        split; [exact YE|exact YF].
      - split; [split; assumption|]. split; [exact Hwf'|]. split.
        { unfold mpc_ok. cbn [bump with_sum with_pc v_sum v_vals v_pc]. unfold sum_set_precommits.
          destruct (set_powers (vs_pows (v_vals v)) votes') as [[t0 b0] m0]. reflexivity. }
        split; [exact YD|]. split; [|exact YF].
        apply (vrel_written KPrecommit (mk_view (v_h v) (v_r v) (v_vals v) (v_phs v) (v_pv v) votes' (v_pcp v)
                   (sum_set_precommits (v_sum v) (vs_pows (v_vals v)) votes') (wrap32 (v_ver v + 1)))); cbn; try assumption. exact (proj2 Hwf'). }
    assert (Evot2 : k_vot s2 = if vid =? ViewIDVoting then v2 else k_vot s).
    { unfold s2, s1, put_view. destruct (vid =? ViewIDVoting); [|destruct (vid =? ViewIDCommitting)]; reflexivity. }
    assert (Enxt2 : k_nxt s2 = if vid =? ViewIDVoting then k_nxt s else if vid =? ViewIDCommitting then k_nxt s else v2).
    { unfold s2, s1, put_view. destruct (vid =? ViewIDVoting); [|destruct (vid =? ViewIDCommitting)]; reflexivity. }
    unfold Y. rewrite Evot2, Enxt2. unfold v in Hupd. unfold get_view in Hupd.
    assert (Hne32 := wrap32_succ_neq (v_r (k_vot s))).
    destruct Hcase as [(A&B&C)|[(A&B&C)|(A&B&C&D)]]; subst vid;
      cbn [N.eqb ViewIDVoting ViewIDNextRound ViewIDCommitting Pos.eqb] in *.
    - split; [apply Hupd; [apply Hund; left; reflexivity|exact Yv]|]. apply Hother; [|exact Yn].
      rewrite Hnr, C. destruct (N.eqb_spec (v_r (k_vot s)) (wrap32 (v_r (k_vot s) + 1))) as [E|_]; [congruence|]. apply andb_false_r.
    - split; [|apply Hupd; [apply Hund; right; reflexivity|exact Yn]]. apply Hother; [|exact Yv].
      rewrite C. destruct (N.eqb_spec (wrap32 (v_r (k_vot s) + 1)) (v_r (k_vot s))) as [E|_]; [congruence|]. apply andb_false_r.
    - split; apply Hother; try assumption; rewrite ?Hnh; destruct (N.eqb_spec h (v_h (k_vot s))) as [E|_]; try contradiction; reflexivity. }
  assert (Pr2 : pref ih ivs s s2).
  { apply (pref_one ih ivs s s2 (if kind =? KPrevote then WPV h r coll else WPC h r coll)); [| |exact Xs|exact S2|eapply adv_sadv; [exact Hc|exact (proj1 I2)|apply adv_frame; exact F]|destruct (kind =? KPrevote); reflexivity].
    - unfold s2, s1, put_view. destruct (vid =? ViewIDVoting); [|destruct (vid =? ViewIDCommitting)]; reflexivity.
    - unfold s2, s1, stores_of, put_view.
      destruct (vid =? ViewIDVoting); [|destruct (vid =? ViewIDCommitting)]; destruct Hk as [->| ->]; reflexivity. }
  destruct (kind =? KPrevote).
  - destruct (vid =? ViewIDNextRound).
    + intros E. destruct (K_check_prevote _ _ _ _ K2 E) as [K3 P3]. split; [exact K3|eapply pref_trans; eassumption].
    + intros E; inversion E; subst. split; assumption.
  - destruct (vid =? ViewIDVoting).
    + intros E. destruct (K_check_voting _ _ _ _ K2 E) as [K3 P3]. split; [exact K3|eapply pref_trans; eassumption].
    + destruct (vid =? ViewIDNextRound).
      * intros E. destruct (K_check_next_round _ _ _ _ K2 E) as [K3 P3]. split; [exact K3|eapply pref_trans; eassumption].
      * intros E; inversion E; subst. split; assumption.
Qed.
