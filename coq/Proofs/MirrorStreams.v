(** C11 (streams): what the two view consumers of the mirror kernel receive, over ALL histories of
    [mstep] from [ms_init] without crashes/restarts ([MK (XOp _)], entrances, reads).

    Kernel side: a two-state relation [TR] over [step] saying that (a) each view slot evolves
    monotonically ([vle]: the (height, round) of a slot never goes back, and while it stays the
    version never decreases and proposals / vote signer sets only grow), (b) the same holds across
    slots for the view of one (height, round) (next round -> voting -> committing), (c) every
    view-manager event carries a view that is above everything that was visible before and below
    everything visible afterwards.

    uint32 wrap-around of versions and rounds and uint64 wrap-around of heights are excluded by a
    hypothesis on the events the kernel raised ([ev_ok]: no marked view has version 0 or height 0,
    no next-round view has round 0): a bumped version / incremented round that wrapped is 0. *)
From Coq Require Import List NArith Arith Bool Lia String Sorting.Sorted.
From GV Require Import Base.Ints Gen.Math Gen.Kernel Model.Mirror Model.MirrorMgr
  Proofs.MirrorAuth Proofs.MirrorChain Proofs.MirrorMgr Proofs.MirrorAct.
Import ListNotations.
Local Open Scope N_scope.

(** * Growth of views *)
Definition idxs_le (p p' : proof) : Prop := incl (map fst p) (map fst p').

Definition pmap_le (m m' : pmap) : Prop :=
  forall t p, pm_get m t = Some p -> exists p', pm_get m' t = Some p' /\ idxs_le p p'.

(** the later view contains the earlier one's proposed headers, and for every vote target the
    earlier signer set *)
Definition view_le (a b : view) : Prop :=
  incl (v_phs a) (v_phs b) /\ pmap_le (v_pv a) (v_pv b) /\ pmap_le (v_pc a) (v_pc b).

Lemma idxs_le_refl p : idxs_le p p.
Proof. apply incl_refl. Qed.
Lemma idxs_le_trans a b c : idxs_le a b -> idxs_le b c -> idxs_le a c.
Proof. apply incl_tran. Qed.

Lemma pmap_le_refl m : pmap_le m m.
Proof. intros t p H. exists p. split; [exact H|apply idxs_le_refl]. Qed.
Lemma pmap_le_trans a b c : pmap_le a b -> pmap_le b c -> pmap_le a c.
Proof.
  intros H1 H2 t p Hg. destruct (H1 t p Hg) as (p'&Hg'&L1). destruct (H2 t p' Hg') as (p''&Hg''&L2).
  exists p''. split; [exact Hg''|eapply idxs_le_trans; eassumption].
Qed.

Lemma view_le_refl a : view_le a a.
Proof. repeat split; [apply incl_refl|apply pmap_le_refl|apply pmap_le_refl]. Qed.
Lemma view_le_trans a b c : view_le a b -> view_le b c -> view_le a c.
Proof.
  intros (A1&A2&A3) (B1&B2&B3). repeat split;
    [eapply incl_tran; eassumption|eapply pmap_le_trans; eassumption|eapply pmap_le_trans; eassumption].
Qed.

(** the by-hash reading of the proposals clause *)
Lemma view_le_phs_by_hash a b : view_le a b ->
  forall p, In p (v_phs a) -> exists q, In q (v_phs b) /\ hd_hash (ph_hdr q) = hd_hash (ph_hdr p).
Proof. intros (H&_) p Hp. exists p. split; [apply H; exact Hp|reflexivity]. Qed.

Lemma pm_get_set {A} (m : list (bytes * A)) k v k' :
  pm_get (pm_set m k v) k' = if bytes_eqb k k' then Some v else pm_get m k'.
Proof.
  induction m as [|[k0 v0] m IH]; cbn [pm_set pm_get].
  - destruct (bytes_eqb k k'); reflexivity.
  - destruct (bytes_eqb k0 k) eqn:E0; cbn [pm_get].
    + apply bytes_eqb_eq in E0. subst k0. destruct (bytes_eqb k k'); reflexivity.
    + destruct (bytes_eqb k0 k') eqn:E1.
      * apply bytes_eqb_eq in E1. subst k0.
        destruct (bytes_eqb k k') eqn:E2; [|reflexivity].
        apply bytes_eqb_eq in E2. subst k. rewrite bytes_eqb_refl in E0. discriminate.
      * exact IH.
Qed.

Lemma pmap_le_set m t p' :
  (forall q, pm_get m t = Some q -> idxs_le q p') -> pmap_le m (pm_set m t p').
Proof.
  intros H t0 q Hg. rewrite pm_get_set. destruct (bytes_eqb t t0) eqn:E.
  - apply bytes_eqb_eq in E. subst t0. exists p'. split; [reflexivity|apply H; exact Hg].
  - exists q. split; [exact Hg|apply idxs_le_refl].
Qed.

Lemma add_sig_le p i s : idxs_le p (add_sig p i s).
Proof.
  unfold add_sig, idxs_le. destruct (has_sig p s); [apply incl_refl|].
  rewrite map_app. apply incl_appl, incl_refl.
Qed.

Lemma merge_sigs_le kind h r t keys sigs : forall p, idxs_le p (fst (merge_sigs kind h r t keys p sigs)).
Proof.
  induction sigs as [|s rest IH]; intros p; cbn [merge_sigs]; [apply idxs_le_refl|].
  destruct (keyid_decode (ss_kid s)) as [n|].
  - destruct (nth_n keys n) as [key|].
    + destruct (verify_vote key kind h r t (ss_sig s)).
      * eapply idxs_le_trans; [apply add_sig_le|apply IH].
      * specialize (IH p). destruct (merge_sigs kind h r t keys p rest); exact IH.
    + specialize (IH p). destruct (merge_sigs kind h r t keys p rest); exact IH.
  - specialize (IH p). destruct (merge_sigs kind h r t keys p rest); exact IH.
Qed.

Lemma merge_sparse_le kind h r t keys p sigs p' a i :
  merge_sparse kind h r t keys p sigs = (p', a, i) -> idxs_le p p'.
Proof.
  unfold merge_sparse. pose proof (merge_sigs_le kind h r t keys sigs p) as H.
  destruct (merge_sigs kind h r t keys p sigs) as [q av]. intros E; inversion E; subst. exact H.
Qed.

(** updates computed from the current proofs of a vote map *)
Definition ups_ok (m : pmap) (ups : pmap) : Prop :=
  forall t p', In (t, p') ups -> forall p, pm_get m t = Some p -> idxs_le p p'.

Lemma fold_set_le ups : forall m0 m, pmap_le m0 m -> ups_ok m0 ups ->
  pmap_le m0 (fold_left (fun m e => pm_set m (fst e) (snd e)) ups m).
Proof.
  induction ups as [|[t p'] ups IH]; intros m0 m Hle Hok; cbn [fold_left]; [exact Hle|].
  apply IH.
  - intros t0 q Hg. cbn [fst snd]. rewrite pm_get_set. destruct (bytes_eqb t t0) eqn:E.
    + apply bytes_eqb_eq in E. subst t0. exists p'. split; [reflexivity|].
      eapply Hok; [left; reflexivity|exact Hg].
    + apply Hle. exact Hg.
  - intros t0 q Hin. apply Hok. right; exact Hin.
Qed.

Lemma ups_ok_set m ups t p' :
  ups_ok m ups -> (forall p, pm_get m t = Some p -> idxs_le p p') -> ups_ok m (pm_set ups t p').
Proof.
  intros H Hp t0 q Hin. apply pm_set_in in Hin as [E|Hin].
  - inversion E; subst. exact Hp.
  - apply H. exact Hin.
Qed.

Lemma build_updates_ok kind v toadd ups allv :
  build_updates kind v toadd = (ups, allv) -> ups_ok (view_votes kind v) ups.
Proof.
  unfold build_updates.
  match goal with |- context [fold_left ?f toadd _] => set (F := f) end.
  assert (G : forall l acc, ups_ok (view_votes kind v) (fst acc) ->
            ups_ok (view_votes kind v) (fst (fold_left F l acc))).
  { induction l as [|e l IH]; intros [u a] Hu; cbn [fold_left]; [exact Hu|].
    apply IH. unfold F. cbv beta iota zeta.
    destruct (merge_sparse kind (v_h v) (v_r v) (fst e) (vs_keys (v_vals v)) _ (snd e)) as [[p' av] inc] eqn:Hm.
    cbn [fst]. destruct inc; [|exact Hu].
    apply ups_ok_set; [exact Hu|]. intros p Hg. rewrite Hg in Hm. eapply merge_sparse_le; exact Hm. }
  intros E. specialize (G toadd ([], true)). rewrite E in G. apply G. intros t p' [].
Qed.

(** * Order on views *)
Definition pos_lt (a b : view) : Prop := v_h a < v_h b \/ (v_h a = v_h b /\ v_r a < v_r b).
Definition samepos (a b : view) : Prop := v_h a = v_h b /\ v_r a = v_r b.
Definition vq (a b : view) : Prop := v_ver a <= v_ver b /\ view_le a b.
Definition vqs (a b : view) : Prop := v_ver a < v_ver b /\ view_le a b.
Definition vle (a b : view) : Prop := pos_lt a b \/ (samepos a b /\ vq a b).
Definition vlt (a b : view) : Prop := pos_lt a b \/ (samepos a b /\ vqs a b).

Lemma vq_refl a : vq a a.
Proof. split; [lia|apply view_le_refl]. Qed.
Lemma vq_trans a b c : vq a b -> vq b c -> vq a c.
Proof. intros [A1 A2] [B1 B2]. split; [lia|eapply view_le_trans; eassumption]. Qed.
Lemma vle_refl a : vle a a.
Proof. right. split; [split; reflexivity|apply vq_refl]. Qed.
Lemma vle_trans a b c : vle a b -> vle b c -> vle a c.
Proof.
  unfold vle, pos_lt, samepos. intros [A|[[A1 A2] A3]] [B|[[B1 B2] B3]].
  - left. lia.
  - left. lia.
  - left. lia.
  - right. split; [split; congruence|eapply vq_trans; eassumption].
Qed.
Lemma vlt_vle_trans a b c : vlt a b -> vle b c -> vlt a c.
Proof.
  unfold vlt, vle, pos_lt, samepos, vqs, vq. intros [A|[[A1 A2] [A3 A4]]] [B|[[B1 B2] [B3 B4]]].
  - left. lia.
  - left. lia.
  - left. lia.
  - right. split; [split; congruence|split; [lia|eapply view_le_trans; eassumption]].
Qed.
Lemma vqs_vq a b : vqs a b -> vq a b.
Proof. intros [A B]. split; [lia|exact B]. Qed.
Lemma vq_vqs_trans a b c : vq a b -> vqs b c -> vqs a c.
Proof. intros [A1 A2] [B1 B2]. split; [lia|eapply view_le_trans; eassumption]. Qed.
Lemma vlt_trans a b c : vlt a b -> vlt b c -> vlt a c.
Proof.
  intros H1 H2. eapply vlt_vle_trans; [exact H1|].
  unfold vlt, vle, vqs, vq in *. destruct H2 as [H2|[H2 [H3 H4]]]; [left; exact H2|right; split; [exact H2|split; [lia|exact H4]]].
Qed.

(** * The three kernel views *)
Definition vs3 := (view * view * view)%type.          (* committing, voting, next round *)
Definition views (s : kstate) : vs3 := (k_com s, k_vot s, k_nxt s).
Definition get3 (t : vs3) (vid : N) : view :=
  let '(c, v, n) := t in if vid =? ViewIDVoting then v else if vid =? ViewIDCommitting then c else n.
Definition put3 (t : vs3) (vid : N) (w : view) : vs3 :=
  let '(c, v, n) := t in
  if vid =? ViewIDVoting then (c, w, n) else if vid =? ViewIDCommitting then (w, v, n) else (c, v, w).
Definition slot (vid : N) : N :=
  if vid =? ViewIDVoting then ViewIDVoting else if vid =? ViewIDCommitting then ViewIDCommitting else ViewIDNextRound.

Lemma get_view_get3 s vid : get_view s vid = get3 (views s) vid.
Proof. reflexivity. Qed.
Lemma views_put_view s vid w : views (put_view s vid w) = put3 (views s) vid w.
Proof. unfold put_view, put3, views. destruct (vid =? ViewIDVoting); [|destruct (vid =? ViewIDCommitting)]; reflexivity. Qed.
Lemma st_ev_put_view s vid w : st_ev (put_view s vid w) = st_ev s.
Proof. unfold put_view. destruct (vid =? ViewIDVoting); [|destruct (vid =? ViewIDCommitting)]; reflexivity. Qed.
Lemma get3_slot t vid vid' : slot vid = slot vid' -> get3 t vid = get3 t vid'.
Proof.
  destruct t as [[c v] n]. unfold slot, get3, ViewIDVoting, ViewIDCommitting, ViewIDNextRound.
  destruct (vid =? 1); destruct (vid' =? 1); try discriminate; try reflexivity;
  destruct (vid =? 2); destruct (vid' =? 2); try discriminate; reflexivity.
Qed.

Definition kinv (t : vs3) : Prop :=
  let '(c, v, n) := t in
  v_h n = v_h v /\ v_r n = v_r v + 1 /\ v_r n < two32 /\ v_h c < v_h v /\ v_h v < two64 /\
  v_ver c < two32 /\ v_ver v < two32 /\ v_ver n < two32.

(** [a] is a view of the past: nothing of a later (height, round) than the next-round view, and
    below the kernel's view of its own (height, round), if the kernel still has one *)
Definition past (a : view) (t : vs3) : Prop :=
  let '(c, v, n) := t in
  (pos_lt a n \/ samepos a n) /\
  (samepos a c -> vq a c) /\ (samepos a v -> vq a v) /\ (samepos a n -> vq a n).

(** no wrap-around happened when the event was raised *)
Definition ev_ok (e : mev) : Prop :=
  match e with
  | EvMark vid m => v_ver m <> 0 /\ v_h m <> 0 /\ (slot vid = ViewIDNextRound -> v_r m <> 0)
  | EvJump m => v_r m <> 0
  | _ => True
  end.

Definition ev_M (t : vs3) (e : mev) : Prop :=
  match e with
  | EvMark vid m => (forall a, vle a (get3 t vid) -> vle a m) /\ (forall a, past a t -> samepos a m -> vqs a m)
  | EvJump m => forall a, past a t -> samepos a m -> vq a m
  | _ => True
  end.

Definition ev_N (t' : vs3) (e : mev) : Prop :=
  match e with
  | EvMark vid m => vle m (get3 t' vid) /\ past m t'
  | EvJump m => past m t' /\ v_r m < two32
  | _ => True
  end.

Definition ev_rel (e1 e2 : mev) : Prop :=
  match e1, e2 with
  | EvMark vid1 m1, EvMark vid2 m2 => (slot vid1 = slot vid2 -> vle m1 m2) /\ (samepos m1 m2 -> vqs m1 m2)
  | EvMark _ m1, EvJump m2 => samepos m1 m2 -> vq m1 m2
  | EvJump m1, EvMark _ m2 => samepos m1 m2 -> vqs m1 m2
  | EvJump m1, EvJump m2 => samepos m1 m2 -> vq m1 m2
  | _, _ => True
  end.

Fixpoint ord_pairs (l : list mev) : Prop :=
  match l with
  | [] => True
  | e :: rest => Forall (ev_rel e) rest /\ ord_pairs rest
  end.

Lemma ord_pairs_app l1 : forall l2,
  ord_pairs l1 -> ord_pairs l2 -> (forall e1 e2, In e1 l1 -> In e2 l2 -> ev_rel e1 e2) ->
  ord_pairs (l1 ++ l2).
Proof.
  induction l1 as [|e l1 IH]; intros l2 H1 H2 Hc; cbn [app ord_pairs]; [exact H2|].
  destruct H1 as [H1a H1b]. split.
  - apply Forall_app. split; [exact H1a|]. apply Forall_forall. intros e2 Hin. apply Hc; [left; reflexivity|exact Hin].
  - apply IH; [exact H1b|exact H2|]. intros e1 e2 Hi1 Hi2. apply Hc; [right; exact Hi1|exact Hi2].
Qed.

Lemma ord_pairs_app_inv l1 : forall l2, ord_pairs (l1 ++ l2) ->
  ord_pairs l1 /\ ord_pairs l2 /\ (forall e1 e2, In e1 l1 -> In e2 l2 -> ev_rel e1 e2).
Proof.
  induction l1 as [|e l1 IH]; intros l2; cbn [app ord_pairs].
  - intros H. split; [exact I|]. split; [exact H|]. intros e1 e2 [].
  - intros [Ha Hb]. apply Forall_app in Ha as [Ha1 Ha2]. destruct (IH l2 Hb) as (I1&I2&I3).
    split; [split; assumption|]. split; [exact I2|].
    intros e1 e2 [E|Hi1] Hi2; [subst e1; rewrite Forall_forall in Ha2; apply Ha2; exact Hi2|apply I3; assumption].
Qed.

(** the two-state relation on the three views, for the events [new] raised in between *)
Definition TR3 (t t' : vs3) (new : list mev) : Prop :=
  Forall ev_ok new -> kinv t ->
  kinv t' /\
  (forall a vid, vle a (get3 t vid) -> vle a (get3 t' vid)) /\
  (forall a, past a t -> past a t') /\
  Forall (ev_M t) new /\ Forall (ev_N t') new /\ ord_pairs new.

Definition TR (s s' : kstate) : Prop :=
  exists new, st_ev s' = st_ev s ++ new /\ TR3 (views s) (views s') new.

Lemma ev_M_mono t t1 e :
  (forall a vid, vle a (get3 t vid) -> vle a (get3 t1 vid)) -> (forall a, past a t -> past a t1) ->
  ev_M t1 e -> ev_M t e.
Proof.
  intros H1 H2. destruct e as [vid m|m|m|h]; cbn [ev_M]; try (intros; exact I).
  - intros [A B]. split; [intros a Ha; apply A, H1, Ha|intros a Ha; apply B, H2, Ha].
  - intros B a Ha. apply B, H2, Ha.
Qed.

Lemma ev_N_mono t1 t2 e :
  (forall a vid, vle a (get3 t1 vid) -> vle a (get3 t2 vid)) -> (forall a, past a t1 -> past a t2) ->
  ev_N t1 e -> ev_N t2 e.
Proof.
  intros H1 H2. destruct e as [vid m|m|m|h]; cbn [ev_N]; try (intros; exact I).
  - intros [A B]. split; [apply H1, A|apply H2, B].
  - intros [A B]. split; [apply H2, A|exact B].
Qed.

Lemma ev_N_M_rel t e1 e2 : ev_N t e1 -> ev_M t e2 -> ev_rel e1 e2.
Proof.
  destruct e1 as [vid1 m1|m1|m1|h1]; destruct e2 as [vid2 m2|m2|m2|h2]; cbn [ev_N ev_M ev_rel]; try (intros; exact I).
  - intros [A B] [C D]. split.
    + intros Hs. apply C. rewrite <- (get3_slot t _ _ Hs). exact A.
    + apply D. exact B.
  - intros [A B] D. apply D. exact B.
  - intros [B _] [C D]. apply D. exact B.
  - intros [B _] D. apply D. exact B.
Qed.

Lemma TR3_trans t t1 t2 n1 n2 : TR3 t t1 n1 -> TR3 t1 t2 n2 -> TR3 t t2 (n1 ++ n2).
Proof.
  intros H1 H2 Hok Hk. apply Forall_app in Hok as [Hok1 Hok2].
  destruct (H1 Hok1 Hk) as (K1&S1&P1&M1&N1&O1). destruct (H2 Hok2 K1) as (K2&S2&P2&M2&N2&O2).
  split; [exact K2|]. split; [intros a vid Ha; apply S2, S1, Ha|]. split; [intros a Ha; apply P2, P1, Ha|].
  split; [|split].
  - apply Forall_app. split; [exact M1|]. eapply Forall_impl; [|exact M2]. intros e. apply ev_M_mono; assumption.
  - apply Forall_app. split; [|exact N2]. eapply Forall_impl; [|exact N1]. intros e. apply ev_N_mono; assumption.
  - apply ord_pairs_app; [exact O1|exact O2|]. intros e1 e2 Hi1 Hi2.
    rewrite Forall_forall in N1, M2. eapply ev_N_M_rel; [apply N1; exact Hi1|apply M2; exact Hi2].
Qed.

Lemma TR_refl s : TR s s.
Proof.
  exists []. split; [symmetry; apply app_nil_r|]. intros _ Hk.
  split; [exact Hk|]. split; [auto|]. split; [auto|]. split; [constructor|]. split; [constructor|exact I].
Qed.

Lemma TR_trans a b c : TR a b -> TR b c -> TR a c.
Proof.
  intros (n1&E1&H1) (n2&E2&H2). exists (n1 ++ n2). split; [rewrite E2, E1, app_assoc; reflexivity|].
  eapply TR3_trans; eassumption.
Qed.

(** changes that touch neither a view nor the event list *)
Lemma TR_frame s s' : views s' = views s -> st_ev s' = st_ev s -> TR s s'.
Proof.
  intros Hv He. exists []. split; [rewrite He; symmetry; apply app_nil_r|]. rewrite Hv. intros _ Hk.
  split; [exact Hk|]. split; [auto|]. split; [auto|]. split; [constructor|]. split; [constructor|exact I].
Qed.

(** ** Atomic kernel actions *)
Ltac vsimp := unfold vle, vq, pos_lt, samepos in *; cbn [v_h v_r v_ver bump with_phs with_pv with_pc with_sum with_pcp] in *.

Lemma wrap32_succ x : x < two32 -> wrap32 (x + 1) <> 0 -> wrap32 (x + 1) = x + 1.
Proof.
  unfold wrap32, two32. intros Hx Hn. destruct (N.eq_dec (x + 1) 4294967296) as [E|E].
  - rewrite E in Hn. exfalso. apply Hn. reflexivity.
  - apply N.mod_small. lia.
Qed.
Lemma wrap64_succ x : x < two64 -> wrap64 (x + 1) <> 0 -> wrap64 (x + 1) = x + 1.
Proof.
  unfold wrap64, two64. intros Hx Hn. destruct (N.eq_dec (x + 1) 18446744073709551616) as [E|E].
  - rewrite E in Hn. exfalso. apply Hn. reflexivity.
  - apply N.mod_small. lia.
Qed.
Lemma wrap32_lt x : wrap32 x < two32.
Proof. unfold wrap32. apply N.mod_lt. unfold two32. lia. Qed.
Lemma wrap64_lt x : wrap64 x < two64.
Proof. unfold wrap64. apply N.mod_lt. unfold two64. lia. Qed.

(** an event that carries no view *)
Definition plain_ev (e : mev) : Prop := match e with EvMark _ _ | EvJump _ => False | _ => True end.

Lemma TR3_plain t new : Forall plain_ev new -> TR3 t t new.
Proof.
  intros Hp _ Hk. split; [exact Hk|]. split; [auto|]. split; [auto|].
  assert (A : forall P : mev -> Prop, (forall e, plain_ev e -> P e) -> Forall P new).
  { intros P HP. eapply Forall_impl; [|exact Hp]. exact HP. }
  split; [apply A; intros [| | |] H; try destruct H; exact I|].
  split; [apply A; intros [| | |] H; try destruct H; exact I|].
  clear A. induction new as [|e new IH]; [exact I|]. inversion Hp as [|e0 l0 Pe Pl]; subst.
  split; [|apply IH; exact Pl].
  eapply Forall_impl; [|exact Pl]. intros e2 P2.
  destruct e as [| | |]; try (destruct Pe); destruct e2 as [| | |]; try (destruct P2); exact I.
Qed.

(** in-place update of the view [vid]: same (height, round), nothing lost, version not lower *)
Lemma upd_facts t vid w :
  kinv t -> samepos (get3 t vid) w -> vq (get3 t vid) w -> v_ver w < two32 ->
  kinv (put3 t vid w) /\
  (forall a vid', vle a (get3 t vid') -> vle a (get3 (put3 t vid w) vid')) /\
  (forall a, past a t -> past a (put3 t vid w)) /\
  (forall a, vle a (get3 t vid) -> vle a w) /\
  (forall a, past a t -> samepos a w -> vq a w) /\
  vle w (get3 (put3 t vid w) vid) /\ past w (put3 t vid w) /\
  (forall a, past a t -> samepos a w -> vq a (get3 t vid)).
Proof.
  destruct t as [[c v] n]. unfold get3, put3. intros Hk Hp Q Hw.
  assert (L : vle (if vid =? ViewIDVoting then v else if vid =? ViewIDCommitting then c else n) w)
    by (right; split; assumption).
  destruct Hk as (K1&K2&K3&K4&K5&K6&K7&K8).
  destruct (vid =? ViewIDVoting) eqn:E1; [|destruct (vid =? ViewIDCommitting) eqn:E2].
  - destruct Hp as [Hp1 Hp2].
    split; [unfold kinv; repeat split; lia|].
    split; [intros a vid'; unfold get3; destruct (vid' =? ViewIDVoting); [|auto];
            intros Ha; eapply vle_trans; [exact Ha|exact L]|].
    assert (P : forall a, past a (c, v, n) -> samepos a w -> vq a w).
    { intros a (A1&A2&A3&A4) Hs. eapply vq_trans; [apply A3; unfold samepos in *; split; lia|exact Q]. }
    split; [|split; [intros a Ha; eapply vle_trans; [exact Ha|exact L]|split; [exact P|split; [apply vle_refl|]]]].
    + intros a Ha. pose proof (P a Ha) as Pa. destruct Ha as (A1&A2&A3&A4). unfold past. split; [exact A1|]. split; [exact A2|]. split; [exact Pa|exact A4].
    + split; [unfold past; split; [left; unfold pos_lt; lia|];
      split; [intros [X _]; exfalso; lia|]; split; [intros _; apply vq_refl|intros [_ X]; exfalso; lia]|].
      intros a (A1&A2&A3&A4) Hs. apply A3; unfold samepos in *; split; lia.
  - destruct Hp as [Hp1 Hp2].
    split; [unfold kinv; repeat split; lia|].
    split; [intros a vid'; unfold get3; destruct (vid' =? ViewIDVoting); [auto|]; destruct (vid' =? ViewIDCommitting); [|auto];
            intros Ha; eapply vle_trans; [exact Ha|exact L]|].
    assert (P : forall a, past a (c, v, n) -> samepos a w -> vq a w).
    { intros a (A1&A2&A3&A4) Hs. eapply vq_trans; [apply A2; unfold samepos in *; split; lia|exact Q]. }
    split; [|split; [intros a Ha; eapply vle_trans; [exact Ha|exact L]|split; [exact P|split; [apply vle_refl|]]]].
    + intros a Ha. pose proof (P a Ha) as Pa. destruct Ha as (A1&A2&A3&A4). unfold past. split; [exact A1|]. split; [exact Pa|]. split; [exact A3|exact A4].
    + split; [unfold past; split; [left; unfold pos_lt; lia|];
      split; [intros _; apply vq_refl|]; split; [intros [X _]; exfalso; lia|intros [X _]; exfalso; lia]|].
      intros a (A1&A2&A3&A4) Hs. apply A2; unfold samepos in *; split; lia.
  - destruct Hp as [Hp1 Hp2].
    split; [unfold kinv; repeat split; lia|].
    split; [intros a vid'; unfold get3; destruct (vid' =? ViewIDVoting); [auto|]; destruct (vid' =? ViewIDCommitting); [auto|];
            intros Ha; eapply vle_trans; [exact Ha|exact L]|].
    assert (P : forall a, past a (c, v, n) -> samepos a w -> vq a w).
    { intros a (A1&A2&A3&A4) Hs. eapply vq_trans; [apply A4; unfold samepos in *; split; lia|exact Q]. }
    split; [|split; [intros a Ha; eapply vle_trans; [exact Ha|exact L]|split; [exact P|split; [apply vle_refl|]]]].
    + intros a Ha. pose proof (P a Ha) as Pa. destruct Ha as (A1&A2&A3&A4). unfold past.
      split; [unfold pos_lt, samepos in *; lia|]. split; [exact A2|]. split; [exact A3|exact Pa].
    + split; [unfold past; split; [right; split; reflexivity|];
      split; [intros [X _]; exfalso; lia|]; split; [intros [_ X]; exfalso; lia|intros _; apply vq_refl]|].
      intros a (A1&A2&A3&A4) Hs. apply A4; unfold samepos in *; split; lia.
Qed.

(** same version, no event (replayed header; commit-proof backfill that added nothing) *)
Lemma TR3_silent t vid w :
  samepos (get3 t vid) w -> view_le (get3 t vid) w -> v_ver w = v_ver (get3 t vid) ->
  TR3 t (put3 t vid w) [].
Proof.
  intros Hp Hl Hv _ Hk.
  assert (Hw : v_ver w < two32).
  { rewrite Hv. destruct t as [[c v] n]. destruct Hk as (K1&K2&K3&K4&K5&K6&K7&K8). unfold get3.
    destruct (vid =? ViewIDVoting); [|destruct (vid =? ViewIDCommitting)]; assumption. }
  destruct (upd_facts t vid w Hk Hp (conj (N.eq_le_incl _ _ (eq_sym Hv)) Hl) Hw) as (F1&F2&F3&_).
  split; [exact F1|]. split; [exact F2|]. split; [exact F3|]. split; [constructor|]. split; [constructor|exact I].
Qed.

(** version bumped and the view marked as updated *)
Lemma TR3_upd_mark t vid w :
  samepos (get3 t vid) w -> view_le (get3 t vid) w -> v_ver w = wrap32 (v_ver (get3 t vid) + 1) ->
  TR3 t (put3 t vid w) [EvMark vid w].
Proof.
  intros Hp Hl Hv Hok Hk. inversion Hok as [|e l Hev _]; subst. cbn [ev_ok] in Hev. destruct Hev as (Hv0&_&_).
  assert (Hold : v_ver (get3 t vid) < two32).
  { destruct t as [[c v] n]. destruct Hk as (K1&K2&K3&K4&K5&K6&K7&K8). unfold get3.
    destruct (vid =? ViewIDVoting); [|destruct (vid =? ViewIDCommitting)]; assumption. }
  assert (Hw : v_ver w < two32) by (rewrite Hv; apply wrap32_lt).
  assert (Hv' : v_ver w = v_ver (get3 t vid) + 1) by (rewrite Hv; apply wrap32_succ; [exact Hold|rewrite <- Hv; exact Hv0]).
  assert (Q : vq (get3 t vid) w) by (split; [lia|exact Hl]).
  destruct (upd_facts t vid w Hk Hp Q Hw) as (F1&F2&F3&F4&F5&F6&F7&F8).
  split; [exact F1|]. split; [exact F2|]. split; [exact F3|].
  split; [constructor; [split; [exact F4|]|constructor]|].
  { intros a Ha Hs. eapply vq_vqs_trans; [apply F8; assumption|]. split; [lia|exact Hl]. }
  split; [constructor; [split; assumption|constructor]|].
  split; [constructor|exact I].
Qed.

(** the jump event carries the current voting view *)
Lemma TR3_jumpev c v n : TR3 (c, v, n) (c, v, n) [EvJump v].
Proof.
  intros _ Hk. split; [exact Hk|]. split; [auto|]. split; [auto|].
  destruct Hk as (K1&K2&K3&K4&K5&K6&K7&K8).
  split; [constructor; [|constructor]; intros a (A1&A2&A3&A4) Hs; apply A3; exact Hs|].
  split; [|split; [constructor|exact I]].
  constructor; [|constructor]. unfold ev_N, past. split; [|lia].
  split; [left; unfold pos_lt; lia|]. split; [intros [X _]; exfalso; lia|]. split; [intros _; apply vq_refl|intros [_ X]; exfalso; lia].
Qed.

Lemma slot_1_3 : slot ViewIDVoting = slot ViewIDNextRound -> False. Proof. discriminate. Qed.
Lemma slot_2_1 : slot ViewIDCommitting = slot ViewIDVoting -> False. Proof. discriminate. Qed.
Lemma slot_2_3 : slot ViewIDCommitting = slot ViewIDNextRound -> False. Proof. discriminate. Qed.

(** incrementVotingRound: the next-round view becomes the voting view, a fresh next-round view *)
Lemma TR3_incr c v n v' n' :
  samepos n v' -> view_le n v' -> v_ver v' = wrap32 (v_ver n + 1) ->
  v_h n' = v_h v -> v_r n' = wrap32 (v_r v' + 1) -> v_ver n' = 1 ->
  TR3 (c, v, n) (c, v', n') [EvMark ViewIDVoting v'; EvMark ViewIDNextRound n'].
Proof.
  intros [Hp1 Hp2] Hl Hv Hh Hr Hver Hok (K1&K2&K3&K4&K5&K6&K7&K8).
  inversion Hok as [|e0 l0 Hev0 Hok']; subst. inversion Hok' as [|e1 l1 Hev1 _]; subst.
  cbn [ev_ok] in Hev0, Hev1. destruct Hev0 as (Hv0&_&_). destruct Hev1 as (_&_&Hr0).
  specialize (Hr0 eq_refl).
  assert (Hv' : v_ver v' = v_ver n + 1) by (rewrite Hv; apply wrap32_succ; [exact K8|rewrite <- Hv; exact Hv0]).
  assert (Hr' : v_r n' = v_r v' + 1) by (rewrite Hr; apply wrap32_succ; [lia|rewrite <- Hr; exact Hr0]).
  assert (Hrlt : v_r n' < two32) by (rewrite Hr; apply wrap32_lt).
  assert (Q : vq n v') by (split; [lia|exact Hl]).
  assert (Kn : kinv (c, v', n')) by (unfold kinv; repeat split; try lia; rewrite Hv; apply wrap32_lt).
  assert (Lv : vle v v') by (left; unfold pos_lt; lia).
  assert (Ln : vle n n') by (left; unfold pos_lt; lia).
  assert (P : forall a, past a (c, v, n) -> samepos a v' -> vqs a v').
  { intros a (A1&A2&A3&A4) Hs. eapply vq_vqs_trans; [apply A4; unfold samepos in *; split; lia|split; [lia|exact Hl]]. }
  assert (Pn : forall a, past a (c, v, n) -> samepos a n' -> vqs a n').
  { intros a (A1&A2&A3&A4) Hs. exfalso. unfold pos_lt, samepos in *. lia. }
  assert (Pa : forall a, past a (c, v, n) -> past a (c, v', n')).
  { intros a Ha. pose proof (P a Ha) as P1. pose proof (Pn a Ha) as P2. destruct Ha as (A1&A2&A3&A4). unfold past.
    split; [left; unfold pos_lt, samepos in *; lia|]. split; [exact A2|].
    split; [intros Hs; apply vqs_vq, P1, Hs|intros Hs; apply vqs_vq, P2, Hs]. }
  split; [exact Kn|].
  split; [intros a vid; unfold get3; destruct (vid =? ViewIDVoting); [intros Ha; eapply vle_trans; [exact Ha|exact Lv]|];
          destruct (vid =? ViewIDCommitting); [auto|intros Ha; eapply vle_trans; [exact Ha|exact Ln]]|].
  split; [exact Pa|].
  split; [constructor; [|constructor; [|constructor]]; cbn [ev_M get3 N.eqb Pos.eqb ViewIDVoting ViewIDNextRound ViewIDCommitting];
          (split; [intros a Ha; eapply vle_trans; [exact Ha|assumption]|assumption])|].
  split.
  - constructor; [|constructor; [|constructor]]; cbn [ev_N get3 N.eqb Pos.eqb ViewIDVoting ViewIDNextRound ViewIDCommitting];
      (split; [apply vle_refl|]); unfold past.
    + split; [left; unfold pos_lt; lia|]. split; [intros [X _]; exfalso; lia|]. split; [intros _; apply vq_refl|intros [_ X]; exfalso; lia].
    + split; [right; split; reflexivity|]. split; [intros [X _]; exfalso; lia|]. split; [intros [_ X]; exfalso; lia|intros _; apply vq_refl].
  - cbn [ord_pairs]. split; [|split; [constructor|exact I]]. constructor; [|constructor].
    cbn [ev_rel]. split; [intros X; destruct (slot_1_3 X)|intros [_ X]; exfalso; lia].
Qed.

(** ShiftVotingToCommitting: voting becomes committing, fresh voting / next-round views one height up *)
Lemma TR3_shift c v n c' v' n' x :
  samepos v c' -> view_le v c' -> v_ver c' = wrap32 (v_ver v + 1) ->
  v_h v' = wrap64 (v_h c' + 1) -> v_r v' = 0 -> v_ver v' = 1 ->
  v_h n' = v_h v' -> v_r n' = 1 -> v_ver n' = 1 ->
  TR3 (c, v, n) (c', v', n')
      [EvCommitted x; EvMark ViewIDCommitting c'; EvMark ViewIDVoting v'; EvMark ViewIDNextRound n'].
Proof.
  intros [Hp1 Hp2] Hl Hv Hh1 Hr1 Hv1 Hh2 Hr2 Hv2 Hok (K1&K2&K3&K4&K5&K6&K7&K8).
  inversion Hok as [|e0 l0 _ Hok0]; subst. inversion Hok0 as [|e1 l1 Hev1 Hok1]; subst.
  inversion Hok1 as [|e2 l2 Hev2 _]; subst. cbn [ev_ok] in Hev1, Hev2. destruct Hev1 as (Hc0&_&_). destruct Hev2 as (_&Hh0&_).
  assert (Hv' : v_ver c' = v_ver v + 1) by (rewrite Hv; apply wrap32_succ; [exact K7|rewrite <- Hv; exact Hc0]).
  assert (Hh' : v_h v' = v_h c' + 1) by (rewrite Hh1; apply wrap64_succ; [lia|rewrite <- Hh1; exact Hh0]).
  assert (Hhlt : v_h v' < two64) by (rewrite Hh1; apply wrap64_lt).
  assert (Q : vq v c') by (split; [lia|exact Hl]).
  assert (Kn : kinv (c', v', n')) by (unfold kinv, two32; repeat split; try lia; rewrite Hv; apply wrap32_lt).
  assert (Lc : vle c c') by (left; unfold pos_lt; lia).
  assert (Lv : vle v v') by (left; unfold pos_lt; lia).
  assert (Ln : vle n n') by (left; unfold pos_lt; lia).
  assert (P : forall a, past a (c, v, n) -> samepos a c' -> vqs a c').
  { intros a (A1&A2&A3&A4) Hs. eapply vq_vqs_trans; [apply A3; unfold samepos in *; split; lia|split; [lia|exact Hl]]. }
  assert (Pv : forall a, past a (c, v, n) -> samepos a v' -> vqs a v').
  { intros a (A1&A2&A3&A4) Hs. exfalso. unfold pos_lt, samepos in *. lia. }
  assert (Pn : forall a, past a (c, v, n) -> samepos a n' -> vqs a n').
  { intros a (A1&A2&A3&A4) Hs. exfalso. unfold pos_lt, samepos in *. lia. }
  assert (Pa : forall a, past a (c, v, n) -> past a (c', v', n')).
  { intros a Ha. pose proof (P a Ha) as P1. pose proof (Pv a Ha) as P2. pose proof (Pn a Ha) as P3.
    destruct Ha as (A1&A2&A3&A4). unfold past.
    split; [left; unfold pos_lt, samepos in *; lia|].
    split; [intros Hs; apply vqs_vq, P1, Hs|]. split; [intros Hs; apply vqs_vq, P2, Hs|intros Hs; apply vqs_vq, P3, Hs]. }
  split; [exact Kn|].
  split; [intros a vid; unfold get3; destruct (vid =? ViewIDVoting); [intros Ha; eapply vle_trans; [exact Ha|exact Lv]|];
          destruct (vid =? ViewIDCommitting); intros Ha; eapply vle_trans; try exact Ha; assumption|].
  split; [exact Pa|].
  split; [constructor; [exact I|]; constructor; [|constructor; [|constructor; [|constructor]]];
          cbn [ev_M get3 N.eqb Pos.eqb ViewIDVoting ViewIDNextRound ViewIDCommitting];
          (split; [intros a Ha; eapply vle_trans; [exact Ha|assumption]|assumption])|].
  split.
  - constructor; [exact I|]. constructor; [|constructor; [|constructor; [|constructor]]];
      cbn [ev_N get3 N.eqb Pos.eqb ViewIDVoting ViewIDNextRound ViewIDCommitting];
      (split; [apply vle_refl|]); unfold past.
    + split; [left; unfold pos_lt; lia|]. split; [intros _; apply vq_refl|]. split; [intros [X _]; exfalso; lia|intros [X _]; exfalso; lia].
    + split; [left; unfold pos_lt; lia|]. split; [intros [X _]; exfalso; lia|]. split; [intros _; apply vq_refl|intros [_ X]; exfalso; lia].
    + split; [right; split; reflexivity|]. split; [intros [X _]; exfalso; lia|]. split; [intros [_ X]; exfalso; lia|intros _; apply vq_refl].
  - cbn [ord_pairs]. split; [repeat constructor|].
    split; [constructor; [|constructor; [|constructor]]; cbn [ev_rel]|].
    + split; [intros X; destruct (slot_2_1 X)|intros [X _]; exfalso; lia].
    + split; [intros X; destruct (slot_2_3 X)|intros [X _]; exfalso; lia].
    + split; [|split; [constructor|exact I]]. constructor; [|constructor]. cbn [ev_rel].
      split; [intros X; destruct (slot_1_3 X)|intros [_ X]; exfalso; lia].
Qed.

(** * Kernel functions *)
Lemma get3_put3_same t vid w : get3 (put3 t vid w) vid = w.
Proof.
  destruct t as [[c v] n]. unfold get3, put3.
  destruct (vid =? ViewIDVoting) eqn:E1; [reflexivity|].
  destruct (vid =? ViewIDCommitting) eqn:E2; rewrite ?E1, ?E2; reflexivity.
Qed.

Lemma TR_of3 s s' new : st_ev s' = st_ev s ++ new -> TR3 (views s) (views s') new -> TR s s'.
Proof. intros E H. exists new. split; assumption. Qed.

Lemma TR_ev_plain s e : plain_ev e -> TR s (ev_w s e).
Proof. intros H. apply (TR_of3 _ _ [e]); [reflexivity|]. apply TR3_plain. constructor; [exact H|constructor]. Qed.

Lemma TR_update_observers s : TR s (update_observers s).
Proof. apply TR_frame; reflexivity. Qed.

Lemma TR_increment s : TR s (increment_voting_round s).
Proof.
  apply (TR_of3 _ _ [EvMark ViewIDVoting (bump (k_nxt s));
                     EvMark ViewIDNextRound (mk_view (v_h (k_vot s)) (wrap32 (v_r (bump (k_nxt s)) + 1)) (v_vals (k_vot s)) [] [] []
                        (v_pcp (k_vot s)) (sum_reset_same_height (v_sum (k_vot s))) 1)]).
  - unfold increment_voting_round, ev_w. cbn [st_ev]. rewrite <- app_assoc. reflexivity.
  - unfold increment_voting_round, views, ev_w, set_nxt, set_vot. cbn [k_com k_vot k_nxt].
    apply TR3_incr; try reflexivity; [split; reflexivity|exact (view_le_refl (k_nxt s))].
Qed.

Lemma TR_advance s : TR s (advance_voting_round s).
Proof.
  unfold advance_voting_round.
  eapply TR_trans; [apply (TR_ev_plain s (EvNil (k_vot s))); exact I|].
  eapply TR_trans; [apply TR_increment|apply TR_update_observers].
Qed.

Lemma TR_jump s : TR s (jump_voting_round s).
Proof.
  unfold jump_voting_round.
  eapply TR_trans; [apply TR_increment|].
  eapply TR_trans; [|apply TR_update_observers].
  set (s1 := increment_voting_round s).
  apply (TR_of3 _ _ [EvJump (k_vot s1)]); [reflexivity|]. apply TR3_jumpev.
Qed.

Lemma TR_shift s voted : TR s (shift_voting_to_committing s voted).
Proof.
  set (s' := shift_voting_to_committing s voted).
  assert (E : st_ev s' = st_ev s ++ [EvCommitted (v_h (k_com s)); EvMark ViewIDCommitting (k_com s');
                                     EvMark ViewIDVoting (k_vot s'); EvMark ViewIDNextRound (k_nxt s')]).
  { unfold s', shift_voting_to_committing, update_observers. cbn. rewrite <- !app_assoc. reflexivity. }
  apply (TR_of3 _ _ _ E). unfold views.
  apply TR3_shift; try (unfold s', shift_voting_to_committing, update_observers; cbn; reflexivity).
  - unfold s', shift_voting_to_committing, update_observers; cbn. split; reflexivity.
  - unfold s', shift_voting_to_committing, update_observers; cbn. exact (view_le_refl (k_vot s)).
Qed.

Lemma TR_check_voting s s' : check_voting_precommit_shift s = Ok s' -> TR s s'.
Proof.
  unfold check_voting_precommit_shift, bind.
  destruct (byz_majority _) as [maj|]; [|discriminate].
  destruct (_ <? maj).
  - destruct (_ =? _); intros E; inversion E; subst; [apply TR_advance|apply TR_refl].
  - destruct (sm_mpc _).
    + intros E; inversion E; subst. apply TR_advance.
    + destruct (find _ _) as [p|]; intros E; inversion E; subst; [apply TR_shift|apply TR_refl].
Qed.

Lemma TR_check_next_round s s' : check_next_round_precommit_shift s = Ok s' -> TR s s'.
Proof.
  unfold check_next_round_precommit_shift, bind.
  destruct (byz_minority _) as [mn|]; [|discriminate].
  destruct (_ <? mn); [intros E; inversion E; subst; apply TR_refl|].
  destruct (byz_majority _) as [maj|]; [|discriminate].
  destruct (maj <=? _).
  - intros E. eapply TR_trans; [apply TR_jump|apply TR_check_voting; exact E].
  - intros E; inversion E; subst. apply TR_jump.
Qed.

Lemma TR_check_prevote s s' : check_prevote_shift s = Ok s' -> TR s s'.
Proof.
  unfold check_prevote_shift, bind.
  destruct (byz_minority _) as [mn|]; [|discriminate].
  destruct (_ <? mn); intros E; inversion E; subst; [apply TR_refl|apply TR_jump].
Qed.

(** a view replaced in place, bumped and marked *)
Lemma TR_put_mark s vid w s2 :
  views s2 = put3 (views s) vid w -> st_ev s2 = st_ev s ++ [EvMark vid w] ->
  samepos (get_view s vid) w -> view_le (get_view s vid) w -> v_ver w = wrap32 (v_ver (get_view s vid) + 1) ->
  TR s s2.
Proof.
  intros Hv He Hp Hl Hver. apply (TR_of3 _ _ [EvMark vid w]); [exact He|]. rewrite Hv.
  apply TR3_upd_mark; assumption.
Qed.

Lemma TR_put_silent s vid w s2 :
  views s2 = put3 (views s) vid w -> st_ev s2 = st_ev s ->
  samepos (get_view s vid) w -> view_le (get_view s vid) w -> v_ver w = v_ver (get_view s vid) ->
  TR s s2.
Proof.
  intros Hv He Hp Hl Hver. apply (TR_of3 _ _ []); [rewrite He; symmetry; apply app_nil_r|]. rewrite Hv.
  apply TR3_silent; assumption.
Qed.

Lemma backfill_fold_le kind h r keys entries : forall pc any pc' any',
  fold_left (fun acc e =>
      let '(pc, any) := acc in
      match pm_get pc (fst e) with
      | None => (pc, any)
      | Some target =>
          let '(t', _, inc) := merge_sparse kind h r (fst e) keys target (snd e) in
          (pm_set pc (fst e) t', any || inc)
      end) entries (pc, any) = (pc', any') ->
  pmap_le pc pc'.
Proof.
  induction entries as [|e rest IH]; intros pc any pc' any'; cbn [fold_left].
  - intros E; inversion E; subst. apply pmap_le_refl.
  - destruct (pm_get pc (fst e)) as [target|] eqn:Hg.
    + destruct (merge_sparse kind h r (fst e) keys target (snd e)) as [[t' av] inc] eqn:Hm.
      intros E. eapply pmap_le_trans; [|eapply IH; exact E].
      apply pmap_le_set. intros q Hq. rewrite Hg in Hq. inversion Hq; subst. eapply merge_sparse_le; exact Hm.
    + apply IH.
Qed.

Lemma TR_backfill s p : TR s (backfill_commit s p).
Proof.
  unfold backfill_commit.
  destruct (fold_left _ _ _) as [pc' any] eqn:Hf.
  pose proof (backfill_fold_le _ _ _ _ _ _ _ _ _ Hf) as Hle.
  destruct any.
  - eapply (TR_put_mark s ViewIDCommitting); try reflexivity.
    + split; reflexivity.
    + repeat split; [apply incl_refl|apply pmap_le_refl|exact Hle].
  - eapply (TR_put_silent s ViewIDCommitting); try reflexivity.
    + split; reflexivity.
    + repeat split; [apply incl_refl|apply pmap_le_refl|exact Hle].
Qed.

Lemma TR_add_ph s p s' : add_ph s p = Ok s' -> TR s s'.
Proof.
  unfold add_ph, bind.
  destruct (find_view _ _ _) as [[vid st]|]; [|discriminate].
  destruct (negb (st =? ViewFound)); [intros E; inversion E; subst; apply TR_refl|].
  destruct (existsb _ _); [intros E; inversion E; subst; apply TR_refl|].
  set (w := bump (with_phs (get_view s vid) (v_phs (get_view s vid) ++ [p]))).
  set (s1 := put_view s vid w).
  set (s2 := ev_w (log_w (set_rounds s1 _) _) _).
  assert (T2 : TR s s2).
  { apply (TR_put_mark s vid w).
    - unfold s2, s1. rewrite <- views_put_view. reflexivity.
    - unfold s2. cbn [ev_w st_ev log_w set_rounds]. unfold s1. rewrite st_ev_put_view.
      rewrite (get_view_get3 (put_view s vid w)), views_put_view, get3_put3_same. reflexivity.
    - split; reflexivity.
    - repeat split; [cbn; apply incl_appl, incl_refl|apply pmap_le_refl|apply pmap_le_refl].
    - reflexivity. }
  destruct (negb _); [intros E; inversion E; subst; exact T2|].
  assert (T3 : TR s (backfill_commit s2 p)) by (eapply TR_trans; [exact T2|apply TR_backfill]).
  destruct (vid =? ViewIDVoting).
  - destruct (pm_get _ _).
    + intros E. eapply TR_trans; [exact T3|apply TR_check_voting; exact E].
    + intros E; inversion E; subst; exact T3.
  - intros E; inversion E; subst; exact T3.
Qed.

Lemma TR_apply_votes kind s vid h r ups s' :
  ups_ok (view_votes kind (get_view s vid)) ups ->
  apply_votes kind s vid h r ups = Ok s' -> TR s s'.
Proof.
  intros Hups. unfold apply_votes.
  set (v := get_view s vid) in *.
  set (votes' := fold_left (fun m e => pm_set m (fst e) (snd e)) ups (view_votes kind v)).
  assert (Hle : pmap_le (view_votes kind v) votes') by (apply fold_set_le; [apply pmap_le_refl|exact Hups]).
  set (v1 := if kind =? KPrevote then with_pv v votes' else with_pc v votes').
  set (sm' := if kind =? KPrevote then sum_set_prevotes _ _ _ else _).
  set (v2 := bump (with_sum v1 sm')).
  set (s1 := put_view s vid v2).
  set (s2 := ev_w (log_w (set_rounds s1 _) _) _).
  assert (T2 : TR s s2).
  { apply (TR_put_mark s vid v2).
    - unfold s2, s1. rewrite <- views_put_view. reflexivity.
    - unfold s2. cbn [ev_w st_ev log_w set_rounds]. unfold s1. rewrite st_ev_put_view. reflexivity.
    - unfold v2, v1. destruct (kind =? KPrevote); split; reflexivity.
    - unfold v2, v1, view_votes in *. destruct (kind =? KPrevote);
        (repeat split; [apply incl_refl| |]); cbn; try apply pmap_le_refl; exact Hle.
    - unfold v2, v1. destruct (kind =? KPrevote); reflexivity. }
  destruct (kind =? KPrevote).
  - destruct (vid =? ViewIDNextRound).
    + intros E. eapply TR_trans; [exact T2|apply TR_check_prevote; exact E].
    + intros E; inversion E; subst. exact T2.
  - destruct (vid =? ViewIDVoting).
    + intros E. eapply TR_trans; [exact T2|apply TR_check_voting; exact E].
    + destruct (vid =? ViewIDNextRound).
      * intros E. eapply TR_trans; [exact T2|apply TR_check_next_round; exact E].
      * intros E; inversion E; subst. exact T2.
Qed.

Lemma TR_handle_future kind s m s' res : handle_future_votes kind s m = Ok (s', res) -> TR s s'.
Proof.
  unfold handle_future_votes.
  destruct (if vm_h m =? _ then _ else _) as [keys|]; [|intros E; inversion E; subst; apply TR_refl].
  destruct keys; [intros E; inversion E; subst; apply TR_refl|].
  destruct (negb (bytes_eqb _ _)); [intros E; inversion E; subst; apply TR_refl|].
  destruct (match coll_of _ _ with Some c => c | None => _ end) as [spkh stored].
  destruct (fold_left _ _ _) as [[full' allv] inc].
  destruct (negb allv); [intros E; inversion E; subst; apply TR_refl|].
  destruct (negb inc); intros E; inversion E; subst; [apply TR_refl|].
  apply TR_frame; reflexivity.
Qed.

Lemma TR_handle_votes kind s m s' res : handle_votes kind s m = Ok (s', res) -> TR s s'.
Proof.
  unfold handle_votes, bind.
  destruct (vm_proofs m) as [|vp0 vpl] eqn:Hp; [intros E; inversion E; subst; apply TR_refl|].
  rewrite <- Hp. clear Hp vp0 vpl.
  destruct (find_view _ _ _) as [[vid st]|]; [|discriminate].
  destruct (st =? ViewFuture); [apply TR_handle_future|].
  destruct (negb (st =? ViewFound)); [intros E; inversion E; subst; apply TR_refl|].
  destruct (negb (bytes_eqb _ _)); [intros E; inversion E; subst; apply TR_refl|].
  destruct (sigs_to_add _ _ _) as [|x0 l0] eqn:Hsa; [intros E; inversion E; subst; apply TR_refl|]. rewrite <- Hsa. clear Hsa x0 l0.
  destruct (build_updates _ _ _) as [ups allv] eqn:Hb.
  pose proof (build_updates_ok _ _ _ _ _ Hb) as Hok.
  destruct ups as [|u ups'] eqn:Hu; [intros E; inversion E; subst; apply TR_refl|]. rewrite <- Hu in *. clear Hu.
  destruct (apply_votes _ _ _ _ _ _) as [s2|] eqn:Ha; [|discriminate].
  intros E; inversion E; subst. eapply TR_apply_votes; eassumption.
Qed.

Lemma TR_handle_ph_loop fuel : forall backfilled s p s' res,
  handle_ph_loop fuel backfilled s p = Ok (s', res) -> TR s s'.
Proof.
  assert (Hbody : forall s p (proposer : option N) (prev_hash : bytes) (prev_vs view_vs : valset) s' res,
    (let hd := ph_hdr p in
      if negb (hd_ok hd) then Ok (s, HandleProposedHeaderBadBlockHash)
      else if negb (vs_ok (hd_vals hd) && vs_ok (hd_next hd)) then Ok (s, HandleProposedHeaderBadBlockHash)
      else if negb (valset_equal (hd_vals hd) view_vs) then Ok (s, HandleProposedHeaderBadBlockHash)
      else
        match proposer with
        | None => Ok (s, HandleProposedHeaderBadSignature)
        | Some key =>
          if negb (verify_prop key (ph_content p) (ph_round p) (ph_sig p)) then Ok (s, HandleProposedHeaderBadSignature)
          else if negb (hd_height hd =? k_init_h s) && negb (bytes_eqb (hd_prev hd) prev_hash)
          then Ok (s, HandleProposedHeaderBadBlockHash)
          else if negb (bytes_eqb (vs_pkh prev_vs) (cp_pkh (hd_pcp hd)))
          then Ok (s, HandleProposedHeaderBadPrevCommitProofPubKeyHash)
          else
            let accept := bind (add_ph s p) (fun s' => Ok (s', HandleProposedHeaderAccepted)) in
            if k_init_h s <? hd_height hd then
              match vs_keys prev_vs with
              | [] => Ok (s, HandleProposedHeaderBadPrevCommitProofPubKeyHash)
              | _ =>
                match validate_finalized (sub64 (hd_height hd) 1) (cp_round (hd_pcp hd)) (vs_keys prev_vs)
                        (hd_prev hd) (cp_proofs (hd_pcp hd)) with
                | (_, false) => Ok (s, HandleProposedHeaderBadPrevCommitProofDoubleSigned)
                | (None, true) => Ok (s, HandleProposedHeaderBadPrevCommitProofSignature)
                | (Some bits, true) =>
                    let avail := sum_pows (vs_pows prev_vs) in
                    bind (byz_majority avail) (fun maj =>
                    if idx_power (vs_pows prev_vs) bits <? maj
                    then Ok (s, HandleProposedHeaderBadPrevCommitVoteCount)
                    else accept)
                end
              end
            else accept
        end) = Ok (s', res) ->
    TR s s').
  { intros s p proposer prev_hash prev_vs view_vs s' res. cbv zeta.
    assert (Hsame : forall r0, Ok (s, r0) = Ok (s', res) -> TR s s')
      by (intros r0 E; inversion E; subst; apply TR_refl).
    destruct (negb (hd_ok _)); [apply Hsame|].
    destruct (negb (vs_ok _ && vs_ok _)); [apply Hsame|].
    destruct (negb (valset_equal _ _)); [apply Hsame|].
    destruct proposer as [key|]; [|apply Hsame].
    destruct (negb (verify_prop _ _ _ _)); [apply Hsame|].
    destruct (negb (hd_height (ph_hdr p) =? k_init_h s) && negb (bytes_eqb (hd_prev (ph_hdr p)) prev_hash)); [apply Hsame|].
    destruct (negb (bytes_eqb (vs_pkh prev_vs) _)); [apply Hsame|].
    assert (Hacc : bind (add_ph s p) (fun s' => Ok (s', HandleProposedHeaderAccepted)) = Ok (s', res) -> TR s s').
    { unfold bind. destruct (add_ph s p) eqn:Ha; [|discriminate].
      intros E; inversion E; subst. eapply TR_add_ph; eassumption. }
    destruct (k_init_h s <? _); [|exact Hacc].
    destruct (vs_keys prev_vs); [apply Hsame|].
    destruct (validate_finalized _ _ _ _ _) as [[bits|] [|]]; try apply Hsame.
    unfold bind at 1. destruct (byz_majority _); [|discriminate].
    destruct (_ <? _); [apply Hsame|exact Hacc]. }
  induction fuel as [|f IH]; intros backfilled s p s' res; cbn [handle_ph_loop];
    destruct (ph_check s p) as [status proposer prev_hash prev_vs view_vs].
  all: assert (Hsame : forall r0, Ok (s, r0) = Ok (s', res) -> TR s s')
         by (intros r0 E; inversion E; subst; apply TR_refl).
  all: destruct (status =? PHCheckAlreadyHaveSignature); [apply Hsame|].
  all: destruct (status =? PHCheckSignerUnrecognized); [apply Hsame|].
  all: destruct (status =? PHCheckRoundTooOld); [apply Hsame|].
  all: destruct (status =? PHCheckRoundTooFarInFuture); [apply Hsame|].
  all: destruct (status =? PHCheckNextHeight).
  - destruct backfilled; apply Hsame.
  - apply Hbody.
  - destruct backfilled; [apply Hsame|].
    unfold bind at 1. destruct (handle_votes KPrecommit s (vote_msg_of_pcp p)) as [[s1 r1]|] eqn:Hv; [|discriminate].
    cbn [fst]. intros E. eapply TR_trans; [eapply TR_handle_votes; exact Hv|eapply IH; exact E].
  - apply Hbody.
Qed.

Lemma TR_jump_until fuel : forall s r, TR s (jump_until fuel s r).
Proof.
  induction fuel as [|f IH]; intros s r; cbn [jump_until]; [apply TR_refl|].
  destruct (_ <? _); [|apply TR_refl]. eapply TR_trans; [apply TR_jump|apply IH].
Qed.

(** what inserting the replayed header does: at most one more proposed header in the voting view *)
Lemma replay_insert_views s hd r s1 : replay_insert s hd r = Ok s1 ->
  k_com s1 = k_com s /\ k_nxt s1 = k_nxt s /\ st_ev s1 = st_ev s /\
  v_h (k_vot s1) = v_h (k_vot s) /\ v_r (k_vot s1) = v_r (k_vot s) /\ v_ver (k_vot s1) = v_ver (k_vot s) /\
  v_pv (k_vot s1) = v_pv (k_vot s) /\ v_pc (k_vot s1) = v_pc (k_vot s) /\
  incl (v_phs (k_vot s)) (v_phs (k_vot s1)).
Proof.
  unfold replay_insert. destruct (existsb _ (v_phs _)); [intros E; inversion E; subst; repeat split; apply incl_refl|].
  destruct (existsb _ (st_rounds s)); intros E; inversion E; subst; cbn; repeat split; apply incl_appl, incl_refl.
Qed.

Lemma replay_temp_ok h r keys pc entries : forall tm av tm' av',
  ups_ok pc tm ->
  fold_left (fun acc e =>
      let '(tm, av) := acc in
      let base := match pm_get pc (fst e) with Some p => p | None => [] end in
      let '(p', a, _) := merge_sparse KPrecommit h r (fst e) keys base (snd e) in
      (pm_set tm (fst e) p', av && a)) entries (tm, av) = (tm', av') ->
  ups_ok pc tm'.
Proof.
  induction entries as [|e rest IH]; intros tm av tm' av' Hok; cbn [fold_left].
  - intros E; inversion E; subst. exact Hok.
  - destruct (merge_sparse KPrecommit h r (fst e) keys _ (snd e)) as [[p' a] i] eqn:Hm.
    apply IH. apply ups_ok_set; [exact Hok|]. intros q Hq. rewrite Hq in Hm. eapply merge_sparse_le; exact Hm.
Qed.

Lemma TR_handle_replay s0 hd cp s' res : handle_replay s0 hd cp = Ok (s', res) -> TR s0 s'.
Proof.
  unfold handle_replay.
  destruct (negb (hd_height hd =? _)); [intros E; inversion E; subst; apply TR_refl|].
  destruct (cp_round cp <? _); [discriminate|].
  pose proof (TR_jump_until (N.to_nat (cp_round cp - v_r (k_vot s0))) s0 (cp_round cp)) as T0.
  set (s := jump_until _ s0 _) in *.
  destruct (negb ((v_r (k_vot s) =? cp_round cp) && (v_h (k_vot s) =? hd_height hd))); [discriminate|].
  (* a rejected replay leaves the state as it was *)
  assert (Hsame : forall r0, Ok (s0, r0) = Ok (s', res) -> TR s0 s')
    by (intros r0 E; inversion E; subst; apply TR_refl).
  destruct (negb (hd_ok hd)); [apply Hsame|].
  destruct (negb (hd_height hd =? k_init_h s) && negb (bytes_eqb (hd_prev hd) (chdr_hash s))); [apply Hsame|].
  destruct (negb (valset_equal (hd_vals hd) (v_vals (k_vot s)) && vs_ok (hd_vals hd))); [apply Hsame|].
  destruct (negb (vs_ok (hd_next hd))); [apply Hsame|].
  destruct (fold_left _ (signed_entries (cp_proofs cp)) ([], true)) as [temp allv] eqn:Ht.
  assert (Htemp : ups_ok (v_pc (k_vot s)) temp).
  { eapply replay_temp_ok; [|exact Ht]. intros t p' []. }
  destruct (negb allv); [apply Hsame|].
  destruct (pm_get temp (hd_hash hd)); [|apply Hsame].
  unfold bind at 1. destruct (byz_majority _); [|discriminate].
  destruct (_ <? _); [apply Hsame|].
  fold (replay_insert s hd (cp_round cp)).
  unfold bind at 1. destruct (replay_insert s hd (cp_round cp)) as [s1|] eqn:Hins; [|discriminate].
  destruct (replay_insert_views _ _ _ _ Hins) as (F1&F2&F3&Fh&Fr&Fv&Fpv&Fpc&Fphs).
  unfold bind. destruct (check_voting_precommit_shift _) as [s3|] eqn:Hc; [|discriminate].
  intros E; inversion E; subst.
  match type of Hc with check_voting_precommit_shift ?X = _ => set (s2 := X) in * end.
  eapply TR_trans; [exact T0|]. eapply TR_trans; [|apply TR_check_voting; exact Hc].
  (* header and precommits stored, version bumped, voting view marked: one in-place update of [s] *)
  set (pc' := fold_left (fun m e => pm_set m (fst e) (snd e)) temp (v_pc (k_vot s1))) in *.
  set (v2 := bump (with_sum (with_pc (k_vot s1) pc')
                     (sum_set_precommits (v_sum (with_pc (k_vot s1) pc')) (vs_pows (v_vals (with_pc (k_vot s1) pc'))) pc'))) in *.
  apply (TR_put_mark s ViewIDVoting v2 s2).
  - unfold s2, views, put3. cbn. rewrite F1, F2. reflexivity.
  - unfold s2. cbn. rewrite F3. reflexivity.
  - split; cbn; symmetry; assumption.
  - split; [exact Fphs|]. split; cbn.
    + rewrite Fpv. apply pmap_le_refl.
    + unfold pc'. rewrite Fpc. apply fold_set_le; [apply pmap_le_refl|exact Htemp].
  - cbn. rewrite Fv. reflexivity.
Qed.

Theorem TR_step s o s' res : step s o = Ok (s', res) -> TR s s'.
Proof.
  destruct o as [p|m|m|x cp]; cbn [step].
  - unfold handle_ph. destruct (ph_key p); [apply TR_handle_ph_loop|intros E; inversion E; subst; apply TR_refl].
  - apply TR_handle_votes.
  - apply TR_handle_votes.
  - apply TR_handle_replay.
Qed.

(** the local validator's own actions (handleStateMachineAction) are kernel transitions of the same kind *)
Lemma act_vote_cases kind s h r key target sg s' :
  act_vote kind s h r key target sg = Ok s' ->
  s' = s \/ exists vid base i, (pm_get (view_votes kind (get_view s vid)) target = Some base \/
                               (pm_get (view_votes kind (get_view s vid)) target = None /\ base = [])) /\
                              apply_votes kind s vid h r [(target, add_sig base i sg)] = Ok s'.
Proof.
  unfold act_vote, bind. destruct (find_view _ _ _) as [[vid st]|]; [|discriminate].
  destruct (negb _); [intros E; inversion E; left; reflexivity|].
  destruct (pm_get (view_votes kind (get_view s vid)) target) as [p|] eqn:Hg.
  - destruct key as [k|]; [|discriminate]. destruct (key_index _ k) as [i|]; [|intros E; inversion E; left; reflexivity].
    destruct (verify_vote _ _ _ _ _ _); [|intros E; inversion E; left; reflexivity].
    intros E. right. exists vid, p, i. split; [left; exact Hg|exact E].
  - destruct (vs_keys (v_vals (get_view s vid))); [discriminate|].
    destruct key as [k|]; [|discriminate]. destruct (key_index _ k) as [i|]; [|intros E; inversion E; left; reflexivity].
    destruct (verify_vote _ _ _ _ _ _); [|intros E; inversion E; left; reflexivity].
    intros E. right. exists vid, [], i. split; [right; split; [exact Hg|reflexivity]|exact E].
Qed.

Lemma TR_act_vote kind s h r key target sg s' : act_vote kind s h r key target sg = Ok s' -> TR s s'.
Proof.
  intros H. destruct (act_vote_cases _ _ _ _ _ _ _ _ H) as [->|(vid&base&i&Hb&Ha)]; [apply TR_refl|].
  eapply TR_apply_votes; [|exact Ha].
  intros t p' [E|[]] p Hg. inversion E; subst t p'.
  destruct Hb as [Hb|[Hb _]]; rewrite Hb in Hg; [|discriminate]. inversion Hg; subst. apply add_sig_le.
Qed.

Theorem TR_act_step s h r key a s' : act_step s h r key a = Ok s' -> TR s s'.
Proof.
  destruct a as [target sg|target sg|p]; cbn [act_step]; try apply TR_act_vote.
  unfold act_ph. destruct (hd_hash (ph_hdr p)); [discriminate|apply TR_add_ph].
Qed.

(** * Histories of mirror + managers *)
Definition no_restart (o : mop) : bool := match o with MK x => negb (is_restart_x x) | _ => true end.

(** a history: every operation succeeds; the outputs are collected in order *)
Fixpoint mrun (s : mstate) (ops : list mop) : res (mstate * list mio) :=
  match ops with
  | [] => Ok (s, [])
  | o :: rest =>
      match mstep s o with
      | Ok (s1, _, io) =>
          match mrun s1 rest with
          | Ok (s', ios) => Ok (s', io :: ios)
          | Panic e => Panic e
          end
      | Panic e => Panic e
      end
  end.

Lemma skipn_app_length {A} (l new : list A) : skipn (List.length l) (l ++ new) = new.
Proof. induction l as [|x l IH]; [reflexivity|exact IH]. Qed.

(** what a kernel operation does to the pair *)
Lemma mk_step_facts s o s1 r io :
  mstep s (MK (XOp o)) = Ok (s1, r, io) ->
  exists new, st_ev (ms_k s1) = st_ev (ms_k s) ++ new /\ TR3 (views (ms_k s)) (views (ms_k s1)) new /\
              ms_m s1 = fold_left mgr_step new (ms_m s) /\ io = IONone.
Proof.
  cbn [mstep xstep is_restart_x]. unfold bind. destruct (step (ms_k s) o) as [[k' r1]|] eqn:Hs; [|discriminate].
  intros E; inversion E; subst. destruct (TR_step _ _ _ _ Hs) as (new&He&H3).
  exists new. cbn [ms_k ms_m]. split; [exact He|]. split; [exact H3|]. split; [|reflexivity].
  rewrite He, skipn_app_length. reflexivity.
Qed.

Lemma mact_step_facts s a s1 r io :
  mstep s (MAct a) = Ok (s1, r, io) ->
  exists new, st_ev (ms_k s1) = st_ev (ms_k s) ++ new /\ TR3 (views (ms_k s)) (views (ms_k s1)) new /\
              ms_m s1 = fold_left mgr_step new (ms_m s) /\ io = IONone.
Proof.
  cbn [mstep]. unfold bind. destruct (act_step _ _ _ _ a) as [k'|] eqn:Hs; [|discriminate].
  intros E; inversion E; subst. destruct (TR_act_step _ _ _ _ _ _ Hs) as (new&He&H3).
  exists new. cbn [ms_k ms_m]. split; [exact He|]. split; [exact H3|]. split; [|reflexivity].
  rewrite He, skipn_app_length. reflexivity.
Qed.

Lemma mstep_ext s o s1 r io : no_restart o = true -> mstep s o = Ok (s1, r, io) ->
  exists new, st_ev (ms_k s1) = st_ev (ms_k s) ++ new.
Proof.
  destruct o as [[o| |]|h0 r0| | |h0 r0 key0|a]; cbn [no_restart is_restart_x negb]; try discriminate; intros _ H.
  - destruct (mk_step_facts _ _ _ _ _ H) as (new&He&_). exists new. exact He.
  - exists []. rewrite app_nil_r. revert H. cbn [mstep]. unfold bind.
    destruct (find_view _ _ _) as [[vid st]|]; [|discriminate].
    destruct (st =? ViewFound); [intros E; inversion E; reflexivity|].
    destruct (st =? ViewBeforeCommitting); [|discriminate].
    destruct (hdr_get _ _) as [[x cp]|]; [intros E; inversion E; reflexivity|discriminate].
  - exists []. rewrite app_nil_r. revert H. cbn [mstep].
    destruct (sm_output _) as [[[vv jv] sv]|]; intros E; inversion E; reflexivity.
  - exists []. rewrite app_nil_r. revert H. cbn [mstep].
    destruct (g_output _) as [[[[c v] n] nl]|]; intros E; inversion E; reflexivity.
  - exists []. rewrite app_nil_r. revert H. cbn [mstep]. unfold bind.
    destruct (find_view _ _ _) as [[vid st]|]; [|discriminate].
    destruct (st =? ViewFound); [intros E; inversion E; reflexivity|].
    destruct (st =? ViewBeforeCommitting); [|discriminate].
    destruct (hdr_get _ _) as [[x cp]|]; [intros E; inversion E; reflexivity|discriminate].
  - destruct (mact_step_facts _ _ _ _ _ H) as (new&He&_). exists new. exact He.
Qed.

Lemma mrun_ext ops : forall s s' ios, forallb no_restart ops = true -> mrun s ops = Ok (s', ios) ->
  exists new, st_ev (ms_k s') = st_ev (ms_k s) ++ new.
Proof.
  induction ops as [|o rest IH]; intros s s' ios Hall; cbn [mrun].
  - intros E; inversion E; subst. exists []. symmetry; apply app_nil_r.
  - cbn [forallb] in Hall. apply andb_true_iff in Hall as [Ho Hr].
    destruct (mstep s o) as [[[s1 r] io]|] eqn:Hs; [|discriminate].
    destruct (mrun s1 rest) as [[s2 ios2]|] eqn:Hm; [|discriminate].
    intros E; inversion E; subst.
    destruct (mstep_ext _ _ _ _ _ Ho Hs) as (n1&E1). destruct (IH _ _ _ Hr Hm) as (n2&E2).
    exists (n1 ++ n2). rewrite E2, E1, app_assoc. reflexivity.
Qed.

Lemma ok_prefix (l new : list mev) : Forall ev_ok (l ++ new) -> Forall ev_ok l /\ Forall ev_ok new.
Proof. apply Forall_app. Qed.

(** ** The gossip manager's slots *)
Definition gslot (g : gm) (k : N) : gout :=
  if k =? ViewIDVoting then gm_vot g else if k =? ViewIDCommitting then gm_com g else gm_nxt g.

Fixpoint last_mark (k : N) (evs : list mev) (d : view) : view :=
  match evs with
  | [] => d
  | EvMark vid m :: rest => last_mark k rest (if slot vid =? k then m else d)
  | _ :: rest => last_mark k rest d
  end.

Definition is_slot (k : N) : Prop := k = ViewIDVoting \/ k = ViewIDCommitting \/ k = ViewIDNextRound.

Lemma mgr_step_gslot m e k : is_slot k ->
  gslot (m_g (mgr_step m e)) k =
  mk_gout (last_mark k [e] (go_v (gslot (m_g m) k))) (go_sent (gslot (m_g m) k)).
Proof.
  intros Hk. destruct m as [sm [gc gv gn gl] cm]. destruct e as [vid v|v|v|h]; cbn [mgr_step m_g m_sm m_committed last_mark].
  - unfold slot. destruct (vid =? ViewIDVoting); [|destruct (vid =? ViewIDCommitting)];
      destruct Hk as [->|[->| ->]]; cbn; try (destruct gc; reflexivity); try (destruct gv; reflexivity); try (destruct gn; reflexivity).
  - destruct Hk as [->|[->| ->]]; cbn; [destruct gv|destruct gc|destruct gn]; reflexivity.
  - destruct Hk as [->|[->| ->]]; cbn; [destruct gv|destruct gc|destruct gn]; reflexivity.
  - destruct Hk as [->|[->| ->]]; cbn; [destruct gv|destruct gc|destruct gn]; reflexivity.
Qed.

Lemma last_mark_cons k e rest d : last_mark k (e :: rest) d = last_mark k rest (last_mark k [e] d).
Proof. destruct e; reflexivity. Qed.

Lemma fold_mgr_gslot k : is_slot k -> forall new m,
  gslot (m_g (fold_left mgr_step new m)) k =
  mk_gout (last_mark k new (go_v (gslot (m_g m) k))) (go_sent (gslot (m_g m) k)).
Proof.
  intros Hk. induction new as [|e new IH]; intros m; cbn [fold_left].
  - cbn [last_mark]. destruct (gslot (m_g m) k); reflexivity.
  - rewrite IH, (mgr_step_gslot m e k Hk). cbn [go_v go_sent]. rewrite (last_mark_cons k e new). reflexivity.
Qed.

(** the tracked view only moves up along the events *)
Lemma last_mark_vle k : forall new x,
  (forall vid m, In (EvMark vid m) new -> slot vid = k -> vle x m) -> ord_pairs new ->
  vle x (last_mark k new x) /\
  (last_mark k new x = x \/ exists vid, slot vid = k /\ In (EvMark vid (last_mark k new x)) new).
Proof.
  induction new as [|e new IH]; intros x Hx Ho; cbn [last_mark].
  - split; [apply vle_refl|left; reflexivity].
  - destruct Ho as [Ho1 Ho2].
    assert (Hrest : (forall vid m, In (EvMark vid m) new -> slot vid = k -> vle x m))
      by (intros vid m Hin; apply Hx; right; exact Hin).
    destruct e as [vid0 m0|m0|m0|h0];
      try (destruct (IH x Hrest Ho2) as [A [B|(vid&B1&B2)]]; split; [exact A|left; exact B|exact A|right; exists vid; split; [exact B1|right; exact B2]]).
    destruct (N.eqb_spec (slot vid0) k) as [Es|Es].
    + assert (Hm : forall vid m, In (EvMark vid m) new -> slot vid = k -> vle m0 m).
      { intros vid m Hin Hs. rewrite Forall_forall in Ho1. specialize (Ho1 _ Hin). cbn [ev_rel] in Ho1.
        apply Ho1. congruence. }
      destruct (IH m0 Hm Ho2) as [A B]. split.
      * eapply vle_trans; [apply (Hx vid0 m0); [left; reflexivity|exact Es]|exact A].
      * right. destruct B as [B|(vid&B1&B2)].
        -- exists vid0. split; [exact Es|left; rewrite B; reflexivity].
        -- exists vid. split; [exact B1|right; exact B2].
    + destruct (IH x Hrest Ho2) as [A [B|(vid&B1&B2)]]; split; [exact A|left; exact B|exact A|right; exists vid; split; [exact B1|right; exact B2]].
Qed.

Lemma slot_of_slot k : is_slot k -> slot k = k.
Proof. intros [->|[->| ->]]; reflexivity. Qed.

Lemma tracker_step t t' new k g :
  is_slot k -> Forall ev_ok new -> kinv t -> TR3 t t' new ->
  vle g (get3 t k) ->
  vle g (last_mark k new g) /\ vle (last_mark k new g) (get3 t' k).
Proof.
  intros Hk Hok Hkinv H3 Hg. destruct (H3 Hok Hkinv) as (K'&S&P&M&Nn&O).
  rewrite Forall_forall in M, Nn.
  assert (Hx : forall vid m, In (EvMark vid m) new -> slot vid = k -> vle g m).
  { intros vid m Hin Hs. specialize (M _ Hin). cbn [ev_M] in M. apply M.
    rewrite (get3_slot t vid k); [exact Hg|rewrite Hs; symmetry; apply slot_of_slot; exact Hk]. }
  destruct (last_mark_vle k new g Hx O) as [A [B|(vid&B1&B2)]].
  - split; [exact A|]. rewrite B. apply S. exact Hg.
  - split; [exact A|]. specialize (Nn _ B2). cbn [ev_N] in Nn.
    rewrite <- (get3_slot t' vid k); [apply Nn|rewrite B1; symmetry; apply slot_of_slot; exact Hk].
Qed.

Definition triple (v : view) : N * N * N := (v_h v, v_r v, v_ver v).

(** gossip slot [k], with [d] the view last handed to the gossip strategy from it *)
Definition GI (k : N) (s : mstate) (d : view) : Prop :=
  let g := gslot (m_g (ms_m s)) k in
  go_sent g = triple d /\ vle d (go_v g) /\ vle (go_v g) (get3 (views (ms_k s)) k).

Definition g_deliv (k : N) (io : mio) : list view :=
  match io with
  | IOGossip c v n _ =>
      match (if k =? ViewIDVoting then v else if k =? ViewIDCommitting then c else n) with
      | Some x => [x]
      | None => []
      end
  | _ => []
  end.

Fixpoint chain_from (R : view -> view -> Prop) (d : view) (l : list view) : Prop :=
  match l with
  | [] => True
  | x :: t => R d x /\ chain_from R x t
  end.

Lemma g_output_spec g c v n nl : g_output g = Some (c, v, n, nl) ->
  c = (if go_has_been_sent (gm_com g) then None else Some (go_v (gm_com g))) /\
  v = (if go_has_been_sent (gm_vot g) then None else Some (go_v (gm_vot g))) /\
  n = (if go_has_been_sent (gm_nxt g) then None else Some (go_v (gm_nxt g))).
Proof.
  unfold g_output.
  destruct (go_has_been_sent (gm_com g)); destruct (go_has_been_sent (gm_vot g)); destruct (go_has_been_sent (gm_nxt g));
    destruct (gm_nil g); intros E; inversion E; subst; repeat split.
Qed.

Lemma not_sent_vlt g d : go_sent g = triple d -> vle d (go_v g) -> go_has_been_sent g = false -> vlt d (go_v g).
Proof.
  unfold go_has_been_sent, triple. intros Hs Hl. rewrite Hs. intros Hb.
  destruct Hl as [Hl|[[P1 P2] [Q1 Q2]]]; [left; exact Hl|]. right. split; [split; assumption|]. split; [|exact Q2].
  rewrite P1, P2, !N.eqb_refl in Hb. cbn [andb] in Hb. apply N.eqb_neq in Hb. lia.
Qed.

(** one gossip read, seen from slot [k] *)
Lemma gread_slot s k d c v n nl :
  is_slot k -> GI k s d -> g_output (m_g (ms_m s)) = Some (c, v, n, nl) ->
  let s1 := mk_ms (ms_k s) (mk_mgrs (m_sm (ms_m s)) (g_mark_sent (m_g (ms_m s))) (m_committed (ms_m s))) in
  match g_deliv k (IOGossip c v n nl) with
  | [] => GI k s1 d
  | x :: _ => g_deliv k (IOGossip c v n nl) = [x] /\ vlt d x /\ GI k s1 x
  end.
Proof.
  intros Hk (G1&G2&G3) Ho. destruct (g_output_spec _ _ _ _ _ Ho) as (Ec&Ev&En). subst c v n.
  unfold GI, g_deliv, gslot, g_mark_sent in *. cbn [ms_m ms_k m_g gm_com gm_vot gm_nxt].
  destruct Hk as [->|[->| ->]]; cbn [N.eqb Pos.eqb ViewIDVoting ViewIDCommitting ViewIDNextRound] in *.
  - destruct (go_has_been_sent (gm_vot _)) eqn:Hb; [repeat split; assumption|].
    split; [reflexivity|]. split; [apply not_sent_vlt; assumption|]. cbn. repeat split; [apply vle_refl|exact G3].
  - destruct (go_has_been_sent (gm_com _)) eqn:Hb; [repeat split; assumption|].
    split; [reflexivity|]. split; [apply not_sent_vlt; assumption|]. cbn. repeat split; [apply vle_refl|exact G3].
  - destruct (go_has_been_sent (gm_nxt _)) eqn:Hb; [repeat split; assumption|].
    split; [reflexivity|]. split; [apply not_sent_vlt; assumption|]. cbn. repeat split; [apply vle_refl|exact G3].
Qed.

(** the gossip stream of slot [k] is a strictly increasing chain *)
Lemma gossip_chain k : is_slot k -> forall ops s s' ios d,
  forallb no_restart ops = true -> mrun s ops = Ok (s', ios) ->
  Forall ev_ok (st_ev (ms_k s')) ->
  kinv (views (ms_k s)) -> GI k s d ->
  chain_from vlt d (flat_map (g_deliv k) ios).
Proof.
  intros Hk. induction ops as [|o rest IH]; intros s s' ios d Hall; cbn [mrun].
  - intros E; inversion E; subst. intros _ _ _. exact I.
  - cbn [forallb] in Hall. apply andb_true_iff in Hall as [Ho Hr].
    destruct (mstep s o) as [[[s1 r] io]|] eqn:Hs; [|discriminate].
    destruct (mrun s1 rest) as [[s2 ios2]|] eqn:Hm; [|discriminate].
    intros E; inversion E; subst. intros Hok Hkinv HG. cbn [flat_map].
    destruct (mrun_ext _ _ _ _ Hr Hm) as (n2&E2). rewrite E2 in Hok. apply ok_prefix in Hok as [Hok1 Hok2].
    assert (Hfin : Forall ev_ok (st_ev (ms_k s'))) by (rewrite E2; apply Forall_app; split; assumption).
    destruct o as [[o| |]|h0 r0| | |h0 r0 key0|a]; cbn [no_restart is_restart_x negb] in Ho; try discriminate.
    + (* kernel operation *)
      destruct (mk_step_facts _ _ _ _ _ Hs) as (new&He&H3&Hm1&Hio). subst io. cbn [g_deliv app].
      rewrite He in Hok1. apply ok_prefix in Hok1 as [Hok0 Hoknew].
      destruct (H3 Hoknew Hkinv) as (K1&_).
      apply (IH s1 s' ios2 d Hr Hm Hfin K1).
      destruct HG as (G1&G2&G3). unfold GI. rewrite Hm1, (fold_mgr_gslot k Hk). cbn [go_v go_sent].
      destruct (tracker_step _ _ _ k _ Hk Hoknew Hkinv H3 G3) as [A B].
      split; [exact G1|]. split; [eapply vle_trans; eassumption|exact B].
    + (* round entrance: the gossip manager and the kernel are untouched *)
      assert (Hsame : ms_k s1 = ms_k s /\ m_g (ms_m s1) = m_g (ms_m s) /\ g_deliv k io = []).
      { revert Hs. cbn [mstep]. unfold bind. destruct (find_view _ _ _) as [[vid st]|]; [|discriminate].
        destruct (st =? ViewFound); [intros E1; inversion E1; repeat split|].
        destruct (st =? ViewBeforeCommitting); [|discriminate].
        destruct (hdr_get _ _) as [[x cp]|]; [intros E1; inversion E1; repeat split|discriminate]. }
      destruct Hsame as (S1&S2&S3). rewrite S3. cbn [app].
      apply (IH s1 s' ios2 d Hr Hm Hfin); [rewrite S1; exact Hkinv|]. unfold GI in *. rewrite S1, S2. exact HG.
    + assert (Hsame : ms_k s1 = ms_k s /\ m_g (ms_m s1) = m_g (ms_m s) /\ g_deliv k io = []).
      { revert Hs. cbn [mstep]. destruct (sm_output _) as [[[vv jv] sv]|]; intros E1; inversion E1; repeat split. }
      destruct Hsame as (S1&S2&S3). rewrite S3. cbn [app].
      apply (IH s1 s' ios2 d Hr Hm Hfin); [rewrite S1; exact Hkinv|]. unfold GI in *. rewrite S1, S2. exact HG.
    + (* gossip read *)
      revert Hs. cbn [mstep]. destruct (g_output _) as [[[[c v] n] nl]|] eqn:Hgo.
      * intros E1; inversion E1; subst. pose proof (gread_slot s k d c v n nl Hk HG Hgo) as Hrd. cbv zeta in Hrd.
        destruct (g_deliv k (IOGossip c v n nl)) as [|x l].
        -- cbn [app]. apply (IH _ s' ios2 d Hr Hm Hfin); [exact Hkinv|exact Hrd].
        -- destruct Hrd as (El&Hlt&HG1). inversion El; subst l. cbn [app chain_from]. split; [exact Hlt|].
           apply (IH _ s' ios2 x Hr Hm Hfin); [exact Hkinv|exact HG1].
      * intros E1; inversion E1; subst. cbn [g_deliv app]. apply (IH _ s' ios2 d Hr Hm Hfin); assumption.
    + (* round entrance with a key: the gossip manager and the kernel are untouched *)
      assert (Hsame : ms_k s1 = ms_k s /\ m_g (ms_m s1) = m_g (ms_m s) /\ g_deliv k io = []).
      { revert Hs. cbn [mstep]. unfold bind. destruct (find_view _ _ _) as [[vid st]|]; [|discriminate].
        destruct (st =? ViewFound); [intros E1; inversion E1; repeat split|].
        destruct (st =? ViewBeforeCommitting); [|discriminate].
        destruct (hdr_get _ _) as [[x cp]|]; [intros E1; inversion E1; repeat split|discriminate]. }
      destruct Hsame as (S1&S2&S3). rewrite S3. cbn [app].
      apply (IH s1 s' ios2 d Hr Hm Hfin); [rewrite S1; exact Hkinv|]. unfold GI in *. rewrite S1, S2. exact HG.
    + (* local action: a kernel transition *)
      destruct (mact_step_facts _ _ _ _ _ Hs) as (new&He&H3&Hm1&Hio). subst io. cbn [g_deliv app].
      rewrite He in Hok1. apply ok_prefix in Hok1 as [Hok0 Hoknew].
      destruct (H3 Hoknew Hkinv) as (K1&_).
      apply (IH s1 s' ios2 d Hr Hm Hfin K1).
      destruct HG as (G1&G2&G3). unfold GI. rewrite Hm1, (fold_mgr_gslot k Hk). cbn [go_v go_sent].
      destruct (tracker_step _ _ _ k _ Hk Hoknew Hkinv H3 G3) as [A B].
      split; [exact G1|]. split; [eapply vle_trans; eassumption|exact B].
Qed.

Lemma chain_from_weaken (R : view -> view -> Prop) (Rt : forall a b c, R a b -> R b c -> R a c) l :
  forall d x, R d x -> chain_from R x l -> chain_from R d l.
Proof. destruct l as [|y l]; intros d x Hdx; cbn [chain_from]; [auto|]. intros [A B]. split; [eapply Rt; eassumption|exact B]. Qed.

Lemma chain_from_pairs (R : view -> view -> Prop) (Rt : forall a b c, R a b -> R b c -> R a c) l :
  forall d, chain_from R d l ->
  (forall x, In x l -> R d x) /\
  (forall l1 a l2 b l3, l = l1 ++ a :: l2 ++ b :: l3 -> R a b).
Proof.
  induction l as [|y l IH]; intros d; cbn [chain_from].
  - intros _. split; [intros x []|]. intros l1 a l2 b l3 E. destruct l1; discriminate.
  - intros [A B]. destruct (IH y B) as [I1 I2]. split.
    + intros x [E|Hin]; [subst; exact A|eapply Rt; [exact A|apply I1; exact Hin]].
    + intros l1 a l2 b l3 E. destruct l1 as [|z l1]; cbn [app] in E; inversion E; subst.
      * apply I1. apply in_or_app. right. left. reflexivity.
      * eapply I2. reflexivity.
Qed.

(** ** The initial state *)
Lemma kinv_init ih ivs : 1 <= ih -> ih < two64 -> kinv (views (init_state ih ivs)).
Proof. intros H1 H2. unfold kinv, views, init_state, two32. cbn. repeat split; lia. Qed.

Lemma ms_init_k ih ivs : ms_k (ms_init ih ivs) = init_state ih ivs.
Proof. reflexivity. Qed.

Lemma GI_init ih ivs k : 1 <= ih -> is_slot k -> GI k (ms_init ih ivs) zero_view.
Proof.
  intros Hi Hk. unfold GI, ms_init. cbn [ms_m ms_k]. rewrite (fold_mgr_gslot k Hk).
  cbn [go_v go_sent].
  destruct Hk as [->|[->| ->]]; cbn; (split; [reflexivity|]); split; try apply vle_refl.
  - left. left. cbn. lia.
  - left. left. cbn. lia.
Qed.

Definition nth_deliveries (k : N) (ios : list mio) : list view := flat_map (g_deliv k) ios.

Theorem gossip_stream_sorted ih ivs ops s' ios k :
  1 <= ih -> ih < two64 -> is_slot k ->
  forallb no_restart ops = true -> mrun (ms_init ih ivs) ops = Ok (s', ios) ->
  Forall ev_ok (st_ev (ms_k s')) ->
  forall l1 a l2 b l3, nth_deliveries k ios = l1 ++ a :: l2 ++ b :: l3 -> vlt a b.
Proof.
  intros H1 H2 Hk Hall Hrun Hok.
  pose proof (gossip_chain k Hk ops _ _ _ zero_view Hall Hrun Hok (kinv_init ih ivs H1 H2) (GI_init ih ivs k H1 Hk)) as Hc.
  apply (chain_from_pairs vlt vlt_trans _ _ Hc).
Qed.

Theorem gossip_versions_strictly_increase ih ivs ops s' ios k :
  1 <= ih -> ih < two64 -> is_slot k ->
  forallb no_restart ops = true -> mrun (ms_init ih ivs) ops = Ok (s', ios) ->
  Forall ev_ok (st_ev (ms_k s')) ->
  forall l1 a l2 b l3, nth_deliveries k ios = l1 ++ a :: l2 ++ b :: l3 ->
  v_h a = v_h b -> v_r a = v_r b -> v_ver a < v_ver b.
Proof.
  intros H1 H2 Hk Hall Hrun Hok l1 a l2 b l3 E Hh Hr.
  destruct (gossip_stream_sorted ih ivs ops s' ios k H1 H2 Hk Hall Hrun Hok _ _ _ _ _ E) as [[X|[_ X]]|[_ [X _]]];
    [lia|lia|exact X].
Qed.

Theorem gossip_views_grow ih ivs ops s' ios k :
  1 <= ih -> ih < two64 -> is_slot k ->
  forallb no_restart ops = true -> mrun (ms_init ih ivs) ops = Ok (s', ios) ->
  Forall ev_ok (st_ev (ms_k s')) ->
  forall l1 a l2 b l3, nth_deliveries k ios = l1 ++ a :: l2 ++ b :: l3 ->
  v_h a = v_h b -> v_r a = v_r b -> view_le a b.
Proof.
  intros H1 H2 Hk Hall Hrun Hok l1 a l2 b l3 E Hh Hr.
  destruct (gossip_stream_sorted ih ivs ops s' ios k H1 H2 Hk Hall Hrun Hok _ _ _ _ _ E) as [[X|[_ X]]|[_ [_ X]]];
    [lia|lia|exact X].
Qed.

(** the (height, round) of a slot's deliveries never goes back *)
Theorem gossip_rounds_never_go_back ih ivs ops s' ios k :
  1 <= ih -> ih < two64 -> is_slot k ->
  forallb no_restart ops = true -> mrun (ms_init ih ivs) ops = Ok (s', ios) ->
  Forall ev_ok (st_ev (ms_k s')) ->
  forall l1 a l2 b l3, nth_deliveries k ios = l1 ++ a :: l2 ++ b :: l3 ->
  v_h a < v_h b \/ (v_h a = v_h b /\ v_r a <= v_r b).
Proof.
  intros H1 H2 Hk Hall Hrun Hok l1 a l2 b l3 E.
  destruct (gossip_stream_sorted ih ivs ops s' ios k H1 H2 Hk Hall Hrun Hok _ _ _ _ _ E) as [[X|[X Y]]|[[X Y] _]];
    [left; exact X|right; split; [exact X|lia]|right; split; [exact X|lia]].
Qed.

(** * The state-machine stream *)
Lemma mgr_step_sm_src m e :
  (smm_out (m_sm (mgr_step m e)) = smm_out (m_sm m) \/
   exists vid, e = EvMark vid (smm_out (m_sm (mgr_step m e)))) /\
  (smm_jump (m_sm (mgr_step m e)) = smm_jump (m_sm m) \/
   exists j, smm_jump (m_sm (mgr_step m e)) = Some j /\
     ((e = EvJump j /\ smm_h (m_sm m) = v_h j /\ smm_r (m_sm m) = sub32 (v_r j) 1) \/
      (exists vid, e = EvMark vid j /\
                   (smm_h (m_sm m) < v_h j \/ (smm_h (m_sm m) = v_h j /\ smm_r (m_sm m) < v_r j))))).
Proof.
  destruct m as [sm g cm]. destruct e as [vid v|v|v|h]; cbn [mgr_step m_sm].
  - destruct (vid =? ViewIDVoting); [|destruct (vid =? ViewIDCommitting)]; cbn [m_sm].
    + destruct (_ && _); cbn; split; try (left; reflexivity). right. exists vid. reflexivity.
    + destruct ((smm_h sm =? v_h v) && (smm_r sm =? v_r v)); cbn.
      * split; [right; exists vid; reflexivity|left; reflexivity].
      * destruct ((smm_h sm <? v_h v) || ((smm_h sm =? v_h v) && (smm_r sm <? v_r v))) eqn:El; cbn.
        -- split; [left; reflexivity|]. right. exists v. split; [reflexivity|]. right. exists vid. split; [reflexivity|].
           apply orb_true_iff in El as [El|El]; [left; apply N.ltb_lt; exact El|].
           apply andb_true_iff in El as [E1 E2]. right. split; [apply N.eqb_eq; exact E1|apply N.ltb_lt; exact E2].
        -- split; left; reflexivity.
    + split; left; reflexivity.
  - split; left; reflexivity.
  - destruct ((smm_h sm =? v_h v) && (smm_r sm =? sub32 (v_r v) 1)) eqn:El; cbn.
    + split; [left; reflexivity|]. right. exists v. split; [reflexivity|]. left.
      apply andb_true_iff in El as [E1 E2]. split; [reflexivity|]. split; [apply N.eqb_eq; exact E1|apply N.eqb_eq; exact E2].
    + split; left; reflexivity.
  - split; left; reflexivity.
Qed.

Lemma fold_mgr_sm_src new : forall m,
  (smm_out (m_sm (fold_left mgr_step new m)) = smm_out (m_sm m) \/
   exists vid, In (EvMark vid (smm_out (m_sm (fold_left mgr_step new m)))) new) /\
  (smm_jump (m_sm (fold_left mgr_step new m)) = smm_jump (m_sm m) \/
   exists j, smm_jump (m_sm (fold_left mgr_step new m)) = Some j /\
     ((In (EvJump j) new /\ smm_h (m_sm m) = v_h j /\ smm_r (m_sm m) = sub32 (v_r j) 1) \/
      (exists vid, In (EvMark vid j) new /\
                   (smm_h (m_sm m) < v_h j \/ (smm_h (m_sm m) = v_h j /\ smm_r (m_sm m) < v_r j))))).
Proof.
  induction new as [|e new IH]; intros m; cbn [fold_left]; [split; left; reflexivity|].
  destruct (IH (mgr_step m e)) as [Io Ij]. destruct (mgr_step_sm_src m e) as [So Sj].
  destruct (mgr_step_sm_fixed m e) as (Fh&Fr&_). rewrite Fh, Fr in Ij.
  split.
  - destruct Io as [Io|(vid&Io)]; [|right; exists vid; right; exact Io].
    destruct So as [So|(vid&So)]; [left; congruence|]. right. exists vid. left. rewrite Io. exact So.
  - destruct Ij as [Ij|(j&Ej&[(I1&I2&I3)|(vid&I1&I2)])].
    + destruct Sj as [Sj|(j&Ej&[(S1&S2&S3)|(vid&S1&S2)])]; [left; congruence| |].
      * right. exists j. split; [congruence|]. left. split; [left; exact S1|split; assumption].
      * right. exists j. split; [congruence|]. right. exists vid. split; [left; exact S1|exact S2].
    + right. exists j. split; [exact Ej|]. left. split; [right; exact I1|split; assumption].
    + right. exists j. split; [exact Ej|]. right. exists vid. split; [right; exact I1|exact I2].
Qed.

Lemma sm_output_src m vv jv sv : sm_output m = Some (vv, jv, sv) ->
  (forall v, vv = Some v -> v = smm_out m) /\ (forall j, jv = Some j -> smm_jump m = Some j).
Proof.
  unfold sm_output. destruct (smm_jump m) as [j0|];
    repeat match goal with |- context [if ?c then _ else _] => destruct c end;
    intros E; inversion E; subst; split; intros x Hx; inversion Hx; subst; reflexivity.
Qed.

Definition later_than (h r : N) (j : view) : Prop := h < v_h j \/ (h = v_h j /\ r < v_r j).

(** [b]: the view the state machine was last given for the entered round (entrance answer or
    delivery); [JD]: the jump-ahead views delivered since the entrance *)
Definition SIc (sm : smm) (t : vs3) (b : view) (JD : list view) : Prop :=
  past (smm_out sm) t /\
  smm_last sm = v_ver b /\ v_h b = smm_h sm /\ v_r b = smm_r sm /\ past b t /\
  (samepos b (smm_out sm) -> vq b (smm_out sm) \/ v_ver (smm_out sm) <= v_ver b) /\
  Forall (fun jd => past jd t) JD /\
  (forall j, smm_jump sm = Some j ->
     past j t /\ later_than (smm_h sm) (smm_r sm) j /\ Forall (fun jd => samepos jd j -> vq jd j) JD).

Definition SI (s : mstate) (b : view) (JD : list view) : Prop := SIc (m_sm (ms_m s)) (views (ms_k s)) b JD.

Lemma sub32_pred x : x <> 0 -> x < two32 -> sub32 x 1 < x.
Proof.
  unfold sub32, two32. intros H0 Hlt.
  replace (x + 4294967296 - 1) with ((x - 1) + 1 * 4294967296) by lia.
  rewrite N.mod_add by lia. rewrite N.mod_small by lia. lia.
Qed.

Lemma SIc_events m t t' new b JD :
  Forall ev_ok new -> kinv t -> TR3 t t' new ->
  SIc (m_sm m) t b JD -> SIc (m_sm (fold_left mgr_step new m)) t' b JD.
Proof.
  intros Hok Hk H3 (I1&I2&I3&I4&I5&I6&I7&I8).
  destruct (H3 Hok Hk) as (K'&S&P&M&Nn&O). rewrite Forall_forall in M, Nn, Hok.
  destruct (fold_mgr_step_sm_fixed new m) as (Fh&Fr&Fl). destruct (fold_mgr_sm_src new m) as (Fo&Fj).
  unfold SIc. rewrite Fh, Fr, Fl.
  split; [destruct Fo as [E|(vid&Hin)]; [rewrite E; apply P, I1|exact (proj2 (Nn _ Hin))]|].
  split; [exact I2|]. split; [exact I3|]. split; [exact I4|]. split; [apply P, I5|].
  split; [destruct Fo as [E|(vid&Hin)]; [rewrite E; exact I6|]|].
  { intros Hs. left. apply vqs_vq. apply (proj2 (M _ Hin)); assumption. }
  split; [eapply Forall_impl; [|exact I7]; intros jd; apply P|].
  intros j Hj. destruct Fj as [E|(j0&Ej&Hsrc)].
  - rewrite E in Hj. destruct (I8 j Hj) as (A&B&C). split; [apply P, A|split; assumption].
  - rewrite Ej in Hj. inversion Hj; subst j0. destruct Hsrc as [(Hin&Hh&Hr)|(vid&Hin&Hlater)].
    + pose proof (Nn _ Hin) as [Np Nr]. pose proof (Hok _ Hin) as H0. cbn [ev_ok] in H0.
      split; [exact Np|]. split; [right; split; [exact Hh|rewrite Hr; apply sub32_pred; assumption]|].
      eapply Forall_impl; [|exact I7]. intros jd Hjd Hs. apply (M _ Hin); assumption.
    + pose proof (Nn _ Hin) as [_ Np].
      split; [exact Np|]. split; [exact Hlater|].
      eapply Forall_impl; [|exact I7]. intros jd Hjd Hs. apply vqs_vq. apply (proj2 (M _ Hin)); assumption.
Qed.

Definition sm_vrv (io : mio) : list view := match io with IOSM (Some v) _ => [v] | _ => [] end.
Definition sm_jmp (io : mio) : list view := match io with IOSM _ (Some j) => [j] | _ => [] end.

Fixpoint jumps_ok (JD : list view) (l : list view) : Prop :=
  match l with
  | [] => True
  | j :: t => Forall (fun jd => samepos jd j -> vq jd j) JD /\ jumps_ok (j :: JD) t
  end.

(** one state-machine read that delivered something *)
Lemma smread_SI sm t b JD vv jv sv :
  SIc sm t b JD -> sm_output sm = Some (vv, jv, sv) ->
  let JD' := match jv with Some j => j :: JD | None => JD end in
  (forall j, jv = Some j -> later_than (smm_h sm) (smm_r sm) j /\ Forall (fun jd => samepos jd j -> vq jd j) JD) /\
  match vv with
  | Some v => vqs b v /\ SIc (sm_mark_sent sm sv) t v JD'
  | None => SIc (sm_mark_sent sm sv) t b JD'
  end.
Proof.
  intros (I1&I2&I3&I4&I5&I6&I7&I8) Ho.
  destruct (sm_output_spec _ _ _ _ Ho) as [Sv Sn]. destruct (sm_output_src _ _ _ _ Ho) as [Ov Oj].
  assert (HJ : forall j, jv = Some j -> past j t /\ later_than (smm_h sm) (smm_r sm) j /\ Forall (fun jd => samepos jd j -> vq jd j) JD)
    by (intros j Ej; apply I8, Oj, Ej).
  assert (HJD : Forall (fun jd => past jd t) (match jv with Some j => j :: JD | None => JD end)).
  { destruct jv as [j|]; [|exact I7]. constructor; [apply (HJ j eq_refl)|exact I7]. }
  split; [intros j Ej; destruct (HJ j Ej) as (_&A&B); split; assumption|].
  destruct vv as [v|].
  - destruct (Sv v eq_refl) as (Vh&Vr&Vlt&Vsv). pose proof (Ov v eq_refl) as Vo. subst v.
    assert (Hs : samepos b (smm_out sm)) by (split; congruence).
    assert (Q : vqs b (smm_out sm)).
    { destruct (I6 Hs) as [[_ Q]|Q]; [split; [lia|exact Q]|lia]. }
    split; [exact Q|]. unfold SIc, sm_mark_sent. cbn [smm_out smm_last smm_h smm_r smm_jump].
    split; [exact I1|]. split; [exact Vsv|]. split; [exact Vh|]. split; [exact Vr|]. split; [exact I1|].
    split; [intros _; left; apply vq_refl|]. split; [exact HJD|]. intros j Ej; discriminate.
  - unfold SIc, sm_mark_sent. cbn [smm_out smm_last smm_h smm_r smm_jump].
    split; [exact I1|]. split; [rewrite (Sn eq_refl); exact I2|]. split; [exact I3|]. split; [exact I4|]. split; [exact I5|].
    split; [exact I6|]. split; [exact HJD|]. intros j Ej; discriminate.
Qed.

Lemma epoch_no_restart ops : forallb epoch_op ops = true -> forallb no_restart ops = true.
Proof.
  induction ops as [|o ops IH]; cbn [forallb]; [reflexivity|]. intros H. apply andb_true_iff in H as [A B].
  rewrite (IH B), andb_true_r. destruct o; try reflexivity. exact A.
Qed.

Lemma sm_chain : forall ops s s' ios b JD,
  forallb epoch_op ops = true -> mrun s ops = Ok (s', ios) ->
  Forall ev_ok (st_ev (ms_k s')) ->
  kinv (views (ms_k s)) -> SI s b JD ->
  chain_from vqs b (flat_map sm_vrv ios) /\
  Forall (later_than (smm_h (sm_of s)) (smm_r (sm_of s))) (flat_map sm_jmp ios) /\
  jumps_ok JD (flat_map sm_jmp ios).
Proof.
  induction ops as [|o rest IH]; intros s s' ios b JD Hall; cbn [mrun].
  - intros E; inversion E; subst. intros _ _ _. cbn. repeat split. constructor.
  - cbn [forallb] in Hall. apply andb_true_iff in Hall as [Ho Hr].
    destruct (mstep s o) as [[[s1 r] io]|] eqn:Hs; [|discriminate].
    destruct (mrun s1 rest) as [[s2 ios2]|] eqn:Hm; [|discriminate].
    intros E; inversion E; subst. intros Hok Hkinv HS. cbn [flat_map].
    destruct (mrun_ext _ _ _ _ (epoch_no_restart _ Hr) Hm) as (n2&E2). rewrite E2 in Hok. apply ok_prefix in Hok as [Hok1 Hok2].
    assert (Hfin : Forall ev_ok (st_ev (ms_k s'))) by (rewrite E2; apply Forall_app; split; assumption).
    destruct o as [[o| |]|h0 r0| | |h0 r0 key0|a]; cbn [epoch_op is_restart_x negb] in Ho; try discriminate.
    + destruct (mk_step_facts _ _ _ _ _ Hs) as (new&He&H3&Hm1&Hio). subst io. cbn [sm_vrv sm_jmp app].
      rewrite He in Hok1. apply ok_prefix in Hok1 as [Hok0 Hoknew].
      destruct (H3 Hoknew Hkinv) as (K1&_).
      assert (HS1 : SI s1 b JD) by (unfold SI; rewrite Hm1; exact (SIc_events (ms_m s) _ _ new b JD Hoknew Hkinv H3 HS)).
      destruct (fold_mgr_step_sm_fixed new (ms_m s)) as (Fh&Fr&_).
      replace (smm_h (sm_of s)) with (smm_h (sm_of s1)) by (unfold sm_of; rewrite Hm1; exact Fh).
      replace (smm_r (sm_of s)) with (smm_r (sm_of s1)) by (unfold sm_of; rewrite Hm1; exact Fr).
      apply (IH s1 s' ios2 b JD Hr Hm Hfin K1 HS1).
    + revert Hs. cbn [mstep]. destruct (sm_output _) as [[[vv jv] sv]|] eqn:Hso.
      * intros E1; inversion E1; subst.
        destruct (smread_SI _ _ _ _ _ _ _ HS Hso) as [HJ HV]. cbv zeta in HV.
        match goal with Hm' : mrun ?S1 rest = _ |- _ => set (s1 := S1) in * end.
        assert (Eh : smm_h (sm_of s1) = smm_h (sm_of s) /\ smm_r (sm_of s1) = smm_r (sm_of s)) by (split; reflexivity).
        destruct Eh as [Eh Er].
        destruct vv as [v|]; [destruct HV as [Q HS1]|]; cbn [sm_vrv app chain_from].
        -- destruct (IH s1 s' ios2 v _ Hr Hm Hfin Hkinv HS1) as (C1&C2&C3). rewrite Eh, Er in C2.
           split; [split; [exact Q|exact C1]|].
           destruct jv as [j|]; cbn [sm_jmp app jumps_ok].
           ++ destruct (HJ j eq_refl) as [J1 J2]. split; [constructor; assumption|split; assumption].
           ++ split; assumption.
        -- destruct (IH s1 s' ios2 b _ Hr Hm Hfin Hkinv HV) as (C1&C2&C3). rewrite Eh, Er in C2.
           split; [exact C1|].
           destruct jv as [j|]; cbn [sm_jmp app jumps_ok].
           ++ destruct (HJ j eq_refl) as [J1 J2]. split; [constructor; assumption|split; assumption].
           ++ split; assumption.
      * intros E1; inversion E1; subst. cbn [sm_vrv sm_jmp app]. apply (IH _ s' ios2 b JD Hr Hm Hfin Hkinv HS).
    + revert Hs. cbn [mstep]. destruct (g_output _) as [[[[c v] n] nl]|].
      * intros E1; inversion E1; subst. cbn [sm_vrv sm_jmp app]. apply (IH _ s' ios2 b JD Hr Hm Hfin Hkinv HS).
      * intros E1; inversion E1; subst. cbn [sm_vrv sm_jmp app]. apply (IH _ s' ios2 b JD Hr Hm Hfin Hkinv HS).
    + destruct (mact_step_facts _ _ _ _ _ Hs) as (new&He&H3&Hm1&Hio). subst io. cbn [sm_vrv sm_jmp app].
      rewrite He in Hok1. apply ok_prefix in Hok1 as [Hok0 Hoknew].
      destruct (H3 Hoknew Hkinv) as (K1&_).
      assert (HS1 : SI s1 b JD) by (unfold SI; rewrite Hm1; exact (SIc_events (ms_m s) _ _ new b JD Hoknew Hkinv H3 HS)).
      destruct (fold_mgr_step_sm_fixed new (ms_m s)) as (Fh&Fr&_).
      replace (smm_h (sm_of s)) with (smm_h (sm_of s1)) by (unfold sm_of; rewrite Hm1; exact Fh).
      replace (smm_r (sm_of s)) with (smm_r (sm_of s1)) by (unfold sm_of; rewrite Hm1; exact Fr).
      apply (IH s1 s' ios2 b JD Hr Hm Hfin K1 HS1).
Qed.

(** ** Reaching an entrance *)
Lemma past_get3 t vid : kinv t -> past (get3 t vid) t.
Proof.
  destruct t as [[c v] n]. intros (K1&K2&K3&K4&K5&K6&K7&K8). unfold get3, past.
  destruct (vid =? ViewIDVoting); [|destruct (vid =? ViewIDCommitting)].
  - split; [left; unfold pos_lt; lia|]. split; [intros [X _]; exfalso; lia|]. split; [intros _; apply vq_refl|intros [_ X]; exfalso; lia].
  - split; [left; unfold pos_lt; lia|]. split; [intros _; apply vq_refl|]. split; [intros [X _]; exfalso; lia|intros [X _]; exfalso; lia].
  - split; [right; split; reflexivity|]. split; [intros [X _]; exfalso; lia|]. split; [intros [_ X]; exfalso; lia|intros _; apply vq_refl].
Qed.

Lemma past_below_get3 a t vid : past a t -> samepos a (get3 t vid) -> vq a (get3 t vid).
Proof.
  destruct t as [[c v] n]. intros (A1&A2&A3&A4). unfold get3.
  destruct (vid =? ViewIDVoting); [exact A3|destruct (vid =? ViewIDCommitting); [exact A2|exact A4]].
Qed.

(** what holds at every state of a history: position facts of the kernel and that the view kept
    for the state machine is a view of the past *)
Definition SG (s : mstate) : Prop := kinv (views (ms_k s)) /\ past (smm_out (sm_of s)) (views (ms_k s)).

Lemma sg_run : forall ops s s' ios,
  forallb no_restart ops = true -> mrun s ops = Ok (s', ios) ->
  Forall ev_ok (st_ev (ms_k s')) -> SG s -> SG s'.
Proof.
  induction ops as [|o rest IH]; intros s s' ios Hall; cbn [mrun].
  - intros E; inversion E; subst. auto.
  - cbn [forallb] in Hall. apply andb_true_iff in Hall as [Ho Hr].
    destruct (mstep s o) as [[[s1 r] io]|] eqn:Hs; [|discriminate].
    destruct (mrun s1 rest) as [[s2 ios2]|] eqn:Hm; [|discriminate].
    intros E; inversion E; subst. intros Hok [Hkinv Hout].
    destruct (mrun_ext _ _ _ _ Hr Hm) as (n2&E2). pose proof Hok as Hfin. rewrite E2 in Hok. apply ok_prefix in Hok as [Hok1 Hok2].
    apply (IH s1 s' ios2 Hr Hm Hfin).
    destruct o as [[o| |]|h0 r0| | |h0 r0 key0|a]; cbn [no_restart is_restart_x negb] in Ho; try discriminate.
    + destruct (mk_step_facts _ _ _ _ _ Hs) as (new&He&H3&Hm1&Hio).
      rewrite He in Hok1. apply ok_prefix in Hok1 as [Hok0 Hoknew].
      destruct (H3 Hoknew Hkinv) as (K1&S&P&M&Nn&O). rewrite Forall_forall in Nn.
      split; [exact K1|]. unfold sm_of. rewrite Hm1.
      destruct (fold_mgr_sm_src new (ms_m s)) as [[E1|(vid&Hin)] _]; [rewrite E1; apply P, Hout|exact (proj2 (Nn _ Hin))].
    + revert Hs. cbn [mstep]. unfold bind. destruct (find_view _ _ _) as [[vid st]|]; [|discriminate].
      destruct (st =? ViewFound); [intros E1; inversion E1; subst; split; assumption|].
      destruct (st =? ViewBeforeCommitting); [|discriminate].
      destruct (hdr_get _ _) as [[x cp]|]; [intros E1; inversion E1; subst; split; assumption|discriminate].
    + revert Hs. cbn [mstep]. destruct (sm_output _) as [[[vv jv] sv]|]; intros E1; inversion E1; subst; split; assumption.
    + revert Hs. cbn [mstep]. destruct (g_output _) as [[[[c v] n] nl]|]; intros E1; inversion E1; subst; split; assumption.
    + revert Hs. cbn [mstep]. unfold bind. destruct (find_view _ _ _) as [[vid st]|]; [|discriminate].
      destruct (st =? ViewFound); [intros E1; inversion E1; subst; split; assumption|].
      destruct (st =? ViewBeforeCommitting); [|discriminate].
      destruct (hdr_get _ _) as [[x cp]|]; [intros E1; inversion E1; subst; split; assumption|discriminate].
    + destruct (mact_step_facts _ _ _ _ _ Hs) as (new&He&H3&Hm1&Hio).
      rewrite He in Hok1. apply ok_prefix in Hok1 as [Hok0 Hoknew].
      destruct (H3 Hoknew Hkinv) as (K1&S&P&M&Nn&O). rewrite Forall_forall in Nn.
      split; [exact K1|]. unfold sm_of. rewrite Hm1.
      destruct (fold_mgr_sm_src new (ms_m s)) as [[E1|(vid&Hin)] _]; [rewrite E1; apply P, Hout|exact (proj2 (Nn _ Hin))].
Qed.

Lemma SG_init ih ivs : 1 <= ih -> ih < two64 -> SG (ms_init ih ivs).
Proof.
  intros H1 H2. pose proof (kinv_init ih ivs H1 H2) as Hk. split; [exact Hk|].
  pose proof (fold_mgr_sm_src (st_ev (init_state ih ivs)) mgrs0) as [Fo _].
  assert (G : forall o, (o = smm_out (m_sm mgrs0) \/ exists vid, In (EvMark vid o) (st_ev (init_state ih ivs))) ->
                        past o (views (init_state ih ivs))).
  { intros o [E|(vid&Hin)].
    - subst o. unfold past, views, init_state, pos_lt, samepos. cbn.
      split; [left; left; lia|]. split; [intros _; apply vq_refl|]. split; intros [X _]; exfalso; lia.
    - cbn [init_state st_ev] in Hin. destruct Hin as [Hin|[Hin|[]]]; inversion Hin as [[Ev Eo]].
      + exact (past_get3 _ ViewIDVoting Hk).
      + exact (past_get3 _ ViewIDNextRound Hk). }
  apply G. exact Fo.
Qed.

Lemma enter_SI s h r s1 c v0 :
  SG s -> mstep s (MEnter h r) = Ok (s1, c, IOEnterView v0) ->
  ms_k s1 = ms_k s /\ smm_h (sm_of s1) = h /\ smm_r (sm_of s1) = r /\ v_h v0 = h /\ v_r v0 = r /\ SI s1 v0 [].
Proof.
  intros [Hk Hout]. unfold sm_of in Hout. cbn [mstep]. unfold bind. destruct (find_view _ _ _) as [[vid st]|] eqn:Hfv; [|discriminate].
  destruct (st =? ViewFound) eqn:Hst.
  - intros E; inversion E; subst. apply N.eqb_eq in Hst.
    assert (Hpos : v_h (get_view (ms_k s) vid) = h /\ v_r (get_view (ms_k s) vid) = r).
    { pose proof Hk as Hk'. unfold views in Hk'. destruct Hk' as (K1&K2&K3&K4&K5&K6&K7&K8).
      destruct (MirrorChain.find_view_found _ _ _ _ _ Hfv Hst) as [(A&B&C)|[(A&B&C)|(A&B&C&D)]]; cbn in B, C; subst vid.
      - unfold get_view. cbn. split; congruence.
      - unfold get_view. cbn. split; [congruence|]. rewrite C. unfold wrap32. rewrite K2. symmetry. apply N.mod_small. lia.
      - unfold get_view. cbn. split; congruence. }
    destruct Hpos as [Ph Pr]. cbn [ms_k]. unfold sm_of. cbn [ms_m m_sm smm_h smm_r].
    split; [reflexivity|]. split; [reflexivity|]. split; [reflexivity|]. split; [exact Ph|]. split; [exact Pr|].
    unfold SI, SIc. cbn [ms_m m_sm ms_k smm_out smm_last smm_h smm_r smm_jump].
    rewrite get_view_get3 in *.
    split; [exact Hout|]. split; [reflexivity|]. split; [exact Ph|]. split; [exact Pr|].
    split; [apply past_get3; exact Hk|].
    split; [|split; [constructor|intros j Ej; discriminate]].
    intros [S1 S2]. right. apply (past_below_get3 _ _ vid Hout). split; [symmetry; exact S1|symmetry; exact S2].
  - destruct (st =? ViewBeforeCommitting); [|discriminate].
    destruct (hdr_get _ _) as [[x cp]|]; [intros E; inversion E|discriminate].
Qed.

Theorem sm_stream_grows ih ivs ops0 s0 ios0 h r s1 c v0 ops s2 ios :
  1 <= ih -> ih < two64 ->
  forallb no_restart ops0 = true -> mrun (ms_init ih ivs) ops0 = Ok (s0, ios0) ->
  mstep s0 (MEnter h r) = Ok (s1, c, IOEnterView v0) ->
  forallb epoch_op ops = true -> mrun s1 ops = Ok (s2, ios) ->
  Forall ev_ok (st_ev (ms_k s2)) ->
  v_h v0 = h /\ v_r v0 = r /\
  chain_from vqs v0 (flat_map sm_vrv ios) /\
  Forall (later_than h r) (flat_map sm_jmp ios) /\
  jumps_ok [] (flat_map sm_jmp ios).
Proof.
  intros H1 H2 Hall0 Hrun0 Hent Hall Hrun Hok.
  destruct (mrun_ext _ _ _ _ (epoch_no_restart _ Hall) Hrun) as (n2&E2).
  assert (Hok0 : Forall ev_ok (st_ev (ms_k s0))).
  { destruct (mstep_ext s0 (MEnter h r) s1 c _ eq_refl Hent) as (n1&E1).
    rewrite E2, E1 in Hok. apply ok_prefix in Hok as [Hok _]. apply ok_prefix in Hok as [Hok _]. exact Hok. }
  pose proof (sg_run _ _ _ _ Hall0 Hrun0 Hok0 (SG_init ih ivs H1 H2)) as HSG.
  destruct (enter_SI _ _ _ _ _ _ HSG Hent) as (Ek&Eh&Er&Vh&Vr&HSI).
  assert (Hk1 : kinv (views (ms_k s1))) by (rewrite Ek; apply HSG).
  destruct (sm_chain ops s1 s2 ios v0 [] Hall Hrun Hok Hk1 HSI) as (C1&C2&C3).
  rewrite Eh, Er in C2. repeat split; assumption.
Qed.

(** ** Readable corollaries *)
Theorem kernel_slots_monotone s o s' res :
  step s o = Ok (s', res) ->
  exists new, st_ev s' = st_ev s ++ new /\
    (Forall ev_ok new -> kinv (views s) ->
     kinv (views s') /\ forall vid, vle (get_view s vid) (get_view s' vid)).
Proof.
  intros Hs. destruct (TR_step _ _ _ _ Hs) as (new&He&H3). exists new. split; [exact He|].
  intros Hok Hk. destruct (H3 Hok Hk) as (K1&S&_). split; [exact K1|].
  intros vid. rewrite !get_view_get3. apply S. apply vle_refl.
Qed.

Theorem sm_stream_pairs ih ivs ops0 s0 ios0 h r s1 c v0 ops s2 ios :
  1 <= ih -> ih < two64 ->
  forallb no_restart ops0 = true -> mrun (ms_init ih ivs) ops0 = Ok (s0, ios0) ->
  mstep s0 (MEnter h r) = Ok (s1, c, IOEnterView v0) ->
  forallb epoch_op ops = true -> mrun s1 ops = Ok (s2, ios) ->
  Forall ev_ok (st_ev (ms_k s2)) ->
  (forall v, In v (flat_map sm_vrv ios) -> v_ver v0 < v_ver v /\ view_le v0 v) /\
  (forall l1 a l2 b l3, flat_map sm_vrv ios = l1 ++ a :: l2 ++ b :: l3 -> v_ver a < v_ver b /\ view_le a b).
Proof.
  intros H1 H2 Hall0 Hrun0 Hent Hall Hrun Hok.
  destruct (sm_stream_grows ih ivs ops0 s0 ios0 h r s1 c v0 ops s2 ios H1 H2 Hall0 Hrun0 Hent Hall Hrun Hok) as (_&_&C&_).
  assert (T : forall a b c0, vqs a b -> vqs b c0 -> vqs a c0).
  { intros a b c0 Hab Hbc. eapply vq_vqs_trans; [apply vqs_vq; exact Hab|exact Hbc]. }
  destruct (chain_from_pairs vqs T _ _ C) as [A B]. split; [intros v Hv; apply A, Hv|exact B].
Qed.

Lemma jumps_ok_pairs l : forall JD, jumps_ok JD l ->
  (forall jd b, In jd JD -> In b l -> samepos jd b -> vq jd b) /\
  (forall l1 a l2 b l3, l = l1 ++ a :: l2 ++ b :: l3 -> samepos a b -> vq a b).
Proof.
  induction l as [|j l IH]; intros JD; cbn [jumps_ok].
  - intros _. split; [intros jd b _ []|]. intros l1 a l2 b l3 E. destruct l1; discriminate.
  - intros [A B]. destruct (IH _ B) as [I1 I2]. rewrite Forall_forall in A. split.
    + intros jd b Hjd [E|Hb]; [subst b; apply A; exact Hjd|apply I1; [right; exact Hjd|exact Hb]].
    + intros l1 a l2 b l3 E. destruct l1 as [|z l1]; cbn [app] in E; inversion E; subst.
      * apply I1; [left; reflexivity|apply in_or_app; right; left; reflexivity].
      * eapply I2. reflexivity.
Qed.

(** boolean form of the no-wrap-around hypothesis, for examples and monitors *)
Definition ev_okb (e : mev) : bool :=
  match e with
  | EvMark vid m => negb (v_ver m =? 0) && negb (v_h m =? 0) && (negb (slot vid =? ViewIDNextRound) || negb (v_r m =? 0))
  | EvJump m => negb (v_r m =? 0)
  | _ => true
  end.

Lemma ev_okb_ok e : ev_okb e = true -> ev_ok e.
Proof.
  destruct e as [vid m|m|m|h]; cbn [ev_okb ev_ok]; try (intros; exact I).
  - intros H. apply andb_true_iff in H as [H H3]. apply andb_true_iff in H as [H1 H2].
    apply negb_true_iff in H1, H2. apply N.eqb_neq in H1, H2. split; [exact H1|]. split; [exact H2|].
    intros Hs. apply orb_true_iff in H3 as [H3|H3].
    + apply negb_true_iff, N.eqb_neq in H3. contradiction.
    + apply negb_true_iff, N.eqb_neq in H3. exact H3.
  - intros H. apply negb_true_iff, N.eqb_neq in H. exact H.
Qed.

Lemma forallb_ev_okb l : forallb ev_okb l = true -> Forall ev_ok l.
Proof. intros H. apply Forall_forall. intros e He. apply ev_okb_ok. rewrite forallb_forall in H. apply H, He. Qed.

(** * Currency: the managers' copies are the kernel's views (histories without replayed headers) *)

(** ** A commit-proof backfill that did not increase any signer set changed nothing *)
Lemma nodup_n_snoc_new l n : ~ In n l -> List.length (nodup_n (l ++ [n])) = S (List.length (nodup_n l)).
Proof.
  induction l as [|x l IH]; intros Hn; [reflexivity|].
  assert (Hx : x <> n) by (intros E; apply Hn; left; exact E).
  assert (Hl : ~ In n l) by (intros E; apply Hn; right; exact E).
  cbn [app nodup_n]. rewrite existsb_app. cbn [existsb]. rewrite orb_false_r.
  destruct (N.eqb_spec x n) as [E|_]; [contradiction|]. rewrite orb_false_r.
  destruct (existsb (N.eqb x) l); cbn [List.length]; rewrite (IH Hl); reflexivity.
Qed.

Lemma bit_count_add_new p i s : ~ In i (map fst p) -> bit_count (p ++ [(i, s)]) = S (bit_count p).
Proof. intros H. unfold bit_count, proof_idxs. rewrite map_app. cbn [map fst]. apply nodup_n_snoc_new. exact H. Qed.

Lemma merge_sigs_count kind h r t keys sigs : forall p p' av,
  auth_proof keys kind h r t p -> merge_sigs kind h r t keys p sigs = (p', av) ->
  p' = p \/ (bit_count p < bit_count p')%nat.
Proof.
  induction sigs as [|sg rest IH]; intros p p' av Hp; cbn [merge_sigs].
  - intros E; inversion E; subst. left; reflexivity.
  - assert (Hskip : forall q a, (let '(q', _) := merge_sigs kind h r t keys p rest in (q', false)) = (q, a) ->
                                q = p \/ (bit_count p < bit_count q)%nat).
    { intros q a. destruct (merge_sigs kind h r t keys p rest) as [q' a'] eqn:Hm. intros E; inversion E; subst.
      eapply IH; eassumption. }
    destruct (keyid_decode (ss_kid sg)) as [n|]; [|apply Hskip].
    destruct (nth_n keys n) as [key|] eqn:Hk; [|apply Hskip].
    destruct (verify_vote key kind h r t (ss_sig sg)) eqn:Hv; [|apply Hskip].
    apply verify_vote_spec in Hv. rewrite Hv. intros Hm.
    pose proof (add_sig_auth keys kind h r t p n key Hp Hk) as Hp1.
    destruct (IH _ _ _ Hp1 Hm) as [E|Hlt].
    + unfold add_sig in *. destruct (has_sig p (SVote key kind h r t)) eqn:Hhas; [left; exact E|].
      right. subst p'. rewrite bit_count_add_new; [lia|].
      intros Hin. apply in_map_iff in Hin as ([n0 s0]&En&Hin). cbn [fst] in En. subst n0.
      destruct (Hp n s0 Hin) as (key0&Hk0&Es0). rewrite Hk in Hk0. inversion Hk0; subst key0.
      unfold has_sig in Hhas. assert (X : existsb (fun e => sigd_eqb (snd e) (SVote key kind h r t)) p = true).
      { apply existsb_exists. exists (n, s0). split; [exact Hin|]. cbn [snd]. rewrite Es0. apply sigd_eqb_refl. }
      rewrite X in Hhas. discriminate.
    + unfold add_sig in *. destruct (has_sig p (SVote key kind h r t)) eqn:Hhas; [right; exact Hlt|].
      right. assert (Hn : ~ In n (map fst p)).
      { intros Hin. apply in_map_iff in Hin as ([n0 s0]&En&Hin). cbn [fst] in En. subst n0.
        destruct (Hp n s0 Hin) as (key0&Hk0&Es0). rewrite Hk in Hk0. inversion Hk0; subst key0.
        unfold has_sig in Hhas. assert (X : existsb (fun e => sigd_eqb (snd e) (SVote key kind h r t)) p = true).
        { apply existsb_exists. exists (n, s0). split; [exact Hin|]. cbn [snd]. rewrite Es0. apply sigd_eqb_refl. }
        rewrite X in Hhas. discriminate. }
      rewrite (bit_count_add_new p n (SVote key kind h r t) Hn) in Hlt. lia.
Qed.

Lemma pm_set_same {A} (m : list (bytes * A)) k v : pm_get m k = Some v -> pm_set m k v = m.
Proof.
  induction m as [|[k0 v0] m IH]; cbn [pm_get pm_set]; [discriminate|].
  destruct (bytes_eqb k0 k) eqn:E.
  - intros H; inversion H; subst. apply bytes_eqb_eq in E. subst. reflexivity.
  - intros H. rewrite (IH H). reflexivity.
Qed.

Lemma backfill_fold_noinc keys h r entries : forall pc any pc',
  auth_pmap keys KPrecommit h r pc ->
  fold_left (fun acc e =>
      let '(pc, any) := acc in
      match pm_get pc (fst e) with
      | None => (pc, any)
      | Some target =>
          let '(t', _, inc) := merge_sparse KPrecommit h r (fst e) keys target (snd e) in
          (pm_set pc (fst e) t', any || inc)
      end) entries (pc, any) = (pc', false) ->
  pc' = pc.
Proof.
  induction entries as [|e rest IH]; intros pc any pc' Hpc; cbn [fold_left].
  - intros E; inversion E; subst. reflexivity.
  - destruct (pm_get pc (fst e)) as [target|] eqn:Hg; [|apply IH; exact Hpc].
    unfold merge_sparse. destruct (merge_sigs KPrecommit h r (fst e) keys target (snd e)) as [t' av] eqn:Hm.
    pose proof (pm_get_auth _ _ _ _ _ _ _ Hpc Hg) as Ht.
    destruct (merge_sigs_count _ _ _ _ _ _ _ _ _ Ht Hm) as [E|Hlt].
    + subst t'. rewrite (pm_set_same _ _ _ Hg). apply IH. exact Hpc.
    + assert (Hinc : Nat.ltb (bit_count target) (bit_count t') = true) by (apply Nat.ltb_lt; exact Hlt).
      rewrite Hinc, orb_true_r. intros Hf. exfalso.
      assert (G : forall l pc0 pc1 b, fold_left (fun acc e0 =>
                    let '(pc, any) := acc in
                    match pm_get pc (fst e0) with
                    | None => (pc, any)
                    | Some target =>
                        let '(t', _, inc) := merge_sparse KPrecommit h r (fst e0) keys target (snd e0) in
                        (pm_set pc (fst e0) t', any || inc)
                    end) l (pc0, true) = (pc1, b) -> b = true).
      { induction l as [|e0 l IHl]; intros pc0 pc1 b; cbn [fold_left]; [intros E; inversion E; reflexivity|].
        destruct (pm_get pc0 (fst e0)); [|apply IHl].
        destruct (merge_sparse KPrecommit h r (fst e0) keys p (snd e0)) as [[t0 a0] i0]. cbn [orb]. apply IHl. }
      specialize (G _ _ _ _ Hf). discriminate.
Qed.

Lemma with_pc_same v : with_pc v (v_pc v) = v.
Proof. destruct v; reflexivity. Qed.

(** ** The kernel's views are the last marked ones *)
Definition not_mark (e : mev) : Prop := match e with EvMark _ _ => False | _ => True end.

Definition SY3 (t t' : vs3) (new : list mev) : Prop :=
  forall k, is_slot k -> last_mark k new (get3 t k) = get3 t' k.

Definition SY (s s' : kstate) : Prop :=
  exists new, st_ev s' = st_ev s ++ new /\ SY3 (views s) (views s') new.

Lemma last_mark_app k n1 : forall n2 d, last_mark k (n1 ++ n2) d = last_mark k n2 (last_mark k n1 d).
Proof.
  induction n1 as [|e n1 IH]; intros n2 d; [reflexivity|].
  cbn [app]. rewrite (last_mark_cons k e (n1 ++ n2)), (last_mark_cons k e n1). apply IH.
Qed.

Lemma SY_refl s : SY s s.
Proof. exists []. split; [symmetry; apply app_nil_r|]. intros k _. reflexivity. Qed.

Lemma SY_trans a b c : SY a b -> SY b c -> SY a c.
Proof.
  intros (n1&E1&H1) (n2&E2&H2). exists (n1 ++ n2). split; [rewrite E2, E1, app_assoc; reflexivity|].
  intros k Hk. rewrite last_mark_app, (H1 k Hk). apply H2. exact Hk.
Qed.

Lemma SY_frame s s' : views s' = views s -> st_ev s' = st_ev s -> SY s s'.
Proof.
  intros Hv He. exists []. split; [rewrite He; symmetry; apply app_nil_r|]. rewrite Hv. intros k _. reflexivity.
Qed.

Lemma SY_of3 s s' new : st_ev s' = st_ev s ++ new -> SY3 (views s) (views s') new -> SY s s'.
Proof. intros E H. exists new. split; assumption. Qed.

Lemma SY_ev_nomark s e : not_mark e -> SY s (ev_w s e).
Proof.
  intros H. apply (SY_of3 _ _ [e]); [reflexivity|]. intros k _. destruct e; [destruct H| | |]; reflexivity.
Qed.

Lemma SY3_put_mark t vid w : SY3 t (put3 t vid w) [EvMark vid w].
Proof.
  destruct t as [[c v] n]. intros k Hk. cbn [last_mark]. unfold slot, put3, get3.
  destruct (vid =? ViewIDVoting); [|destruct (vid =? ViewIDCommitting)];
    destruct Hk as [->|[->| ->]]; reflexivity.
Qed.

Lemma SY_put_mark s vid w s2 :
  views s2 = put3 (views s) vid w -> st_ev s2 = st_ev s ++ [EvMark vid w] -> SY s s2.
Proof. intros Hv He. apply (SY_of3 _ _ [EvMark vid w]); [exact He|]. rewrite Hv. apply SY3_put_mark. Qed.

Lemma SY_update_observers s : SY s (update_observers s).
Proof. apply SY_frame; reflexivity. Qed.

Lemma SY_increment s : SY s (increment_voting_round s).
Proof.
  set (s' := increment_voting_round s).
  apply (SY_of3 _ _ [EvMark ViewIDVoting (k_vot s'); EvMark ViewIDNextRound (k_nxt s')]).
  - unfold s', increment_voting_round, ev_w. cbn [st_ev]. rewrite <- app_assoc. reflexivity.
  - intros k [->|[->| ->]]; reflexivity.
Qed.

Lemma SY_advance s : SY s (advance_voting_round s).
Proof.
  unfold advance_voting_round.
  eapply SY_trans; [apply (SY_ev_nomark s (EvNil (k_vot s))); exact I|].
  eapply SY_trans; [apply SY_increment|apply SY_update_observers].
Qed.

Lemma SY_jump s : SY s (jump_voting_round s).
Proof.
  unfold jump_voting_round.
  eapply SY_trans; [apply SY_increment|].
  eapply SY_trans; [|apply SY_update_observers].
  apply SY_ev_nomark. exact I.
Qed.

Lemma SY_shift s voted : SY s (shift_voting_to_committing s voted).
Proof.
  set (s' := shift_voting_to_committing s voted).
  assert (E : st_ev s' = st_ev s ++ [EvCommitted (v_h (k_com s)); EvMark ViewIDCommitting (k_com s');
                                     EvMark ViewIDVoting (k_vot s'); EvMark ViewIDNextRound (k_nxt s')]).
  { unfold s', shift_voting_to_committing, update_observers. cbn. rewrite <- !app_assoc. reflexivity. }
  apply (SY_of3 _ _ _ E). intros k [->|[->| ->]]; reflexivity.
Qed.

Lemma SY_check_voting s s' : check_voting_precommit_shift s = Ok s' -> SY s s'.
Proof.
  unfold check_voting_precommit_shift, bind.
  destruct (byz_majority _) as [maj|]; [|discriminate].
  destruct (_ <? maj).
  - destruct (_ =? _); intros E; inversion E; subst; [apply SY_advance|apply SY_refl].
  - destruct (sm_mpc _).
    + intros E; inversion E; subst. apply SY_advance.
    + destruct (find _ _) as [p|]; intros E; inversion E; subst; [apply SY_shift|apply SY_refl].
Qed.

Lemma SY_check_next_round s s' : check_next_round_precommit_shift s = Ok s' -> SY s s'.
Proof.
  unfold check_next_round_precommit_shift, bind.
  destruct (byz_minority _) as [mn|]; [|discriminate].
  destruct (_ <? mn); [intros E; inversion E; subst; apply SY_refl|].
  destruct (byz_majority _) as [maj|]; [|discriminate].
  destruct (maj <=? _).
  - intros E. eapply SY_trans; [apply SY_jump|apply SY_check_voting; exact E].
  - intros E; inversion E; subst. apply SY_jump.
Qed.

Lemma SY_check_prevote s s' : check_prevote_shift s = Ok s' -> SY s s'.
Proof.
  unfold check_prevote_shift, bind.
  destruct (byz_minority _) as [mn|]; [|discriminate].
  destruct (_ <? mn); intros E; inversion E; subst; [apply SY_refl|apply SY_jump].
Qed.

Lemma SY_backfill s p : auth_view (k_com s) -> SY s (backfill_commit s p).
Proof.
  intros [_ Hpc]. unfold backfill_commit.
  destruct (fold_left _ _ _) as [pc' any] eqn:Hf.
  destruct any.
  - eapply (SY_put_mark s ViewIDCommitting); reflexivity.
  - rewrite (backfill_fold_noinc _ _ _ _ _ _ _ Hpc Hf), with_pc_same.
    apply SY_frame; reflexivity.
Qed.

Lemma SY_add_ph s p s' : auth_state s -> add_ph s p = Ok s' -> SY s s'.
Proof.
  intros Ha. unfold add_ph, bind.
  destruct (find_view _ _ _) as [[vid st]|]; [|discriminate].
  destruct (negb (st =? ViewFound)); [intros E; inversion E; subst; apply SY_refl|].
  destruct (existsb _ _); [intros E; inversion E; subst; apply SY_refl|].
  set (w := bump (with_phs (get_view s vid) (v_phs (get_view s vid) ++ [p]))).
  set (s1 := put_view s vid w).
  set (s2 := ev_w (log_w (set_rounds s1 _) _) _).
  assert (T2 : SY s s2).
  { apply (SY_put_mark s vid w).
    - unfold s2, s1. rewrite <- views_put_view. reflexivity.
    - unfold s2. cbn [ev_w st_ev log_w set_rounds]. unfold s1. rewrite st_ev_put_view.
      rewrite (get_view_get3 (put_view s vid w)), views_put_view, get3_put3_same. reflexivity. }
  assert (A2 : auth_view (k_com s2)).
  { assert (A1 : auth_state s1).
    { apply put_view_auth; [exact Ha|]. apply auth_view_bump.
      eapply auth_view_same; [apply same_votes_with_phs|apply get_view_auth; exact Ha]. }
    exact (proj1 A1). }
  destruct (negb _); [intros E; inversion E; subst; exact T2|].
  assert (T3 : SY s (backfill_commit s2 p)) by (eapply SY_trans; [exact T2|apply SY_backfill; exact A2]).
  destruct (vid =? ViewIDVoting).
  - destruct (pm_get _ _).
    + intros E. eapply SY_trans; [exact T3|apply SY_check_voting; exact E].
    + intros E; inversion E; subst; exact T3.
  - intros E; inversion E; subst; exact T3.
Qed.

Lemma SY_apply_votes kind s vid h r ups s' : apply_votes kind s vid h r ups = Ok s' -> SY s s'.
Proof.
  unfold apply_votes.
  set (v := get_view s vid) in *.
  set (votes' := fold_left (fun m e => pm_set m (fst e) (snd e)) ups (view_votes kind v)).
  set (v1 := if kind =? KPrevote then with_pv v votes' else with_pc v votes').
  set (sm' := if kind =? KPrevote then sum_set_prevotes _ _ _ else _).
  set (v2 := bump (with_sum v1 sm')).
  set (s1 := put_view s vid v2).
  set (s2 := ev_w (log_w (set_rounds s1 _) _) _).
  assert (T2 : SY s s2).
  { apply (SY_put_mark s vid v2).
    - unfold s2, s1. rewrite <- views_put_view. reflexivity.
    - unfold s2. cbn [ev_w st_ev log_w set_rounds]. unfold s1. rewrite st_ev_put_view. reflexivity. }
  destruct (kind =? KPrevote).
  - destruct (vid =? ViewIDNextRound).
    + intros E. eapply SY_trans; [exact T2|apply SY_check_prevote; exact E].
    + intros E; inversion E; subst. exact T2.
  - destruct (vid =? ViewIDVoting).
    + intros E. eapply SY_trans; [exact T2|apply SY_check_voting; exact E].
    + destruct (vid =? ViewIDNextRound).
      * intros E. eapply SY_trans; [exact T2|apply SY_check_next_round; exact E].
      * intros E; inversion E; subst. exact T2.
Qed.

Lemma SY_handle_future kind s m s' res : handle_future_votes kind s m = Ok (s', res) -> SY s s'.
Proof.
  unfold handle_future_votes.
  destruct (if vm_h m =? _ then _ else _) as [keys|]; [|intros E; inversion E; subst; apply SY_refl].
  destruct keys; [intros E; inversion E; subst; apply SY_refl|].
  destruct (negb (bytes_eqb _ _)); [intros E; inversion E; subst; apply SY_refl|].
  destruct (match coll_of _ _ with Some c => c | None => _ end) as [spkh stored].
  destruct (fold_left _ _ _) as [[full' allv] inc].
  destruct (negb allv); [intros E; inversion E; subst; apply SY_refl|].
  destruct (negb inc); intros E; inversion E; subst; [apply SY_refl|].
  apply SY_frame; reflexivity.
Qed.

Lemma SY_handle_votes kind s m s' res : handle_votes kind s m = Ok (s', res) -> SY s s'.
Proof.
  unfold handle_votes, bind.
  destruct (vm_proofs m) as [|vp0 vpl] eqn:Hp; [intros E; inversion E; subst; apply SY_refl|].
  rewrite <- Hp. clear Hp vp0 vpl.
  destruct (find_view _ _ _) as [[vid st]|]; [|discriminate].
  destruct (st =? ViewFuture); [apply SY_handle_future|].
  destruct (negb (st =? ViewFound)); [intros E; inversion E; subst; apply SY_refl|].
  destruct (negb (bytes_eqb _ _)); [intros E; inversion E; subst; apply SY_refl|].
  destruct (sigs_to_add _ _ _) as [|x0 l0] eqn:Hsa; [intros E; inversion E; subst; apply SY_refl|]. rewrite <- Hsa. clear Hsa x0 l0.
  destruct (build_updates _ _ _) as [ups allv].
  destruct ups as [|u ups'] eqn:Hu; [intros E; inversion E; subst; apply SY_refl|]. rewrite <- Hu in *. clear Hu.
  destruct (apply_votes _ _ _ _ _ _) as [s2|] eqn:Ha; [|discriminate].
  intros E; inversion E; subst. eapply SY_apply_votes; eassumption.
Qed.

Lemma SY_handle_ph_loop fuel : forall backfilled s p s' res,
  auth_state s -> handle_ph_loop fuel backfilled s p = Ok (s', res) -> SY s s'.
Proof.
  assert (Hbody : forall s p (proposer : option N) (prev_hash : bytes) (prev_vs view_vs : valset) s' res,
    auth_state s ->
    (let hd := ph_hdr p in
      if negb (hd_ok hd) then Ok (s, HandleProposedHeaderBadBlockHash)
      else if negb (vs_ok (hd_vals hd) && vs_ok (hd_next hd)) then Ok (s, HandleProposedHeaderBadBlockHash)
      else if negb (valset_equal (hd_vals hd) view_vs) then Ok (s, HandleProposedHeaderBadBlockHash)
      else
        match proposer with
        | None => Ok (s, HandleProposedHeaderBadSignature)
        | Some key =>
          if negb (verify_prop key (ph_content p) (ph_round p) (ph_sig p)) then Ok (s, HandleProposedHeaderBadSignature)
          else if negb (hd_height hd =? k_init_h s) && negb (bytes_eqb (hd_prev hd) prev_hash)
          then Ok (s, HandleProposedHeaderBadBlockHash)
          else if negb (bytes_eqb (vs_pkh prev_vs) (cp_pkh (hd_pcp hd)))
          then Ok (s, HandleProposedHeaderBadPrevCommitProofPubKeyHash)
          else
            let accept := bind (add_ph s p) (fun s' => Ok (s', HandleProposedHeaderAccepted)) in
            if k_init_h s <? hd_height hd then
              match vs_keys prev_vs with
              | [] => Ok (s, HandleProposedHeaderBadPrevCommitProofPubKeyHash)
              | _ =>
                match validate_finalized (sub64 (hd_height hd) 1) (cp_round (hd_pcp hd)) (vs_keys prev_vs)
                        (hd_prev hd) (cp_proofs (hd_pcp hd)) with
                | (_, false) => Ok (s, HandleProposedHeaderBadPrevCommitProofDoubleSigned)
                | (None, true) => Ok (s, HandleProposedHeaderBadPrevCommitProofSignature)
                | (Some bits, true) =>
                    let avail := sum_pows (vs_pows prev_vs) in
                    bind (byz_majority avail) (fun maj =>
                    if idx_power (vs_pows prev_vs) bits <? maj
                    then Ok (s, HandleProposedHeaderBadPrevCommitVoteCount)
                    else accept)
                end
              end
            else accept
        end) = Ok (s', res) ->
    SY s s').
  { intros s p proposer prev_hash prev_vs view_vs s' res Ha. cbv zeta.
    assert (Hsame : forall r0, Ok (s, r0) = Ok (s', res) -> SY s s')
      by (intros r0 E; inversion E; subst; apply SY_refl).
    destruct (negb (hd_ok _)); [apply Hsame|].
    destruct (negb (vs_ok _ && vs_ok _)); [apply Hsame|].
    destruct (negb (valset_equal _ _)); [apply Hsame|].
    destruct proposer as [key|]; [|apply Hsame].
    destruct (negb (verify_prop _ _ _ _)); [apply Hsame|].
    destruct (negb (hd_height (ph_hdr p) =? k_init_h s) && negb (bytes_eqb (hd_prev (ph_hdr p)) prev_hash)); [apply Hsame|].
    destruct (negb (bytes_eqb (vs_pkh prev_vs) _)); [apply Hsame|].
    assert (Hacc : bind (add_ph s p) (fun s' => Ok (s', HandleProposedHeaderAccepted)) = Ok (s', res) -> SY s s').
    { unfold bind. destruct (add_ph s p) eqn:Hadd; [|discriminate].
      intros E; inversion E; subst. eapply SY_add_ph; eassumption. }
    destruct (k_init_h s <? _); [|exact Hacc].
    destruct (vs_keys prev_vs); [apply Hsame|].
    destruct (validate_finalized _ _ _ _ _) as [[bits|] [|]]; try apply Hsame.
    unfold bind at 1. destruct (byz_majority _); [|discriminate].
    destruct (_ <? _); [apply Hsame|exact Hacc]. }
  induction fuel as [|f IH]; intros backfilled s p s' res Ha; cbn [handle_ph_loop];
    destruct (ph_check s p) as [status proposer prev_hash prev_vs view_vs].
  all: assert (Hsame : forall r0, Ok (s, r0) = Ok (s', res) -> SY s s')
         by (intros r0 E; inversion E; subst; apply SY_refl).
  all: destruct (status =? PHCheckAlreadyHaveSignature); [apply Hsame|].
  all: destruct (status =? PHCheckSignerUnrecognized); [apply Hsame|].
  all: destruct (status =? PHCheckRoundTooOld); [apply Hsame|].
  all: destruct (status =? PHCheckRoundTooFarInFuture); [apply Hsame|].
  all: destruct (status =? PHCheckNextHeight).
  - destruct backfilled; apply Hsame.
  - apply Hbody. exact Ha.
  - destruct backfilled; [apply Hsame|].
    unfold bind at 1. destruct (handle_votes KPrecommit s (vote_msg_of_pcp p)) as [[s1 r1]|] eqn:Hv; [|discriminate].
    cbn [fst]. intros E. eapply SY_trans; [eapply SY_handle_votes; exact Hv|].
    eapply IH; [|exact E]. eapply auth_handle_votes; [right; reflexivity|exact Ha|exact Hv].
  - apply Hbody. exact Ha.
Qed.

(** ** Replayed headers.  A rejected replay is the identity; an accepted one stores the header and
    the precommits in the voting view, bumps its version and marks it (like a precommit message for
    the voting round), then runs the commit check. *)
Lemma SY_jump_until fuel : forall s r, SY s (jump_until fuel s r).
Proof.
  induction fuel as [|f IH]; intros s r; cbn [jump_until]; [apply SY_refl|].
  destruct (_ <? _); [|apply SY_refl]. eapply SY_trans; [apply SY_jump|apply IH].
Qed.

Lemma SY_handle_replay s0 hd cp s' res : handle_replay s0 hd cp = Ok (s', res) -> SY s0 s'.
Proof.
  unfold handle_replay.
  destruct (negb (hd_height hd =? _)); [intros E; inversion E; subst; apply SY_refl|].
  destruct (cp_round cp <? _); [discriminate|].
  pose proof (SY_jump_until (N.to_nat (cp_round cp - v_r (k_vot s0))) s0 (cp_round cp)) as T0.
  set (s := jump_until _ s0 _) in *.
  destruct (negb ((v_r (k_vot s) =? cp_round cp) && (v_h (k_vot s) =? hd_height hd))); [discriminate|].
  assert (Hsame : forall r0, Ok (s0, r0) = Ok (s', res) -> SY s0 s')
    by (intros r0 E; inversion E; subst; apply SY_refl).
  destruct (negb (hd_ok hd)); [apply Hsame|].
  destruct (negb (hd_height hd =? k_init_h s) && negb (bytes_eqb (hd_prev hd) (chdr_hash s))); [apply Hsame|].
  destruct (negb (valset_equal (hd_vals hd) (v_vals (k_vot s)) && vs_ok (hd_vals hd))); [apply Hsame|].
  destruct (negb (vs_ok (hd_next hd))); [apply Hsame|].
  destruct (fold_left _ (signed_entries (cp_proofs cp)) ([], true)) as [temp allv].
  destruct (negb allv); [apply Hsame|].
  destruct (pm_get temp (hd_hash hd)); [|apply Hsame].
  unfold bind at 1. destruct (byz_majority _); [|discriminate].
  destruct (_ <? _); [apply Hsame|].
  fold (replay_insert s hd (cp_round cp)).
  unfold bind at 1. destruct (replay_insert s hd (cp_round cp)) as [s1|] eqn:Hins; [|discriminate].
  destruct (replay_insert_views _ _ _ _ Hins) as (F1&F2&F3&_).
  unfold bind. destruct (check_voting_precommit_shift _) as [s3|] eqn:Hc; [|discriminate].
  intros E; inversion E; subst.
  match type of Hc with check_voting_precommit_shift ?X = _ => set (s2 := X) in * end.
  eapply SY_trans; [exact T0|]. eapply SY_trans; [|apply SY_check_voting; exact Hc].
  set (pc' := fold_left (fun m e => pm_set m (fst e) (snd e)) temp (v_pc (k_vot s1))) in *.
  set (v2 := bump (with_sum (with_pc (k_vot s1) pc')
                     (sum_set_precommits (v_sum (with_pc (k_vot s1) pc')) (vs_pows (v_vals (with_pc (k_vot s1) pc'))) pc'))) in *.
  apply (SY_put_mark s ViewIDVoting v2 s2).
  - unfold s2, views, put3. cbn. rewrite F1, F2. reflexivity.
  - unfold s2. cbn. rewrite F3. reflexivity.
Qed.

Theorem SY_step s o s' res : auth_state s -> step s o = Ok (s', res) -> SY s s'.
Proof.
  intros Ha. destruct o as [p|m|m|x cp]; cbn [step].
  - unfold handle_ph. destruct (ph_key p); [apply SY_handle_ph_loop; exact Ha|intros E; inversion E; subst; apply SY_refl].
  - apply SY_handle_votes.
  - apply SY_handle_votes.
  - apply SY_handle_replay.
Qed.

Lemma mk_step_sync s o s1 r io :
  auth_state (ms_k s) -> mstep s (MK (XOp o)) = Ok (s1, r, io) ->
  auth_state (ms_k s1) /\
  exists new, st_ev (ms_k s1) = st_ev (ms_k s) ++ new /\ TR3 (views (ms_k s)) (views (ms_k s1)) new /\
              SY3 (views (ms_k s)) (views (ms_k s1)) new /\ ms_m s1 = fold_left mgr_step new (ms_m s).
Proof.
  intros Ha Hs. destruct (mk_step_facts _ _ _ _ _ Hs) as (new&He&H3&Hm&_).
  revert Hs. cbn [mstep xstep is_restart_x]. unfold bind. destruct (step (ms_k s) o) as [[k' r1]|] eqn:Hst; [|discriminate].
  intros E; inversion E; subst. cbn [ms_k ms_m] in *.
  split; [eapply auth_step; eassumption|].
  destruct (SY_step _ _ _ _ Ha Hst) as (new2&He2&H2).
  assert (new2 = new) by (rewrite He in He2; apply app_inv_head in He2; symmetry; exact He2). subst new2.
  exists new. split; [exact He|]. split; [exact H3|]. split; [exact H2|exact Hm].
Qed.

Theorem SY_act_step s h r key a s' : auth_state s -> act_step s h r key a = Ok s' -> SY s s'.
Proof.
  intros Ha. destruct a as [target sg|target sg|p]; cbn [act_step].
  - intros H. destruct (act_vote_cases _ _ _ _ _ _ _ _ H) as [->|(vid&base&i&_&Hv)]; [apply SY_refl|eapply SY_apply_votes; exact Hv].
  - intros H. destruct (act_vote_cases _ _ _ _ _ _ _ _ H) as [->|(vid&base&i&_&Hv)]; [apply SY_refl|eapply SY_apply_votes; exact Hv].
  - unfold act_ph. destruct (hd_hash (ph_hdr p)); [discriminate|apply SY_add_ph; exact Ha].
Qed.

Lemma mact_step_sync s a s1 r io :
  auth_state (ms_k s) -> mstep s (MAct a) = Ok (s1, r, io) ->
  auth_state (ms_k s1) /\
  exists new, st_ev (ms_k s1) = st_ev (ms_k s) ++ new /\ TR3 (views (ms_k s)) (views (ms_k s1)) new /\
              SY3 (views (ms_k s)) (views (ms_k s1)) new /\ ms_m s1 = fold_left mgr_step new (ms_m s).
Proof.
  intros Ha Hs. destruct (mact_step_facts _ _ _ _ _ Hs) as (new&He&H3&Hm&_).
  revert Hs. cbn [mstep]. unfold bind. destruct (act_step _ _ _ _ a) as [k'|] eqn:Hst; [|discriminate].
  intros E; inversion E; subst. cbn [ms_k ms_m] in *.
  split; [eapply auth_act_step; eassumption|].
  destruct (SY_act_step _ _ _ _ _ _ Ha Hst) as (new2&He2&H2).
  assert (new2 = new) by (rewrite He in He2; apply app_inv_head in He2; symmetry; exact He2). subst new2.
  exists new. split; [exact He|]. split; [exact H3|]. split; [exact H2|exact Hm].
Qed.

(** ** Gossip: the three slots hold the kernel's views *)
Definition GC (s : mstate) : Prop :=
  forall k, is_slot k -> go_v (gslot (m_g (ms_m s)) k) = get3 (views (ms_k s)) k.

Lemma go_v_mark_sent g k : go_v (gslot (g_mark_sent g) k) = go_v (gslot g k).
Proof.
  unfold gslot, g_mark_sent. cbn [gm_vot gm_com gm_nxt].
  destruct (k =? ViewIDVoting); [|destruct (k =? ViewIDCommitting)];
    match goal with |- context [if ?c then _ else _] => destruct c end; reflexivity.
Qed.

Lemma gc_run : forall ops s s' ios,
  forallb no_restart ops = true -> mrun s ops = Ok (s', ios) ->
  auth_state (ms_k s) -> GC s -> auth_state (ms_k s') /\ GC s'.
Proof.
  induction ops as [|o rest IH]; intros s s' ios Hall; cbn [mrun].
  - intros E; inversion E; subst. auto.
  - cbn [forallb] in Hall. apply andb_true_iff in Hall as [Ho Hr].
    destruct (mstep s o) as [[[s1 r] io]|] eqn:Hs; [|discriminate].
    destruct (mrun s1 rest) as [[s2 ios2]|] eqn:Hm; [|discriminate].
    intros E; inversion E; subst. intros Ha HG.
    apply (IH s1 s' ios2 Hr Hm).
    + destruct o as [[o| |]|h0 r0| | |h0 r0 key0|a]; cbn [no_restart is_restart_x negb] in Ho; try discriminate.
      * apply (mk_step_sync _ _ _ _ _ Ha Hs).
      * revert Hs. cbn [mstep]. unfold bind. destruct (find_view _ _ _) as [[vid st]|]; [|discriminate].
        destruct (st =? ViewFound); [intros E1; inversion E1; subst; exact Ha|].
        destruct (st =? ViewBeforeCommitting); [|discriminate].
        destruct (hdr_get _ _) as [[x cp]|]; [intros E1; inversion E1; subst; exact Ha|discriminate].
      * revert Hs. cbn [mstep]. destruct (sm_output _) as [[[vv jv] sv]|]; intros E1; inversion E1; subst; exact Ha.
      * revert Hs. cbn [mstep]. destruct (g_output _) as [[[[c v] n] nl]|]; intros E1; inversion E1; subst; exact Ha.
      * revert Hs. cbn [mstep]. unfold bind. destruct (find_view _ _ _) as [[vid st]|]; [|discriminate].
        destruct (st =? ViewFound); [intros E1; inversion E1; subst; exact Ha|].
        destruct (st =? ViewBeforeCommitting); [|discriminate].
        destruct (hdr_get _ _) as [[x cp]|]; [intros E1; inversion E1; subst; exact Ha|discriminate].
      * apply (mact_step_sync _ _ _ _ _ Ha Hs).
    + destruct o as [[o| |]|h0 r0| | |h0 r0 key0|a]; cbn [no_restart is_restart_x negb] in Ho; try discriminate.
      * destruct (mk_step_sync _ _ _ _ _ Ha Hs) as (_&new&He&H3&HY&Hm1).
        intros k Hk. rewrite Hm1, (fold_mgr_gslot k Hk). cbn [go_v]. rewrite (HG k Hk). apply HY. exact Hk.
      * revert Hs. cbn [mstep]. unfold bind. destruct (find_view _ _ _) as [[vid st]|]; [|discriminate].
        destruct (st =? ViewFound); [intros E1; inversion E1; subst; exact HG|].
        destruct (st =? ViewBeforeCommitting); [|discriminate].
        destruct (hdr_get _ _) as [[x cp]|]; [intros E1; inversion E1; subst; exact HG|discriminate].
      * revert Hs. cbn [mstep]. destruct (sm_output _) as [[[vv jv] sv]|]; intros E1; inversion E1; subst; exact HG.
      * revert Hs. cbn [mstep]. destruct (g_output _) as [[[[c v] n] nl]|]; intros E1; inversion E1; subst; [|exact HG].
        intros k Hk. cbn [ms_m ms_k m_g]. rewrite go_v_mark_sent. apply HG. exact Hk.
      * revert Hs. cbn [mstep]. unfold bind. destruct (find_view _ _ _) as [[vid st]|]; [|discriminate].
        destruct (st =? ViewFound); [intros E1; inversion E1; subst; exact HG|].
        destruct (st =? ViewBeforeCommitting); [|discriminate].
        destruct (hdr_get _ _) as [[x cp]|]; [intros E1; inversion E1; subst; exact HG|discriminate].
      * destruct (mact_step_sync _ _ _ _ _ Ha Hs) as (_&new&He&H3&HY&Hm1).
        intros k Hk. rewrite Hm1, (fold_mgr_gslot k Hk). cbn [go_v]. rewrite (HG k Hk). apply HY. exact Hk.
Qed.

Lemma GC_init ih ivs : GC (ms_init ih ivs).
Proof.
  intros k Hk. unfold ms_init. cbn [ms_m ms_k]. rewrite (fold_mgr_gslot k Hk). cbn [go_v].
  destruct Hk as [->|[->| ->]]; reflexivity.
Qed.

Lemma g_output_none g : g_output g = None ->
  go_has_been_sent (gm_com g) = true /\ go_has_been_sent (gm_vot g) = true /\ go_has_been_sent (gm_nxt g) = true /\
  gm_nil g = None.
Proof.
  unfold g_output.
  destruct (go_has_been_sent (gm_com g)); destruct (go_has_been_sent (gm_vot g)); destruct (go_has_been_sent (gm_nxt g));
    destruct (gm_nil g); intros E; try discriminate; repeat split.
Qed.

Theorem gossip_current_after_empty_read ih ivs ops s' ios s'' c :
  forallb no_restart ops = true -> mrun (ms_init ih ivs) ops = Ok (s', ios) ->
  mstep s' MGRead = Ok (s'', c, IOGEmpty) ->
  gm_nil (m_g (ms_m s'')) = None /\
  forall k, is_slot k ->
    go_has_been_sent (gslot (m_g (ms_m s'')) k) = true /\
    go_v (gslot (m_g (ms_m s'')) k) = get_view (ms_k s'') k.
Proof.
  intros Hall Hrun Hrd.
  destruct (gc_run _ _ _ _ Hall Hrun (auth_init ih ivs) (GC_init ih ivs)) as [_ HG].
  revert Hrd. cbn [mstep]. destruct (g_output _) as [[[[c0 v] n] nl]|] eqn:Ho; intros E; inversion E; subst.
  destruct (g_output_none _ Ho) as (S1&S2&S3&S4). split; [exact S4|].
  intros k Hk. split; [|rewrite get_view_get3; apply HG; exact Hk].
  destruct Hk as [->|[->| ->]]; assumption.
Qed.

(** every change of a kernel view comes with a version bump (or a later (height, round)) *)
Lemma last_mark_cases k : forall new d,
  last_mark k new d = d \/ exists vid, slot vid = k /\ In (EvMark vid (last_mark k new d)) new.
Proof.
  induction new as [|e new IH]; intros d; cbn [last_mark]; [left; reflexivity|].
  destruct e as [vid0 m0|m0|m0|h0];
    try (destruct (IH d) as [A|(vid&B1&B2)]; [left; exact A|right; exists vid; split; [exact B1|right; exact B2]]).
  destruct (N.eqb_spec (slot vid0) k) as [Es|Es].
  - right. destruct (IH m0) as [A|(vid&B1&B2)].
    + exists vid0. split; [exact Es|left; rewrite A; reflexivity].
    + exists vid. split; [exact B1|right; exact B2].
  - destruct (IH d) as [A|(vid&B1&B2)]; [left; exact A|right; exists vid; split; [exact B1|right; exact B2]].
Qed.

Theorem kernel_version_bumped_on_change s o s' res :
  auth_state s -> step s o = Ok (s', res) ->
  exists new, st_ev s' = st_ev s ++ new /\
    (Forall ev_ok new -> kinv (views s) ->
     forall k, is_slot k -> get_view s' k = get_view s k \/ vlt (get_view s k) (get_view s' k)).
Proof.
  intros Ha Hs. destruct (TR_step _ _ _ _ Hs) as (new&He&H3). destruct (SY_step _ _ _ _ Ha Hs) as (new2&He2&HY).
  assert (new2 = new) by (rewrite He in He2; apply app_inv_head in He2; symmetry; exact He2). subst new2.
  exists new. split; [exact He|]. intros Hok Hk k Hslot.
  destruct (H3 Hok Hk) as (K1&S&P&M&Nn&O). rewrite Forall_forall in M.
  rewrite !get_view_get3, <- (HY k Hslot).
  destruct (last_mark_cases k new (get3 (views s) k)) as [E|(vid&Es&Hin)]; [left; exact E|right].
  specialize (M _ Hin). cbn [ev_M] in M. destruct M as [M1 M2].
  assert (Eg : get3 (views s) vid = get3 (views s) k) by (apply get3_slot; rewrite Es; symmetry; apply slot_of_slot; exact Hslot).
  rewrite Eg in M1.
  destruct (M1 _ (vle_refl _)) as [L|[Sp _]]; [left; exact L|].
  right. split; [exact Sp|]. apply M2; [apply past_get3; exact Hk|exact Sp].
Qed.

(** ** State machine: the kept view is the kernel's view of the entered round *)
Definition sm_hit (h r : N) (e : mev) : option view :=
  match e with
  | EvMark vid m =>
      if ((vid =? ViewIDVoting) || (vid =? ViewIDCommitting)) && (h =? v_h m) && (r =? v_r m) then Some m else None
  | _ => None
  end.

Definition lm_hit (k : N) (e : mev) : option view :=
  match e with
  | EvMark vid m => if slot vid =? k then Some m else None
  | _ => None
  end.

Fixpoint track (f : mev -> option view) (evs : list mev) (x : view) : view :=
  match evs with
  | [] => x
  | e :: rest => track f rest (match f e with Some y => y | None => x end)
  end.

Lemma last_mark_track k : forall evs d, last_mark k evs d = track (lm_hit k) evs d.
Proof.
  induction evs as [|e evs IH]; intros d; [reflexivity|].
  destruct e as [vid m| | |]; cbn [last_mark track lm_hit]; try apply IH.
  destruct (slot vid =? k); apply IH.
Qed.

Lemma mgr_step_out m e :
  smm_out (m_sm (mgr_step m e)) =
  match sm_hit (smm_h (m_sm m)) (smm_r (m_sm m)) e with Some y => y | None => smm_out (m_sm m) end.
Proof.
  destruct m as [sm g cm]. destruct e as [vid v|v|v|h]; cbn [mgr_step sm_hit m_sm]; try reflexivity.
  - destruct (vid =? ViewIDVoting); [|destruct (vid =? ViewIDCommitting)]; cbn [orb andb m_sm].
    + destruct ((smm_h sm =? v_h v) && (smm_r sm =? v_r v)); reflexivity.
    + destruct ((smm_h sm =? v_h v) && (smm_r sm =? v_r v)); [reflexivity|].
      destruct ((smm_h sm <? v_h v) || _); reflexivity.
    + reflexivity.
  - destruct (_ && _); reflexivity.
Qed.

Lemma fold_mgr_sm_track new : forall m,
  smm_out (m_sm (fold_left mgr_step new m)) = track (sm_hit (smm_h (m_sm m)) (smm_r (m_sm m))) new (smm_out (m_sm m)).
Proof.
  induction new as [|e new IH]; intros m; cbn [fold_left track]; [reflexivity|].
  rewrite IH. destruct (mgr_step_sm_fixed m e) as (Fh&Fr&_). rewrite Fh, Fr, mgr_step_out. reflexivity.
Qed.

Lemma track_last f : forall new x,
  (Forall (fun e => f e = None) new /\ track f new x = x) \/
  (exists l1 e l2 y, new = l1 ++ e :: l2 /\ f e = Some y /\ Forall (fun e' => f e' = None) l2 /\ track f new x = y).
Proof.
  induction new as [|e new IH]; intros x; cbn [track]; [left; split; [constructor|reflexivity]|].
  destruct (IH (match f e with Some y => y | None => x end)) as [[A B]|(l1&e0&l2&y&E&Hy&Hn&Ht)].
  - destruct (f e) as [y|] eqn:Hf.
    + right. exists [], e, new, y. repeat split; assumption.
    + left. split; [constructor; assumption|exact B].
  - right. exists (e :: l1), e0, l2, y. subst new. repeat split; assumption.
Qed.

Lemma app_cons_tri {A} (l1 : list A) : forall a l2 l1' b l2',
  l1 ++ a :: l2 = l1' ++ b :: l2' -> (l1 = l1' /\ a = b /\ l2 = l2') \/ In a l2' \/ In b l2.
Proof.
  induction l1 as [|x l1 IH]; intros a l2 l1' b l2' E; destruct l1' as [|y l1']; cbn [app] in E; inversion E; subst.
  - left. repeat split.
  - right. right. apply in_or_app. right. left. reflexivity.
  - right. left. apply in_or_app. right. left. reflexivity.
  - destruct (IH _ _ _ _ _ H1) as [(A1&A2&A3)|[B|C]]; [left; subst; repeat split|right; left; exact B|right; right; exact C].
Qed.

Lemma sm_hit_some h r e y : sm_hit h r e = Some y ->
  exists vid, e = EvMark vid y /\ v_h y = h /\ v_r y = r.
Proof.
  destruct e as [vid m| | |]; cbn [sm_hit]; try discriminate.
  destruct (_ && _) eqn:E; [|discriminate]. intros X; inversion X; subst.
  apply andb_true_iff in E as [E Er]. apply andb_true_iff in E as [_ Eh]. apply N.eqb_eq in Eh, Er.
  exists vid. repeat split; congruence.
Qed.

Lemma lm_hit_some k e y : lm_hit k e = Some y -> exists vid, e = EvMark vid y /\ slot vid = k.
Proof.
  destruct e as [vid m| | |]; cbn [lm_hit]; try discriminate.
  destruct (N.eqb_spec (slot vid) k); [|discriminate]. intros X; inversion X; subst. exists vid. split; reflexivity.
Qed.

Lemma lm_hit_sm_hit k h r e y : k = ViewIDVoting \/ k = ViewIDCommitting ->
  lm_hit k e = Some y -> v_h y = h -> v_r y = r -> sm_hit h r e = Some y.
Proof.
  intros Hk Hl Hh Hr. destruct (lm_hit_some _ _ _ Hl) as (vid&E&Es). subst e. cbn [sm_hit].
  rewrite Hh, Hr, !N.eqb_refl, !andb_true_r.
  unfold slot in Es. destruct (vid =? ViewIDVoting); [reflexivity|]. destruct (vid =? ViewIDCommitting); [reflexivity|].
  destruct Hk as [->| ->]; discriminate.
Qed.

(** with replayed headers a kernel view may differ from the last marked one, but not in
    (height, round, version) *)
Definition veq (a b : view) : Prop := samepos a b /\ v_ver a = v_ver b.

Lemma veq_refl a : veq a a.
Proof. repeat split. Qed.
Lemma veq_trans a b c : veq a b -> veq b c -> veq a c.
Proof. unfold veq, samepos. intros ((A1&A2)&A3) ((B1&B2)&B3). repeat split; congruence. Qed.

Definition SYW3 (t t' : vs3) (new : list mev) : Prop :=
  forall k, is_slot k -> veq (last_mark k new (get3 t k)) (get3 t' k).

Definition SYW (s s' : kstate) : Prop :=
  exists new, st_ev s' = st_ev s ++ new /\ SYW3 (views s) (views s') new.

Lemma last_mark_indep k : forall n,
  (forall d, last_mark k n d = d) \/ (forall d d', last_mark k n d = last_mark k n d').
Proof.
  induction n as [|e n IH]; [left; reflexivity|].
  destruct e as [vid m| | |]; cbn [last_mark]; try (destruct IH as [A|B]; [left; exact A|right; intros d d'; apply B]).
  destruct (slot vid =? k); [right; reflexivity|]. destruct IH as [A|B]; [left; exact A|right; intros d d'; apply B].
Qed.

Lemma SY_SYW s s' : SY s s' -> SYW s s'.
Proof. intros (new&E&H). exists new. split; [exact E|]. intros k Hk. rewrite (H k Hk). apply veq_refl. Qed.

Lemma SYW_refl s : SYW s s.
Proof. apply SY_SYW, SY_refl. Qed.

Lemma SYW_trans a b c : SYW a b -> SYW b c -> SYW a c.
Proof.
  intros (n1&E1&H1) (n2&E2&H2). exists (n1 ++ n2). split; [rewrite E2, E1, app_assoc; reflexivity|].
  intros k Hk. rewrite last_mark_app. specialize (H1 k Hk). specialize (H2 k Hk).
  destruct (last_mark_indep k n2) as [A|B].
  - rewrite A in *. eapply veq_trans; eassumption.
  - rewrite (B _ (get3 (views b) k)). exact H2.
Qed.

Lemma SYW_put_silent s vid w s2 :
  views s2 = put3 (views s) vid w -> st_ev s2 = st_ev s -> veq (get_view s vid) w -> SYW s s2.
Proof.
  intros Hv He Hq. exists []. split; [rewrite He; symmetry; apply app_nil_r|]. rewrite Hv.
  rewrite get_view_get3 in Hq. destruct (views s) as [[c v] n]. intros k Hk. cbn [last_mark].
  unfold put3, get3 in *.
  destruct (vid =? ViewIDVoting); [|destruct (vid =? ViewIDCommitting)];
    destruct Hk as [->|[->| ->]]; cbn; first [exact Hq|apply veq_refl].
Qed.

Theorem SYW_step s o s' res : auth_state s -> step s o = Ok (s', res) -> SYW s s'.
Proof. intros Ha Hs. apply SY_SYW. eapply SY_step; eassumption. Qed.

Lemma mk_step_syncw s o s1 r io :
  auth_state (ms_k s) -> mstep s (MK (XOp o)) = Ok (s1, r, io) ->
  auth_state (ms_k s1) /\
  exists new, st_ev (ms_k s1) = st_ev (ms_k s) ++ new /\ TR3 (views (ms_k s)) (views (ms_k s1)) new /\
              SYW3 (views (ms_k s)) (views (ms_k s1)) new /\ ms_m s1 = fold_left mgr_step new (ms_m s).
Proof.
  intros Ha Hs. destruct (mk_step_facts _ _ _ _ _ Hs) as (new&He&H3&Hm&_).
  revert Hs. cbn [mstep xstep is_restart_x]. unfold bind. destruct (step (ms_k s) o) as [[k' r1]|] eqn:Hst; [|discriminate].
  intros E; inversion E; subst. cbn [ms_k ms_m] in *.
  split; [eapply auth_step; eassumption|].
  destruct (SYW_step _ _ _ _ Ha Hst) as (new2&He2&H2).
  assert (new2 = new) by (rewrite He in He2; apply app_inv_head in He2; symmetry; exact He2). subst new2.
  exists new. split; [exact He|]. split; [exact H3|]. split; [exact H2|exact Hm].
Qed.

Lemma mact_step_syncw s a s1 r io :
  auth_state (ms_k s) -> mstep s (MAct a) = Ok (s1, r, io) ->
  auth_state (ms_k s1) /\
  exists new, st_ev (ms_k s1) = st_ev (ms_k s) ++ new /\ TR3 (views (ms_k s)) (views (ms_k s1)) new /\
              SYW3 (views (ms_k s)) (views (ms_k s1)) new /\ ms_m s1 = fold_left mgr_step new (ms_m s).
Proof.
  intros Ha Hs. destruct (mact_step_facts _ _ _ _ _ Hs) as (new&He&H3&Hm&_).
  revert Hs. cbn [mstep]. unfold bind. destruct (act_step _ _ _ _ a) as [k'|] eqn:Hst; [|discriminate].
  intros E; inversion E; subst. cbn [ms_k ms_m] in *.
  split; [eapply auth_act_step; eassumption|].
  destruct (SY_SYW _ _ (SY_act_step _ _ _ _ _ _ Ha Hst)) as (new2&He2&H2).
  assert (new2 = new) by (rewrite He in He2; apply app_inv_head in He2; symmetry; exact He2). subst new2.
  exists new. split; [exact He|]. split; [exact H3|]. split; [exact H2|exact Hm].
Qed.

Definition LI (sm : smm) (t : vs3) : Prop :=
  smm_last sm = 0 \/ exists b, smm_last sm = v_ver b /\ v_h b = smm_h sm /\ v_r b = smm_r sm /\ past b t.

(** when the kernel's voting / committing view of the entered round is newer than what was sent,
    the kept view is of that round and has the kernel view's version *)
Definition CI (sm : smm) (t : vs3) : Prop :=
  forall vid, vid = ViewIDVoting \/ vid = ViewIDCommitting ->
  v_h (get3 t vid) = smm_h sm -> v_r (get3 t vid) = smm_r sm -> smm_last sm < v_ver (get3 t vid) ->
  v_h (smm_out sm) = smm_h sm /\ v_r (smm_out sm) = smm_r sm /\ v_ver (smm_out sm) = v_ver (get3 t vid).

Lemma is_slot_vc vid : vid = ViewIDVoting \/ vid = ViewIDCommitting -> is_slot vid.
Proof. intros [->| ->]; [left|right; left]; reflexivity. Qed.

Lemma sm_sync_events t t' new h r last out vid :
  Forall ev_ok new -> kinv t -> TR3 t t' new -> SYW3 t t' new ->
  vid = ViewIDVoting \/ vid = ViewIDCommitting ->
  (forall vid0, vid0 = ViewIDVoting \/ vid0 = ViewIDCommitting ->
     v_h (get3 t vid0) = h -> v_r (get3 t vid0) = r -> last < v_ver (get3 t vid0) ->
     v_h out = h /\ v_r out = r /\ v_ver out = v_ver (get3 t vid0)) ->
  v_h (get3 t' vid) = h -> v_r (get3 t' vid) = r -> last < v_ver (get3 t' vid) ->
  v_h (track (sm_hit h r) new out) = h /\ v_r (track (sm_hit h r) new out) = r /\
  v_ver (track (sm_hit h r) new out) = v_ver (get3 t' vid).
Proof.
  intros Hok Hk H3 HY Hvid Hpre Hh Hr Hlt.
  destruct (H3 Hok Hk) as (K1&S&P&M&Nn&O). rewrite Forall_forall in M, Nn.
  pose proof (HY vid (is_slot_vc vid Hvid)) as HK. rewrite last_mark_track in HK.
  destruct (track_last (sm_hit h r) new out) as [[NoHit Eo]|(l1&e&l2&y&En&Hy&NoHit2&Eo)];
  destruct (track_last (lm_hit vid) new (get3 t vid)) as [[NoM Ek]|(l1'&e'&l2'&y'&En'&Hy'&NoM2&Ek)];
  rewrite Ek in HK; destruct HK as ((HKh&HKr)&HKv); rewrite Eo.
  - rewrite <- HKv. apply (Hpre vid Hvid); congruence.
  - exfalso.
    assert (Hs : sm_hit h r e' = Some y') by (apply (lm_hit_sm_hit vid h r e' y' Hvid Hy'); congruence).
    rewrite Forall_forall in NoHit. rewrite (NoHit e') in Hs; [discriminate|]. rewrite En'. apply in_or_app. right. left. reflexivity.
  - exfalso.
    destruct (sm_hit_some _ _ _ _ Hy) as (vid0&Ee&Yh&Yr). subst e.
    assert (Hin : In (EvMark vid0 y) new) by (rewrite En; apply in_or_app; right; left; reflexivity).
    pose proof (proj2 (Nn _ Hin)) as Np. pose proof (proj2 (M _ Hin)) as Ms.
    assert (Q1 : vq y (get3 t' vid)) by (apply past_below_get3; [exact Np|split; congruence]).
    assert (Q2 : vqs (get3 t vid) y) by (apply Ms; [apply past_get3; exact Hk|split; congruence]).
    destruct Q1 as [Q1 _]. destruct Q2 as [Q2 _]. lia.
  - destruct (sm_hit_some _ _ _ _ Hy) as (vid0&Ee&Yh&Yr). destruct (lm_hit_some _ _ _ Hy') as (vid1&Ee'&Es'). subst e e'.
    assert (Hin : In (EvMark vid0 y) new) by (rewrite En; apply in_or_app; right; left; reflexivity).
    assert (En2 : l1 ++ EvMark vid0 y :: l2 = l1' ++ EvMark vid1 y' :: l2') by (rewrite <- En; exact En').
    destruct (app_cons_tri _ _ _ _ _ _ En2) as [(_&Eab&_)|[Hab|Hba]].
    + inversion Eab; subst. repeat split; congruence.
    + exfalso. rewrite En' in O. apply ord_pairs_app_inv in O as (_&O2&_). cbn [ord_pairs] in O2. destruct O2 as [O2 _].
      rewrite Forall_forall in O2. specialize (O2 _ Hab). cbn [ev_rel] in O2. destruct O2 as [_ O2].
      assert (Q2 : vqs y' y) by (apply O2; split; congruence).
      pose proof (proj2 (Nn _ Hin)) as Np.
      assert (Q1 : vq y (get3 t' vid)) by (apply past_below_get3; [exact Np|split; congruence]).
      destruct Q1 as [Q1 _]. destruct Q2 as [Q2 _]. lia.
    + exfalso. rewrite Forall_forall in NoHit2. pose proof (NoHit2 _ Hba) as X.
      rewrite (lm_hit_sm_hit vid h r (EvMark vid1 y') y' Hvid Hy') in X; [discriminate|congruence|congruence].
Qed.

Definition SC (s : mstate) : Prop :=
  SG s /\ LI (sm_of s) (views (ms_k s)) /\ CI (sm_of s) (views (ms_k s)) /\ auth_state (ms_k s).

Lemma find_view_before pos h r vid st :
  find_view pos h r = Ok (vid, st) -> st = ViewBeforeCommitting ->
  h <> kpos_Voting_Height pos /\ ~ (h = kpos_Committing_Height pos /\ r = kpos_Committing_Round pos).
Proof.
  unfold find_view. cbv zeta. MirrorChain.break_ifs; intros E; inversion E; subst; intros Hst;
    try (exfalso; revert Hst; unfold ViewFound, ViewOrphaned, ViewFuture, ViewBeforeCommitting; discriminate).
  all: repeat match goal with
           | X : (_ =? _) = true |- _ => apply N.eqb_eq in X
           | X : (_ =? _) = false |- _ => apply N.eqb_neq in X
           | X : (_ <? _) = true |- _ => apply N.ltb_lt in X
           | X : (_ <? _) = false |- _ => apply N.ltb_ge in X
           end.
  all: split; [assumption|intros [A B]; lia].
Qed.

Lemma enter_found_pos k h r vid st :
  kinv (views k) -> find_view (kpos_of k) h r = Ok (vid, st) -> st = ViewFound ->
  v_h (get_view k vid) = h /\ v_r (get_view k vid) = r.
Proof.
  intros Hk Hfv Hst. unfold views in Hk. destruct Hk as (K1&K2&K3&K4&K5&K6&K7&K8).
  destruct (MirrorChain.find_view_found _ _ _ _ _ Hfv Hst) as [(A&B&C)|[(A&B&C)|(A&B&C&D)]]; cbn in B, C; subst vid.
  - unfold get_view. cbn. split; congruence.
  - unfold get_view. cbn. split; [congruence|]. rewrite C. unfold wrap32. rewrite K2. symmetry. apply N.mod_small. lia.
  - unfold get_view. cbn. split; congruence.
Qed.

Lemma sc_run : forall ops s s' ios,
  forallb no_restart ops = true -> mrun s ops = Ok (s', ios) ->
  Forall ev_ok (st_ev (ms_k s')) -> SC s -> SC s'.
Proof.
  induction ops as [|o rest IH]; intros s s' ios Hall; cbn [mrun].
  - intros E; inversion E; subst. auto.
  - cbn [forallb] in Hall. apply andb_true_iff in Hall as [Ho Hr].
    destruct (mstep s o) as [[[s1 r] io]|] eqn:Hs; [|discriminate].
    destruct (mrun s1 rest) as [[s2 ios2]|] eqn:Hm; [|discriminate].
    intros E; inversion E; subst. intros Hok (HSG&HLI&HCI&Ha).
    destruct (mrun_ext _ _ _ _ Hr Hm) as (n2&E2). pose proof Hok as Hfin. rewrite E2 in Hok. apply ok_prefix in Hok as [Hok1 Hok2].
    apply (IH s1 s' ios2 Hr Hm Hfin).
    assert (HSG1 : SG s1).
    { apply (sg_run [o] s s1 [io]); [cbn [forallb]; rewrite andb_true_r; exact Ho
                                    |cbn [mrun]; rewrite Hs; reflexivity|exact Hok1|exact HSG]. }
    split; [exact HSG1|]. destruct HSG as [Hkinv Hout]. unfold sm_of in *.
    destruct o as [[o| |]|h0 r0| | |h0 r0 key0|a]; cbn [no_restart is_restart_x negb] in Ho; try discriminate.
    + destruct (mk_step_syncw _ _ _ _ _ Ha Hs) as (Ha1&new&He&H3&HY&Hm1).
      rewrite He in Hok1. apply ok_prefix in Hok1 as [Hok0 Hoknew].
      destruct (H3 Hoknew Hkinv) as (K1&S&P&M&Nn&O).
      destruct (fold_mgr_step_sm_fixed new (ms_m s)) as (Fh&Fr&Fl).
      split; [|split; [|exact Ha1]].
      * unfold LI. rewrite Hm1, Fh, Fr, Fl. destruct HLI as [L0|(b&B1&B2&B3&B4)]; [left; exact L0|].
        right. exists b. split; [exact B1|]. split; [exact B2|]. split; [exact B3|]. apply P, B4.
      * unfold CI. rewrite Hm1, Fh, Fr, Fl, fold_mgr_sm_track. intros vid Hvid Vh Vr Vlt.
        exact (sm_sync_events (views (ms_k s)) (views (ms_k s1)) new _ _ _ _ vid Hoknew Hkinv H3 HY Hvid HCI Vh Vr Vlt).
    + revert Hs. cbn [mstep]. unfold bind. destruct (find_view _ _ _) as [[vid0 st]|] eqn:Hfv; [|discriminate].
      destruct (st =? ViewFound) eqn:Hst.
      * intros E1; inversion E1; subst. cbn [ms_m ms_k m_sm]. apply N.eqb_eq in Hst.
        destruct (enter_found_pos _ _ _ _ _ Hkinv Hfv Hst) as [Ph Pr]. rewrite get_view_get3 in *.
        split; [|split; [|exact Ha]].
        -- right. exists (get3 (views (ms_k s)) vid0). cbn [smm_last smm_h smm_r].
           split; [reflexivity|]. split; [exact Ph|]. split; [exact Pr|]. apply past_get3. exact Hkinv.
        -- intros vid Hvid. cbn [smm_last smm_h smm_r smm_out]. intros Vh Vr Vlt. exfalso.
           assert (Q : vq (get3 (views (ms_k s)) vid) (get3 (views (ms_k s)) vid0)).
           { apply past_below_get3; [apply past_get3; exact Hkinv|split; congruence]. }
           destruct Q as [Q _]. lia.
      * destruct (st =? ViewBeforeCommitting) eqn:Hst2; [|discriminate].
        destruct (hdr_get _ _) as [[x cp]|]; [|discriminate]. intros E1; inversion E1; subst. cbn [ms_m ms_k m_sm].
        apply N.eqb_eq in Hst2. destruct (find_view_before _ _ _ _ _ Hfv Hst2) as [NV NC]. cbn in NV, NC.
        split; [left; reflexivity|split; [|exact Ha]].
        intros vid Hvid. cbn [smm_last smm_h smm_r smm_out]. intros Vh Vr _. exfalso.
        destruct Hvid as [->| ->]; unfold get3, views in Vh, Vr; cbn in Vh, Vr; [apply NV; congruence|apply NC; split; congruence].
    + revert Hs. cbn [mstep]. destruct (sm_output _) as [[[vv jv] sv]|] eqn:Hso; intros E1; inversion E1; subst;
        [|split; [exact HLI|split; [exact HCI|exact Ha]]].
      cbn [ms_m ms_k m_sm]. destruct (sm_output_spec _ _ _ _ Hso) as [Sv Sn]. destruct (sm_output_src _ _ _ _ Hso) as [Ov _].
      split; [|split; [|exact Ha]].
      * unfold LI, sm_mark_sent. cbn [smm_last smm_h smm_r]. destruct vv as [v|].
        -- destruct (Sv v eq_refl) as (Vh&Vr&Vlt&Vsv). pose proof (Ov v eq_refl) as Vo. subst v.
           right. exists (smm_out (m_sm (ms_m s))). split; [exact Vsv|]. split; [exact Vh|]. split; [exact Vr|exact Hout].
        -- rewrite (Sn eq_refl). exact HLI.
      * unfold CI, sm_mark_sent. cbn [smm_last smm_h smm_r smm_out]. intros vid Hvid Vh Vr Vlt. destruct vv as [v|].
        -- destruct (Sv v eq_refl) as (Oh&Or&Olt&Osv). pose proof (Ov v eq_refl) as Vo. subst v.
           apply (HCI vid Hvid Vh Vr). lia.
        -- rewrite (Sn eq_refl) in Vlt. apply (HCI vid Hvid Vh Vr Vlt).
    + revert Hs. cbn [mstep]. destruct (g_output _) as [[[[c v] n] nl]|]; intros E1; inversion E1; subst;
        split; [exact HLI|split; [exact HCI|exact Ha]|exact HLI|split; [exact HCI|exact Ha]].
    + revert Hs. cbn [mstep]. unfold bind. destruct (find_view _ _ _) as [[vid0 st]|] eqn:Hfv; [|discriminate].
      destruct (st =? ViewFound) eqn:Hst.
      * intros E1; inversion E1; subst. cbn [ms_m ms_k m_sm]. apply N.eqb_eq in Hst.
        destruct (enter_found_pos _ _ _ _ _ Hkinv Hfv Hst) as [Ph Pr]. rewrite get_view_get3 in *.
        split; [|split; [|exact Ha]].
        -- right. exists (get3 (views (ms_k s)) vid0). cbn [smm_last smm_h smm_r].
           split; [reflexivity|]. split; [exact Ph|]. split; [exact Pr|]. apply past_get3. exact Hkinv.
        -- intros vid Hvid. cbn [smm_last smm_h smm_r smm_out]. intros Vh Vr Vlt. exfalso.
           assert (Q : vq (get3 (views (ms_k s)) vid) (get3 (views (ms_k s)) vid0)).
           { apply past_below_get3; [apply past_get3; exact Hkinv|split; congruence]. }
           destruct Q as [Q _]. lia.
      * destruct (st =? ViewBeforeCommitting) eqn:Hst2; [|discriminate].
        destruct (hdr_get _ _) as [[x cp]|]; [|discriminate]. intros E1; inversion E1; subst. cbn [ms_m ms_k m_sm].
        apply N.eqb_eq in Hst2. destruct (find_view_before _ _ _ _ _ Hfv Hst2) as [NV NC]. cbn in NV, NC.
        split; [left; reflexivity|split; [|exact Ha]].
        intros vid Hvid. cbn [smm_last smm_h smm_r smm_out]. intros Vh Vr _. exfalso.
        destruct Hvid as [->| ->]; unfold get3, views in Vh, Vr; cbn in Vh, Vr; [apply NV; congruence|apply NC; split; congruence].
    + destruct (mact_step_syncw _ _ _ _ _ Ha Hs) as (Ha1&new&He&H3&HY&Hm1).
      rewrite He in Hok1. apply ok_prefix in Hok1 as [Hok0 Hoknew].
      destruct (H3 Hoknew Hkinv) as (K1&S&P&M&Nn&O).
      destruct (fold_mgr_step_sm_fixed new (ms_m s)) as (Fh&Fr&Fl).
      split; [|split; [|exact Ha1]].
      * unfold LI. rewrite Hm1, Fh, Fr, Fl. destruct HLI as [L0|(b&B1&B2&B3&B4)]; [left; exact L0|].
        right. exists b. split; [exact B1|]. split; [exact B2|]. split; [exact B3|]. apply P, B4.
      * unfold CI. rewrite Hm1, Fh, Fr, Fl, fold_mgr_sm_track. intros vid Hvid Vh Vr Vlt.
        exact (sm_sync_events (views (ms_k s)) (views (ms_k s1)) new _ _ _ _ vid Hoknew Hkinv H3 HY Hvid HCI Vh Vr Vlt).
Qed.

Lemma SC_init ih ivs : 1 <= ih -> ih < two64 -> SC (ms_init ih ivs).
Proof.
  intros H1 H2. split; [apply SG_init; assumption|].
  destruct (fold_mgr_step_sm_fixed (st_ev (init_state ih ivs)) mgrs0) as (Fh&Fr&Fl).
  unfold sm_of, ms_init. cbn [ms_m ms_k]. split; [|split; [|apply auth_init]].
  - left. rewrite Fl. reflexivity.
  - unfold CI. rewrite Fh, Fr, Fl. cbn [mgrs0 m_sm smm0 smm_h smm_r smm_last].
    intros vid [->| ->]; unfold get3, views, init_state; cbn; intros Vh Vr Vlt; lia.
Qed.

Lemma sm_output_none m : sm_output m = None ->
  v_h (smm_out m) = smm_h m -> v_r (smm_out m) = smm_r m -> smm_last m < v_ver (smm_out m) -> False.
Proof.
  unfold sm_output. intros Ho Hh Hr Hlt. rewrite Hh, Hr, !N.eqb_refl in Ho. cbn [andb] in Ho.
  pose proof Hlt as Hlt'. apply N.ltb_lt in Hlt'. rewrite Hlt' in Ho.
  assert (H0 : 0 <? v_ver (smm_out m) = true) by (apply N.ltb_lt; lia).
  destruct (smm_jump m); rewrite H0 in Ho; discriminate.
Qed.

(** all histories without crash / restart, replayed headers included *)
Theorem sm_current_after_empty_read ih ivs ops s' ios s'' c :
  1 <= ih -> ih < two64 ->
  forallb no_restart ops = true -> mrun (ms_init ih ivs) ops = Ok (s', ios) ->
  Forall ev_ok (st_ev (ms_k s')) ->
  mstep s' MSMRead = Ok (s'', c, IOEmpty) ->
  forall vid, vid = ViewIDVoting \/ vid = ViewIDCommitting ->
  v_h (get_view (ms_k s'') vid) = smm_h (sm_of s'') -> v_r (get_view (ms_k s'') vid) = smm_r (sm_of s'') ->
  smm_last (sm_of s'') = v_ver (get_view (ms_k s'') vid).
Proof.
  intros H1 H2 Hall Hrun Hok Hrd.
  destruct (sc_run _ _ _ _ Hall Hrun Hok (SC_init ih ivs H1 H2)) as ([Hk Hout]&HLI&HCI&_).
  revert Hrd. cbn [mstep]. destruct (sm_output _) as [[[vv jv] sv]|] eqn:Ho; intros E; inversion E; subst.
  intros vid Hvid Vh Vr. unfold sm_of in *. rewrite get_view_get3 in *.
  assert (Hle : smm_last (m_sm (ms_m s'')) <= v_ver (get3 (views (ms_k s'')) vid)).
  { destruct HLI as [L0|(b&B1&B2&B3&B4)]; [lia|]. rewrite B1.
    apply (past_below_get3 _ _ vid B4). split; congruence. }
  destruct (N.eq_dec (smm_last (m_sm (ms_m s''))) (v_ver (get3 (views (ms_k s'')) vid))) as [E1|Ne]; [exact E1|].
  exfalso. assert (Hlt : smm_last (m_sm (ms_m s'')) < v_ver (get3 (views (ms_k s'')) vid)) by lia.
  destruct (HCI vid Hvid Vh Vr Hlt) as (Oh&Or&Ov).
  apply (sm_output_none _ Ho Oh Or). rewrite Ov. exact Hlt.
Qed.

(** * Replayed headers and restarts *)

(** Two witnesses found by this development were confirmed on the Go code and repaired there, and
    the model followed: (1) a REJECTED replayed header used to stay in the voting view's proposed
    headers (handleReplayedHeader now validates before it changes anything); (2) an ACCEPTED one
    used to be stored, with its precommits, without version bump or MarkVotingViewUpdated, which
    left both consumers on the old content whenever the commit check that follows did not move the
    voting view on (the validator had precommitted two blocks).  Both are gone: [SY_step] and the
    currency theorems hold for all four kinds of kernel operation. *)

(** a rejected replay is the identity on the kernel state (all rejections, result 2; result 1 is
    the out-of-sync answer) *)
Theorem rejected_replay_is_identity s hd cp s' res :
  handle_replay s hd cp = Ok (s', res) -> res <> 0 -> s' = s.
Proof.
  unfold handle_replay.
  destruct (negb (hd_height hd =? _)); [intros E; inversion E; reflexivity|].
  destruct (cp_round cp <? _); [discriminate|].
  destruct (negb (_ && _)); [discriminate|].
  assert (Hsame : forall r0, Ok (s, r0) = Ok (s', res) -> res <> 0 -> s' = s) by (intros r0 E; inversion E; reflexivity).
  destruct (negb (hd_ok hd)); [apply Hsame|].
  destruct (negb (hd_height hd =? _) && _); [apply Hsame|].
  destruct (negb (valset_equal _ _ && _)); [apply Hsame|].
  destruct (negb (vs_ok (hd_next hd))); [apply Hsame|].
  destruct (fold_left _ (signed_entries (cp_proofs cp)) ([], true)) as [temp allv].
  destruct (negb allv); [apply Hsame|].
  destruct (pm_get temp (hd_hash hd)); [|apply Hsame].
  unfold bind at 1. destruct (byz_majority _); [|discriminate].
  destruct (_ <? _); [apply Hsame|].
  unfold bind. destruct (if existsb _ (v_phs _) then _ else _); [|discriminate].
  destruct (check_voting_precommit_shift _); [|discriminate].
  intros E; inversion E; subst. intros H; exfalso; apply H; reflexivity.
Qed.

(** why restarts are excluded: after a restart the views are reloaded with version 1 *)
Definition w_pv : vmsg := mk_vmsg 1 0 [1] [([7], [mk_ssig [0; 0] (SVote 0 0 1 0 [7])])].
Definition w_restart_ops : list mop := [MGRead; MK (XOp (OpPrevote w_pv)); MGRead; MK XRestart; MGRead].

Theorem gossip_versions_across_restart_refuted :
  exists s' ios, mrun (ms_init 1 n_vs) w_restart_ops = Ok (s', ios) /\
    map triple (nth_deliveries ViewIDVoting ios) = [(1, 0, 1); (1, 0, 2); (1, 0, 1)].
Proof. eexists. eexists. split; vm_compute; reflexivity. Qed.
