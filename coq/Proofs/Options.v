(** C09 (ii): tmengine.New / tmengine.NewMirror as a fold of the extracted option table.
    General lemmas over ANY option table and constructor shape satisfying boolean side conditions; the side
    conditions are then checked on the generated data (Gen/Options.v) by [vm_compute]. *)
From Coq Require Import List String Bool Lia.
From GV Require Import Model.OptTypes Model.Options Gen.Options Monitors.C09m.
Import ListNotations.
Local Open Scope string_scope.
Local Open Scope list_scope.

(** ** No panic *)

Lemma apply_writes_ok : forall name s ws c, exists c', apply_writes false name s ws c = OROk c'.
Proof.
  intros name s ws. induction ws as [|w t IH]; intros c; cbn [apply_writes].
  - eexists; reflexivity.
  - assert (E : (match w_guard w with Some g => target_nil false g | None => false end) = false).
    { destruct (w_guard w) as [[|]|]; reflexivity. }
    rewrite E. assert (E2 : target_nil false (w_target w) = false) by (destruct (w_target w); reflexivity).
    rewrite E2. apply IH.
Qed.

(** the option loop with a non-nil state machine config never panics, and with accumulation its error list is
    exactly the rejected options in order *)
Lemma apply_opts_acc : forall table opts c errs,
  exists c', apply_opts false true table opts c errs = FOk c' (errs ++ rejected_opts table opts).
Proof.
  intros table opts. induction opts as [|[n a] t IH]; intros c errs; cbn [apply_opts rejected_opts flat_map fst snd].
  - exists c. rewrite app_nil_r. reflexivity.
  - unfold rejects. destruct (find_opt n table) as [o|] eqn:F.
    + unfold apply_opt. destruct (o_can_err o && is_bad a) eqn:R.
      * destruct (IH c (errs ++ [n])) as [c' H]. exists c'. rewrite H. rewrite <- app_assoc. reflexivity.
      * destruct (apply_writes_ok (o_name o) (arg_status a) (o_writes o) c) as [c1 W]. rewrite W.
        destruct (IH c1 errs) as [c' H]. exists c'. rewrite H. reflexivity.
    + destruct (IH c errs) as [c' H]. exists c'. rewrite H. reflexivity.
Qed.

Lemma apply_opts_ok : forall acc table opts c errs,
  exists c' errs', apply_opts false acc table opts c errs = FOk c' errs'.
Proof.
  intros acc table opts. induction opts as [|[n a] t IH]; intros c errs; cbn [apply_opts].
  - eexists; eexists; reflexivity.
  - destruct (find_opt n table) as [o|]; [| apply IH].
    unfold apply_opt. destruct (o_can_err o && is_bad a); [apply IH |].
    destruct (apply_writes_ok (o_name o) (arg_status a) (o_writes o) c) as [c1 W]. rewrite W. apply IH.
Qed.

Lemma apply_derived_ok : forall ci ds c, forallb d_guarded ds = true -> exists c', apply_derived ci ds c = DOk c'.
Proof.
  intros ci ds. induction ds as [|d t IH]; intros c G; cbn [apply_derived].
  - eexists; reflexivity.
  - cbn [forallb] in G. apply andb_true_iff in G. destruct G as [G1 G2].
    destruct (c (d_src d)); [rewrite G1 |..]; apply IH; exact G2.
Qed.

Fixpoint cond_eqb (a b : cond) : bool :=
  match a, b with
  | CNil f, CNil g | CNotNil f, CNotNil g | CEmpty f, CEmpty g => String.eqb f g
  | CAnd a1 a2, CAnd b1 b2 => cond_eqb a1 b1 && cond_eqb a2 b2
  | _, _ => false
  end.

Lemma cond_eqb_eq : forall a b, cond_eqb a b = true -> a = b.
Proof.
  induction a; destruct b; cbn; intros H; try discriminate;
    try (apply String.eqb_eq in H; subst; reflexivity).
  apply andb_true_iff in H. destruct H as [H1 H2]. f_equal; auto.
Qed.

Lemma failing_nil : forall c checks, failing c checks = [] ->
  forall v, In v checks -> eval_cond c (v_cond v) = false.
Proof.
  intros c checks. induction checks as [|v0 t IH]; intros H v Hin; [contradiction |].
  unfold failing in H. cbn [flat_map] in H. apply app_eq_nil in H. destruct H as [H0 Ht].
  destruct Hin as [->|Hin].
  - destruct (eval_cond c (v_cond v)); [discriminate | reflexivity].
  - apply IH; assumption.
Qed.

Definition no_panic_shape (k : ctor) : bool :=
  negb (c_smc_nil k) && forallb d_guarded (c_derived k) &&
  forallb (fun s => existsb (fun v => cond_eqb (v_cond v) s) (c_checks k ++ c_final_checks k)) (c_sink_panics k).

Lemma no_panic_general : forall k table ci opts, no_panic_shape k = true ->
  forall s, run_ctor k table ci opts <> CPanic s.
Proof.
  intros k table ci opts H s. unfold no_panic_shape in H.
  apply andb_true_iff in H. destruct H as [H H3]. apply andb_true_iff in H. destruct H as [H1 H2].
  apply negb_true_iff in H1. unfold run_ctor. rewrite H1.
  destruct (apply_opts_ok (c_accumulates k) table opts cfg0 []) as [c [errs E]]. rewrite E.
  destruct errs; [| discriminate].
  destruct (apply_derived_ok ci (c_derived k) c H2) as [c' D]. rewrite D.
  destruct (failing c' (c_checks k)) eqn:F1; [| discriminate].
  destruct (if ci then [] else failing c' (c_late_checks k)); [| discriminate].
  destruct (failing c' (c_final_checks k)) eqn:F2; [| discriminate].
  assert (S : existsb (eval_cond c') (c_sink_panics k) = false).
  { apply not_true_is_false. intros Ex. apply existsb_exists in Ex. destruct Ex as [sk [Hin Hev]].
    rewrite forallb_forall in H3. specialize (H3 sk Hin). apply existsb_exists in H3.
    destruct H3 as [v [Hv Heq]]. apply cond_eqb_eq in Heq. subst sk.
    apply in_app_or in Hv. destruct Hv as [Hv|Hv].
    - rewrite (failing_nil c' _ F1 v Hv) in Hev. discriminate.
    - rewrite (failing_nil c' _ F2 v Hv) in Hev. discriminate. }
  rewrite S. discriminate.
Qed.

Lemma constructor_never_panics : forall ci opts s,
  run_ctor ctor_New option_table ci opts <> CPanic s /\ run_ctor ctor_NewMirror option_table ci opts <> CPanic s.
Proof.
  intros ci opts s. split; apply no_panic_general; vm_compute; reflexivity.
Qed.

(** ** Every rejected option is reported *)

Definition accumulating_shape (k : ctor) : bool := negb (c_smc_nil k) && c_accumulates k.

Lemma rejected_reported_general : forall k table ci opts, accumulating_shape k = true ->
  rejected_opts table opts <> [] -> run_ctor k table ci opts = CError (rejected_opts table opts).
Proof.
  intros k table ci opts H R. unfold accumulating_shape in H. apply andb_true_iff in H. destruct H as [H1 H2].
  apply negb_true_iff in H1. unfold run_ctor. rewrite H1, H2.
  destruct (apply_opts_acc table opts cfg0 []) as [c E]. rewrite E. cbn [app].
  destruct (rejected_opts table opts); [contradiction | reflexivity].
Qed.

Lemma constructor_reports_every_rejected_value : forall ci opts,
  rejected_opts option_table opts <> [] ->
  run_ctor ctor_New option_table ci opts = CError (rejected_opts option_table opts) /\
  run_ctor ctor_NewMirror option_table ci opts = CError (rejected_opts option_table opts).
Proof.
  intros ci opts R. split; apply rejected_reported_general; try exact R; vm_compute; reflexivity.
Qed.

Lemma in_rejected_opts : forall table opts n a, In (n, a) opts -> rejects table n a = true -> In n (rejected_opts table opts).
Proof.
  intros table opts n a Hin R. unfold rejected_opts. apply in_flat_map. exists (n, a). split; [exact Hin |].
  cbn [fst snd]. rewrite R. left. reflexivity.
Qed.

(** user-facing form: any option of the list whose own check rejects its value is named by the error *)
Lemma rejected_value_named : forall ci opts n a, In (n, a) opts -> rejects option_table n a = true ->
  (exists rep, run_ctor ctor_New option_table ci opts = CError rep /\ In n rep) /\
  (exists rep, run_ctor ctor_NewMirror option_table ci opts = CError rep /\ In n rep).
Proof.
  intros ci opts n a Hin R.
  pose proof (in_rejected_opts option_table opts n a Hin R) as I.
  assert (NE : rejected_opts option_table opts <> []) by (intros E; rewrite E in I; contradiction).
  destruct (constructor_reports_every_rejected_value ci opts NE) as [A B].
  split; eexists; split; eauto.
Qed.

(** ** Non-vacuity: the complete option list yields a running instance, on both constructors *)
Definition full_opts : list (string * argval) := map (fun o => (o_name o, VSet)) option_table.
Example full_list_runs :
  fst (obs_of (run_ctor ctor_New option_table false full_opts)) = 2 /\
  fst (obs_of (run_ctor ctor_NewMirror option_table false full_opts)) = 2 /\
  rejects option_table "WithLagStateChannel" VBad = true.
Proof. vm_compute. auto. Qed.

(** ** A running instance passed every validation; which documented-required options a validation covers *)

Lemma running_passed_every_check : forall k table ci opts c,
  run_ctor k table ci opts = CRunning c ->
  forall v, In v (c_checks k ++ c_final_checks k) -> eval_cond c (v_cond v) = false.
Proof.
  intros k table ci opts c H v Hin. unfold run_ctor in H.
  destruct (apply_opts (c_smc_nil k) (c_accumulates k) table opts cfg0 []) as [s|c0 errs]; [discriminate |].
  destruct errs; [| discriminate].
  destruct (apply_derived ci (c_derived k) c0) as [s|c1]; [discriminate |].
  destruct (failing c1 (c_checks k)) eqn:F1; [| discriminate].
  destruct (if ci then [] else failing c1 (c_late_checks k)); [| discriminate].
  destruct (failing c1 (c_final_checks k)) eqn:F2; [| discriminate].
  destruct (existsb (eval_cond c1) (c_sink_panics k)); [discriminate |].
  inversion H; subst c1. apply in_app_or in Hin. destruct Hin as [Hin|Hin].
  - exact (failing_nil c _ F1 v Hin).
  - exact (failing_nil c _ F2 v Hin).
Qed.

(** option [o] is covered by constructor [k] when some validation names it and tests one of the fields it
    writes for nil (or tests, for emptiness, a field derived from one it writes) *)
Definition covered (k : ctor) (o : optinfo) : bool :=
  existsb (fun v => String.eqb (v_option v) (o_name o) &&
     match v_cond v with
     | CNil f => existsb (fun w => String.eqb (w_field w) f) (o_writes o)
     | CEmpty f => existsb (fun d => String.eqb (d_dst d) f &&
                                     existsb (fun w => String.eqb (w_field w) (d_src d)) (o_writes o)) (c_derived k)
     | _ => false
     end) (c_checks k).

Definition uncovered (k : ctor) (table : list optinfo) : list string :=
  map o_name (filter (fun o => o_required_doc o && relevant k o && negb (covered k o)) table).

(** the standalone mirror validates every documented-required option it consumes *)
Lemma mirror_validates_every_required_option : uncovered ctor_NewMirror option_table = [].
Proof. vm_compute. reflexivity. Qed.

(** FINDING (known-findings.txt, key ctor-New-unreported-WithCommittedHeaderStore): the full engine does not.
    Full statement [uncovered ctor_New option_table = []] is refuted; the exact exception set is: *)
Lemma engine_validates_every_required_option_refuted : uncovered ctor_New option_table <> [].
Proof. vm_compute. discriminate. Qed.
Lemma engine_validates_every_required_option_partial :
  uncovered ctor_New option_table = ["WithCommittedHeaderStore"].
Proof. vm_compute. reflexivity. Qed.

(** witness of the finding on the model: every option except WithCommittedHeaderStore => a running engine whose
    committed header store is nil *)
Lemma engine_runs_without_committed_header_store :
  exists c, run_ctor ctor_New option_table false
              (filter (fun p => negb (String.eqb (fst p) "WithCommittedHeaderStore")) full_opts) = CRunning c /\
            c "e.mCfg.CommittedHeaderStore" = SNil.
Proof. eexists. split; vm_compute; reflexivity. Qed.
