(** Proofs for C20 (relay only if the local handler accepted). *)
From Coq Require Import List NArith ZArith String Bool Lia.
From GV Require Import Base.Ints Model.P2PRelayVocab Gen.Feedback Gen.RelaySwap Model.P2PRelay Monitors.C20m.
Import ListNotations.
Local Open Scope N_scope.

(** * A. the generated feedback mapping *)

Ltac unfold_fb := unfold exchange_feedback_to_libp2p, ValidationAccept, ValidationReject, ValidationIgnore,
  FeedbackAccepted, FeedbackRejected, FeedbackIgnored, FeedbackUnspecified, FeedbackRejectAndDisconnect in *.

Lemma feedback_cases f :
  exchange_feedback_to_libp2p f =
    Ok (if f =? FeedbackAccepted then ValidationAccept
        else if f =? FeedbackRejected then ValidationReject else ValidationIgnore).
Proof.
  unfold_fb. cbv zeta.
  destruct (N.eqb_spec f 1); [reflexivity|].
  destruct (N.eqb_spec f 2); [reflexivity|].
  destruct (N.eqb_spec f 3); reflexivity.
Qed.

Theorem accept_iff_accepted f :
  exchange_feedback_to_libp2p f = Ok ValidationAccept <-> f = FeedbackAccepted.
Proof.
  rewrite feedback_cases. unfold_fb.
  destruct (N.eqb_spec f 1); [tauto|].
  destruct (N.eqb_spec f 2); split; intros H; try discriminate; congruence.
Qed.

Theorem feedback_total f : exists z, exchange_feedback_to_libp2p f = Ok z /\
  (z = ValidationAccept \/ z = ValidationReject \/ z = ValidationIgnore).
Proof.
  rewrite feedback_cases. eexists; split; [reflexivity|].
  destruct (f =? FeedbackAccepted); [tauto|]. destruct (f =? FeedbackRejected); tauto.
Qed.

(** Every value outside the enumeration (and also Unspecified / RejectAndDisconnect) is treated as ignore. *)
Theorem out_of_range_ignored f :
  ~ In f all_Feedback -> exchange_feedback_to_libp2p f = Ok ValidationIgnore.
Proof.
  intros H. rewrite feedback_cases. unfold all_Feedback in H. unfold_fb.
  destruct (N.eqb_spec f 1) as [->|]; [exfalso; apply H; simpl; tauto|].
  destruct (N.eqb_spec f 2) as [->|]; [exfalso; apply H; simpl; tauto|]. reflexivity.
Qed.

Theorem non_accept_reject_ignored f :
  f <> FeedbackAccepted -> f <> FeedbackRejected -> exchange_feedback_to_libp2p f = Ok ValidationIgnore.
Proof.
  intros H1 H2. rewrite feedback_cases.
  destruct (N.eqb_spec f FeedbackAccepted); [contradiction|].
  destruct (N.eqb_spec f FeedbackRejected); [contradiction|]. reflexivity.
Qed.

Example feedback_examples :
  exchange_feedback_to_libp2p 1 = Ok 0%Z /\ exchange_feedback_to_libp2p 2 = Ok 1%Z /\
  exchange_feedback_to_libp2p 0 = Ok 2%Z /\ exchange_feedback_to_libp2p 4 = Ok 2%Z /\
  exchange_feedback_to_libp2p 255 = Ok 2%Z.
Proof. vm_compute. repeat split. Qed.

Theorem model_satisfies_feedback_mon f :
  exists r, exchange_feedback_to_libp2p f = Ok r /\ c20_feedback_mon f r = true.
Proof.
  rewrite feedback_cases. eexists; split; [reflexivity|].
  unfold c20_feedback_mon. unfold_fb.
  destruct (N.eqb_spec f 1) as [->|]; [reflexivity|].
  destruct (N.eqb_spec f 2) as [->|]; [reflexivity|].
  cbn [Z.eqb Bool.eqb andb]. destruct (4 <? f); reflexivity.
Qed.

(** * B. the validator wrapper *)

Definition first_variant (d : dmsg) : option call :=
  match d_ph d with Some i => Some (KPH, i) | None =>
  match d_pv d with Some i => Some (KPV, i) | None =>
  match d_pc d with Some i => Some (KPC, i) | None => None end end end.

(** Handler [hf] accepted network message [m]: it decodes, carries a variant, and the verdict on the
    (first) variant is FeedbackAccepted. *)
Definition accepted_by (hf : handler) (m : netmsg) : Prop :=
  exists d k i, body m = Decoded d /\ first_variant d = Some (k, i) /\ hf k i = FeedbackAccepted.

Theorem wrapper_spec h m :
  wrapper h m =
    if from_self m then (Ok ValidationAccept, [])
    else match body m with
         | Undecodable => (Ok ValidationIgnore, [])
         | Decoded d =>
             match h, first_variant d with
             | Some hf, Some (k, i) => (exchange_feedback_to_libp2p (hf k i), [(k, i)])
             | _, _ => (Ok ValidationReject, [])
             end
         end.
Proof.
  unfold wrapper, first_variant. destruct (from_self m); [reflexivity|].
  destruct (body m) as [|d]; [reflexivity|].
  destruct h as [hf|]; destruct (d_ph d), (d_pv d), (d_pc d); reflexivity.
Qed.

Theorem wrapper_total h m : exists z, fst (wrapper h m) = Ok z.
Proof.
  rewrite wrapper_spec. destruct (from_self m); [eexists; reflexivity|].
  destruct (body m) as [|d]; [eexists; reflexivity|].
  destruct h as [hf|]; [|eexists; reflexivity].
  destruct (first_variant d) as [[k i]|]; [|eexists; reflexivity].
  cbn [fst]. destruct (feedback_total (hf k i)) as (z & -> & _). eexists; reflexivity.
Qed.

(** The handler is asked at most once, never for own or undecodable messages, and only about the first variant. *)
Theorem wrapper_calls h m :
  snd (wrapper h m) = [] \/
  exists hf d k i, h = Some hf /\ from_self m = false /\ body m = Decoded d /\
                   first_variant d = Some (k, i) /\ snd (wrapper h m) = [(k, i)].
Proof.
  rewrite wrapper_spec. destruct (from_self m) eqn:?; [left; reflexivity|].
  destruct (body m) as [|d] eqn:?; [left; reflexivity|].
  destruct h as [hf|]; [|left; reflexivity].
  destruct (first_variant d) as [[k i]|] eqn:?; [|left; reflexivity].
  right. exists hf, d, k, i. repeat split; auto.
Qed.

(** A message from the network passes the wrapper iff an installed handler accepted it. *)
Theorem wrapper_accept h m : from_self m = false ->
  (fst (wrapper h m) = Ok ValidationAccept <-> exists hf, h = Some hf /\ accepted_by hf m).
Proof.
  intros Hs. rewrite wrapper_spec, Hs. unfold accepted_by.
  destruct (body m) as [|d] eqn:Hb.
  - split; [discriminate|]. intros (hf & _ & d & k & i & H & _). discriminate.
  - destruct h as [hf|].
    + destruct (first_variant d) as [[k i]|] eqn:Hv; cbn [fst].
      * rewrite accept_iff_accepted. split.
        -- intros H. exists hf. split; [reflexivity|]. exists d, k, i. auto.
        -- intros (hf' & Heq & d' & k' & i' & Hd & Hv' & Hf). inversion Heq; subst hf'.
           inversion Hd; subst d'. rewrite Hv in Hv'. inversion Hv'; subst. exact Hf.
      * split; [discriminate|]. intros (hf' & _ & d' & k' & i' & Hd & Hv' & _).
        inversion Hd; subst d'. rewrite Hv in Hv'. discriminate.
    + split; [destruct (first_variant d) as [[? ?]|]; discriminate|]. intros (hf & H & _). discriminate.
Qed.

Corollary wrapper_nil_never_accepts m : from_self m = false -> fst (wrapper None m) <> Ok ValidationAccept.
Proof. intros Hs H. apply (wrapper_accept None m Hs) in H. destruct H as (hf & H & _). discriminate. Qed.

Example wrapper_examples :
  wrapper (Some (tbl_kind 1 2 3)) (mk_netmsg false (Decoded (mk_dmsg (Some 5) None None))) = (Ok 0%Z, [(KPH, 5)]) /\
  wrapper (Some (tbl_kind 9 1 1)) (mk_netmsg false (Decoded (mk_dmsg (Some 5) (Some 5) None))) = (Ok 2%Z, [(KPH, 5)]) /\
  wrapper None (mk_netmsg false (Decoded (mk_dmsg (Some 5) None None))) = (Ok 1%Z, []) /\
  wrapper (Some (tbl_kind 1 1 1)) (mk_netmsg false Undecodable) = (Ok 2%Z, []) /\
  wrapper None (mk_netmsg true Undecodable) = (Ok 0%Z, []).
Proof. vm_compute. repeat split. Qed.

(** The wrapper's outputs always satisfy the wrapper monitor (observation built as checks/c20.py builds it). *)
Definition wobs_of (h : option handler) (m : netmsg) : wobs :=
  let '(r, calls) := wrapper h m in
  mk_wobs (from_self m)
          (match body m with Decoded _ => true | Undecodable => false end)
          (match body m with Decoded d => match first_variant d with Some _ => true | None => false end | _ => false end)
          (match h with Some _ => true | None => false end)
          (match h, calls with Some hf, (k, i) :: _ => Some (hf k i) | _, _ => None end)
          (N.of_nat (List.length calls))
          (match r with Ok z => Some z | Panic _ => None end).

Theorem model_satisfies_wrapper_mon h m : c20_wrapper_mon (wobs_of h m) = true.
Proof.
  unfold wobs_of. rewrite wrapper_spec. unfold c20_wrapper_mon.
  destruct (from_self m); [destruct h; reflexivity|].
  destruct (body m) as [|d]; [destruct h; reflexivity|].
  destruct h as [hf|]; [|destruct (first_variant d) as [[? ?]|]; reflexivity].
  destruct (first_variant d) as [[k i]|]; [|reflexivity].
  rewrite feedback_cases. cbn -[N.eqb N.ltb Z.eqb]. unfold_fb.
  destruct (N.eqb_spec (hf k i) 1) as [->|]; [reflexivity|].
  destruct (N.eqb_spec (hf k i) 2) as [->|]; [reflexivity|].
  cbn. destruct (4 <? hf k i); reflexivity.
Qed.

(** * C. the registry transition system: relay only if accepted, for every interleaving *)

(** Abstract interpretation of an op list (independent of handlers): is the node subscribed, and which kind
    of validator is registered. A program is safe when, whenever the node is subscribed, the dispatching
    validator is registered, every swap sequence stores the requested handler, and the dispatching validator
    does not accept on an empty cell. [prog_safe] is a boolean check evaluated on the EXTRACTED program. *)
Definition aconn := (bool * option vkind)%type.
Definition aexec (a : aconn) (o : reg_op) : aconn :=
  match o with
  | OpSubscribe => (true, snd a)
  | OpUnregister => (fst a, None)
  | OpRegister v => match snd a with Some _ => a | None => (fst a, Some v) end
  | OpStoreHandler => a
  end.
Definition a_ok (a : aconn) : bool :=
  negb (fst a) || match snd a with Some VDispatch => true | _ => false end.
Fixpoint ops_safe (a : aconn) (ops : list reg_op) : bool :=
  a_ok a && match ops with [] => true | o :: r => ops_safe (aexec a o) r end.
Definition a_star : aconn := (true, Some VDispatch).
Definition aconn_eqb (a b : aconn) : bool :=
  Bool.eqb (fst a) (fst b) &&
  match snd a, snd b with Some x, Some y => vkind_eqb x y | None, None => true | _, _ => false end.
Definition has_store (ops : list reg_op) : bool := existsb is_store ops.
Definition nil_safe (v : vkind) : bool := match v with VIgnoreAll | VWrapReq => true | VDispatch => false end.
Definition swap_safe (ops : list reg_op) : bool :=
  ops_safe a_star ops && aconn_eqb (fold_left aexec ops a_star) a_star && has_store ops.
Definition prog_safe (P : prog) : bool :=
  ops_safe (false, None) (p_init P) && aconn_eqb (fold_left aexec (p_init P) (false, None)) a_star &&
  swap_safe (p_nil P) && swap_safe (p_some P) && nil_safe (p_dnil P).

Lemma aconn_eqb_eq a b : aconn_eqb a b = true -> a = b.
Proof.
  destruct a as [s1 [v1|]], b as [s2 [v2|]]; unfold aconn_eqb; cbn [fst snd]; intros H;
    apply andb_true_iff in H as [H1 H2]; apply Bool.eqb_prop in H1; subst; try discriminate; try reflexivity.
  destruct v1, v2; try discriminate; reflexivity.
Qed.

Definition abs (c : conn) : aconn := (subscribed c, reg_kind c).

Lemma abs_exec rh c o : abs (exec_op rh c o) = aexec (abs c) o.
Proof.
  unfold abs, reg_kind. destruct o as [| |v|]; cbn [exec_op aexec fst snd subscribed reg]; try reflexivity.
  destruct (reg c) as [[| |]|] eqn:E; cbn [subscribed reg fst snd]; rewrite ?E; try reflexivity.
  destruct v; reflexivity.
Qed.

Definition Inv (s : rstate) : Prop :=
  ops_safe (abs (r_conn s)) (r_cur s) = true /\
  fold_left aexec (r_cur s) (abs (r_conn s)) = a_star /\
  (cell (r_conn s) = r_cur_h s \/ (cell (r_conn s) = r_last s /\ has_store (r_cur s) = true)) /\
  (r_busy s = false -> cell (r_conn s) = r_last s) /\
  (r_cur s = [] -> r_busy s = false).

Lemma prog_safe_parts P : prog_safe P = true ->
  ops_safe (false, None) (p_init P) = true /\ fold_left aexec (p_init P) (false, None) = a_star /\
  (forall rh, ops_safe a_star (swap_ops P rh) = true /\ fold_left aexec (swap_ops P rh) a_star = a_star /\
              has_store (swap_ops P rh) = true) /\
  nil_safe (p_dnil P) = true.
Proof.
  unfold prog_safe, swap_safe. intros H.
  repeat (apply andb_true_iff in H as [H ?]).
  repeat match goal with H : _ && _ = true |- _ => apply andb_true_iff in H as [? ?] end.
  repeat split; auto using aconn_eqb_eq; destruct rh; cbn [swap_ops]; auto using aconn_eqb_eq.
Qed.

Lemma inv_init P reqs : prog_safe P = true -> Inv (rinit P reqs).
Proof.
  intros H. apply prog_safe_parts in H as (H1 & H2 & _ & _).
  unfold Inv, rinit; cbn [r_conn r_cur r_cur_h r_busy r_last]. repeat split; auto.
Qed.

Lemma inv_step P s : prog_safe P = true -> Inv s -> Inv (rstep P s).
Proof.
  intros HP (Hs & Hf & Hc & Hb & He). apply prog_safe_parts in HP as (_ & _ & Hsw & _).
  unfold rstep. destruct (r_cur s) as [|o rest] eqn:Hcur.
  - destruct (r_todo s) as [|rh t] eqn:Ht.
    + unfold Inv. rewrite Hcur. auto.
    + destruct (Hsw rh) as (S1 & S2 & S3).
      cbn [fold_left] in Hf.
      unfold Inv; cbn [r_conn r_cur r_cur_h r_busy r_last]. rewrite Hf.
      repeat split; auto; try (right; split; auto).
  - cbn [ops_safe] in Hs. apply andb_true_iff in Hs as [_ Hs]. cbn [fold_left] in Hf.
    assert (Hcell : cell (exec_op (r_cur_h s) (r_conn s) o) = r_cur_h s \/
                    (cell (exec_op (r_cur_h s) (r_conn s) o) = r_last s /\ has_store rest = true)).
    { destruct o; cbn [exec_op cell]; try (destruct (reg (r_conn s)); cbn [cell]);
        try (left; reflexivity);
        (destruct Hc as [Hc|[Hc Hst]]; [left; exact Hc|right; split; [exact Hc|exact Hst]]). }
    destruct rest as [|o2 rest2].
    + unfold Inv; cbn [r_conn r_cur r_cur_h r_busy r_last]. rewrite abs_exec.
      assert (Hcl : cell (exec_op (r_cur_h s) (r_conn s) o) = r_cur_h s).
      { destruct Hcell as [H|[_ H]]; [exact H|discriminate]. }
      repeat split; auto.
    + unfold Inv; cbn [r_conn r_cur r_cur_h r_busy r_last]. rewrite abs_exec.
      repeat split; auto; try discriminate.
Qed.

Lemma reg_kind_dispatch c : reg_kind c = Some VDispatch -> reg c = Some RDispatch.
Proof. unfold reg_kind. destruct (reg c) as [[| |]|]; intros H; try discriminate; reflexivity. Qed.

(** The specification of one arrival. *)
Definition relay_ok (x : netmsg * aobs * list (option handler)) : Prop :=
  let '(m, o, al) := x in
  from_self m = false -> a_forwarded o = true -> exists hf, In (Some hf) al /\ accepted_by hf m.

Lemma is_accept_ok r : is_accept r = true -> r = Ok ValidationAccept.
Proof. destruct r as [z|]; cbn; [|discriminate]. intros H. apply Z.eqb_eq in H. congruence. Qed.

Lemma inv_arrival P s m : prog_safe P = true -> Inv s -> relay_ok (m, arrive P (r_conn s) m, allowed s).
Proof.
  intros HP (Hs & _ & Hc & Hb & _) Hself Hfwd.
  apply prog_safe_parts in HP as (_ & _ & _ & Hnil).
  unfold arrive in Hfwd.
  destruct (subscribed (r_conn s)) eqn:Hsub; cbn [negb] in Hfwd; [|discriminate].
  assert (Hok : a_ok (abs (r_conn s)) = true).
  { destruct (r_cur s); cbn [ops_safe] in Hs; apply andb_true_iff in Hs as [H _]; exact H. }
  unfold a_ok, abs in Hok; cbn [fst snd] in Hok. rewrite Hsub in Hok; cbn [negb orb] in Hok.
  assert (Hreg : reg (r_conn s) = Some RDispatch).
  { apply reg_kind_dispatch. destruct (reg_kind (r_conn s)) as [[| |]|]; try discriminate; reflexivity. }
  rewrite Hreg in Hfwd. cbn [run_validator] in Hfwd.
  destruct (cell (r_conn s)) as [hf|] eqn:Hcell.
  - destruct (wrapper (Some hf) m) as [r calls] eqn:Hw. cbn [a_forwarded] in Hfwd.
    apply is_accept_ok in Hfwd. subst r.
    assert (Ha : fst (wrapper (Some hf) m) = Ok ValidationAccept) by (rewrite Hw; reflexivity).
    apply (wrapper_accept _ _ Hself) in Ha as (hf' & Heq & Hacc). inversion Heq; subst hf'.
    exists hf. split; [|exact Hacc].
    unfold allowed. destruct (r_busy s) eqn:Hbusy.
    + destruct Hc as [Hc|[Hc _]]; rewrite <- Hc; cbn; auto.
    + rewrite <- (Hb eq_refl). cbn; auto.
  - exfalso. destruct (p_dnil P); try discriminate Hnil.
    + cbn in Hfwd. discriminate.
    + destruct (wrapper None m) as [r calls] eqn:Hw. cbn [a_forwarded] in Hfwd.
      apply is_accept_ok in Hfwd. subst r.
      apply (wrapper_nil_never_accepts m Hself). rewrite Hw. reflexivity.
Qed.

(** General form: for every safe program, every request list and every interleaving of arrivals with the
    connection goroutine's steps. *)
Theorem relay_only_if_accepted_safe P : prog_safe P = true ->
  forall reqs evs, Forall relay_ok (run P (rinit P reqs) evs).
Proof.
  intros HP reqs evs. assert (HI : Inv (rinit P reqs)) by (apply inv_init; exact HP).
  revert HI. generalize (rinit P reqs) as s. induction evs as [|e evs IH]; intros s HI; cbn [run].
  - constructor.
  - destruct e as [m|].
    + constructor; [apply inv_arrival; assumption|apply IH; exact HI].
    + apply IH. apply inv_step; assumption.
Qed.

(** The boolean check on the program EXTRACTED from connection.go (re-evaluated on every run). *)
Lemma extracted_prog_safe : prog_safe extracted_prog = true.
Proof. vm_compute. reflexivity. Qed.

Theorem relay_only_if_accepted : forall reqs evs,
  Forall relay_ok (run extracted_prog (rinit extracted_prog reqs) evs).
Proof. apply relay_only_if_accepted_safe. exact extracted_prog_safe. Qed.

(** While no handler is installed (none completed, none being installed) nothing from the network is relayed;
    this covers the time before the first SetConsensusHandler and after SetConsensusHandler(nil). *)
Theorem no_handler_no_relay : forall reqs evs m o al,
  In (m, o, al) (run extracted_prog (rinit extracted_prog reqs) evs) ->
  from_self m = false -> (forall h, In h al -> h = None) -> a_forwarded o = false.
Proof.
  intros reqs evs m o al Hin Hself Hnone.
  pose proof (relay_only_if_accepted reqs evs) as HF. rewrite Forall_forall in HF.
  specialize (HF _ Hin). cbn in HF.
  destruct (a_forwarded o) eqn:Hf; [|reflexivity].
  destruct (HF Hself eq_refl) as (hf & Hal & _). apply Hnone in Hal. discriminate.
Qed.

(** A handler swap of the extracted program is a single atomic step (one store into the handler cell):
    there is no intermediate state "while the handler is being replaced" that an arrival could observe. *)
Theorem swap_is_atomic : forall rh, List.length (swap_ops extracted_prog rh) = 1%nat.
Proof. intros [hf|]; vm_compute; reflexivity. Qed.

(** Non-vacuity: an accepted message IS relayed once the handler is installed, a rejected one is not. *)
Example relay_example :
  map (fun o => (a_forwarded o, a_result o))
      (live_run extracted_prog
         [LPub probe; LSet (Some (tbl_mod 64 [1; 2; 9])); LPub (mk_netmsg false (Decoded (mk_dmsg (Some 64) None None)));
          LPub (mk_netmsg false (Decoded (mk_dmsg None (Some 65) None)));
          LPub (mk_netmsg false (Decoded (mk_dmsg None None (Some 66))));
          LSet None; LPub (mk_netmsg false (Decoded (mk_dmsg (Some 64) None None)))])
  = [(false, Some (Ok 2%Z)); (true, Some (Ok 0%Z)); (false, Some (Ok 1%Z)); (false, Some (Ok 2%Z)); (false, Some (Ok 2%Z))].
Proof. vm_compute. reflexivity. Qed.

(** The Unregister-then-Register sequence (the code before the fix) is NOT safe: the probe is relayed
    although the installed handler rejects everything. Kept as a regression witness for the checker. *)
Definition unfixed_prog : prog :=
  mk_prog [OpSubscribe; OpRegister VIgnoreAll] [OpUnregister; OpRegister VIgnoreAll] [OpUnregister; OpRegister VWrapReq] VIgnoreAll.
Example unfixed_prog_refuted :
  prog_safe unfixed_prog = false /\
  exists reqs evs, ~ Forall relay_ok (run unfixed_prog (rinit unfixed_prog reqs) evs).
Proof.
  split; [vm_compute; reflexivity|].
  exists [Some rejecting], [EStep; EStep; EStep; EStep; EArrive probe].
  intros H.
  assert (E : run unfixed_prog (rinit unfixed_prog [Some rejecting]) [EStep; EStep; EStep; EStep; EArrive probe]
              = [(probe, mk_aobs true None [], [None; Some rejecting])]) by (vm_compute; reflexivity).
  rewrite E in H. inversion H as [|x l Hx _]; subst.
  destruct (Hx eq_refl eq_refl) as (hf & Hin & (d & k & i & Hb & Hv & Hf)).
  cbn in Hb. inversion Hb; subst d. cbn in Hv. inversion Hv; subst.
  destruct Hin as [Hin|[Hin|[]]]; [discriminate|]. inversion Hin; subst hf. vm_compute in Hf. discriminate.
Qed.

(** Monitor on live observations is implied by the theorem (model side). *)
Theorem model_satisfies_relay_mon P : prog_safe P = true -> forall reqs evs m o al,
  In (m, o, al) (run P (rinit P reqs) evs) -> from_self m = false ->
  a_forwarded o = true -> exists hf, In (Some hf) al /\ accepted_by hf m.
Proof.
  intros HP reqs evs m o al Hin Hs Hf.
  pose proof (relay_only_if_accepted_safe P HP reqs evs) as HF. rewrite Forall_forall in HF.
  exact (HF _ Hin Hs Hf).
Qed.
