(** C10, the crash between the committed-header write and the position write of a commit:
    the start-up re-evaluation commits again.

    Let [m] be the state that is about to commit the proposed header [p] ([commit_cond]) and
    [A] its stores plus the committed-header write.  Start-up on the stores of [m] (without the
    header) loads a voting view whose precommit proofs have, target by target, the signer sets
    of [m]'s voting view (view / round-store correspondence [Y] + round trip), hence the same
    block powers and the same most voted block (order-independence of [set_powers]), and it finds
    a proposed header with that hash (in the round's cell, or among the replayed headers whose
    hash has a precommit entry).  So its re-evaluation takes the commit branch; the extra header
    of [A] is overwritten by that commit: [restart] on [A] returns EXACTLY what [restart] on the
    stores of [m] returns. *)
From Coq Require Import List NArith Arith Bool Lia String.
From GV Require Import Base.Ints Gen.Math Gen.Kernel Model.Mirror
  Proofs.Thresholds Proofs.MirrorAuth Proofs.MirrorNoop Proofs.MirrorChain Proofs.MirrorCert
  Proofs.MirrorTotal Proofs.MirrorRestart Proofs.MirrorLog
  Proofs.MirrorResumeLoad Proofs.MirrorResumeRT Proofs.MirrorResumeInv Proofs.MirrorResumeStart
  Proofs.MirrorResumeAhead Proofs.MirrorResumeOps.
Import ListNotations.
Local Open Scope N_scope.

Lemma to_full_entries_keys kind h r keys entries : forall pm t p,
  to_full_entries kind h r keys entries = Ok pm -> pm_get pm t = Some p -> exists sigs, In (t, sigs) entries.
Proof.
  induction entries as [|[t0 sigs0] rest IH]; intros pm t p; cbn [to_full_entries].
  - intros E; inversion E; subst. discriminate.
  - destruct sigs0 as [|sg sigs']; [discriminate|].
    destruct (merge_sparse kind h r t0 keys [] (sg :: sigs')) as [[p0 allv] inc].
    destruct (allv && inc); [|discriminate].
    unfold bind. destruct (to_full_entries kind h r keys rest) as [m|] eqn:Hr; [|discriminate].
    intros E; inversion E; subst. rewrite pm_get_pm_set.
    destruct (bytes_eqb t0 t) eqn:Et.
    + apply bytes_eqb_eq in Et; subst. intros _. eexists. left; reflexivity.
    + intros Hg. destruct (IH m t p eq_refl Hg) as (sigs&Hin). exists sigs. right; exact Hin.
Qed.

Lemma find_exists {A} (f : A -> bool) l x : In x l -> f x = true -> exists y, find f l = Some y.
Proof.
  induction l as [|a l IH]; [intros []|]. cbn [find]. intros [->|Hin] Hf.
  - rewrite Hf. eexists; reflexivity.
  - destruct (f a); [eexists; reflexivity|apply IH; assumption].
Qed.

(** the commit branch of [check_voting_precommit_shift], by its conditions *)
Lemma check_voting_commits s q maj :
  byz_majority (sm_avail (v_sum (k_vot s))) = Ok maj ->
  maj <= map_get (sm_pcp (v_sum (k_vot s))) (sm_mpc (v_sum (k_vot s))) ->
  sm_mpc (v_sum (k_vot s)) <> [] ->
  find (fun p => bytes_eqb (hd_hash (ph_hdr p)) (sm_mpc (v_sum (k_vot s)))) (v_phs (k_vot s)) = Some q ->
  check_voting_precommit_shift s = Ok (shift_voting_to_committing s (ph_hdr q)).
Proof.
  intros Hm Hle Hne Hf. unfold check_voting_precommit_shift. cbv zeta. rewrite Hm. cbn [bind].
  destruct (N.ltb_spec (map_get (sm_pcp (v_sum (k_vot s))) (sm_mpc (v_sum (k_vot s)))) maj) as [Hlt|_]; [lia|].
  destruct (sm_mpc (v_sum (k_vot s))) as [|b bs] eqn:E; [contradiction|]. rewrite Hf. reflexivity.
Qed.

(** * The reloaded voting view decides like the one that was about to commit *)
Lemma reshift ih ivs m p s0 :
  K ih ivs m -> commit_cond m p ->
  stores_of s0 = stores_of m -> INV ih ivs s0 -> kok s0 -> loadedv s0 ->
  exists q maj,
    In q (v_phs (k_vot s0)) /\
    byz_majority (sm_avail (v_sum (k_vot s0))) = Ok maj /\
    maj <= map_get (sm_pcp (v_sum (k_vot s0))) (sm_mpc (v_sum (k_vot s0))) /\
    sm_mpc (v_sum (k_vot s0)) <> [] /\
    find (fun p => bytes_eqb (hd_hash (ph_hdr p)) (sm_mpc (v_sum (k_vot s0)))) (v_phs (k_vot s0)) = Some q.
Proof.
  intros (HIm&_&(_&_&_&(_&(Yv&_))&_)) (Hin&Hhne&Hmpc&maj&Hmaj&Hle) Est HI0 (_&(Yl&_)) ((_&Lpc&Lphs)&_).
  pose proof HIm as (Hcm&_&((Sam&Spm)&_)&_). pose proof HI0 as (Hc0&_&((Sa0&Sp0)&_)&_).
  (* same position, same validator set, same stores *)
  assert (Enhr : st_nhr s0 = st_nhr m) by (apply (f_equal sr_nhr) in Est; exact Est).
  assert (Ehd : st_hdrs s0 = st_hdrs m) by (apply (f_equal sr_hdrs) in Est; exact Est).
  assert (Ers : st_rounds s0 = st_rounds m) by (apply (f_equal sr_rounds) in Est; exact Est).
  assert (Erp : st_replayed s0 = st_replayed m) by (apply (f_equal sr_replayed) in Est; exact Est).
  rewrite (cinv_nhr _ _ _ Hc0), (cinv_nhr _ _ _ Hcm) in Enhr. inversion Enhr as [[Eh Er Ech Ecr]]. clear Enhr.
  destruct (vot_vals _ _ _ Hc0) as [Ev0 _]. destruct (vot_vals _ _ _ Hcm) as [Evm _].
  assert (Evals : v_vals (k_vot s0) = v_vals (k_vot m)) by (rewrite Ev0, Evm, Ehd, Eh; reflexivity).
  destruct Yv as (_&(Bk&_)&Mm&_&Rm&Pm). destruct Yl as (_&(Bk0&_)&M0&_).
  unfold mpc_ok in Mm, M0.
  (* the committing view holds a proof for the block *)
  assert (Hmajpos : 0 < maj).
  { apply (byz_majority_pos (sm_avail (v_sum (k_vot m)))); [rewrite Sam; apply sum_pows_lt|exact Hmaj]. }
  assert (Hgetm : exists pf, pm_get (v_pc (k_vot m)) (hd_hash (ph_hdr p)) = Some pf).
  { rewrite Spm, blocks_get in Hle by exact Bk.
    destruct (pm_get (v_pc (k_vot m)) (hd_hash (ph_hdr p))) as [pf|]; [exists pf; reflexivity|lia]. }
  destruct Hgetm as (pf&Hpf).
  assert (Hpcne : view_votes KPrecommit (k_vot m) <> []).
  { cbn. intros E. rewrite E in Hpf. discriminate. }
  destruct Rm as [E|(pkh&entries&pm'&Ecell&Etf&Hpm)]; [contradiction|]. cbn [view_votes N.eqb KPrevote KPrecommit Pos.eqb] in Hpm.
  (* what start-up loaded is that proof map *)
  rewrite Eh, Er, Evals, Ers, Ecell in Lpc.
  assert (Eload : v_pc (k_vot s0) = pm').
  { unfold to_full_map in Lpc.
    destruct (vs_keys (v_vals (k_vot m))) as [|k0 kl] eqn:Ek; [destruct entries as [|e0 el]; [|discriminate]|];
      rewrite Etf in Lpc; inversion Lpc; reflexivity. }
  assert (Hpmeq : pmeq (v_pc (k_vot s0)) (v_pc (k_vot m))) by (rewrite Eload; exact Hpm).
  (* summaries agree on what the commit looks at *)
  assert (Empc : sm_mpc (v_sum (k_vot s0)) = hd_hash (ph_hdr p)).
  { rewrite M0, Evals, (mpc_pmeq _ _ _ Bk0 Bk Hpmeq), <- Mm. exact Hmpc. }
  assert (Ehigh : map_get (sm_pcp (v_sum (k_vot s0))) (hd_hash (ph_hdr p)) =
                  map_get (sm_pcp (v_sum (k_vot m))) (hd_hash (ph_hdr p))).
  { rewrite Sp0, Spm, Evals. apply blocks_pmeq; assumption. }
  (* a proposed header with that hash is loaded *)
  assert (Hq : exists q, In q (v_phs (k_vot s0)) /\ hd_hash (ph_hdr q) = hd_hash (ph_hdr p)).
  { rewrite Lphs, Eh, Er, Ers, Erp. unfold round_phs.
    destruct (Pm p Hin) as [(q&Hq&Eq)|(x&Hx&Hxh&Hxhash)].
    - exists q. split; [apply in_or_app; left; exact Hq|exact Eq].
    - exists (fake_ph x 0). split; [|exact Hxhash]. apply in_or_app; right. rewrite Ecell.
      specialize (Hpm (hd_hash (ph_hdr p))). rewrite Hpf in Hpm.
      destruct (pm_get pm' (hd_hash (ph_hdr p))) as [pf'|] eqn:Hg'; [|destruct Hpm].
      destruct (to_full_entries_keys _ _ _ _ _ _ _ _ Etf Hg') as (sigs&Hsigs).
      apply in_flat_map. exists (hd_hash (ph_hdr p), sigs). split; [exact Hsigs|]. cbn [fst].
      destruct (hd_hash (ph_hdr p)) as [|b bs] eqn:Ehash; [contradiction|].
      apply (in_map (fun x1 => fake_ph x1 0)). apply filter_In. split; [exact Hx|].
      rewrite Hxh, N.eqb_refl, Hxhash. cbn [andb]. apply bytes_eqb_refl. }
  destruct Hq as (q&Hqin&Hqh).
  destruct (find_exists (fun p0 => bytes_eqb (hd_hash (ph_hdr p0)) (sm_mpc (v_sum (k_vot s0)))) (v_phs (k_vot s0)) q Hqin) as (q'&Hf).
  { rewrite Empc, Hqh. apply bytes_eqb_refl. }
  exists q', maj. split; [eapply find_in; exact Hf|].
  split; [rewrite Sa0, Evals, <- Sam; exact Hmaj|]. split; [rewrite Empc, Ehigh; exact Hle|].
  split; [rewrite Empc; exact Hhne|exact Hf].
Qed.

(** * The extra header is overwritten by the repeated commit *)
Lemma hstore_set_twice H h x y : hstore_set (hstore_set H h x) h y = hstore_set H h y.
Proof.
  unfold hstore_set. cbn [filter fst]. rewrite N.eqb_refl. cbn [negb]. f_equal.
  induction H as [|[a z] H IH]; cbn [filter fst]; [reflexivity|].
  destruct (a =? h) eqn:E; cbn [negb]; [exact IH|]. cbn [filter fst]. rewrite E. cbn [negb]. f_equal. exact IH.
Qed.

Lemma shift_set_hdrs s H' v :
  (forall y, hstore_set H' (hd_height v) y = hstore_set (st_hdrs s) (hd_height v) y) ->
  shift_voting_to_committing (set_hdrs s H') v = shift_voting_to_committing s v.
Proof.
  intros E. unfold shift_voting_to_committing, update_observers. cbn. rewrite E. reflexivity.
Qed.

(** * Start-up on the stores that are one committed header ahead *)
Theorem restart_ahead_same ih ivs m p vals log :
  1 <= ih -> vwf ivs -> K ih ivs m -> commit_cond m p ->
  restart ih ivs (apply_wr (stores_of m) (WHdr (hd_height (ph_hdr p)) (ph_hdr p, shift_pcp m))) vals log =
  restart ih ivs (stores_of m) vals log.
Proof.
  intros Hih Hivs HK Hcc. pose proof HK as (HIm&_&(_&_&_&_&HSI)).
  pose proof Hcc as (Hin&_).
  assert (Hvh : n_vh (sr_nhr (stores_of m)) <> 0).
  { destruct HSI as (vh&vr&ch&cr&Hn&Hshape&_). rewrite Hn. unfold n_vh. cbn [fst].
    destruct Hshape as [(_&_&E&_)|(_&E&_)]; lia. }
  destruct (shift_hdrs ih ivs m p (proj1 HIm) Hin) as (_&_&Ph&_&Hb).
  assert (Hlt : n_ch (sr_nhr (stores_of m)) < hd_height (ph_hdr p)).
  { unfold stores_of. cbn [sr_nhr]. rewrite (cinv_nhr _ _ _ (proj1 HIm)). unfold n_ch. cbn [fst snd]. rewrite Ph.
    destruct (proj1 HIm) as (_&_&_&_&_&_&_&_&_&_&Hch). unfold chain_ok in Hch. destruct (k_chdr m) as [ch|].
    - destruct Hch as (A&B&_). lia.
    - destruct Hch as (A&_&_&D). lia. }
  rewrite !restart_eq, (restart_pre_ahead ih ivs (stores_of m) _ _ vals log Hvh Hlt).
  apply (restart_pre_cps ih ivs (stores_of m) vals log
           (fun r => bind (match r with Ok s0 => Ok (set_hdrs s0 (hstore_set (sr_hdrs (stores_of m)) (hd_height (ph_hdr p)) (ph_hdr p, shift_pcp m))) | Panic msg => Panic msg end)
                          (fun s0 => bind (recheck_view_shifts s0) (fun s1 => Ok (update_observers s1))) =
                     bind r (fun s0 => bind (recheck_view_shifts s0) (fun s1 => Ok (update_observers s1)))) Hih Hivs HSI).
  intros s0 Est _ _ HI0 _ _ _ _ Hk0 HL0. cbn [bind].
  destruct (reshift ih ivs m p s0 HK Hcc Est HI0 Hk0 HL0) as (q&maj&Hq&C1&C2&C3&C4).
  set (H' := hstore_set (sr_hdrs (stores_of m)) (hd_height (ph_hdr p)) (ph_hdr p, shift_pcp m)).
  pose proof (check_voting_commits s0 q maj C1 C2 C3 C4) as E0.
  pose proof (check_voting_commits (set_hdrs s0 H') q maj C1 C2 C3 C4) as E1.
  (* the header found is for the voting height: the position changes, the re-evaluation stops *)
  destruct HI0 as (Hc0&_). destruct (shift_hdrs ih ivs s0 q Hc0 Hq) as (_&_&Qh&_&Qb).
  assert (Ehq : hd_height (ph_hdr q) = hd_height (ph_hdr p)).
  { rewrite Qh, Ph. assert (Enhr : st_nhr s0 = st_nhr m) by (apply (f_equal sr_nhr) in Est; exact Est).
    rewrite (cinv_nhr _ _ _ Hc0), (cinv_nhr _ _ _ (proj1 HIm)) in Enhr. inversion Enhr. reflexivity. }
  assert (Esame : shift_voting_to_committing (set_hdrs s0 H') (ph_hdr q) = shift_voting_to_committing s0 (ph_hdr q)).
  { apply shift_set_hdrs. intros y. unfold H'. rewrite Ehq.
    assert (Ehd : st_hdrs s0 = sr_hdrs (stores_of m)) by (apply (f_equal sr_hdrs) in Est; exact Est).
    rewrite Ehd. apply hstore_set_twice. }
  assert (Hmoved : forall s1, s1 = shift_voting_to_committing s0 (ph_hdr q) ->
            negb ((v_h (k_vot s1) =? v_h (k_vot s0)) && (v_r (k_vot s1) =? v_r (k_vot s0))) = true).
  { intros s1 ->. unfold shift_voting_to_committing, update_observers. cbn.
    assert (Hw : wrap64 (v_h (k_vot s0) + 1) = v_h (k_vot s0) + 1) by (unfold wrap64; apply N.mod_small; exact Qb).
    rewrite Hw. destruct (N.eqb_spec (v_h (k_vot s0) + 1) (v_h (k_vot s0))); [lia|reflexivity]. }
  unfold recheck_view_shifts. rewrite E0, E1, Esame. cbn [bind].
  change (v_h (k_vot (set_hdrs s0 H'))) with (v_h (k_vot s0)). change (v_r (k_vot (set_hdrs s0 H'))) with (v_r (k_vot s0)).
  rewrite (Hmoved _ eq_refl). reflexivity.
Qed.
