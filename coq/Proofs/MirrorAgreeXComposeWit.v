(** End-to-end non-vacuity of the composed agreement theorems over the crash / restart closure
    (Proofs/MirrorAgreeXCompose.v): the setting of Proofs/ComposeA1Witness.v - genesis set [evs]
    (keys 10..13, power 1 each); the engines of the correct keys 10, 11, 12 each run the state
    machine history [hist1] (prevote and precommit for block [1] in (1,0)); key 13 is Byzantine and
    precommits both [1] and [2] - with mirrors that crash and restart:
      mirror [xA] commits header [1] from the precommits of 10, 11, 12 and is then restarted;
      mirror [xC] receives the precommits of 11, 12, 13 and crashes in the MIDDLE of the commit
      (after the committed-header write, before the position write); start-up commits again. *)
From Coq Require Import List NArith Bool String.
From GV Require Import Base.Ints Gen.Math Gen.Kernel Model.Network Model.Mirror
  Proofs.Thresholds Proofs.Network Proofs.MirrorAuth Proofs.MirrorChain
  Proofs.MirrorCert Proofs.MirrorTotal Proofs.MirrorResumeInv Proofs.MirrorResumeOps Proofs.MirrorResume
  Proofs.MirrorAgree Proofs.MirrorAgreeWitness
  Proofs.MirrorAgreeX Proofs.MirrorHdrGoodX Proofs.MirrorAgreeXC Proofs.MirrorAgreeXWit.
From GV Require Import Gen.StepSM Model.StateMachine Proofs.SMInvActs Proofs.SMWitness Proofs.ComposeA1
  Proofs.ComposeA1Witness Proofs.MirrorAgreeXCompose.
Import ListNotations.
Local Open Scope N_scope.

Definition pcA : op := OpPrecommit (vmsg_of KPrecommit 1 0 [7] [1] [(0, 10); (1, 11); (2, 12)]).
Definition pcC : op := OpPrecommit (vmsg_of KPrecommit 1 0 [7] [1] [(1, 11); (2, 12); (3, 13)]).
Definition xA : kstate := after_g 1 evs [XOp (OpPH (propose hA 0 [5])); XOp pcA; XRestart].
Definition xC : kstate := after_g 1 evs [XOp (OpPH (propose hA 0 [5])); XCrash 2 pcC].

(** a boolean check that a signature list records a node's certificates *)
Definition coversb (V : list sigd) (s : kstate) : bool :=
  forallb (fun sg => existsb (sigd_eqb sg) V) (cert_sigs s).

Lemma coversb_ok V s : coversb V s = true -> cert_sigs_in V s.
Proof.
  unfold coversb. rewrite forallb_forall. intros H. apply cert_sigs_covers. intros sg Hin.
  specialize (H sg Hin). apply existsb_exists in H as (sg' & Hin' & E).
  apply sigd_eqb_eq in E. subst sg'. exact Hin'.
Qed.

Example composed_hypotheses_satisfiable_after_crash :
  vwf evs /\ reachable_g 1 evs xA /\ reachable_g 1 evs xC /\
  cert_sigs_in e2e_V xA /\ cert_sigs_in e2e_V xC /\ hash_binds_next xA xC /\
  V_from_machines e2e_V e2e_B e2e_sg e2e_runs /\
  (forall h' x1 cp1 x2 cp2, h' <= 1 ->
     In (h', (x1, cp1)) (Mirror.st_hdrs xA) -> In (h', (x2, cp2)) (Mirror.st_hdrs xC) ->
     cp_round cp1 = cp_round cp2 /\ byz_bound (chain_vals 1 evs (Mirror.st_hdrs xA) h') (e2e_B h')) /\
  commits xA = [(1, [1], 0)] /\ commits xC = [(1, [1], 0)] /\ cert_sigs xA <> cert_sigs xC /\
  st_nhr xA = (2, 0, 1, 0) /\ st_nhr xC = (2, 0, 1, 0) /\
  In (SVote 13 KPrecommit 1 0 [1]) e2e_V /\ In (SVote 13 KPrecommit 1 0 [2]) e2e_V.
Proof.
  split; [exact evs_vwf|].
  split; [apply after_g_reachable; vm_compute; reflexivity|].
  split; [apply after_g_reachable; vm_compute; reflexivity|].
  split; [apply coversb_ok; vm_compute; reflexivity|].
  split; [apply coversb_ok; vm_compute; reflexivity|].
  split; [apply hash_bindsb_ok; vm_compute; reflexivity|].
  split; [exact e2e_from_machines|].
  split.
  { intros h' x1 cp1 x2 cp2 _ I1 I2.
    assert (EA : Mirror.st_hdrs xA = [(1, snd (top_entry xA))]) by (vm_compute; reflexivity).
    assert (EC : Mirror.st_hdrs xC = [(1, snd (top_entry xC))]) by (vm_compute; reflexivity).
    rewrite EA in I1. rewrite EC in I2.
    apply single_entry in I1. apply single_entry in I2. destruct I1 as [-> ->]. destruct I2 as [_ ->].
    split; [vm_compute; reflexivity|]. apply byz_boundb_ok. vm_compute. reflexivity. }
  split; [vm_compute; reflexivity|]. split; [vm_compute; reflexivity|].
  split; [vm_compute; discriminate|].
  split; [vm_compute; reflexivity|]. split; [vm_compute; reflexivity|].
  rewrite e2e_V_value. split; simpl; tauto.
Qed.
