(** C02 / C08 over ALL event histories of the round state machine model:
    the SIGNER is invoked at most once per kind (prevote, precommit, proposal) between two round
    entrances, hence - unless a counter wraps - at most once per kind per (height, round) in one process
    lifetime; and the rounds entered strictly increase across a lifetime. *)
From Coq Require Import List NArith String Bool Lia.
From GV Require Import Base.Ints Gen.Math Gen.StepSM Model.StateMachine Model.SMWire Model.SMWalk Proofs.SMStep Proofs.SMOutputs
  Proofs.SMInv Proofs.SMInvH Proofs.SMInvStep Proofs.SMRel Proofs.SMTheorems Proofs.SMInvActs Proofs.SMWitness
  Proofs.SMOnce Proofs.SMOnceRel Proofs.SMOnceStep Proofs.SMOnceHist.
Import ListNotations.
Local Open Scope N_scope.

Definition is_sign (o : out) : bool :=
  match o with OSignPrevote _ _ _ | OSignPrecommit _ _ _ | OSignProposal _ _ _ => true | _ => false end.
Definition signs (o : list out) : list out := filter is_sign o.

Lemma filter_nil_of (f : out -> bool) l : (forall x, In x l -> f x = false) -> filter f l = [].
Proof.
  induction l as [|y l IH]; intros H; simpl; [reflexivity|].
  rewrite (H y (or_introl eq_refl)). apply IH. intros x Hx. apply H. right. exact Hx.
Qed.

(** ** the three recorders sign at most once, for the round the machine is in *)
Lemma record_prevote_signs t s : let r := (record_prevote t ;; updr (set_rPvCh false)) s in
  signs (ou r) = [] \/ signs (ou r) = [OSignPrevote (rH (rl s)) (rR (rl s)) t].
Proof.
  unfold record_prevote, withS, when, bindM, say, upd, updr, stop, ret, emit, withS, cancel_timer, withS.
  destruct (participating s); simpl.
  2:{ destruct (rS (rl s) =? StepAwaitingProposal); simpl; [destruct (rTimer (rl s)) as [[[k a] b]|]; simpl|];
      left; reflexivity. }
  destruct (ra_pv (cur_ra s)); simpl; [right; reflexivity|].
  destruct (rOut (rl s)) as [[eh er]|]; simpl; [|right; reflexivity].
  destruct (rS (rl s) =? StepAwaitingProposal); simpl; [destruct (rTimer (rl s)) as [[[k a] b]|]; simpl|];
    right; reflexivity.
Qed.

Lemma record_precommit_signs t s : let r := (record_precommit t ;; updr (set_rPcCh false)) s in
  signs (ou r) = [] \/ signs (ou r) = [OSignPrecommit (rH (rl s)) (rR (rl s)) t].
Proof.
  unfold record_precommit, withS, when, bindM, say, upd, updr, stop, ret, emit, withS.
  destruct (participating s); simpl; [|left; reflexivity].
  destruct (ra_pc (cur_ra s)); simpl; [right; reflexivity|].
  destruct (rOut (rl s)) as [[eh er]|]; simpl; right; reflexivity.
Qed.

Lemma record_ph_signs d s :
  let r := (record_proposed_header d ;; updr (set_rPropCh false) ;; upd (set_propOut 2)) s in
  signs (ou r) = [] \/ signs (ou r) = [OSignProposal (rH (rl s)) (rR (rl s)) d].
Proof.
  unfold record_proposed_header, withS, when, bindM, say, upd, updr, stop, ret, emit, withS.
  destruct (initial_height <? rH (rl s)); simpl;
    [destruct (rVRV (rl s)); simpl; [destruct (rPrevVS (rl s) =? 0); simpl; [|destruct (pcp_finalizes (rl s) v); simpl]|]|];
    try (left; reflexivity);
    (destruct (signer s); simpl; [|left; reflexivity]);
    (destruct (ra_ph (cur_ra s)); simpl; [right; reflexivity|]);
    (destruct (rOut (rl s)) as [[eh er]|]; simpl; right; reflexivity).
Qed.

Lemma record_prevote_closes t : tg (fun _ => True) (record_prevote t ;; updr (set_rPvCh false)) (fun s => rPvCh (rl s) = false).
Proof. apply (tg_bind (fun _ => True)); [intros s _ _; exact I|apply tg_updr; intros; reflexivity]. Qed.
Lemma record_precommit_closes t : tg (fun _ => True) (record_precommit t ;; updr (set_rPcCh false)) (fun s => rPcCh (rl s) = false).
Proof. apply (tg_bind (fun _ => True)); [intros s _ _; exact I|apply tg_updr; intros; reflexivity]. Qed.
Lemma record_ph_closes d : tg (fun _ => True) (record_proposed_header d ;; updr (set_rPropCh false) ;; upd (set_propOut 2)) (fun s => propOut s = 2).
Proof.
  apply (tg_bind (fun _ => True)); [intros s _ _; exact I|].
  apply (tg_bind (fun _ => True)); [intros s _ _; exact I|apply tg_upd; intros; reflexivity].
Qed.

Lemma finish_idle r : run (fst (finish r)) = Idle ->
  fl r = Go /\ rl (fst (finish r)) = rl (st r) /\ propOut (fst (finish r)) = propOut (st r).
Proof.
  destruct r as [[s o] f]. unfold st, fl. simpl. destruct f; simpl; try discriminate; auto.
  destruct (run s) eqn:E; simpl; rewrite ?E; discriminate.
Qed.

Lemma finish_signs r : signs (snd (finish r)) = signs (ou r).
Proof. unfold signs. apply finish_filter; intros; reflexivity. Qed.

(** ** every event: who signs *)
Definition SG (s : sm) (e : event) (s' : sm) (o : list out) : Prop :=
  signs o = [] \/
  (run s = Idle /\ exists t, e = EvAnswer 0 t /\
     ((signs o = [OSignPrevote (rH (rl s)) (rR (rl s)) t] /\ rPvCh (rl s) = true /\ (run s' = Idle -> rPvCh (rl s') = false)) \/
      (signs o = [OSignPrecommit (rH (rl s)) (rR (rl s)) t] /\ rPcCh (rl s) = true /\ (run s' = Idle -> rPcCh (rl s') = false)))) \/
  (run s = Idle /\ exists d, e = EvProposal d /\ signs o = [OSignProposal (rH (rl s)) (rR (rl s)) d] /\ propOut s = 1 /\
     (run s' = Idle -> propOut s' = 2)).

Lemma no_signs s e : (forall t, e <> EvAnswer 0 t) -> (forall d, e <> EvProposal d) -> signs (snd (step s e)) = [].
Proof.
  intros H1 H2. apply filter_nil_of. intros x Hx.
  destruct (is_sign x) eqn:E; [|reflexivity]. exfalso.
  destruct e; try (match type of Hx with In _ (snd (step _ ?e0)) =>
      assert (P : Pout (ctx_of s) e0 x) by (apply pout_in; [discriminate|exact Hx]) end;
      destruct x; try discriminate E; simpl in P; destruct P as (_ & _ & P); first [exact (H1 _ P)|exact (H2 _ P)|discriminate P]).
  apply step_start_outs in Hx. destruct x; try discriminate E; destruct Hx as [Hx|[Hx|Hx]]; discriminate Hx.
Qed.

Lemma SG_lift s e :
  (deliverable s e = true -> SG s e (fst (dispatch (set_pend 0 s) e)) (snd (dispatch (set_pend 0 s) e))) ->
  SG s e (fst (step s e)) (snd (step s e)).
Proof.
  intros H. unfold step. destruct (deliverable s e); [|left; reflexivity].
  specialize (H eq_refl). destruct (dispatch (set_pend 0 s) e) as [s1 o]. simpl in *. exact H.
Qed.

Theorem sign_step s e : SG s e (fst (step s e)) (snd (step s e)).
Proof.
  destruct e; try (left; apply no_signs; intros; discriminate).
  - (* answer *)
    destruct (N.eq_dec kind 0) as [->|NK].
    2:{ left. apply no_signs; intros; try discriminate. intros E. inversion E. contradiction. }
    apply SG_lift. intros D. unfold dispatch.
    change (cm (set_pend 0 s)) with (cm s).
    destruct (cm s) as [[[ck g] op]|]; [|left; reflexivity]. cbv zeta.
    change ((0 =? 1) && (ck =? K_consider)) with false. cbv iota.
    destruct (negb op); [left; reflexivity|].
    destruct (ck =? K_decide) eqn:K.
    + match goal with |- context [if ?b then _ else _] => destruct b eqn:B end; [|left; reflexivity].
      change (0 =? 0) with true. cbv iota.
      apply andb_true_iff in B. destruct B as [B B3]. apply andb_true_iff in B. destruct B as [B1 B2].
      assert (Rn : run s = Idle) by (simpl in B1; destruct (run s); try discriminate; reflexivity).
      set (r := (record_precommit t;; updr (set_rPcCh false)) (set_cm None (set_pend 0 s))).
      destruct (record_precommit_signs t (set_cm None (set_pend 0 s))) as [E|E]; fold r in E.
      * left. rewrite finish_signs. exact E.
      * right; left. split; [exact Rn|]. exists t. split; [reflexivity|]. right.
        split; [rewrite finish_signs; exact E|]. split; [exact B3|].
        intros X. destruct (finish_idle r X) as (G & E1 & _). rewrite E1.
        exact (record_precommit_closes t _ I G).
    + match goal with |- context [if ?b then _ else _] => destruct b eqn:B end; [|left; reflexivity].
      change (0 =? 0) with true. cbv iota.
      apply andb_true_iff in B. destruct B as [B B3]. apply andb_true_iff in B. destruct B as [B1 B2].
      assert (Rn : run s = Idle) by (simpl in B1; destruct (run s); try discriminate; reflexivity).
      set (r := (record_prevote t;; updr (set_rPvCh false)) (set_cm None (set_pend 0 s))).
      destruct (record_prevote_signs t (set_cm None (set_pend 0 s))) as [E|E]; fold r in E.
      * left. rewrite finish_signs. exact E.
      * right; left. split; [exact Rn|]. exists t. split; [reflexivity|]. left.
        split; [rewrite finish_signs; exact E|]. split; [exact B3|].
        intros X. destruct (finish_idle r X) as (G & E1 & _). rewrite E1.
        exact (record_prevote_closes t _ I G).
  - (* proposal *)
    apply SG_lift. intros D. unfold dispatch.
    change (propOut (set_pend 0 s)) with (propOut s).
    destruct (propOut s =? 1) eqn:PO; [|left; reflexivity].
    apply N.eqb_eq in PO.
    assert (Rn : run s = Idle).
    { unfold deliverable in D. apply andb_true_iff in D. destruct D as [D _]. apply idle_live_run. exact D. }
    set (r := (record_proposed_header d;; updr (set_rPropCh false);; upd (set_propOut 2)) (set_pend 0 s)).
    destruct (record_ph_signs d (set_pend 0 s)) as [E|E]; fold r in E.
    + left. rewrite finish_signs. exact E.
    + right; right. split; [exact Rn|]. exists d. split; [reflexivity|].
      split; [rewrite finish_signs; exact E|]. split; [exact PO|].
      intros X. destruct (finish_idle r X) as (G & _ & E1). rewrite E1.
      exact (record_ph_closes d _ I G).
Qed.

(** ** kinds *)
Inductive skind := KPv | KPc | KPh.
Definition sign_out (k : skind) (h r : N) (t : hash) : out :=
  match k with KPv => OSignPrevote h r t | KPc => OSignPrecommit h r t | KPh => OSignProposal h r t end.
(** the channel of the kind has been used / is not handed out *)
Definition closed (k : skind) (s : sm) : Prop :=
  match k with KPv => rPvCh (rl s) = false | KPc => rPcCh (rl s) = false | KPh => propOut s <> 1 end.
Definition is_sign_k (k : skind) (o : out) : bool :=
  match k, o with
  | KPv, OSignPrevote _ _ _ => true | KPc, OSignPrecommit _ _ _ => true | KPh, OSignProposal _ _ _ => true
  | _, _ => false end.

Lemma is_sign_k_sign k o : is_sign_k k o = true -> is_sign o = true.
Proof. destruct k, o; simpl; congruence. Qed.

Lemma filter_sub (f g : out -> bool) l : (forall x, f x = true -> g x = true) -> filter f (filter g l) = filter f l.
Proof.
  intros H. induction l as [|y l IH]; simpl; [reflexivity|].
  destruct (g y) eqn:G; simpl; [rewrite IH; reflexivity|].
  destruct (f y) eqn:F; [rewrite (H y F) in G; discriminate|exact IH].
Qed.

Lemma sign_k_facts s e k x : In x (snd (step s e)) -> is_sign_k k x = true ->
  run s = Idle /\ (exists t, x = sign_out k (rH (rl s)) (rR (rl s)) t) /\ ~ closed k s /\
  (run (fst (step s e)) = Idle -> closed k (fst (step s e))) /\ signs (snd (step s e)) = [x].
Proof.
  intros Hx Hk.
  assert (Hs : In x (signs (snd (step s e)))) by (apply filter_In; split; [exact Hx|apply (is_sign_k_sign k); exact Hk]).
  destruct (sign_step s e) as [E|[(Rn & t & _ & [(E & C & Cl)|(E & C & Cl)])|(Rn & d & _ & E & C & Cl)]];
    rewrite E in Hs; simpl in Hs; try contradiction; destruct Hs as [<-|[]]; destruct k; try discriminate Hk;
    (split; [exact Rn|]; split; [eexists; reflexivity|]; split; [|split; [|exact E]]); simpl.
  - rewrite C. discriminate.
  - exact Cl.
  - rewrite C. discriminate.
  - exact Cl.
  - intros X. apply X. exact C.
  - intros X. rewrite (Cl X). discriminate.
Qed.

Lemma sign_k_count s e k : (List.length (filter (is_sign_k k) (snd (step s e))) <= 1)%nat.
Proof.
  rewrite <- (filter_sub (is_sign_k k) is_sign) by (apply is_sign_k_sign). fold (signs (snd (step s e))).
  destruct (sign_step s e) as [E|[(Rn & t & _ & [(E & _)|(E & _)])|(Rn & d & _ & E & _)]]; rewrite E; simpl;
    try lia; destruct k; simpl; lia.
Qed.

(** idle to idle: the channels only close *)
Lemma step_keep s e : rS (rl s) <= 7 -> run s = Idle -> run (fst (step s e)) = Idle -> keep s (fst (step s e)).
Proof.
  intros L7 Rn Rn'. destruct (event_eq_stop e) as [->|NS].
  - destruct (stop_step s) as [[E _]|(E & _)]; cbv zeta in *; [rewrite E; apply keep_refl|congruence].
  - destruct (idle_step s e Rn L7 NS) as (A & _). exact (proj1 (A Rn')).
Qed.

Lemma closed_keep k s s' : keep s s' -> closed k s -> closed k s'.
Proof.
  intros ((K1 & K2 & _) & K3 & _) C. destruct k; simpl in *.
  - destruct (rPvCh (rl s')); [rewrite (K1 eq_refl) in C; discriminate|reflexivity].
  - destruct (rPcCh (rl s')); [rewrite (K2 eq_refl) in C; discriminate|reflexivity].
  - intros X. apply C. exact (K3 X).
Qed.

(** between two signatures of one kind a round entrance is announced *)
Theorem sign_once k sg es : Once (is_sign_k k) (List.concat (run_events (sm0 sg) es)).
Proof.
  apply (once_hist (is_sign_k k) (closed k)).
  - intros o H. destruct k, o; try discriminate H; reflexivity.
  - destruct k; reflexivity.
  - intros s e. apply sign_k_count.
  - intros s e x L7 H1 H2. destruct (sign_k_facts s e k x H1 H2) as (Rn & _ & NC & Cl & _).
    split; [left; exact Rn|]. split; [intros _; exact NC|exact Cl].
  - intros s e L7 Rn Rn' C. apply (closed_keep k s); [apply step_keep; assumption|exact C].
Qed.

(** ** rounds along a lifetime *)
Fixpoint along (P : sm -> Prop) (s : sm) (es : list event) : Prop :=
  P s /\ match es with [] => True | e :: es' => along P (fst (step s e)) es' end.

Lemma hr_lt_trans a b c : hr_lt a b -> hr_lt b c -> hr_lt a c.
Proof. unfold hr_lt. destruct a, b, c; simpl. lia. Qed.
Lemma hr_lt_irrefl a : ~ hr_lt a a.
Proof. unfold hr_lt. destruct a; simpl. lia. Qed.

Definition hr_le (a b : N * N) : Prop := b = a \/ hr_lt a b.
Lemma hr_le_lt a b c : hr_le a b -> hr_lt b c -> hr_lt a c.
Proof. intros [->|H] H2; [exact H2|eapply hr_lt_trans; eauto]. Qed.

(** the round (h, r) has been reached *)
Definition Rinv (h r : N) (s : sm) : Prop :=
  dead s \/ ((run s = Idle \/ awaiting s) /\ hr_le (h, r) (cur s)).

Lemma cur_rl s s' : rl s' = rl s -> cur s' = cur s.
Proof. unfold cur. intros ->. reflexivity. Qed.

Lemma keep_cur s s' : keep s s' -> cur s' = cur s.
Proof. intros ((_ & _ & _ & H1 & H2 & _) & _). unfold cur. rewrite H1, H2. reflexivity. Qed.

(** one event, started idle or awaiting: the round does not go back *)
Lemma round_step s e : rS (rl s) <= 7 -> e <> EvStop -> nowrap s -> (run s = Idle \/ awaiting s) ->
  let s' := fst (step s e) in
  dead s' \/ ((run s' = Idle \/ awaiting s') /\ hr_le (cur s) (cur s') /\
              (awaiting s' -> ents (snd (step s e)) = 1%nat -> hr_lt (cur s) (cur s'))).
Proof.
  intros L7 NS W [Rn|Aw]; cbv zeta.
  - destruct (idle_step s e Rn L7 NS) as (F1 & F2 & _ & F4 & _).
    destruct (run_cases (fst (step s e))) as [R1|[A1|[R1|D1]]]; [contradiction| | |left; exact D1].
    + destruct (F2 A1) as (_ & _ & H). right. split; [right; exact A1|]. split; [right; exact (H W)|intros _ _; exact (H W)].
    + destruct (F1 R1) as [K _]. right. split; [left; exact R1|]. split; [left; apply keep_cur; exact K|].
      intros X. destruct (idle_not_awaiting _ R1 X).
  - destruct (await_step s e Aw L7 NS) as (F1 & F2 & _ & F4 & _).
    destruct (run_cases (fst (step s e))) as [R1|[A1|[R1|D1]]]; [contradiction| | |left; exact D1].
    + right. split; [right; exact A1|]. destruct (F2 A1) as [(E & _ & O)|(_ & _ & H)].
      * split; [left; apply cur_rl; exact E|]. intros _ X. destruct O as [O|O]; rewrite O in X; discriminate X.
      * split; [right; exact (H W)|intros _ _; exact (H W)].
    + destruct (F1 R1) as [E _]. right. split; [left; exact R1|]. split; [left; exact E|].
      intros X. destruct (idle_not_awaiting _ R1 X).
Qed.

Lemma Rinv_step h r s e : rS (rl s) <= 7 -> e <> EvStop -> nowrap s -> Rinv h r s -> Rinv h r (fst (step s e)).
Proof.
  intros L7 NS W [D|[RA H]].
  - left. exact (proj1 (dead_step s e D NS)).
  - destruct (round_step s e L7 NS W RA) as [D|(RA' & H' & _)]; [left; exact D|]. right. split; [exact RA'|].
    destruct H' as [E|E]; [rewrite E; exact H|]. right. exact (hr_le_lt _ _ _ H E).
Qed.

(** ** at most one signature per kind per (height, round) in a lifetime *)
Definition Kinv (k : skind) (h r : N) (s : sm) : Prop :=
  dead s \/ ((run s = Idle \/ awaiting s) /\
             (hr_lt (h, r) (cur s) \/ (cur s = (h, r) /\ run s = Idle /\ closed k s))).

Lemma Kinv_step k h r s e : rS (rl s) <= 7 -> e <> EvStop -> nowrap s -> Kinv k h r s -> Kinv k h r (fst (step s e)).
Proof.
  intros L7 NS W [D|[RA H]].
  - left. exact (proj1 (dead_step s e D NS)).
  - destruct (round_step s e L7 NS W RA) as [D|(RA' & H' & _)]; [left; exact D|]. right. split; [exact RA'|].
    destruct H as [H|(E & Rn & C)].
    + left. destruct H' as [X|X]; [rewrite X; exact H|exact (hr_lt_trans _ _ _ H X)].
    + destruct H' as [X|X].
      * destruct RA' as [R1|A1].
        -- right. split; [rewrite X; exact E|]. split; [exact R1|]. apply (closed_keep k s); [apply step_keep; assumption|exact C].
        -- exfalso. destruct (idle_step s e Rn L7 NS) as (_ & F2 & _). destruct (F2 A1) as (_ & _ & Hl).
           rewrite X in Hl. exact (hr_lt_irrefl _ (Hl W)).
      * left. rewrite <- E. exact X.
Qed.

Lemma Kinv_no_sign k h r s e t : Kinv k h r s -> ~ In (sign_out k h r t) (snd (step s e)).
Proof.
  intros K Hx.
  assert (Hk : is_sign_k k (sign_out k h r t) = true) by (destruct k; reflexivity).
  destruct (sign_k_facts s e k _ Hx Hk) as (Rn & (t' & E) & NC & _).
  assert (Ec : cur s = (h, r)) by (unfold cur; destruct k; inversion E; reflexivity).
  destruct K as [D|[_ [H|(_ & _ & C)]]].
  - exact (idle_not_dead _ Rn D).
  - rewrite Ec in H. exact (hr_lt_irrefl _ H).
  - exact (NC C).
Qed.

Lemma Kinv_after_sign k h r s e t : rS (rl s) <= 7 -> nowrap s -> In (sign_out k h r t) (snd (step s e)) ->
  Kinv k h r (fst (step s e)).
Proof.
  intros L7 W Hx.
  assert (Hk : is_sign_k k (sign_out k h r t) = true) by (destruct k; reflexivity).
  destruct (sign_k_facts s e k _ Hx Hk) as (Rn & (t' & E) & NC & Cl & _).
  assert (Ec : cur s = (h, r)) by (unfold cur; destruct k; inversion E; reflexivity).
  assert (NS : e <> EvStop).
  { intros ->. destruct (stop_step s) as [[_ O]|(_ & O & _)]; cbv zeta in O; rewrite O in Hx; simpl in Hx;
      [destruct Hx as [Hx|[]]; destruct k; discriminate Hx|contradiction]. }
  destruct (round_step s e L7 NS W (or_introl Rn)) as [D|(RA' & H' & _)]; [left; exact D|]. right. split; [exact RA'|].
  destruct H' as [X|X]; [|left; rewrite <- Ec; exact X].
  destruct RA' as [R1|A1].
  - right. split; [rewrite X; exact Ec|]. split; [exact R1|exact (Cl R1)].
  - exfalso. destruct (idle_step s e Rn L7 NS) as (_ & F2 & _). destruct (F2 A1) as (_ & _ & Hl).
    rewrite X in Hl. exact (hr_lt_irrefl _ (Hl W)).
Qed.

Lemma no_sign_after k h r es : forall s, rS (rl s) <= 7 -> Kinv k h r s -> ~ In EvStop es -> along nowrap s es ->
  forall outs t, In outs (run_events s es) -> ~ In (sign_out k h r t) outs.
Proof.
  induction es as [|e es IH]; intros s L7 K NS [W AL] outs t; simpl; [intros []|].
  assert (NS1 : e <> EvStop) by (intros ->; apply NS; left; reflexivity).
  assert (NS2 : ~ In EvStop es) by (intros X; apply NS; right; exact X).
  pose proof (Kinv_step k h r s e L7 NS1 W K) as K1. pose proof (step_le7 s e L7) as L71.
  pose proof (Kinv_no_sign k h r s e t K) as NO.
  destruct (step s e) as [s1 o]. simpl in *. intros [<-|H]; [exact NO|].
  eapply IH; eauto.
Qed.

Theorem sign_once_lifetime k h r es : forall s, rS (rl s) <= 7 -> ~ In EvStop es -> along nowrap s es ->
  forall i j oi oj t1 t2,
  nth_error (run_events s es) i = Some oi -> nth_error (run_events s es) j = Some oj ->
  In (sign_out k h r t1) oi -> In (sign_out k h r t2) oj -> i = j.
Proof.
  induction es as [|e es IH]; intros s L7 NS [W AL] i j oi oj t1 t2; simpl.
  { destruct i; discriminate. }
  assert (NS2 : ~ In EvStop es) by (intros X; apply NS; right; exact X).
  pose proof (step_le7 s e L7) as L71.
  pose proof (Kinv_after_sign k h r s e t1 L7 W) as A1. pose proof (Kinv_after_sign k h r s e t2 L7 W) as A2.
  destruct (step s e) as [s1 o]. simpl in *.
  destruct i as [|i], j as [|j]; simpl; intros Ei Ej Hi Hj; auto.
  - exfalso. inversion Ei; subst.
    exact (no_sign_after k h r es s1 L71 (A1 Hi) NS2 AL oj t2 (nth_error_In _ _ Ej) Hj).
  - exfalso. inversion Ej; subst.
    exact (no_sign_after k h r es s1 L71 (A2 Hj) NS2 AL oi t1 (nth_error_In _ _ Ei) Hi).
  - f_equal. eapply (IH s1); eauto.
Qed.

(** one event signs at most one thing *)
Theorem one_signature_per_event s e : (List.length (signs (snd (step s e))) <= 1)%nat.
Proof.
  destruct (sign_step s e) as [E|[(Rn & t & _ & [(E & _)|(E & _)])|(Rn & d & _ & E & _)]]; rewrite E; simpl; lia.
Qed.

(** ** rounds entered strictly increase along a lifetime *)
Lemma ent_in_count o x : In x o -> is_ent x = true -> ents o <> 0%nat.
Proof.
  intros H E. unfold ents. assert (X : In x (filter is_ent o)) by (apply filter_In; auto).
  destruct (filter is_ent o); [destruct X|discriminate].
Qed.

Lemma ent_unique o o' E x : o = o' ++ [E] -> is_ent E = true -> ents o = 1%nat -> In x o -> is_ent x = true -> x = E.
Proof.
  intros -> HE H1 Hx Ex. rewrite ents_app in H1. unfold ents at 2 in H1. simpl in H1. rewrite HE in H1. simpl in H1.
  apply in_app_or in Hx. destruct Hx as [Hx|[<-|[]]]; [|reflexivity].
  exfalso. apply (ent_in_count o' x Hx Ex). lia.
Qed.

(** an announced round entrance is the last output of its event, for the round the machine is then in *)
Lemma ent_facts s e h r pk act : rS (rl s) <= 7 -> In (ORoundEntrance h r pk act) (snd (step s e)) ->
  e <> EvStop /\ awaiting (fst (step s e)) /\ cur (fst (step s e)) = (h, r) /\ ents (snd (step s e)) = 1%nat /\
  (run s = Idle \/ awaiting s \/ run s = NotStarted).
Proof.
  intros L7 Hx.
  assert (NS : e <> EvStop).
  { intros ->. destruct (stop_step s) as [[_ O]|(_ & O & _)]; cbv zeta in O; rewrite O in Hx; simpl in Hx;
      [destruct Hx as [Hx|[]]; discriminate Hx|contradiction]. }
  split; [exact NS|].
  pose proof (ent_in_count _ _ Hx eq_refl) as NZ.
  assert (U : forall s', ent_last (snd (step s e)) s' -> ents (snd (step s e)) = 1%nat -> cur s' = (h, r)).
  { intros s' (o' & pk' & act' & E) H1.
    pose proof (ent_unique _ _ _ _ E eq_refl H1 Hx eq_refl) as X. inversion X. reflexivity. }
  destruct (run_cases s) as [Rn|[Aw|[Rn|Dd]]].
  - destruct (nst_step s e Rn NS) as (_ & _ & _ & _ & [(_ & _ & X)|[(R1 & EL & X)|(_ & X)]]); cbv zeta in *; try contradiction.
    split; [unfold awaiting; rewrite R1; exact I|]. split; [exact (U _ EL X)|]. split; [exact X|auto].
  - destruct (await_step s e Aw L7 NS) as (_ & F2 & [X|[X A1]] & _); [contradiction|].
    split; [exact A1|]. destruct (F2 A1) as [(_ & _ & [O|O])|(_ & EL & _)]; [rewrite O in Hx; destruct Hx|rewrite O in Hx; destruct Hx as [Hx|[]]; discriminate Hx|].
    split; [exact (U _ EL X)|]. split; [exact X|auto].
  - destruct (idle_step s e Rn L7 NS) as (_ & F2 & [X|[X A1]] & _); [contradiction|].
    split; [exact A1|]. destruct (F2 A1) as (_ & EL & _). split; [exact (U _ EL X)|]. split; [exact X|auto].
  - destruct (dead_step s e Dd NS) as (_ & _ & _ & X & _). contradiction.
Qed.

Lemma Rinv_next_ent h r s e h2 r2 pk act : rS (rl s) <= 7 -> nowrap s -> Rinv h r s ->
  In (ORoundEntrance h2 r2 pk act) (snd (step s e)) -> hr_lt (h, r) (h2, r2).
Proof.
  intros L7 W RI Hx. destruct (ent_facts s e h2 r2 pk act L7 Hx) as (NS & A1 & Ec & X & _).
  destruct RI as [D|[RA H]].
  - destruct (dead_step s e D NS) as (_ & _ & _ & Z & _). cbv zeta in Z. rewrite Z in X. discriminate X.
  - destruct (round_step s e L7 NS W RA) as [D|(_ & _ & Hl)]; [destruct (dead_not_awaiting _ D A1)|].
    rewrite <- Ec. exact (hr_le_lt _ _ _ H (Hl A1 X)).
Qed.

Lemma Rinv_after_ent s e h r pk act : rS (rl s) <= 7 -> In (ORoundEntrance h r pk act) (snd (step s e)) ->
  Rinv h r (fst (step s e)).
Proof.
  intros L7 Hx. destruct (ent_facts s e h r pk act L7 Hx) as (_ & A1 & Ec & _). right. split; [right; exact A1|left; exact Ec].
Qed.

Lemma ents_later h r es : forall s, rS (rl s) <= 7 -> Rinv h r s -> ~ In EvStop es -> along nowrap s es ->
  forall outs h2 r2 pk act, In outs (run_events s es) -> In (ORoundEntrance h2 r2 pk act) outs -> hr_lt (h, r) (h2, r2).
Proof.
  induction es as [|e es IH]; intros s L7 RI NS [W AL] outs h2 r2 pk act; simpl; [intros []|].
  assert (NS1 : e <> EvStop) by (intros ->; apply NS; left; reflexivity).
  assert (NS2 : ~ In EvStop es) by (intros X; apply NS; right; exact X).
  pose proof (Rinv_step h r s e L7 NS1 W RI) as R1. pose proof (step_le7 s e L7) as L71.
  pose proof (Rinv_next_ent h r s e h2 r2 pk act L7 W RI) as NX.
  destruct (step s e) as [s1 o]. simpl in *. intros [<-|H]; [exact NX|].
  eapply IH; eauto.
Qed.

(** in one lifetime (no Stop), unless a counter wraps: a round entrance announced after another one is
    for a lexicographically greater (height, round) *)
Theorem entrances_increase_lifetime es : forall s, rS (rl s) <= 7 -> ~ In EvStop es -> along nowrap s es ->
  forall i j oi oj h1 r1 pk1 a1 h2 r2 pk2 a2, (i < j)%nat ->
  nth_error (run_events s es) i = Some oi -> nth_error (run_events s es) j = Some oj ->
  In (ORoundEntrance h1 r1 pk1 a1) oi -> In (ORoundEntrance h2 r2 pk2 a2) oj -> hr_lt (h1, r1) (h2, r2).
Proof.
  induction es as [|e es IH]; intros s L7 NS [W AL] i j oi oj h1 r1 pk1 a1 h2 r2 pk2 a2 Lt; simpl.
  { destruct i; discriminate. }
  assert (NS2 : ~ In EvStop es) by (intros X; apply NS; right; exact X).
  pose proof (step_le7 s e L7) as L71.
  pose proof (Rinv_after_ent s e h1 r1 pk1 a1 L7) as A1.
  destruct (step s e) as [s1 o]. simpl in *.
  destruct j as [|j]; [lia|]. destruct i as [|i]; simpl; intros Ei Ej Hi Hj.
  - inversion Ei; subst. exact (ents_later h1 r1 es s1 L71 (A1 Hi) NS2 AL oj h2 r2 pk2 a2 (nth_error_In _ _ Ej) Hj).
  - apply (IH s1 L71 NS2 AL i j oi oj h1 r1 pk1 a1 h2 r2 pk2 a2); [lia|exact Ei|exact Ej|exact Hi|exact Hj].
Qed.

(** one event announces at most one round entrance *)
Theorem one_entrance_per_event sg es e : (ents (snd (step (final_state (sm0 sg) es) e)) <= 1)%nat.
Proof.
  pose proof (le7_reachable sg es) as L7. set (s := final_state (sm0 sg) es) in *.
  destruct (event_eq_stop e) as [->|NS].
  { destruct (stop_step s) as [[_ O]|(_ & O & _)]; cbv zeta in O; rewrite O; unfold ents; simpl; lia. }
  destruct (run_cases s) as [Rn|[Aw|[Rn|Dd]]].
  - destruct (nst_step s e Rn NS) as (_ & _ & _ & _ & [(_ & _ & X)|[(_ & _ & X)|(_ & X)]]); cbv zeta in X; rewrite X; lia.
  - destruct (await_step s e Aw L7 NS) as (_ & _ & [X|[X _]] & _); rewrite X; lia.
  - destruct (idle_step s e Rn L7 NS) as (_ & _ & [X|[X _]] & _); rewrite X; lia.
  - destruct (dead_step s e Dd NS) as (_ & _ & _ & X & _). cbv zeta in X. rewrite X. lia.
Qed.

(** ** non-vacuity *)
Definition ex_sign_hist : list event :=
  [ EvStart; EvRERespVRV (mkv 1 0 1 (vs_of 0 0 [] []) []); EvTimer; EvAnswer 0 [7];
    EvView (mkv 1 0 2 (vs_of 30 0 [([7], 30)] []) []) None; EvAnswer 0 [7];
    EvView (mkv 1 0 3 (vs_of 30 30 [([7], 30)] [([], 30)]) []) None;
    EvRERespVRV (mkv 1 1 1 (vs_of 0 0 [] []) []); EvProposal [9] ].
Example ex_signs :
  along nowrap (sm0 true) ex_sign_hist /\ ~ In EvStop ex_sign_hist /\
  signs (List.concat (run_events (sm0 true) ex_sign_hist)) =
    [OSignPrevote 1 0 [7]; OSignPrecommit 1 0 [7]; OSignProposal 1 1 [9]] /\
  filter is_ent (List.concat (run_events (sm0 true) ex_sign_hist)) =
    [ORoundEntrance 1 0 true true; ORoundEntrance 1 1 true true].
Proof.
  split; [vm_compute; repeat split; reflexivity|]. split; [intros H; simpl in H; repeat (destruct H as [H|H]; [discriminate H|]); exact H|].
  vm_compute. split; reflexivity.
Qed.
