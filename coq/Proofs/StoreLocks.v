(** C16 - every exported method of every in-memory store is one critical section.
    The facts are regenerated from the Go sources on every run (Gen/StoreLocks.v, by the
    go/ast extractor translate/c16.go); this file decides them. *)
From Coq Require Import List NArith String Bool.
From GV Require Import Base.Ints Gen.StoreLocks.
Import ListNotations.
Local Open Scope N_scope.
Local Open Scope string_scope.

Definition method_fact := (string * string * N * bool * bool * bool * N)%type.

(** Lock or RLock first, released by the immediately following defer, no field that any
    method writes is mentioned before the lock, nothing is written under a read lock, and
    the mutex is not touched again (no early unlock splitting the method in two steps). *)
Definition lock_ok (m : method_fact) : bool :=
  let '(_, _, kind, deferred, early, badwrite, extra) := m in
  ((kind =? 1)%N || (kind =? 2)%N) && deferred && negb early && negb badwrite && (extra =? 0)%N.

(** The 22 methods of the tmstore interfaces that Model/Stores.v turns into operations. *)
Definition modelled_methods : list (string * string) := [
  ("ActionStore", "SaveProposedHeaderAction"); ("ActionStore", "SavePrevoteAction");
  ("ActionStore", "SavePrecommitAction"); ("ActionStore", "LoadActions");
  ("RoundStore", "SaveRoundProposedHeader"); ("RoundStore", "SaveRoundReplayedHeader");
  ("RoundStore", "OverwriteRoundPrevoteProofs"); ("RoundStore", "OverwriteRoundPrecommitProofs");
  ("RoundStore", "LoadRoundState");
  ("FinalizationStore", "SaveFinalization"); ("FinalizationStore", "LoadFinalizationByHeight");
  ("CommittedHeaderStore", "SaveCommittedHeader"); ("CommittedHeaderStore", "LoadCommittedHeader");
  ("MirrorStore", "SetNetworkHeightRound"); ("MirrorStore", "NetworkHeightRound");
  ("StateMachineStore", "SetStateMachineHeightRound"); ("StateMachineStore", "StateMachineHeightRound");
  ("ValidatorStore", "SavePubKeys"); ("ValidatorStore", "SaveVotePowers");
  ("ValidatorStore", "LoadPubKeys"); ("ValidatorStore", "LoadVotePowers"); ("ValidatorStore", "LoadValidators") ].

Definition names_of (m : method_fact) : string * string :=
  let '(t, n, _, _, _, _, _) := m in (t, n).
Definition name_eqb (a b : string * string) : bool := String.eqb (fst a) (fst b) && String.eqb (snd a) (snd b).

Lemma every_method_is_one_critical_section :
  forallb lock_ok store_methods = true /\ store_methods_unguarded = [].
Proof. split; vm_compute; reflexivity. Qed.

(** The model has an operation for every exported method found, and vice versa. *)
Lemma modelled_methods_are_the_exported_methods :
  forallb (fun m => existsb (name_eqb m) (map names_of store_methods)) modelled_methods = true /\
  forallb (fun m => existsb (name_eqb (names_of m)) modelled_methods) store_methods = true.
Proof. split; vm_compute; reflexivity. Qed.
