(** C06 at mirror level, (3) restated on the INPUTS of a vote operation: the signers of the merged state are
    signers of the state before or validators with a valid signature in the message, so the minority
    hypothesis can be put on "who holds a genuine vote before the message or signs in the message". *)
From Coq Require Import List NArith Arith Bool Lia String.
From GV Require Import Base.Ints Gen.Math Gen.Kernel Model.Mirror
  Proofs.Thresholds Proofs.MirrorAuth Proofs.MirrorNoop Proofs.MirrorChain Proofs.MirrorCert Proofs.MirrorPower
  Proofs.MirrorPowerWitness.
Import ListNotations.
Local Open Scope N_scope.

(** validator [j] (index into [keys]) has in [sigs] a genuine signature of its key for (kind, h, r, t) *)
Definition sig_signer (keys : list N) (kind h r : N) (t : bytes) (sigs : list ssig) (j : N) : Prop :=
  exists ss key, In ss sigs /\ keyid_decode (ss_kid ss) = Some j /\ nth_n keys j = Some key /\
                 ss_sig ss = SVote key kind h r t.

(** ... somewhere in the message *)
Definition msg_signer (keys : list N) (kind : N) (m : vmsg) (j : N) : Prop :=
  exists t sigs, In (t, sigs) (vm_proofs m) /\ sig_signer keys kind (vm_h m) (vm_r m) t sigs j.

Lemma sig_signer_incl keys kind h r t a b j : incl a b -> sig_signer keys kind h r t a j -> sig_signer keys kind h r t b j.
Proof. intros Hi (ss&key&A&B&C&D). exists ss, key. repeat split; auto. Qed.

Lemma add_sig_idx p n sg j : In j (map fst (add_sig p n sg)) -> In j (map fst p) \/ j = n.
Proof.
  unfold add_sig. destruct (has_sig p sg); [auto|]. rewrite map_app. intros H.
  apply in_app_or in H as [H|[H|[]]]; [auto|]. right. cbn in H. auto.
Qed.

Lemma merge_sigs_idx kind h r t keys sigs : forall p j,
  In j (map fst (fst (merge_sigs kind h r t keys p sigs))) ->
  In j (map fst p) \/ sig_signer keys kind h r t sigs j.
Proof.
  induction sigs as [|sg rest IH]; intros p j; cbn [merge_sigs]; [cbn [fst]; auto|].
  assert (Hskip : In j (map fst (fst (merge_sigs kind h r t keys p rest))) ->
                  In j (map fst p) \/ sig_signer keys kind h r t (sg :: rest) j).
  { intros H. destruct (IH p j H) as [H1|H1]; [left; exact H1|right].
    eapply sig_signer_incl; [|exact H1]. intros x Hx; right; exact Hx. }
  destruct (keyid_decode (ss_kid sg)) as [n|] eqn:Hd.
  2:{ destruct (merge_sigs kind h r t keys p rest); exact Hskip. }
  destruct (nth_n keys n) as [key|] eqn:Hk.
  2:{ destruct (merge_sigs kind h r t keys p rest); exact Hskip. }
  destruct (verify_vote key kind h r t (ss_sig sg)) eqn:Hv.
  - intros H. destruct (IH _ _ H) as [H1|H1].
    + apply add_sig_idx in H1 as [H1| ->]; [left; exact H1|]. right.
      exists sg, key. split; [left; reflexivity|]. split; [exact Hd|]. split; [exact Hk|].
      apply verify_vote_spec; exact Hv.
    + right. eapply sig_signer_incl; [|exact H1]. intros x Hx; right; exact Hx.
  - destruct (merge_sigs kind h r t keys p rest); exact Hskip.
Qed.

Lemma merge_sparse_fst kind h r t keys p sigs :
  fst (fst (merge_sparse kind h r t keys p sigs)) = fst (merge_sigs kind h r t keys p sigs).
Proof. unfold merge_sparse. destruct (merge_sigs kind h r t keys p sigs); reflexivity. Qed.

Lemma sigs_to_add_sub cur incoming nk t keep : In (t, keep) (sigs_to_add cur incoming nk) ->
  exists sigs, In (t, sigs) incoming /\ incl keep sigs.
Proof.
  unfold sigs_to_add. intros H. apply in_flat_map in H as ([t0 sigs]&Hin&H). cbn [fst snd] in H.
  assert (G : forall f : ssig -> bool,
            In (t, keep) (match filter f sigs with [] => [] | _ => [(t0, filter f sigs)] end) ->
            exists sigs0, In (t, sigs0) incoming /\ incl keep sigs0).
  { intros f. destruct (filter f sigs) eqn:E; [intros []|]. rewrite <- E. intros [H0|[]].
    inversion H0; subst. exists sigs. split; [exact Hin|]. intros x Hx. apply filter_In in Hx. tauto. }
  destruct (pm_get cur t0); eapply G; exact H.
Qed.

Lemma fold_pm_set_in {A} (ups : list (bytes * A)) : forall pm t p,
  In (t, p) (fold_left (fun m e => pm_set m (fst e) (snd e)) ups pm) -> In (t, p) ups \/ In (t, p) pm.
Proof.
  induction ups as [|[k x] rest IH]; intros pm t p; cbn [fold_left fst snd]; [auto|].
  intros H. destruct (IH _ _ _ H) as [H1|H1]; [left; right; exact H1|].
  apply pm_set_in in H1 as [H1|H1]; [left; left; symmetry; exact H1|right; exact H1].
Qed.

Lemma build_updates_idx kind v toadd t p' j :
  In (t, p') (fst (build_updates kind v toadd)) -> In j (map fst p') ->
  (exists p, In (t, p) (view_votes kind v) /\ In j (map fst p)) \/
  (exists sigs, In (t, sigs) toadd /\ sig_signer (vs_keys (v_vals v)) kind (v_h v) (v_r v) t sigs j).
Proof.
  unfold build_updates.
  set (P := fun ups : pmap => forall t p' j, In (t, p') ups -> In j (map fst p') ->
    (exists p, In (t, p) (view_votes kind v) /\ In j (map fst p)) \/
    (exists sigs, In (t, sigs) toadd /\ sig_signer (vs_keys (v_vals v)) kind (v_h v) (v_r v) t sigs j)).
  assert (G : forall l, incl l toadd -> forall ups allv, P ups ->
    P (fst (fold_left (fun acc e =>
        let '(ups, allv) := acc in
        let base := match pm_get (view_votes kind v) (fst e) with Some p => p | None => [] end in
        let '(p', av, inc) := merge_sparse kind (v_h v) (v_r v) (fst e) (vs_keys (v_vals v)) base (snd e) in
        (if inc then pm_set ups (fst e) p' else ups, allv && av)) l (ups, allv)))).
  { induction l as [|e rest IH]; intros Hl ups allv Hu; cbn [fold_left]; [exact Hu|].
    set (base := match pm_get (view_votes kind v) (fst e) with Some p => p | None => [] end).
    pose proof (merge_sparse_fst kind (v_h v) (v_r v) (fst e) (vs_keys (v_vals v)) base (snd e)) as Hm.
    destruct (merge_sparse kind (v_h v) (v_r v) (fst e) (vs_keys (v_vals v)) base (snd e)) as [[q av] inc].
    cbn [fst] in Hm.
    apply IH; [intros x Hx; apply Hl; right; exact Hx|].
    destruct inc; [|exact Hu].
    intros t0 q0 j0 Hin Hj. apply pm_set_in in Hin as [E|Hin]; [|eapply Hu; eassumption].
    inversion E; subst t0 q0. rewrite Hm in Hj.
    destruct (merge_sigs_idx _ _ _ _ _ _ _ _ Hj) as [Hb|Hs].
    - left. unfold base in Hb. destruct (pm_get (view_votes kind v) (fst e)) as [p0|] eqn:Hg; [|destruct Hb].
      exists p0. split; [apply pm_get_in; exact Hg|exact Hb].
    - right. exists (snd e). split; [|exact Hs]. apply Hl. left. destruct e; reflexivity. }
  intros H1 H2. refine (G toadd _ [] true _ t p' j H1 H2); [intros x Hx; exact Hx|].
  intros t0 q0 j0 [].
Qed.

(** ** The views of the merged state *)
Definition upd_view (kind : N) (v : view) (ups : pmap) : view :=
  let votes' := fold_left (fun m e => pm_set m (fst e) (snd e)) ups (view_votes kind v) in
  let v1 := if kind =? KPrevote then with_pv v votes' else with_pc v votes' in
  let sm' := if kind =? KPrevote then sum_set_prevotes (v_sum v1) (vs_pows (v_vals v1)) votes'
             else sum_set_precommits (v_sum v1) (vs_pows (v_vals v1)) votes' in
  bump (with_sum v1 sm').

Lemma merged_vot kind s vid h r ups :
  k_vot (merged kind s vid h r ups) = if vid =? ViewIDVoting then upd_view kind (k_vot s) ups else k_vot s.
Proof.
  unfold merged, put_view, get_view, upd_view. cbv zeta.
  destruct (vid =? ViewIDVoting); [reflexivity|]. destruct (vid =? ViewIDCommitting); reflexivity.
Qed.

Lemma merged_nxt kind s vid h r ups :
  k_nxt (merged kind s vid h r ups) =
  if vid =? ViewIDVoting then k_nxt s else if vid =? ViewIDCommitting then k_nxt s else upd_view kind (k_nxt s) ups.
Proof.
  unfold merged, put_view, get_view, upd_view. cbv zeta.
  destruct (vid =? ViewIDVoting); [reflexivity|]. destruct (vid =? ViewIDCommitting); reflexivity.
Qed.

Definition view_signer (v : view) (i : N) : Prop :=
  In i (signer_list (v_pv v)) \/ In i (signer_list (v_pc v)).

Lemma upd_view_signers kind v ups i : (kind = KPrevote \/ kind = KPrecommit) ->
  view_signer (upd_view kind v ups) i ->
  view_signer v i \/ exists t p, In (t, p) ups /\ In i (map fst p).
Proof.
  intros Hk. unfold view_signer, upd_view. cbv zeta.
  assert (G : In i (signer_list (fold_left (fun m e => pm_set m (fst e) (snd e)) ups (view_votes kind v))) ->
              In i (signer_list (view_votes kind v)) \/ exists t p, In (t, p) ups /\ In i (map fst p)).
  { unfold signer_list at 1. intros H. apply in_flat_map in H as ([t p]&Hin&Hi). cbn [snd] in Hi.
    apply fold_pm_set_in in Hin as [Hin|Hin]; [right; exists t, p; auto|].
    left. unfold signer_list. apply in_flat_map. exists (t, p). auto. }
  destruct Hk as [->| ->]; cbn [N.eqb KPrevote KPrecommit view_votes v_pv v_pc bump with_sum with_pv with_pc] in *;
    intros [H|H]; auto; destruct (G H) as [H'|H']; auto.
Qed.

(** every signer of the voting / next-round view after the merge was one before, or signs validly in the
    message *)
Theorem merged_signers_from_inputs ih ivs kind s m vid sm i :
  (kind = KPrevote \/ kind = KPrecommit) -> cinv ih ivs s ->
  merge_point kind s m = Some (vid, sm) ->
  view_signer (k_vot sm) i \/ view_signer (k_nxt sm) i ->
  view_signer (k_vot s) i \/ view_signer (k_nxt s) i \/
  msg_signer (vs_keys (v_vals (k_vot s))) kind m i.
Proof.
  intros Hk Hc. unfold merge_point.
  destruct (vm_proofs m) as [|vp0 vpl] eqn:Hp; [discriminate|]. rewrite <- Hp. clear Hp vp0 vpl.
  destruct (find_view _ _ _) as [[vid0 st]|] eqn:Hfv; [|discriminate].
  destruct (st =? ViewFound) eqn:Hst; cbn [negb]; [|discriminate]. apply N.eqb_eq in Hst.
  destruct (negb (bytes_eqb _ _)); [discriminate|].
  destruct (sigs_to_add _ _ _) as [|x0 l0] eqn:Hs; [discriminate|]. rewrite <- Hs. clear Hs.
  pose proof (build_updates_idx kind (get_view s vid0)
     (sigs_to_add (view_votes kind (get_view s vid0)) (vm_proofs m)
        (List.length (vs_keys (v_vals (get_view s vid0)))))) as Hb.
  destruct (build_updates _ _ _) as [ups allv]. cbn [fst] in Hb.
  destruct ups as [|u ups'] eqn:Hu; [discriminate|]. rewrite <- Hu in *. clear Hu.
  intros E; inversion E; subst vid0 sm. clear E.
  rewrite merged_vot, merged_nxt.
  pose proof (find_view_matches _ _ _ (vm_h m) (vm_r m) Hc vid st Hfv Hst) as [Mh Mr].
  assert (Hvn : v_vals (k_nxt s) = v_vals (k_vot s)) by (destruct Hc as (_&_&_&_&_&_&Hvv&Hvn&_); congruence).
  (* signers that come from the updates are message signers *)
  assert (Hups : (vid = ViewIDVoting \/ (vid <> ViewIDVoting /\ vid <> ViewIDCommitting)) ->
            (exists t p, In (t, p) ups /\ In i (map fst p)) ->
            view_signer (get_view s vid) i \/ msg_signer (vs_keys (v_vals (k_vot s))) kind m i).
  { intros Hv (t&p&Hin&Hi). destruct (Hb t p i Hin Hi) as [(p0&Hp0&Hi0)|(sigs&Hsg&Hss)].
    - left. assert (In i (signer_list (view_votes kind (get_view s vid)))).
      { unfold signer_list. apply in_flat_map. exists (t, p0). auto. }
      unfold view_signer. destruct Hk as [->| ->]; cbn in H; auto.
    - right. destruct (sigs_to_add_sub _ _ _ _ _ Hsg) as (sigs0&Hin0&Hincl).
      exists t, sigs0. split; [exact Hin0|]. rewrite <- Mh, <- Mr.
      assert (Ek : vs_keys (v_vals (get_view s vid)) = vs_keys (v_vals (k_vot s))).
      { unfold get_view. destruct Hv as [->|[N1 N2]]; [reflexivity|].
        destruct (N.eqb_spec vid ViewIDVoting); [contradiction|].
        destruct (N.eqb_spec vid ViewIDCommitting); [contradiction|]. rewrite Hvn. reflexivity. }
      rewrite <- Ek. eapply sig_signer_incl; eassumption. }
  destruct (N.eqb_spec vid ViewIDVoting) as [Ev|Ev].
  - intros [H|H]; [|auto].
    destruct (upd_view_signers _ _ _ _ Hk H) as [H'|H']; [auto|].
    destruct (Hups (or_introl Ev) H') as [H''|H'']; [|auto].
    left. rewrite Ev in H''. exact H''.
  - destruct (N.eqb_spec vid ViewIDCommitting) as [Ec|Ec]; [intros [H|H]; auto|].
    intros [H|H]; [auto|].
    destruct (upd_view_signers _ _ _ _ Hk H) as [H'|H']; [auto|].
    destruct (Hups (or_intror (conj Ev Ec)) H') as [H''|H'']; [|auto].
    right; left. unfold get_view in H''.
    destruct (N.eqb_spec vid ViewIDVoting); [contradiction|].
    destruct (N.eqb_spec vid ViewIDCommitting); [contradiction|]. exact H''.
Qed.

Lemma genuine_is_signer v i : has_genuine_vote v i -> view_signer v i.
Proof.
  intros (key&kd&t&p&_&Hkd&Hin&Hsg). unfold view_signer, signer_list.
  destruct Hkd as [->| ->]; [left|right]; apply in_flat_map; exists (t, p); (split; [exact Hin|]);
    apply in_map_iff; eexists; (split; [|exact Hsg]); reflexivity.
Qed.

(** (3) on the inputs: [S] contains every validator holding a genuine prevote or precommit for round r or
    r+1 of the voting height in the state BEFORE the message, and every validator with a valid signature
    in the message. *)
Theorem minority_cannot_move_inputs ih ivs s o kind m s' res S mn :
  1 <= ih -> vs_ok ivs = true -> reachable_b ih ivs s ->
  vote_op o = Some (kind, m) -> step s o = Ok (s', res) ->
  nowrap (vs_pows (v_vals (k_vot s))) ->
  byz_minority (sm_avail (v_sum (k_vot s))) = Ok mn ->
  (forall i, has_genuine_vote (k_vot s) i \/ has_genuine_vote (k_nxt s) i \/
             msg_signer (vs_keys (v_vals (k_vot s))) kind m i -> In i S) ->
  idx_power (vs_pows (v_vals (k_vot s))) (nodup_n S) < mn ->
  kpos_of s' = kpos_of s.
Proof.
  intros Hi Hok Hreach Hop Hstep Hw Hmn HS Hpow.
  destruct (vote_op_step o kind m s Hop) as [Hk Es].
  pose proof (reachable_INV _ _ _ Hi Hok Hreach) as (Hc&Ha&_).
  pose proof (reachable_tinv _ _ _ (reachable_b_reachable _ _ _ Hreach)) as Ht.
  destruct (merge_point kind s m) as [[vid sm]|] eqn:Hmp.
  2:{ destruct (no_merge_no_move _ _ _ _ _ _ Hop Hstep Hmp) as (E1&_&E3). unfold kpos_of. rewrite E1, E3. reflexivity. }
  destruct (merge_point_inv _ _ _ _ _ Hk Hmp) as (F&Ht'&Ha').
  assert (Hvals : v_vals (k_vot sm) = v_vals (k_vot s)) by (destruct F as (_&(_&_&E&_)&_); symmetry; exact E).
  assert (Hsum : sm_avail (v_sum (k_vot sm)) = sm_avail (v_sum (k_vot s))).
  { destruct (Ht' Ht) as [Tv _]. destruct Ht as [Tv0 _]. unfold tok in Tv, Tv0. rewrite Tv, Tv0, Hvals. reflexivity. }
  destruct (Ha' Ha) as (_&Av&An). destruct Ha as (_&Av0&An0).
  refine (proj1 (proj2 (proj2 (minority_cannot_move ih ivs s o kind m s' res vid sm S mn Hi Hok Hreach Hop Hstep Hmp _ _ _ _)))).
  - rewrite Hvals. exact Hw.
  - rewrite Hsum. exact Hmn.
  - intros i Hg. apply HS.
    assert (Hsig : view_signer (k_vot sm) i \/ view_signer (k_nxt sm) i)
      by (destruct Hg as [Hg|Hg]; [left|right]; apply genuine_is_signer; exact Hg).
    destruct (merged_signers_from_inputs _ _ _ _ _ _ _ _ Hk Hc Hmp Hsig) as [H|[H|H]].
    + left. apply signer_genuine; assumption.
    + right; left. apply signer_genuine; assumption.
    + right; right. exact H.
  - rewrite Hvals. exact Hpow.
Qed.

(** the two views the hypotheses speak about are rounds r and r+1 of the same height, over the same
    validator set *)
Theorem views_are_round_r_and_next ih ivs s : 1 <= ih -> vs_ok ivs = true -> reachable_b ih ivs s ->
  v_h (k_nxt s) = v_h (k_vot s) /\ v_r (k_nxt s) = wrap32 (v_r (k_vot s) + 1) /\
  v_vals (k_nxt s) = v_vals (k_vot s).
Proof.
  intros Hi Hok Hr. destruct (reachable_cinv _ _ _ Hi Hok Hr) as (_&_&_&Hnh&Hnr&_&Hvv&Hvn&_).
  repeat split; congruence.
Qed.

(** the hypotheses of [minority_cannot_move_inputs] on the state / message of
    [MirrorPowerWitness.minority_example] *)
Example minority_inputs_example :
  (forall i, has_genuine_vote (k_vot w0) i \/ has_genuine_vote (k_nxt w0) i \/
             msg_signer (vs_keys (v_vals (k_vot w0))) KPrevote m_min i -> In i [0]) /\
  msg_signer (vs_keys (v_vals (k_vot w0))) KPrevote m_min 0 /\
  idx_power (vs_pows (v_vals (k_vot w0))) (nodup_n [0]) < 2 /\
  byz_minority (sm_avail (v_sum (k_vot w0))) = Ok 2.
Proof.
  split.
  { intros i [H|[H|H]].
    - exfalso. revert H. apply genuine_in_nil; reflexivity.
    - exfalso. revert H. apply genuine_in_nil; reflexivity.
    - destruct H as (t&sigs&Hin&ss&key&Hss&Hd&_&_).
      vm_compute in Hin.
      destruct Hin as [E|[E|[]]]; inversion E; subst; destruct Hss as [E'|[]]; subst ss;
        vm_compute in Hd; inversion Hd; left; reflexivity. }
  split.
  { exists [1], [wsig KPrevote 1 [1] 0]. split; [left; reflexivity|].
    exists (wsig KPrevote 1 [1] 0), 10. split; [left; reflexivity|]. split; [reflexivity|]. split; reflexivity. }
  split; vm_compute; reflexivity.
Qed.
