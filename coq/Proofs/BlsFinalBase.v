(** C13 (BLS finalized proofs) - lemmas about ascending position lists, bit masks, the key projection
    and the key-id bytes used by Proofs/BlsFinal.v. *)
From Coq Require Import List NArith ZArith String Bool Lia ZifyBool ZifyN ZifyNat.
From GV Require Import Base.Ints Base.GoBytes Model.SimpleProofBase Model.CombIndex Model.BlsFinal Proofs.CombIndex.
Import ListNotations.
Local Open Scope N_scope.
Local Notation length := List.length.

(* ------------------------------------------------------------------ ascending lists *)
Lemma asc_from_In lo n l x : asc_from lo n l -> In x l -> (lo <= x < n)%Z.
Proof.
  revert lo; induction l as [|i l IH]; intros lo H Hx; [contradiction|].
  destruct H as [Hi Hl]. destruct Hx as [->|Hx]; [exact Hi|].
  specialize (IH _ Hl Hx). lia.
Qed.

Lemma asc_from_weaken lo lo' n l : (lo' <= lo)%Z -> asc_from lo n l -> asc_from lo' n l.
Proof. destruct l as [|i l]; [intros; exact I|]. intros Hlo [Hi Hl]. split; [lia|exact Hl]. Qed.

Lemma zrange_length : forall c lo, length (zrange lo c) = c.
Proof. induction c as [|c IH]; intros lo; cbn [zrange length]; [reflexivity|]. rewrite IH. reflexivity. Qed.

Lemma In_zrange_iff j : forall c lo, In j (zrange lo c) <-> (lo <= j < lo + Z.of_nat c)%Z.
Proof.
  induction c as [|c IH]; intros lo; cbn [zrange In].
  - lia.
  - rewrite IH. lia.
Qed.

Lemma filter_zrange_asc (f : Z -> bool) : forall cnt lo,
  asc_from lo (lo + Z.of_nat cnt) (filter f (zrange lo cnt)).
Proof.
  induction cnt as [|c IH]; intros lo; cbn [zrange filter]; [exact I|].
  specialize (IH (lo + 1)%Z).
  replace (lo + 1 + Z.of_nat c)%Z with (lo + Z.of_nat (S c))%Z in IH by lia.
  destruct (f lo).
  - split; [lia|exact IH].
  - eapply asc_from_weaken; [|exact IH]. lia.
Qed.

Lemma lenZ_nonneg {A} (l : list A) : (0 <= lenZ l)%Z.
Proof. unfold lenZ. lia. Qed.

Lemma lenZ_cons {A} (x : A) l : lenZ (x :: l) = (lenZ l + 1)%Z.
Proof. unfold lenZ. cbn [length]. lia. Qed.

Lemma lenZ_map {A B} (f : A -> B) l : lenZ (map f l) = lenZ l.
Proof. unfold lenZ. rewrite map_length. reflexivity. Qed.

Lemma nthZ_cons_0 x t : nthZ (x :: t) 0 = x.
Proof. reflexivity. Qed.

Lemma nthZ_cons_pos x t j : (0 < j)%Z -> nthZ (x :: t) j = nthZ t (j - 1).
Proof.
  intros Hj. unfold nthZ. replace (Z.to_nat j) with (S (Z.to_nat (j - 1))) by lia. reflexivity.
Qed.

Lemma nthZ_asc : forall p lo n j, asc_from lo n p -> (0 <= j < lenZ p)%Z -> (lo + j <= nthZ p j < n)%Z.
Proof.
  induction p as [|x t IH]; intros lo n j H Hj; [unfold lenZ in Hj; cbn [length] in Hj; lia|].
  destruct H as [Hx Ht]. rewrite lenZ_cons in Hj.
  destruct (Z.eq_dec j 0) as [->|J].
  - rewrite nthZ_cons_0. lia.
  - rewrite nthZ_cons_pos by lia. specialize (IH _ _ (j - 1)%Z Ht ltac:(lia)). lia.
Qed.

Lemma nthZ_mono : forall p lo n i j, asc_from lo n p -> (0 <= i < j)%Z -> (j < lenZ p)%Z ->
  (nthZ p i < nthZ p j)%Z.
Proof.
  induction p as [|x t IH]; intros lo n i j H Hi Hj; [unfold lenZ in Hj; cbn [length] in Hj; lia|].
  destruct H as [Hx Ht]. rewrite lenZ_cons in Hj.
  rewrite (nthZ_cons_pos x t j) by lia.
  destruct (Z.eq_dec i 0) as [->|I0].
  - rewrite nthZ_cons_0. pose proof (nthZ_asc t _ _ (j - 1)%Z Ht ltac:(lia)). lia.
  - rewrite nthZ_cons_pos by lia. apply (IH _ _ (i - 1)%Z (j - 1)%Z Ht); lia.
Qed.

Lemma nthZ_In p j : (0 <= j < lenZ p)%Z -> In (nthZ p j) p.
Proof. intros Hj. unfold nthZ. apply nth_In. unfold lenZ in Hj. lia. Qed.

(** Position of an element in a list (0 when absent). *)
Fixpoint idx_in (p : list Z) (u : Z) : Z :=
  match p with
  | [] => 0
  | x :: t => if (x =? u)%Z then 0 else 1 + idx_in t u
  end.

Lemma idx_in_nonneg p u : (0 <= idx_in p u)%Z.
Proof. induction p as [|x t IH]; cbn [idx_in]; [lia|]. destruct (x =? u)%Z; lia. Qed.

Lemma idx_in_bound p u : In u p -> (0 <= idx_in p u < lenZ p)%Z.
Proof.
  induction p as [|x t IH]; intros H; [contradiction|]. cbn [idx_in]. rewrite lenZ_cons.
  destruct (Z.eqb_spec x u) as [E|E].
  - pose proof (lenZ_nonneg t). lia.
  - destruct H as [H|H]; [contradiction|]. specialize (IH H). lia.
Qed.

Lemma nthZ_idx p u : In u p -> nthZ p (idx_in p u) = u.
Proof.
  induction p as [|x t IH]; intros H; [contradiction|]. cbn [idx_in].
  destruct (Z.eqb_spec x u) as [E|E]; [rewrite nthZ_cons_0; exact E|].
  destruct H as [H|H]; [contradiction|].
  pose proof (idx_in_nonneg t u). rewrite nthZ_cons_pos by lia.
  replace (1 + idx_in t u - 1)%Z with (idx_in t u) by lia. apply IH. exact H.
Qed.

Lemma find_reduced_idx p u : forall i, In u p -> find_reduced p u i = Some (i + idx_in p u)%Z.
Proof.
  induction p as [|x t IH]; intros i H; [contradiction|]. cbn [find_reduced idx_in].
  destruct (Z.eqb_spec x u) as [E|E]; [f_equal; lia|].
  destruct H as [H|H]; [contradiction|]. rewrite IH by exact H. f_equal. lia.
Qed.

Lemma find_reduced_none p u : forall i, ~ In u p -> find_reduced p u i = None.
Proof.
  induction p as [|x t IH]; intros i H; [reflexivity|]. cbn [find_reduced].
  destruct (Z.eqb_spec x u) as [E|E]; [exfalso; apply H; left; exact E|].
  apply IH. intros G. apply H. right. exact G.
Qed.

Lemma idx_in_mono : forall p lo n u v, asc_from lo n p -> In u p -> In v p -> (u < v)%Z ->
  (idx_in p u < idx_in p v)%Z.
Proof.
  induction p as [|x t IH]; intros lo n u v H Hu Hv Huv; [contradiction|].
  destruct H as [Hx Ht]. cbn [idx_in].
  destruct (Z.eqb_spec x u) as [E|E].
  - subst x. destruct (Z.eqb_spec u v) as [E2|E2]; [lia|]. pose proof (idx_in_nonneg t v). lia.
  - destruct Hu as [Hu|Hu]; [contradiction|].
    pose proof (asc_from_In _ _ _ _ Ht Hu) as Bu.
    destruct (Z.eqb_spec x v) as [E2|E2]; [lia|].
    destruct Hv as [Hv|Hv]; [contradiction|].
    specialize (IH _ _ u v Ht Hu Hv Huv). lia.
Qed.

Lemma map_idx_asc p lo n : asc_from lo n p -> forall l a n' b,
  asc_from a n' l -> (forall x, In x l -> In x p) -> (forall x, In x l -> (b <= idx_in p x)%Z) ->
  asc_from b (lenZ p) (map (idx_in p) l).
Proof.
  intros Hp. induction l as [|u t IH]; intros a n' b Hl Hin Hb; [exact I|].
  destruct Hl as [Hu Ht]. cbn [map asc_from]. split.
  - pose proof (idx_in_bound p u (Hin u (or_introl eq_refl))).
    pose proof (Hb u (or_introl eq_refl)). lia.
  - apply (IH (u + 1)%Z n').
    + exact Ht.
    + intros x Hx. apply Hin. right. exact Hx.
    + intros x Hx. pose proof (asc_from_In _ _ _ _ Ht Hx).
      pose proof (idx_in_mono p lo n u x Hp (Hin u (or_introl eq_refl)) (Hin x (or_intror Hx)) ltac:(lia)). lia.
Qed.

Lemma map_nthZ_idx p l : (forall x, In x l -> In x p) -> map (nthZ p) (map (idx_in p) l) = l.
Proof.
  intros H. rewrite map_map. rewrite <- (map_id l) at 2. apply map_ext_in.
  intros x Hx. apply nthZ_idx. apply H. exact Hx.
Qed.

(* ------------------------------------------------------------------ masks *)
Definition below (n : Z) (b : N) : Prop := forall i, N.testbit b i = true -> (Z.of_N i < n)%Z.

Lemma mask_of_testbit l j : N.testbit (mask_of l) j = existsb (fun x => N.eqb (Z.to_N x) j) l.
Proof.
  induction l as [|i l IH]; cbn [mask_of existsb]; [apply N.bits_0|].
  rewrite N.setbit_eqb, IH. reflexivity.
Qed.

Lemma mask_of_testbit_In l x : (forall y, In y l -> (0 <= y)%Z) -> (0 <= x)%Z ->
  N.testbit (mask_of l) (Z.to_N x) = true <-> In x l.
Proof.
  intros Hl Hx. rewrite mask_of_testbit, existsb_exists. split.
  - intros (y & Hy & E). assert (y = x) by (specialize (Hl y Hy); lia). subst y. exact Hy.
  - intros H. exists x. split; [exact H|apply N.eqb_refl].
Qed.

Lemma mask_of_below lo n l : (0 <= lo)%Z -> asc_from lo n l -> below n (mask_of l).
Proof.
  intros Hlo H i Hi. rewrite mask_of_testbit in Hi. apply existsb_exists in Hi as (x & Hx & E).
  pose proof (asc_from_In _ _ _ _ H Hx). lia.
Qed.

Lemma below_0 n : below n 0.
Proof. intros i Hi. rewrite N.bits_0 in Hi. discriminate. Qed.

Lemma lor_below n a b : below n a -> below n b -> below n (N.lor a b).
Proof.
  intros Ha Hb i Hi. rewrite N.lor_spec in Hi. apply orb_true_iff in Hi as [Hi|Hi]; auto.
Qed.

Lemma filter_len_le {A} (f : A -> bool) l : (length (filter f l) <= length l)%nat.
Proof. induction l as [|x l IH]; cbn [filter length]; [lia|]. destruct (f x); cbn [length]; lia. Qed.

Lemma below_size n b : (0 <= n)%Z -> below n b -> (Z.of_N (N.size b) <= n)%Z.
Proof.
  intros Hn Hb. destruct (N.eq_dec b 0) as [->|Hne]; [cbn; lia|].
  rewrite N.size_log2 by exact Hne. pose proof (Hb _ (N.bit_log2 b Hne)). lia.
Qed.

Lemma popcountZ_le n b : (0 <= n)%Z -> below n b -> (popcountZ b <= n)%Z.
Proof.
  intros Hn Hb. pose proof (below_size n b Hn Hb) as Hs.
  unfold popcountZ, positions.
  pose proof (filter_len_le (fun i : Z => N.testbit b (Z.to_N i)) (zrange 0 (Z.to_nat (Z.of_N (N.size b))))) as Hf.
  rewrite zrange_length in Hf. lia.
Qed.

Lemma bits_all_mask_of n l : asc_in n l -> bits_all (mask_of l) = l.
Proof.
  intros H. unfold bits_all. apply positions_mask_of.
  apply (asc_from_bound 0 n); [exact H|]. intros x Hx.
  pose proof (testbit_lt_size _ _ (in_mask_testbit 0 n l x ltac:(lia) H Hx)). lia.
Qed.

Lemma popcountZ_mask_of_len n l : asc_in n l -> popcountZ (mask_of l) = lenZ l.
Proof. intros H. rewrite (popcountZ_mask_of n l H). reflexivity. Qed.

(* ------------------------------------------------------------------ projection *)
Definition proj_of (n : Z) (used : N) : list Z :=
  filter (fun i => negb (N.testbit used (Z.to_N i))) (zrange 0 (Z.to_nat n)).

Lemma proj_of_asc n used : (0 <= n)%Z -> asc_from 0 n (proj_of n used).
Proof.
  intros Hn. unfold proj_of.
  pose proof (filter_zrange_asc (fun i => negb (N.testbit used (Z.to_N i))) (Z.to_nat n) 0) as H.
  replace (0 + Z.of_nat (Z.to_nat n))%Z with n in H by lia. exact H.
Qed.

Lemma proj_of_In n used u :
  In u (proj_of n used) <-> (0 <= u < n)%Z /\ N.testbit used (Z.to_N u) = false.
Proof.
  unfold proj_of. rewrite filter_In, In_zrange_iff, negb_true_iff. lia.
Qed.

Lemma proj_of_len n used : (0 <= n)%Z -> (lenZ (proj_of n used) <= n)%Z.
Proof.
  intros Hn. unfold proj_of, lenZ.
  pose proof (filter_len_le (fun i => negb (N.testbit used (Z.to_N i))) (zrange 0 (Z.to_nat n))) as Hf.
  rewrite zrange_length in Hf. lia.
Qed.

Lemma create_projection_ok n used : (0 <= n)%Z -> below n used ->
  create_projection n used = Ok (proj_of n used).
Proof.
  intros Hn Hb. unfold create_projection. pose proof (popcountZ_le n used Hn Hb).
  destruct (Z.ltb_spec (n - popcountZ used) 0); [lia|reflexivity].
Qed.

(* ------------------------------------------------------------------ the two projection loops *)
Lemma project_bits_ok proj : forall l reduced used,
  (forall x, In x l -> In x proj) ->
  project_bits proj l reduced used =
  Ok (N.lor reduced (mask_of (map (idx_in proj) l)), N.lor used (mask_of l)).
Proof.
  induction l as [|u t IH]; intros reduced used H.
  - cbn [project_bits map mask_of]. rewrite !N.lor_0_r. reflexivity.
  - cbn [project_bits]. rewrite (find_reduced_idx proj u 0 (H u (or_introl eq_refl))).
    rewrite Z.add_0_l, nthZ_idx by (apply H; left; reflexivity).
    rewrite IH by (intros x Hx; apply H; right; exact Hx).
    cbn [map mask_of]. rewrite !lor_setbit_shift. reflexivity.
Qed.

Lemma project_bits_panic proj : forall l reduced used,
  (exists x, In x l /\ ~ In x proj) -> exists s, project_bits proj l reduced used = Panic s.
Proof.
  induction l as [|u t IH]; intros reduced used (x & Hx & Hn); [contradiction|].
  cbn [project_bits]. destruct (find_reduced proj u 0) as [idx|] eqn:E; [|eexists; reflexivity].
  destruct Hx as [->|Hx].
  - rewrite find_reduced_none in E by exact Hn. discriminate.
  - apply IH. exists x. split; assumption.
Qed.

Lemma unproject_ok proj lo0 n : (0 <= lo0)%Z -> asc_from lo0 n proj ->
  forall rl a used obits, (0 <= a)%Z -> asc_from a (lenZ proj) rl ->
  (forall j, (a <= j < lenZ proj)%Z -> N.testbit used (Z.to_N (nthZ proj j)) = false) ->
  unproject_bits proj rl used obits =
  Ok (Some (N.lor used (mask_of (map (nthZ proj) rl)), N.lor obits (mask_of (map (nthZ proj) rl)))).
Proof.
  intros Hlo0 Hp. induction rl as [|pidx t IH]; intros a used obits Ha Hrl Hfree.
  - cbn [unproject_bits map mask_of]. rewrite !N.lor_0_r. reflexivity.
  - destruct Hrl as [Hpi Ht]. cbn [unproject_bits].
    destruct (Z.geb_spec pidx (lenZ proj)) as [G|G]; [lia|].
    rewrite (Hfree pidx) by lia.
    rewrite (IH (pidx + 1)%Z) by
      (try exact Ht; try lia;
       intros j Hj; rewrite N.setbit_eqb, (Hfree j) by lia;
       pose proof (nthZ_mono proj _ _ pidx j Hp ltac:(lia) ltac:(lia));
       pose proof (nthZ_asc proj _ _ pidx Hp ltac:(lia));
       rewrite orb_false_r; apply N.eqb_neq; lia).
    cbn [map mask_of]. rewrite !lor_setbit_shift. reflexivity.
Qed.

(* ------------------------------------------------------------------ key id bytes *)
Lemma of_be_bytes_aux : forall f x acc, x < 2 ^ N.of_nat f ->
  fold_left (fun a y => a * 256 + y) (be_bytes_aux f x acc) 0 = fold_left (fun a y => a * 256 + y) acc x.
Proof.
  induction f as [|f IH]; intros x acc Hx.
  - cbn [be_bytes_aux]. change (2 ^ N.of_nat 0) with 1 in Hx. assert (x = 0) by lia. subst x. reflexivity.
  - cbn [be_bytes_aux]. destruct (N.eqb_spec x 0) as [->|Hne]; [reflexivity|].
    rewrite IH.
    + cbn [fold_left]. f_equal. pose proof (N.div_mod' x 256). lia.
    + rewrite Nat2N.inj_succ, N.pow_succ_r' in Hx.
      apply N.div_lt_upper_bound; [lia|]. lia.
Qed.

Lemma of_be_bytes_be_bytes x : of_be_bytes (be_bytes x) = x.
Proof.
  unfold of_be_bytes, be_bytes. rewrite of_be_bytes_aux; [reflexivity|].
  rewrite N2Nat.id. apply N.size_gt.
Qed.

Lemma be16_parse c : c < 65536 -> exists a b, be16 (c mod 65536) = [a; b] /\ a * 256 + b = c.
Proof.
  intros Hc. unfold be16. eexists. eexists. split; [reflexivity|].
  rewrite (N.mod_small c 65536) by exact Hc.
  rewrite (N.mod_small (c / 256) 256) by (apply N.div_lt_upper_bound; lia).
  pose proof (N.div_mod' c 256). lia.
Qed.

Lemma key_id_parse c idx : (0 <= c < 65536)%Z ->
  exists a b, key_id c idx = a :: b :: be_bytes idx /\ Z.of_N (a * 256 + b) = c.
Proof.
  intros Hc. unfold key_id. destruct (be16_parse (Z.to_N c) ltac:(lia)) as (a & b & E & V).
  exists a, b. rewrite E. split; [reflexivity|lia].
Qed.
