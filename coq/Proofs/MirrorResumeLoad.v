(** C10 (start-up): when does a stored signature collection load?

    [coll_good keys kind h r c]: every entry of the stored collection [c] has a non-empty
    signature list and every signature in it is admissible (its key id decodes to an index of
    [keys] and it verifies for (kind, h, r, entry hash)).  On a good collection
    [to_full_map] (SparseSignatureCollection.ToFull*ProofMap) returns, and what it returns is
    non-empty when the collection has an entry.  Conversely the collection the kernel writes for
    a view ([map_to_sparse] of the view's proofs) is good whenever every proof of the view is
    authentic and non-empty. *)
From Coq Require Import List NArith Arith Bool Lia String.
From GV Require Import Base.Ints Gen.Math Gen.Kernel Model.Mirror Proofs.MirrorAuth.
Import ListNotations.
Local Open Scope N_scope.

Definition entry_good (keys : list N) (kind h r : N) (e : bytes * list ssig) : Prop :=
  snd e <> [] /\ Forall (fun ss => sig_admissible keys kind h r (fst e) ss = true) (snd e).

Definition entries_good (keys : list N) (kind h r : N) (l : list (bytes * list ssig)) : Prop :=
  Forall (entry_good keys kind h r) l.

Definition coll_good (keys : list N) (kind h r : N) (c : option sparse_coll) : Prop :=
  match c with None => True | Some (_, entries) => entries_good keys kind h r entries end.

(** * merge_sigs on admissible signatures *)
Lemma merge_sigs_prefix kind h r t keys sigs : forall p p' a,
  merge_sigs kind h r t keys p sigs = (p', a) -> exists q, p' = p ++ q.
Proof.
  induction sigs as [|s rest IH]; intros p p' a; cbn [merge_sigs].
  - intros E; inversion E; subst. exists []. rewrite app_nil_r. reflexivity.
  - assert (Hskip : (let '(p0, _) := merge_sigs kind h r t keys p rest in (p0, false)) = (p', a) -> exists q, p' = p ++ q).
    { destruct (merge_sigs kind h r t keys p rest) as [p0 a0] eqn:E0. intros E; inversion E; subst. eapply IH; exact E0. }
    destruct (keyid_decode (ss_kid s)) as [n|]; [|exact Hskip].
    destruct (nth_n keys n) as [key|]; [|exact Hskip].
    destruct (verify_vote key kind h r t (ss_sig s)); [|exact Hskip].
    intros E. destruct (IH _ _ _ E) as [q Hq]. unfold add_sig in Hq.
    destruct (has_sig p (ss_sig s)).
    + exists q; exact Hq.
    + exists ([(n, ss_sig s)] ++ q). rewrite Hq, app_assoc. reflexivity.
Qed.

Lemma add_sig_nonempty p n s : add_sig p n s <> [].
Proof.
  unfold add_sig. destruct (has_sig p s) eqn:E.
  - destruct p; [discriminate|discriminate].
  - destruct p; discriminate.
Qed.

Lemma merge_sigs_admissible kind h r t keys sigs : forall p,
  Forall (fun ss => sig_admissible keys kind h r t ss = true) sigs ->
  exists p', merge_sigs kind h r t keys p sigs = (p', true) /\ (sigs <> [] -> p' <> []).
Proof.
  induction sigs as [|s rest IH]; intros p Hall; cbn [merge_sigs].
  - exists p. split; [reflexivity|intros H; contradiction].
  - inversion Hall as [|s0 r0 Hs Hrest]; subst. unfold sig_admissible in Hs.
    destruct (keyid_decode (ss_kid s)) as [n|]; [|discriminate].
    destruct (nth_n keys n) as [key|]; [|discriminate].
    rewrite Hs. destruct (IH (add_sig p n (ss_sig s)) Hrest) as (p'&E&_).
    exists p'. split; [exact E|]. intros _.
    destruct (merge_sigs_prefix _ _ _ _ _ _ _ _ _ E) as [q Hq]. rewrite Hq.
    intros Hnil. apply app_eq_nil in Hnil as [Hnil _]. exact (add_sig_nonempty _ _ _ Hnil).
Qed.

(** a merge that reports AllValidSignatures on a non-empty list leaves a non-empty proof *)
Lemma merge_sigs_true_nonempty kind h r t keys sigs : forall p p',
  merge_sigs kind h r t keys p sigs = (p', true) -> sigs <> [] -> p' <> [].
Proof.
  destruct sigs as [|s rest]; intros p p'; [intros _ H; contradiction|]. cbn [merge_sigs].
  assert (Hskip : (let '(p0, _) := merge_sigs kind h r t keys p rest in (p0, false)) = (p', true) -> p' <> []).
  { destruct (merge_sigs kind h r t keys p rest) as [p0 a0]. intros E; inversion E. }
  destruct (keyid_decode (ss_kid s)) as [n|]; [|intros E _; exact (Hskip E)].
  destruct (nth_n keys n) as [key|]; [|intros E _; exact (Hskip E)].
  destruct (verify_vote key kind h r t (ss_sig s)); [|intros E _; exact (Hskip E)].
  intros E _. destruct (merge_sigs_prefix _ _ _ _ _ _ _ _ _ E) as [q Hq]. rewrite Hq.
  intros Hnil. apply app_eq_nil in Hnil as [Hnil _]. exact (add_sig_nonempty _ _ _ Hnil).
Qed.

Lemma nodup_n_nonempty l : l <> [] -> nodup_n l <> [].
Proof.
  induction l as [|x t IH]; [intros H; contradiction|]. intros _. cbn [nodup_n].
  destruct (existsb (N.eqb x) t) eqn:E; [|discriminate].
  apply IH. destruct t; [discriminate|discriminate].
Qed.

Lemma bit_count_pos p : p <> [] -> (0 < bit_count p)%nat.
Proof.
  intros H. unfold bit_count, proof_idxs.
  assert (Hm : map fst p <> []) by (destruct p; [contradiction|discriminate]).
  pose proof (nodup_n_nonempty _ Hm) as Hn. destruct (nodup_n (map fst p)); [contradiction|cbn; lia].
Qed.

(** * Loading a good collection *)
Lemma pm_set_nonempty {A} (m : list (bytes * A)) k v : pm_set m k v <> [].
Proof. destruct m as [|[k' v'] m]; cbn; [discriminate|]. destruct (bytes_eqb k' k); discriminate. Qed.

Lemma to_full_entries_good kind h r keys entries :
  entries_good keys kind h r entries ->
  exists pm, to_full_entries kind h r keys entries = Ok pm /\ (entries <> [] -> pm <> []).
Proof.
  induction entries as [|[t sigs] rest IH]; intros Hg; cbn [to_full_entries].
  - exists []. split; [reflexivity|intros H; contradiction].
  - inversion Hg as [|e0 l0 [Hne Hall] Hrest]; subst. cbn [fst snd] in Hne, Hall.
    destruct sigs as [|sg sigs']; [contradiction|].
    unfold merge_sparse.
    destruct (merge_sigs_admissible kind h r t keys (sg :: sigs') [] Hall) as (p'&E&Hp').
    rewrite E. cbn [andb].
    assert (Hinc : Nat.ltb (bit_count []) (bit_count p') = true).
    { apply Nat.ltb_lt. cbn [bit_count proof_idxs map nodup_n List.length].
      apply bit_count_pos. apply Hp'. discriminate. }
    rewrite Hinc. destruct (IH Hrest) as (m&Em&_). rewrite Em. cbn [bind].
    exists (pm_set m t p'). split; [reflexivity|intros _; apply pm_set_nonempty].
Qed.

Lemma to_full_map_good kind h r keys c :
  keys <> [] -> coll_good keys kind h r c ->
  exists pm, to_full_map kind h r keys c = Ok pm /\
             (forall pkh e l, c = Some (pkh, e :: l) -> pm <> []).
Proof.
  intros Hk Hg. unfold to_full_map. destruct c as [[pkh entries]|].
  - destruct (to_full_entries_good kind h r keys entries Hg) as (pm&E&Hne).
    exists pm. split.
    + destruct keys; [contradiction|]. destruct entries; exact E.
    + intros pkh' e l Hc. inversion Hc; subst. apply Hne. discriminate.
  - exists []. split; [reflexivity|intros pkh e l Hc; discriminate].
Qed.

(** what was loaded non-empty was stored non-empty *)
Lemma to_full_map_nonempty_stored kind h r keys c pm :
  to_full_map kind h r keys c = Ok pm -> pm <> [] -> exists pkh e l, c = Some (pkh, e :: l).
Proof.
  unfold to_full_map. destruct c as [[pkh entries]|]; [|intros E; inversion E; subst; intros H; contradiction].
  destruct entries as [|e l]; [|intros _ _; eexists; eexists; eexists; reflexivity].
  destruct keys; cbn [to_full_entries]; intros E; inversion E; subst; intros H; contradiction.
Qed.

(** * The collection written for a view *)
Definition ne_pmap (pm : pmap) : Prop := forall t p, In (t, p) pm -> p <> [].

Lemma keyid_roundtrip i : keyid_decode (keyid_encode i) = Some i.
Proof.
  unfold keyid_decode, keyid_encode. f_equal.
  pose proof (N.div_mod i 256). lia.
Qed.

Lemma sig_of_idx_in p i s : In s (sig_of_idx p i) -> In (i, s) p.
Proof.
  induction p as [|[j s'] t IH]; cbn [sig_of_idx]; [intros []|].
  destruct (N.eqb_spec j i) as [->|Hne].
  - intros [->|H]; [left; reflexivity|right; apply IH; exact H].
  - intros H. right. apply IH; exact H.
Qed.

Lemma sig_of_idx_has p i s : In (i, s) p -> In s (sig_of_idx p i).
Proof.
  induction p as [|[j s'] t IH]; cbn [sig_of_idx]; [intros []|].
  intros [E|H].
  - inversion E; subst. rewrite N.eqb_refl. left; reflexivity.
  - destruct (j =? i); [right|]; apply IH; exact H.
Qed.

Lemma nodup_n_in x l : In x l -> In x (nodup_n l).
Proof.
  induction l as [|y t IH]; [intros []|]. cbn [nodup_n]. intros [->|H].
  - destruct (existsb (N.eqb x) t) eqn:E; [|left; reflexivity].
    apply IH. apply existsb_exists in E as (z&Hz&Ez). apply N.eqb_eq in Ez. subst z. exact Hz.
  - destruct (existsb (N.eqb y) t); [apply IH; exact H|right; apply IH; exact H].
Qed.

Lemma insert_n_in x y l : In x (insert_n y l) <-> x = y \/ In x l.
Proof.
  induction l as [|z t IH]; cbn [insert_n]; [cbn; intuition|].
  destruct (y <=? z); cbn [In]; [intuition|]. rewrite IH. intuition.
Qed.

Lemma sort_n_in x l : In x l -> In x (sort_n l).
Proof.
  unfold sort_n. induction l as [|y t IH]; [intros []|]. cbn [fold_right].
  intros [->|H]; apply insert_n_in; [left; reflexivity|right; apply IH; exact H].
Qed.

Lemma as_sparse_in p ss : In ss (as_sparse p) ->
  exists i s, In (i, s) p /\ ss = mk_ssig (keyid_encode i) s.
Proof.
  unfold as_sparse. intros H. apply in_flat_map in H as (i&_&Hi).
  apply in_map_iff in Hi as (s&E&Hs). exists i, s. split; [apply sig_of_idx_in; exact Hs|symmetry; exact E].
Qed.

Lemma as_sparse_nonempty p : p <> [] -> as_sparse p <> [].
Proof.
  destruct p as [|[j s] t]; [intros H; contradiction|]. intros _ Hnil.
  assert (Hin : In (mk_ssig (keyid_encode j) s) (as_sparse ((j, s) :: t))).
  { unfold as_sparse. apply in_flat_map. exists j. split.
    - apply sort_n_in. unfold proof_idxs. apply nodup_n_in. left; reflexivity.
    - apply in_map. apply sig_of_idx_has. left; reflexivity. }
  rewrite Hnil in Hin. destruct Hin.
Qed.

Lemma as_sparse_good keys kind h r t p :
  auth_proof keys kind h r t p -> p <> [] -> entry_good keys kind h r (t, as_sparse p).
Proof.
  intros Ha Hne. split; [apply as_sparse_nonempty; exact Hne|]. cbn [fst snd].
  apply Forall_forall. intros ss Hss.
  destruct (as_sparse_in _ _ Hss) as (i&s&Hin&->).
  destruct (Ha _ _ Hin) as (key&Hk&->).
  unfold sig_admissible. cbn [ss_kid ss_sig]. rewrite keyid_roundtrip, Hk.
  unfold verify_vote. apply sigd_eqb_refl.
Qed.

Lemma sparse_entries_good keys kind h r pm :
  auth_pmap keys kind h r pm -> ne_pmap pm ->
  entries_good keys kind h r (map (fun e => (fst e, as_sparse (snd e))) pm).
Proof.
  intros Ha Hne. apply Forall_forall. intros e He.
  apply in_map_iff in He as ([t p]&<-&Hin). cbn [fst snd].
  apply as_sparse_good; [exact (Ha _ _ Hin)|exact (Hne _ _ Hin)].
Qed.

Lemma map_to_sparse_good keys kind h r pkh pm :
  auth_pmap keys kind h r pm -> ne_pmap pm ->
  coll_good keys kind h r (Some (map_to_sparse pkh pm)).
Proof. intros Ha Hne. unfold map_to_sparse, coll_good. apply sparse_entries_good; assumption. Qed.

Lemma map_to_sparse_nonempty pkh pm : pm <> [] ->
  exists pkh' e l, map_to_sparse pkh pm = (pkh', e :: l).
Proof.
  destruct pm as [|x pm']; [intros H; contradiction|]. intros _.
  unfold map_to_sparse. cbn [map]. eexists; eexists; eexists; reflexivity.
Qed.

(** what is loaded from a collection is non-empty proof by proof *)
Lemma pm_set_ne (pm : pmap) t p : ne_pmap pm -> p <> [] -> ne_pmap (pm_set pm t p).
Proof.
  intros Hpm Hp t' p' Hin. destruct (pm_set_in _ _ _ _ _ Hin) as [Heq|Hin']; [inversion Heq; subst; exact Hp|exact (Hpm _ _ Hin')].
Qed.

Lemma to_full_entries_ne kind h r keys entries : forall pm,
  to_full_entries kind h r keys entries = Ok pm -> ne_pmap pm.
Proof.
  induction entries as [|[t sigs] rest IH]; intros pm; cbn [to_full_entries].
  - intros E; inversion E; subst. intros t p [].
  - destruct sigs as [|sg sigs']; [discriminate|].
    unfold merge_sparse.
    destruct (merge_sigs kind h r t keys [] (sg :: sigs')) as [p allv] eqn:Em.
    destruct allv; cbn [andb]; [|discriminate].
    destruct (Nat.ltb _ _); [|discriminate].
    unfold bind. destruct (to_full_entries kind h r keys rest) as [m|] eqn:Hr; [|discriminate].
    intros E; inversion E; subst. apply pm_set_ne; [apply IH; reflexivity|].
    eapply merge_sigs_true_nonempty; [exact Em|discriminate].
Qed.

Lemma to_full_map_ne kind h r keys c pm : to_full_map kind h r keys c = Ok pm -> ne_pmap pm.
Proof.
  unfold to_full_map. destruct c as [[pkh entries]|]; [|intros E; inversion E; subst; intros t p []].
  destruct keys; [destruct entries; [|discriminate]|]; apply to_full_entries_ne.
Qed.
