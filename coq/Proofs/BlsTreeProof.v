(** C13 (BLS tree) - gblsminsig.SignatureProof: AddSignature, MergeSparse, Merge keep the invariant and
    compute the verified set union. *)
From Coq Require Import List NArith ZArith String Bool Lia Arith Permutation.
From GV Require Import Base.Ints Model.SimpleProofBase Model.BlsTree Proofs.BlsTreeBase Proofs.BlsTreeAdd.
Import ListNotations.
Local Open Scope N_scope.

(** the real leaves below node [idx] = the leaves aggregated by the key stored there *)
Definition leaves_of (keys : list (option bkey)) (idx : N) : list N :=
  match nthN keys idx with Some (Some ks) => ks | _ => [] end.

Definition key_at (keys : list (option bkey)) (idx : N) : option bkey :=
  match nthN keys idx with Some k => k | None => None end.

Definition pinv (p : proof) : Prop := exists h, inv (p_msg p) h (p_tree p).

Lemma verify_true : forall k msg sg,
  verify k msg sg = true <-> exists ks, k = Some ks /\ ks <> [] /\ sg = SAgg msg ks.
Proof.
  intros k msg sg. unfold verify. split.
  - destruct k as [[|k0 ks]|]; try discriminate. destruct sg as [m l| |]; try discriminate.
    intro H. apply andb_true_iff in H. destruct H as [A B]. apply N.eqb_eq in A. apply listN_eqb_eq in B.
    exists (k0 :: ks). subst. split; [reflexivity|]. split; [discriminate|reflexivity].
  - intros (ks & -> & Hne & ->). destruct ks as [|k0 ks]; [congruence|].
    rewrite N.eqb_refl, listN_eqb_refl. reflexivity.
Qed.

Lemma key_leaves : forall h t d off ks, wf_tree h t -> (d <= h)%nat -> off < p2 d ->
  nthN (t_keys t) (lstart h d + off) = Some (Some ks) ->
  forall i, In i ks <-> i < t_n t /\ in_node h d off i.
Proof.
  intros h t d off ks Hwf Hd Ho Hk i. rewrite (wf_keys _ _ Hwf d off Hd Ho) in Hk.
  unfold rkey in Hk. destruct (off * p2 (h - d) <? t_n t) eqn:E; [|discriminate].
  apply N.ltb_lt in E. inversion Hk; subst. rewrite rangeN_In. unfold in_node. lia.
Qed.

(** Tree.AddSignature on a verified signature: the union law of one node. *)
Lemma tree_add_signature_spec : forall msg h t idx ks,
  inv msg h t -> nthN (t_keys t) idx = Some (Some ks) -> ks <> [] ->
  exists t', tree_add_signature t idx (SAgg msg ks) = Ok t' /\ inv msg h t' /\
    t_keys t' = t_keys t /\ t_n t' = t_n t /\
    (forall i, N.testbit (t_bits t') i = true <-> N.testbit (t_bits t) i = true \/ In i ks).
Proof.
  intros msg h t idx ks (Hwf & Hgen & Hex) Hk Hne.
  pose proof (nthN_some_lt _ _ _ _ Hk) as Hlt. rewrite (wf_keys_len _ _ Hwf) in Hlt.
  destruct (node_exists h idx Hlt) as (d & off & Hd & Ho & ->).
  unfold tree_add_signature.
  destruct (tree_add_spec msg h d (S (List.length (t_sigs t))) t off (SAgg msg ks) false ks)
    as (t' & R1 & R2 & R3 & R4 & R5); auto.
  - pose proof (wf_sigs _ _ Hwf) as HL. unfold lenN in HL. pose proof (p2_gt h). pose proof (p2_pos h). lia.
  - intro i. rewrite (Hex i). split; [intuition|]. intros [A [B|[B _]]]; [auto|discriminate].
  - exists t'. do 4 (split; [assumption|]). intro i. rewrite R5.
    rewrite (key_leaves h t d off ks Hwf Hd Ho Hk i). tauto.
Qed.

(** a set node's real leaves are all in the bit set *)
Lemma set_node_bits : forall msg h t idx ks sg, inv msg h t ->
  nthN (t_sigs t) idx = Some (Some sg) -> nthN (t_keys t) idx = Some (Some ks) ->
  forall i, In i ks -> N.testbit (t_bits t) i = true.
Proof.
  intros msg h t idx ks sg (Hwf & Hgen & Hex) Hs Hk i Hi.
  pose proof (nthN_some_lt _ _ _ _ Hk) as Hlt. rewrite (wf_keys_len _ _ Hwf) in Hlt.
  destruct (node_exists h idx Hlt) as (d & off & Hd & Ho & ->).
  apply (key_leaves h t d off ks Hwf Hd Ho Hk) in Hi. destruct Hi as [A B].
  apply Hex. split; [assumption|]. exists d, off. refine (conj Hd (conj Ho (conj _ B))). exists sg. exact Hs.
Qed.

Lemma tree_get_spec : forall h t idx, wf_tree h t ->
  (idx < 2 * p2 h - 1 /\ exists k s, nthN (t_keys t) idx = Some k /\ nthN (t_sigs t) idx = Some s /\
                                  tree_get t idx = (k, s, true)) \/
  (2 * p2 h - 1 <= idx /\ tree_get t idx = (None, None, false)).
Proof.
  intros h t idx Hwf. unfold tree_get. rewrite (wf_keys_len _ _ Hwf).
  destruct (2 * p2 h - 1 <=? idx) eqn:E.
  - apply N.leb_le in E. right. auto.
  - apply N.leb_gt in E. left. split; [assumption|].
    destruct (nthN_lt_some _ (t_keys t) idx) as [k Hk]; [rewrite (wf_keys_len _ _ Hwf); assumption|].
    destruct (nthN_lt_some _ (t_sigs t) idx) as [s Hs]; [rewrite (wf_sigs _ _ Hwf); assumption|].
    exists k, s. rewrite Hk, Hs. auto.
Qed.

(* ------------------------------------------------------------------ MergeSparse *)
(** entry (key id bytes, signature) is well formed, addresses a node, and verifies under that node's key *)
Definition entry_ok (keys : list (option bkey)) (msg : N) (e : sparse_entry) : bool :=
  match fst e with
  | [x; y] => (x * 256 + y <? lenN keys) && verify (key_at keys (x * 256 + y)) msg (snd e)
  | _ => false
  end.

Definition entry_leaves (keys : list (option bkey)) (e : sparse_entry) : list N :=
  match fst e with [x; y] => leaves_of keys (x * 256 + y) | _ => [] end.

Lemma merge_sparse_loop_spec : forall msg h ents t av,
  inv msg h t ->
  exists t', merge_sparse_loop msg ents t av = Ok (t', av && forallb (entry_ok (t_keys t) msg) ents) /\
    inv msg h t' /\ t_keys t' = t_keys t /\ t_n t' = t_n t /\
    (forall i, N.testbit (t_bits t') i = true <->
               N.testbit (t_bits t) i = true \/
               exists e, In e ents /\ entry_ok (t_keys t) msg e = true /\ In i (entry_leaves (t_keys t) e)).
Proof.
  intros msg h. induction ents as [|[kid sg] rest IH]; intros t av Hinv.
  - exists t. cbn [merge_sparse_loop forallb]. rewrite andb_true_r. do 4 (split; [auto|]).
    intro i. split; [auto|]. intros [A|(e & [] & _)]. exact A.
  - pose proof Hinv as (Hwf & Hgen & Hex).
    (* the entry is rejected: nothing changes, AllValid becomes false *)
    assert (Hrej : entry_ok (t_keys t) msg (kid, sg) = false ->
      exists t', merge_sparse_loop msg rest t false =
                 Ok (t', av && forallb (entry_ok (t_keys t) msg) ((kid, sg) :: rest)) /\
        inv msg h t' /\ t_keys t' = t_keys t /\ t_n t' = t_n t /\
        (forall i, N.testbit (t_bits t') i = true <->
               N.testbit (t_bits t) i = true \/
               exists e, In e ((kid, sg) :: rest) /\ entry_ok (t_keys t) msg e = true /\ In i (entry_leaves (t_keys t) e))).
    { intro Hno. destruct (IH t false Hinv) as (t' & R1 & R2 & R3 & R4 & R5).
      exists t'. cbn [forallb]. rewrite Hno. cbn [andb] in *. rewrite andb_false_r. split; [exact R1|].
      do 3 (split; [assumption|]). intro i. rewrite R5. split.
      - intros [A|(e & A & B & C)]; [auto|]. right. exists e. split; [right; assumption|auto].
      - intros [A|(e & [A|A] & B & C)]; [auto| |].
        + subst e. congruence.
        + right. exists e. auto. }
    (* the entry is accepted without a change *)
    assert (Hsame : entry_ok (t_keys t) msg (kid, sg) = true ->
      (forall i, In i (entry_leaves (t_keys t) (kid, sg)) -> N.testbit (t_bits t) i = true) ->
      exists t', merge_sparse_loop msg rest t av =
                 Ok (t', av && forallb (entry_ok (t_keys t) msg) ((kid, sg) :: rest)) /\
        inv msg h t' /\ t_keys t' = t_keys t /\ t_n t' = t_n t /\
        (forall i, N.testbit (t_bits t') i = true <->
               N.testbit (t_bits t) i = true \/
               exists e, In e ((kid, sg) :: rest) /\ entry_ok (t_keys t) msg e = true /\ In i (entry_leaves (t_keys t) e))).
    { intros Hyes Hin. destruct (IH t av Hinv) as (t' & R1 & R2 & R3 & R4 & R5).
      exists t'. cbn [forallb]. rewrite Hyes. cbn [andb]. split; [exact R1|].
      do 3 (split; [assumption|]). intro i. rewrite R5. split.
      - intros [A|(e & A & B & C)]; [auto|]. right. exists e. split; [right; assumption|auto].
      - intros [A|(e & [A|A] & B & C)]; [auto| |].
        + subst e. left. auto.
        + right. exists e. auto. }
    cbn [merge_sparse_loop].
    destruct kid as [|x [|y [|z kid']]]; try (apply Hrej; reflexivity).
    set (id := x * 256 + y).
    destruct (tree_get_spec h t id Hwf) as [(Hlt & k & s & Hk & Hs & Hg)|(Hge & Hg)]; rewrite Hg; cbn [negb].
    2:{ apply Hrej. unfold entry_ok. cbn [fst]. fold id. rewrite (wf_keys_len _ _ Hwf).
        replace (id <? 2 * p2 h - 1) with false by (symmetry; apply N.ltb_ge; lia). reflexivity. }
    assert (Hok_eq : entry_ok (t_keys t) msg ([x; y], sg) = verify k msg sg).
    { unfold entry_ok, key_at. cbn [fst snd]. fold id. rewrite (wf_keys_len _ _ Hwf), Hk.
      replace (id <? 2 * p2 h - 1) with true by (symmetry; apply N.ltb_lt; lia). reflexivity. }
    assert (Hlv : forall ks, k = Some ks -> entry_leaves (t_keys t) ([x; y], sg) = ks).
    { intros ks ->. unfold entry_leaves, leaves_of. cbn [fst]. fold id. now rewrite Hk. }
    destruct s as [hs|].
    + (* a signature is stored for this id *)
      destruct (Hgen _ _ Hs) as (ks & Hk' & Hne & ->). rewrite Hk in Hk'. inversion Hk'; subst k. clear Hk'.
      destruct (decode sg) as [g|] eqn:Ed.
      * assert (g = sg) by (destruct sg; cbn in Ed; congruence). subst g.
        destruct (bsig_eqb (SAgg msg ks) sg) eqn:Eq.
        -- apply bsig_eqb_eq in Eq. subst sg. apply Hsame.
           ++ rewrite Hok_eq. apply verify_true. exists ks. auto.
           ++ intros i Hi. rewrite (Hlv ks eq_refl) in Hi. eapply set_node_bits; eauto.
        -- apply Hrej. rewrite Hok_eq. destruct (verify (Some ks) msg sg) eqn:Ev; [|reflexivity].
           apply verify_true in Ev. destruct Ev as (ks' & A & _ & B). inversion A; subst.
           rewrite (proj2 (bsig_eqb_eq _ _) eq_refl) in Eq. discriminate.
      * apply Hrej. rewrite Hok_eq. destruct sg; cbn in Ed; try discriminate.
        unfold verify. destruct ks as [|? ?]; reflexivity.
    + (* nothing stored: verify, then add *)
      destruct (verify k msg sg) eqn:Ev; cbn [negb].
      2:{ apply Hrej. now rewrite Hok_eq. }
      apply verify_true in Ev. destruct Ev as (ks & -> & Hne & ->). cbn [decode].
      destruct (tree_add_signature_spec msg h t id ks Hinv Hk Hne) as (t1 & A1 & A2 & A3 & A4 & A5).
      rewrite A1.
      destruct (IH t1 av A2) as (t' & R1 & R2 & R3 & R4 & R5).
      exists t'. cbn [forallb]. rewrite Hok_eq.
      replace (verify (Some ks) msg (SAgg msg ks)) with true by (symmetry; apply verify_true; exists ks; auto).
      cbn [andb]. rewrite A3 in R1, R5. split; [exact R1|].
      split; [assumption|]. split; [congruence|]. split; [congruence|].
      intro i. rewrite R5, A5. split.
      * intros [[A|A]|(e & A & B & C)]; [auto| |].
        -- right. exists ([x; y], SAgg msg ks). split; [left; reflexivity|]. split.
           ++ rewrite Hok_eq. first [reflexivity | apply verify_true; exists ks; auto].
           ++ now rewrite (Hlv ks eq_refl).
        -- right. exists e. split; [right; assumption|auto].
      * intros [A|(e & [A|A] & B & C)]; [auto| |].
        -- subst e. rewrite (Hlv ks eq_refl) in C. auto.
        -- right. exists e. auto.
Qed.

(** MergeSparse: total, flags, union. *)
Theorem merge_sparse_spec : forall p hash ents, pinv p ->
  exists p', merge_sparse p hash ents =
             Ok (p', if N.eqb hash (p_hash p)
                     then mk_flags (forallb (entry_ok (t_keys (p_tree p)) (p_msg p)) ents)
                                   (popcount (p_bits p) <? popcount (p_bits p')) false
                     else no_flags) /\
    pinv p' /\ p_msg p' = p_msg p /\ p_hash p' = p_hash p /\
    t_keys (p_tree p') = t_keys (p_tree p) /\ t_n (p_tree p') = t_n (p_tree p) /\
    (forall i, N.testbit (p_bits p') i = true <->
               N.testbit (p_bits p) i = true \/
               (hash = p_hash p /\
                exists e, In e ents /\ entry_ok (t_keys (p_tree p)) (p_msg p) e = true /\
                          In i (entry_leaves (t_keys (p_tree p)) e))).
Proof.
  intros p hash ents [h Hinv]. unfold merge_sparse. destruct (N.eqb hash (p_hash p)) eqn:E; cbn [negb].
  - apply N.eqb_eq in E.
    destruct (merge_sparse_loop_spec (p_msg p) h ents (p_tree p) true Hinv) as (t' & R1 & R2 & R3 & R4 & R5).
    rewrite R1. cbn [andb]. exists (set_tree p t'). unfold p_bits, set_tree. cbn [p_tree p_msg p_hash].
    split; [reflexivity|]. split; [exists h; exact R2|]. do 4 (split; [auto|]).
    intro i. rewrite R5. intuition.
  - apply N.eqb_neq in E. exists p. split; [reflexivity|]. split; [exists h; exact Hinv|].
    do 4 (split; [auto|]). intro i. intuition.
Qed.

(* ------------------------------------------------------------------ AddSignature *)
Lemma index_from_spec : forall keys k i idx, index_from keys k i = Some idx ->
  i <= idx /\ nthN keys (idx - i) = Some k.
Proof.
  induction keys as [|tk keys IH]; intros k i idx H; cbn [index_from] in H; [discriminate|].
  destruct (key_eqb tk k) eqn:E.
  - inversion H; subst. apply key_eqb_eq in E. subst. split; [lia|]. replace (idx - idx) with 0 by lia. reflexivity.
  - apply IH in H. destruct H as [A B]. split; [lia|]. unfold nthN in *.
    replace (N.to_nat (idx - i)) with (S (N.to_nat (idx - (i + 1)))) by lia. exact B.
Qed.

Theorem add_signature_spec : forall p sg key, pinv p ->
  exists p' code, add_signature p sg key = Ok (p', code) /\ pinv p' /\
    p_msg p' = p_msg p /\ p_hash p' = p_hash p /\
    t_keys (p_tree p') = t_keys (p_tree p) /\ t_n (p_tree p') = t_n (p_tree p) /\
    (forall i, N.testbit (p_bits p') i = true <->
               N.testbit (p_bits p) i = true \/
               (code = 0 /\ exists ks, key = Some ks /\ In i ks)) /\
    (code = 0 -> verify key (p_msg p) sg = true) /\ code <= 3.
Proof.
  intros p sg key [h Hinv]. pose proof Hinv as (Hwf & Hgen & Hex). unfold add_signature, tree_index.
  destruct (index_from (t_keys (p_tree p)) key 0) as [idx|] eqn:Ei.
  2:{ exists p, 1. split; [reflexivity|]. split; [exists h; exact Hinv|]. do 4 (split; [auto|]).
      split; [|split; [discriminate|lia]]. intro i. split; [auto|]. intros [A|[A _]]; [exact A|discriminate]. }
  apply index_from_spec in Ei. destruct Ei as [_ Hk]. replace (idx - 0) with idx in Hk by lia.
  pose proof (nthN_some_lt _ _ _ _ Hk) as Hlt. rewrite (wf_keys_len _ _ Hwf) in Hlt.
  destruct (tree_get_spec h (p_tree p) idx Hwf) as [(_ & k & s & Hk2 & Hs & Hg)|(Hge & _)]; [|lia].
  rewrite Hk in Hk2. inversion Hk2; subst k. clear Hk2. rewrite Hg.
  assert (Hnochange : forall code, code <> 0 -> code <= 3 ->
    exists p' code', Ok (p, code) = Ok (p', code') /\ pinv p' /\
    p_msg p' = p_msg p /\ p_hash p' = p_hash p /\
    t_keys (p_tree p') = t_keys (p_tree p) /\ t_n (p_tree p') = t_n (p_tree p) /\
    (forall i, N.testbit (p_bits p') i = true <->
               N.testbit (p_bits p) i = true \/ (code' = 0 /\ exists ks, key = Some ks /\ In i ks)) /\
    (code' = 0 -> verify key (p_msg p) sg = true) /\ code' <= 3).
  { intros code Hc Hc3. exists p, code. split; [reflexivity|]. split; [exists h; exact Hinv|]. do 4 (split; [auto|]).
    split; [|split; [congruence|assumption]]. intro i. split; [auto|]. intros [A|[A _]]; [exact A|congruence]. }
  destruct s as [hs|].
  - destruct (Hgen _ _ Hs) as (ks & Hk' & Hne & ->). rewrite Hk in Hk'. inversion Hk'; subst key. clear Hk'.
    destruct (decode sg) as [g|] eqn:Ed; [|apply Hnochange; [discriminate|lia]].
    assert (g = sg) by (destruct sg; cbn in Ed; congruence). subst g.
    destruct (bsig_eqb sg (SAgg (p_msg p) ks)) eqn:Eq; [|apply Hnochange; [discriminate|lia]].
    apply bsig_eqb_eq in Eq. subst sg.
    exists p, 0. split; [reflexivity|]. split; [exists h; exact Hinv|]. do 4 (split; [auto|]). split.
    + intro i. split; [auto|]. intros [A|(_ & ks' & A & B)]; [exact A|]. inversion A; subst ks'.
      eapply set_node_bits; eauto.
    + split; [|lia]. intros _. apply verify_true. exists ks. auto.
  - destruct (verify key (p_msg p) sg) eqn:Ev; cbn [negb]; [|apply Hnochange; [discriminate|lia]].
    pose proof Ev as Ev'. apply verify_true in Ev. destruct Ev as (ks & -> & Hne & ->). cbn [decode].
    destruct (tree_add_signature_spec (p_msg p) h (p_tree p) idx ks Hinv Hk Hne) as (t1 & A1 & A2 & A3 & A4 & A5).
    rewrite A1. exists (set_tree p t1), 0. unfold p_bits, set_tree. cbn [p_tree p_msg p_hash].
    split; [reflexivity|]. split; [exists h; exact A2|]. do 4 (split; [auto|]). split; [|split; [auto|lia]].
    intro i. rewrite A5. split.
    + intros [A|A]; [auto|]. right. split; [reflexivity|]. exists ks. auto.
    + intros [A|(_ & ks' & A & B)]; [auto|]. inversion A; subst. auto.
Qed.

(* ------------------------------------------------------------------ Merge: the loop over any id list *)
Lemma merge_loop_spec : forall msg h ot ids t av inc,
  inv msg h t ->
  exists t' av' inc', merge_loop msg ot ids t av inc = Ok (t', av', inc') /\
    inv msg h t' /\ t_keys t' = t_keys t /\ t_n t' = t_n t /\
    (forall i, N.testbit (t_bits t') i = true <->
               N.testbit (t_bits t) i = true \/
               exists oid os, In oid ids /\ snd (fst (tree_get ot oid)) = Some os /\
                              verify (key_at (t_keys t) oid) msg os = true /\ oid < lenN (t_keys t) /\
                              In i (leaves_of (t_keys t) oid)).
Proof.
  intros msg h ot. induction ids as [|oid rest IH]; intros t av inc Hinv.
  - exists t, av, inc. cbn [merge_loop]. do 4 (split; [auto|]).
    intro i. split; [auto|]. intros [A|(o & s & [] & _)]. exact A.
  - pose proof Hinv as (Hwf & Hgen & Hex). cbn [merge_loop].
    destruct (tree_get ot oid) as [[okey other_sig] ook] eqn:Eo.
    (* skipping the id: nothing changes *)
    assert (Hskip : forall av1,
      (forall os, other_sig = Some os -> verify (key_at (t_keys t) oid) msg os = true -> oid < lenN (t_keys t) ->
                  forall i, In i (leaves_of (t_keys t) oid) -> N.testbit (t_bits t) i = true) ->
      exists t' av' inc', merge_loop msg ot rest t av1 inc = Ok (t', av', inc') /\
        inv msg h t' /\ t_keys t' = t_keys t /\ t_n t' = t_n t /\
        (forall i, N.testbit (t_bits t') i = true <->
               N.testbit (t_bits t) i = true \/
               exists oid' os, In oid' (oid :: rest) /\ snd (fst (tree_get ot oid')) = Some os /\
                              verify (key_at (t_keys t) oid') msg os = true /\ oid' < lenN (t_keys t) /\
                              In i (leaves_of (t_keys t) oid'))).
    { intros av1 Hcov. destruct (IH t av1 inc Hinv) as (t' & av' & inc' & R1 & R2 & R3 & R4 & R5).
      exists t', av', inc'. split; [exact R1|]. do 3 (split; [assumption|]).
      intro i. rewrite R5. split.
      - intros [A|(o & s & A & B)]; [auto|]. right. exists o, s. split; [right; assumption|exact B].
      - intros [A|(o & s & [A|A] & B & C & D & E)]; [auto| |].
        + subst o. rewrite Eo in B. cbn [fst snd] in B. left. eapply Hcov; eauto.
        + right. exists o, s. auto. }
    destruct (tree_get_spec h t oid Hwf) as [(Hlt & k & s & Hk & Hs & Hg)|(Hge & Hg)]; rewrite Hg.
    2:{ (* out of range in p: zero key, zero signature *)
        assert (Hout : forall os, verify (key_at (t_keys t) oid) msg os = true -> oid < lenN (t_keys t) -> False).
        { intros os _ C. rewrite (wf_keys_len _ _ Hwf) in C. lia. }
        destruct other_sig as [os|].
        - cbn [verify negb]. apply Hskip. intros os' _ A B. exfalso. eapply Hout; eauto.
        - apply Hskip. intros os' A. discriminate. }
    destruct s as [hs|].
    + destruct (Hgen _ _ Hs) as (ks & Hk' & Hne & ->). rewrite Hk in Hk'. inversion Hk'; subst k. clear Hk'.
      assert (Hka : key_at (t_keys t) oid = Some ks) by (unfold key_at; now rewrite Hk).
      assert (Hc : forall i, In i (leaves_of (t_keys t) oid) -> N.testbit (t_bits t) i = true).
      { intros i Hi. unfold leaves_of in Hi. rewrite Hk in Hi. exact (set_node_bits msg h t oid ks _ Hinv Hs Hk i Hi). }
      destruct other_sig as [os|]; [|apply Hskip; intros; auto].
      destruct (bsig_eqb (SAgg msg ks) os); apply Hskip; intros; auto.
    + destruct other_sig as [os|]; [|apply Hskip; intros os' A; discriminate].
      destruct (verify k msg os) eqn:Ev; cbn [negb].
      2:{ apply Hskip. intros os' A B. inversion A; subst os'. unfold key_at in B. rewrite Hk in B. congruence. }
      pose proof Ev as Ev'. apply verify_true in Ev. destruct Ev as (ks & -> & Hne & ->).
      assert (Hka : key_at (t_keys t) oid = Some ks) by (unfold key_at; now rewrite Hk).
      destruct (tree_add_signature_spec msg h t oid ks Hinv Hk Hne) as (t1 & A1 & A2 & A3 & A4 & A5).
      rewrite A1.
      destruct (IH t1 av (inc || (popcount (t_bits t) <? popcount (t_bits t1))) A2)
        as (t' & av' & inc' & R1 & R2 & R3 & R4 & R5).
      exists t', av', inc'. split; [exact R1|]. split; [assumption|]. split; [congruence|]. split; [congruence|].
      rewrite A3 in R5.
      * intro i. rewrite R5, A5. split.
        -- intros [[A|A]|(o & s & A & B)]; [auto| |].
           ++ right. exists oid, (SAgg msg ks). split; [left; reflexivity|]. rewrite Eo. cbn [fst snd].
              split; [reflexivity|]. rewrite Hka. split; [exact Ev'|].
              split; [rewrite (wf_keys_len _ _ Hwf); lia|]. unfold leaves_of. now rewrite Hk.
           ++ right. exists o, s. split; [right; assumption|exact B].
        -- intros [A|(o & s & [A|A] & B & C & D & E)]; [auto| |].
           ++ subst o. unfold leaves_of in E. rewrite Hk in E. auto.
           ++ right. exists o, s. auto.
Qed.

(* ------------------------------------------------------------------ consequences *)
Definition same_bits (a b : N) : Prop := forall i, N.testbit a i = N.testbit b i.

Lemma same_bits_eq : forall a b, (forall i, N.testbit a i = true <-> N.testbit b i = true) -> a = b.
Proof.
  intros a b H. apply N.bits_inj. intro i. specialize (H i).
  destruct (N.testbit a i), (N.testbit b i); intuition congruence.
Qed.

(** the bits MergeSparse adds: the real leaves under the entries that verify *)
Definition offered (keys : list (option bkey)) (msg : N) (ents : list sparse_entry) (i : N) : Prop :=
  exists e, In e ents /\ entry_ok keys msg e = true /\ In i (entry_leaves keys e).

Theorem merge_sparse_monotone : forall p hash ents p' f, pinv p ->
  merge_sparse p hash ents = Ok (p', f) ->
  forall i, N.testbit (p_bits p) i = true -> N.testbit (p_bits p') i = true.
Proof.
  intros p hash ents p' f Hp E i Hi.
  destruct (merge_sparse_spec p hash ents Hp) as (p1 & R1 & _ & _ & _ & _ & _ & R5).
  rewrite R1 in E. inversion E; subst. apply R5. auto.
Qed.

Theorem merge_sparse_idempotent : forall p hash ents p1 f1, pinv p ->
  merge_sparse p hash ents = Ok (p1, f1) ->
  exists p2 f2, merge_sparse p1 hash ents = Ok (p2, f2) /\ p_bits p2 = p_bits p1 /\
                f_increased f2 = false /\ f_all_valid f2 = f_all_valid f1.
Proof.
  intros p hash ents p1 f1 Hp E.
  destruct (merge_sparse_spec p hash ents Hp) as (q1 & R1 & Hq1 & Rm & Rh & Rk & Rn & R5).
  rewrite R1 in E. inversion E; subst q1. clear E.
  destruct (merge_sparse_spec p1 hash ents Hq1) as (q2 & S1 & Hq2 & Sm & Sh & Sk & Sn & S5).
  assert (Hb : p_bits q2 = p_bits p1).
  { apply same_bits_eq. intro i. rewrite S5. split; [|auto].
    intros [A|(A & e & B & C & D)]; [exact A|]. apply R5. right. split; [congruence|].
    exists e. rewrite <- Rk, <- Rm. auto. }
  eexists q2, _. split; [exact S1|]. split; [exact Hb|]. rewrite Rh.
  destruct (N.eqb hash (p_hash p)); cbn [f_increased f_all_valid no_flags].
  - rewrite Hb, N.ltb_irrefl, Rk, Rm. auto.
  - auto.
Qed.

Theorem merge_sparse_order_irrelevant : forall p hash ents ents' p1 f1 p2 f2, pinv p ->
  Permutation ents ents' ->
  merge_sparse p hash ents = Ok (p1, f1) -> merge_sparse p hash ents' = Ok (p2, f2) ->
  p_bits p1 = p_bits p2 /\ f1 = f2.
Proof.
  intros p hash ents ents' p1 f1 p2 f2 Hp Hperm E1 E2.
  destruct (merge_sparse_spec p hash ents Hp) as (q1 & R1 & _ & _ & _ & _ & _ & R5).
  destruct (merge_sparse_spec p hash ents' Hp) as (q2 & S1 & _ & _ & _ & _ & _ & S5).
  rewrite R1 in E1. rewrite S1 in E2. inversion E1; subst q1. inversion E2; subst q2.
  assert (Hb : p_bits p1 = p_bits p2).
  { apply same_bits_eq. intro i. rewrite R5, S5. split.
    - intros [A|(A & e & B & C)]; [auto|]. right. split; [assumption|]. exists e. split; [|exact C].
      eapply Permutation_in; eauto.
    - intros [A|(A & e & B & C)]; [auto|]. right. split; [assumption|]. exists e. split; [|exact C].
      eapply Permutation_in; [apply Permutation_sym|]; eauto. }
  split; [exact Hb|]. rewrite Hb.
  destruct (N.eqb hash (p_hash p)); [|reflexivity]. f_equal.
  set (g := entry_ok (t_keys (p_tree p)) (p_msg p)).
  clear - Hperm. induction Hperm; cbn [forallb]; auto.
  - now rewrite IHHperm.
  - destruct (g x), (g y); reflexivity.
  - congruence.
Qed.
