(** C10 (crash between the committed-header write and the position write of a commit): the
    header store is one header ahead of the stored position.  Start-up reads the header store
    only at the committing height and the height below it, so it loads exactly the views it
    loads without the extra header; the start-up re-evaluation is total on them ([tinv]).
    Hence [restart] is total on such stores as well.  (That the re-evaluation then commits
    the same header again - so that [INV] holds afterwards - is NOT proved here.) *)
From Coq Require Import List NArith Arith Bool Lia String.
From GV Require Import Base.Ints Gen.Math Gen.Kernel Model.Mirror
  Proofs.Thresholds Proofs.MirrorAuth Proofs.MirrorNoop Proofs.MirrorChain Proofs.MirrorCert
  Proofs.MirrorTotal Proofs.MirrorRestart Proofs.MirrorResumeLoad Proofs.MirrorResumeInv Proofs.MirrorResumeStart.
Import ListNotations.
Local Open Scope N_scope.

(** [restart] without its last line: the state built from the stores, before the re-evaluation *)
Definition restart_pre (ih : N) (ivs : valset) (st : stores) (vals : list (bytes * list N)) (log : list wr) : res kstate :=
  let '(vh0, vr0, ch0, cr0) := sr_nhr st in
  let uninit := vh0 =? 0 in
  let '(vh, vr, ch, cr) := if uninit then (ih, 0, 0, 0) else (vh0, vr0, ch0, cr0) in
  let log1 := if uninit then log ++ [WNhr (ih, 0, 0, 0)] else log in
  let e := rs_entry (sr_rounds st) ch cr in
  let committing_proof :=
    match rs_get (sr_rounds st) ch cr with
    | Some e => match re_pc e with
                | Some (pkh, entries) => mk_cproof cr pkh entries
                | None => mk_cproof cr [] []
                end
    | None => mk_cproof 0 [] []
    end in
  bind
    (if ih <=? ch then
       bind (if ch =? ih then Ok ivs
             else match hdr_get (sr_hdrs st) (ch - 1) with
                  | Some (x, _) => Ok (hd_next x)
                  | None => Panic "loadInitialCommittingView: committed header below the committing height is missing"
                  end) (fun vs =>
       bind (load_initial_view_r (sr_rounds st) (sr_replayed st) ch cr vs) (fun v0 =>
       match v_pc v0 with
       | [] => Panic "loadInitialCommittingView: BUG: loading commit view from disk without any precommits"
       | _ =>
         bind (if ih <? ch then
                 match hdr_get (sr_hdrs st) (ch - 1) with
                 | Some (_, cp) => Ok cp
                 | None => Panic "error: failed to load committed header for previous commit proof"
                 end
               else Ok empty_cproof) (fun pcp =>
         let v := bump (with_pcp v0 pcp) in
         match hdr_get (sr_hdrs st) ch with
         | Some (x, _) => Ok (v, Some x)
         | None => Panic "error: failed to load committing header"
         end)
       end))
     else Ok (mk_view ch cr empty_valset [] [] [] empty_cproof new_summary 0, None)) (fun cc =>
  let '(com, chdr) := cc in
  bind (if vh =? ih then Ok ivs
        else match chdr with
             | Some x => match vs_keys (hd_next x) with
                         | [] => Panic "loadInitialVotingView: BUG: no validators available"
                         | _ => Ok (hd_next x)
                         end
             | None => Panic "loadInitialVotingView: BUG: no validators available"
             end) (fun vs =>
  bind (load_initial_view_r (sr_rounds st) (sr_replayed st) vh vr vs) (fun vot0 =>
  bind (load_initial_view_r (sr_rounds st) (sr_replayed st) vh (wrap32 (vr + 1)) vs) (fun nxt0 =>
  let vot := bump (with_pcp vot0 committing_proof) in
  let nxt := bump (with_pcp nxt0 committing_proof) in
  (* the managers take their copies when the views are loaded, BEFORE the previous commit proofs
     are attached to the views (kernel.go: Mark*ViewUpdated precedes the PrevCommitProof assignment) *)
  let evs := (match chdr with Some _ => [EvMark ViewIDCommitting (with_pcp com empty_cproof)] | None => [] end)
             ++ [EvMark ViewIDVoting (bump vot0); EvMark ViewIDNextRound (bump nxt0)] in
  let s0 := mk_k ih ivs com vot nxt chdr (if uninit then (ih, 0, 0, 0) else sr_nhr st) (sr_hdrs st) (sr_rounds st) (sr_replayed st) vals log1 evs in
  Ok s0)))).

Lemma restart_eq ih ivs st vals log :
  restart ih ivs st vals log =
  bind (restart_pre ih ivs st vals log) (fun s0 => bind (recheck_view_shifts s0) (fun s1 => Ok (update_observers s1))).
Proof.
  unfold restart, restart_pre.
  destruct (sr_nhr st) as [[[vh0 vr0] ch0] cr0].
  destruct (if vh0 =? 0 then (ih, 0, 0, 0) else (vh0, vr0, ch0, cr0)) as [[[vh vr] ch] cr].
  match goal with |- bind ?X _ = bind (bind ?X _) _ => destruct X as [[com chdr]|] end; cbn [bind]; [|reflexivity].
  match goal with |- bind ?X _ = bind (bind ?X _) _ => destruct X as [vs|] end; cbn [bind]; [|reflexivity].
  match goal with |- bind ?X _ = bind (bind ?X _) _ => destruct X as [vot0|] end; cbn [bind]; [|reflexivity].
  match goal with |- bind ?X _ = bind (bind ?X _) _ => destruct X as [nxt0|] end; cbn [bind]; reflexivity.
Qed.

Lemma restart_pre_cps ih ivs st vals log (P : res kstate -> Prop) :
  1 <= ih -> vwf ivs -> SI ih ivs st ->
  (forall s0, stores_of s0 = st -> st_log s0 = log -> st_vals s0 = vals ->
      INV ih ivs s0 -> tinv s0 -> comvals ih ivs s0 -> ne_state s0 -> n1 s0 -> kok s0 -> loadedv s0 ->
      P (Ok s0)) ->
  P (restart_pre ih ivs st vals log).
Proof.
  intros Hih Hivs (vh&vr&ch&cr&Hnhr&Hshape&Hfine&Hcert&Hrounds&Hrep) HP.
  assert (Hvh : (vh =? 0) = false).
  { apply N.eqb_neq. destruct Hshape as [(_&_&E&_)|(_&E&_)]; lia. }
  assert (Hstores : mk_stores (vh, vr, ch, cr) (sr_hdrs st) (sr_rounds st) (sr_replayed st) = st).
  { clear -Hnhr. destruct st as [a b c d]. cbn in Hnhr |- *. rewrite Hnhr. reflexivity. }
  unfold restart_pre. rewrite Hnhr. cbv beta iota zeta. rewrite Hvh. cbv beta iota zeta.
  destruct Hshape as [(Ech&Ecr&Evh&EH)|(Hchain&Evh&Hb&Hcg)].
  - (* nothing committed yet *)
    destruct (N.leb_spec ih ch) as [Hle|_]; [lia|]. cbn [bind]. cbv beta iota zeta.
    rewrite Evh at 1. rewrite N.eqb_refl. cbn [bind].
    assert (Evs : ivs = chain_vals ih ivs (sr_hdrs st) vh) by (rewrite Evh; symmetry; apply chain_vals_at_init).
    pose proof (voting_entry_good ih ivs st vh Hrounds ivs Evs) as Hg.
    destruct (load_total (sr_rounds st) (sr_replayed st) vh vr ivs (proj2 (proj2 Hivs))
                (proj1 (Hg vr)) (proj1 (proj2 (Hg vr)))) as [vot0 Lv].
    destruct (load_total (sr_rounds st) (sr_replayed st) vh (wrap32 (vr + 1)) ivs (proj2 (proj2 Hivs))
                (proj1 (Hg _)) (proj1 (proj2 (Hg _)))) as [nxt0 Ln].
    rewrite Lv, Ln. cbn [bind]. cbv beta iota zeta.
    match goal with |- P (Ok (mk_k _ _ ?com (bump (with_pcp _ ?cpv)) _ _ _ _ _ _ _ _ ?evs)) =>
      pose proof (loaded_state_ok ih ivs st vals log evs vh vr ch cr Hih Hnhr Hfine Hcert Hrounds Hrep ivs Evs
                    com None vot0 nxt0 cpv Lv Ln Hivs) as HS end.
    cbv zeta in HS. rewrite Hnhr in HS. unfold dressed in HS.
    destruct HS as (S1&S2&S3&S4&S5&S6&S7).
    + cbn [v_h]. lia.
    + cbn [v_r]. lia.
    + apply auth_view_fresh.
    + split; intros t p [].
    + reflexivity.
    + repeat split; try assumption; reflexivity.
    + apply HP; try assumption; try reflexivity.
  - (* a committing header exists *)
    destruct (hchain_bounds _ _ _ Hchain) as [Hle _].
    destruct (N.leb_spec ih ch) as [_|Hlt]; [|lia].
    set (vsc := chain_vals ih ivs (sr_hdrs st) ch) in *.
    assert (Hvsc : (if ch =? ih then Ok ivs
                    else match hdr_get (sr_hdrs st) (ch - 1) with
                         | Some (x, _) => Ok (hd_next x)
                         | None => Panic "loadInitialCommittingView: committed header below the committing height is missing"
                         end) = Ok vsc /\ vwf vsc).
    { unfold vsc. destruct (N.eqb_spec ch ih) as [E|Hne].
      - rewrite E, chain_vals_at_init. split; [reflexivity|exact Hivs].
      - destruct (hchain_lookup _ _ _ Hchain (ch - 1)) as (y&ycp&Hy&Hyin&_); [lia|lia|].
        rewrite Hy. rewrite (chain_vals_hdr_get ih ivs _ ch y ycp Hne Hy).
        split; [reflexivity|]. exact (proj2 (Hfine _ _ _ Hyin)). }
    destruct Hvsc as [Hvsc Hvscwf]. rewrite Hvsc. cbn [bind].
    destruct Hcg as (Gpv&Gpc&pkh&en&enl&Epc).
    destruct (load_total (sr_rounds st) (sr_replayed st) ch cr vsc (proj2 (proj2 Hvscwf)) Gpv Gpc) as [v0 Lc].
    rewrite Lc. cbn [bind].
    destruct (load_facts _ _ _ _ _ _ Lc) as (C1&C2&C3&C4&C5&C6&C7&C8).
    assert (Hpcne : v_pc v0 <> []).
    { destruct (to_full_map_good KPrecommit ch cr (vs_keys vsc) _ (proj2 (proj2 Hvscwf)) Gpc) as (pm&Epm&Hne).
      rewrite C8 in Epm. inversion Epm; subst pm. eapply Hne. exact Epc. }
    destruct (v_pc v0) as [|pc0 pcl] eqn:Evpc; [contradiction|].
    assert (Hpcp : exists pcp, (if ih <? ch
                    then match hdr_get (sr_hdrs st) (ch - 1) with
                         | Some (_, cp) => Ok cp
                         | None => Panic "error: failed to load committed header for previous commit proof"
                         end
                    else Ok empty_cproof) = Ok pcp).
    { destruct (N.ltb_spec ih ch) as [Hl|_]; [|eexists; reflexivity].
      destruct (hchain_lookup _ _ _ Hchain (ch - 1)) as (y&ycp&Hy&_&_); [lia|lia|].
      rewrite Hy. eexists; reflexivity. }
    destruct Hpcp as [pcp Hpcp]. rewrite Hpcp. cbn [bind]. cbv beta iota zeta.
    destruct (hchain_lookup _ _ _ Hchain ch Hle (N.le_refl _)) as (x&xcp&Hx&Hxin&Hxh).
    rewrite Hx. cbn [bind]. cbv beta iota zeta.
    destruct (N.eqb_spec vh ih) as [E|_]; [lia|].
    destruct (Hfine _ _ _ Hxin) as [Hxvals Hxnext].
    destruct (vs_keys (hd_next x)) as [|k0 kl] eqn:Ekeys; [exfalso; apply (proj2 (proj2 Hxnext)); exact Ekeys|].
    cbn [bind].
    assert (Evs : hd_next x = chain_vals ih ivs (sr_hdrs st) vh).
    { symmetry. apply (chain_vals_hdr_get ih ivs _ vh x xcp); [lia|]. replace (vh - 1) with ch by lia. exact Hx. }
    assert (Hkne : vs_keys (hd_next x) <> []) by (rewrite Ekeys; discriminate).
    pose proof (voting_entry_good ih ivs st vh Hrounds (hd_next x) Evs) as Hg.
    destruct (load_total (sr_rounds st) (sr_replayed st) vh vr (hd_next x) Hkne
                (proj1 (Hg vr)) (proj1 (proj2 (Hg vr)))) as [vot0 Lv].
    destruct (load_total (sr_rounds st) (sr_replayed st) vh (wrap32 (vr + 1)) (hd_next x) Hkne
                (proj1 (Hg _)) (proj1 (proj2 (Hg _)))) as [nxt0 Ln].
    rewrite Lv, Ln. cbn [bind]. cbv beta iota zeta.
    match goal with |- P (Ok (mk_k _ _ ?com (bump (with_pcp _ ?cpv)) _ _ _ _ _ _ _ _ ?evs)) =>
      pose proof (loaded_state_ok ih ivs st vals log evs vh vr ch cr Hih Hnhr Hfine Hcert Hrounds Hrep (hd_next x) Evs
                    com (Some x) vot0 nxt0 cpv Lv Ln Hxnext) as HS end.
    cbv zeta in HS. rewrite Hnhr in HS. unfold dressed in HS.
    destruct HS as (S1&S2&S3&S4&S5&S6&S7).
    + cbn. exact C1.
    + cbn. exact C2.
    + apply auth_view_bump. destruct C5 as [A B]. split; cbn; [exact A|]. first [exact B|rewrite <- Evpc; exact B|rewrite Evpc; exact B].
    + destruct C7 as [A B]. split; cbn; [exact A|]. first [exact B|rewrite <- Evpc; exact B|rewrite Evpc; exact B].
    + reflexivity.
    + split; [exists xcp; exact Hx|]. split; [exact Hxh|]. split; [exact Evh|]. split; [exact Hb|].
      split; [exact Hchain|]. cbn. exact C3.
    + apply HP; try assumption; try reflexivity.
Qed.


(** * The header store is read at two heights only *)
Lemma find_filter_neq (l : list (N * (hdr * cproof))) h h' : h' <> h ->
  find (fun e => fst e =? h') (filter (fun e => negb (fst e =? h)) l) = find (fun e => fst e =? h') l.
Proof.
  intros Hne. induction l as [|[a y] l IH]; [reflexivity|]. cbn [filter find fst].
  destruct (N.eqb_spec a h) as [->|Ha]; cbn [negb find fst].
  - destruct (N.eqb_spec h h') as [E|_]; [congruence|exact IH].
  - destruct (a =? h'); [reflexivity|exact IH].
Qed.

Lemma hdr_get_hstore_set H h x h' : h' <> h -> hdr_get (hstore_set H h x) h' = hdr_get H h'.
Proof.
  intros Hne. unfold hdr_get, hstore_set. cbn [find fst].
  destruct (N.eqb_spec h h') as [E|_]; [congruence|]. rewrite find_filter_neq by exact Hne. reflexivity.
Qed.

Lemma restart_pre_ahead ih ivs st0 h x vals log :
  n_vh (sr_nhr st0) <> 0 -> n_ch (sr_nhr st0) < h ->
  restart_pre ih ivs (apply_wr st0 (WHdr h x)) vals log =
  match restart_pre ih ivs st0 vals log with
  | Ok s0 => Ok (set_hdrs s0 (hstore_set (sr_hdrs st0) h x))
  | Panic m => Panic m
  end.
Proof.
  unfold restart_pre. cbn [apply_wr sr_nhr sr_hdrs sr_rounds sr_replayed].
  destruct (sr_nhr st0) as [[[vh vr] ch] cr]. unfold n_vh, n_ch. cbn [fst snd]. intros Hvh Hlt.
  apply N.eqb_neq in Hvh. rewrite Hvh. cbv beta iota zeta.
  rewrite !(hdr_get_hstore_set (sr_hdrs st0) h x (ch - 1)) by lia.
  rewrite !(hdr_get_hstore_set (sr_hdrs st0) h x ch) by lia.
  match goal with |- bind ?X _ = match bind ?X _ with _ => _ end => destruct X as [[com chdr]|] end; cbn [bind]; [|reflexivity].
  match goal with |- bind ?X _ = match bind ?X _ with _ => _ end => destruct X as [vs|] end; cbn [bind]; [|reflexivity].
  match goal with |- bind ?X _ = match bind ?X _ with _ => _ end => destruct X as [vot0|] end; cbn [bind]; [|reflexivity].
  match goal with |- bind ?X _ = match bind ?X _ with _ => _ end => destruct X as [nxt0|] end; cbn [bind]; reflexivity.
Qed.

Lemma recheck_total_tinv s : tinv s -> exists s1, recheck_view_shifts s = Ok s1.
Proof.
  intros [HA HP]. unfold recheck_view_shifts.
  destruct (check_voting_total s HA) as (s1&E1&T1). rewrite E1. cbn [bind].
  pose proof (T1 HP) as [A1 P1].
  destruct (negb _); [exists s1; reflexivity|].
  destruct (check_next_round_total s1 A1) as (s2&E2&T2). rewrite E2. cbn [bind].
  pose proof (T2 P1) as [A2 P2].
  destruct (negb _); [exists s2; reflexivity|].
  destruct (check_prevote_total s2 A2) as (s3&E3&_). exists s3. exact E3.
Qed.

(** stores that are one committed header ahead of a store satisfying [SI] *)
Definition ahead_ok (ih : N) (ivs : valset) (st : stores) : Prop :=
  exists st0 h x, SI ih ivs st0 /\ n_ch (sr_nhr st0) < h /\ st = apply_wr st0 (WHdr h x).

Theorem restart_ahead_total ih ivs st vals log :
  1 <= ih -> vwf ivs -> ahead_ok ih ivs st -> exists s', restart ih ivs st vals log = Ok s'.
Proof.
  intros Hih Hivs (st0&h&x&HSI&Hlt&->).
  assert (Hvh : n_vh (sr_nhr st0) <> 0).
  { destruct HSI as (vh&vr&ch&cr&Hn&Hshape&_). rewrite Hn. unfold n_vh. cbn [fst].
    destruct Hshape as [(_&_&E&_)|(_&E&_)]; lia. }
  rewrite restart_eq, (restart_pre_ahead ih ivs st0 h x vals log Hvh Hlt).
  assert (Hpre : exists s0, restart_pre ih ivs st0 vals log = Ok s0 /\ tinv s0).
  { apply (restart_pre_cps ih ivs st0 vals log (fun r => exists s0, r = Ok s0 /\ tinv s0) Hih Hivs HSI).
    intros s0 _ _ _ _ HT _ _ _ _ _. exists s0. split; [reflexivity|exact HT]. }
  destruct Hpre as (s0&E0&HT). rewrite E0. cbn [bind].
  destruct (recheck_total_tinv (set_hdrs s0 (hstore_set (sr_hdrs st0) h x)) HT) as (s1&E1).
  rewrite E1. cbn [bind]. eexists; reflexivity.
Qed.
