(** C13 (BLS tree) - full Merge of two proofs over the same keys: exact union, exact flags. *)
From Coq Require Import List NArith ZArith String Bool Lia Arith.
From GV Require Import Base.Ints Model.SimpleProofBase Model.BlsTree Proofs.BlsTreeBase Proofs.BlsTreeAdd
  Proofs.BlsTreeProof Proofs.BlsTreeMachine Proofs.BlsTreeSparse.
Import ListNotations.
Local Open Scope N_scope.

(* ------------------------------------------------------------------ popcount is monotone *)
Lemma pc_double : forall a, popcount (N.double a) = popcount a.
Proof. destruct a; reflexivity. Qed.

Lemma pc_succ_double : forall a, popcount (N.succ_double a) = 1 + popcount a.
Proof. destruct a; reflexivity. Qed.

Lemma binary_cases : forall b, exists b', b = N.double b' \/ b = N.succ_double b'.
Proof.
  destruct b as [|[p|p|]].
  - exists 0. left. reflexivity.
  - exists (Npos p). right. reflexivity.
  - exists (Npos p). left. reflexivity.
  - exists 0. right. reflexivity.
Qed.

Lemma tb_double_0 : forall a, N.testbit (N.double a) 0 = false.
Proof. intro. rewrite N.double_spec. apply N.testbit_even_0. Qed.
Lemma tb_double_S : forall a i, N.testbit (N.double a) (N.succ i) = N.testbit a i.
Proof. intros. rewrite N.double_spec. apply N.testbit_even_succ. apply N.le_0_l. Qed.
Lemma tb_sdouble_0 : forall a, N.testbit (N.succ_double a) 0 = true.
Proof. intro. rewrite N.succ_double_spec. apply N.testbit_odd_0. Qed.
Lemma tb_sdouble_S : forall a i, N.testbit (N.succ_double a) (N.succ i) = N.testbit a i.
Proof. intros. rewrite N.succ_double_spec. apply N.testbit_odd_succ. apply N.le_0_l. Qed.

Lemma popcount_mono : forall a b,
  (forall i, N.testbit a i = true -> N.testbit b i = true) -> popcount a <= popcount b.
Proof.
  induction a using N.binary_ind; intros b H.
  - cbn. lia.
  - destruct (binary_cases b) as [b' [-> | ->]].
    + rewrite !pc_double. apply IHa. intros i Hi. specialize (H (N.succ i)). rewrite !tb_double_S in H. auto.
    + rewrite pc_double, pc_succ_double.
      assert (popcount a <= popcount b'); [|lia].
      apply IHa. intros i Hi. specialize (H (N.succ i)). rewrite tb_double_S, tb_sdouble_S in H. auto.
  - destruct (binary_cases b) as [b' [-> | ->]].
    + specialize (H 0). rewrite tb_sdouble_0, tb_double_0 in H. specialize (H eq_refl). discriminate.
    + rewrite !pc_succ_double.
      assert (popcount a <= popcount b'); [|lia].
      apply IHa. intros i Hi. specialize (H (N.succ i)). rewrite !tb_sdouble_S in H. auto.
Qed.

Lemma ltb_chain : forall a b c, a <= b -> b <= c -> (a <? b) || (b <? c) = (a <? c).
Proof.
  intros. destruct (a <? b) eqn:E1, (b <? c) eqn:E2, (a <? c) eqn:E3; try reflexivity;
    try apply N.ltb_lt in E1; try apply N.ltb_lt in E2; try apply N.ltb_lt in E3;
    try apply N.ltb_ge in E1; try apply N.ltb_ge in E2; try apply N.ltb_ge in E3; lia.
Qed.

(* ------------------------------------------------------------------ the loop over good ids *)
(** [x] is a node whose signature in the other tree is the genuine aggregate for OUR key at x *)
Definition good_id (msg : N) (ot t : tree) (x : N) : Prop :=
  exists ks, tree_get ot x = (Some ks, Some (SAgg msg ks), true) /\
             nthN (t_keys t) x = Some (Some ks) /\ ks <> [].

Lemma merge_loop_good : forall msg h ot ids t av inc,
  inv msg h t -> (forall x, In x ids -> good_id msg ot t x) ->
  exists t', merge_loop msg ot ids t av inc =
             Ok (t', av, inc || (popcount (t_bits t) <? popcount (t_bits t'))) /\
    inv msg h t' /\ t_keys t' = t_keys t /\ t_n t' = t_n t /\
    (forall i, N.testbit (t_bits t') i = true <->
               N.testbit (t_bits t) i = true \/ exists x, In x ids /\ In i (leaves_of (t_keys t) x)).
Proof.
  intros msg h ot. induction ids as [|x rest IH]; intros t av inc Hinv Hgood.
  - exists t. cbn [merge_loop]. rewrite N.ltb_irrefl, orb_false_r. split; [reflexivity|].
    split; [assumption|]. split; [reflexivity|]. split; [reflexivity|].
    intro i. split; [auto|]. intros [A|(y & [] & _)]. exact A.
  - pose proof Hinv as (Hwf & Hgen & Hex). cbn [merge_loop].
    destruct (Hgood x (or_introl eq_refl)) as (ks & Hg & Hk & Hne). rewrite Hg.
    assert (Hrest : forall t1, t_keys t1 = t_keys t -> forall y, In y rest -> good_id msg ot t1 y).
    { intros t1 Ek y Hy. destruct (Hgood y (or_intror Hy)) as (ks' & A & B & C). exists ks'. rewrite Ek. auto. }
    destruct (tree_get_spec h t x Hwf) as [(Hlt & k & s & Hk2 & Hs & Hgt)|(Hge & _)].
    2:{ pose proof (nthN_some_lt _ _ _ _ Hk) as L. rewrite (wf_keys_len _ _ Hwf) in L. lia. }
    rewrite Hk in Hk2. inversion Hk2; subst k. clear Hk2. rewrite Hgt.
    assert (Hlv : leaves_of (t_keys t) x = ks) by (unfold leaves_of; now rewrite Hk).
    destruct s as [hs|].
    + (* already stored: by the invariant it is the same aggregate *)
      destruct (Hgen _ _ Hs) as (ks' & Hk' & _ & ->). rewrite Hk in Hk'. inversion Hk'; subst ks'.
      rewrite (proj2 (bsig_eqb_eq _ _) eq_refl).
      destruct (IH t av inc Hinv (Hrest t eq_refl)) as (t' & R1 & R2 & R3 & R4 & R5).
      exists t'. split; [exact R1|]. do 3 (split; [assumption|]).
      intro i. rewrite R5. split.
      * intros [A|(y & A & B)]; [auto|]. right. exists y. split; [right; assumption|assumption].
      * intros [A|(y & [A|A] & B)]; [auto| |].
        -- subst y. left. rewrite Hlv in B. exact (set_node_bits msg h t x ks _ Hinv Hs Hk i B).
        -- right. exists y. auto.
    + (* verify and add *)
      replace (verify (Some ks) msg (SAgg msg ks)) with true by (symmetry; apply verify_true; exists ks; auto).
      cbn [negb].
      destruct (tree_add_signature_spec msg h t x ks Hinv Hk Hne) as (t1 & A1 & A2 & A3 & A4 & A5).
      rewrite A1.
      destruct (IH t1 av (inc || (popcount (t_bits t) <? popcount (t_bits t1))) A2 (Hrest t1 A3))
        as (t' & R1 & R2 & R3 & R4 & R5).
      exists t'. rewrite A3 in R5.
      assert (M1 : popcount (t_bits t) <= popcount (t_bits t1)).
      { apply popcount_mono. intros i Hi. apply A5. auto. }
      assert (M2 : popcount (t_bits t1) <= popcount (t_bits t')).
      { apply popcount_mono. intros i Hi. apply R5. auto. }
      split.
      * rewrite R1. rewrite <- orb_assoc, (ltb_chain _ _ _ M1 M2). reflexivity.
      * split; [assumption|]. split; [congruence|]. split; [congruence|].
        intro i. rewrite R5, A5. split.
        -- intros [[A|A]|(y & A & B)]; [auto| |].
           ++ right. exists x. split; [left; reflexivity|]. now rewrite Hlv.
           ++ right. exists y. split; [right; assumption|assumption].
        -- intros [A|(y & [A|A] & B)]; [auto| |].
           ++ subst y. rewrite Hlv in B. auto.
           ++ right. exists y. auto.
Qed.

(* ------------------------------------------------------------------ Merge *)
Definition looks_superset_b (ob pb : N) : bool :=
  (N.eqb ob 0 && N.eqb pb 0) || is_strict_superset ob pb.

Theorem merge_spec : forall p o, pinv p -> pinv o -> t_keys (p_tree p) = t_keys (p_tree o) ->
  exists p', merge p o =
             Ok (p', if matches p o
                     then mk_flags true (popcount (p_bits p) <? popcount (p_bits p'))
                                   (looks_superset_b (p_bits o) (p_bits p))
                     else no_flags) /\
    pinv p' /\ p_msg p' = p_msg p /\ p_hash p' = p_hash p /\
    t_keys (p_tree p') = t_keys (p_tree p) /\ t_n (p_tree p') = t_n (p_tree p) /\
    (forall i, N.testbit (p_bits p') i = true <->
               N.testbit (p_bits p) i = true \/ (matches p o = true /\ N.testbit (p_bits o) i = true)).
Proof.
  intros p o [h Hinv] [h' Hinvo] Hkeys. unfold merge.
  destruct (matches p o) eqn:Em; cbn [negb].
  2:{ exists p. split; [reflexivity|]. split; [exists h; exact Hinv|]. do 4 (split; [reflexivity|]).
      intro i. split; [auto|]. intros [A|[A _]]; [exact A|discriminate]. }
  assert (Emsg : p_msg o = p_msg p).
  { unfold matches in Em. apply andb_true_iff in Em. destruct Em as [A _]. apply N.eqb_eq in A. auto. }
  rewrite <- Emsg in Hinv.
  destruct (sparse_indices_spec (p_msg o) h' (p_tree o) Hinvo) as (ids & Es & _ & Hin). rewrite Es.
  pose proof Hinvo as (Hwfo & Hgeno & _).
  assert (Hgood : forall x, In x ids -> good_id (p_msg o) (p_tree o) (p_tree p) x).
  { intros x Hx. apply Hin in Hx. destruct Hx as (d & off & Hd & Ho & -> & Hm).
    apply andb_true_iff in Hm. destruct Hm as [M1 _]. apply set_at_is_set in M1. destruct M1 as [sg Hs].
    destruct (Hgeno _ _ Hs) as (ks & Hk & Hne & ->). exists ks. rewrite Hkeys. split; [|auto].
    destruct (tree_get_spec h' (p_tree o) (nidx h' d off) Hwfo) as [(_ & k & s & A & B & C)|(Hge & _)].
    - rewrite C. rewrite Hk in A. rewrite Hs in B. inversion A. inversion B. reflexivity.
    - pose proof (nthN_some_lt _ _ _ _ Hk) as L. rewrite (wf_keys_len _ _ Hwfo) in L. lia. }
  rewrite Emsg in *.
  destruct (merge_loop_good (p_msg p) h (p_tree o) ids (p_tree p) true false Hinv Hgood)
    as (t' & R1 & R2 & R3 & R4 & R5).
  rewrite R1. exists (set_tree p t'). unfold p_bits, set_tree. cbn [p_tree p_msg p_hash orb andb].
  rewrite andb_true_r. split; [reflexivity|]. split; [exists h; exact R2|]. do 4 (split; [auto|]).
  intro i. rewrite R5. rewrite Hkeys.
  pose proof (sparse_cover (p_msg p) h' (p_tree o) ids Hinvo Es i) as Hc.
  unfold p_bits in *. rewrite Hc. tauto.
Qed.

(** "WasStrictSuperset implies that o's signer set strictly contains p's" is FALSE (as the Go comment
    concedes): two empty proofs. *)
Definition merge_superset_of_equal (n : N) : bool :=
  match new_proof 0 n 0 with
  | Ok p => match merge p p with
            | Ok (p', f) => f_superset f && N.eqb (p_bits p) (p_bits p')
            | Panic _ => false
            end
  | Panic _ => false
  end.

Theorem merge_superset_strict_refuted : exists n, merge_superset_of_equal n = true.
Proof. exists 5. vm_compute. reflexivity. Qed.
