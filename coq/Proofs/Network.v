(** C03 - proofs about the abstract history model (Model/Network.v). *)
From Coq Require Import List NArith ZArith Bool Lia ZifyBool ZifyN Arith.
From GV Require Import Base.Ints Gen.Math Proofs.Thresholds Model.Network Monitors.C03m.
Import ListNotations.
Local Open Scope N_scope.

(** * Basic reflection *)
Lemma kind_eqb_eq a b : kind_eqb a b = true <-> a = b.
Proof. destruct a, b; simpl; split; congruence. Qed.

Lemma vote_matches_spec k h r b v :
  vote_matches k h r b v = true <->
  v_kind v = k /\ v_height v = h /\ v_round v = r /\ v_block v = b.
Proof. unfold vote_matches. rewrite !andb_true_iff, kind_eqb_eq, !N.eqb_eq. tauto. Qed.

Lemma signers_spec V k h r b i :
  N.testbit (signers V k h r b) i = true <->
  exists v, In v V /\ vote_matches k h r b v = true /\ v_signer v = i.
Proof.
  induction V as [|v V IH]; cbn [signers].
  - rewrite N.bits_0. split; [discriminate|]. intros (v & [] & _).
  - destruct (vote_matches k h r b v) eqn:E.
    + rewrite N.setbit_iff, IH. split.
      * intros [H | (w & Hw & Hm & Hs)].
        -- exists v. split; [left; reflexivity|]. split; assumption.
        -- exists w. split; [right; assumption|]. split; assumption.
      * intros (w & [Ew | Hw] & Hm & Hs).
        -- left. subst w. assumption.
        -- right. exists w. split; [assumption|]. split; assumption.
    + rewrite IH. split.
      * intros (w & Hw & Hm & Hs). exists w. split; [right; assumption|]. split; assumption.
      * intros (w & [Ew | Hw] & Hm & Hs).
        -- subst w. congruence.
        -- exists w. split; [assumption|]. split; assumption.
Qed.

(** * Weighted power: monotonicity and witnesses *)
Lemma pow_from_mono i vals a b :
  (forall j, N.testbit a j = true -> N.testbit b j = true) ->
  pow_from i vals a <= pow_from i vals b.
Proof.
  intros H. revert i. induction vals as [|p vs IH]; intros i; simpl; [lia|].
  specialize (IH (N.succ i)). destruct (N.testbit a i) eqn:Ea.
  - rewrite (H _ Ea). lia.
  - destruct (N.testbit b i); lia.
Qed.

Lemma pow_from_witness i vals a b :
  pow_from i vals b < pow_from i vals a ->
  exists j, N.testbit a j = true /\ N.testbit b j = false.
Proof.
  revert i. induction vals as [|p vs IH]; intros i; simpl; [lia|].
  destruct (N.testbit a i) eqn:Ea, (N.testbit b i) eqn:Eb; intros H.
  - apply (IH (N.succ i)). lia.
  - exists i; auto.
  - apply (IH (N.succ i)). lia.
  - apply (IH (N.succ i)). lia.
Qed.

(** * Thresholds *)
Definition valset_ok (vals : list N) (byzm : N) : Prop :=
  1 <= total vals /\ total vals < two64 /\ pow vals byzm < mnr (total vals).

Lemma valset_okb_ok vals byzm : valset_okb vals byzm = true -> valset_ok vals byzm.
Proof. unfold valset_okb, valset_ok. rewrite !andb_true_iff, N.leb_le, !N.ltb_lt. tauto. Qed.

Lemma quorumb_maj vals m : 1 <= total vals -> total vals < two64 ->
  (quorumb vals m = true <-> maj (total vals) <= pow vals m).
Proof.
  intros H1 H2. unfold quorumb.
  destruct (no_wrap (total vals) (conj H1 H2)) as (E & _). rewrite E.
  apply N.leb_le.
Qed.

Lemma quorumb_mono vals a b :
  (forall j, N.testbit a j = true -> N.testbit b j = true) ->
  quorumb vals a = true -> quorumb vals b = true.
Proof.
  intros H. unfold quorumb. destruct (byz_majority (total vals)); [|auto].
  rewrite !N.leb_le. pose proof (pow_from_mono 0 vals a b H). unfold pow. lia.
Qed.

Lemma quorum_overlap_correct vals byzm q1 q2 :
  valset_ok vals byzm ->
  quorumb vals q1 = true -> quorumb vals q2 = true ->
  exists i, N.testbit q1 i = true /\ N.testbit q2 i = true /\ N.testbit byzm i = false.
Proof.
  intros (H1 & H2 & H3) Ha Hb.
  apply quorumb_maj in Ha; auto. apply quorumb_maj in Hb; auto.
  pose proof (weighted_quorum_overlap vals q1 q2 H1 Ha Hb) as Ho.
  destruct (pow_from_witness 0 vals (N.land q1 q2) byzm) as (j & Hj & Hbz).
  { unfold pow in *. lia. }
  rewrite N.land_spec, andb_true_iff in Hj. exists j. tauto.
Qed.

Lemma qmask_spec byzm V k h r b i :
  N.testbit (qmask byzm V k h r b) i = true <->
  N.testbit (signers V k h r b) i = true \/ N.testbit byzm i = true.
Proof. unfold qmask. rewrite N.lor_spec, orb_true_iff. tauto. Qed.

(** * The hypotheses, as named predicates (see design/C03.md for which node-level theorem of
      which property discharges each). *)

(** a validator outside the Byzantine set of its vote's height *)
Definition correct (byz : N -> N) (v : vote) : Prop :=
  N.testbit (byz (v_height v)) (v_signer v) = false.

(** (A1) a correct validator signs at most one prevote and one precommit per (height, round)  [C02] *)
Definition A1 (byz : N -> N) (V : list vote) : Prop :=
  forall v w, In v V -> In w V -> correct byz v ->
    v_kind v = v_kind w -> v_height v = v_height w -> v_round v = v_round w ->
    v_signer v = v_signer w -> v_block v = v_block w.

(** (A2) a correct validator precommits a block only with a >2/3 prevote quorum for it in that round
    [hypothesis on the consensus strategy: DecidePrecommit] *)
Definition A2 (vals : N -> list N) (byz : N -> N) (V : list vote) : Prop :=
  forall v, In v V -> correct byz v -> v_kind v = Precommit -> v_block v <> 0 ->
    bquorumb (vals (v_height v)) (byz (v_height v)) V Prevote (v_height v) (v_round v) (v_block v) = true.

(** (A3) lock rule: a correct validator that precommitted B in round r prevotes another block B' in a
    later round r' only if B' had a prevote quorum in some round r'' with r <= r'' < r'
    [hypothesis on the consensus strategy: ConsiderProposedBlocks / ChooseProposedBlock] *)
Definition A3 (vals : N -> list N) (byz : N -> N) (V : list vote) : Prop :=
  forall v w, In v V -> In w V -> correct byz v ->
    v_kind v = Precommit -> v_kind w = Prevote ->
    v_signer v = v_signer w -> v_height v = v_height w ->
    v_block v <> 0 -> v_block w <> 0 -> v_block w <> v_block v -> v_round v < v_round w ->
    exists r, v_round v <= r /\ r < v_round w /\
      bquorumb (vals (v_height v)) (byz (v_height v)) V Prevote (v_height v) r (v_block w) = true.

(** (AUTH) every vote a node admits that carries a correct validator's index was signed by it  [C05];
    votes with Byzantine indices are arbitrary *)
Definition vote_auth (byz : N -> N) (V : list vote) (v : vote) : Prop := correct byz v -> In v V.
Definition authentic (byz : N -> N) (V : list vote) (tr : list event) : Prop :=
  forall v, In (Deliver v) tr -> vote_auth byz V v.

(** * Quorum intersection on vote sets *)
Lemma bquorum_overlap vals byzm V k1 r1 b1 k2 r2 b2 h :
  valset_ok vals byzm ->
  bquorumb vals byzm V k1 h r1 b1 = true -> bquorumb vals byzm V k2 h r2 b2 = true ->
  exists v w, In v V /\ In w V /\
    vote_matches k1 h r1 b1 v = true /\ vote_matches k2 h r2 b2 w = true /\
    v_signer v = v_signer w /\ N.testbit byzm (v_signer v) = false.
Proof.
  intros Hok Q1 Q2. unfold bquorumb in *.
  destruct (quorum_overlap_correct _ _ _ _ Hok Q1 Q2) as (i & B1 & B2 & Bz).
  apply qmask_spec in B1. apply qmask_spec in B2.
  destruct B1 as [B1|B1]; [|congruence]. destruct B2 as [B2|B2]; [|congruence].
  apply signers_spec in B1 as (v & Hv & Mv & Sv).
  apply signers_spec in B2 as (w & Hw & Mw & Sw).
  exists v, w. repeat split; auto; congruence.
Qed.

Theorem one_block_per_round vals byz V k h r b b' :
  valset_ok (vals h) (byz h) -> A1 byz V ->
  bquorumb (vals h) (byz h) V k h r b = true ->
  bquorumb (vals h) (byz h) V k h r b' = true -> b = b'.
Proof.
  intros Hok HA1 Q1 Q2.
  destruct (bquorum_overlap _ _ _ _ _ _ _ _ _ _ Hok Q1 Q2) as (v & w & Hv & Hw & Mv & Mw & Hs & Hc).
  apply vote_matches_spec in Mv as (Kv & Hhv & Rv & Bv).
  apply vote_matches_spec in Mw as (Kw & Hhw & Rw & Bw).
  rewrite <- Bv, <- Bw. apply HA1; auto; unfold correct; congruence.
Qed.

(** a quorum contains a vote really signed by a correct validator *)
Lemma bquorum_has_correct vals byz V k h r b :
  valset_ok (vals h) (byz h) ->
  bquorumb (vals h) (byz h) V k h r b = true ->
  exists v, In v V /\ vote_matches k h r b v = true /\ correct byz v.
Proof.
  intros Hok Q.
  destruct (bquorum_overlap _ _ _ _ _ _ _ _ _ _ Hok Q Q) as (v & w & Hv & _ & Mv & _ & _ & Hc).
  exists v. repeat split; auto.
  apply vote_matches_spec in Mv as (_ & Hh & _). unfold correct. rewrite Hh. exact Hc.
Qed.

(** * The lock invariant: once B has a precommit quorum in round r0, no other block ever gets a
      prevote quorum in a round >= r0. *)
Lemma lock_invariant vals byz V h r0 b :
  valset_ok (vals h) (byz h) -> A1 byz V -> A2 vals byz V -> A3 vals byz V ->
  b <> 0 -> bquorumb (vals h) (byz h) V Precommit h r0 b = true ->
  forall (n : nat) r b', (N.to_nat r < n)%nat -> r0 <= r -> b' <> 0 ->
    bquorumb (vals h) (byz h) V Prevote h r b' = true -> b' = b.
Proof.
  intros Hok HA1 HA2 HA3 Hb Qc n.
  induction n as [|n IH]; intros r b' Hn Hr Hb' Qp; [lia|].
  destruct (N.eq_dec b' b) as [|Hne]; [assumption|exfalso].
  destruct (bquorum_overlap _ _ _ _ _ _ _ _ _ _ Hok Qc Qp) as (v & w & Hv & Hw & Mv & Mw & Hs & Hc).
  apply vote_matches_spec in Mv as (Kv & Hhv & Rv & Bv).
  apply vote_matches_spec in Mw as (Kw & Hhw & Rw & Bw).
  assert (Cv : correct byz v) by (unfold correct; rewrite Hhv; exact Hc).
  assert (Qv : bquorumb (vals h) (byz h) V Prevote h r0 b = true).
  { pose proof (HA2 v Hv Cv Kv) as Q. rewrite Hhv, Rv, Bv in Q. apply Q. exact Hb. }
  destruct (N.eq_dec r r0) as [->|Hrne].
  - apply Hne. symmetry. eapply one_block_per_round; eauto.
  - destruct (HA3 v w Hv Hw Cv Kv Kw Hs) as (r'' & L1 & L2 & Q''); try congruence.
    { rewrite Rv, Rw. lia. }
    rewrite Hhv, Rv, Bw in *. rewrite Rw in L2.
    apply Hne. apply (IH r'' b'); auto. lia.
Qed.

(** Two precommit quorums at one height are for the same block, whatever their rounds. *)
Theorem agreement_quorums vals byz V h r1 b1 r2 b2 :
  valset_ok (vals h) (byz h) -> A1 byz V -> A2 vals byz V -> A3 vals byz V ->
  b1 <> 0 -> b2 <> 0 ->
  bquorumb (vals h) (byz h) V Precommit h r1 b1 = true ->
  bquorumb (vals h) (byz h) V Precommit h r2 b2 = true -> b1 = b2.
Proof.
  assert (W : forall r1 b1 r2 b2, r1 <= r2 ->
    valset_ok (vals h) (byz h) -> A1 byz V -> A2 vals byz V -> A3 vals byz V ->
    b1 <> 0 -> b2 <> 0 ->
    bquorumb (vals h) (byz h) V Precommit h r1 b1 = true ->
    bquorumb (vals h) (byz h) V Precommit h r2 b2 = true -> b2 = b1).
  { clear. intros r1 b1 r2 b2 Hle Hok HA1 HA2 HA3 Hb1 Hb2 Q1 Q2.
    destruct (bquorum_has_correct _ _ _ _ _ _ _ Hok Q2) as (v & Hv & Mv & Cv).
    apply vote_matches_spec in Mv as (Kv & Hhv & Rv & Bv).
    pose proof (HA2 v Hv Cv Kv) as Q. rewrite Hhv, Rv, Bv in Q. specialize (Q Hb2).
    eapply (lock_invariant vals byz V h r1 b1 Hok HA1 HA2 HA3 Hb1 Q1 (S (N.to_nat r2)) r2 b2); auto. }
  intros Hok HA1 HA2 HA3 Hb1 Hb2 Q1 Q2.
  destruct (N.le_ge_cases r1 r2) as [Hle|Hle].
  - symmetry. eapply W; eauto.
  - eapply W; eauto.
Qed.

(** * Node runs *)
Definition decided (vals : N -> list N) (byz : N -> N) (V : list vote) (h b : N) : Prop :=
  b <> 0 /\ exists r, bquorumb (vals h) (byz h) V Precommit h r b = true.

Lemma held_quorum_lifts vals byz V held k h r b :
  (forall v, In v held -> vote_auth byz V v) ->
  quorumb (vals h) (signers held k h r b) = true ->
  bquorumb (vals h) (byz h) V k h r b = true.
Proof.
  intros Hauth. unfold bquorumb. apply quorumb_mono. intros j Hj.
  apply qmask_spec. apply signers_spec in Hj as (v & Hv & Mv & Sv).
  destruct (N.testbit (byz h) j) eqn:Ebz; [right; reflexivity|left].
  apply signers_spec. exists v. repeat split; auto.
  apply (Hauth v Hv). unfold correct.
  apply vote_matches_spec in Mv as (_ & Hh & _). rewrite Hh, Sv. exact Ebz.
Qed.

Lemma authentic_tail byz V e tr : authentic byz V (e :: tr) -> authentic byz V tr.
Proof. intros H v Hv. apply H. right. exact Hv. Qed.

(** Commit rule of the model: whatever a node finalizes had a precommit quorum (up to the Byzantine
    validators) among the votes really signed. *)
Lemma run_decided vals byz V tr : forall n n',
  authentic byz V tr ->
  (forall v, In v (n_held n) -> vote_auth byz V v) ->
  (forall h b, In (h, b) (n_stream n) -> decided vals byz V h b) ->
  run vals n tr = Some n' ->
  forall h b, In (h, b) (n_stream n') -> decided vals byz V h b.
Proof.
  induction tr as [|e tr IH]; intros n n' Hau Hheld Hstr Hrun; simpl in Hrun.
  - inversion Hrun; subst. exact Hstr.
  - destruct (step vals n e) as [n1|] eqn:Es; [|discriminate].
    apply (IH n1 n' (authentic_tail _ _ _ _ Hau)); auto.
    + destruct e as [dv|fr fb|eh|]; simpl in Es.
      * inversion Es; subst; simpl. intros v' [<-|Hv]; [apply Hau; left; reflexivity|auto].
      * destruct (_ && _) eqn:G in Es; inversion Es; subst; simpl. exact Hheld.
      * destruct (_ && _) eqn:G in Es; inversion Es; subst; simpl. exact Hheld.
      * inversion Es; subst; simpl. intros v' [].
    + destruct e as [dv|fr fb|eh|]; simpl in Es.
      * inversion Es; subst; simpl. exact Hstr.
      * destruct (_ && _) eqn:G in Es; inversion Es; subst; simpl.
        apply andb_true_iff in G as (G1 & G3). apply andb_true_iff in G1 as (G1 & G2).
        intros h' b0 [E|Hin]; [|auto]. inversion E; subst. split.
        -- apply negb_true_iff in G2. apply N.eqb_neq in G2. exact G2.
        -- exists fr. eapply held_quorum_lifts; eauto.
      * destruct (_ && _) eqn:G in Es; inversion Es; subst; simpl. exact Hstr.
      * inversion Es; subst; simpl. exact Hstr.
Qed.

Theorem finalize_needs_quorum vals byz V h0 tr n :
  authentic byz V tr -> run vals (init_node h0) tr = Some n ->
  forall h b, In (h, b) (stream_of n) -> decided vals byz V h b.
Proof.
  intros Hau Hrun h b Hin. unfold stream_of in Hin. apply in_rev in Hin.
  eapply (run_decided vals byz V tr (init_node h0) n); eauto; simpl; intros; contradiction.
Qed.

(** * Agreement *)
Theorem agreement vals byz V h0 h0' tr1 tr2 n1 n2 h b1 b2 :
  valset_ok (vals h) (byz h) -> A1 byz V -> A2 vals byz V -> A3 vals byz V ->
  authentic byz V tr1 -> authentic byz V tr2 ->
  run vals (init_node h0) tr1 = Some n1 -> run vals (init_node h0') tr2 = Some n2 ->
  In (h, b1) (stream_of n1) -> In (h, b2) (stream_of n2) -> b1 = b2.
Proof.
  intros Hok HA1 HA2 HA3 Hau1 Hau2 R1 R2 I1 I2.
  destruct (finalize_needs_quorum _ _ _ _ _ _ Hau1 R1 _ _ I1) as (Hb1 & r1 & Q1).
  destruct (finalize_needs_quorum _ _ _ _ _ _ Hau2 R2 _ _ I2) as (Hb2 & r2 & Q2).
  eapply agreement_quorums; eauto.
Qed.

(** * Contiguous finalization *)
Fixpoint down (h0 : N) (k : nat) : list N :=
  match k with O => [] | S k' => (h0 + N.of_nat k') :: down h0 k' end.

Definition up (h0 : N) (k : nat) : list N := map (fun i => h0 + N.of_nat i) (seq 0 k).

Lemma rev_down h0 k : rev (down h0 k) = up h0 k.
Proof.
  unfold up. induction k as [|k IH]; [reflexivity|].
  simpl down. simpl rev. rewrite IH, seq_S, map_app. reflexivity.
Qed.

Definition cont_inv (h0 : N) (n : node) : Prop :=
  exists k, map fst (n_stream n) = down h0 k /\
            h0 + N.of_nat k = (if n_done n then n_height n + 1 else n_height n).

Lemma run_cont vals h0 tr : forall n n',
  cont_inv h0 n -> run vals n tr = Some n' -> cont_inv h0 n'.
Proof.
  induction tr as [|e tr IH]; intros n n' Hinv Hrun; simpl in Hrun.
  - inversion Hrun; subst. exact Hinv.
  - destruct (step vals n e) as [n1|] eqn:Es; [|discriminate].
    apply (IH n1 n'); auto. destruct Hinv as (k & Hm & Hk).
    destruct e as [dv|fr fb|eh|]; simpl in Es.
    + inversion Es; subst. exists k; auto.
    + destruct (_ && _) eqn:G in Es; inversion Es; subst.
      apply andb_true_iff in G as (G1 & _). apply andb_true_iff in G1 as (G1 & _).
      apply negb_true_iff in G1. rewrite G1 in Hk.
      exists (S k). simpl. split; [rewrite Hm, Hk; reflexivity|lia].
    + destruct (_ && _) eqn:G in Es; inversion Es; subst.
      apply andb_true_iff in G as (G1 & G2). rewrite G1 in Hk. apply N.eqb_eq in G2.
      exists k. simpl. split; [exact Hm|lia].
    + inversion Es; subst. exists k; auto.
Qed.

Theorem contiguous_finalization vals h0 tr n :
  run vals (init_node h0) tr = Some n ->
  exists k, map fst (stream_of n) = up h0 k.
Proof.
  intros Hrun.
  destruct (run_cont vals h0 tr (init_node h0) n) as (k & Hm & _); auto.
  { exists O. simpl. split; [reflexivity|lia]. }
  exists k. unfold stream_of. rewrite map_rev, Hm. apply rev_down.
Qed.

(** * The monitor: soundness and the model satisfies it *)
Lemma up_shift h k : map (fun i => h + N.of_nat i) (seq 1 k) = up (h + 1) k.
Proof.
  unfold up. rewrite <- seq_shift, map_map. apply map_ext. intros i. lia.
Qed.

Lemma contiguous_from_spec s : forall h,
  contiguous_from h s = true <-> map fst s = up h (length s).
Proof.
  induction s as [|[h' b] s IH]; intros h; simpl.
  - split; reflexivity.
  - unfold up. simpl. rewrite andb_true_iff, N.eqb_eq, IH, up_shift. split.
    + intros [-> E]. rewrite E. f_equal. lia.
    + intros E. inversion E; subst. split; [lia|]. rewrite H1. reflexivity.
Qed.

Lemma lookup_in h s b : lookup h s = Some b -> In (h, b) s.
Proof.
  induction s as [|[h' b'] s IH]; simpl; [discriminate|].
  destruct (N.eqb_spec h' h) as [->|]; intros E; [inversion E; auto|auto].
Qed.

Lemma in_lookup h b s : In (h, b) s -> exists b0, lookup h s = Some b0.
Proof.
  induction s as [|[h' b'] s IH]; simpl; [contradiction|].
  destruct (N.eqb_spec h' h) as [->|Hne]; [eauto|].
  intros [E|Hin]; [inversion E; congruence|auto].
Qed.

Lemma streams_agree_spec s1 s2 :
  streams_agree s1 s2 = true <->
  forall h b1 b0, In (h, b1) s1 -> lookup h s2 = Some b0 -> b1 = b0.
Proof.
  unfold streams_agree. rewrite forallb_forall. split.
  - intros H h b1 b0 Hin Hl. specialize (H (h, b1) Hin). simpl in H. rewrite Hl in H.
    apply N.eqb_eq in H. exact H.
  - intros H [h b1] Hin. simpl. destruct (lookup h s2) as [b0|] eqn:El; [|reflexivity].
    apply N.eqb_eq. eapply H; eauto.
Qed.

(** Soundness: if the monitor accepts the observed streams then no two of them (nor one with
    itself) carry different blocks at a height, and each is h0, h0+1, ... in order. *)
Theorem c03_mon_sound h0 ss : c03_mon h0 ss = true ->
  (forall s1 s2 h b1 b2, In s1 ss -> In s2 ss -> In (h, b1) s1 -> In (h, b2) s2 -> b1 = b2) /\
  (forall s, In s ss -> map fst s = up h0 (length s)).
Proof.
  unfold c03_mon. rewrite andb_true_iff, !forallb_forall. intros (Hc & Ha). split.
  - intros s1 s2 h b1 b2 I1 I2 J1 J2.
    destruct (in_lookup _ _ _ J2) as (b0 & El).
    pose proof (Ha s1 I1) as A1'. rewrite forallb_forall in A1'.
    pose proof (Ha s2 I2) as A2'. rewrite forallb_forall in A2'.
    pose proof (proj1 (streams_agree_spec s1 s2) (A1' s2 I2) h b1 b0 J1 El).
    pose proof (proj1 (streams_agree_spec s2 s2) (A2' s2 I2) h b2 b0 J2 El).
    congruence.
  - intros s Hs. apply contiguous_from_spec. apply Hc. exact Hs.
Qed.

(** Completeness direction used for the model: agreement + contiguity make the monitor accept. *)
Lemma c03_mon_complete h0 ss :
  (forall s1 s2 h b1 b2, In s1 ss -> In s2 ss -> In (h, b1) s1 -> In (h, b2) s2 -> b1 = b2) ->
  (forall s, In s ss -> exists k, map fst s = up h0 k) ->
  c03_mon h0 ss = true.
Proof.
  intros Hag Hco. unfold c03_mon. rewrite andb_true_iff, !forallb_forall. split.
  - intros s Hs. apply contiguous_from_spec. destruct (Hco s Hs) as (k & E).
    assert (k = length s) as ->; [|exact E].
    pose proof (f_equal (@length N) E) as L. unfold up in L. rewrite !map_length, seq_length in L. lia.
  - intros s1 I1. rewrite forallb_forall. intros s2 I2. apply streams_agree_spec.
    intros h b1 b0 J1 El. apply (Hag s1 s2 h b1 b0 I1 I2 J1). apply lookup_in. exact El.
Qed.

Theorem model_satisfies_monitor vals byz V h0 trs ns :
  (forall h, valset_ok (vals h) (byz h)) -> A1 byz V -> A2 vals byz V -> A3 vals byz V ->
  Forall2 (fun tr n => authentic byz V tr /\ run vals (init_node h0) tr = Some n) trs ns ->
  c03_mon h0 (map stream_of ns) = true.
Proof.
  intros Hok HA1 HA2 HA3 HF.
  assert (Hn : forall n, In n ns -> exists tr, authentic byz V tr /\ run vals (init_node h0) tr = Some n).
  { induction HF as [|tr n trs ns [Hau Hr] _ IH]; simpl; [contradiction|].
    intros n' [<-|Hin]; [exists tr; auto|auto]. }
  apply c03_mon_complete.
  - intros s1 s2 h b1 b2 I1 I2 J1 J2.
    apply in_map_iff in I1 as (n1 & <- & I1). apply in_map_iff in I2 as (n2 & <- & I2).
    destruct (Hn n1 I1) as (tr1 & Hau1 & R1). destruct (Hn n2 I2) as (tr2 & Hau2 & R2).
    eapply (agreement vals byz V h0 h0 tr1 tr2 n1 n2 h b1 b2); eauto.
  - intros s Hs. apply in_map_iff in Hs as (n & <- & Hin).
    destruct (Hn n Hin) as (tr & _ & R). eapply contiguous_finalization; eauto.
Qed.

(** * The executable checkers are sound for the named hypotheses *)
Lemma kind_eqb_refl k : kind_eqb k k = true.
Proof. destruct k; reflexivity. Qed.

Lemma correctb_ok byz v : correctb byz v = true <-> correct byz v.
Proof. unfold correctb, correct. rewrite negb_true_iff. tauto. Qed.

Lemma a1b_ok byz V : a1b byz V = true -> A1 byz V.
Proof.
  unfold a1b, A1. rewrite forallb_forall. intros H v w Hv Hw Cv Ek Eh Er Es.
  specialize (H v Hv). apply orb_true_iff in H as [H|H].
  - apply negb_true_iff in H. apply correctb_ok in Cv. congruence.
  - rewrite forallb_forall in H. specialize (H w Hw). apply orb_true_iff in H as [H|H].
    + apply negb_true_iff in H. rewrite Ek, Eh, Er, Es, kind_eqb_refl, !N.eqb_refl in H. discriminate.
    + apply N.eqb_eq. exact H.
Qed.

Lemma a2b_ok vals byz V : a2b vals byz V = true -> A2 vals byz V.
Proof.
  unfold a2b, A2. rewrite forallb_forall. intros H v Hv Cv Ek Hb.
  specialize (H v Hv). rewrite !orb_true_iff in H. destruct H as [[[H|H]|H]|H].
  - apply negb_true_iff in H. apply correctb_ok in Cv. congruence.
  - apply negb_true_iff in H. rewrite Ek in H. discriminate.
  - apply N.eqb_eq in H. contradiction.
  - exact H.
Qed.

Lemma rounds_between_in lo hi r : In r (rounds_between lo hi) -> lo <= r /\ r < hi.
Proof.
  unfold rounds_between. rewrite in_map_iff. intros (i & <- & Hi). apply in_seq in Hi. lia.
Qed.

Lemma a3b_ok vals byz V : a3b vals byz V = true -> A3 vals byz V.
Proof.
  unfold a3b, A3. rewrite forallb_forall.
  intros H v w Hv Hw Cv Ekv Ekw Es Eh Hbv Hbw Hne Hlt.
  specialize (H v Hv). rewrite !orb_true_iff in H. destruct H as [[[H|H]|H]|H].
  - apply negb_true_iff in H. apply correctb_ok in Cv. congruence.
  - apply negb_true_iff in H. rewrite Ekv in H. discriminate.
  - apply N.eqb_eq in H. contradiction.
  - rewrite forallb_forall in H. specialize (H w Hw). apply orb_true_iff in H as [H|H].
    + apply negb_true_iff in H. exfalso. rewrite Ekw, <- Es, <- Eh in H.
      rewrite !N.eqb_refl in H. simpl in H.
      destruct (N.eqb_spec (v_block w) 0) as [|_]; [contradiction|].
      destruct (N.eqb_spec (v_block w) (v_block v)) as [|_]; [contradiction|].
      destruct (N.ltb_spec (v_round v) (v_round w)) as [_|]; [|lia].
      simpl in H. discriminate.
    + apply existsb_exists in H as (r & Hr & Q). apply rounds_between_in in Hr.
      exists r. tauto.
Qed.

Lemma vote_eqb_eq v w : vote_eqb v w = true -> v = w.
Proof.
  destruct v, w. unfold vote_eqb. simpl.
  rewrite !andb_true_iff, kind_eqb_eq, !N.eqb_eq. intros ((((-> & ->) & ->) & ->) & ->). reflexivity.
Qed.

Lemma authenticb_ok byz V tr : authenticb byz V tr = true -> authentic byz V tr.
Proof.
  unfold authenticb, authentic, vote_auth. rewrite forallb_forall. intros H v Hv Cv.
  specialize (H _ Hv). simpl in H. apply orb_true_iff in H as [H|H].
  - apply negb_true_iff in H. apply correctb_ok in Cv. congruence.
  - apply existsb_exists in H as (w & Hw & E). apply vote_eqb_eq in E. subst. exact Hw.
Qed.

(** * The hypotheses are satisfiable: a concrete 4-validator history (powers 3,3,3,4; validator 3
      Byzantine with power 4 < ByzantineMinority(13) = 5) in which the Byzantine validator equivocates
      in prevotes and precommits, a correct validator locks on block 11 in round 0, the network moves
      to block 22 in round 1, the locked validator follows in round 2 (lock rule, via the round-1
      quorum), and two nodes finalize (1,22),(2,33) from different rounds' certificates - one of them
      across a restart. *)
Definition ex_vals : N -> list N := fun _ => [3; 3; 3; 4].
Definition ex_byz : N -> N := fun _ => 8.
Definition pv := mkVote Prevote.
Definition pc := mkVote Precommit.
Definition ex_V : list vote :=
  [ (* height 1, round 0 *)
    pv 1 0 11 0; pv 1 0 11 1; pv 1 0 11 2; pv 1 0 11 3; pv 1 0 22 3;
    pc 1 0 11 0; pc 1 0 0 1; pc 1 0 0 2; pc 1 0 11 3; pc 1 0 0 3;
    (* round 1: validator 0 is locked on 11; 1, 2 and the Byzantine validator move to 22 *)
    pv 1 1 11 0; pv 1 1 22 1; pv 1 1 22 2; pv 1 1 22 3; pv 1 1 11 3;
    pc 1 1 0 0; pc 1 1 22 1; pc 1 1 22 2; pc 1 1 22 3;
    (* round 2: validator 0 may now prevote 22 (quorum for 22 in round 1) *)
    pv 1 2 22 0; pv 1 2 22 1; pv 1 2 22 2;
    pc 1 2 22 0; pc 1 2 22 1; pc 1 2 22 2;
    (* height 2 *)
    pv 2 0 33 0; pv 2 0 33 1; pv 2 0 33 2;
    pc 2 0 33 0; pc 2 0 33 1; pc 2 0 33 2; pc 2 0 33 3; pc 2 0 44 3 ].

Definition ex_trX : list event :=
  [ Deliver (pc 1 1 22 1); Deliver (pc 1 1 22 2); Deliver (pc 1 1 22 3);
    Deliver (pc 1 1 11 3) (* a Byzantine vote nobody recorded *);
    Finalize 1 22; Enter 2;
    Deliver (pc 2 0 33 1); Deliver (pc 2 0 33 0); Deliver (pc 2 0 33 0); Deliver (pc 2 0 33 2);
    Finalize 0 33 ].

Definition ex_trY : list event :=
  [ Deliver (pc 1 0 11 0); Deliver (pc 1 0 11 3); Restart;
    Deliver (pc 1 2 22 2); Deliver (pc 1 2 22 0); Deliver (pc 1 2 22 1); Deliver (pc 1 2 22 1);
    Finalize 2 22; Enter 2;
    Deliver (pc 2 0 44 3); Deliver (pc 2 0 33 3); Deliver (pc 2 0 33 1); Deliver (pc 2 0 33 2);
    Finalize 0 33 ].

Example hypotheses_satisfiable :
  (forall h, valset_ok (ex_vals h) (ex_byz h)) /\
  A1 ex_byz ex_V /\ A2 ex_vals ex_byz ex_V /\ A3 ex_vals ex_byz ex_V /\
  authentic ex_byz ex_V ex_trX /\ authentic ex_byz ex_V ex_trY /\
  (exists nX nY, run ex_vals (init_node 1) ex_trX = Some nX /\
                 run ex_vals (init_node 1) ex_trY = Some nY /\
                 stream_of nX = [(1, 22); (2, 33)] /\ stream_of nY = [(1, 22); (2, 33)]) /\
  (* the Byzantine validator equivocates *)
  (In (pv 1 0 11 3) ex_V /\ In (pv 1 0 22 3) ex_V /\ In (pc 2 0 33 3) ex_V /\ In (pc 2 0 44 3) ex_V) /\
  (* guards refuse: a finalize without a quorum, and an entrance before finalizing *)
  run ex_vals (init_node 1) [Deliver (pc 1 0 11 0); Deliver (pc 1 0 11 3); Finalize 0 11] = None /\
  run ex_vals (init_node 1) [Enter 2] = None.
Proof.
  split; [intros h; apply valset_okb_ok; vm_compute; reflexivity|].
  split; [apply a1b_ok; vm_compute; reflexivity|].
  split; [apply a2b_ok; vm_compute; reflexivity|].
  split; [apply a3b_ok; vm_compute; reflexivity|].
  split; [apply authenticb_ok; vm_compute; reflexivity|].
  split; [apply authenticb_ok; vm_compute; reflexivity|].
  split; [eexists; eexists; vm_compute; repeat split; reflexivity|].
  split; [vm_compute; tauto|].
  split; vm_compute; reflexivity.
Qed.
