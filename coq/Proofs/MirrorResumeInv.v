(** C10 (start-up): the STORE invariant [SI] and totality of [restart] (NewKernel) on it.

    [SI ih ivs st] describes the four stores as a crash can leave them, in terms of the stores
    alone (plus the genesis data [ih], [ivs]):
      - the stored position (vh, vr, ch, cr) is either the initial one (nothing committed, no
        committed header) or the committed headers form a contiguous linked chain from [ih] up to
        the committing height ch = vh - 1;
      - every committed header announces a well-formed next validator set ([hdr_fine]) and carries
        its commit certificate ([cert], as in Proofs/MirrorCert.v);
      - no round entry lies above the voting height, and EVERY round entry of the voting height
        is loadable under the validator set the restart will use for that height
        ([chain_vals]: genesis set at [ih], else the next set of the header one below): both vote
        collections are [coll_good], every stored proposed header is for this height, hashes,
        extends the committing header and announces well-formed validator sets;
      - the entry of the committing round is loadable under the committing height's set and its
        precommit collection has at least one entry;
      - replayed headers are at most at the voting height, those at it are like proposed headers.

    [restart_on_SI]: on such stores [restart] returns; the state [s0] it builds before the
    start-up re-evaluation satisfies [INV] (cinv, auth_state, sinv, hinv) and [tinv], its stores
    ARE the given stores, and the result is [update_observers] of the re-evaluation of [s0]. *)
From Coq Require Import List NArith Arith Bool Lia String.
From GV Require Import Base.Ints Gen.Math Gen.Kernel Model.Mirror
  Proofs.Thresholds Proofs.MirrorAuth Proofs.MirrorNoop Proofs.MirrorChain Proofs.MirrorCert
  Proofs.MirrorTotal Proofs.MirrorRestart Proofs.MirrorResumeLoad Proofs.MirrorResumeRT.
Import ListNotations.
Local Open Scope N_scope.

(** * Well-formed validator sets and headers *)
Definition vwf (vs : valset) : Prop := vs_ok vs = true /\ pow_ok vs /\ vs_keys vs <> [].
Definition hdr_fine (x : hdr) : Prop := pow_ok (hd_vals x) /\ vwf (hd_next x).

Definition hstore := list (N * (hdr * cproof)).

Definition ph_fine (ih : N) (H : hstore) (vh : N) (x : hdr) : Prop :=
  hd_height x = vh /\ hd_ok x = true /\ vh + 1 < two64 /\ hdr_fine x /\
  (vh <> ih -> exists y cp, hdr_get H (vh - 1) = Some (y, cp) /\ hd_prev x = hd_hash y).

Definition rentry_good (ih : N) (keys : list N) (H : hstore) (vh r : N) (e : rentry) : Prop :=
  coll_good keys KPrevote vh r (re_pv e) /\ coll_good keys KPrecommit vh r (re_pc e) /\
  (forall p, In p (re_phs e) -> ph_fine ih H vh (ph_hdr p)).

Definition committing_good (keys : list N) (ch cr : N) (e : rentry) : Prop :=
  coll_good keys KPrevote ch cr (re_pv e) /\ coll_good keys KPrecommit ch cr (re_pc e) /\
  exists pkh en l, re_pc e = Some (pkh, en :: l).

Definition SI (ih : N) (ivs : valset) (st : stores) : Prop :=
  exists vh vr ch cr,
    sr_nhr st = (vh, vr, ch, cr) /\
    ((ch = 0 /\ cr = 0 /\ vh = ih /\ sr_hdrs st = []) \/
     (hchain ih ch (sr_hdrs st) /\ vh = ch + 1 /\ vh < two64 /\
      committing_good (vs_keys (chain_vals ih ivs (sr_hdrs st) ch)) ch cr (rs_entry (sr_rounds st) ch cr))) /\
    (forall h x cp, In (h, (x, cp)) (sr_hdrs st) -> hdr_fine x) /\
    (forall h x cp, In (h, (x, cp)) (sr_hdrs st) -> cert (chain_vals ih ivs (sr_hdrs st) h) h x cp) /\
    (forall h r e, rs_get (sr_rounds st) h r = Some e -> h <= vh /\
       (h = vh -> rentry_good ih (vs_keys (chain_vals ih ivs (sr_hdrs st) vh)) (sr_hdrs st) vh r e)) /\
    (forall x, In x (sr_replayed st) -> hd_height x <= vh /\
       (hd_height x = vh -> ph_fine ih (sr_hdrs st) vh x)).

(** * Extra facts about a kernel state that the crash analysis carries along *)
Definition comvals (ih : N) (ivs : valset) (s : kstate) : Prop :=
  match k_chdr s with
  | None => vs_keys (v_vals (k_com s)) = []
  | Some _ => v_vals (k_com s) = chain_vals ih ivs (st_hdrs s) (v_h (k_com s))
  end.
(** every proposed header of the voting / next-round view announces a next set with keys *)
Definition kok0 (s : kstate) : Prop :=
  forall p, In p (v_phs (k_vot s)) \/ In p (v_phs (k_nxt s)) -> vs_keys (hd_next (ph_hdr p)) <> [].

(** view / round-store correspondence: the votes a view holds are, up to signer sets, what
    loading its round-store cell gives (or the view holds none); its proposed headers are in the
    cell (by hash) or among the replayed headers; its proof maps have distinct targets and
    proofs without repeated signatures; its summary names the most voted block of its precommits *)
Definition vrel (kind : N) (v : view) (c : option sparse_coll) : Prop :=
  view_votes kind v = [] \/
  exists pkh entries pm', c = Some (pkh, entries) /\
    to_full_entries kind (v_h v) (v_r v) (vs_keys (v_vals v)) entries = Ok pm' /\ pmeq pm' (view_votes kind v).
Definition votes_wf (pm : pmap) : Prop := keys_nodup pm /\ nd_pmap pm.
Definition phs_corr (rs : list (N * N * rentry)) (rp : list hdr) (v : view) : Prop :=
  forall p, In p (v_phs v) ->
    (exists q, In q (re_phs (rs_entry rs (v_h v) (v_r v))) /\ hd_hash (ph_hdr q) = hd_hash (ph_hdr p)) \/
    (exists x, In x rp /\ hd_height x = v_h v /\ hd_hash x = hd_hash (ph_hdr p)).
Definition mpc_ok (v : view) : Prop := sm_mpc (v_sum v) = snd (set_powers (vs_pows (v_vals v)) (v_pc v)).
Definition yview (rs : list (N * N * rentry)) (rp : list hdr) (v : view) : Prop :=
  votes_wf (v_pv v) /\ votes_wf (v_pc v) /\ mpc_ok v /\
  vrel KPrevote v (re_pv (rs_entry rs (v_h v) (v_r v))) /\
  vrel KPrecommit v (re_pc (rs_entry rs (v_h v) (v_r v))) /\
  phs_corr rs rp v.
Definition Y (s : kstate) : Prop :=
  yview (st_rounds s) (st_replayed s) (k_vot s) /\ yview (st_rounds s) (st_replayed s) (k_nxt s).

Definition kok (s : kstate) : Prop := kok0 s /\ Y s.

(** the voting / next-round view of [s] is exactly what loading the round store gives *)
Definition loadedview (rs : list (N * N * rentry)) (rp : list hdr) (v : view) : Prop :=
  to_full_map KPrevote (v_h v) (v_r v) (vs_keys (v_vals v)) (re_pv (rs_entry rs (v_h v) (v_r v))) = Ok (v_pv v) /\
  to_full_map KPrecommit (v_h v) (v_r v) (vs_keys (v_vals v)) (re_pc (rs_entry rs (v_h v) (v_r v))) = Ok (v_pc v) /\
  v_phs v = round_phs rs rp (v_h v) (v_r v).
Definition loadedv (s : kstate) : Prop :=
  loadedview (st_rounds s) (st_replayed s) (k_vot s) /\ loadedview (st_rounds s) (st_replayed s) (k_nxt s).
Definition ne_view (v : view) : Prop := ne_pmap (v_pv v) /\ ne_pmap (v_pc v).
Definition ne_state (s : kstate) : Prop := ne_view (k_com s) /\ ne_view (k_vot s) /\ ne_view (k_nxt s).
Definition n1_view (rs : list (N * N * rentry)) (v : view) : Prop :=
  v_pc v <> [] -> exists pkh e l, re_pc (rs_entry rs (v_h v) (v_r v)) = Some (pkh, e :: l).
Definition n1 (s : kstate) : Prop := n1_view (st_rounds s) (k_vot s) /\ n1_view (st_rounds s) (k_nxt s).

(** everything: the existing invariants, the extras, and the store invariant of the state's stores *)
Definition X (ih : N) (ivs : valset) (s : kstate) : Prop :=
  comvals ih ivs s /\ ne_state s /\ n1 s /\ kok s /\ SI ih ivs (stores_of s).
Definition J (ih : N) (ivs : valset) (s : kstate) : Prop := INV ih ivs s /\ tinv s /\ X ih ivs s.

(** the four components of a stored position *)
Definition n_vh (x : N * N * N * N) : N := fst (fst (fst x)).
Definition n_vr (x : N * N * N * N) : N := snd (fst (fst x)).
Definition n_ch (x : N * N * N * N) : N := snd (fst x).
Definition n_cr (x : N * N * N * N) : N := snd x.

(** * The header chain as a lookup table *)
Lemma hchain_lookup ih top l : hchain ih top l ->
  forall h, ih <= h -> h <= top -> exists x cp, hdr_get l h = Some (x, cp) /\ In (h, (x, cp)) l /\ hd_height x = h.
Proof.
  induction 1 as [x cp Hx|h0 x cp px pcp l Hc IH Hh Hp Hb]; intros h H1 H2.
  - assert (h = ih) by lia. subst h. exists x, cp. unfold hdr_get. cbn [find fst]. rewrite N.eqb_refl.
    split; [reflexivity|]. split; [left; reflexivity|exact Hx].
  - destruct (N.eq_dec h (h0 + 1)) as [->|Hne].
    + exists x, cp. unfold hdr_get. cbn [find fst]. rewrite N.eqb_refl.
      split; [reflexivity|]. split; [left; reflexivity|exact Hh].
    + destruct (IH h H1) as (y&ycp&Hg&Hin&Hy); [lia|].
      exists y, ycp. split; [|split; [right; exact Hin|exact Hy]].
      unfold hdr_get in *. cbn [find fst] in *.
      destruct (N.eqb_spec (h0 + 1) h) as [E|_]; [lia|]. exact Hg.
Qed.

Lemma hdr_get_in l h x cp : hdr_get l h = Some (x, cp) -> In (h, (x, cp)) l.
Proof.
  unfold hdr_get. destruct (find _ l) as [[h' y]|] eqn:Hf; [|discriminate].
  intros E; inversion E; subst. destruct (find_some _ _ Hf) as [Hin Heq]. cbn in Heq.
  apply N.eqb_eq in Heq. subst h'. exact Hin.
Qed.

Lemma chain_vals_at_init ih ivs l : chain_vals ih ivs l ih = ivs.
Proof. unfold chain_vals. rewrite N.eqb_refl. reflexivity. Qed.

Lemma chain_vals_hdr_get ih ivs l h x cp :
  h <> ih -> hdr_get l (h - 1) = Some (x, cp) -> chain_vals ih ivs l h = hd_next x.
Proof.
  intros Hne. unfold chain_vals, hdr_get. destruct (N.eqb_spec h ih) as [E|_]; [contradiction|].
  destruct (find _ l) as [[h' [y ycp]]|]; [|discriminate]. intros E; inversion E; subst. reflexivity.
Qed.

(** * What [load_initial_view_r] returns *)
Lemma round_phs_in rs rp h r p : In p (round_phs rs rp h r) ->
  In p (re_phs (rs_entry rs h r)) \/ exists x, In x rp /\ hd_height x = h /\ p = fake_ph x 0.
Proof.
  unfold round_phs. intros H. apply in_app_or in H as [H|H]; [left; exact H|right].
  destruct (re_pc (rs_entry rs h r)) as [[pkh entries]|]; [|destruct H].
  apply in_flat_map in H as (en&_&Hen). destruct (fst en); [destruct Hen|].
  apply in_map_iff in Hen as (x&<-&Hx). apply filter_In in Hx as [Hx Hf].
  apply andb_true_iff in Hf as [Hf _]. apply N.eqb_eq in Hf. exists x. repeat split; assumption.
Qed.

Lemma load_facts rs rp h r vs v :
  load_initial_view_r rs rp h r vs = Ok v ->
  v_h v = h /\ v_r v = r /\ v_vals v = vs /\ v_phs v = round_phs rs rp h r /\
  auth_view v /\ sum_ok v /\ ne_view v /\
  to_full_map KPrecommit h r (vs_keys vs) (re_pc (rs_entry rs h r)) = Ok (v_pc v).
Proof.
  intros Hl. destruct (load_initial_view_auth _ _ _ _ _ _ Hl) as (Ha&_).
  revert Hl. unfold load_initial_view_r, bind.
  destruct (to_full_map KPrevote h r (vs_keys vs) _) as [pv|] eqn:Hpv; [|discriminate].
  destruct (to_full_map KPrecommit h r (vs_keys vs) _) as [pc|] eqn:Hpc; [|discriminate].
  intros E; inversion E; subst. cbn [v_h v_r v_vals v_phs v_pc v_pv v_sum].
  split; [reflexivity|]. split; [reflexivity|]. split; [reflexivity|]. split; [reflexivity|].
  split; [exact Ha|]. split.
  - unfold sum_ok. cbn [v_sum v_vals v_pc]. rewrite sm_avail_set_precommits, sm_avail_set_prevotes.
    split; [reflexivity|]. unfold sum_set_precommits.
    destruct (set_powers (vs_pows vs) pc) as [[t b] m] eqn:Esp. cbn. unfold blocks. rewrite Esp. reflexivity.
  - split; [|reflexivity]. split; cbn; eapply to_full_map_ne; eassumption.
Qed.

Lemma load_total rs rp h r vs :
  vs_keys vs <> [] ->
  coll_good (vs_keys vs) KPrevote h r (re_pv (rs_entry rs h r)) ->
  coll_good (vs_keys vs) KPrecommit h r (re_pc (rs_entry rs h r)) ->
  exists v, load_initial_view_r rs rp h r vs = Ok v.
Proof.
  intros Hk G1 G2. unfold load_initial_view_r.
  destruct (to_full_map_good _ _ _ _ _ Hk G1) as (pv&E1&_).
  destruct (to_full_map_good _ _ _ _ _ Hk G2) as (pc&E2&_).
  rewrite E1, E2. cbn [bind]. eexists. reflexivity.
Qed.

Lemma to_full_map_wf kind h r keys c pm : to_full_map kind h r keys c = Ok pm ->
  votes_wf pm /\
  (pm = [] \/ exists pkh entries, c = Some (pkh, entries) /\ to_full_entries kind h r keys entries = Ok pm).
Proof.
  unfold to_full_map. destruct c as [[pkh entries]|].
  - intros E. assert (E' : to_full_entries kind h r keys entries = Ok pm).
    { destruct keys; [destruct entries; [exact E|discriminate]|exact E]. }
    split; [apply (to_full_entries_keys_nodup _ _ _ _ _ _ E')|]. right. exists pkh, entries. split; [reflexivity|exact E'].
  - intros E; inversion E; subst. split; [split; [constructor|intros t p []]|left; reflexivity].
Qed.

Lemma load_loadedview rs rp h r vs v cp :
  load_initial_view_r rs rp h r vs = Ok v -> loadedview rs rp (bump (with_pcp v cp)).
Proof.
  unfold load_initial_view_r, bind.
  destruct (to_full_map KPrevote h r (vs_keys vs) _) as [pv|] eqn:Hpv; [|discriminate].
  destruct (to_full_map KPrecommit h r (vs_keys vs) _) as [pc|] eqn:Hpc; [|discriminate].
  intros E; inversion E; subst. clear E. unfold loadedview.
  cbn [bump with_pcp v_h v_r v_vals v_phs v_pv v_pc]. repeat split; assumption.
Qed.

Lemma load_yview rs rp h r vs v cp :
  load_initial_view_r rs rp h r vs = Ok v -> yview rs rp (bump (with_pcp v cp)).
Proof.
  unfold load_initial_view_r, bind.
  destruct (to_full_map KPrevote h r (vs_keys vs) _) as [pv|] eqn:Hpv; [|discriminate].
  destruct (to_full_map KPrecommit h r (vs_keys vs) _) as [pc|] eqn:Hpc; [|discriminate].
  intros E; inversion E; subst. clear E.
  destruct (to_full_map_wf _ _ _ _ _ _ Hpv) as [W1 R1]. destruct (to_full_map_wf _ _ _ _ _ _ Hpc) as [W2 R2].
  unfold yview, mpc_ok, vrel, phs_corr. cbn [bump with_pcp v_h v_r v_vals v_phs v_pv v_pc v_sum view_votes N.eqb KPrevote KPrecommit Pos.eqb].
  split; [exact W1|]. split; [exact W2|]. split.
  { unfold sum_set_precommits. destruct (set_powers (vs_pows vs) pc) as [[t b] m]. reflexivity. }
  split.
  { destruct R1 as [->|(pkh&en&Ec&Et)]; [left; reflexivity|right]. exists pkh, en, pv. split; [exact Ec|]. split; [exact Et|apply pmeq_refl]. }
  split.
  { destruct R2 as [->|(pkh&en&Ec&Et)]; [left; reflexivity|right]. exists pkh, en, pc. split; [exact Ec|]. split; [exact Et|apply pmeq_refl]. }
  intros p Hp. destruct (round_phs_in _ _ _ _ _ Hp) as [Hin|(x&Hx&Hh&->)].
  - left. exists p. split; [exact Hin|reflexivity].
  - right. exists x. split; [exact Hx|]. split; [exact Hh|reflexivity].
Qed.

(** ** Frame lemmas for [yview] *)
Lemma yview_mono rs rp rs' rp' v :
  re_pv (rs_entry rs' (v_h v) (v_r v)) = re_pv (rs_entry rs (v_h v) (v_r v)) ->
  re_pc (rs_entry rs' (v_h v) (v_r v)) = re_pc (rs_entry rs (v_h v) (v_r v)) ->
  incl (re_phs (rs_entry rs (v_h v) (v_r v))) (re_phs (rs_entry rs' (v_h v) (v_r v))) ->
  incl rp rp' ->
  yview rs rp v -> yview rs' rp' v.
Proof.
  intros E1 E2 I1 I2 (A&B&C&D&E&F). unfold yview. rewrite E1, E2.
  split; [exact A|]. split; [exact B|]. split; [exact C|]. split; [exact D|]. split; [exact E|].
  intros p Hp. destruct (F p Hp) as [(q&Hq&Eq)|(x&Hx&Ex)].
  - left. exists q. split; [apply I1; exact Hq|exact Eq].
  - right. exists x. split; [apply I2; exact Hx|exact Ex].
Qed.

Lemma yview_view rs rp v v' :
  v_h v' = v_h v -> v_r v' = v_r v -> v_vals v' = v_vals v -> v_pv v' = v_pv v -> v_pc v' = v_pc v ->
  sm_mpc (v_sum v') = sm_mpc (v_sum v) -> incl (v_phs v') (v_phs v) ->
  yview rs rp v -> yview rs rp v'.
Proof.
  intros E1 E2 E3 E4 E5 E6 I (A&B&C&D&E&F). unfold yview, mpc_ok, vrel, view_votes, phs_corr in *.
  cbn [N.eqb KPrevote KPrecommit Pos.eqb] in *. rewrite E1, E2, E3, E4, E5, E6.
  split; [exact A|]. split; [exact B|]. split; [exact C|]. split; [exact D|]. split; [exact E|].
  intros p Hp. apply F. apply I. exact Hp.
Qed.

Lemma yview_bump rs rp v : yview rs rp v -> yview rs rp (bump v).
Proof. apply yview_view; try reflexivity. intros p H; exact H. Qed.

Lemma yview_fresh rs rp h r vs pcp sm ver : sm_mpc sm = [] -> yview rs rp (mk_view h r vs [] [] [] pcp sm ver).
Proof.
  intros E. unfold yview, mpc_ok, vrel, phs_corr, votes_wf. cbn [v_pv v_pc v_sum v_phs view_votes N.eqb KPrevote KPrecommit Pos.eqb v_vals].
  split; [split; [constructor|intros t p []]|]. split; [split; [constructor|intros t p []]|].
  split; [rewrite E; reflexivity|]. split; [left; reflexivity|]. split; [left; reflexivity|]. intros p [].
Qed.

(** the cell written for a view's votes corresponds to them (round trip) *)
Lemma vrel_written kind v pkh :
  auth_pmap (vs_keys (v_vals v)) kind (v_h v) (v_r v) (view_votes kind v) ->
  ne_pmap (view_votes kind v) -> nd_pmap (view_votes kind v) ->
  vrel kind v (Some (map_to_sparse pkh (view_votes kind v))).
Proof.
  intros Ha Hn Hd. right.
  destruct (roundtrip kind (v_h v) (v_r v) (vs_keys (v_vals v)) (view_votes kind v) Ha Hn Hd) as (pm'&E&Hm).
  unfold map_to_sparse. eexists; eexists; exists pm'. split; [reflexivity|]. split; [exact E|exact Hm].
Qed.

(** a view loaded from the store, with its previous commit proof attached *)
Definition dressed (v0 : view) (cp : cproof) : view := bump (with_pcp v0 cp).

Lemma dressed_fields v0 cp :
  v_h (dressed v0 cp) = v_h v0 /\ v_r (dressed v0 cp) = v_r v0 /\ v_vals (dressed v0 cp) = v_vals v0 /\
  v_phs (dressed v0 cp) = v_phs v0 /\ v_pv (dressed v0 cp) = v_pv v0 /\ v_pc (dressed v0 cp) = v_pc v0 /\
  v_sum (dressed v0 cp) = v_sum v0.
Proof. repeat split. Qed.

Lemma hchain_top ih top l : hchain ih top l -> exists x cp rest, l = (top, (x, cp)) :: rest.
Proof. destruct 1; eexists; eexists; eexists; reflexivity. Qed.

Ltac proj := cbn [k_init_h k_init_vs k_vot k_nxt k_com k_chdr st_nhr st_hdrs st_rounds st_replayed
                  dressed bump with_pcp v_h v_r v_vals v_phs v_pv v_pc v_sum v_pcp v_ver].

(** * The state built by start-up, before the re-evaluation of the view shifts *)
Section Loaded.
Variables (ih : N) (ivs : valset).
Variables (st : stores) (vals : list (bytes * list N)) (log : list wr) (evs : list mev).
Variables (vh vr ch cr : N).
Hypothesis Hih : 1 <= ih.
Hypothesis Hivs : vwf ivs.
Hypothesis Hnhr : sr_nhr st = (vh, vr, ch, cr).
Hypothesis Hfine : forall h x cp, In (h, (x, cp)) (sr_hdrs st) -> hdr_fine x.
Hypothesis Hcert : forall h x cp, In (h, (x, cp)) (sr_hdrs st) -> cert (chain_vals ih ivs (sr_hdrs st) h) h x cp.
Hypothesis Hrounds : forall h r e, rs_get (sr_rounds st) h r = Some e -> h <= vh /\
       (h = vh -> rentry_good ih (vs_keys (chain_vals ih ivs (sr_hdrs st) vh)) (sr_hdrs st) vh r e).
Hypothesis Hrep : forall x, In x (sr_replayed st) -> hd_height x <= vh /\
       (hd_height x = vh -> ph_fine ih (sr_hdrs st) vh x).

Variable vsv : valset.
Hypothesis Hvsv : vsv = chain_vals ih ivs (sr_hdrs st) vh.

Lemma voting_entry_good r :
  rentry_good ih (vs_keys vsv) (sr_hdrs st) vh r (rs_entry (sr_rounds st) vh r).
Proof.
  unfold rs_entry. destruct (rs_get (sr_rounds st) vh r) as [e|] eqn:Hg.
  - destruct (Hrounds _ _ _ Hg) as [_ H]. rewrite Hvsv. apply H. reflexivity.
  - unfold rentry_good, empty_rentry. cbn. split; [exact I|]. split; [exact I|]. intros p [].
Qed.

Lemma loaded_phs_fine r p : In p (round_phs (sr_rounds st) (sr_replayed st) vh r) ->
  ph_fine ih (sr_hdrs st) vh (ph_hdr p).
Proof.
  intros H. destruct (round_phs_in _ _ _ _ _ H) as [Hin|(x&Hx&Hh&->)].
  - destruct (voting_entry_good r) as (_&_&Hp). apply Hp. exact Hin.
  - cbn [fake_ph ph_hdr]. destruct (Hrep x Hx) as [_ Hf]. apply Hf. exact Hh.
Qed.

(** the generic part: given the committing view / header, the two loaded views give a state
    satisfying all the invariants *)
Lemma loaded_state_ok com chdr vot0 nxt0 cpv :
  load_initial_view_r (sr_rounds st) (sr_replayed st) vh vr vsv = Ok vot0 ->
  load_initial_view_r (sr_rounds st) (sr_replayed st) vh (wrap32 (vr + 1)) vsv = Ok nxt0 ->
  vwf vsv ->
  v_h com = ch -> v_r com = cr -> auth_view com -> ne_view com ->
  vsv = match chdr with None => ivs | Some x => hd_next x end ->
  match chdr with
  | None => ch = 0 /\ cr = 0 /\ sr_hdrs st = [] /\ vh = ih /\ vs_keys (v_vals com) = []
  | Some x => (exists cp, hdr_get (sr_hdrs st) ch = Some (x, cp)) /\
              hd_height x = ch /\ vh = ch + 1 /\ vh < two64 /\ hchain ih ch (sr_hdrs st) /\
              v_vals com = chain_vals ih ivs (sr_hdrs st) ch
  end ->
  let s0 := mk_k ih ivs com (dressed vot0 cpv) (dressed nxt0 cpv) chdr (sr_nhr st) (sr_hdrs st) (sr_rounds st)
                 (sr_replayed st) vals log evs in
  INV ih ivs s0 /\ tinv s0 /\ comvals ih ivs s0 /\ ne_state s0 /\ n1 s0 /\ kok s0 /\ loadedv s0.
Proof.
  intros Lv Ln Hvs Hch Hcr Hca Hcne Hexp Hshape s0. subst s0.
  destruct (load_facts _ _ _ _ _ _ Lv) as (V1&V2&V3&V4&V5&V6&V7&V8).
  destruct (load_facts _ _ _ _ _ _ Ln) as (N1&N2&N3&N4&N5&N6&N7&N8).
  destruct Hvs as (Hvok&Hvpow&Hvkeys).
  assert (Hgoodp : forall p, In p (v_phs vot0) \/ In p (v_phs nxt0) -> ph_fine ih (sr_hdrs st) vh (ph_hdr p)).
  { intros p [Hp|Hp]; [rewrite V4 in Hp|rewrite N4 in Hp]; eapply loaded_phs_fine; exact Hp. }
  assert (Hchdr_get : forall x, chdr = Some x -> exists cp, hdr_get (sr_hdrs st) ch = Some (x, cp) /\ vh = ch + 1).
  { intros x E. subst chdr. destruct Hshape as ((cp&Hg)&_&Hv&_). exists cp. split; [exact Hg|exact Hv]. }
  (* cinv *)
  assert (Hcinv : cinv ih ivs (mk_k ih ivs com (dressed vot0 cpv) (dressed nxt0 cpv) chdr (sr_nhr st) (sr_hdrs st)
                                    (sr_rounds st) (sr_replayed st) vals log evs)).
  { unfold cinv, expected_vals. proj.
    split; [reflexivity|]. split; [reflexivity|]. split; [exact Hih|].
    split; [congruence|]. split; [rewrite N2, V2; reflexivity|].
    split; [rewrite Hnhr, V1, V2, Hch, Hcr; reflexivity|].
    split; [rewrite V3; exact Hexp|]. split; [rewrite N3; exact Hexp|].
    split; [rewrite <- Hexp; exact Hvok|].
    split.
    - unfold phs_good, ph_good. proj. intros p Hp.
      destruct (Hgoodp p Hp) as (F1&F2&F3&(F4&F5&F6&F7)&F8). rewrite V1.
      split; [exact F1|]. split; [exact F2|]. split; [exact F5|]. split; [rewrite F1; exact F3|].
      intros Hne. rewrite F1 in Hne. destruct (F8 Hne) as (y&ycp&Hy&Hprev).
      destruct chdr as [x|] eqn:Ec.
      + destruct (Hchdr_get x eq_refl) as (cp&Hg&Hv). exists x. split; [reflexivity|].
        replace (vh - 1) with ch in Hy by lia. rewrite Hg in Hy. inversion Hy; subst. exact Hprev.
      + destruct Hshape as (_&_&_&E&_). contradiction.
    - unfold chain_ok. proj. destruct chdr as [x|].
      + destruct Hshape as ((cp&Hg)&Hx&Hv&Hb&Hchain&_). rewrite V1, Hch, Hx.
        split; [reflexivity|]. split; [exact Hv|]. split; [lia|]. split; [|exact Hchain].
        destruct (hchain_top _ _ _ Hchain) as (x0&cp0&rest&El).
        rewrite El in Hg. unfold hdr_get in Hg. cbn [find fst] in Hg. rewrite N.eqb_refl in Hg.
        inversion Hg; subst x0 cp0. exists cp, rest. exact El.
      + destruct Hshape as (A&B&C&D&_). rewrite V1, Hch, Hcr. repeat split; assumption. }
  assert (Hauth : auth_state (mk_k ih ivs com (dressed vot0 cpv) (dressed nxt0 cpv) chdr (sr_nhr st) (sr_hdrs st)
                                    (sr_rounds st) (sr_replayed st) vals log evs)).
  { unfold auth_state. cbn [k_com k_vot k_nxt]. unfold dressed.
    split; [exact Hca|]. split; apply auth_view_bump; [destruct V5 as [A B]|destruct N5 as [A B]]; split; assumption. }
  assert (Havail : in_range (sum_pows (vs_pows vsv))) by (apply pow_ok_range; exact Hvpow).
  split; [split; [exact Hcinv|split; [exact Hauth|split]]|].
  { unfold sinv. cbn [k_vot k_nxt]. split; [exact V6|exact N6]. }
  { unfold hinv. cbn [st_hdrs]. exact Hcert. }
  split.
  { split.
    - unfold aok. proj. destruct V6 as [Sa _]. destruct N6 as [Sb _].
      rewrite Sa, Sb, V3, N3. split; [exact Havail|]. split; [exact Havail|].
      intros x E. destruct (Hchdr_get x E) as (cp&Hg&_).
      destruct (Hfine _ _ _ (hdr_get_in _ _ _ _ Hg)) as [Hp _]. exact Hp.
    - unfold pok. proj. intros p Hp.
      destruct (Hgoodp p Hp) as (_&_&_&(F4&F5&F6&F7)&_). split; assumption. }
  split.
  { unfold comvals. proj. destruct chdr as [x|].
    - destruct Hshape as (_&_&_&_&_&E). rewrite Hch. exact E.
    - destruct Hshape as (_&_&_&_&E). exact E. }
  split.
  { unfold ne_state. cbn [k_com k_vot k_nxt]. split; [exact Hcne|]. split; [exact V7|exact N7]. }
  split.
  { unfold n1, n1_view. proj. rewrite V1, V2, N1, N2. split; intros Hne.
    - eapply to_full_map_nonempty_stored; [exact V8|exact Hne].
    - eapply to_full_map_nonempty_stored; [exact N8|exact Hne]. }
  split.
  { split.
    - unfold kok0. proj. intros p Hp.
      destruct (Hgoodp p Hp) as (_&_&_&(_&_&_&F7)&_). exact F7.
    - unfold Y. cbn [st_rounds st_replayed k_vot k_nxt]. unfold dressed.
      split; eapply load_yview; eassumption. }
  unfold loadedv. cbn [st_rounds st_replayed k_vot k_nxt]. unfold dressed.
  split; eapply load_loadedview; eassumption.
Qed.

End Loaded.
