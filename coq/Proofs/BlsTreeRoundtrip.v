(** C13 (BLS tree) - the positive sparse round trip for n <= 32768. *)
From Coq Require Import List NArith ZArith String Bool Lia Arith.
From GV Require Import Base.Ints Model.SimpleProofBase Model.BlsTree Proofs.BlsTreeBase Proofs.BlsTreeAdd
  Proofs.BlsTreeProof Proofs.BlsTreeMachine Proofs.BlsTreeSparse Proofs.BlsTreeMerge.
Import ListNotations.
Local Open Scope N_scope.

Lemma be16_two : forall id, id < 65536 -> exists x y, be16 id = [x; y] /\ x * 256 + y = id.
Proof.
  intros id H. pose proof (be16_roundtrip id H) as R. unfold be16 in *. cbn [id_of_bytes] in R. eauto.
Qed.

(** the sparse entry AsSparse emits for node id *)
Definition sparse_entry_of (p : proof) (id : N) : sparse_entry :=
  (be16 (id mod 65536),
   match tree_get (p_tree p) id with (_, Some s, _) => s | _ => SAgg 0 [] end).

Lemma as_sparse_eq : forall p ids, sparse_indices (p_tree p) = Ok ids ->
  as_sparse p = Ok (p_hash p, map (sparse_entry_of p) ids).
Proof. intros p ids E. unfold as_sparse. rewrite E. reflexivity. Qed.

Lemma sparse_entry_ok : forall h p id, inv (p_msg p) h (p_tree p) -> t_n (p_tree p) <= 32768 ->
  is_max h (t_sigs (p_tree p)) id ->
  entry_ok (t_keys (p_tree p)) (p_msg p) (sparse_entry_of p id) = true /\
  entry_leaves (t_keys (p_tree p)) (sparse_entry_of p id) = leaves_of (t_keys (p_tree p)) id.
Proof.
  intros h p id Hinv Hn (d & off & Hd & Ho & -> & Hm). pose proof Hinv as (Hwf & Hgen & _).
  apply andb_true_iff in Hm. destruct Hm as [M1 _]. apply set_at_is_set in M1. destruct M1 as [sg Hs].
  destruct (Hgen _ _ Hs) as (ks & Hk & Hne & ->).
  set (id := nidx h d off) in *.
  assert (Hlt : id < 2 * p2 h - 1) by (apply lstart_bound; assumption).
  assert (Hfit : id_of_bytes (be16 (id mod 65536)) = id).
  { apply (node_ids_fit (t_n (p_tree p))); [pose proof (wf_n1 _ _ Hwf); lia|].
    rewrite (wf_lw _ _ Hwf). exact Hlt. }
  assert (Hsmall : id mod 65536 < 65536) by (apply N.mod_upper_bound; lia).
  destruct (be16_two _ Hsmall) as (x & y & Hb & Hxy).
  assert (Hid : x * 256 + y = id) by (rewrite Hb in Hfit; exact Hfit).
  unfold sparse_entry_of, entry_ok, entry_leaves. cbn [fst snd]. rewrite Hb, Hid.
  destruct (tree_get_spec h (p_tree p) id Hwf) as [(_ & k & s & A & B & C)|(Hge & _)]; [|lia].
  rewrite C. rewrite Hk in A. rewrite Hs in B. inversion A; subst k. inversion B; subst s.
  split; [|reflexivity]. rewrite (wf_keys_len _ _ Hwf).
  replace (id <? 2 * p2 h - 1) with true by (symmetry; apply N.ltb_lt; exact Hlt).
  unfold key_at. rewrite Hk. cbn [andb]. apply verify_true. exists ks. auto.
Qed.

Lemma derive_keys : forall p, t_keys (p_tree (derive p)) = t_keys (p_tree p) /\ p_msg (derive p) = p_msg p /\
  p_hash (derive p) = p_hash p /\ t_n (p_tree (derive p)) = t_n (p_tree p).
Proof. intros [m t hh]. cbn. auto. Qed.

(** (3) Derive(), then MergeSparse(AsSparse p): exactly p's bits, AllValid, Increased iff p is not empty. *)
Theorem sparse_roundtrip : forall p, pinv p -> t_n (p_tree p) <= 32768 ->
  exists ids q,
    sparse_indices (p_tree p) = Ok ids /\
    as_sparse p = Ok (p_hash p, map (sparse_entry_of p) ids) /\
    merge_sparse (derive p) (p_hash p) (map (sparse_entry_of p) ids) =
      Ok (q, mk_flags true (0 <? popcount (p_bits p)) false) /\
    pinv q /\ p_bits q = p_bits p.
Proof.
  intros p [h Hinv] Hn. destruct (sparse_indices_spec (p_msg p) h (p_tree p) Hinv) as (ids & Es & _ & Hin).
  destruct (derive_pinv p (ex_intro _ h Hinv)) as [Hd Hd0].
  destruct (derive_keys p) as (Dk & Dm & Dh & Dn).
  destruct (merge_sparse_spec (derive p) (p_hash p) (map (sparse_entry_of p) ids) Hd)
    as (q & R1 & R2 & _ & _ & _ & _ & R5).
  rewrite Dh, N.eqb_refl, Dk, Dm, Hd0 in R1. rewrite Dk, Dm, Dh, Hd0 in R5.
  assert (Hall : forallb (entry_ok (t_keys (p_tree p)) (p_msg p)) (map (sparse_entry_of p) ids) = true).
  { apply forallb_forall. intros e He. apply in_map_iff in He. destruct He as (id & <- & Hid).
    apply (sparse_entry_ok h p id Hinv Hn). apply Hin. exact Hid. }
  assert (Hb : p_bits q = p_bits p).
  { apply same_bits_eq. intro i. rewrite R5, N.bits_0.
    unfold p_bits. rewrite (sparse_cover (p_msg p) h (p_tree p) ids Hinv Es i). split.
    - intros [A|(_ & e & He & Hok & Hl)]; [discriminate|]. apply in_map_iff in He. destruct He as (id & <- & Hid).
      exists id. split; [assumption|].
      rewrite (proj2 (sparse_entry_ok h p id Hinv Hn (proj1 (Hin id) Hid))) in Hl. exact Hl.
    - intros (id & Hid & Hl). right. split; [reflexivity|]. exists (sparse_entry_of p id).
      destruct (sparse_entry_ok h p id Hinv Hn (proj1 (Hin id) Hid)) as [A B].
      split; [apply in_map; assumption|]. split; [assumption|]. rewrite B. exact Hl. }
  exists ids, q. split; [exact Es|]. split; [apply as_sparse_eq; exact Es|].
  split; [|split; [exact R2|exact Hb]].
  rewrite R1, Hall, Hb. reflexivity.
Qed.
