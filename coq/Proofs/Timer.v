(** C12(b) - proofs about the StandardRoundTimer transition system (Model/Timer.v) interpreted
    from the extracted program Gen.Timer.timer_prog.

    Method: the product of the system with the monitor automaton is finite.  [reach] computes a
    candidate set R of product states; [closedb] CHECKS (by computation in the kernel, vm_compute)
    that R contains the initial state and every successor of every member under EVERY label;
    [closed_sound] turns that certificate into: every state reachable by ANY schedule of ANY length
    is in R.  The properties are then checked on the members of R.  Everything is re-done against
    the program regenerated from roundtimer.go on every run. *)
From Coq Require Import List Bool Arith Lia.
From GV Require Import Model.TimerVocab Monitors.C12m Model.Timer Gen.Timer.
Import ListNotations.

(** ** generic part *)

Lemma memb_In x l : memb x l = true -> In x l.
Proof. unfold memb. destruct (in_dec pst_eq_dec x l); [auto | discriminate]. Qed.

Lemma In_memb x l : In x l -> memb x l = true.
Proof. unfold memb. destruct (in_dec pst_eq_dec x l); [auto | contradiction]. Qed.

Lemma step_in_all_succs p d s l r : step p d s l = Some r -> In r (all_succs p d s).
Proof.
  unfold step, all_succs. destruct (dead s); [discriminate|]. intros H.
  apply in_or_app.
  destruct l; try (left; apply in_flat_map; eexists; split;
                   [ | rewrite H; left; reflexivity]; unfold caller_labels; simpl; tauto).
  right. eapply nth_error_In; eauto.
Qed.

Lemma closed_step p d R x l s' o :
  closedb p d R = true -> In x R -> step p d (fst x) l = Some (s', o) ->
  In (s', fold_left mstep o (snd x)) R.
Proof.
  intros Hc Hx Hs. unfold closedb in Hc. apply andb_true_iff in Hc as [_ Hc].
  rewrite forallb_forall in Hc. specialize (Hc x Hx). rewrite forallb_forall in Hc.
  apply memb_In. apply Hc. unfold psuccs.
  apply step_in_all_succs in Hs.
  change (s', fold_left mstep o (snd x)) with
    ((fun r : st * list obs => (fst r, fold_left mstep (snd r) (snd x))) (s', o)).
  apply in_map. exact Hs.
Qed.

Lemma closed_run p d R : closedb p d R = true ->
  forall sched s0 m s tr, In (s0, m) R -> run p d s0 sched = Some (s, tr) ->
  In (s, fold_left mstep tr m) R.
Proof.
  intros Hc. induction sched as [|l sched IH]; intros s0 m s tr Hin Hrun; simpl in Hrun.
  - inversion Hrun; subst. exact Hin.
  - destruct (step p d s0 l) as [[s1 o]|] eqn:Hs; [|discriminate].
    destruct (run p d s1 sched) as [[s2 tr2]|] eqn:Hr; [|discriminate].
    inversion Hrun; subst. rewrite fold_left_app.
    eapply IH; [|exact Hr].
    exact (closed_step p d R (s0, m) l s1 o Hc Hin Hs).
Qed.

(** Every schedule, of any length, ends in a member of a closed set. *)
Lemma closed_sound p d R : closedb p d R = true ->
  forall sched s tr, run p d (init p) sched = Some (s, tr) -> In (s, mrun tr) R.
Proof.
  intros Hc sched s tr Hrun. unfold mrun.
  eapply closed_run; eauto. unfold closedb in Hc. apply andb_true_iff in Hc as [Hi _].
  apply memb_In; exact Hi.
Qed.

(** A disciplined run is in particular a run. *)
Lemma caller_step_disc p s l r : caller_step p true s l = Some r -> caller_step p false s l = Some r.
Proof.
  destruct l; simpl; auto. destruct (s_cl s); auto. destruct (negb (start_ok s)); simpl; [discriminate | auto].
Qed.

Lemma step_disc p s l r : step p true s l = Some r -> step p false s l = Some r.
Proof. unfold step. destruct (dead s); auto. destruct l; auto using caller_step_disc. Qed.

Lemma run_disc p : forall sched s r, run p true s sched = Some r -> run p false s sched = Some r.
Proof.
  induction sched as [|l sched IH]; intros s r H; simpl in *; auto.
  destruct (step p true s l) as [[s1 o]|] eqn:Hs; [|discriminate].
  rewrite (step_disc _ _ _ _ Hs).
  destruct (run p true s1 sched) as [[s2 tr2]|] eqn:Hr; [|discriminate].
  rewrite (IH _ _ Hr). exact H.
Qed.

(** ** the certificate for the extracted program *)

Definition R_disc : list pst := Eval vm_compute in reach timer_prog true.
Definition R_any : list pst := Eval vm_compute in reach timer_prog false.

Lemma R_disc_closed : closedb timer_prog true R_disc = true.
Proof. vm_compute. reflexivity. Qed.
Lemma R_any_closed : closedb timer_prog false R_any = true.
Proof. vm_compute. reflexivity. Qed.

Lemma R_disc_no_panic : forallb safe_panic R_disc = true.
Proof. vm_compute. reflexivity. Qed.
Lemma R_disc_served : forallb (served timer_prog) R_disc = true.
Proof. vm_compute. reflexivity. Qed.
Lemma R_any_once : forallb safe_once R_any = true.
Proof. vm_compute. reflexivity. Qed.
Lemma R_any_cancel : forallb safe_cancel R_any = true.
Proof. vm_compute. reflexivity. Qed.

(** ** the theorems *)

(** Re-arming never fails: under the caller's discipline (a start only after the previous timer's
    cancel returned or its elapse was seen), for EVERY schedule, nothing panics - not the
    "BUG: new timer requested" panic, not a close of a closed/nil channel, not an unlock of an
    unlocked mutex - and the model never leaves its precision. *)
Theorem cancel_then_start_ok : forall sched s tr,
  run timer_prog true (init timer_prog) sched = Some (s, tr) ->
  c12_no_panic tr = true /\ s_pc s <> PPanic /\ s_pc s <> PLimit.
Proof.
  intros sched s tr H.
  pose proof (closed_sound _ _ _ R_disc_closed _ _ _ H) as Hin.
  pose proof R_disc_no_panic as Hs. rewrite forallb_forall in Hs. specialize (Hs _ Hin).
  unfold safe_panic in Hs; cbn [fst snd] in Hs. apply andb_true_iff in Hs as [H1 H2].
  split; [exact H1|]. split; intros E; rewrite E in H2; discriminate.
Qed.

(** ... and the request is always answered: in every reachable state with a pending start request
    (context not cancelled), whichever select cases the scheduler picks, the goroutine replies
    within 40 of its own steps. *)
Theorem start_always_served : forall sched s tr,
  run timer_prog true (init timer_prog) sched = Some (s, tr) ->
  s_ctx s = false -> bg_all_paths_reply timer_prog 40 s = true.
Proof.
  intros sched s tr H Hctx.
  pose proof (closed_sound _ _ _ R_disc_closed _ _ _ H) as Hin.
  pose proof R_disc_served as Hs. rewrite forallb_forall in Hs. specialize (Hs _ Hin).
  unfold served in Hs; cbn [fst snd] in Hs. apply orb_true_iff in Hs.
  destruct Hs as [Hs|Hs]; [rewrite Hctx in Hs; discriminate | exact Hs].
Qed.

(** A timer fires at most once and only the timer the caller holds fires - for every schedule,
    disciplined or not. *)
Theorem fires_at_most_once : forall sched s tr,
  run timer_prog false (init timer_prog) sched = Some (s, tr) -> c12_fires_once tr = true.
Proof.
  intros sched s tr H.
  pose proof (closed_sound _ _ _ R_any_closed _ _ _ H) as Hin.
  pose proof R_any_once as Hs. rewrite forallb_forall in Hs. specialize (Hs _ Hin).
  unfold safe_once in Hs; cbn [fst snd] in Hs. apply andb_true_iff in Hs as [H1 _]. exact H1.
Qed.

(** After a timer's cancel function has returned its elapsed channel is never closed - for every
    schedule, disciplined or not. *)
Theorem cancelled_never_elapses : forall sched s tr,
  run timer_prog false (init timer_prog) sched = Some (s, tr) -> c12_cancel_final tr = true.
Proof.
  intros sched s tr H.
  pose proof (closed_sound _ _ _ R_any_closed _ _ _ H) as Hin.
  pose proof R_any_cancel as Hs. rewrite forallb_forall in Hs. specialize (Hs _ Hin).
  unfold safe_cancel in Hs; cbn [fst snd] in Hs. apply andb_true_iff in Hs as [H1 _]. exact H1.
Qed.

(** The model's traces always satisfy the monitor that is evaluated on the implementation. *)
Theorem model_satisfies_c12_mon : forall sched s tr,
  run timer_prog true (init timer_prog) sched = Some (s, tr) -> c12_mon tr = true.
Proof.
  intros sched s tr H. unfold c12_mon.
  destruct (cancel_then_start_ok _ _ _ H) as [H1 _].
  pose proof (run_disc _ _ _ _ H) as H'.
  rewrite H1, (fires_at_most_once _ _ _ H'), (cancelled_never_elapses _ _ _ H'). reflexivity.
Qed.

(** ** what the monitors mean on a trace *)

Lemma mrun_app a b : mrun (a ++ b) = fold_left mstep b (mrun a).
Proof. unfold mrun. apply fold_left_app. Qed.

Lemma ok_cancel_mono : forall tr m, m_ok_cancel m = false -> m_ok_cancel (fold_left mstep tr m) = false.
Proof.
  induction tr as [|o tr IH]; intros m H; simpl; auto.
  apply IH. destruct o; simpl; auto. rewrite H. reflexivity.
Qed.
Lemma ok_once_mono : forall tr m, m_ok_once m = false -> m_ok_once (fold_left mstep tr m) = false.
Proof.
  induction tr as [|o tr IH]; intros m H; simpl; auto.
  apply IH. destruct o; simpl; auto. rewrite H. reflexivity.
Qed.
Lemma ok_panic_mono : forall tr m, m_ok_panic m = false -> m_ok_panic (fold_left mstep tr m) = false.
Proof.
  induction tr as [|o tr IH]; intros m H; simpl; auto.
  apply IH. destruct o; simpl; auto.
Qed.

Lemma cr_kept : forall b m, ~ In OStartRet b -> m_cr m = true -> m_cr (fold_left mstep b m) = true.
Proof.
  induction b as [|o b IH]; intros m Hn H; simpl; auto.
  apply IH; [intros X; apply Hn; right; exact X|].
  destruct o; simpl; auto. exfalso; apply Hn; left; reflexivity.
Qed.
Lemma el_kept : forall b m, ~ In OStartRet b -> m_el m = true -> m_el (fold_left mstep b m) = true.
Proof.
  induction b as [|o b IH]; intros m Hn H; simpl; auto.
  apply IH; [intros X; apply Hn; right; exact X|].
  destruct o; simpl; auto. exfalso; apply Hn; left; reflexivity.
Qed.

(** Monitor soundness: if [c12_cancel_final] accepts a trace then no elapse of a timer follows the
    return of that timer's cancel (a new timer must have been handed out in between). *)
Lemma cancel_final_sound tr : c12_cancel_final tr = true ->
  forall a b c, tr = a ++ OCancelRet :: b ++ OElapsed :: c -> In OStartRet b.
Proof.
  intros H a b c E. destruct (in_dec (fun x y : obs => ltac:(decide equality) : {x = y} + {x <> y}) OStartRet b) as [i|n]; [exact i|].
  exfalso. unfold c12_cancel_final in H. subst tr.
  rewrite mrun_app in H. simpl in H. rewrite fold_left_app in H. simpl in H.
  rewrite ok_cancel_mono in H; [discriminate|].
  simpl. rewrite (cr_kept b); auto. apply andb_false_r.
Qed.

(** ... and no timer reports two elapses. *)
Lemma fires_once_sound tr : c12_fires_once tr = true ->
  (forall a b c, tr = a ++ OElapsed :: b ++ OElapsed :: c -> In OStartRet b) /\ ~ In OElapsedOther tr.
Proof.
  intros H. split.
  - intros a b c E. destruct (in_dec (fun x y : obs => ltac:(decide equality) : {x = y} + {x <> y}) OStartRet b) as [i|n]; [exact i|].
    exfalso. unfold c12_fires_once in H. subst tr.
    rewrite mrun_app in H. simpl in H. rewrite fold_left_app in H. simpl in H.
    rewrite ok_once_mono in H; [discriminate|].
    simpl. rewrite (el_kept b); auto. apply andb_false_r.
  - intros Hin. apply in_split in Hin as [a [b E]]. unfold c12_fires_once in H. subst tr.
    rewrite mrun_app in H. simpl in H. rewrite ok_once_mono in H; [discriminate|reflexivity].
Qed.

Lemma no_panic_sound tr : c12_no_panic tr = true -> ~ In OPanic tr.
Proof.
  intros H Hin. apply in_split in Hin as [a [b E]]. unfold c12_no_panic in H. subst tr.
  rewrite mrun_app in H. simpl in H. rewrite ok_panic_mono in H; [discriminate|reflexivity].
Qed.

(** The monitor judges each timer separately: a trace is accepted iff it is accepted up to any
    hand-out of a new timer and from there on (this is what lets the check evaluate the monitor on
    the distinct round patterns of a long stress run). *)
Lemma mon_flags_split : forall b m,
  m_ok_panic (fold_left mstep b m) = m_ok_panic m && m_ok_panic (fold_left mstep b (mkMst (m_cr m) (m_el m) true true true)) /\
  m_ok_once (fold_left mstep b m) = m_ok_once m && m_ok_once (fold_left mstep b (mkMst (m_cr m) (m_el m) true true true)) /\
  m_ok_cancel (fold_left mstep b m) = m_ok_cancel m && m_ok_cancel (fold_left mstep b (mkMst (m_cr m) (m_el m) true true true)).
Proof.
  induction b as [|o b IH]; intros m; simpl.
  - rewrite !andb_true_r. auto.
  - destruct (IH (mstep m o)) as [A [B C]]. rewrite A, B, C.
    destruct (IH (mstep (mkMst (m_cr m) (m_el m) true true true) o)) as [A' [B' C']]. rewrite A', B', C'.
    destruct o; simpl; rewrite ?andb_true_l, ?andb_false_l, ?andb_false_r, ?andb_assoc; auto.
Qed.

Lemma mon_split a b : c12_mon (a ++ OStartRet :: b) = c12_mon a && c12_mon (OStartRet :: b).
Proof.
  unfold c12_mon, c12_no_panic, c12_fires_once, c12_cancel_final.
  rewrite mrun_app.
  change (fold_left mstep (OStartRet :: b) (mrun a)) with
    (fold_left mstep b (mkMst false false (m_ok_panic (mrun a)) (m_ok_once (mrun a)) (m_ok_cancel (mrun a)))).
  change (mrun (OStartRet :: b)) with (fold_left mstep b (mkMst false false true true true)).
  destruct (mon_flags_split b (mkMst false false (m_ok_panic (mrun a)) (m_ok_once (mrun a)) (m_ok_cancel (mrun a))))
    as [A [B C]].
  cbn [m_cr m_el m_ok_panic m_ok_once m_ok_cancel] in A, B, C. rewrite A, B, C.
  destruct (m_ok_panic (mrun a)), (m_ok_once (mrun a)), (m_ok_cancel (mrun a)); simpl;
    rewrite ?andb_false_r; auto.
Qed.

(** ** non-vacuity: the hypotheses are satisfiable and the interesting paths are reachable *)

(** the program before the fix (literal copy of what the extractor produced from the pinned tree) *)
Definition orig_prog : program := mkProgram
  [BNewTimer; BStopDrain]
  [mkBranch ChCtxDone [ABasic BReturn];
   mkBranch ChStartReq [ABasic BResetTimer; ABasic BMakeElapsed; ABasic BMakeCancel; ABasic BReply]]
  [mkBranch ChCtxDone [ABasic BReturn];
   mkBranch ChTimerC [ABasic BCloseElapsed; ABasic BNilElapsed; ABasic BNilCancel];
   mkBranch ChCancel [ABasic BStopDrain; ABasic BNilElapsed; ABasic BNilCancel];
   mkBranch ChStartReq [ABasic BPanic]]
  [BCloseCancel].

(** On the pinned (pre-fix) program both statements were false: *)
Lemma orig_cancel_then_start_refuted : exists sched s tr,
  run orig_prog true (init orig_prog) sched = Some (s, tr) /\ c12_no_panic tr = false.
Proof.
  exists [LStart; LBg 0; LBg 0; LBg 0; LBg 0; LBg 0; LBg 0; LBg 0; LCancel; LStart; LBg 1; LBg 0].
  eexists. eexists. split; [vm_compute; reflexivity | vm_compute; reflexivity].
Qed.

Lemma orig_cancelled_never_elapses_refuted : exists sched s tr,
  run orig_prog true (init orig_prog) sched = Some (s, tr) /\ c12_cancel_final tr = false.
Proof.
  exists [LStart; LBg 0; LBg 0; LBg 0; LBg 0; LFire; LBg 0; LBg 0; LBg 0; LCancel; LBg 0; LBg 0].
  eexists. eexists. split; [vm_compute; reflexivity | vm_compute; reflexivity].
Qed.

(** On the extracted (fixed) program the hypotheses are satisfiable and the interesting paths run:
    a disciplined schedule in which the second start is picked by the running select BEFORE the
    cancellation (served in place), the timer then fires, the elapse is seen and a third timer is
    handed out. *)
Example disciplined_run_exists : exists s,
  run timer_prog true (init timer_prog)
    [LBg 0; LBg 0; LStart; LBg 0; LBg 0; LBg 0; LBg 0; LBg 0; LCancel; LStart; LBg 1;
     LBg 0; LBg 0; LBg 0; LBg 0; LBg 0; LBg 0; LBg 0; LFire; LBg 0; LBg 0; LBg 0; LBg 0; LObserve;
     LStart; LBg 0; LBg 0; LBg 0; LBg 0; LBg 0; LBg 0; LBg 0; LBg 0]
  = Some (s, [OStartRet; OCancelRet; OStartRet; OElapsed; OSeen; OStartRet]).
Proof. eexists. vm_compute. reflexivity. Qed.
