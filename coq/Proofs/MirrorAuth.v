(** Authenticity invariant of the mirror model (C05, used by C01):
    every signature held in any of the three views is a genuine signature, by the validator at
    that index of the view's validator set, for exactly the (kind, height, round, block hash) it is
    filed under.  Proved for every reachable state of [step], i.e. for all operation histories. *)
From Coq Require Import List NArith Bool Lia String.
From GV Require Import Base.Ints Gen.Math Gen.Kernel Model.Mirror.
Import ListNotations.
Local Open Scope N_scope.

(** ** Basic facts *)
Lemma sigd_eqb_eq a b : sigd_eqb a b = true -> a = b.
Proof.
  destruct a, b; simpl; try discriminate; intros H.
  - repeat (apply andb_true_iff in H as [H ?]).
    repeat match goal with X : (_ =? _) = true |- _ => apply N.eqb_eq in X end.
    match goal with X : bytes_eqb _ _ = true |- _ => apply bytes_eqb_eq in X end. subst. reflexivity.
  - repeat (apply andb_true_iff in H as [H ?]).
    repeat match goal with X : (_ =? _) = true |- _ => apply N.eqb_eq in X end.
    match goal with X : bytes_eqb _ _ = true |- _ => apply bytes_eqb_eq in X end. subst. reflexivity.
  - apply N.eqb_eq in H. subst. reflexivity.
Qed.

Lemma sigd_eqb_refl a : sigd_eqb a a = true.
Proof. destruct a; simpl; rewrite ?N.eqb_refl, ?bytes_eqb_refl; reflexivity. Qed.

Lemma verify_vote_spec key kind h r t s :
  verify_vote key kind h r t s = true <-> s = SVote key kind h r t.
Proof.
  unfold verify_vote. split; intros H.
  - apply sigd_eqb_eq; exact H.
  - subst. apply sigd_eqb_refl.
Qed.

(** ** The invariant *)
Definition auth_proof (keys : list N) (kind h r : N) (t : bytes) (p : proof) : Prop :=
  forall i s, In (i, s) p -> exists key, nth_n keys i = Some key /\ s = SVote key kind h r t.

Definition auth_pmap (keys : list N) (kind h r : N) (pm : pmap) : Prop :=
  forall t p, In (t, p) pm -> auth_proof keys kind h r t p.

Definition auth_view (v : view) : Prop :=
  auth_pmap (vs_keys (v_vals v)) KPrevote (v_h v) (v_r v) (v_pv v) /\
  auth_pmap (vs_keys (v_vals v)) KPrecommit (v_h v) (v_r v) (v_pc v).

Definition auth_state (s : kstate) : Prop :=
  auth_view (k_com s) /\ auth_view (k_vot s) /\ auth_view (k_nxt s).

Lemma auth_proof_nil keys kind h r t : auth_proof keys kind h r t [].
Proof. intros i s []. Qed.

Lemma auth_pmap_nil keys kind h r : auth_pmap keys kind h r [].
Proof. intros t p []. Qed.

Lemma add_sig_auth keys kind h r t p i key :
  auth_proof keys kind h r t p -> nth_n keys i = Some key ->
  auth_proof keys kind h r t (add_sig p i (SVote key kind h r t)).
Proof.
  intros Hp Hk. unfold add_sig. destruct (has_sig p _); [exact Hp|].
  intros j s Hin. apply in_app_or in Hin as [Hin|[Heq|[]]].
  - apply Hp; exact Hin.
  - inversion Heq; subst. exists key. split; [exact Hk|reflexivity].
Qed.

Lemma merge_sigs_auth kind h r t keys sigs : forall p,
  auth_proof keys kind h r t p ->
  auth_proof keys kind h r t (fst (merge_sigs kind h r t keys p sigs)).
Proof.
  induction sigs as [|sg rest IH]; intros p Hp; cbn [merge_sigs]; [exact Hp|].
  destruct (keyid_decode (ss_kid sg)) as [n|].
  2:{ specialize (IH p Hp). destruct (merge_sigs kind h r t keys p rest); exact IH. }
  destruct (nth_n keys n) as [key|] eqn:Hk.
  2:{ specialize (IH p Hp). destruct (merge_sigs kind h r t keys p rest); exact IH. }
  destruct (verify_vote key kind h r t (ss_sig sg)) eqn:Hv.
  - apply verify_vote_spec in Hv. rewrite Hv. apply IH. apply add_sig_auth; assumption.
  - specialize (IH p Hp). destruct (merge_sigs kind h r t keys p rest); exact IH.
Qed.

Lemma merge_sparse_auth kind h r t keys p sigs :
  auth_proof keys kind h r t p ->
  auth_proof keys kind h r t (fst (fst (merge_sparse kind h r t keys p sigs))).
Proof.
  intros Hp. unfold merge_sparse.
  pose proof (merge_sigs_auth kind h r t keys sigs p Hp) as H.
  destruct (merge_sigs kind h r t keys p sigs); exact H.
Qed.

Lemma pm_get_in {A} (m : list (bytes * A)) k v : pm_get m k = Some v -> In (k, v) m.
Proof.
  induction m as [|[k' v'] m IH]; simpl; [discriminate|].
  destruct (bytes_eqb k' k) eqn:E.
  - intros H; inversion H; subst. apply bytes_eqb_eq in E; subst. left; reflexivity.
  - intros H; right; apply IH; exact H.
Qed.

Lemma pm_set_in {A} (m : list (bytes * A)) k v k' v' :
  In (k', v') (pm_set m k v) -> (k', v') = (k, v) \/ In (k', v') m.
Proof.
  induction m as [|[k0 v0] m IH]; simpl.
  - intros [H|[]]; left; symmetry; exact H.
  - destruct (bytes_eqb k0 k) eqn:E; simpl.
    + intros [H|H]; [left; symmetry; exact H|right; right; exact H].
    + intros [H|H]; [right; left; exact H|].
      destruct (IH H) as [H'|H']; [left; exact H'|right; right; exact H'].
Qed.

Lemma pm_set_auth keys kind h r pm t p :
  auth_pmap keys kind h r pm -> auth_proof keys kind h r t p ->
  auth_pmap keys kind h r (pm_set pm t p).
Proof.
  intros Hm Hp t' p' Hin. apply pm_set_in in Hin as [Heq|Hin].
  - inversion Heq; subst; exact Hp.
  - apply Hm; exact Hin.
Qed.

Lemma pm_get_auth keys kind h r pm t p :
  auth_pmap keys kind h r pm -> pm_get pm t = Some p -> auth_proof keys kind h r t p.
Proof. intros Hm Hg. apply Hm. apply pm_get_in; exact Hg. Qed.

(** ** Views: what the invariant depends on *)
Definition same_votes (a b : view) : Prop :=
  v_vals a = v_vals b /\ v_h a = v_h b /\ v_r a = v_r b /\ v_pv a = v_pv b /\ v_pc a = v_pc b.

Lemma auth_view_same a b : same_votes a b -> auth_view a -> auth_view b.
Proof.
  intros (Hv & Hh & Hr & Hpv & Hpc) [H1 H2]. unfold auth_view.
  rewrite <- Hv, <- Hh, <- Hr, <- Hpv, <- Hpc. split; assumption.
Qed.

Lemma same_votes_bump v : same_votes v (bump v).
Proof. repeat split. Qed.
Lemma same_votes_with_phs v x : same_votes v (with_phs v x).
Proof. repeat split. Qed.
Lemma same_votes_with_sum v x : same_votes v (with_sum v x).
Proof. repeat split. Qed.

Lemma auth_view_bump v : auth_view v -> auth_view (bump v).
Proof. apply auth_view_same, same_votes_bump. Qed.

Lemma auth_view_fresh h r vs phs pcp sm ver : auth_view (mk_view h r vs phs [] [] pcp sm ver).
Proof. split; apply auth_pmap_nil. Qed.

Lemma auth_view_zero : auth_view zero_view.
Proof. apply auth_view_fresh. Qed.

(** ** get_view / put_view *)
Lemma get_view_auth s vid : auth_state s -> auth_view (get_view s vid).
Proof.
  intros (Hc & Hv & Hn). unfold get_view.
  destruct (vid =? ViewIDVoting); [exact Hv|]. destruct (vid =? ViewIDCommitting); assumption.
Qed.

Lemma put_view_auth s vid v : auth_state s -> auth_view v -> auth_state (put_view s vid v).
Proof.
  intros (Hc & Hv & Hn) H. unfold put_view.
  destruct (vid =? ViewIDVoting); [|destruct (vid =? ViewIDCommitting)];
    unfold auth_state; cbn; repeat split; first [apply H | apply Hc | apply Hv | apply Hn].
Qed.

(** state updates that do not touch the views *)
Lemma auth_set_rounds s x : auth_state s -> auth_state (set_rounds s x).
Proof. intros H; exact H. Qed.
Lemma auth_set_nhr s x : auth_state s -> auth_state (set_nhr s x).
Proof. intros H; exact H. Qed.
Lemma auth_set_hdrs s x : auth_state s -> auth_state (set_hdrs s x).
Proof. intros H; exact H. Qed.
Lemma auth_set_chdr s x : auth_state s -> auth_state (set_chdr s x).
Proof. intros H; exact H. Qed.
Lemma auth_update_observers s : auth_state s -> auth_state (update_observers s).
Proof. intros H; exact H. Qed.

(** ** Round changes and the commit shift *)
Lemma auth_increment s : auth_state s -> auth_state (increment_voting_round s).
Proof.
  intros (Hc & Hv & Hn). unfold increment_voting_round, auth_state. cbn.
  repeat split; try apply Hc; try (apply auth_view_bump; exact Hn); apply auth_pmap_nil.
Qed.

Lemma auth_advance s : auth_state s -> auth_state (advance_voting_round s).
Proof. intros H. apply auth_update_observers, auth_increment, H. Qed.
Lemma auth_jump s : auth_state s -> auth_state (jump_voting_round s).
Proof. intros H. apply auth_update_observers, auth_increment, H. Qed.

Lemma auth_shift s voted : auth_state s -> auth_state (shift_voting_to_committing s voted).
Proof.
  intros (Hc & Hv & Hn). unfold shift_voting_to_committing, auth_state. cbn.
  repeat split; try (apply auth_view_bump; exact Hv); apply auth_pmap_nil.
Qed.

Lemma auth_check_voting_precommit_shift s s' :
  auth_state s -> check_voting_precommit_shift s = Ok s' -> auth_state s'.
Proof.
  intros H. unfold check_voting_precommit_shift, bind.
  destruct (byz_majority _) as [maj|]; [|discriminate].
  destruct (_ <? maj).
  - destruct (_ =? _); intros E; inversion E; subst; [apply auth_advance|]; exact H.
  - destruct (sm_mpc _).
    + intros E; inversion E; subst. apply auth_advance, H.
    + destruct (find _ _); intros E; inversion E; subst; [apply auth_shift|]; exact H.
Qed.

Lemma auth_check_next_round_precommit_shift s s' :
  auth_state s -> check_next_round_precommit_shift s = Ok s' -> auth_state s'.
Proof.
  intros H. unfold check_next_round_precommit_shift, bind.
  destruct (byz_minority _) as [mn|]; [|discriminate].
  destruct (_ <? mn); [intros E; inversion E; subst; exact H|].
  destruct (byz_majority _) as [maj|]; [|discriminate].
  destruct (maj <=? _).
  - apply auth_check_voting_precommit_shift, auth_jump, H.
  - intros E; inversion E; subst. apply auth_jump, H.
Qed.

Lemma auth_check_prevote_shift s s' :
  auth_state s -> check_prevote_shift s = Ok s' -> auth_state s'.
Proof.
  intros H. unfold check_prevote_shift, bind.
  destruct (byz_minority _) as [mn|]; [|discriminate].
  destruct (_ <? mn); intros E; inversion E; subst; [|apply auth_jump]; exact H.
Qed.

(** ** Adding a proposed header *)
Lemma backfill_fold_auth keys h r entries : forall pc any pc' any',
  auth_pmap keys KPrecommit h r pc ->
  fold_left (fun acc e =>
      let '(pc, any) := acc in
      match pm_get pc (fst e) with
      | None => (pc, any)
      | Some target =>
          let '(t', _, inc) := merge_sparse KPrecommit h r (fst e) keys target (snd e) in
          (pm_set pc (fst e) t', any || inc)
      end) entries (pc, any) = (pc', any') ->
  auth_pmap keys KPrecommit h r pc'.
Proof.
  induction entries as [|e rest IH]; intros pc any pc' any' Hpc; cbn [fold_left].
  - intros E; inversion E; subst; exact Hpc.
  - destruct (pm_get pc (fst e)) as [target|] eqn:Hg.
    + pose proof (merge_sparse_auth KPrecommit h r (fst e) keys target (snd e)
                    (pm_get_auth _ _ _ _ _ _ _ Hpc Hg)) as Hm.
      destruct (merge_sparse KPrecommit h r (fst e) keys target (snd e)) as [[t' av] inc].
      apply IH. apply pm_set_auth; assumption.
    + apply IH; exact Hpc.
Qed.

Lemma auth_backfill s p : auth_state s -> auth_state (backfill_commit s p).
Proof.
  intros (Hc & Hv & Hn). unfold backfill_commit.
  destruct (fold_left _ _ _) as [pc' any] eqn:Hf.
  pose proof (backfill_fold_auth _ _ _ _ _ _ _ _ (proj2 Hc) Hf) as Hpc.
  assert (Hcom : auth_view (with_pc (k_com s) pc')).
  { split; [apply Hc|exact Hpc]. }
  destruct any.
  - unfold auth_state. cbn. repeat split; try apply Hv; try apply Hn; try apply Hc; exact Hpc.
  - unfold auth_state. cbn. repeat split; try apply Hv; try apply Hn; try apply Hc; exact Hpc.
Qed.

Lemma auth_add_ph s p s' : auth_state s -> add_ph s p = Ok s' -> auth_state s'.
Proof.
  intros H. unfold add_ph, bind.
  destruct (find_view _ _ _) as [[vid st]|]; [|discriminate].
  destruct (negb (st =? ViewFound)); [intros E; inversion E; subst; exact H|].
  destruct (existsb _ _); [intros E; inversion E; subst; exact H|].
  set (s1 := put_view s vid _).
  assert (H1 : auth_state s1).
  { apply put_view_auth; [exact H|]. apply auth_view_bump.
    eapply auth_view_same; [apply same_votes_with_phs|]. apply get_view_auth; exact H. }
  set (s2 := ev_w (log_w (set_rounds s1 _) _) _).
  assert (H2 : auth_state s2) by exact H1.
  destruct (negb _); [intros E; inversion E; subst; exact H2|].
  pose proof (auth_backfill s2 p H2) as H3.
  destruct (vid =? ViewIDVoting).
  - destruct (pm_get _ _).
    + apply auth_check_voting_precommit_shift; exact H3.
    + intros E; inversion E; subst; exact H3.
  - intros E; inversion E; subst; exact H3.
Qed.

(** ** Votes *)
Lemma view_votes_auth kind v :
  (kind = KPrevote \/ kind = KPrecommit) -> auth_view v ->
  auth_pmap (vs_keys (v_vals v)) kind (v_h v) (v_r v) (view_votes kind v).
Proof.
  intros [->| ->] [H1 H2]; unfold view_votes; cbn; assumption.
Qed.

Lemma build_updates_auth kind v toadd :
  (kind = KPrevote \/ kind = KPrecommit) -> auth_view v ->
  auth_pmap (vs_keys (v_vals v)) kind (v_h v) (v_r v) (fst (build_updates kind v toadd)).
Proof.
  intros Hk Hv. unfold build_updates.
  assert (G : forall l ups allv,
    auth_pmap (vs_keys (v_vals v)) kind (v_h v) (v_r v) ups ->
    auth_pmap (vs_keys (v_vals v)) kind (v_h v) (v_r v)
      (fst (fold_left (fun acc e =>
        let '(ups, allv) := acc in
        let base := match pm_get (view_votes kind v) (fst e) with Some p => p | None => [] end in
        let '(p', av, inc) := merge_sparse kind (v_h v) (v_r v) (fst e) (vs_keys (v_vals v)) base (snd e) in
        (if inc then pm_set ups (fst e) p' else ups, allv && av)) l (ups, allv)))).
  { induction l as [|e rest IH]; intros ups allv Hu; cbn [fold_left]; [exact Hu|].
    set (base := match pm_get (view_votes kind v) (fst e) with Some p => p | None => [] end).
    assert (Hb : auth_proof (vs_keys (v_vals v)) kind (v_h v) (v_r v) (fst e) base).
    { unfold base. destruct (pm_get _ _) eqn:Hg; [|apply auth_proof_nil].
      eapply pm_get_auth; [apply view_votes_auth; eassumption|exact Hg]. }
    pose proof (merge_sparse_auth kind (v_h v) (v_r v) (fst e) (vs_keys (v_vals v)) base (snd e) Hb) as Hm.
    destruct (merge_sparse kind (v_h v) (v_r v) (fst e) (vs_keys (v_vals v)) base (snd e)) as [[p' av] inc].
    apply IH. destruct inc; [apply pm_set_auth; assumption|exact Hu]. }
  apply G. apply auth_pmap_nil.
Qed.

Lemma fold_pm_set_auth keys kind h r ups : forall pm,
  auth_pmap keys kind h r pm -> auth_pmap keys kind h r ups ->
  auth_pmap keys kind h r (fold_left (fun m e => pm_set m (fst e) (snd e)) ups pm).
Proof.
  induction ups as [|[t p] rest IH]; intros pm Hm Hu; cbn [fold_left]; [exact Hm|].
  apply IH.
  - apply pm_set_auth; [exact Hm|]. apply (Hu t p). left; reflexivity.
  - intros t' p' Hin. apply Hu. right; exact Hin.
Qed.

Lemma auth_apply_votes kind s vid h r ups s' :
  (kind = KPrevote \/ kind = KPrecommit) -> auth_state s ->
  auth_pmap (vs_keys (v_vals (get_view s vid))) kind (v_h (get_view s vid)) (v_r (get_view s vid)) ups ->
  apply_votes kind s vid h r ups = Ok s' -> auth_state s'.
Proof.
  intros Hk H Hu. unfold apply_votes.
  set (v := get_view s vid) in *.
  assert (Hv : auth_view v) by (apply get_view_auth; exact H).
  set (votes' := fold_left (fun m e => pm_set m (fst e) (snd e)) ups (view_votes kind v)).
  assert (Hvotes : auth_pmap (vs_keys (v_vals v)) kind (v_h v) (v_r v) votes').
  { apply fold_pm_set_auth; [apply view_votes_auth; assumption|exact Hu]. }
  set (v1 := if kind =? KPrevote then with_pv v votes' else with_pc v votes').
  assert (Hv1 : auth_view v1).
  { unfold v1. destruct Hk as [->| ->]; cbn; split; cbn; try apply Hv; exact Hvotes. }
  set (sm' := if kind =? KPrevote then sum_set_prevotes _ _ _ else _).
  set (v2 := bump (with_sum v1 sm')).
  assert (Hv2 : auth_view v2).
  { apply auth_view_bump. eapply auth_view_same; [apply same_votes_with_sum|exact Hv1]. }
  set (s1 := put_view s vid v2).
  assert (H1 : auth_state s1) by (apply put_view_auth; assumption).
  set (s2 := ev_w (log_w (set_rounds s1 _) _) _).
  assert (H2 : auth_state s2) by exact H1.
  destruct (kind =? KPrevote).
  - destruct (vid =? ViewIDNextRound).
    + apply auth_check_prevote_shift; exact H2.
    + intros E; inversion E; subst; exact H2.
  - destruct (vid =? ViewIDVoting).
    + apply auth_check_voting_precommit_shift; exact H2.
    + destruct (vid =? ViewIDNextRound).
      * apply auth_check_next_round_precommit_shift; exact H2.
      * intros E; inversion E; subst; exact H2.
Qed.

Lemma auth_handle_future kind s m s' res :
  auth_state s -> handle_future_votes kind s m = Ok (s', res) -> auth_state s'.
Proof.
  intros H. unfold handle_future_votes.
  destruct (if vm_h m =? _ then _ else _) as [keys|]; [|intros E; inversion E; subst; exact H].
  destruct keys; [intros E; inversion E; subst; exact H|].
  destruct (negb (bytes_eqb _ _)); [intros E; inversion E; subst; exact H|].
  destruct (match coll_of _ _ with Some c => c | None => _ end) as [spkh stored].
  destruct (fold_left _ _ _) as [[full' allv] inc].
  destruct (negb allv); [intros E; inversion E; subst; exact H|].
  destruct (negb inc); intros E; inversion E; subst; exact H.
Qed.

Lemma auth_handle_votes kind s m s' res :
  (kind = KPrevote \/ kind = KPrecommit) -> auth_state s ->
  handle_votes kind s m = Ok (s', res) -> auth_state s'.
Proof.
  intros Hk H. unfold handle_votes, bind.
  destruct (vm_proofs m) as [|vp0 vpl] eqn:Hp; [intros E; inversion E; subst; exact H|]. rewrite <- Hp. clear Hp vp0 vpl.
  destruct (find_view _ _ _) as [[vid st]|]; [|discriminate].
  destruct (st =? ViewFuture); [apply auth_handle_future; exact H|].
  destruct (negb (st =? ViewFound)); [intros E; inversion E; subst; exact H|].
  destruct (negb (bytes_eqb _ _)); [intros E; inversion E; subst; exact H|].
  destruct (sigs_to_add _ _ _) as [|x0 l0] eqn:Hs; [intros E; inversion E; subst; exact H|]. rewrite <- Hs. clear Hs.
  pose proof (build_updates_auth kind (get_view s vid) (sigs_to_add (view_votes kind (get_view s vid)) (vm_proofs m)
     (List.length (vs_keys (v_vals (get_view s vid))))) Hk (get_view_auth s vid H)) as Hb.
  destruct (build_updates _ _ _) as [ups allv]. cbn [fst] in Hb.
  destruct ups as [|u ups'] eqn:Hu; [intros E; inversion E; subst; exact H|]. rewrite <- Hu in *. clear Hu.
  destruct (apply_votes _ _ _ _ _ _) as [s2|] eqn:Ha; [|discriminate].
  intros E; inversion E; subst. eapply auth_apply_votes; eassumption.
Qed.

(** ** Proposed headers *)
Lemma auth_handle_ph_loop fuel : forall backfilled s p s' res,
  auth_state s -> handle_ph_loop fuel backfilled s p = Ok (s', res) -> auth_state s'.
Proof.
  induction fuel as [|f IH]; intros backfilled s p s' res H; cbn [handle_ph_loop];
    destruct (ph_check s p) as [status proposer prev_hash prev_vs view_vs].
  all: repeat match goal with
       | |- (if ?c then _ else _) = _ -> _ => destruct c; [intros E; inversion E; subst; exact H|]
       end.
  all: try (destruct (status =? PHCheckNextHeight);
            [ destruct backfilled; [intros E; inversion E; subst; exact H|] | ]).
  - intros E; inversion E; subst; exact H.
  - revert H. generalize s. clear. intros s H.
    repeat match goal with
       | |- (if ?c then _ else _) = _ -> _ => destruct c; [intros E; inversion E; subst; exact H|]
       end.
    destruct proposer as [key|]; [|intros E; inversion E; subst; exact H].
    repeat match goal with
       | |- (if ?c then _ else _) = _ -> _ => destruct c; [intros E; inversion E; subst; exact H|]
       end.
    assert (Hacc : forall s' res, bind (add_ph s p) (fun s' => Ok (s', HandleProposedHeaderAccepted)) = Ok (s', res) -> auth_state s').
    { intros s1 r1. unfold bind. destruct (add_ph s p) eqn:Ha; [|discriminate].
      intros E; inversion E; subst. eapply auth_add_ph; eassumption. }
    destruct (k_init_h s <? _); [|apply Hacc].
    destruct (vs_keys prev_vs); [intros E; inversion E; subst; exact H|].
    destruct (validate_finalized _ _ _ _ _) as [[bits|] [|]];
      try (intros E; inversion E; subst; exact H).
    unfold bind at 1. destruct (byz_majority _); [|discriminate].
    destruct (_ <? _); [intros E; inversion E; subst; exact H|apply Hacc].
  - unfold bind at 1. destruct (handle_votes KPrecommit s (vote_msg_of_pcp p)) as [[s1 r1]|] eqn:Hv; [|discriminate].
    cbn [fst]. apply IH. eapply auth_handle_votes; [right; reflexivity|exact H|exact Hv].
  - revert H. generalize s. clear. intros s H.
    repeat match goal with
       | |- (if ?c then _ else _) = _ -> _ => destruct c; [intros E; inversion E; subst; exact H|]
       end.
    destruct proposer as [key|]; [|intros E; inversion E; subst; exact H].
    repeat match goal with
       | |- (if ?c then _ else _) = _ -> _ => destruct c; [intros E; inversion E; subst; exact H|]
       end.
    assert (Hacc : forall s' res, bind (add_ph s p) (fun s' => Ok (s', HandleProposedHeaderAccepted)) = Ok (s', res) -> auth_state s').
    { intros s1 r1. unfold bind. destruct (add_ph s p) eqn:Ha; [|discriminate].
      intros E; inversion E; subst. eapply auth_add_ph; eassumption. }
    destruct (k_init_h s <? _); [|apply Hacc].
    destruct (vs_keys prev_vs); [intros E; inversion E; subst; exact H|].
    destruct (validate_finalized _ _ _ _ _) as [[bits|] [|]];
      try (intros E; inversion E; subst; exact H).
    unfold bind at 1. destruct (byz_majority _); [|discriminate].
    destruct (_ <? _); [intros E; inversion E; subst; exact H|apply Hacc].
Qed.

(** ** Replayed headers *)
Lemma jump_until_ind (P : kstate -> Prop) :
  (forall s, P s -> P (jump_voting_round s)) -> forall fuel s r, P s -> P (jump_until fuel s r).
Proof.
  intros Hj. induction fuel as [|f IH]; intros s r H; cbn [jump_until]; [exact H|].
  destruct (_ <? _); [apply IH, Hj, H|exact H].
Qed.

Lemma nlist_eqb_eq a : forall b, nlist_eqb a b = true -> a = b.
Proof.
  induction a as [|x a IH]; intros [|y b]; cbn; try discriminate; [reflexivity|].
  intros H. apply andb_true_iff in H as [H1 H2]. apply N.eqb_eq in H1. f_equal; [exact H1|apply IH; exact H2].
Qed.

Lemma valset_equal_keys a b : valset_equal a b = true -> vs_keys a = vs_keys b /\ vs_pows a = vs_pows b.
Proof.
  unfold valset_equal. intros H. repeat (apply andb_true_iff in H as [H ?]).
  split; apply nlist_eqb_eq; assumption.
Qed.

Lemma replay_temp_auth h r keys pc entries : forall tm av tm' av',
  auth_pmap keys KPrecommit h r pc -> auth_pmap keys KPrecommit h r tm ->
  fold_left (fun acc e =>
      let '(tm, av) := acc in
      let base := match pm_get pc (fst e) with Some p => p | None => [] end in
      let '(p', a, _) := merge_sparse KPrecommit h r (fst e) keys base (snd e) in
      (pm_set tm (fst e) p', av && a)) entries (tm, av) = (tm', av') ->
  auth_pmap keys KPrecommit h r tm'.
Proof.
  induction entries as [|e rest IH]; intros tm av tm' av' Hpc Htm; cbn [fold_left].
  - intros E; inversion E; subst; exact Htm.
  - assert (Hb : auth_proof keys KPrecommit h r (fst e) (match pm_get pc (fst e) with Some p => p | None => [] end)).
    { destruct (pm_get pc (fst e)) as [p0|] eqn:Hg.
      - exact (pm_get_auth _ _ _ _ _ _ _ Hpc Hg).
      - apply auth_proof_nil. }
    pose proof (merge_sparse_auth KPrecommit h r (fst e) keys _ (snd e) Hb) as Hm.
    destruct (merge_sparse KPrecommit h r (fst e) keys _ (snd e)) as [[p' a] inc]. cbn [fst] in Hm.
    apply IH; [exact Hpc|apply pm_set_auth; assumption].
Qed.

(** the state reached after the optional insertion of the bare header *)
Definition replay_insert (s : kstate) (hd : hdr) (r : N) : res kstate :=
  if existsb (fun p => bytes_eqb (hd_hash (ph_hdr p)) (hd_hash hd)) (v_phs (k_vot s)) then Ok s
  else if existsb (fun x => let '(h', _, e) := x in
                            (h' =? hd_height hd) && existsb (fun p => bytes_eqb (hd_hash (ph_hdr p)) (hd_hash hd)) (re_phs e))
                  (st_rounds s)
  then
    let s1 := log_w (set_rounds s (rs_save_ph (st_rounds s) (fake_ph hd r))) (WPH (fake_ph hd r)) in
    Ok (set_vot s1 (with_phs (k_vot s1) (v_phs (k_vot s1) ++ [fake_ph hd r])))
  else
    let s1 := log_w (set_replayed s (st_replayed s ++ [hd])) (WReplay hd) in
    Ok (set_vot s1 (with_phs (k_vot s1) (v_phs (k_vot s1) ++ [fake_ph hd r]))).

Lemma auth_replay_insert s hd r s1 : auth_state s -> replay_insert s hd r = Ok s1 ->
  auth_state s1 /\ v_h (k_vot s1) = v_h (k_vot s) /\ v_r (k_vot s1) = v_r (k_vot s) /\
  v_vals (k_vot s1) = v_vals (k_vot s) /\ v_pc (k_vot s1) = v_pc (k_vot s).
Proof.
  intros H. unfold replay_insert.
  destruct (existsb _ (v_phs _)); [intros E; inversion E; subst; split; [exact H|repeat split]|].
  destruct H as (Hc&[Hv1 Hv2]&Hn).
  destruct (existsb _ (st_rounds s)); intros E; inversion E; subst;
    (split; [|cbn; repeat split]);
    (unfold auth_state; cbn; split; [exact Hc|]; split; [|exact Hn]; split; cbn; assumption).
Qed.

Lemma auth_handle_replay s0 hd cp s' res :
  auth_state s0 -> handle_replay s0 hd cp = Ok (s', res) -> auth_state s'.
Proof.
  intros H0. unfold handle_replay.
  destruct (negb (hd_height hd =? _)); [intros E; inversion E; subst; exact H0|].
  destruct (cp_round cp <? _); [discriminate|].
  set (s := jump_until _ s0 _).
  assert (H : auth_state s) by (apply jump_until_ind; [apply auth_jump|exact H0]).
  destruct ((v_r (k_vot s) =? cp_round cp) && (v_h (k_vot s) =? hd_height hd)) eqn:Hpos; cbn [negb]; [|discriminate].
  apply andb_true_iff in Hpos as [Hr Hh]. apply N.eqb_eq in Hr, Hh.
  assert (Hsame : forall r0, Ok (s0, r0) = Ok (s', res) -> auth_state s') by (intros r0 E; inversion E; subst; exact H0).
  destruct (negb (hd_ok hd)); [apply Hsame|].
  destruct (negb (hd_height hd =? k_init_h s) && _); [apply Hsame|].
  destruct (valset_equal (hd_vals hd) (v_vals (k_vot s)) && vs_ok (hd_vals hd)) eqn:Hveq; cbn [negb]; [|apply Hsame].
  apply andb_true_iff in Hveq as [Hveq _]. destruct (valset_equal_keys _ _ Hveq) as [Hkeys _].
  destruct (negb (vs_ok (hd_next hd))); [apply Hsame|].
  destruct (fold_left _ (signed_entries (cp_proofs cp)) ([], true)) as [temp allv] eqn:Hf.
  assert (Htemp : auth_pmap (vs_keys (v_vals (k_vot s))) KPrecommit (v_h (k_vot s)) (v_r (k_vot s)) temp).
  { rewrite Hr, Hh, <- Hkeys. eapply replay_temp_auth; [| |exact Hf].
    - destruct H as (_&[_ Hvpc]&_). rewrite Hkeys, <- Hr, <- Hh. exact Hvpc.
    - apply auth_pmap_nil. }
  destruct (negb allv); [apply Hsame|].
  destruct (pm_get temp (hd_hash hd)); [|apply Hsame].
  unfold bind at 1. destruct (byz_majority _); [|discriminate].
  destruct (_ <? _); [apply Hsame|].
  fold (replay_insert s hd (cp_round cp)).
  unfold bind at 1. destruct (replay_insert s hd (cp_round cp)) as [s1|] eqn:Hins; [|discriminate].
  destruct (auth_replay_insert _ _ _ _ H Hins) as (H1&E1&E2&E3&E4).
  unfold bind. destruct (check_voting_precommit_shift _) as [s3|] eqn:Hc; [|discriminate].
  intros E; inversion E; subst.
  eapply auth_check_voting_precommit_shift; [|exact Hc].
  destruct H1 as (Hc1&[Hv1 Hv2]&Hn1).
  unfold auth_state. split; [exact Hc1|]. split; [|exact Hn1].
  unfold auth_view, with_sum, with_pc. cbn. split; [exact Hv1|].
  apply fold_pm_set_auth; [exact Hv2|rewrite E1, E2, E3; exact Htemp].
Qed.

Lemma auth_step s o s' res : auth_state s -> step s o = Ok (s', res) -> auth_state s'.
Proof.
  intros H. destruct o as [p|m|m|x cp]; cbn [step]; [| | |apply auth_handle_replay; exact H].
  - unfold handle_ph. destruct (ph_key p); [apply auth_handle_ph_loop; exact H|].
    intros E; inversion E; subst; exact H.
  - apply auth_handle_votes; [left; reflexivity|exact H].
  - apply auth_handle_votes; [right; reflexivity|exact H].
Qed.

Lemma auth_init init_h vs : auth_state (init_state init_h vs).
Proof. unfold auth_state, init_state; cbn. repeat split; apply auth_pmap_nil. Qed.

(** All states reached by any operation history. *)
Inductive reachable (init_h : N) (vs : valset) : kstate -> Prop :=
| reach_init : reachable init_h vs (init_state init_h vs)
| reach_step s o s' res : reachable init_h vs s -> step s o = Ok (s', res) -> reachable init_h vs s'.

Theorem views_authentic init_h vs s : reachable init_h vs s -> auth_state s.
Proof.
  induction 1 as [|s o s' res Hr IH Hs]; [apply auth_init|]. eapply auth_step; eassumption.
Qed.
