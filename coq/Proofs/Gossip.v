(** Proofs about the ChattyStrategy model (Model/Gossip.v): soundness for all update
    sequences, completeness for all well-formed sequences, and the peer's view. *)
From Coq Require Import List NArith Bool Lia Permutation.
From GV Require Import Model.GossipData Model.Gossip.
Import ListNotations.
Local Open Scope N_scope.

(* ------------------------------------------------------------------ basic facts *)

Lemma headers_eqb_eq a b : headers_eqb a b = true -> a = b.
Proof.
  revert b; induction a as [|x a IH]; intros [|y b] H; simpl in H; try discriminate; auto.
  apply andb_true_iff in H as [H1 H2]. apply N.eqb_eq in H1. f_equal; auto.
Qed.

Lemma sparse_eqb_eq a b : sparse_eqb a b = true -> a = b.
Proof.
  revert b; induction a as [|[i s] a IH]; intros [|[j t] b] H; simpl in H; try discriminate; auto.
  apply andb_true_iff in H as [H12 H3]. apply andb_true_iff in H12 as [H1 H2].
  apply N.eqb_eq in H1. apply N.eqb_eq in H2. subst. f_equal; auto.
Qed.

Lemma proof_eqb_eq p c : proof_eqb p c = true -> p = c.
Proof.
  destruct p as [k1 s1], c as [k2 s2]. unfold proof_eqb; simpl. intros H.
  apply andb_true_iff in H as [H1 H2]. apply N.eqb_eq in H1. apply sparse_eqb_eq in H2. subst; auto.
Qed.

Lemma pm_lookup_in h pm p : pm_lookup h pm = Some p -> In (h, p) pm.
Proof.
  induction pm as [|[h' p'] pm IH]; simpl; intros H; [discriminate|].
  destruct (N.eqb_spec h' h) as [->|_].
  - inversion H; subst; auto.
  - right; auto.
Qed.

(** sameProofs = true: every entry of [cur] is an entry of [prev]. *)
Lemma same_proofs_incl prev cur : same_proofs prev cur = true -> incl cur prev.
Proof.
  unfold same_proofs. intros H. apply andb_true_iff in H as [_ H].
  rewrite forallb_forall in H. intros [h c] Hin. specialize (H _ Hin). simpl in H.
  destruct (pm_lookup h prev) as [p|] eqn:E; [|discriminate].
  apply proof_eqb_eq in H. subst. apply pm_lookup_in; auto.
Qed.

Lemma and_then_ok a b : snd a = true -> and_then a b = (fst a ++ fst b, snd b).
Proof. unfold and_then. intros ->. reflexivity. Qed.

Lemma and_then_in a b x : In x (fst (and_then a b)) -> In x (fst a) \/ In x (fst b).
Proof.
  unfold and_then. destruct (snd a); simpl; intros H; auto. apply in_app_or in H; auto.
Qed.

Lemma peer_headers_app a b : peer_headers (a ++ b) = peer_headers a ++ peer_headers b.
Proof. apply flat_map_app. Qed.

Lemma peer_votes_app a b : peer_votes (a ++ b) = peer_votes a ++ peer_votes b.
Proof. apply flat_map_app. Qed.

Lemma peer_headers_incl a b : incl a b -> incl (peer_headers a) (peer_headers b).
Proof.
  intros H x Hx. apply in_flat_map in Hx as [y [Hy Hx]]. apply in_flat_map. exists y; split; auto.
Qed.

Lemma peer_votes_incl a b : incl a b -> incl (peer_votes a) (peer_votes b).
Proof.
  intros H x Hx. apply in_flat_map in Hx as [y [Hy Hx]]. apply in_flat_map. exists y; split; auto.
Qed.

(* ------------------------------------------------------------------ AsSparse *)

(** A successful AsSparse carries exactly the view's votes of that kind. *)
Lemma as_sparse_votes k h r pm kh body :
  as_sparse pm = Some (kh, body) ->
  flat_map (fun e => sparse_votes k h r kh (fst e) (snd e)) body =
  flat_map (fun e => sparse_votes k h r (p_keyhash (snd e)) (fst e) (p_sigs (snd e))) pm.
Proof.
  unfold as_sparse. destruct pm as [|e0 pm']; [intros H; inversion H; reflexivity|].
  set (pm := e0 :: pm').
  destruct (forallb _ pm) eqn:F; [|discriminate]. intros H; inversion H; subst kh body; clear H.
  rewrite forallb_forall in F.
  assert (G : forall l, (forall e, In e l -> In e pm) ->
    flat_map (fun e => sparse_votes k h r (p_keyhash (snd e0)) (fst e) (snd e))
             (map (fun e => (fst e, p_sigs (snd e))) l) =
    flat_map (fun e => sparse_votes k h r (p_keyhash (snd e)) (fst e) (p_sigs (snd e))) l).
  { induction l as [|e l IH]; intros Hl; simpl; [reflexivity|].
    rewrite IH by (intros; apply Hl; right; auto).
    f_equal. specialize (F e (Hl e (or_introl eq_refl))). apply N.eqb_eq in F. rewrite F. reflexivity. }
  exact (G pm (fun e H => H)).
Qed.

Lemma as_sparse_some pm : kh_consistent pm = true -> exists kh body, as_sparse pm = Some (kh, body).
Proof.
  unfold kh_consistent, as_sparse. destruct pm as [|e0 pm']; [eauto|].
  intros ->. eauto.
Qed.

Lemma as_sparse_none pm : kh_consistent pm = false -> as_sparse pm = None.
Proof.
  unfold kh_consistent, as_sparse. destruct pm as [|e0 pm']; [discriminate|].
  intros ->. reflexivity.
Qed.

(** The "arbitrary entry" of the Go map iteration is irrelevant: success, the public-key hash
    and the set of entries do not depend on the order of the map. *)
Lemma kh_consistent_all pm :
  kh_consistent pm = true <-> (forall e1 e2, In e1 pm -> In e2 pm -> p_keyhash (snd e1) = p_keyhash (snd e2)).
Proof.
  unfold kh_consistent. destruct pm as [|e0 pm']; [split; auto; intros _ ? ? []|].
  rewrite forallb_forall. split.
  - intros H e1 e2 H1 H2. apply H in H1, H2. apply N.eqb_eq in H1, H2. congruence.
  - intros H e He. apply N.eqb_eq. apply H; auto. left; auto.
Qed.

Lemma kh_consistent_perm pm pm' : Permutation pm pm' -> kh_consistent pm = kh_consistent pm'.
Proof.
  intros P. destruct (kh_consistent pm) eqn:A, (kh_consistent pm') eqn:B; auto.
  - rewrite kh_consistent_all in A.
    assert (kh_consistent pm' = true); [|congruence].
    apply kh_consistent_all. intros e1 e2 H1 H2. apply A; apply (Permutation_in _ (Permutation_sym P)); auto.
  - rewrite kh_consistent_all in B.
    assert (kh_consistent pm = true); [|congruence].
    apply kh_consistent_all. intros e1 e2 H1 H2. apply B; apply (Permutation_in _ P); auto.
Qed.

Lemma as_sparse_perm pm pm' : Permutation pm pm' ->
  match as_sparse pm, as_sparse pm' with
  | Some (kh, body), Some (kh', body') => (pm <> [] -> kh = kh') /\ Permutation body body'
  | None, None => True
  | _, _ => False
  end.
Proof.
  intros P. pose proof (kh_consistent_perm _ _ P) as E.
  destruct (kh_consistent pm) eqn:A.
  - symmetry in E. pose proof A as A'. rewrite kh_consistent_all in A'.
    unfold as_sparse, kh_consistent in *.
    destruct pm as [|e0 l]; destruct pm' as [|e0' l'].
    + split; auto.
    + apply Permutation_nil in P; discriminate.
    + apply Permutation_sym, Permutation_nil in P; discriminate.
    + rewrite A, E. split.
      * intros _. apply A'; [left; auto|]. apply (Permutation_in _ (Permutation_sym P)). left; auto.
      * apply Permutation_map; auto.
  - symmetry in E. rewrite (as_sparse_none _ A), (as_sparse_none _ E). exact I.
Qed.

(* ------------------------------------------------------------------ soundness *)

(** Every value in [r] is made of the given headers and votes. *)
Definition from (hs : list header) (vs : list vote) (r : sends) : Prop :=
  forall b, In b (fst r) -> incl (bcast_headers b) hs /\ incl (bcast_votes b) vs.

Lemma from_nothing hs vs : from hs vs nothing.
Proof. intros b []. Qed.

Lemma from_and_then hs vs a b : from hs vs a -> from hs vs b -> from hs vs (and_then a b).
Proof. intros Ha Hb x Hx. apply and_then_in in Hx as [Hx|Hx]; auto. Qed.

Lemma from_weaken hs vs hs' vs' r : incl hs hs' -> incl vs vs' -> from hs vs r -> from hs' vs' r.
Proof. intros H1 H2 H b Hb. destruct (H b Hb). split; eapply incl_tran; eauto. Qed.

Lemma from_phs v : from (v_phs v) [] (broadcast_phs v).
Proof.
  intros b Hb. simpl in Hb. apply in_map_iff in Hb as [h [<- Hh]]. simpl. split.
  - intros x [<-|[]]; auto.
  - intros x [].
Qed.

Lemma from_votes k v : from [] (view_votes k v) (broadcast_votes k v).
Proof.
  unfold broadcast_votes. destruct (pm_of k v) as [|e0 pm'] eqn:E; [apply from_nothing|].
  rewrite <- E. destruct (as_sparse (pm_of k v)) as [[kh body]|] eqn:A; [|intros b []].
  intros b [<-|[]]. simpl. split; [intros x []|].
  unfold view_votes. rewrite (as_sparse_votes k _ _ _ _ _ A). apply incl_refl.
Qed.

Lemma view_votes_all k v : incl (view_votes k v) (view_all_votes v).
Proof. unfold view_all_votes. destruct k; [apply incl_appl|apply incl_appr]; apply incl_refl. Qed.

Lemma from_all v : from (v_phs v) (view_all_votes v) (broadcast_all v).
Proof.
  unfold broadcast_all. repeat apply from_and_then.
  - eapply from_weaken; [| |apply from_phs]; [apply incl_refl|intros x []].
  - eapply from_weaken; [| |apply from_votes]; [intros x []|apply view_votes_all].
  - eapply from_weaken; [| |apply from_votes]; [intros x []|apply view_votes_all].
Qed.

Lemma from_updates_only prev cur : from (v_phs cur) (view_all_votes cur) (broadcast_updates_only prev cur).
Proof.
  unfold broadcast_updates_only. repeat apply from_and_then.
  - destruct (headers_eqb _ _); [apply from_nothing|].
    eapply from_weaken; [| |apply from_phs]; [apply incl_refl|intros x []].
  - destruct (same_proofs _ _); [apply from_nothing|].
    eapply from_weaken; [| |apply from_votes]; [intros x []|apply view_votes_all].
  - destruct (same_proofs _ _); [apply from_nothing|].
    eapply from_weaken; [| |apply from_votes]; [intros x []|apply view_votes_all].
Qed.

Lemma from_view_diff prev cur : from (v_phs cur) (view_all_votes cur) (broadcast_view_diff prev cur).
Proof.
  unfold broadcast_view_diff. destruct (_ && _); [apply from_updates_only|apply from_all].
Qed.

Lemma from_opt (f : view -> sends) (hf : view -> list header) (vf : view -> list vote) o :
  (forall v, from (hf v) (vf v) (f v)) -> from (opt_list hf o) (opt_list vf o) (opt_sends f o).
Proof. intros H. destruct o; simpl; [apply H|apply from_nothing]. Qed.

(** Soundness of one step, for EVERY state and update: each value sent while processing
    update [u] consists of proposed headers and vote signatures contained in [u]. *)
Lemma step_sound s u : from (update_headers u) (update_votes u) (snd (step s u), true).
Proof.
  unfold update_headers, update_votes.
  assert (Hc : forall f, (forall v, from (v_phs v) (view_all_votes v) (f v)) ->
     from (opt_list v_phs (u_committing u) ++ opt_list v_phs (u_voting u) ++ opt_list v_phs (u_next u))
          (opt_list view_all_votes (u_committing u) ++ opt_list (view_votes Precommit) (u_nil u) ++
           opt_list view_all_votes (u_voting u) ++ opt_list view_all_votes (u_next u))
          (opt_sends f (u_committing u))).
  { intros f Hf. eapply from_weaken; [| |apply (from_opt f v_phs view_all_votes), Hf];
      auto using incl_appl, incl_refl. }
  assert (Hn : from (opt_list v_phs (u_committing u) ++ opt_list v_phs (u_voting u) ++ opt_list v_phs (u_next u))
          (opt_list view_all_votes (u_committing u) ++ opt_list (view_votes Precommit) (u_nil u) ++
           opt_list view_all_votes (u_voting u) ++ opt_list view_all_votes (u_next u))
          (opt_sends (broadcast_votes Precommit) (u_nil u))).
  { eapply from_weaken; [| |apply (from_opt (broadcast_votes Precommit) (fun _ => []) (view_votes Precommit)), from_votes].
    - destruct (u_nil u); intros x [].
    - apply incl_appr, incl_appl, incl_refl. }
  assert (Hv : forall f, (forall v, from (v_phs v) (view_all_votes v) (f v)) ->
     from (opt_list v_phs (u_committing u) ++ opt_list v_phs (u_voting u) ++ opt_list v_phs (u_next u))
          (opt_list view_all_votes (u_committing u) ++ opt_list (view_votes Precommit) (u_nil u) ++
           opt_list view_all_votes (u_voting u) ++ opt_list view_all_votes (u_next u))
          (opt_sends f (u_voting u))).
  { intros f Hf. eapply from_weaken; [| |apply (from_opt f v_phs view_all_votes), Hf].
    - apply incl_appr, incl_appl, incl_refl.
    - apply incl_appr, incl_appr, incl_appl, incl_refl. }
  assert (Hx : forall f, (forall v, from (v_phs v) (view_all_votes v) (f v)) ->
     from (opt_list v_phs (u_committing u) ++ opt_list v_phs (u_voting u) ++ opt_list v_phs (u_next u))
          (opt_list view_all_votes (u_committing u) ++ opt_list (view_votes Precommit) (u_nil u) ++
           opt_list view_all_votes (u_voting u) ++ opt_list view_all_votes (u_next u))
          (opt_sends f (u_next u))).
  { intros f Hf. eapply from_weaken; [| |apply (from_opt f v_phs view_all_votes), Hf].
    - apply incl_appr, incl_appr, incl_refl.
    - apply incl_appr, incl_appr, incl_appr, incl_refl. }
  destruct s as [|pc pv pn| |]; simpl; try (intros b []).
  - destruct (u_voting u) as [v|] eqn:EV; simpl; [|intros b []].
    intros b Hb. simpl in Hb.
    apply and_then_in in Hb as [Hb|Hb].
    { apply (Hv broadcast_all from_all); auto. }
    apply and_then_in in Hb as [Hb|Hb]; [apply (Hc broadcast_all from_all); auto|].
    apply and_then_in in Hb as [Hb|Hb]; [apply (Hx broadcast_all from_all); auto|].
    apply Hn; auto.
  - intros b Hb. simpl in Hb.
    apply and_then_in in Hb as [Hb|Hb]; [apply (Hc (broadcast_view_diff pc) (from_view_diff pc)); auto|].
    apply and_then_in in Hb as [Hb|Hb]; [apply Hn; auto|].
    apply and_then_in in Hb as [Hb|Hb]; [apply (Hv (broadcast_view_diff pv) (from_view_diff pv)); auto|].
    apply (Hx (broadcast_view_diff pn) (from_view_diff pn)); auto.
Qed.

(* ------------------------------------------------------------------ completeness *)

(** [cov B v]: a peer that received the broadcasts [B] knows every proposed header and every
    vote signature of view [v]. *)
Definition cov (B : list bcast) (v : view) : Prop :=
  incl (v_phs v) (peer_headers B) /\ incl (view_all_votes v) (peer_votes B).

Definition covered_update (B : list bcast) (u : update) : Prop :=
  incl (update_headers u) (peer_headers B) /\ incl (update_votes u) (peer_votes B).

Lemma cov_mono B B' v : incl B B' -> cov B v -> cov B' v.
Proof.
  intros H [H1 H2]. split; eapply incl_tran; eauto using peer_headers_incl, peer_votes_incl.
Qed.

Lemma cov_zero B : cov B zero_view.
Proof. split; intros x []. Qed.

(** broadcastPrevotes / broadcastPrecommits on a consistent vote map succeed and carry exactly
    the view's votes of that kind. *)
Lemma votes_complete k v : kh_consistent (pm_of k v) = true ->
  snd (broadcast_votes k v) = true /\
  peer_headers (fst (broadcast_votes k v)) = [] /\
  peer_votes (fst (broadcast_votes k v)) = view_votes k v.
Proof.
  intros W. unfold broadcast_votes, view_votes.
  destruct (pm_of k v) as [|e0 pm'] eqn:E; [simpl; auto|]. rewrite <- E in *.
  destruct (as_sparse_some _ W) as [kh [body A]]. rewrite A. simpl.
  rewrite app_nil_r. rewrite (as_sparse_votes k _ _ _ _ _ A). auto.
Qed.

Lemma phs_complete v : peer_headers (fst (broadcast_phs v)) = v_phs v /\ peer_votes (fst (broadcast_phs v)) = [].
Proof.
  unfold broadcast_phs, peer_headers, peer_votes. simpl. induction (v_phs v) as [|h l [IH1 IH2]]; simpl; auto.
  rewrite IH1, IH2. auto.
Qed.

Lemma wf_view_parts v : wf_view v = true ->
  kh_consistent (pm_of Prevote v) = true /\ kh_consistent (pm_of Precommit v) = true.
Proof. unfold wf_view. intros H. apply andb_true_iff in H. exact H. Qed.

(** broadcastAll of a well-formed view succeeds and carries exactly the view. *)
Lemma all_complete v : wf_view v = true ->
  snd (broadcast_all v) = true /\
  peer_headers (fst (broadcast_all v)) = v_phs v /\
  peer_votes (fst (broadcast_all v)) = view_all_votes v.
Proof.
  intros W. destruct (wf_view_parts _ W) as [W1 W2].
  destruct (votes_complete Prevote v W1) as [A1 [A2 A3]].
  destruct (votes_complete Precommit v W2) as [B1 [B2 B3]].
  destruct (phs_complete v) as [P1 P2].
  unfold broadcast_all.
  rewrite (and_then_ok (broadcast_votes Prevote v)) by exact A1.
  rewrite and_then_ok by reflexivity. cbn [fst snd].
  rewrite !peer_headers_app, !peer_votes_app, A2, A3, B2, B3, P1, P2. cbn [app].
  rewrite app_nil_r. auto.
Qed.

Lemma view_votes_same_hr k prev cur :
  v_height cur = v_height prev -> v_round cur = v_round prev ->
  incl (pm_of k cur) (pm_of k prev) -> incl (view_votes k cur) (view_votes k prev).
Proof.
  intros Hh Hr Hi x Hx. unfold view_votes in *. rewrite Hh, Hr in Hx.
  apply in_flat_map in Hx as [e [He Hx]]. apply in_flat_map. exists e; split; auto.
Qed.

(** broadcastUpdatesOnly: for the same height and round, what is not re-sent is content the
    previous view already had. *)
Lemma updates_only_complete B prev cur :
  wf_view cur = true -> cov B prev ->
  v_height cur = v_height prev -> v_round cur = v_round prev ->
  snd (broadcast_updates_only prev cur) = true /\ cov (B ++ fst (broadcast_updates_only prev cur)) cur.
Proof.
  intros W [C1 C2] Hh Hr. destruct (wf_view_parts _ W) as [W1 W2].
  destruct (votes_complete Prevote cur W1) as [A1 [A2 A3]].
  destruct (votes_complete Precommit cur W2) as [B1 [B2 B3]].
  destruct (phs_complete cur) as [P1 P2].
  unfold broadcast_updates_only.
  set (r1 := if headers_eqb (v_phs cur) (v_phs prev) then nothing else broadcast_phs cur).
  set (r2 := if same_proofs (v_prevotes prev) (v_prevotes cur) then nothing else broadcast_votes Prevote cur).
  set (r3 := if same_proofs (v_precommits prev) (v_precommits cur) then nothing else broadcast_votes Precommit cur).
  assert (S1 : snd r1 = true) by (unfold r1; destruct (headers_eqb _ _); reflexivity).
  assert (S2 : snd r2 = true) by (unfold r2; destruct (same_proofs (v_prevotes prev) (v_prevotes cur)); [reflexivity|exact A1]).
  assert (S3 : snd r3 = true) by (unfold r3; destruct (same_proofs (v_precommits prev) (v_precommits cur)); [reflexivity|exact B1]).
  rewrite (and_then_ok r2 r3 S2). rewrite and_then_ok by exact S1. simpl. split; [exact S3|].
  unfold cov. rewrite !peer_headers_app, !peer_votes_app. split.
  - (* headers *)
    unfold r1. destruct (headers_eqb (v_phs cur) (v_phs prev)) eqn:E.
    + apply headers_eqb_eq in E. rewrite E. apply incl_appl; auto.
    + rewrite P1. apply incl_appr, incl_appl, incl_refl.
  - unfold view_all_votes. apply incl_app.
    + unfold r2. destruct (same_proofs (v_prevotes prev) (v_prevotes cur)) eqn:E.
      * apply same_proofs_incl in E. apply incl_appl.
        eapply incl_tran; [apply (view_votes_same_hr Prevote prev cur); auto|].
        eapply incl_tran; [apply (view_votes_all Prevote)|auto].
      * rewrite A3. apply incl_appr, incl_appr, incl_appl, incl_refl.
    + unfold r3. destruct (same_proofs (v_precommits prev) (v_precommits cur)) eqn:E.
      * apply same_proofs_incl in E. apply incl_appl.
        eapply incl_tran; [apply (view_votes_same_hr Precommit prev cur); auto|].
        eapply incl_tran; [apply (view_votes_all Precommit)|auto].
      * rewrite B3. apply incl_appr, incl_appr, incl_appr, incl_refl.
Qed.

(** broadcastViewDiff *)
Lemma view_diff_complete B prev cur :
  wf_view cur = true -> cov B prev ->
  snd (broadcast_view_diff prev cur) = true /\ cov (B ++ fst (broadcast_view_diff prev cur)) cur.
Proof.
  intros W C. unfold broadcast_view_diff.
  destruct (N.eqb_spec (v_height cur) (v_height prev)) as [Hh|Hh]; cbn [andb].
  - destruct (N.eqb_spec (v_round cur) (v_round prev)) as [Hr|Hr].
    + apply updates_only_complete; auto.
    + destruct (all_complete cur W) as [A1 [A2 A3]]. split; auto.
      unfold cov. rewrite peer_headers_app, peer_votes_app, A2, A3. split; apply incl_appr, incl_refl.
  - destruct (all_complete cur W) as [A1 [A2 A3]]. split; auto.
    unfold cov. rewrite peer_headers_app, peer_votes_app, A2, A3. split; apply incl_appr, incl_refl.
Qed.

(** One slot of the kernel loop: [opt_sends (broadcast_view_diff prev) o], new previous view
    [or_prev o prev]. *)
Lemma slot_complete B prev o :
  opt_bool wf_view o = true -> cov B prev ->
  let r := opt_sends (broadcast_view_diff prev) o in
  snd r = true /\ cov (B ++ fst r) (or_prev o prev) /\
  incl (opt_list v_phs o) (peer_headers (B ++ fst r)) /\
  incl (opt_list view_all_votes o) (peer_votes (B ++ fst r)).
Proof.
  intros W C. destruct o as [cur|]; cbv zeta; cbn [opt_sends or_prev opt_list opt_bool] in *.
  - destruct (view_diff_complete B prev cur W C) as [S C1]. repeat split; auto; apply C1.
  - cbn [nothing fst snd]. rewrite app_nil_r. repeat split; auto; try apply C; intros x [].
Qed.

Lemma first_slot_complete o :
  opt_bool wf_view o = true ->
  let r := opt_sends broadcast_all o in
  snd r = true /\ cov (fst r) (or_prev o zero_view) /\
  incl (opt_list v_phs o) (peer_headers (fst r)) /\
  incl (opt_list view_all_votes o) (peer_votes (fst r)).
Proof.
  intros W. destruct o as [cur|]; cbv zeta; cbn [opt_sends or_prev opt_list opt_bool] in *.
  - destruct (all_complete cur W) as [A1 [A2 A3]]. unfold cov. rewrite A2, A3.
    repeat split; auto using incl_refl.
  - cbn [nothing fst snd]. repeat split; auto; intros x [].
Qed.

Lemma nil_slot_complete o :
  opt_bool wf_view o = true ->
  let r := opt_sends (broadcast_votes Precommit) o in
  snd r = true /\ incl (opt_list (view_votes Precommit) o) (peer_votes (fst r)).
Proof.
  intros W. destruct o as [nv|]; cbv zeta; cbn [opt_sends or_prev opt_list opt_bool] in *.
  - destruct (wf_view_parts _ W) as [_ W2].
    destruct (votes_complete Precommit nv W2) as [B1 [B2 B3]]. rewrite B3. split; auto using incl_refl.
  - cbn [nothing fst snd]. split; auto; intros x [].
Qed.

(** Kernel invariant: running, and everything in the three remembered views has been broadcast. *)
Definition good (s : gstate) (B : list bcast) : Prop :=
  match s with
  | GRun pc pv pn => cov B pc /\ cov B pv /\ cov B pn
  | _ => False
  end.

Lemma wf_update_parts u : wf_update u = true ->
  opt_bool wf_view (u_committing u) = true /\ opt_bool wf_view (u_voting u) = true /\
  opt_bool wf_view (u_next u) = true /\ opt_bool wf_view (u_nil u) = true.
Proof.
  unfold wf_update. intros H.
  apply andb_true_iff in H as [H H4]. apply andb_true_iff in H as [H H3]. apply andb_true_iff in H as [H1 H2].
  auto.
Qed.

Ltac incl_solve :=
  repeat first [ apply incl_refl | assumption | apply incl_appl; incl_solve | apply incl_appr ].

(** The first update (with a voting view) of a well-formed sequence. *)
Lemma first_step_complete u :
  u_voting u <> None -> wf_update u = true ->
  good (fst (step GInit u)) (snd (step GInit u)) /\ covered_update (snd (step GInit u)) u.
Proof.
  intros Hv W. destruct (wf_update_parts _ W) as [Wc [Wv [Wn Wnil]]].
  unfold step. destruct (u_voting u) as [v|] eqn:EV; [|congruence]. simpl in Wv.
  destruct (all_complete v Wv) as [V1 [V2 V3]].
  destruct (first_slot_complete _ Wc) as [C1 [C2 [C3 C4]]].
  destruct (first_slot_complete _ Wn) as [N1 [N2 [N3 N4]]].
  destruct (nil_slot_complete _ Wnil) as [L1 L2].
  set (rc := opt_sends broadcast_all (u_committing u)) in *.
  set (rn := opt_sends broadcast_all (u_next u)) in *.
  set (rl := opt_sends (broadcast_votes Precommit) (u_nil u)) in *.
  rewrite (and_then_ok rn rl N1). rewrite (and_then_ok rc) by exact C1.
  rewrite and_then_ok by exact V1. cbn [fst snd]. rewrite L1.
  unfold good, covered_update, update_headers, update_votes, cov in *. rewrite EV. cbn [opt_list].
  rewrite !peer_headers_app, !peer_votes_app, V2, V3.
  destruct C2 as [C2a C2b], N2 as [N2a N2b].
  split; [split; [split|split; [split|split]]|split].
  - apply incl_appr, incl_appl; assumption.
  - apply incl_appr, incl_appl; assumption.
  - apply incl_appl, incl_refl.
  - apply incl_appl, incl_refl.
  - apply incl_appr, incl_appr, incl_appl; assumption.
  - apply incl_appr, incl_appr, incl_appl; assumption.
  - apply incl_app; [apply incl_appr, incl_appl; assumption|].
    apply incl_app; [apply incl_appl, incl_refl|apply incl_appr, incl_appr, incl_appl; assumption].
  - apply incl_app; [apply incl_appr, incl_appl; assumption|].
    apply incl_app; [apply incl_appr, incl_appr, incl_appr; assumption|].
    apply incl_app; [apply incl_appl, incl_refl|apply incl_appr, incl_appr, incl_appl; assumption].
Qed.

(** Any later update of a well-formed sequence. *)
Lemma run_step_complete s B u :
  good s B -> wf_update u = true ->
  good (fst (step s u)) (B ++ snd (step s u)) /\ covered_update (B ++ snd (step s u)) u.
Proof.
  intros G W. destruct (wf_update_parts _ W) as [Wc [Wv [Wn Wnil]]].
  destruct s as [|pc pv pn| |]; try contradiction. destruct G as [Gc [Gv Gn]].
  unfold step.
  set (rc := opt_sends (broadcast_view_diff pc) (u_committing u)).
  set (rl := opt_sends (broadcast_votes Precommit) (u_nil u)).
  set (rv := opt_sends (broadcast_view_diff pv) (u_voting u)).
  set (rn := opt_sends (broadcast_view_diff pn) (u_next u)).
  destruct (slot_complete B pc _ Wc Gc) as [C1 [C2 [C3 C4]]]. fold rc in C1, C2, C3, C4.
  destruct (nil_slot_complete _ Wnil) as [L1 L2]. fold rl in L1, L2.
  assert (Gv' : cov (B ++ fst rc ++ fst rl) pv)
    by (eapply cov_mono; [|exact Gv]; apply incl_appl, incl_refl).
  destruct (slot_complete _ pv _ Wv Gv') as [V1 [V2 [V3 V4]]]. fold rv in V1, V2, V3, V4.
  assert (Gn' : cov ((B ++ fst rc ++ fst rl) ++ fst rv) pn)
    by (eapply cov_mono; [|exact Gn]; apply incl_appl, incl_appl, incl_refl).
  destruct (slot_complete _ pn _ Wn Gn') as [N1 [N2 [N3 N4]]]. fold rn in N1, N2, N3, N4.
  rewrite (and_then_ok rv rn V1). rewrite (and_then_ok rl) by exact L1.
  rewrite and_then_ok by exact C1. cbn [fst snd]. rewrite N1.
  set (o := fst rc ++ fst rl ++ fst rv ++ fst rn).
  assert (E : ((B ++ fst rc ++ fst rl) ++ fst rv) ++ fst rn = B ++ o)
    by (unfold o; rewrite <- !app_assoc; reflexivity).
  rewrite E in *.
  assert (I1 : incl (B ++ fst rc) (B ++ o)).
  { unfold o. apply incl_app; [apply incl_appl, incl_refl|apply incl_appr, incl_appl, incl_refl]. }
  assert (I2 : incl ((B ++ fst rc ++ fst rl) ++ fst rv) (B ++ o)).
  { unfold o. rewrite <- !app_assoc. repeat apply incl_app.
    - apply incl_appl, incl_refl.
    - apply incl_appr, incl_appl, incl_refl.
    - apply incl_appr, incl_appr, incl_appl, incl_refl.
    - apply incl_appr, incl_appr, incl_appr, incl_appl, incl_refl. }
  assert (I3 : incl (fst rl) (B ++ o)).
  { unfold o. apply incl_appr, incl_appr, incl_appl, incl_refl. }
  split.
  - unfold good. split; [|split].
    + eapply cov_mono; [exact I1|exact C2].
    + eapply cov_mono; [exact I2|exact V2].
    + exact N2.
  - unfold covered_update, update_headers, update_votes. split.
    + apply incl_app; [|apply incl_app].
      * eapply incl_tran; [exact C3|apply peer_headers_incl, I1].
      * eapply incl_tran; [exact V3|apply peer_headers_incl, I2].
      * exact N3.
    + apply incl_app; [|apply incl_app; [|apply incl_app]].
      * eapply incl_tran; [exact C4|apply peer_votes_incl, I1].
      * eapply incl_tran; [exact L2|apply peer_votes_incl, I3].
      * eapply incl_tran; [exact V4|apply peer_votes_incl, I2].
      * exact N4.
Qed.

(* ------------------------------------------------------------------ sequences *)

Lemma run_app s a b :
  run s (a ++ b) = (fst (run (fst (run s a)) b), snd (run s a) ++ snd (run (fst (run s a)) b)).
Proof.
  revert s; induction a as [|u a IH]; intros s; simpl.
  - destruct (run s b); reflexivity.
  - destruct (step s u) as [s1 o]. rewrite IH.
    destruct (run s1 a) as [s2 os]. simpl. destruct (run s2 b); reflexivity.
Qed.

Lemma run_length s us : length (snd (run s us)) = length us.
Proof.
  revert s; induction us as [|u us IH]; intros s; simpl; auto.
  destruct (step s u) as [s1 o]. specialize (IH s1). destruct (run s1 us). simpl in *. auto.
Qed.

Lemma run_one s u : run s [u] = (fst (step s u), [snd (step s u)]).
Proof. simpl. destruct (step s u); reflexivity. Qed.

Lemma wf_seq_app a b : a <> [] -> wf_seq (a ++ b) = true -> wf_seq a = true.
Proof.
  unfold wf_seq. destruct a as [|u a]; [congruence|]. intros _ H. simpl in *.
  apply andb_true_iff in H as [H1 H2]. rewrite H1. simpl.
  apply andb_true_iff in H2 as [H2 H3]. rewrite H2. simpl.
  rewrite forallb_app in H3. apply andb_true_iff in H3 as [H3 _]. exact H3.
Qed.

Lemma wf_seq_snoc us u : wf_seq (us ++ [u]) = true ->
  wf_update u = true /\ (us = [] -> u_voting u <> None) /\ (us <> [] -> wf_seq us = true).
Proof.
  intros H. split; [|split].
  - unfold wf_seq in H. apply andb_true_iff in H as [_ H]. rewrite forallb_app in H.
    apply andb_true_iff in H as [_ H]. simpl in H. rewrite andb_true_r in H. exact H.
  - intros ->. unfold wf_seq in H. simpl in H. destruct (u_voting u); [congruence|discriminate].
  - intros N. eapply wf_seq_app; eauto.
Qed.

(** After any non-empty well-formed sequence the kernel is running, everything in its
    remembered views has been broadcast, and so has everything in the last update. *)
Lemma good_after us : forall u, wf_seq (us ++ [u]) = true ->
  good (fst (run_all (us ++ [u]))) (concat (snd (run_all (us ++ [u])))) /\
  covered_update (concat (snd (run_all (us ++ [u])))) u.
Proof.
  induction us as [|u' us' IH] using rev_ind; intros u W.
  - destruct (wf_seq_snoc _ _ W) as [Wu [Hv _]]. unfold run_all. simpl app. rewrite run_one. simpl.
    rewrite app_nil_r. apply first_step_complete; auto.
  - destruct (wf_seq_snoc _ _ W) as [Wu [_ Wp]].
    assert (NE : us' ++ [u'] <> []) by (destruct us'; discriminate).
    destruct (IH u' (Wp NE)) as [G _].
    unfold run_all in *. rewrite run_app, run_one. cbn [fst snd].
    rewrite concat_app. simpl concat. rewrite app_nil_r.
    apply run_step_complete; auto.
Qed.

(** COMPLETE: for every well-formed sequence and every update [u] in it, everything [u] contains
    has been broadcast at or before the step that processed [u]
    (the outputs of the first [length pre + 1] steps). *)
Theorem complete pre u post : wf_seq (pre ++ u :: post) = true ->
  covered_update (concat (firstn (S (length pre)) (snd (run_all (pre ++ u :: post))))) u.
Proof.
  intros W. replace (pre ++ u :: post) with ((pre ++ [u]) ++ post) in * by (rewrite <- app_assoc; reflexivity).
  assert (NE : pre ++ [u] <> []) by (destruct pre; discriminate).
  apply wf_seq_app in W; auto.
  unfold run_all. rewrite run_app. cbn [snd].
  replace (S (length pre)) with (length (snd (run GInit (pre ++ [u]))) + 0)%nat
    by (rewrite run_length, app_length; simpl; lia).
  rewrite firstn_app_2. simpl firstn. rewrite app_nil_r.
  apply (good_after pre u W).
Qed.

(** The kernel never stops or panics on a well-formed sequence. *)
Theorem never_stops us : us <> [] -> wf_seq us = true ->
  exists pc pv pn, fst (run_all us) = GRun pc pv pn.
Proof.
  intros NE W. destruct (exists_last NE) as [us' [u ->]].
  destruct (good_after us' u W) as [G _].
  destruct (fst (run_all (us' ++ [u]))); try contradiction. eauto.
Qed.

(** SOUND: for EVERY sequence (no hypothesis, any starting state), whatever is sent while
    processing the update at position [length pre] is content of that update. *)
Theorem sound s pre u post b :
  In b (nth (length pre) (snd (run s (pre ++ u :: post))) []) ->
  incl (bcast_headers b) (update_headers u) /\ incl (bcast_votes b) (update_votes u).
Proof.
  rewrite run_app. cbn [snd]. rewrite app_nth2 by (rewrite run_length; lia).
  rewrite run_length, PeanoNat.Nat.sub_diag. simpl.
  destruct (step (fst (run s pre)) u) as [s1 o] eqn:E.
  destruct (run s1 post). simpl. intros Hb.
  apply (step_sound (fst (run s pre)) u). rewrite E. exact Hb.
Qed.

Lemma sound_all us : forall s b, In b (concat (snd (run s us))) ->
  exists u, In u us /\ incl (bcast_headers b) (update_headers u) /\ incl (bcast_votes b) (update_votes u).
Proof.
  induction us as [|u us IH]; intros s b Hb; simpl in Hb; [contradiction|].
  destruct (step s u) as [s1 o] eqn:E. specialize (IH s1).
  destruct (run s1 us) as [s2 os]. simpl in *.
  apply in_app_or in Hb as [Hb|Hb].
  - exists u. split; auto. apply (step_sound s u). rewrite E. exact Hb.
  - destruct (IH b Hb) as [u' [H1 H2]]. exists u'. split; auto.
Qed.

Lemma concat_firstn_incl {A} n (l : list (list A)) : incl (concat (firstn n l)) (concat l).
Proof.
  rewrite <- (firstn_skipn n l) at 2. rewrite concat_app. apply incl_appl, incl_refl.
Qed.

(** PEER CAN RECONSTRUCT: a peer that receives every broadcast of a well-formed sequence and
    merges them knows exactly the union of the views: every proposed header and every vote
    signature (with kind, height, round, key hash, block hash, signer) of every update,
    and nothing else. *)
Theorem peer_can_reconstruct us : wf_seq us = true ->
  let B := concat (snd (run_all us)) in
  (forall x, In x (peer_headers B) <-> In x (flat_map update_headers us)) /\
  (forall x, In x (peer_votes B) <-> In x (flat_map update_votes us)).
Proof.
  intros W B. split; intros x; split; intros H.
  - apply in_flat_map in H as [b [Hb Hx]]. destruct (sound_all us GInit b Hb) as [u [Hu [H1 _]]].
    apply in_flat_map. exists u. split; auto.
  - apply in_flat_map in H as [u [Hu Hx]]. apply in_split in Hu as [pre [post ->]].
    destruct (complete pre u post W) as [C _].
    eapply peer_headers_incl; [apply concat_firstn_incl|]. apply C, Hx.
  - apply in_flat_map in H as [b [Hb Hx]]. destruct (sound_all us GInit b Hb) as [u [Hu [_ H2]]].
    apply in_flat_map. exists u. split; auto.
  - apply in_flat_map in H as [u [Hu Hx]]. apply in_split in Hu as [pre [post ->]].
    destruct (complete pre u post W) as [_ C].
    eapply peer_votes_incl; [apply concat_firstn_incl|]. apply C, Hx.
Qed.

(** Per view: the proposals and, for every kind and block hash, the signer set (with the
    signatures) of each Committing/Voting/NextRound view are contained in what the peer holds;
    likewise the precommits of each nil-voted round. *)
Definition signers (l : list vote) (k : kind) (h r t : N) : list (N * N) :=
  map (fun x => (vs x, vsig x))
      (filter (fun x => kind_eqb (vk x) k && N.eqb (vh x) h && N.eqb (vr x) r && N.eqb (vt x) t) l).

Lemma signers_incl a b k h r t : incl a b -> incl (signers a k h r t) (signers b k h r t).
Proof.
  intros H p Hp. unfold signers in *. apply in_map_iff in Hp as [x [<- Hx]].
  apply filter_In in Hx as [Hx1 Hx2]. apply in_map_iff. exists x. split; auto.
  apply filter_In. split; auto.
Qed.

Theorem peer_reconstructs_views us u : wf_seq us = true -> In u us ->
  let B := concat (snd (run_all us)) in
  (forall v, In (Some v) [u_committing u; u_voting u; u_next u] ->
     incl (v_phs v) (peer_headers B) /\
     forall k t, incl (signers (view_all_votes v) k (v_height v) (v_round v) t)
                      (signers (peer_votes B) k (v_height v) (v_round v) t)) /\
  (forall v, u_nil u = Some v ->
     forall t, incl (signers (view_votes Precommit v) Precommit (v_height v) (v_round v) t)
                    (signers (peer_votes B) Precommit (v_height v) (v_round v) t)).
Proof.
  intros W Hu B. destruct (peer_can_reconstruct us W) as [PH PV]. fold B in PH, PV.
  assert (UH : incl (update_headers u) (peer_headers B)).
  { intros x Hx. apply PH. apply in_flat_map. eauto. }
  assert (UV : incl (update_votes u) (peer_votes B)).
  { intros x Hx. apply PV. apply in_flat_map. eauto. }
  unfold update_headers, update_votes in *. split.
  - intros v Hv. simpl in Hv. destruct Hv as [E|[E|[E|[]]]]; rewrite E in UH, UV; cbn [opt_list] in *; split.
    + eapply incl_tran; [|exact UH]. apply incl_appl, incl_refl.
    + intros k t. apply signers_incl. eapply incl_tran; [|exact UV]. apply incl_appl, incl_refl.
    + eapply incl_tran; [|exact UH]. apply incl_appr, incl_appl, incl_refl.
    + intros k t. apply signers_incl. eapply incl_tran; [|exact UV]. apply incl_appr, incl_appr, incl_appl, incl_refl.
    + eapply incl_tran; [|exact UH]. apply incl_appr, incl_appr, incl_refl.
    + intros k t. apply signers_incl. eapply incl_tran; [|exact UV]. apply incl_appr, incl_appr, incl_appr, incl_refl.
  - intros v E t. rewrite E in UV. cbn [opt_list] in *. apply signers_incl.
    eapply incl_tran; [|exact UV]. apply incl_appr, incl_appl, incl_refl.
Qed.

(* ------------------------------------------------------------------ guards are necessary; examples *)

Lemma first_update_without_voting_panics u : u_voting u = None -> fst (step GInit u) = GPanicked.
Proof. intros H. unfold step. rewrite H. reflexivity. Qed.

Definition ex_mixed : list update :=
  [mkUpdate None (Some (mkView 1 0 [7] [(1, mkProof 0 [(0, 11)]); (2, mkProof 5 [(1, 12)])] [])) None None].

Lemma mixed_key_hash_stops : exists us, forallb wf_update us = false /\ fst (run_all us) = GStopped.
Proof. exists ex_mixed. split; vm_compute; reflexivity. Qed.

(** Non-vacuity: a well-formed sequence with an equivocating validator (update 2: validator 0,
    who prevoted block 1, also prevotes block 2 - the signer count is unchanged), a replaced
    proposed header at equal count (update 3) and a nil-voted round (update 4). The second
    vote and the replaced header are re-broadcast. *)
Definition ex_seq : list update :=
  [ mkUpdate None (Some (mkView 1 0 [1] [(1, mkProof 0 [(0, 100)])] [])) None None;
    mkUpdate None (Some (mkView 1 0 [1] [(1, mkProof 0 [(0, 100)]); (2, mkProof 0 [(0, 101)])] [])) None None;
    mkUpdate None (Some (mkView 1 0 [2] [(1, mkProof 0 [(0, 100)]); (2, mkProof 0 [(0, 101)])] [])) None None;
    mkUpdate None (Some (mkView 1 1 [] [] [])) None
             (Some (mkView 1 0 [2] [] [(0, mkProof 0 [(0, 7); (1, 8)])])) ].

Example ex_seq_wf : wf_seq ex_seq = true.
Proof. vm_compute. reflexivity. Qed.

Example ex_seq_outputs : snd (run_all ex_seq) =
  [ [BHeader 1; BVotes Prevote 1 0 0 [(1, [(0, 100)])]];
    [BVotes Prevote 1 0 0 [(1, [(0, 100)]); (2, [(0, 101)])]];
    [BHeader 2];
    [BVotes Precommit 1 0 0 [(0, [(0, 7); (1, 8)])]] ].
Proof. vm_compute. reflexivity. Qed.
