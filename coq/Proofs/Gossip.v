(** Proofs about the ChattyStrategy model (Model/Gossip.v): soundness for all update
    sequences, completeness for all well-formed sequences, and the peer's view. *)
From Coq Require Import List NArith Bool Lia Permutation.
From GV Require Import Model.GossipData Model.Gossip.
Import ListNotations.
Local Open Scope N_scope.

(* ------------------------------------------------------------------ basic facts *)

Lemma headers_eqb_eq a b : headers_eqb a b = true -> a = b.
Proof.
  revert b; induction a as [|x a IH]; intros [|y b] H; simpl in H; try discriminate; auto.
  apply andb_true_iff in H as [H1 H2]. apply N.eqb_eq in H1. f_equal; auto.
Qed.

Lemma sparse_eqb_eq a b : sparse_eqb a b = true -> a = b.
Proof.
  revert b; induction a as [|[i s] a IH]; intros [|[j t] b] H; simpl in H; try discriminate; auto.
  apply andb_true_iff in H as [H12 H3]. apply andb_true_iff in H12 as [H1 H2].
  apply N.eqb_eq in H1. apply N.eqb_eq in H2. subst. f_equal; auto.
Qed.

Lemma proof_eqb_eq p c : proof_eqb p c = true -> p = c.
Proof.
  destruct p as [k1 s1], c as [k2 s2]. unfold proof_eqb; simpl. intros H.
  apply andb_true_iff in H as [H1 H2]. apply N.eqb_eq in H1. apply sparse_eqb_eq in H2. subst; auto.
Qed.

Lemma pm_lookup_in h pm p : pm_lookup h pm = Some p -> In (h, p) pm.
Proof.
  induction pm as [|[h' p'] pm IH]; simpl; intros H; [discriminate|].
  destruct (N.eqb_spec h' h) as [->|_].
  - inversion H; subst; auto.
  - right; auto.
Qed.

(** sameProofs = true: every entry of [cur] is an entry of [prev]. *)
Lemma same_proofs_incl prev cur : same_proofs prev cur = true -> incl cur prev.
Proof.
  unfold same_proofs. intros H. apply andb_true_iff in H as [_ H].
  rewrite forallb_forall in H. intros [h c] Hin. specialize (H _ Hin). simpl in H.
  destruct (pm_lookup h prev) as [p|] eqn:E; [|discriminate].
  apply proof_eqb_eq in H. subst. apply pm_lookup_in; auto.
Qed.

Lemma and_then_ok a b : snd a = true -> and_then a b = (fst a ++ fst b, snd b).
Proof. unfold and_then. intros ->. reflexivity. Qed.

Lemma and_then_in a b x : In x (fst (and_then a b)) -> In x (fst a) \/ In x (fst b).
Proof.
  unfold and_then. destruct (snd a); simpl; intros H; auto. apply in_app_or in H; auto.
Qed.

Lemma peer_headers_app a b : peer_headers (a ++ b) = peer_headers a ++ peer_headers b.
Proof. apply flat_map_app. Qed.

Lemma peer_votes_app a b : peer_votes (a ++ b) = peer_votes a ++ peer_votes b.
Proof. apply flat_map_app. Qed.

Lemma peer_headers_incl a b : incl a b -> incl (peer_headers a) (peer_headers b).
Proof.
  intros H x Hx. apply in_flat_map in Hx as [y [Hy Hx]]. apply in_flat_map. exists y; split; auto.
Qed.

Lemma peer_votes_incl a b : incl a b -> incl (peer_votes a) (peer_votes b).
Proof.
  intros H x Hx. apply in_flat_map in Hx as [y [Hy Hx]]. apply in_flat_map. exists y; split; auto.
Qed.

(* ------------------------------------------------------------------ AsSparse *)

(** A successful AsSparse carries exactly the view's votes of that kind. *)
Lemma as_sparse_votes k h r pm kh body :
  as_sparse pm = Some (kh, body) ->
  flat_map (fun e => sparse_votes k h r kh (fst e) (snd e)) body =
  flat_map (fun e => sparse_votes k h r (p_keyhash (snd e)) (fst e) (p_sigs (snd e))) pm.
Proof.
  unfold as_sparse. destruct pm as [|e0 pm']; [intros H; inversion H; reflexivity|].
  set (pm := e0 :: pm').
  destruct (forallb _ pm) eqn:F; [|discriminate]. intros H; inversion H; subst kh body; clear H.
  rewrite forallb_forall in F.
  assert (G : forall l, (forall e, In e l -> In e pm) ->
    flat_map (fun e => sparse_votes k h r (p_keyhash (snd e0)) (fst e) (snd e))
             (map (fun e => (fst e, p_sigs (snd e))) l) =
    flat_map (fun e => sparse_votes k h r (p_keyhash (snd e)) (fst e) (p_sigs (snd e))) l).
  { induction l as [|e l IH]; intros Hl; simpl; [reflexivity|].
    rewrite IH by (intros; apply Hl; right; auto).
    f_equal. specialize (F e (Hl e (or_introl eq_refl))). apply N.eqb_eq in F. rewrite F. reflexivity. }
  exact (G pm (fun e H => H)).
Qed.

Lemma as_sparse_some pm : kh_consistent pm = true -> exists kh body, as_sparse pm = Some (kh, body).
Proof.
  unfold kh_consistent, as_sparse. destruct pm as [|e0 pm']; [eauto|].
  intros ->. eauto.
Qed.

Lemma as_sparse_none pm : kh_consistent pm = false -> as_sparse pm = None.
Proof.
  unfold kh_consistent, as_sparse. destruct pm as [|e0 pm']; [discriminate|].
  intros ->. reflexivity.
Qed.

(** The "arbitrary entry" of the Go map iteration is irrelevant: success, the public-key hash
    and the set of entries do not depend on the order of the map. *)
Lemma kh_consistent_all pm :
  kh_consistent pm = true <-> (forall e1 e2, In e1 pm -> In e2 pm -> p_keyhash (snd e1) = p_keyhash (snd e2)).
Proof.
  unfold kh_consistent. destruct pm as [|e0 pm']; [split; auto; intros _ ? ? []|].
  rewrite forallb_forall. split.
  - intros H e1 e2 H1 H2. apply H in H1, H2. apply N.eqb_eq in H1, H2. congruence.
  - intros H e He. apply N.eqb_eq. apply H; auto. left; auto.
Qed.

Lemma kh_consistent_perm pm pm' : Permutation pm pm' -> kh_consistent pm = kh_consistent pm'.
Proof.
  intros P. destruct (kh_consistent pm) eqn:A, (kh_consistent pm') eqn:B; auto.
  - rewrite kh_consistent_all in A.
    assert (kh_consistent pm' = true); [|congruence].
    apply kh_consistent_all. intros e1 e2 H1 H2. apply A; apply (Permutation_in _ (Permutation_sym P)); auto.
  - rewrite kh_consistent_all in B.
    assert (kh_consistent pm = true); [|congruence].
    apply kh_consistent_all. intros e1 e2 H1 H2. apply B; apply (Permutation_in _ P); auto.
Qed.

Lemma as_sparse_perm pm pm' : Permutation pm pm' ->
  match as_sparse pm, as_sparse pm' with
  | Some (kh, body), Some (kh', body') => (pm <> [] -> kh = kh') /\ Permutation body body'
  | None, None => True
  | _, _ => False
  end.
Proof.
  intros P. pose proof (kh_consistent_perm _ _ P) as E.
  destruct (kh_consistent pm) eqn:A.
  - symmetry in E. pose proof A as A'. rewrite kh_consistent_all in A'.
    unfold as_sparse, kh_consistent in *.
    destruct pm as [|e0 l]; destruct pm' as [|e0' l'].
    + split; auto.
    + apply Permutation_nil in P; discriminate.
    + apply Permutation_sym, Permutation_nil in P; discriminate.
    + rewrite A, E. split.
      * intros _. apply A'; [left; auto|]. apply (Permutation_in _ (Permutation_sym P)). left; auto.
      * apply Permutation_map; auto.
  - symmetry in E. rewrite (as_sparse_none _ A), (as_sparse_none _ E). exact I.
Qed.

(* ------------------------------------------------------------------ soundness *)

(** Every value in [r] is made of the given headers and votes. *)
Definition from (hs : list header) (vs : list vote) (r : sends) : Prop :=
  forall b, In b (fst r) -> incl (bcast_headers b) hs /\ incl (bcast_votes b) vs.

Lemma from_nothing hs vs : from hs vs nothing.
Proof. intros b []. Qed.

Lemma from_and_then hs vs a b : from hs vs a -> from hs vs b -> from hs vs (and_then a b).
Proof. intros Ha Hb x Hx. apply and_then_in in Hx as [Hx|Hx]; auto. Qed.

Lemma from_weaken hs vs hs' vs' r : incl hs hs' -> incl vs vs' -> from hs vs r -> from hs' vs' r.
Proof. intros H1 H2 H b Hb. destruct (H b Hb). split; eapply incl_tran; eauto. Qed.

Lemma from_phs v : from (v_phs v) [] (broadcast_phs v).
Proof.
  intros b Hb. simpl in Hb. apply in_map_iff in Hb as [h [<- Hh]]. simpl. split.
  - intros x [<-|[]]; auto.
  - intros x [].
Qed.

Lemma from_votes k v : from [] (view_votes k v) (broadcast_votes k v).
Proof.
  unfold broadcast_votes. destruct (pm_of k v) as [|e0 pm'] eqn:E; [apply from_nothing|].
  rewrite <- E. destruct (as_sparse (pm_of k v)) as [[kh body]|] eqn:A; [|intros b []].
  intros b [<-|[]]. simpl. split; [intros x []|].
  unfold view_votes. rewrite (as_sparse_votes k _ _ _ _ _ A). apply incl_refl.
Qed.

Lemma view_votes_all k v : incl (view_votes k v) (view_all_votes v).
Proof. unfold view_all_votes. destruct k; [apply incl_appl|apply incl_appr]; apply incl_refl. Qed.

Lemma from_all v : from (v_phs v) (view_all_votes v) (broadcast_all v).
Proof.
  unfold broadcast_all. repeat apply from_and_then.
  - eapply from_weaken; [| |apply from_phs]; [apply incl_refl|intros x []].
  - eapply from_weaken; [| |apply from_votes]; [intros x []|apply view_votes_all].
  - eapply from_weaken; [| |apply from_votes]; [intros x []|apply view_votes_all].
Qed.

Lemma from_updates_only prev cur : from (v_phs cur) (view_all_votes cur) (broadcast_updates_only prev cur).
Proof.
  unfold broadcast_updates_only. repeat apply from_and_then.
  - destruct (headers_eqb _ _); [apply from_nothing|].
    eapply from_weaken; [| |apply from_phs]; [apply incl_refl|intros x []].
  - destruct (same_proofs _ _); [apply from_nothing|].
    eapply from_weaken; [| |apply from_votes]; [intros x []|apply view_votes_all].
  - destruct (same_proofs _ _); [apply from_nothing|].
    eapply from_weaken; [| |apply from_votes]; [intros x []|apply view_votes_all].
Qed.

Lemma from_view_diff prev cur : from (v_phs cur) (view_all_votes cur) (broadcast_view_diff prev cur).
Proof.
  unfold broadcast_view_diff. destruct (_ && _); [apply from_updates_only|apply from_all].
Qed.

Lemma from_opt (f : view -> sends) (hf : view -> list header) (vf : view -> list vote) o :
  (forall v, from (hf v) (vf v) (f v)) -> from (opt_list hf o) (opt_list vf o) (opt_sends f o).
Proof. intros H. destruct o; simpl; [apply H|apply from_nothing]. Qed.

(** Soundness of one step, for EVERY state and update: each value sent while processing
    update [u] consists of proposed headers and vote signatures contained in [u]. *)
Lemma step_sound s u : from (update_headers u) (update_votes u) (snd (step s u), true).
Proof.
  unfold update_headers, update_votes.
  assert (Hc : forall f, (forall v, from (v_phs v) (view_all_votes v) (f v)) ->
     from (opt_list v_phs (u_committing u) ++ opt_list v_phs (u_voting u) ++ opt_list v_phs (u_next u))
          (opt_list view_all_votes (u_committing u) ++ opt_list (view_votes Precommit) (u_nil u) ++
           opt_list view_all_votes (u_voting u) ++ opt_list view_all_votes (u_next u))
          (opt_sends f (u_committing u))).
  { intros f Hf. eapply from_weaken; [| |apply (from_opt f v_phs view_all_votes), Hf];
      auto using incl_appl, incl_refl. }
  assert (Hn : from (opt_list v_phs (u_committing u) ++ opt_list v_phs (u_voting u) ++ opt_list v_phs (u_next u))
          (opt_list view_all_votes (u_committing u) ++ opt_list (view_votes Precommit) (u_nil u) ++
           opt_list view_all_votes (u_voting u) ++ opt_list view_all_votes (u_next u))
          (opt_sends (broadcast_votes Precommit) (u_nil u))).
  { eapply from_weaken; [| |apply (from_opt (broadcast_votes Precommit) (fun _ => []) (view_votes Precommit)), from_votes].
    - destruct (u_nil u); intros x [].
    - apply incl_appr, incl_appl, incl_refl. }
  assert (Hv : forall f, (forall v, from (v_phs v) (view_all_votes v) (f v)) ->
     from (opt_list v_phs (u_committing u) ++ opt_list v_phs (u_voting u) ++ opt_list v_phs (u_next u))
          (opt_list view_all_votes (u_committing u) ++ opt_list (view_votes Precommit) (u_nil u) ++
           opt_list view_all_votes (u_voting u) ++ opt_list view_all_votes (u_next u))
          (opt_sends f (u_voting u))).
  { intros f Hf. eapply from_weaken; [| |apply (from_opt f v_phs view_all_votes), Hf].
    - apply incl_appr, incl_appl, incl_refl.
    - apply incl_appr, incl_appr, incl_appl, incl_refl. }
  assert (Hx : forall f, (forall v, from (v_phs v) (view_all_votes v) (f v)) ->
     from (opt_list v_phs (u_committing u) ++ opt_list v_phs (u_voting u) ++ opt_list v_phs (u_next u))
          (opt_list view_all_votes (u_committing u) ++ opt_list (view_votes Precommit) (u_nil u) ++
           opt_list view_all_votes (u_voting u) ++ opt_list view_all_votes (u_next u))
          (opt_sends f (u_next u))).
  { intros f Hf. eapply from_weaken; [| |apply (from_opt f v_phs view_all_votes), Hf].
    - apply incl_appr, incl_appr, incl_refl.
    - apply incl_appr, incl_appr, incl_appr, incl_refl. }
  destruct s as [|pc pv pn| |]; simpl; try (intros b []).
  - destruct (u_voting u) as [v|] eqn:EV; simpl; [|intros b []].
    intros b Hb. simpl in Hb.
    apply and_then_in in Hb as [Hb|Hb].
    { apply (Hv broadcast_all from_all); auto. }
    apply and_then_in in Hb as [Hb|Hb]; [apply (Hc broadcast_all from_all); auto|].
    apply and_then_in in Hb as [Hb|Hb]; [apply (Hx broadcast_all from_all); auto|].
    apply Hn; auto.
  - intros b Hb. simpl in Hb.
    apply and_then_in in Hb as [Hb|Hb]; [apply (Hc (broadcast_view_diff pc) (from_view_diff pc)); auto|].
    apply and_then_in in Hb as [Hb|Hb]; [apply Hn; auto|].
    apply and_then_in in Hb as [Hb|Hb]; [apply (Hv (broadcast_view_diff pv) (from_view_diff pv)); auto|].
    apply (Hx (broadcast_view_diff pn) (from_view_diff pn)); auto.
Qed.
