(** C08: "a finalize request is made at most once per height per process lifetime" is FALSE of the
    faithful round state machine model. Two witnesses, by evaluation; to be replayed on the real code.
    w_fin_round: the history w1 (Proofs/SMWitness.v: commit wait without the header, jump ahead, the round
      entrance is answered with the committed header) continued by one more view of round (1,1): the driver
      is asked to finalize (1, 1, block 8) by EACH view update of the round - rlc.VRV still holds the view
      of round (1,0) (advance does not reset it on the committed-header path, handleViewUpdate only
      replaces it by a view of the same height/round), so handleCommitWaitViewUpdate keeps finding
      "no proposed header before, one now".
    w_fin_height: no committed-header response at all. The machine is in commit wait of (1,0) and has asked
      to finalize block 7; a view update carries a jump-ahead to (1,1) (handleJumpAhead does not look at the
      step); the new round is entered with the precommit quorum already in its view: beginRoundLive ->
      beginCommit asks to finalize block 7 again, for (1,1), in the same lifetime. *)
From Coq Require Import List NArith String Bool Lia.
From GV Require Import Base.Ints Gen.Math Gen.StepSM Model.StateMachine Model.SMWire Model.SMWalk Proofs.SMWitness.
Import ListNotations.
Local Open Scope N_scope.

Definition is_fin (o : out) : bool := match o with OFinalizeReq _ _ _ => true | _ => false end.

Definition w_fin_round : list event :=
  w1 ++ [EvView (mkv 1 1 4 (vs_of 0 10 [] [([8], 10)]) [gph 8]) None].

Definition w_fin_height : list event :=
  [ EvStart; EvRERespVRV (mkv 1 0 1 (vs_of 0 0 [] []) []);
    EvView (mkv 1 0 2 (vs_of 0 30 [] [([7], 30)]) [gph 7]) None;
    EvView (mkv 1 0 3 (vs_of 0 30 [] [([7], 30)]) [gph 7]) (Some (1, 1));
    EvRERespVRV (mkv 1 1 1 (vs_of 0 30 [] [([7], 30)]) [gph 7]) ].

Definition is_ch_event (e : event) : bool :=
  match e with EvRERespCH _ _ _ => true | EvRERespVRV v => v_h v =? 0 | _ => false end.

(** the same (height, round, block) is requested by two consecutive view updates, in one lifetime *)
Theorem finalize_once_per_round_refuted :
  existsb (fun e => match e with EvStop => true | _ => false end) w_fin_round = false /\
  map (filter is_fin) (run_events (sm0 true) w_fin_round) =
    [[]; []; []; [OFinalizeReq 1 0 [7]]; [OFinalizeReq 1 1 [8]]; [OFinalizeReq 1 1 [8]]] /\
  run (final_state (sm0 true) w_fin_round) = Idle.
Proof. vm_compute. repeat split; reflexivity. Qed.

(** two requests for height 1 in one lifetime, no committed-header response in the history *)
Theorem finalize_once_per_height_refuted :
  existsb (fun e => match e with EvStop => true | _ => false end) w_fin_height = false /\
  existsb is_ch_event w_fin_height = false /\
  map (filter is_fin) (run_events (sm0 true) w_fin_height) =
    [[]; []; [OFinalizeReq 1 0 [7]]; []; [OFinalizeReq 1 1 [7]]] /\
  run (final_state (sm0 true) w_fin_height) = Idle.
Proof. vm_compute. repeat split; reflexivity. Qed.
