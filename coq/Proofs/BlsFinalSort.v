(** C13 (BLS scheme, finalized proofs) - the two sorts of Model/BlsFinal.v:
    [sort_rest] (sortRestForFinalizing inside Finalize) and [ordered_rest] (orderedRestSignatures inside
    ValidateFinalizedProof) sort by a strict total order when the sign contents are distinct, hence do
    not depend on the order of their input. *)
From Coq Require Import List NArith ZArith String Bool Lia ZifyBool ZifyN ZifyNat Permutation Sorted.
From GV Require Import Base.Ints Base.GoBytes Model.SimpleProofBase Model.CombIndex Model.BlsFinal.
Import ListNotations.
Local Open Scope N_scope.

(* ------------------------------------------------------------------ bytes_ltb is a strict total order *)
Lemma bytes_ltb_irrefl' a : bytes_ltb a a = false.
Proof.
  induction a as [|x a IH]; cbn [bytes_ltb]; [reflexivity|].
  rewrite N.ltb_irrefl. exact IH.
Qed.

Lemma bytes_ltb_trans' a b c :
  bytes_ltb a b = true -> bytes_ltb b c = true -> bytes_ltb a c = true.
Proof.
  revert b c; induction a as [|x a IH]; intros [|y b] [|z c]; cbn [bytes_ltb]; try discriminate; auto.
  destruct (N.ltb_spec x y), (N.ltb_spec y x), (N.ltb_spec y z), (N.ltb_spec z y),
           (N.ltb_spec x z), (N.ltb_spec z x); try discriminate; try lia; auto.
  apply IH.
Qed.

Lemma bytes_ltb_total' a b :
  bytes_ltb a b = false -> bytes_ltb b a = false -> a = b.
Proof.
  revert b; induction a as [|x a IH]; intros [|y b]; cbn [bytes_ltb]; try discriminate; auto.
  destruct (N.ltb_spec x y), (N.ltb_spec y x); try discriminate; try lia.
  intros H1 H2. assert (x = y) by lia. subst. f_equal. apply IH; assumption.
Qed.

Lemma bytes_ltb_asym' a b : bytes_ltb a b = true -> bytes_ltb b a = false.
Proof.
  intros H. destruct (bytes_ltb b a) eqn:E; [|reflexivity].
  pose proof (bytes_ltb_trans' _ _ _ H E) as F. rewrite bytes_ltb_irrefl' in F. discriminate.
Qed.

(* ------------------------------------------------------------------ generic facts on StronglySorted *)
Section Generic.
  Context {A : Type} (R : A -> A -> Prop).

  Lemma ss_app_single : forall l x,
    StronglySorted R l -> Forall (fun y => R y x) l -> StronglySorted R (l ++ [x]).
  Proof.
    induction l as [|a l IH]; intros x HS HF; cbn [app].
    - constructor; constructor.
    - apply StronglySorted_inv in HS as [HS1 HS2]. inversion HF as [|? ? Hax HFl]; subst.
      constructor.
      + apply IH; assumption.
      + apply Forall_app. split; [exact HS2|]. constructor; [exact Hax|constructor].
  Qed.

  Lemma ss_rev : forall l, StronglySorted (fun x y => R y x) l -> StronglySorted R (rev l).
  Proof.
    induction l as [|a l IH]; intros HS; cbn [rev].
    - constructor.
    - apply StronglySorted_inv in HS as [HS1 HS2].
      apply ss_app_single; [apply IH; exact HS1|].
      apply Forall_forall. intros y Hy. apply in_rev in Hy.
      rewrite Forall_forall in HS2. apply HS2. exact Hy.
  Qed.

  Hypothesis R_irrefl : forall a, ~ R a a.
  Hypothesis R_trans : forall a b c, R a b -> R b c -> R a c.

  Lemma ss_perm_unique : forall s1 s2,
    StronglySorted R s1 -> StronglySorted R s2 -> Permutation s1 s2 -> s1 = s2.
  Proof.
    induction s1 as [|a s1 IH]; intros s2 H1 H2 P.
    - apply Permutation_nil in P. subst; reflexivity.
    - destruct s2 as [|b s2].
      { apply Permutation_sym, Permutation_nil in P. discriminate. }
      apply StronglySorted_inv in H1 as [H1 F1]. apply StronglySorted_inv in H2 as [H2 F2].
      assert (E : a = b).
      { assert (Ia : In a (b :: s2)) by (eapply Permutation_in; [exact P|left; reflexivity]).
        assert (Ib : In b (a :: s1)) by (eapply Permutation_in; [symmetry; exact P|left; reflexivity]).
        destruct Ia as [Ia|Ia]; [symmetry; exact Ia|].
        destruct Ib as [Ib|Ib]; [exact Ib|].
        rewrite Forall_forall in F1, F2. exfalso. apply (R_irrefl a).
        eapply R_trans; [apply F1; exact Ib|apply F2; exact Ia]. }
      subst b. f_equal. apply IH; auto. eapply Permutation_cons_inv; exact P.
  Qed.
End Generic.

Lemma filter_perm {A} (f : A -> bool) : forall l l', Permutation l l' -> Permutation (filter f l) (filter f l').
Proof.
  induction 1; cbn [filter].
  - constructor.
  - destruct (f x); [apply perm_skip|]; assumption.
  - destruct (f x), (f y); try apply Permutation_refl. apply perm_swap.
  - eapply perm_trans; eassumption.
Qed.

Lemma NoDup_map_filter {A B} (g : A -> B) (f : A -> bool) : forall l,
  NoDup (map g l) -> NoDup (map g (filter f l)).
Proof.
  induction l as [|a l IH]; cbn [map filter]; intros H; [constructor|].
  inversion H as [|? ? Hn Hd]; subst.
  destruct (f a); [|apply IH; exact Hd].
  cbn [map]. constructor; [|apply IH; exact Hd].
  intros Hin. apply Hn. apply in_map_iff in Hin as (y & Ey & Hy).
  apply filter_In in Hy as [Hy _]. rewrite <- Ey. apply in_map. exact Hy.
Qed.

(* ------------------------------------------------------------------ the order of sortRestForFinalizing *)
(** the strict order Finalize sorts by: signer count descending, then sign content ascending *)
Definition blt (a b : fproof) : Prop :=
  (popcountZ (fp_bits a) > popcountZ (fp_bits b))%Z \/
  (popcountZ (fp_bits a) = popcountZ (fp_bits b) /\ bytes_ltb (fp_msg a) (fp_msg b) = true).

Lemma blt_trans : forall a b c, blt a b -> blt b c -> blt a c.
Proof.
  unfold blt. intros a b c [H1|[H1 H1']] [H2|[H2 H2']].
  - left; lia.
  - left; lia.
  - left; lia.
  - right. split; [lia|]. eapply bytes_ltb_trans'; eassumption.
Qed.

Lemma blt_irrefl : forall a, ~ blt a a.
Proof.
  unfold blt. intros a [H|[_ H]]; [lia|]. rewrite bytes_ltb_irrefl' in H. discriminate.
Qed.

Lemma blt_asym : forall a b, blt a b -> ~ blt b a.
Proof. intros a b H1 H2. apply (blt_irrefl a). eapply blt_trans; eassumption. Qed.

Lemma rest_cmp_lt : forall a b, blt a b -> rest_cmp a b = Ok (-1)%Z.
Proof.
  unfold blt, rest_cmp. intros a b. cbv zeta. rewrite !Z.gtb_ltb. intros [H|[H1 H2]].
  - destruct (Z.ltb_spec (popcountZ (fp_bits b)) (popcountZ (fp_bits a))); [reflexivity|lia].
  - rewrite H1, Z.ltb_irrefl, H2. reflexivity.
Qed.

Lemma rest_cmp_gt : forall a b, blt b a -> rest_cmp a b = Ok 1%Z.
Proof.
  unfold blt, rest_cmp. intros a b. cbv zeta. rewrite !Z.gtb_ltb. intros [H|[H1 H2]].
  - destruct (Z.ltb_spec (popcountZ (fp_bits b)) (popcountZ (fp_bits a))); [lia|].
    destruct (Z.ltb_spec (popcountZ (fp_bits a)) (popcountZ (fp_bits b))); [reflexivity|lia].
  - rewrite H1, Z.ltb_irrefl, (bytes_ltb_asym' _ _ H2), H2. reflexivity.
Qed.

Lemma blt_total : forall a b, fp_msg a <> fp_msg b -> blt a b \/ blt b a.
Proof.
  unfold blt. intros a b Hne.
  destruct (Z.lt_trichotomy (popcountZ (fp_bits a)) (popcountZ (fp_bits b))) as [H|[H|H]].
  - right; left; lia.
  - destruct (bytes_ltb (fp_msg a) (fp_msg b)) eqn:E1.
    + left; right; split; [exact H|reflexivity].
    + destruct (bytes_ltb (fp_msg b) (fp_msg a)) eqn:E2.
      * right; right; split; [symmetry; exact H|reflexivity].
      * exfalso. apply Hne. apply bytes_ltb_total'; assumption.
  - left; left; lia.
Qed.

(** S2b *)
Lemma rest_cmp_tie_panics : forall a b, popcountZ (fp_bits a) = popcountZ (fp_bits b) -> fp_msg a = fp_msg b ->
  rest_cmp a b = Panic "sortRestForFinalizing:308".
Proof.
  unfold rest_cmp. intros a b H1 H2. cbv zeta. rewrite !Z.gtb_ltb.
  rewrite H1, H2, Z.ltb_irrefl, bytes_ltb_irrefl'. reflexivity.
Qed.

(* ------------------------------------------------------------------ S1 *)
Definition bgt (x y : fproof) : Prop := blt y x.

Lemma rest_insert_spec : forall x rl,
  StronglySorted bgt rl -> Forall (fun y => fp_msg x <> fp_msg y) rl ->
  exists rl', rest_insert x rl = Ok rl' /\ Permutation rl' (x :: rl) /\ StronglySorted bgt rl'.
Proof.
  intros x rl. induction rl as [|y t IH]; intros HS HF.
  - exists [x]. cbn [rest_insert]. split; [reflexivity|]. split; [apply Permutation_refl|].
    constructor; constructor.
  - apply StronglySorted_inv in HS as [HSt HFy]. inversion HF as [|? ? Hxy HFt]; subst.
    cbn [rest_insert]. destruct (blt_total x y Hxy) as [L|G].
    + rewrite (rest_cmp_lt _ _ L). cbn [bind Z.ltb Z.compare].
      destruct (IH HSt HFt) as (t' & E & P & S').
      rewrite E. cbn [bind]. exists (y :: t'). split; [reflexivity|]. split.
      * eapply perm_trans; [apply perm_skip; exact P|apply perm_swap].
      * constructor; [exact S'|].
        eapply Permutation_Forall; [symmetry; exact P|].
        constructor; [exact L|exact HFy].
    + rewrite (rest_cmp_gt _ _ G). cbn [bind Z.ltb Z.compare].
      exists (x :: y :: t). split; [reflexivity|]. split; [apply Permutation_refl|].
      constructor; [constructor; assumption|].
      constructor; [exact G|].
      eapply Forall_impl; [|exact HFy]. intros z Hz. unfold bgt in *.
      eapply blt_trans; eassumption.
Qed.

Lemma rest_sort_rev_spec : forall l rl,
  StronglySorted bgt rl -> NoDup (map fp_msg (l ++ rl)) ->
  exists rl', rest_sort_rev l rl = Ok rl' /\ Permutation rl' (l ++ rl) /\ StronglySorted bgt rl'.
Proof.
  induction l as [|x t IH]; intros rl HS ND.
  - exists rl. cbn [rest_sort_rev app]. split; [reflexivity|]. split; [apply Permutation_refl|exact HS].
  - cbn [rest_sort_rev].
    assert (ND0 : NoDup (map fp_msg (x :: (t ++ rl)))) by exact ND.
    cbn [app map] in ND. inversion ND as [|? ? Hnin ND']; subst.
    assert (HF : Forall (fun y => fp_msg x <> fp_msg y) rl).
    { apply Forall_forall. intros y Hy E. apply Hnin. rewrite E. apply in_map.
      apply in_or_app. right; exact Hy. }
    destruct (rest_insert_spec x rl HS HF) as (rl1 & E1 & P1 & S1). rewrite E1. cbn [bind].
    assert (PP : Permutation (x :: (t ++ rl)) (t ++ rl1)).
    { eapply perm_trans; [apply Permutation_middle|].
      apply Permutation_app_head. symmetry; exact P1. }
    destruct (IH rl1 S1) as (rl' & E & P & S').
    { eapply Permutation_NoDup; [|exact ND0]. apply Permutation_map. exact PP. }
    exists rl'. split; [exact E|]. split; [|exact S'].
    eapply perm_trans; [exact P|]. symmetry. exact PP.
Qed.

(** S1 *)
Theorem sort_rest_spec : forall l, NoDup (map fp_msg l) ->
  exists s, sort_rest l = Ok s /\ Permutation s l /\ StronglySorted blt s.
Proof.
  intros l ND. unfold sort_rest.
  destruct (rest_sort_rev_spec l []) as (rl & E & P & S').
  - constructor.
  - rewrite app_nil_r. exact ND.
  - rewrite app_nil_r in P. rewrite E. cbn [bind]. exists (rev rl). split; [reflexivity|]. split.
    + eapply perm_trans; [symmetry; apply Permutation_rev|exact P].
    + apply ss_rev. exact S'.
Qed.

(** uniqueness of the sorted permutation *)
Lemma sorted_perm_unique : forall s1 s2, StronglySorted blt s1 -> StronglySorted blt s2 -> Permutation s1 s2 -> s1 = s2.
Proof. apply ss_perm_unique; [exact blt_irrefl|exact blt_trans]. Qed.

(** S2: Finalize's sort does not depend on the order in which the rest proofs are passed *)
Theorem sort_rest_perm : forall l l', Permutation l l' -> NoDup (map fp_msg l) -> sort_rest l = sort_rest l'.
Proof.
  intros l l' P ND.
  assert (ND' : NoDup (map fp_msg l')).
  { eapply Permutation_NoDup; [|exact ND]. apply Permutation_map. exact P. }
  destruct (sort_rest_spec l ND) as (s & E & Ps & Ss).
  destruct (sort_rest_spec l' ND') as (s' & E' & Ps' & Ss').
  rewrite E, E'. f_equal. apply sorted_perm_unique; try assumption.
  eapply perm_trans; [exact Ps|]. eapply perm_trans; [exact P|]. symmetry; exact Ps'.
Qed.

(* ------------------------------------------------------------------ S4 *)
Lemma be16_lt : forall a b, a < b -> b < 65536 -> bytes_ltb (be16 a) (be16 b) = true.
Proof.
  intros a b Hab Hb. unfold be16.
  pose proof (N.div_mod' a 256) as Ea. pose proof (N.div_mod' b 256) as Eb.
  assert (Ra : a mod 256 < 256) by (apply N.mod_lt; discriminate).
  assert (Rb : b mod 256 < 256) by (apply N.mod_lt; discriminate).
  set (qa := a / 256) in *. set (ra := a mod 256) in *.
  set (qb := b / 256) in *. set (rb := b mod 256) in *.
  assert (Qa : qa < 256) by lia. assert (Qb : qb < 256) by lia.
  rewrite (N.mod_small qa 256 Qa), (N.mod_small qb 256 Qb).
  cbn [bytes_ltb].
  destruct (N.ltb_spec qa qb); [reflexivity|].
  destruct (N.ltb_spec qb qa); [lia|].
  destruct (N.ltb_spec ra rb); [reflexivity|lia].
Qed.

Lemma be16_inj_lt_irrefl : forall a, bytes_ltb (be16 a) (be16 a) = false.
Proof. intros a. apply bytes_ltb_irrefl'. Qed.

Lemma key2_key_id : forall c idx, (0 <= c < 65536)%Z -> key2 (key_id c idx) = be16 (Z.to_N c).
Proof.
  intros c idx H. unfold key_id.
  rewrite (N.mod_small (Z.to_N c) 65536) by lia.
  unfold be16. cbn [app key2]. reflexivity.
Qed.

(* ------------------------------------------------------------------ S3: orderedRestSignatures *)
Lemma order_lt_iff : forall p q,
  order_lt p q = true <->
  (bytes_ltb (fst q) (fst p) = true \/ (fst p = fst q /\ bytes_ltb (snd p) (snd q) = true)).
Proof.
  intros p q. unfold order_lt. split.
  - destruct (bytes_ltb (fst q) (fst p)) eqn:E1; [left; reflexivity|].
    destruct (bytes_ltb (fst p) (fst q)) eqn:E2; [discriminate|].
    intros H. right. split; [apply bytes_ltb_total'; assumption|exact H].
  - intros [H|[H1 H2]].
    + rewrite H. reflexivity.
    + rewrite H1, bytes_ltb_irrefl'. exact H2.
Qed.

Lemma order_lt_irrefl : forall p, order_lt p p = false.
Proof.
  intros p. unfold order_lt. rewrite !bytes_ltb_irrefl'. reflexivity.
Qed.

Lemma order_lt_trans : forall p q r, order_lt p q = true -> order_lt q r = true -> order_lt p r = true.
Proof.
  intros p q r H1 H2. apply order_lt_iff in H1. apply order_lt_iff in H2. apply order_lt_iff.
  destruct H1 as [H1|[H1 H1']], H2 as [H2|[H2 H2']].
  - left. eapply bytes_ltb_trans'; eassumption.
  - left. rewrite <- H2. exact H1.
  - left. rewrite H1. exact H2.
  - right. split; [congruence|]. eapply bytes_ltb_trans'; eassumption.
Qed.

Lemma order_lt_total : forall p q, snd p <> snd q -> order_lt p q = true \/ order_lt q p = true.
Proof.
  intros p q Hne. rewrite !order_lt_iff.
  destruct (bytes_ltb (fst q) (fst p)) eqn:E1; [left; left; reflexivity|].
  destruct (bytes_ltb (fst p) (fst q)) eqn:E2; [right; left; reflexivity|].
  assert (E : fst p = fst q) by (apply bytes_ltb_total'; assumption).
  destruct (bytes_ltb (snd p) (snd q)) eqn:E3; [left; right; split; [exact E|reflexivity]|].
  destruct (bytes_ltb (snd q) (snd p)) eqn:E4; [right; right; split; [symmetry; exact E|reflexivity]|].
  exfalso. apply Hne. apply bytes_ltb_total'; assumption.
Qed.

(** the insertion sort of orderedRestSignatures is the identity on a list already in its order *)
Definition elt (a b : rest_entry) : Prop := order_lt (order_key a) (order_key b) = true.

Lemma elt_irrefl : forall a, ~ elt a a.
Proof. unfold elt. intros a H. rewrite order_lt_irrefl in H. discriminate. Qed.

Lemma elt_trans : forall a b c, elt a b -> elt b c -> elt a c.
Proof. unfold elt. intros a b c. apply order_lt_trans. Qed.

Lemma elt_total : forall a b, fst a <> fst b -> elt a b \/ elt b a.
Proof. unfold elt. intros a b H. apply order_lt_total. unfold order_key. cbn [snd]. exact H. Qed.

Lemma order_sorted_id : forall l, Sorted elt l -> fold_right order_insert [] l = l.
Proof.
  induction l as [|a l IH]; intros HS; cbn [fold_right]; [reflexivity|].
  apply Sorted_inv in HS as [HS HH]. rewrite (IH HS).
  destruct l as [|b l']; cbn [order_insert]; [reflexivity|].
  apply HdRel_inv in HH. unfold elt in HH. rewrite HH. reflexivity.
Qed.

Lemma filter_id {A} (f : A -> bool) : forall l, Forall (fun x => f x = true) l -> filter f l = l.
Proof.
  induction l as [|a l IH]; intros H; cbn [filter]; [reflexivity|].
  inversion H as [|? ? Ha Hl]; subst. rewrite Ha. f_equal. apply IH. exact Hl.
Qed.

(** and ordered_rest is then the identity when moreover no entry has an empty signature list *)
Lemma ordered_rest_sorted_id : forall l, Sorted elt l -> Forall (fun e : rest_entry => snd e <> []) l -> ordered_rest l = l.
Proof.
  intros l HS HF. unfold ordered_rest. rewrite filter_id; [apply order_sorted_id; exact HS|].
  eapply Forall_impl; [|exact HF]. intros e He. cbv beta in He |- *.
  destruct (snd e); [contradiction|reflexivity].
Qed.

Lemma order_insert_perm : forall x l, Permutation (order_insert x l) (x :: l).
Proof.
  intros x. induction l as [|y t IH]; cbn [order_insert]; [apply Permutation_refl|].
  destruct (order_lt (order_key x) (order_key y)); [apply Permutation_refl|].
  eapply perm_trans; [apply perm_skip; exact IH|apply perm_swap].
Qed.

Lemma order_sort_perm : forall l, Permutation (fold_right order_insert [] l) l.
Proof.
  induction l as [|a l IH]; cbn [fold_right]; [constructor|].
  eapply perm_trans; [apply order_insert_perm|]. apply perm_skip. exact IH.
Qed.

(** ordered_rest only permutes/filters *)
Lemma ordered_rest_In : forall l e, In e (ordered_rest l) -> In e l.
Proof.
  intros l e H. unfold ordered_rest in H.
  eapply Permutation_in in H; [|apply order_sort_perm].
  apply filter_In in H as [H _]. exact H.
Qed.

Lemma order_insert_sorted : forall x l,
  StronglySorted elt l -> Forall (fun y => fst x <> fst y) l -> StronglySorted elt (order_insert x l).
Proof.
  intros x. induction l as [|y t IH]; intros HS HF; cbn [order_insert].
  - constructor; constructor.
  - apply StronglySorted_inv in HS as [HSt HFy]. inversion HF as [|? ? Hxy HFt]; subst.
    destruct (order_lt (order_key x) (order_key y)) eqn:E.
    + constructor; [constructor; assumption|].
      constructor; [exact E|].
      eapply Forall_impl; [|exact HFy]. intros z Hz. eapply elt_trans; [exact E|exact Hz].
    + constructor; [apply IH; assumption|].
      eapply Permutation_Forall; [symmetry; apply order_insert_perm|].
      constructor; [|exact HFy].
      destruct (elt_total x y Hxy) as [H|H]; [unfold elt in H; congruence|exact H].
Qed.

Lemma order_sort_sorted : forall l, NoDup (map fst l) -> StronglySorted elt (fold_right order_insert [] l).
Proof.
  induction l as [|a l IH]; cbn [fold_right map]; intros ND; [constructor|].
  inversion ND as [|? ? Hn Hd]; subst.
  apply order_insert_sorted; [apply IH; exact Hd|].
  apply Forall_forall. intros y Hy E. apply Hn. rewrite E. apply in_map.
  eapply Permutation_in; [apply order_sort_perm|exact Hy].
Qed.

(** ordered_rest does not depend on the (map iteration) order when the sign contents are distinct *)
Theorem ordered_rest_perm : forall l l', Permutation l l' -> NoDup (map fst l) -> ordered_rest l = ordered_rest l'.
Proof.
  intros l l' P ND. unfold ordered_rest.
  set (f := fun e : rest_entry => match snd e with [] => false | _ => true end).
  assert (Pf : Permutation (filter f l) (filter f l')) by (apply filter_perm; exact P).
  assert (ND1 : NoDup (map fst (filter f l))) by (apply NoDup_map_filter; exact ND).
  assert (ND2 : NoDup (map fst (filter f l'))).
  { eapply Permutation_NoDup; [|exact ND1]. apply Permutation_map. exact Pf. }
  apply (ss_perm_unique elt elt_irrefl elt_trans).
  - apply order_sort_sorted; exact ND1.
  - apply order_sort_sorted; exact ND2.
  - eapply perm_trans; [apply order_sort_perm|].
    eapply perm_trans; [exact Pf|]. symmetry. apply order_sort_perm.
Qed.

Print Assumptions sort_rest_spec.
Print Assumptions sort_rest_perm.
Print Assumptions ordered_rest_perm.
Print Assumptions sort_rest_perm.
