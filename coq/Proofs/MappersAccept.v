(** C20 - the result -> feedback tables of tm/tmconsensus/feedbackmapper.go (GENERATED: Gen/Mappers.v) answer
    FeedbackAccepted - the only feedback that makes a peer relay the message - only for results that mean
    "the engine verified this message": for every number a handler could return, not only the enumerated ones. *)
From Coq Require Import List NArith ZArith String Bool.
From GV Require Import Base.Ints Gen.Mappers.
Import ListNotations.
Local Open Scope N_scope.

Definition ph_verified (r : N) : Prop :=
  r = HandleProposedHeaderAccepted \/ r = HandleProposedHeaderAlreadyStored.
Definition vote_verified (r : N) : Prop :=
  r = HandleVoteProofsAccepted \/ r = HandleVoteProofsNoNewSignatures \/ r = HandleVoteProofsFutureVerified.

Ltac split_on r :=
  repeat (match goal with
          | |- context [N.eqb r ?c] => destruct (N.eqb_spec r c) as [->|?]
          end; cbn [orb]).

Ltac finish := vm_compute; intros H; try discriminate H; auto 6.

Lemma aav_ph_accept r : aav_map_ph r = Ok FeedbackAccepted -> ph_verified r.
Proof. unfold aav_map_ph, ph_verified. cbv zeta. split_on r; finish. Qed.

Lemma dd_ph_accept r : dd_map_ph r = Ok FeedbackAccepted -> r = HandleProposedHeaderAccepted.
Proof. unfold dd_map_ph. cbv zeta. split_on r; finish. Qed.

Lemma aav_vote_accept r : aav_map_vote r = Ok FeedbackAccepted -> vote_verified r.
Proof. unfold aav_map_vote, vote_verified. cbv zeta. split_on r; finish. Qed.

Lemma dd_vote_accept r : dd_map_vote r = Ok FeedbackAccepted ->
  r = HandleVoteProofsAccepted \/ r = HandleVoteProofsFutureVerified.
Proof. unfold dd_map_vote. cbv zeta. split_on r; finish. Qed.

(** executable form for the search of a failing input: the enumerated results a table accepts *)
Definition accepted_by (f : N -> res N) (all : list N) : list N :=
  filter (fun r => match f r with Ok x => N.eqb x FeedbackAccepted | Panic _ => false end) all.
