(** C09 for the local validator's own actions: where [act_vote] / [act_ph] (kernel.go
    handleStateMachineAction) can reach a Panic site, exactly.

    A local vote panics the kernel iff the entered round is the voting or the committing view AND
    (the state machine named no key - [AddSignature] dereferences the nil key - OR the view holds no proof for
    the target yet and its validator set has no keys - [NewSimpleCommonMessageSignatureProof] panics on an empty
    candidate list; the committing view before the first commit is such a view).  Everything else - any
    signature bytes, any target, a key outside the set, a round the mirror has left - is handled.  The
    thresholds the shift checks call are total by [aok] (Proofs/MirrorTotal.v). *)
From Coq Require Import List NArith Arith Bool Lia String.
From GV Require Import Base.Ints Gen.Math Gen.Kernel Model.Mirror Model.MirrorMgr
  Proofs.Thresholds Proofs.MirrorAuth Proofs.MirrorNoop Proofs.MirrorChain Proofs.MirrorCert Proofs.MirrorTotal Proofs.MirrorAct.
Import ListNotations.
Local Open Scope N_scope.

Definition act_vote_panic_guard (kind : N) (s : kstate) (h r : N) (key : option N) (target : bytes) : bool :=
  match find_view (kpos_of s) h r with
  | Ok (vid, _) =>
      ((vid =? ViewIDVoting) || (vid =? ViewIDCommitting)) &&
      ((match pm_get (view_votes kind (get_view s vid)) target with
        | Some _ => false
        | None => match vs_keys (v_vals (get_view s vid)) with [] => true | _ => false end
        end) || (match key with None => true | Some _ => false end))
  | Panic _ => true
  end.

Theorem local_vote_total kind s h r key target sg :
  aok s -> act_vote_panic_guard kind s h r key target = false ->
  okT (fun s' => pok s -> tinv s') (act_vote kind s h r key target sg).
Proof.
  intros Ha. unfold act_vote_panic_guard, act_vote, bind.
  destruct (find_view _ _ _) as [[vid st]|]; [|discriminate].
  destruct ((vid =? ViewIDVoting) || (vid =? ViewIDCommitting)); cbn [negb andb];
    [|intros _; apply okT_ret; intros Hp; split; assumption].
  destruct (pm_get _ target) as [p|].
  - cbn [orb]. destruct key as [k|]; [intros _|discriminate].
    destruct (key_index _ k) as [i|]; [|apply okT_ret; intros Hp; split; assumption].
    destruct (verify_vote _ _ _ _ _ _); [|apply okT_ret; intros Hp; split; assumption].
    apply apply_votes_total. exact Ha.
  - destruct (vs_keys (v_vals (get_view s vid))) as [|k0 ks] eqn:Hk; [discriminate|]. cbn [orb].
    destruct key as [k|]; [intros _|discriminate].
    destruct (key_index _ k) as [i|]; [|apply okT_ret; intros Hp; split; assumption].
    destruct (verify_vote _ _ _ _ _ _); [|apply okT_ret; intros Hp; split; assumption].
    apply apply_votes_total. exact Ha.
Qed.

Theorem local_vote_panics_under_guard kind s h r key target sg :
  act_vote_panic_guard kind s h r key target = true ->
  exists site, act_vote kind s h r key target sg = Panic site.
Proof.
  unfold act_vote_panic_guard, act_vote, bind.
  destruct (find_view _ _ _) as [[vid st]|site]; [|intros _; exists site; reflexivity].
  destruct ((vid =? ViewIDVoting) || (vid =? ViewIDCommitting)); cbn [negb andb]; [|discriminate].
  destruct (pm_get _ target) as [p|].
  - cbn [orb]. destruct key as [k|]; [discriminate|]. intros _. eexists; reflexivity.
  - destruct (vs_keys (v_vals (get_view s vid))) as [|k0 ks]; [intros _; eexists; reflexivity|].
    cbn [orb]. destruct key as [k|]; [discriminate|]. intros _. eexists; reflexivity.
Qed.

(** in every state of the chain invariant the guard reduces to: no key, or the zero committing view
    before the first commit (a state machine entering height 0), or a view whose validator set lists no keys *)
Theorem local_vote_total_with_keys kind s h r k target sg :
  aok s ->
  vs_keys (v_vals (k_vot s)) <> [] -> vs_keys (v_vals (k_com s)) <> [] ->
  okT (fun s' => pok s -> tinv s') (act_vote kind s h r (Some k) target sg).
Proof.
  intros Ha Hv Hc. apply local_vote_total; [exact Ha|].
  unfold act_vote_panic_guard.
  destruct (find_view_total (kpos_of s) h r) as (vid&st&Hfv). rewrite Hfv.
  destruct (vid =? ViewIDVoting) eqn:E1.
  - apply N.eqb_eq in E1. subst vid. cbn [orb andb]. unfold get_view. cbn [N.eqb].
    change (ViewIDVoting =? ViewIDVoting) with true. cbv iota.
    destruct (pm_get _ target); [reflexivity|]. destruct (vs_keys (v_vals (k_vot s))); [contradiction|reflexivity].
  - destruct (vid =? ViewIDCommitting) eqn:E2; [|reflexivity].
    apply N.eqb_eq in E2. subst vid. cbn [orb andb]. unfold get_view.
    change (ViewIDCommitting =? ViewIDVoting) with false. change (ViewIDCommitting =? ViewIDCommitting) with true. cbv iota.
    destruct (pm_get _ target); [reflexivity|]. destruct (vs_keys (v_vals (k_com s))); [contradiction|reflexivity].
Qed.

(** the state machine's own proposed header never panics the kernel (non-empty hash = an action is present) *)
Theorem local_ph_total s p :
  tinv s -> hd_hash (ph_hdr p) <> [] ->
  okT (fun s' => pow_ok (hd_next (ph_hdr p)) ->
                 (pow_ok (hd_vals (ph_hdr p)) \/ hd_height (ph_hdr p) <> v_h (k_vot s)) -> tinv s')
      (act_ph s p).
Proof.
  intros Ht Hh. unfold act_ph. destruct (hd_hash (ph_hdr p)); [contradiction|]. apply add_ph_total. exact Ht.
Qed.
