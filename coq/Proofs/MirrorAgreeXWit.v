(** Witnesses for Properties/C03MirrorX.v, built by running the mirror model's [xstep] / [mstep]
    from the initial state on short operation lists:
    A. the hypotheses of [mirrors_agree_x] are satisfiable on two nodes of which one went through a
       crash in the MIDDLE of a commit (after the committed-header write, before the position
       write) and a clean restart: the two nodes of Proofs/MirrorAgreeWitness.v (four validators,
       a validator-set change, one equivocating Byzantine key, different certificates);
    B. the hypotheses of [mirrors_agree_m] are satisfiable on a node with a crash, a restart, the
       local validator's own votes and own proposed header (committed at height 2), and a node
       driven by peers' messages only;
    C. the side condition on the local validator's OWN proposed header is needed for agreement:
       in the closure without it ([mreachable_0]) two mirrors finalize different blocks at
       height 2 although every other hypothesis holds. *)
From Coq Require Import List NArith Arith Bool Lia String.
From GV Require Import Base.Ints Gen.Math Gen.Kernel Model.Network Model.Mirror Model.MirrorMgr
  Proofs.Thresholds Proofs.Network Proofs.MirrorAuth Proofs.MirrorNoop Proofs.MirrorChain Proofs.MirrorCert
  Proofs.MirrorHdrGood Proofs.MirrorTotal Proofs.MirrorAct Proofs.MirrorActInv Proofs.MirrorActTotal
  Proofs.MirrorResumeWit Proofs.MirrorResumeInv Proofs.MirrorResumeOps Proofs.MirrorResume
  Proofs.MirrorResumeEx Proofs.MirrorTotalX Proofs.MirrorTotalM Proofs.MirrorTotalXEx
  Proofs.MirrorAgree Proofs.MirrorAgreeWitness Proofs.MirrorAgreeX Proofs.MirrorHdrGoodX Proofs.MirrorAgreeXC.
Import ListNotations.
Local Open Scope N_scope.

(** * Building states of [reachable_g] by computation *)
Definition xwf_b (x : xop) : bool :=
  match x with XOp o | XCrash _ o => wf_op_b o | XRestart => true end.

Lemma xwf_b_ok s x res : xwf_b x = true -> xwf s x res.
Proof. destruct x as [o|k o|]; cbn [xwf_b xwf]; [apply wf_op_b_ok|apply wf_op_b_ok|intros _; exact I]. Qed.

Fixpoint run_g (s : kstate) (xs : list xop) : option kstate :=
  match xs with
  | [] => Some s
  | x :: rest =>
      if xwf_b x then
        match xstep s x with Ok (s', _) => run_g s' rest | Panic _ => None end
      else None
  end.

Lemma run_g_reachable ih ivs xs : forall s s',
  reachable_g ih ivs s -> run_g s xs = Some s' -> reachable_g ih ivs s'.
Proof.
  induction xs as [|x rest IH]; intros s s' Hr; cbn [run_g]; [intros E; inversion E; subst; exact Hr|].
  destruct (xwf_b x) eqn:Ha; [|discriminate].
  destruct (xstep s x) as [[s1 r]|] eqn:Hs; [|discriminate].
  apply IH. eapply rg_step; [exact Hr|apply xwf_b_ok; exact Ha|exact Hs].
Qed.

Definition after_g (ih : N) (ivs : valset) (xs : list xop) : kstate :=
  match run_g (init_state ih ivs) xs with Some s => s | None => init_state ih ivs end.

Lemma after_g_reachable ih ivs xs :
  is_some (run_g (init_state ih ivs) xs) = true -> reachable_g ih ivs (after_g ih ivs xs).
Proof.
  unfold after_g. destruct (run_g _ xs) as [s|] eqn:E; [|discriminate]. intros _.
  eapply run_g_reachable; [apply rg_init|exact E].
Qed.

Lemma evs_vwf : vwf evs.
Proof. split; [reflexivity|]. split; [apply pow_okb_ok; reflexivity|discriminate]. Qed.

(** * A. A crash in the middle of a commit, and a restart *)

(** node 1: the history [ops1] of Proofs/MirrorAgreeWitness.v, uninterrupted *)
Definition xops1 : list xop := map XOp ops1.

(** node 2: the history [ops2]; the precommit of key 11 that commits header X at height 1 (round 1) is
    interrupted after TWO of its three store writes - the precommits and the committed header are
    written, the position is not - and the mirror is started again; later, in the middle of
    height 2 (two of the three precommits for Z received), a clean restart *)
Definition c_pre : list op :=
  [ OpPrecommit (vmsg_of KPrecommit 1 1 [7] [1] [(3, 13); (2, 12)]);
    OpPH (propose hX 1 [5]) ].
Definition c_op : op := OpPrecommit (vmsg_of KPrecommit 1 1 [7] [1] [(1, 11)]).
Definition xops2 : list xop :=
  map XOp c_pre ++
  [ XCrash 2 c_op;
    XOp (OpPrecommit (vmsg_of KPrecommit 2 0 [9] [3] [(3, 14); (1, 11)]));
    XRestart;
    XOp (OpPrecommit (vmsg_of KPrecommit 2 0 [9] [3] [(0, 10)]));
    XOp (OpPH (propose hZ 0 [4])) ].

Definition g1 : kstate := after_g 1 evs xops1.
Definition g2 : kstate := after_g 1 evs xops2.

(** the state before the interrupted operation, the state the uninterrupted operation produces,
    and the state after the crash *)
Definition c_s : kstate := after_g 1 evs (map XOp c_pre).
Definition c_s1 : kstate := match step c_s c_op with Ok (s, _) => s | Panic _ => c_s end.
Definition c_s' : kstate := after_g 1 evs (map XOp c_pre ++ [XCrash 2 c_op]).

Definition xV : list sigd :=
  cert_sigs g1 ++ cert_sigs g2 ++
  map (fun key => SVote key KPrevote 1 0 [1]) [10; 11; 12; 13] ++
  map (fun key => SVote key KPrevote 1 1 [1]) [10; 11; 12; 13] ++
  [SVote 13 KPrevote 1 0 [2]; SVote 13 KPrecommit 1 0 [2]; SVote 13 KPrecommit 1 0 []] ++
  map (fun key => SVote key KPrevote 2 0 [3]) [10; 11; 12; 14].

(** the crash really is in the middle of the commit: the uninterrupted operation issues three
    writes (precommits, committed header, position); the stores the crash leaves behind hold the
    committed header of height 1 under the OLD position (1, 1, 0, 0); start-up commits again *)
Example crash_is_mid_commit :
  reachable_g 1 evs c_s /\ st_nhr c_s = (1, 1, 0, 0) /\ st_hdrs c_s = [] /\
  step c_s c_op = Ok (c_s1, HandleVoteProofsAccepted) /\
  (List.length (st_log c_s1) - List.length (st_log c_s) = 3)%nat /\
  ends_hdr (firstn 2 (skipn (List.length (st_log c_s)) (st_log c_s1))) = true /\
  sr_nhr (crash_stores c_s c_s1 2) = (1, 1, 0, 0) /\
  map fst (sr_hdrs (crash_stores c_s c_s1 2)) = [1] /\
  xstep c_s (XCrash 2 c_op) = Ok (c_s', HandleVoteProofsAccepted) /\
  st_nhr c_s' = (2, 0, 1, 1) /\ commits c_s' = [(1, [1], 1)].
Proof.
  split; [apply after_g_reachable; vm_compute; reflexivity|].
  (* (no [repeat split]: [split] on an equation tries [eq_refl] with lazy conversion) *)
  do 9 (split; [vm_compute; reflexivity|]). vm_compute; reflexivity.
Qed.

Example mirrors_agree_x_hypotheses_satisfiable :
  vwf evs /\ reachable_g 1 evs g1 /\ reachable_g 1 evs g2 /\
  cert_sigs_in xV g1 /\ cert_sigs_in xV g2 /\ hash_binds_next g1 g2 /\
  (forall h x1 cp1 x2 cp2, In (h, (x1, cp1)) (st_hdrs g1) -> In (h, (x2, cp2)) (st_hdrs g2) ->
     byz_bound (chain_vals 1 evs (st_hdrs g1) h) (exB h) /\
     A1m (chain_vals 1 evs (st_hdrs g1) h) (exB h) xV h /\
     A2m (chain_vals 1 evs (st_hdrs g1) h) (exB h) xV h /\
     A3m (chain_vals 1 evs (st_hdrs g1) h) (exB h) xV h) /\
  (* both committed (height, hash, certificate round) twice; height 1 in different rounds *)
  commits g1 = [(2, [3], 0); (1, [1], 0)] /\ commits g2 = [(2, [3], 0); (1, [1], 1)] /\
  cert_sigs g1 <> cert_sigs g2 /\
  (* the validator set changed *)
  chain_vals 1 evs (st_hdrs g1) 1 = evs /\ chain_vals 1 evs (st_hdrs g1) 2 = evs2 /\
  (* the Byzantine key equivocates in V *)
  In (SVote 13 KPrecommit 1 0 [2]) xV /\ In (SVote 13 KPrecommit 1 0 []) xV /\ In (SVote 13 KPrecommit 1 1 [1]) xV.
Proof.
  split; [exact evs_vwf|].
  split; [apply after_g_reachable; vm_compute; reflexivity|].
  split; [apply after_g_reachable; vm_compute; reflexivity|].
  split; [apply cert_sigs_covers; intros sg H; unfold xV; apply in_or_app; left; exact H|].
  split; [apply cert_sigs_covers; intros sg H; unfold xV; apply in_or_app; right; apply in_or_app; left; exact H|].
  split; [apply hash_bindsb_ok; vm_compute; reflexivity|].
  split.
  { intros h x1 cp1 x2 cp2 I1 I2. apply hyps_allb_ok.
    apply (common_heightsb_ok (hyps_allb 1 evs g1 xV exB) g1 g2) with (e1 := (x1, cp1)) (e2 := (x2, cp2));
      [vm_compute; reflexivity|exact I1|exact I2]. }
  split; [vm_compute; reflexivity|]. split; [vm_compute; reflexivity|].
  split; [vm_compute; discriminate|].
  split; [vm_compute; reflexivity|]. split; [vm_compute; reflexivity|].
  vm_compute. tauto.
Qed.

(** the bundle on a non-trivial state *)
Example AgreeInv_after_crash : AgreeInv 1 evs g2 /\ List.length (st_hdrs g2) = 2%nat.
Proof.
  split; [|vm_compute; reflexivity].
  apply reachable_g_AgreeInv; [discriminate|exact evs_vwf|].
  apply after_g_reachable; vm_compute; reflexivity.
Qed.

(** * B. With the local validator's own actions *)

(** node L: the history [x_ops] of Proofs/MirrorTotalXEx.v (a proposed header, an entrance with key 7,
    the local prevote and the local precommit - which commits height 1 -, a crash in the middle of a nil
    precommit of height 2, a restart, the local validator's own proposed header [x_ph2] for height 2
    round 1), then its own precommit for that header: height 2 committed *)
Definition l_ops : list mop := x_ops ++ [MActPrecommit [8] (SVote 7 KPrecommit 2 1 [8])].
Definition mL : mstate := mstate_after 1 ex_vs l_ops.

(** node P: peers' messages only - the same two headers, the nil precommit of height 2 round 0 *)
Definition p_ops : list mop :=
  [ MK (XOp e_ph);
    MK (XOp (OpPrecommit (ex_precommit 1 0 [1] [9])));
    MK (XOp (OpPrecommit (ex_precommit 2 0 [1] [])));
    MK (XOp (OpPH x_ph2));
    MK (XOp (OpPrecommit (ex_precommit 2 1 [1] [8]))) ].
Definition mP : mstate := mstate_after 1 ex_vs p_ops.

Definition lV : list sigd :=
  cert_sigs (ms_k mL) ++ cert_sigs (ms_k mP) ++
  [SVote 7 KPrevote 1 0 [9]; SVote 7 KPrevote 2 1 [8]; SVote 7 KPrecommit 2 0 []].

Example mirrors_agree_m_hypotheses_satisfiable :
  vwf ex_vs /\ mreachable_a 1 ex_vs mL /\ mreachable_a 1 ex_vs mP /\
  cert_sigs_in lV (ms_k mL) /\ cert_sigs_in lV (ms_k mP) /\ hash_binds_next (ms_k mL) (ms_k mP) /\
  (forall h x1 cp1 x2 cp2, In (h, (x1, cp1)) (st_hdrs (ms_k mL)) -> In (h, (x2, cp2)) (st_hdrs (ms_k mP)) ->
     byz_bound (chain_vals 1 ex_vs (st_hdrs (ms_k mL)) h) [] /\
     A1m (chain_vals 1 ex_vs (st_hdrs (ms_k mL)) h) [] lV h /\
     A2m (chain_vals 1 ex_vs (st_hdrs (ms_k mL)) h) [] lV h /\
     A3m (chain_vals 1 ex_vs (st_hdrs (ms_k mL)) h) [] lV h) /\
  commits (ms_k mL) = [(2, [8], 1); (1, [9], 0)] /\ commits (ms_k mP) = [(2, [8], 1); (1, [9], 0)].
Proof.
  split; [exact ex_vs_vwf|].
  split; [apply mstate_after_reachable; vm_compute; reflexivity|].
  split; [apply mstate_after_reachable; vm_compute; reflexivity|].
  split; [apply cert_sigs_covers; intros sg H; unfold lV; apply in_or_app; left; exact H|].
  split; [apply cert_sigs_covers; intros sg H; unfold lV; apply in_or_app; right; apply in_or_app; left; exact H|].
  split; [apply hash_bindsb_ok; vm_compute; reflexivity|].
  split.
  { intros h x1 cp1 x2 cp2 I1 I2. apply (hyps_allb_ok 1 ex_vs (ms_k mL) lV (fun _ => []) h).
    apply (common_heightsb_ok (hyps_allb 1 ex_vs (ms_k mL) lV (fun _ => [])) (ms_k mL) (ms_k mP))
      with (e1 := (x1, cp1)) (e2 := (x2, cp2)); [vm_compute; reflexivity|exact I1|exact I2]. }
  split; vm_compute; reflexivity.
Qed.

(** * C. The side condition on the local validator's own proposed header is needed *)

(** a validator set with the single key 8 *)
Definition vs8 : valset := mk_valset [8] [1] [3] [4] true.
Definition sg8 (kind h r : N) (t : bytes) : ssig := mk_ssig (keyid_encode 0) (SVote 8 kind h r t).

(** the ill-formed own header: hash [9] - the hash of the header every other node sees, whose next
    validator set is [ex_vs] - but announcing the next set [vs8]; its hash flag is NOT set (the
    hash is not the hash of its fields).  handleStateMachineAction files it unchecked. *)
Definition bad_ph : ph :=
  mk_ph (mk_hdr [9] false 1 [] empty_cproof ex_vs vs8) 0 (Some 7) (SProposal 7 [5] 0) [5].

Definition pcp9 : cproof := mk_cproof 0 [1] [([9], [sg7 KPrecommit 1 0 [9]])].
(** height 2 as node W sees it: validator set [vs8]; header [5] proposed and precommitted by key 8 *)
Definition w_ph2 : ph := mk_ph (mk_hdr [5] true 2 [9] pcp9 vs8 vs8) 0 (Some 8) (SProposal 8 [6] 0) [6].
(** height 2 as node Q sees it: validator set [ex_vs]; header [6] proposed and precommitted by key 7 *)
Definition q_ph2 : ph := mk_ph (mk_hdr [6] true 2 [9] pcp9 ex_vs ex_vs) 0 (Some 7) (SProposal 7 [6] 0) [6].

(** node W: entrance with key 7, the ill-formed own header, the own precommit for its hash (height 1
    committed with next set [vs8]); then height 2 from peers' messages under [vs8] *)
Definition w_ops : list mop :=
  [ MEnterK 1 0 (Some 7);
    MActPH bad_ph;
    MActPrecommit [9] (SVote 7 KPrecommit 1 0 [9]);
    MK (XOp (OpPH w_ph2));
    MK (XOp (OpPrecommit (mk_vmsg 2 0 [3] [([5], [sg8 KPrecommit 2 0 [5]])]))) ].
(** node Q: peers' messages only; the well-formed header with hash [9] *)
Definition q_ops : list mop :=
  [ MK (XOp e_ph);
    MK (XOp (OpPrecommit (ex_precommit 1 0 [1] [9])));
    MK (XOp (OpPH q_ph2));
    MK (XOp (OpPrecommit (ex_precommit 2 0 [1] [6]))) ].

Definition mW : mstate := mstate_after0 w_ops.
Definition mQ : mstate := mstate_after 1 ex_vs q_ops.

Definition wV : list sigd :=
  cert_sigs (ms_k mW) ++ cert_sigs (ms_k mQ) ++
  [SVote 7 KPrevote 1 0 [9]; SVote 8 KPrevote 2 0 [5]; SVote 7 KPrevote 2 0 [6]].

Lemma mreachable_a_0 ih ivs s : mreachable_a ih ivs s -> mreachable_0 ih ivs s.
Proof.
  induction 1 as [|s o s' r io Hr IH Hadm Hs]; [apply mr0_init|].
  eapply mr0_step; [exact IH| |exact Hs].
  destruct o; cbn [mop_adm mop_adm0] in *; try exact I. exact Hadm.
Qed.

(** Everything the agreement theorem assumes holds - with node W in the closure WITHOUT the side
    condition on own proposed headers, node Q even in the admissible closure, no Byzantine key, no
    validator signing twice - and the two nodes finalized DIFFERENT blocks at height 2 (and headers
    with the same hash but different next validator sets at height 1). *)
Theorem mirrors_agree_needs_local_ph_condition_refuted :
  exists ih ivs s1 s2 V (B : N -> list N),
    1 <= ih /\ vwf ivs /\ mreachable_0 ih ivs s1 /\ mreachable_a ih ivs s2 /\
    cert_sigs_in V (ms_k s1) /\ cert_sigs_in V (ms_k s2) /\ hash_binds_next (ms_k s1) (ms_k s2) /\
    (forall h x1 cp1 x2 cp2, In (h, (x1, cp1)) (st_hdrs (ms_k s1)) -> In (h, (x2, cp2)) (st_hdrs (ms_k s2)) ->
       byz_bound (chain_vals ih ivs (st_hdrs (ms_k s1)) h) (B h) /\
       A1m (chain_vals ih ivs (st_hdrs (ms_k s1)) h) (B h) V h /\
       A2m (chain_vals ih ivs (st_hdrs (ms_k s1)) h) (B h) V h /\
       A3m (chain_vals ih ivs (st_hdrs (ms_k s1)) h) (B h) V h) /\
    (exists x1 cp1 x2 cp2,
       In (2, (x1, cp1)) (st_hdrs (ms_k s1)) /\ In (2, (x2, cp2)) (st_hdrs (ms_k s2)) /\
       cp_round cp1 = cp_round cp2 /\ hd_hash x1 <> hd_hash x2) /\
    (exists x1 cp1 x2 cp2,
       In (1, (x1, cp1)) (st_hdrs (ms_k s1)) /\ In (1, (x2, cp2)) (st_hdrs (ms_k s2)) /\
       hd_hash x1 = hd_hash x2 /\ hd_ok x1 = false /\ valset_equal (hd_next x1) (hd_next x2) = false).
Proof.
  exists 1, ex_vs, mW, mQ, wV, (fun _ => []).
  split; [discriminate|]. split; [exact ex_vs_vwf|].
  split; [apply mstate_after0_reachable; vm_compute; reflexivity|].
  split; [apply mstate_after_reachable; vm_compute; reflexivity|].
  split; [apply cert_sigs_covers; intros sg H; unfold wV; apply in_or_app; left; exact H|].
  split; [apply cert_sigs_covers; intros sg H; unfold wV; apply in_or_app; right; apply in_or_app; left; exact H|].
  split.
  { (* [hash_bindsb] ignores the hash flags, so it is false here; the hypothesis itself holds *)
    intros h x1 cp1 x2 cp2 I1 I2 O1 O2 Eh.
    assert (G : forallb (fun e1 : N * (hdr * cproof) => forallb (fun e2 : N * (hdr * cproof) =>
                  negb (fst e1 =? fst e2) || negb (hd_ok (fst (snd e1))) || negb (hd_ok (fst (snd e2))) ||
                  negb (bytes_eqb (hd_hash (fst (snd e1))) (hd_hash (fst (snd e2)))) ||
                  valset_equal (hd_next (fst (snd e1))) (hd_next (fst (snd e2))))
                  (st_hdrs (ms_k mQ))) (st_hdrs (ms_k mW)) = true) by (vm_compute; reflexivity).
    rewrite forallb_forall in G. specialize (G _ I1). rewrite forallb_forall in G. specialize (G _ I2).
    cbn [fst snd] in G. rewrite N.eqb_refl, O1, O2, Eh, bytes_eqb_refl in G. exact G. }
  split.
  { intros h x1 cp1 x2 cp2 I1 I2. apply (hyps_allb_ok 1 ex_vs (ms_k mW) wV (fun _ => []) h).
    apply (common_heightsb_ok (hyps_allb 1 ex_vs (ms_k mW) wV (fun _ => [])) (ms_k mW) (ms_k mQ))
      with (e1 := (x1, cp1)) (e2 := (x2, cp2)); [vm_compute; reflexivity|exact I1|exact I2]. }
  split.
  - exists (fst (snd (top_entry (ms_k mW)))), (snd (snd (top_entry (ms_k mW)))),
           (fst (snd (top_entry (ms_k mQ)))), (snd (snd (top_entry (ms_k mQ)))).
    rewrite <- !surjective_pairing.
    split; [vm_compute; left; reflexivity|]. split; [vm_compute; left; reflexivity|].
    split; [vm_compute; reflexivity|]. vm_compute. discriminate.
  - exists (mk_hdr [9] false 1 [] empty_cproof ex_vs vs8), (snd (snd (nth 1 (st_hdrs (ms_k mW)) (top_entry (ms_k mW))))),
           (ex_hdr ex_vs ex_vs), (snd (snd (nth 1 (st_hdrs (ms_k mQ)) (top_entry (ms_k mQ))))).
    split; [vm_compute; right; left; reflexivity|]. split; [vm_compute; right; left; reflexivity|].
    split; [reflexivity|]. split; reflexivity.
Qed.

(** the bundle fails on node W in its third component only because of the hash flag; its chain
    invariant fails as well ([C05Act_local_ph_keeps_chain_invariant_refuted]) *)
Example AgreeInv_fails_without_local_ph_condition :
  mreachable_0 1 ex_vs mW /\ ~ AgreeInv 1 ex_vs (ms_k mW).
Proof.
  split; [apply mstate_after0_reachable; vm_compute; reflexivity|].
  intros (_ & _ & H).
  assert (Hin : In (1, (mk_hdr [9] false 1 [] empty_cproof ex_vs vs8,
                        snd (snd (nth 1 (st_hdrs (ms_k mW)) (top_entry (ms_k mW)))))) (st_hdrs (ms_k mW)))
    by (vm_compute; right; left; reflexivity).
  destruct (H _ _ _ Hin) as [_ Hok]. discriminate Hok.
Qed.

(** * D. The closure of C05Act ([lreachable]: local actions, no crashes) *)
Definition mop_ok_b (s : mstate) (o : mop) : bool :=
  match o with
  | MK (XOp o') => op_bounded_b o'
  | MK _ => false
  | MAct (ActPH p) => lph_okb (ms_k s) p
  | _ => true
  end.

Lemma mop_ok_b_ok s o : mop_ok_b s o = true -> mop_ok s o.
Proof.
  destruct o as [x|h0 r0| | |h0 r0 key0|a]; cbn [mop_ok_b mop_ok]; try (intros _; exact I).
  - destruct x as [o|k o|]; [apply op_bounded_b_ok|discriminate|discriminate].
  - destruct a as [t sg|t sg|p]; cbn [lact_ok]; try (intros _; exact I).
    intros H. exact (proj1 (lph_okb_facts _ _ H)).
Qed.

Fixpoint run_l (s : mstate) (ops : list mop) : option mstate :=
  match ops with
  | [] => Some s
  | o :: rest =>
      if mop_ok_b s o then
        match mstep s o with Ok (s', _, _) => run_l s' rest | Panic _ => None end
      else None
  end.

Lemma run_l_reachable ih ivs ops : forall s s',
  lreachable ih ivs s -> run_l s ops = Some s' -> lreachable ih ivs s'.
Proof.
  induction ops as [|o rest IH]; intros s s' Hr; cbn [run_l]; [intros E; inversion E; subst; exact Hr|].
  destruct (mop_ok_b s o) eqn:Ha; [|discriminate].
  destruct (mstep s o) as [[[s1 r] io]|] eqn:Hs; [|discriminate].
  apply IH. eapply lr_step; [exact Hr|apply mop_ok_b_ok; exact Ha|exact Hs].
Qed.

Definition after_l (ih : N) (ivs : valset) (ops : list mop) : mstate :=
  match run_l (ms_init ih ivs) ops with Some s => s | None => ms_init ih ivs end.

Lemma after_l_reachable ih ivs ops :
  is_some (run_l (ms_init ih ivs) ops) = true -> lreachable ih ivs (after_l ih ivs ops).
Proof.
  unfold after_l. destruct (run_l _ ops) as [s|] eqn:E; [|discriminate]. intros _.
  eapply run_l_reachable; [apply lr_init|exact E].
Qed.

(** the local validator's own header for height 2, round 0 *)
Definition d_ph2 : ph := mk_ph x_ph2_hdr 0 (Some 7) (SProposal 7 [6] 0) [6].

(** node D: a peer's proposed header, entrance with key 7, own prevote and precommit (height 1 committed),
    entrance at height 2, OWN proposed header and own precommit for it (height 2 committed) *)
Definition d_ops : list mop :=
  [ MK (XOp e_ph);
    MEnterK 1 0 (Some 7);
    MActPrevote [9] (SVote 7 KPrevote 1 0 [9]);
    MActPrecommit [9] (SVote 7 KPrecommit 1 0 [9]);
    MEnterK 2 0 (Some 7);
    MActPH d_ph2;
    MSMRead;
    MActPrecommit [8] (SVote 7 KPrecommit 2 0 [8]) ].
(** node E: peers' messages only *)
Definition e_ops : list mop :=
  [ MK (XOp e_ph);
    MK (XOp (OpPrecommit (ex_precommit 1 0 [1] [9])));
    MK (XOp (OpPH d_ph2));
    MK (XOp (OpPrecommit (ex_precommit 2 0 [1] [8]))) ].
Definition mD : mstate := after_l 1 ex_vs d_ops.
Definition mE : mstate := after_l 1 ex_vs e_ops.

Definition dV : list sigd :=
  cert_sigs (ms_k mD) ++ cert_sigs (ms_k mE) ++ [SVote 7 KPrevote 1 0 [9]; SVote 7 KPrevote 2 0 [8]].

Example mirrors_agree_l_hypotheses_satisfiable :
  vs_ok ex_vs = true /\ lreachable 1 ex_vs mD /\ lreachable 1 ex_vs mE /\
  cert_sigs_in dV (ms_k mD) /\ cert_sigs_in dV (ms_k mE) /\ hash_binds_next (ms_k mD) (ms_k mE) /\
  (forall h x1 cp1 x2 cp2, In (h, (x1, cp1)) (st_hdrs (ms_k mD)) -> In (h, (x2, cp2)) (st_hdrs (ms_k mE)) ->
     byz_bound (chain_vals 1 ex_vs (st_hdrs (ms_k mD)) h) [] /\
     A1m (chain_vals 1 ex_vs (st_hdrs (ms_k mD)) h) [] dV h /\
     A2m (chain_vals 1 ex_vs (st_hdrs (ms_k mD)) h) [] dV h /\
     A3m (chain_vals 1 ex_vs (st_hdrs (ms_k mD)) h) [] dV h) /\
  commits (ms_k mD) = [(2, [8], 0); (1, [9], 0)] /\ commits (ms_k mE) = [(2, [8], 0); (1, [9], 0)].
Proof.
  split; [reflexivity|].
  split; [apply after_l_reachable; vm_compute; reflexivity|].
  split; [apply after_l_reachable; vm_compute; reflexivity|].
  split; [apply cert_sigs_covers; intros sg H; unfold dV; apply in_or_app; left; exact H|].
  split; [apply cert_sigs_covers; intros sg H; unfold dV; apply in_or_app; right; apply in_or_app; left; exact H|].
  split; [apply hash_bindsb_ok; vm_compute; reflexivity|].
  split.
  { intros h x1 cp1 x2 cp2 I1 I2. apply (hyps_allb_ok 1 ex_vs (ms_k mD) dV (fun _ => []) h).
    apply (common_heightsb_ok (hyps_allb 1 ex_vs (ms_k mD) dV (fun _ => [])) (ms_k mD) (ms_k mE))
      with (e1 := (x1, cp1)) (e2 := (x2, cp2)); [vm_compute; reflexivity|exact I1|exact I2]. }
  split; vm_compute; reflexivity.
Qed.
