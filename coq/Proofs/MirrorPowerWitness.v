(** Witnesses and examples for Properties/C06Power.v: concrete reachable states (built by running
    [step] from the initial state) on which the hypotheses of the theorems of Proofs/MirrorPower.v hold,
    and the refutation of "a vote operation moves the voting round by exactly one". *)
From Coq Require Import List NArith Arith Bool Lia String.
From GV Require Import Base.Ints Gen.Math Gen.Kernel Model.Mirror
  Proofs.Thresholds Proofs.MirrorAuth Proofs.MirrorNoop Proofs.MirrorChain Proofs.MirrorCert Proofs.MirrorPower.
Import ListNotations.
Local Open Scope N_scope.

(** four validators (global keys 10..13) of power 1 each: available 4, minority 2, majority 3 *)
Definition wvs : valset := mk_valset [10; 11; 12; 13] [1; 1; 1; 1] [7] [8] true.
Definition w0 : kstate := init_state 1 wvs.

Definition wsig (kind r : N) (t : bytes) (i : N) : ssig := mk_ssig (keyid_encode i) (SVote (10 + i) kind 1 r t).
(** a vote message for height 1, round [r]: each (target, signer indices) *)
Definition wmsg (kind r : N) (entries : list (bytes * list N)) : vmsg :=
  mk_vmsg 1 r [7] (map (fun e => (fst e, map (wsig kind r (fst e)) (snd e))) entries).

Definition run1 (s : kstate) (o : op) : kstate := match step s o with Ok (s', _) => s' | Panic _ => s end.

Lemma w0_reachable : reachable_b 1 wvs w0.
Proof. apply rb_init. Qed.

Lemma run1_reachable s o : reachable_b 1 wvs s -> op_bounded o -> is_ok (step s o) = true ->
  reachable_b 1 wvs (run1 s o).
Proof.
  intros Hr Hb Hok. unfold run1. destruct (step s o) as [[s' r]|] eqn:E; [|discriminate].
  eapply rb_step; eassumption.
Qed.

(** ** (1): an equivocating validator counts once in the total, once in each block power *)
(** validator 0 prevotes for blocks [1] and [2] in round 0, validator 1 for [1] *)
Definition o_equiv : op := OpPrevote (wmsg KPrevote 0 [([1], [0; 1]); ([2], [0])]).
Definition w_equiv : kstate := run1 w0 o_equiv.

Example totals_example :
  reachable_b 1 wvs w_equiv /\
  signer_set (v_pv (k_vot w_equiv)) = [1; 0] /\
  sm_tpv (v_sum (k_vot w_equiv)) = 2 /\
  map_get (sm_pvp (v_sum (k_vot w_equiv))) [1] = 2 /\
  map_get (sm_pvp (v_sum (k_vot w_equiv))) [2] = 1 /\
  sm_mpv (v_sum (k_vot w_equiv)) = [1].
Proof.
  split; [apply run1_reachable; [apply w0_reachable|exact I|vm_compute; reflexivity]|].
  vm_compute. repeat split.
Qed.

(** ** (2): two of four validators prevote in round 1: the mirror jumps from round 0 to round 1 *)
Definition m_jump : vmsg := wmsg KPrevote 1 [([1], [0; 1])].
Definition o_jump : op := OpPrevote m_jump.
Definition w_jump : kstate := run1 w0 o_jump.
Definition sm_jump : kstate :=
  match merge_point KPrevote w0 m_jump with Some (_, sm) => sm | None => w0 end.

Example round_change_example :
  reachable_b 1 wvs w0 /\ vote_op o_jump = Some (KPrevote, m_jump) /\
  step w0 o_jump = Ok (w_jump, HandleVoteProofsAccepted) /\
  v_h (k_vot w_jump) = v_h (k_vot w0) /\ v_r (k_vot w_jump) <> v_r (k_vot w0) /\
  nowrap (vs_pows (v_vals (k_vot w0))) /\
  v_r (k_vot w_jump) = 1 /\
  merge_point KPrevote w0 m_jump = Some (ViewIDNextRound, sm_jump) /\
  sm_tpv (v_sum (k_nxt sm_jump)) = 2 /\ byz_minority (sm_avail (v_sum (k_nxt sm_jump))) = Ok 2.
Proof.
  split; [apply w0_reachable|]. split; [reflexivity|]. split; [vm_compute; reflexivity|].
  split; [vm_compute; reflexivity|]. split; [vm_compute; discriminate|].
  split; [vm_compute; reflexivity|]. split; [vm_compute; reflexivity|].
  split; [vm_compute; reflexivity|]. vm_compute. split; reflexivity.
Qed.

(** ** (2a) refuted: three of four validators precommit nil in round 1 while the mirror votes in
    round 0: the mirror jumps to round 1 (minority of precommits there) and at once advances past it
    (majority for nil): one operation, round 0 -> round 2. *)
Definition m_two : vmsg := wmsg KPrecommit 1 [([], [0; 1; 2])].
Definition o_two : op := OpPrecommit m_two.
Definition w_two : kstate := run1 w0 o_two.

Theorem round_change_next_refuted :
  exists ih ivs s o kind m s' res,
    1 <= ih /\ vs_ok ivs = true /\ reachable_b ih ivs s /\
    vote_op o = Some (kind, m) /\ step s o = Ok (s', res) /\
    v_h (k_vot s') = v_h (k_vot s) /\ v_r (k_vot s') <> v_r (k_vot s) /\
    v_r (k_vot s') <> wrap32 (v_r (k_vot s) + 1) /\
    v_r (k_vot s') = wrap32 (wrap32 (v_r (k_vot s) + 1) + 1).
Proof.
  exists 1, wvs, w0, o_two, KPrecommit, m_two, w_two, HandleVoteProofsAccepted.
  split; [lia|]. split; [reflexivity|]. split; [apply w0_reachable|]. split; [reflexivity|].
  split; [vm_compute; reflexivity|]. split; [vm_compute; reflexivity|].
  split; [vm_compute; discriminate|]. split; [vm_compute; discriminate|]. vm_compute; reflexivity.
Qed.

(** ** (3): one of four validators alone moves nothing, even when it equivocates: its two prevotes for
    round 1 give block powers 1 + 1 = 2 = the minority, but a total of 1 *)
Definition m_min : vmsg := wmsg KPrevote 1 [([1], [0]); ([2], [0])].
Definition o_min : op := OpPrevote m_min.
Definition w_min : kstate := run1 w0 o_min.
Definition sm_min : kstate :=
  match merge_point KPrevote w0 m_min with Some (_, sm) => sm | None => w0 end.

Lemma genuine_in_nil v i : v_pv v = [] -> v_pc v = [] -> ~ has_genuine_vote v i.
Proof.
  intros E1 E2 (key&kind&t&p&_&[->| ->]&Hin&_); unfold view_votes in Hin; cbn in Hin;
    [rewrite E1 in Hin|rewrite E2 in Hin]; destruct Hin.
Qed.

Example minority_example :
  reachable_b 1 wvs w0 /\ vote_op o_min = Some (KPrevote, m_min) /\
  step w0 o_min = Ok (w_min, HandleVoteProofsAccepted) /\
  merge_point KPrevote w0 m_min = Some (ViewIDNextRound, sm_min) /\
  nowrap (vs_pows (v_vals (k_vot sm_min))) /\
  byz_minority (sm_avail (v_sum (k_vot sm_min))) = Ok 2 /\
  (forall i, has_genuine_vote (k_vot sm_min) i \/ has_genuine_vote (k_nxt sm_min) i -> In i [0]) /\
  idx_power (vs_pows (v_vals (k_vot sm_min))) (nodup_n [0]) < 2 /\
  (* the block powers add up to 2 = the minority, the total is 1 *)
  sm_tpv (v_sum (k_nxt sm_min)) = 1 /\
  map_get (sm_pvp (v_sum (k_nxt sm_min))) [1] + map_get (sm_pvp (v_sum (k_nxt sm_min))) [2] = 2 /\
  w_min = sm_min.
Proof.
  split; [apply w0_reachable|]. split; [reflexivity|]. split; [vm_compute; reflexivity|].
  split; [vm_compute; reflexivity|]. split; [vm_compute; reflexivity|]. split; [vm_compute; reflexivity|].
  split.
  { intros i [H|H].
    - exfalso. revert H. apply genuine_in_nil; vm_compute; reflexivity.
    - destruct H as (key&kind&t&p&_&Hk&Hin&Hi).
      destruct Hk as [->| ->]; vm_compute in Hin.
      + destruct Hin as [E|[E|[]]]; inversion E; subst; destruct Hi as [E'|[]]; inversion E'; left; reflexivity.
      + destruct Hin. }
  split; [vm_compute; reflexivity|]. split; [vm_compute; reflexivity|]. split; vm_compute; reflexivity.
Qed.

(** ** The guard [nowrap] of (3) is needed: with powers that overflow uint64 a set whose (wrapped)
    power is 1 contains a validator of power 5 who alone makes the mirror jump.
    Powers [2^64-4; 5; 6]: available = 7 (mod 2^64), minority 3; validator 1 (power 5) prevotes in
    round 1; S = {0,1} has wrapped power 1 < 3. *)
Definition ovs : valset := mk_valset [10; 11; 12] [18446744073709551612; 5; 6] [7] [8] true.
Definition ow0 : kstate := init_state 1 ovs.
Definition om : vmsg := wmsg KPrevote 1 [([1], [1])].
Definition ow1 : kstate := run1 ow0 (OpPrevote om).
Definition osm : kstate := match merge_point KPrevote ow0 om with Some (_, sm) => sm | None => ow0 end.

Theorem minority_without_guard_refuted :
  exists ih ivs s o kind m s' res vid sm S mn,
    1 <= ih /\ vs_ok ivs = true /\ reachable_b ih ivs s /\
    vote_op o = Some (kind, m) /\ step s o = Ok (s', res) /\
    merge_point kind s m = Some (vid, sm) /\
    byz_minority (sm_avail (v_sum (k_vot sm))) = Ok mn /\
    (forall i, has_genuine_vote (k_vot sm) i \/ has_genuine_vote (k_nxt sm) i -> In i S) /\
    idx_power (vs_pows (v_vals (k_vot sm))) (nodup_n S) < mn /\
    v_h (k_vot s') = v_h (k_vot s) /\ v_r (k_vot s') <> v_r (k_vot s).
Proof.
  exists 1, ovs, ow0, (OpPrevote om), KPrevote, om, ow1, HandleVoteProofsAccepted, ViewIDNextRound, osm, [0; 1], 3.
  split; [lia|]. split; [reflexivity|]. split; [apply rb_init|]. split; [reflexivity|].
  split; [vm_compute; reflexivity|]. split; [vm_compute; reflexivity|]. split; [vm_compute; reflexivity|].
  split.
  { intros i [H|H].
    - exfalso. revert H. apply genuine_in_nil; vm_compute; reflexivity.
    - destruct H as (key&kind&t&p&_&Hk&Hin&Hi).
      destruct Hk as [->| ->]; vm_compute in Hin.
      + destruct Hin as [E|[]]; inversion E; subst; destruct Hi as [E'|[]]; inversion E'; right; left; reflexivity.
      + destruct Hin. }
  split; [vm_compute; reflexivity|]. split; [vm_compute; reflexivity|]. vm_compute; discriminate.
Qed.

(** ** Replay.  Before the repair of handleReplayedHeader (it jumped to the replayed round and only then
    validated) this header - hash flag false, no signatures at all - was answered with a validation error
    AND left the mirror voting in round 5; now it is answered with the same error and changes nothing. *)
Definition bad_hdr : hdr := mk_hdr [9] false 1 [] empty_cproof wvs wvs.
Definition bad_cp : cproof := mk_cproof 5 [7] [].

Example rejected_replay_example : step w0 (OpReplay bad_hdr bad_cp) = Ok (w0, 2).
Proof. vm_compute. reflexivity. Qed.

(** an accepted one: header [9] of height 1 replayed with a round-2 commit proof signed by three of the
    four validators: result 0, the mirror passes through round 2 and commits (voting height 2) *)
Definition good_hdr : hdr := mk_hdr [9] true 1 [] empty_cproof wvs wvs.
Definition good_cp : cproof := mk_cproof 2 [7] [([9], map (wsig KPrecommit 2 [9]) [0; 1; 2])].
Definition w_replayed : kstate := run1 w0 (OpReplay good_hdr good_cp).

Example accepted_replay_example :
  op_bounded (OpReplay good_hdr good_cp) /\
  step w0 (OpReplay good_hdr good_cp) = Ok (w_replayed, 0) /\
  v_h (k_vot w_replayed) = 2 /\ v_h (k_com w_replayed) = 1 /\ v_r (k_com w_replayed) = 2.
Proof. split; [vm_compute; reflexivity|]. split; [vm_compute; reflexivity|]. vm_compute. repeat split. Qed.

(** Replay of the witnesses on the real Go code (harness/mirror built against a clean snapshot of the repo,
    900 generated histories of 30 operations with -replay, every step's voting position read from the
    implementation's observation): vote messages changed the round of an unchanged height by +1 (3915
    steps) or +2 (307 steps), never more; every +2 step was a precommit message for the round after the
    voting round with a nil entry (e.g. seed 1, case 3: one validator of power 3, mirror at height 1
    round 0, precommit for (1, 1) nil by that validator: voting round 2).  On the code BEFORE the replay
    repair, replayed headers answered with a validation error had moved the voting round in 25 steps
    (e.g. (4,1) -> (4,3)); that is what the repair removed. *)
