(** Proofs about the generated threshold functions (tm/tmconsensus/math.go). *)
From Coq Require Import List NArith ZArith String Bool Lia ZifyBool ZifyN.
From GV Require Import Base.Ints Gen.Math.
Import ListNotations.
Local Open Scope N_scope.
Ltac Zify.zify_post_hook ::= Z.div_mod_to_equations.

Definition in_range (n : N) : Prop := 1 <= n /\ n < two64.

Ltac unfold_thr :=
  unfold byz_majority, byz_minority, wrap64, two64, in_range in *.

(** Closed forms: the wrapped computation equals the unwrapped one (no overflow). *)
Lemma maj_closed_form n : in_range n ->
  byz_majority n = Ok (if n mod 3 <? 2 then 2 * (n / 3) + 1 else 2 * (n / 3) + 2).
Proof.
  intros [H1 H2]. unfold_thr.
  destruct (N.eqb_spec n 0) as [->|_]; [lia|].
  cbv zeta.
  destruct (N.ltb_spec (n mod 3) 2) as [Hr|Hr]; f_equal;
    rewrite !N.mod_small; lia.
Qed.

Lemma min_closed_form n : in_range n ->
  byz_minority n = Ok (if n mod 3 =? 0 then n / 3 else n / 3 + 1).
Proof.
  intros [H1 H2]. unfold_thr.
  destruct (N.eqb_spec n 0) as [->|_]; [lia|].
  cbv zeta.
  destruct (N.eqb_spec (n mod 3) 0) as [Hr|Hr]; f_equal.
  rewrite N.mod_small; lia.
Qed.

Definition maj (n : N) : N := if n mod 3 <? 2 then 2 * (n / 3) + 1 else 2 * (n / 3) + 2.
Definition mnr (n : N) : N := if n mod 3 =? 0 then n / 3 else n / 3 + 1.

Lemma maj_spec n : 3 * maj n > 2 * n /\ forall k, 3 * k > 2 * n -> maj n <= k.
Proof. unfold maj. destruct (N.ltb_spec (n mod 3) 2); split; intros; lia. Qed.

Lemma mnr_spec n : 3 * mnr n >= n /\ forall k, 3 * k >= n -> mnr n <= k.
Proof. unfold mnr. destruct (N.eqb_spec (n mod 3) 0); split; intros; lia. Qed.

Lemma maj_lt_two64 n : in_range n -> maj n < two64.
Proof. unfold in_range, maj, two64. destruct (N.ltb_spec (n mod 3) 2); lia. Qed.

Lemma maj_le_n n : 1 <= n -> maj n <= n.
Proof. unfold maj. destruct (N.ltb_spec (n mod 3) 2); lia. Qed.

Lemma mnr_le_maj n : 1 <= n -> mnr n <= maj n.
Proof. unfold maj, mnr. destruct (N.ltb_spec (n mod 3) 2); destruct (N.eqb_spec (n mod 3) 0); lia. Qed.

Theorem maj_least n : in_range n ->
  exists m, byz_majority n = Ok m /\ m < two64 /\ 3 * m > 2 * n /\ (forall k, 3 * k > 2 * n -> m <= k).
Proof.
  intros H. exists (maj n). split; [apply maj_closed_form; exact H|].
  split; [apply maj_lt_two64; exact H|]. apply maj_spec.
Qed.

Theorem min_least n : in_range n ->
  exists m, byz_minority n = Ok m /\ m < two64 /\ 3 * m >= n /\ (forall k, 3 * k >= n -> m <= k).
Proof.
  intros H. exists (mnr n). split; [apply min_closed_form; exact H|].
  split.
  - destruct H as [H1 H2]. unfold mnr, two64 in *. destruct (N.eqb_spec (n mod 3) 0); lia.
  - apply mnr_spec.
Qed.

Theorem zero_panics : (exists s, byz_majority 0 = Panic s) /\ (exists s, byz_minority 0 = Panic s).
Proof. split; eexists; reflexivity. Qed.

(** Every intermediate of the generated body stays below 2^64: the wrapped result is the
    mathematically exact one, for every n up to 2^64-1. *)
Theorem no_wrap n : in_range n ->
  byz_majority n = Ok (maj n) /\ byz_minority n = Ok (mnr n) /\
  2 * (n / 3) + 2 < two64 /\ n / 3 + 1 < two64.
Proof.
  intros H. split; [apply maj_closed_form; exact H|].
  split; [apply min_closed_form; exact H|].
  destruct H as [H1 H2]. unfold two64 in *. lia.
Qed.

(** Quorum intersection on plain numbers. *)
Theorem quorum_overlap n a b : 1 <= n -> a <= n -> b <= n -> maj n <= a -> maj n <= b ->
  mnr n <= a + b - n /\ n <= a + b.
Proof.
  intros Hn Ha Hb. unfold maj, mnr.
  destruct (N.ltb_spec (n mod 3) 2); destruct (N.eqb_spec (n mod 3) 0); lia.
Qed.

Theorem minority_cannot_block n x : 1 <= n -> x <= n -> x < mnr n ->
  x < maj n /\ maj n <= n - x.
Proof.
  intros Hn Hx. unfold maj, mnr.
  destruct (N.ltb_spec (n mod 3) 2); destruct (N.eqb_spec (n mod 3) 0); lia.
Qed.

(** Weighted form: validators are a list of powers, a signer set is a bitmask (N). *)
Fixpoint pow_from (i : N) (vals : list N) (mask : N) : N :=
  match vals with
  | [] => 0
  | p :: vs => (if N.testbit mask i then p else 0) + pow_from (N.succ i) vs mask
  end.
Definition pow (vals : list N) (mask : N) : N := pow_from 0 vals mask.
Definition total (vals : list N) : N := fold_right N.add 0 vals.

Lemma pow_from_incl_excl i vals a b :
  pow_from i vals a + pow_from i vals b =
  pow_from i vals (N.lor a b) + pow_from i vals (N.land a b).
Proof.
  revert i; induction vals as [|p vs IH]; intros i; simpl; [reflexivity|].
  rewrite N.lor_spec, N.land_spec.
  specialize (IH (N.succ i)).
  destruct (N.testbit a i), (N.testbit b i); simpl; lia.
Qed.

Lemma pow_from_le_total i vals m : pow_from i vals m <= total vals.
Proof.
  revert i; induction vals as [|p vs IH]; intros i; simpl; [lia|].
  specialize (IH (N.succ i)). destruct (N.testbit m i); lia.
Qed.

Theorem weighted_quorum_overlap vals a b :
  1 <= total vals ->
  maj (total vals) <= pow vals a -> maj (total vals) <= pow vals b ->
  mnr (total vals) <= pow vals (N.land a b).
Proof.
  intros Ht Ha Hb. unfold pow in *.
  pose proof (pow_from_incl_excl 0 vals a b) as Hie.
  pose proof (pow_from_le_total 0 vals (N.lor a b)) as Hor.
  pose proof (pow_from_le_total 0 vals a) as Hal.
  pose proof (pow_from_le_total 0 vals b) as Hbl.
  destruct (quorum_overlap (total vals) _ _ Ht Hal Hbl Ha Hb) as [Hq _].
  lia.
Qed.

Example thresholds_examples :
  byz_majority 1 = Ok 1 /\ byz_majority 10 = Ok 7 /\ byz_majority 12 = Ok 9 /\
  byz_majority 18446744073709551615 = Ok 12297829382473034411 /\
  byz_minority 1 = Ok 1 /\ byz_minority 10 = Ok 4 /\ byz_minority 12 = Ok 4 /\
  byz_minority 18446744073709551615 = Ok 6148914691236517205.
Proof. vm_compute. repeat split. Qed.

Example weighted_example :
  pow [1;2;3;4] 12 = 7 /\ total [1;2;3;4] = 10 /\ maj 10 = 7 /\ mnr 10 = 4.
Proof. vm_compute. repeat split. Qed.

(** The executable monitor used on implementation outputs is exactly the "least m" spec. *)
From GV Require Import Monitors.C18m.
Lemma c18_mon_sound n a b : 1 <= n ->
  c18_mon n (Some a) (Some b) = true ->
  (3 * a > 2 * n /\ forall k, 3 * k > 2 * n -> a <= k) /\
  (3 * b >= n /\ forall k, 3 * k >= n -> b <= k).
Proof.
  intros Hn. unfold c18_mon. destruct (N.eqb_spec n 0); [lia|].
  rewrite !andb_true_iff, orb_true_iff. intros H. repeat split; intros; lia.
Qed.

Lemma model_satisfies_c18_mon n : in_range n ->
  exists a b, byz_majority n = Ok a /\ byz_minority n = Ok b /\ c18_mon n (Some a) (Some b) = true.
Proof.
  intros H. exists (maj n), (mnr n).
  split; [apply maj_closed_form; exact H|]. split; [apply min_closed_form; exact H|].
  destruct H as [H1 H2]. unfold c18_mon, maj, mnr, two64 in *.
  destruct (N.eqb_spec n 0); [lia|].
  destruct (N.ltb_spec (n mod 3) 2); destruct (N.eqb_spec (n mod 3) 0);
    rewrite !andb_true_iff, orb_true_iff; repeat split; lia.
Qed.
