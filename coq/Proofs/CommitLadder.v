(** C03 - the commit decision ladders of the state machine and of the mirror kernel, as generated
    from the Go source (Gen/Commit.v, regenerated on every run), decide "commit" exactly when the
    model's quorum test [quorumb] holds for a non-nil block.  This is the static tie between the
    guard of [Model.Network.step] and statemachine.go:handlePrecommitViewUpdate /
    kernel.go:checkVotingPrecommitViewShift. *)
From Coq Require Import List NArith ZArith Bool Lia ZifyBool ZifyN.
From GV Require Import Base.Ints Gen.Math Gen.Commit Proofs.Thresholds Model.Network.
Import ListNotations.
Local Open Scope N_scope.

Lemma majority_ok vals : 1 <= total vals -> total vals < two64 ->
  byz_majority (total vals) = Ok (maj (total vals)).
Proof. intros H1 H2. exact (proj1 (no_wrap (total vals) (conj H1 H2))). Qed.

(** State machine: FinalizeBlockRequest (beginCommit) iff >2/3 of the power precommitted one non-nil block.
    [tot] = TotalPrecommitPower, which is at least the power of any single target. *)
Theorem sm_commit_iff_quorum vals mask tot nil hp hn :
  1 <= total vals -> total vals < two64 -> pow vals mask <= tot ->
  (sm_precommit_ladder (total vals) tot (pow vals mask) nil hp hn = Ok ActBeginCommit <->
   quorumb vals mask = true /\ nil = false).
Proof.
  intros H1 H2 Ht. unfold sm_precommit_ladder, quorumb. rewrite (majority_ok vals H1 H2). cbn [bind].
  destruct (N.leb_spec (maj (total vals)) tot) as [L1|L1];
  destruct (N.leb_spec (maj (total vals)) (pow vals mask)) as [L2|L2];
  destruct nil; try destruct (N.eqb_spec tot (total vals)); split; intros H;
    try discriminate; try (destruct H; discriminate); try tauto; try lia; auto.
Qed.

(** The same decision taken while still waiting for prevotes (handlePrevoteViewUpdate). *)
Theorem sm_prevote_commit_iff_quorum vals mask tot nil hp hn :
  1 <= total vals -> total vals < two64 -> pow vals mask <= tot ->
  (sm_prevote_ladder (total vals) tot (pow vals mask) nil hp hn = Ok ActBeginCommit <->
   quorumb vals mask = true /\ nil = false).
Proof.
  intros H1 H2 Ht. unfold sm_prevote_ladder, quorumb. rewrite (majority_ok vals H1 H2). cbn [bind].
  destruct (N.leb_spec (maj (total vals)) tot) as [L1|L1];
  destruct (N.leb_spec (maj (total vals)) (pow vals mask)) as [L2|L2];
  destruct nil; split; intros H;
    try discriminate; try (destruct H; discriminate); try tauto; try lia; auto.
Qed.

(** Mirror kernel: the voting view is shifted to committing (and the header saved to the
    CommittedHeaderStore) iff >2/3 precommitted one non-nil block whose header is present. *)
Theorem kernel_commit_iff_quorum vals mask tot nil hp hn :
  1 <= total vals -> total vals < two64 ->
  (kernel_precommit_ladder (total vals) tot (pow vals mask) nil hp hn = Ok ActShiftCommit <->
   quorumb vals mask = true /\ nil = false /\ hp = true /\ hn = false).
Proof.
  intros H1 H2. unfold kernel_precommit_ladder, quorumb. rewrite (majority_ok vals H1 H2). cbn [bind].
  destruct (N.ltb_spec (pow vals mask) (maj (total vals))) as [L1|L1];
  destruct (N.leb_spec (maj (total vals)) (pow vals mask)) as [L2|L2]; try lia;
  destruct nil, hp, hn; try destruct (N.eqb_spec tot (total vals)); cbn [negb]; split; intros H;
    try discriminate; try (destruct H as (? & ? & ? & ?); discriminate); auto.
Qed.

(** The model's Finalize guard is the generated state-machine ladder. *)
Theorem model_guard_is_code_guard vals n r b tot hp hn :
  1 <= total (vals (n_height n)) -> total (vals (n_height n)) < two64 ->
  pow (vals (n_height n)) (signers (n_held n) Precommit (n_height n) r b) <= tot ->
  ((exists n', step vals n (Finalize r b) = Some n') <->
   (n_done n = false /\
    sm_precommit_ladder (total (vals (n_height n))) tot
      (pow (vals (n_height n)) (signers (n_held n) Precommit (n_height n) r b)) (b =? 0) hp hn
    = Ok ActBeginCommit)).
Proof.
  intros H1 H2 Ht. rewrite (sm_commit_iff_quorum _ _ tot (b =? 0) hp hn H1 H2 Ht).
  cbn [step]. destruct (n_done n); cbn [negb andb].
  - split; [intros (n' & E); discriminate|intros (E & _); discriminate].
  - destruct (b =? 0); cbn [negb andb].
    + split; [intros (n' & E); discriminate|intros (_ & _ & E); discriminate].
    + destruct (quorumb _ _).
      * split; [auto|eauto].
      * split; [intros (n' & E); discriminate|intros (_ & E & _); discriminate].
Qed.
