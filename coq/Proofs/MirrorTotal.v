(** C09, kernel part: totality of the mirror kernel model ([Model/Mirror.v], [step]) for peer
    messages.  A [Panic] result of [step] models a Go panic in the kernel goroutine.

    The only Panic sites a peer message (proposed header, prevote, precommit) can reach are the
    Byzantine threshold functions ([byz_majority] / [byz_minority], which panic exactly on total
    power 0).  The invariant [tinv] below says that every power total the kernel can ever feed to
    them is positive:
      - the available power of the voting and of the next-round view,
      - the validator set of the committing header (previous-commit-proof check of a proposed header),
      - the two validator sets of every proposed header held by the voting / next-round view (one
        of them becomes the committing header, its next set becomes the voting set).
    It is inductive as long as the NEXT validator set announced by every ACCEPTED proposed header
    and every replayed header has non-zero total power ([step_adm]; [op_wf] is the
    result-independent form).  Nothing is required of a header's OWN validator set: the kernel
    rejects a header whose own set differs from the set of the view it belongs to, and that set
    has non-zero power by the invariant.  The kernel never checks the next set, and without that
    hypothesis the statement is false ([message_panics_refuted] at the end of this file).  *)
From Coq Require Import List NArith Arith Bool Lia String.
From GV Require Import Base.Ints Gen.Math Gen.Kernel Model.Mirror
  Proofs.Thresholds Proofs.MirrorAuth Proofs.MirrorNoop Proofs.MirrorChain Proofs.MirrorCert.
Import ListNotations.
Local Open Scope N_scope.

(** * "returns Ok, and the result satisfies P" *)
Definition okT {A} (P : A -> Prop) (r : res A) : Prop := exists x, r = Ok x /\ P x.

Lemma okT_ret {A} (P : A -> Prop) x : P x -> okT P (Ok x).
Proof. intros H. exists x. split; [reflexivity|exact H]. Qed.

Lemma okT_bind {A B} (Q : A -> Prop) (P : B -> Prop) (r : res A) (f : A -> res B) :
  okT Q r -> (forall x, Q x -> okT P (f x)) -> okT P (bind r f).
Proof. intros (x&->&Hx) Hf. cbn [bind]. apply Hf. exact Hx. Qed.

Lemma okT_mono {A} (P Q : A -> Prop) (r : res A) :
  okT P r -> (forall x, P x -> Q x) -> okT Q r.
Proof. intros (x&E&Hx) H. exists x. split; [exact E|apply H; exact Hx]. Qed.

Lemma okT_ok {A} (P : A -> Prop) (r : res A) : okT P r -> exists x, r = Ok x.
Proof. intros (x&E&_). exists x. exact E. Qed.

(** * The thresholds are defined on every non-zero total below 2^64 *)
Lemma maj_ok n : in_range n -> exists m, byz_majority n = Ok m.
Proof. intros H. destruct (maj_least n H) as (m&Hm&_). exists m. exact Hm. Qed.

Lemma min_ok n : in_range n -> exists m, byz_minority n = Ok m.
Proof. intros H. destruct (min_least n H) as (m&Hm&_). exists m. exact Hm. Qed.

(** * Well-formedness of validator sets and the invariant *)

(** non-zero total power, as the kernel computes it (uint64 sum) *)
Definition pow_ok (vs : valset) : Prop := 0 < sum_pows (vs_pows vs).
Definition pow_okb (vs : valset) : bool := 0 <? sum_pows (vs_pows vs).

Lemma pow_okb_ok vs : pow_okb vs = true <-> pow_ok vs.
Proof. unfold pow_okb, pow_ok. apply N.ltb_lt. Qed.

Lemma pow_ok_range vs : pow_ok vs -> in_range (sum_pows (vs_pows vs)).
Proof. intros H. split; [unfold pow_ok in H; lia|apply sum_pows_lt]. Qed.

(** the mathematically exact total: positive and below 2^64 implies [pow_ok] *)
Lemma sum_pows_total l : sum_pows l = total l mod two64.
Proof.
  unfold sum_pows.
  assert (G : forall a, a < two64 -> fold_left (fun a p => wrap64 (a + p)) l a = (a + total l) mod two64).
  { induction l as [|x l IH]; intros a Ha; cbn [fold_left total fold_right].
    - rewrite N.add_0_r, N.mod_small; [reflexivity|exact Ha].
    - rewrite IH by (unfold wrap64; apply N.mod_upper_bound; unfold two64; lia).
      unfold wrap64. fold (total l).
      rewrite N.add_mod_idemp_l by (unfold two64; lia). f_equal. lia. }
  rewrite G by (unfold two64; lia). reflexivity.
Qed.

Lemma total_pow_ok vs : 0 < total (vs_pows vs) -> total (vs_pows vs) < two64 -> pow_ok vs.
Proof. intros H1 H2. unfold pow_ok. rewrite sum_pows_total, N.mod_small; assumption. Qed.

Definition hdr_wf (x : hdr) : Prop := pow_ok (hd_vals x) /\ pow_ok (hd_next x).

(** what totality of the next step needs *)
Definition aok (s : kstate) : Prop :=
  in_range (sm_avail (v_sum (k_vot s))) /\ in_range (sm_avail (v_sum (k_nxt s))) /\
  (forall ch, k_chdr s = Some ch -> pow_ok (hd_vals ch)).

(** what keeps [aok] true across a commit *)
Definition pok (s : kstate) : Prop :=
  forall p, In p (v_phs (k_vot s)) \/ In p (v_phs (k_nxt s)) -> hdr_wf (ph_hdr p).

Definition tinv (s : kstate) : Prop := aok s /\ pok s.

Lemma aok_frame s s' :
  sm_avail (v_sum (k_vot s')) = sm_avail (v_sum (k_vot s)) ->
  sm_avail (v_sum (k_nxt s')) = sm_avail (v_sum (k_nxt s)) ->
  k_chdr s' = k_chdr s -> aok s -> aok s'.
Proof. intros E1 E2 E3. unfold aok. rewrite E1, E2, E3. intros H; exact H. Qed.

Lemma pok_frame s s' :
  v_phs (k_vot s') = v_phs (k_vot s) -> v_phs (k_nxt s') = v_phs (k_nxt s) -> pok s -> pok s'.
Proof. intros E1 E2. unfold pok. rewrite E1, E2. intros H; exact H. Qed.

(** ** Round increments *)
Lemma aok_increment s : aok s -> aok (update_observers (increment_voting_round s)).
Proof.
  intros (A&B&C). unfold aok, update_observers, increment_voting_round. cbn.
  split; [exact B|]. split; [exact A|exact C].
Qed.

Lemma pok_increment s : pok s -> pok (update_observers (increment_voting_round s)).
Proof.
  intros H. unfold pok, update_observers, increment_voting_round. cbn.
  intros p [Hp|[]]. apply H. right. exact Hp.
Qed.

Lemma aok_advance s : aok s -> aok (advance_voting_round s).
Proof. intros H. exact (aok_increment (ev_w s (EvNil (k_vot s))) H). Qed.
Lemma pok_advance s : pok s -> pok (advance_voting_round s).
Proof. intros H. exact (pok_increment (ev_w s (EvNil (k_vot s))) H). Qed.
Lemma aok_jump s : aok s -> aok (jump_voting_round s).
Proof. intros H. exact (aok_increment s H). Qed.
Lemma pok_jump s : pok s -> pok (jump_voting_round s).
Proof. intros H. exact (pok_increment s H). Qed.

(** ** The commit shift: the only place where new power totals enter the views *)
Lemma tinv_shift s p : pok s -> In p (v_phs (k_vot s)) ->
  tinv (shift_voting_to_committing s (ph_hdr p)).
Proof.
  intros Hp Hin. destruct (Hp p (or_introl Hin)) as [Hv Hn].
  pose proof (pow_ok_range _ Hn) as Hr.
  unfold tinv, aok, pok, shift_voting_to_committing, update_observers. cbn.
  split; [split; [exact Hr|split; [exact Hr|]]|].
  - intros ch E. inversion E; subst ch. exact Hv.
  - intros q [[]|[]].
Qed.

(** ** The three shift checks *)
Lemma check_voting_total s : aok s ->
  okT (fun s' => pok s -> tinv s') (check_voting_precommit_shift s).
Proof.
  intros H. pose proof H as (A&_&_). unfold check_voting_precommit_shift. cbv zeta.
  destruct (maj_ok _ A) as [maj Hm]. rewrite Hm. cbn [bind].
  assert (Hadv : okT (fun s' => pok s -> tinv s') (Ok (advance_voting_round s))).
  { apply okT_ret. intros Hp. split; [apply aok_advance; exact H|apply pok_advance; exact Hp]. }
  assert (Hsame : okT (fun s' => pok s -> tinv s') (Ok s)).
  { apply okT_ret. intros Hp. split; assumption. }
  destruct (_ <? maj).
  - destruct (_ =? _); assumption.
  - destruct (sm_mpc _); [exact Hadv|].
    destruct (find _ _) as [p|] eqn:Hf; [|exact Hsame].
    apply okT_ret. intros Hp. apply tinv_shift; [exact Hp|eapply find_in; exact Hf].
Qed.

Lemma check_next_round_total s : aok s ->
  okT (fun s' => pok s -> tinv s') (check_next_round_precommit_shift s).
Proof.
  intros H. pose proof H as (_&B&_). unfold check_next_round_precommit_shift. cbv zeta.
  destruct (min_ok _ B) as [mn Hn]. rewrite Hn. cbn [bind].
  destruct (_ <? mn); [apply okT_ret; intros Hp; split; assumption|].
  destruct (maj_ok _ B) as [maj Hm]. rewrite Hm. cbn [bind].
  destruct (maj <=? _).
  - eapply okT_mono; [apply check_voting_total, aok_jump, H|].
    cbv beta. intros s' Hs' Hp. apply Hs', pok_jump, Hp.
  - apply okT_ret. intros Hp. split; [apply aok_jump; exact H|apply pok_jump; exact Hp].
Qed.

Lemma check_prevote_total s : aok s ->
  okT (fun s' => pok s -> tinv s') (check_prevote_shift s).
Proof.
  intros H. pose proof H as (_&B&_). unfold check_prevote_shift. cbv zeta.
  destruct (min_ok _ B) as [mn Hn]. rewrite Hn. cbn [bind].
  destruct (_ <? mn); apply okT_ret; intros Hp.
  - split; assumption.
  - split; [apply aok_jump; exact H|apply pok_jump; exact Hp].
Qed.

(** ** Votes *)
Lemma sm_avail_set_prevotes sm pows pm : sm_avail (sum_set_prevotes sm pows pm) = sm_avail sm.
Proof. unfold sum_set_prevotes. destruct (set_powers pows pm) as [[t b] m]. reflexivity. Qed.
Lemma sm_avail_set_precommits sm pows pm : sm_avail (sum_set_precommits sm pows pm) = sm_avail sm.
Proof. unfold sum_set_precommits. destruct (set_powers pows pm) as [[t b] m]. reflexivity. Qed.

Lemma apply_votes_total kind s vid h r ups : aok s ->
  okT (fun s' => pok s -> tinv s') (apply_votes kind s vid h r ups).
Proof.
  intros H. unfold apply_votes.
  set (v := get_view s vid).
  set (votes' := fold_left (fun m e => pm_set m (fst e) (snd e)) ups (view_votes kind v)).
  set (v1 := if kind =? KPrevote then with_pv v votes' else with_pc v votes').
  set (sm' := if kind =? KPrevote then sum_set_prevotes _ _ _ else _).
  set (v2 := bump (with_sum v1 sm')).
  set (s1 := put_view s vid v2).
  set (s2 := ev_w (log_w (set_rounds s1 _) _) _).
  assert (Ea : sm_avail (v_sum v2) = sm_avail (v_sum v)).
  { unfold v2, v1, sm'. destruct (kind =? KPrevote); cbn [v_sum bump with_sum with_pv with_pc];
      [apply sm_avail_set_prevotes|apply sm_avail_set_precommits]. }
  assert (Ep : v_phs v2 = v_phs v).
  { unfold v2, v1. destruct (kind =? KPrevote); reflexivity. }
  assert (H2 : aok s2 /\ (pok s -> pok s2)).
  { unfold s2, s1, put_view, v in *. unfold get_view in *.
    destruct (vid =? ViewIDVoting); [|destruct (vid =? ViewIDCommitting)];
      (split; [eapply aok_frame; [| | |exact H]; cbn; auto
              |intros Hp; eapply pok_frame; [| |exact Hp]; cbn; auto]). }
  destruct H2 as [A2 P2].
  assert (Hsame : okT (fun s' => pok s -> tinv s') (Ok s2)).
  { apply okT_ret. intros Hp. split; [exact A2|apply P2; exact Hp]. }
  assert (Hmono : forall r0, okT (fun s' => pok s2 -> tinv s') r0 -> okT (fun s' => pok s -> tinv s') r0).
  { intros r0 Hr. eapply okT_mono; [exact Hr|]. cbv beta. intros s' Hs' Hp. apply Hs', P2, Hp. }
  destruct (kind =? KPrevote).
  - destruct (vid =? ViewIDNextRound); [apply Hmono, check_prevote_total, A2|exact Hsame].
  - destruct (vid =? ViewIDVoting); [apply Hmono, check_voting_total, A2|].
    destruct (vid =? ViewIDNextRound); [apply Hmono, check_next_round_total, A2|exact Hsame].
Qed.

Lemma handle_future_total kind s m : tinv s ->
  okT (fun sr => tinv (fst sr)) (handle_future_votes kind s m).
Proof.
  intros H. unfold handle_future_votes.
  assert (Hsame : forall r0, okT (fun sr : kstate * N => tinv (fst sr)) (Ok (s, r0)))
    by (intros r0; apply okT_ret; exact H).
  destruct (if vm_h m =? _ then _ else _) as [keys|]; [|apply Hsame].
  destruct keys; [apply Hsame|].
  destruct (negb (bytes_eqb _ _)); [apply Hsame|].
  destruct (match coll_of _ _ with Some c => c | None => _ end) as [spkh stored].
  destruct (fold_left _ _ _) as [[full' allv] inc].
  destruct (negb allv); [apply Hsame|].
  destruct (negb inc); [apply Hsame|].
  apply okT_ret. exact H.
Qed.

Lemma handle_votes_total kind s m : tinv s ->
  okT (fun sr => tinv (fst sr)) (handle_votes kind s m).
Proof.
  intros H. unfold handle_votes.
  assert (Hsame : forall r0, okT (fun sr : kstate * N => tinv (fst sr)) (Ok (s, r0)))
    by (intros r0; apply okT_ret; exact H).
  destruct (vm_proofs m) as [|vp0 vpl] eqn:Hp; [apply Hsame|].
  rewrite <- Hp. clear Hp vp0 vpl.
  destruct (find_view_total (kpos_of s) (vm_h m) (vm_r m)) as (vid&st&Hfv). rewrite Hfv. cbn [bind].
  destruct (st =? ViewFuture); [apply handle_future_total; exact H|].
  destruct (negb (st =? ViewFound)); [apply Hsame|].
  destruct (negb (bytes_eqb _ _)); [apply Hsame|].
  destruct (sigs_to_add _ _ _) as [|x0 l0] eqn:Hs; [apply Hsame|]. rewrite <- Hs. clear Hs.
  destruct (build_updates _ _ _) as [ups allv].
  destruct ups as [|u ups'] eqn:Hu; [apply Hsame|]. rewrite <- Hu. clear Hu.
  eapply okT_bind; [apply apply_votes_total; exact (proj1 H)|].
  cbv beta. intros s' Hs'. apply okT_ret. cbn [fst]. apply Hs'. exact (proj2 H).
Qed.

(** ** Proposed headers *)
Lemma tinv_backfill s p : tinv s -> tinv (backfill_commit s p).
Proof.
  unfold backfill_commit. destruct (fold_left _ _ _) as [pc' any].
  destruct any; intros H; exact H.
Qed.

Lemma aok_backfill s p : aok s -> aok (backfill_commit s p).
Proof.
  unfold backfill_commit. destruct (fold_left _ _ _) as [pc' any].
  destruct any; intros H; exact H.
Qed.

Lemma pok_backfill s p : pok s -> pok (backfill_commit s p).
Proof.
  unfold backfill_commit. destruct (fold_left _ _ _) as [pc' any].
  destruct any; intros H; exact H.
Qed.

(** adding a header to one of the three views: no power total changes; the proposal lists of
    the voting / next-round views grow by [p] at most (not at all for the committing view) *)
Lemma put_phs_ok s vid p :
  let s1 := put_view s vid (bump (with_phs (get_view s vid) (v_phs (get_view s vid) ++ [p]))) in
  (aok s -> aok s1) /\
  (pok s -> ((vid =? ViewIDVoting) = false /\ (vid =? ViewIDCommitting) = true) \/ hdr_wf (ph_hdr p) -> pok s1).
Proof.
  unfold get_view, put_view.
  destruct (vid =? ViewIDVoting); [|destruct (vid =? ViewIDCommitting)]; cbn; split;
    try (intros H; exact H).
  - intros Hp [[E _]|Hw]; [discriminate|]. intros q [Hq|Hq].
    + apply in_app_or in Hq as [Hq|[Hq|[]]]; [apply Hp; left; exact Hq|subst q; exact Hw].
    + apply Hp; right; exact Hq.
  - intros Hp _. exact Hp.
  - intros Hp [[_ E]|Hw]; [discriminate|]. intros q [Hq|Hq].
    + apply Hp; left; exact Hq.
    + apply in_app_or in Hq as [Hq|[Hq|[]]]; [apply Hp; right; exact Hq|subst q; exact Hw].
Qed.

(** the header's own validator set matters only when it enters the voting / next-round view,
    i.e. when the header is for the voting height *)
Lemma add_ph_total s p : tinv s ->
  okT (fun s' => pow_ok (hd_next (ph_hdr p)) ->
                 (pow_ok (hd_vals (ph_hdr p)) \/ hd_height (ph_hdr p) <> v_h (k_vot s)) -> tinv s')
      (add_ph s p).
Proof.
  intros H. unfold add_ph.
  destruct (find_view_total (kpos_of s) (hd_height (ph_hdr p)) (ph_round p)) as (vid&st&Hfv).
  rewrite Hfv. cbn [bind].
  set (P := fun s' => pow_ok (hd_next (ph_hdr p)) ->
                 (pow_ok (hd_vals (ph_hdr p)) \/ hd_height (ph_hdr p) <> v_h (k_vot s)) -> tinv s').
  assert (Hsame : okT P (Ok s)) by (apply okT_ret; intros _ _; exact H).
  destruct (st =? ViewFound) eqn:Hst; cbn [negb]; [|exact Hsame]. apply N.eqb_eq in Hst.
  destruct (existsb _ _); [exact Hsame|].
  assert (Hw : pow_ok (hd_next (ph_hdr p)) ->
               (pow_ok (hd_vals (ph_hdr p)) \/ hd_height (ph_hdr p) <> v_h (k_vot s)) ->
               ((vid =? ViewIDVoting) = false /\ (vid =? ViewIDCommitting) = true) \/ hdr_wf (ph_hdr p)).
  { intros Hn Hv.
    destruct (find_view_found _ _ _ _ _ Hfv Hst) as [(A&B&_)|[(A&B&_)|(A&_)]]; subst vid.
    - right. cbn in B. destruct Hv as [Hv|Hv]; [split; assumption|contradiction].
    - right. cbn in B. destruct Hv as [Hv|Hv]; [split; assumption|contradiction].
    - left. split; reflexivity. }
  destruct (put_phs_ok s vid p) as [A1 P1]. cbv zeta in A1, P1.
  set (s1 := put_view s vid _) in *.
  set (s2 := ev_w (log_w (set_rounds s1 _) _) _).
  assert (A2 : aok s2) by (apply A1; exact (proj1 H)).
  assert (P2 : pow_ok (hd_next (ph_hdr p)) ->
               (pow_ok (hd_vals (ph_hdr p)) \/ hd_height (ph_hdr p) <> v_h (k_vot s)) -> pok s2)
    by (intros Hn Hv; apply P1; [exact (proj2 H)|apply Hw; assumption]).
  destruct (negb _); [apply okT_ret; intros Hn Hv; split; [exact A2|apply P2; assumption]|].
  pose proof (aok_backfill s2 p A2) as A3.
  assert (P3 : pow_ok (hd_next (ph_hdr p)) ->
               (pow_ok (hd_vals (ph_hdr p)) \/ hd_height (ph_hdr p) <> v_h (k_vot s)) -> pok (backfill_commit s2 p))
    by (intros Hn Hv; apply pok_backfill, P2; assumption).
  assert (Hs3 : okT P (Ok (backfill_commit s2 p)))
    by (apply okT_ret; intros Hn Hv; split; [exact A3|apply P3; assumption]).
  destruct (vid =? ViewIDVoting); [|exact Hs3].
  destruct (pm_get _ _); [|exact Hs3].
  eapply okT_mono; [apply check_voting_total; exact A3|].
  cbv beta. intros s' Hs' Hn Hv. apply Hs', P3; assumption.
Qed.

(** the validator set the previous-commit-proof check counts against *)
Lemma ph_check_prev_vs s p status proposer prev_hash prev_vs view_vs :
  aok s -> ph_check s p = PHC status proposer prev_hash prev_vs view_vs ->
  vs_keys prev_vs = [] \/ pow_ok prev_vs.
Proof.
  intros (_&_&C) Hc.
  assert (G : forall v vid, set_ph_check_status s p v vid = PHC status proposer prev_hash prev_vs view_vs ->
              vs_keys prev_vs = [] \/ pow_ok prev_vs).
  { intros v vid. unfold set_ph_check_status.
    destruct (existsb _ _); [intros E; inversion E; subst; left; reflexivity|].
    destruct (ph_key p); [|intros E; inversion E; subst; left; reflexivity].
    destruct (negb _); [intros E; inversion E; subst; left; reflexivity|].
    destruct (_ =? k_init_h s); [intros E; inversion E; subst; left; reflexivity|].
    destruct (k_chdr s) as [ch|] eqn:Hch; [|intros E; inversion E; subst; left; reflexivity].
    destruct (vid =? ViewIDCommitting); intros E; inversion E; subst; [left; reflexivity|].
    right. apply C. reflexivity. }
  unfold ph_check in Hc. cbv zeta in Hc.
  repeat match type of Hc with
         | (if ?c then _ else _) = _ => destruct c
         end;
    try (inversion Hc; subst; left; reflexivity); eapply G; exact Hc.
Qed.

(** the validator set an acceptable header must name as its own: the set of the view it belongs
    to; for a header of the voting height that set has non-zero power *)
Lemma ph_check_view_vs ih ivs s p status proposer prev_hash prev_vs view_vs :
  cinv ih ivs s -> sinv s -> aok s ->
  ph_check s p = PHC status proposer prev_hash prev_vs view_vs -> status = PHCheckAcceptable ->
  pow_ok view_vs \/ hd_height (ph_hdr p) <> v_h (k_vot s).
Proof.
  intros Hc [[Sv _] [Sn _]] (A&B&_) Hp Hs.
  assert (Pv : pow_ok (v_vals (k_vot s))) by (unfold pow_ok; rewrite <- Sv; destruct A; lia).
  assert (Pn : pow_ok (v_vals (k_nxt s))) by (unfold pow_ok; rewrite <- Sn; destruct B; lia).
  assert (Hcom : v_h (k_com s) < v_h (k_vot s)).
  { destruct Hc as (_&_&Hi3&_&_&_&_&_&_&_&Hch). unfold chain_ok in Hch.
    destruct (k_chdr s); [destruct Hch as (X&Y&_)|destruct Hch as (X&_&_&Y)]; lia. }
  assert (G : forall v vid, set_ph_check_status s p v vid = PHC status proposer prev_hash prev_vs view_vs ->
              view_vs = v_vals v).
  { intros v vid. unfold set_ph_check_status.
    destruct (existsb _ _); [intros E; inversion E; subst; discriminate|].
    destruct (ph_key p); [|intros E; inversion E; subst; discriminate].
    destruct (negb _); [intros E; inversion E; subst; discriminate|].
    destruct (_ =? k_init_h s); [intros E; inversion E; reflexivity|].
    destruct (k_chdr s) as [ch|]; [destruct (vid =? ViewIDCommitting)|]; intros E; inversion E; reflexivity. }
  destruct (N.eq_dec (hd_height (ph_hdr p)) (v_h (k_vot s))) as [Eh|Ne]; [left|right; exact Ne].
  unfold ph_check in Hp. cbv zeta in Hp. rewrite Eh in Hp.
  destruct (N.ltb_spec (v_h (k_vot s)) (v_h (k_com s))); [lia|].
  destruct (N.eqb_spec (v_h (k_vot s)) (v_h (k_com s))); [lia|].
  rewrite N.eqb_refl in Hp.
  destruct (_ <? _); [inversion Hp; subst; discriminate|].
  destruct (_ =? _); [rewrite (G _ _ Hp); exact Pv|].
  destruct (_ =? _); [rewrite (G _ _ Hp); exact Pn|].
  inversion Hp; subst; discriminate.
Qed.

Lemma valset_equal_pow_ok a b : valset_equal a b = true -> pow_ok b -> pow_ok a.
Proof. intros E H. destruct (valset_equal_keys _ _ E) as [_ Ep]. unfold pow_ok. rewrite Ep. exact H. Qed.

Lemma handle_ph_loop_total ih ivs fuel : forall backfilled s p, INV ih ivs s -> tinv s ->
  okT (fun sr => (snd sr = HandleProposedHeaderAccepted -> pow_ok (hd_next (ph_hdr p))) -> tinv (fst sr))
      (handle_ph_loop fuel backfilled s p).
Proof.
  assert (Hbody : forall s p proposer prev_hash prev_vs view_vs,
    tinv s -> (vs_keys prev_vs = [] \/ pow_ok prev_vs) ->
    (pow_ok view_vs \/ hd_height (ph_hdr p) <> v_h (k_vot s)) ->
    okT (fun sr => (snd sr = HandleProposedHeaderAccepted -> pow_ok (hd_next (ph_hdr p))) -> tinv (fst sr))
    (let hd := ph_hdr p in
      if negb (hd_ok hd) then Ok (s, HandleProposedHeaderBadBlockHash)
      else if negb (vs_ok (hd_vals hd) && vs_ok (hd_next hd)) then Ok (s, HandleProposedHeaderBadBlockHash)
      else if negb (valset_equal (hd_vals hd) view_vs) then Ok (s, HandleProposedHeaderBadBlockHash)
      else
        match proposer with
        | None => Ok (s, HandleProposedHeaderBadSignature)
        | Some key =>
          if negb (verify_prop key (ph_content p) (ph_round p) (ph_sig p)) then Ok (s, HandleProposedHeaderBadSignature)
          else if negb (hd_height hd =? k_init_h s) && negb (bytes_eqb (hd_prev hd) prev_hash)
          then Ok (s, HandleProposedHeaderBadBlockHash)
          else if negb (bytes_eqb (vs_pkh prev_vs) (cp_pkh (hd_pcp hd)))
          then Ok (s, HandleProposedHeaderBadPrevCommitProofPubKeyHash)
          else
            let accept := bind (add_ph s p) (fun s' => Ok (s', HandleProposedHeaderAccepted)) in
            if k_init_h s <? hd_height hd then
              match vs_keys prev_vs with
              | [] => Ok (s, HandleProposedHeaderBadPrevCommitProofPubKeyHash)
              | _ =>
                match validate_finalized (sub64 (hd_height hd) 1) (cp_round (hd_pcp hd)) (vs_keys prev_vs)
                        (hd_prev hd) (cp_proofs (hd_pcp hd)) with
                | (_, false) => Ok (s, HandleProposedHeaderBadPrevCommitProofDoubleSigned)
                | (None, true) => Ok (s, HandleProposedHeaderBadPrevCommitProofSignature)
                | (Some bits, true) =>
                    let avail := sum_pows (vs_pows prev_vs) in
                    bind (byz_majority avail) (fun maj =>
                    if idx_power (vs_pows prev_vs) bits <? maj
                    then Ok (s, HandleProposedHeaderBadPrevCommitVoteCount)
                    else accept)
                end
              end
            else accept
        end)).
  { intros s p proposer prev_hash prev_vs view_vs H Hpv Hvv. cbv zeta.
    set (P := fun sr : kstate * N => (snd sr = HandleProposedHeaderAccepted -> pow_ok (hd_next (ph_hdr p))) -> tinv (fst sr)).
    assert (Hsame : forall r0, okT P (Ok (s, r0))) by (intros r0; apply okT_ret; intros _; exact H).
    destruct (negb (hd_ok _)); [apply Hsame|].
    destruct (negb (_ && _)); [apply Hsame|].
    destruct (valset_equal (hd_vals (ph_hdr p)) view_vs) eqn:Hveq; cbn [negb]; [|apply Hsame].
    assert (Hvals : pow_ok (hd_vals (ph_hdr p)) \/ hd_height (ph_hdr p) <> v_h (k_vot s)).
    { destruct Hvv as [Hvv|Hvv]; [left; eapply valset_equal_pow_ok; eassumption|right; exact Hvv]. }
    destruct proposer as [key|]; [|apply Hsame].
    destruct (negb (verify_prop _ _ _ _)); [apply Hsame|].
    destruct (negb _ && negb _); [apply Hsame|].
    destruct (negb (bytes_eqb _ _)); [apply Hsame|].
    assert (Hacc : okT P (bind (add_ph s p) (fun s' => Ok (s', HandleProposedHeaderAccepted)))).
    { eapply okT_bind; [apply add_ph_total; exact H|]. cbv beta. intros s' Hs'. apply okT_ret.
      unfold P. cbn [fst snd]. intros Hw. apply Hs'; [apply Hw; reflexivity|exact Hvals]. }
    destruct (k_init_h s <? _); [|exact Hacc].
    destruct (vs_keys prev_vs) as [|k0 kl] eqn:Hk; [apply Hsame|].
    destruct (validate_finalized _ _ _ _ _) as [[bits|] [|]]; try apply Hsame.
    destruct Hpv as [Hpv|Hpv]; [rewrite Hpv in Hk; discriminate|].
    destruct (maj_ok _ (pow_ok_range _ Hpv)) as [maj Hm]. rewrite Hm. cbn [bind].
    destruct (_ <? maj); [apply Hsame|exact Hacc]. }
  induction fuel as [|f IH]; intros backfilled s p HI H; cbn [handle_ph_loop];
    destruct (ph_check s p) as [status proposer prev_hash prev_vs view_vs] eqn:Hc.
  all: assert (Hsame : forall r0, okT (fun sr : kstate * N => (snd sr = HandleProposedHeaderAccepted -> pow_ok (hd_next (ph_hdr p))) -> tinv (fst sr)) (Ok (s, r0)))
         by (intros r0; apply okT_ret; intros _; exact H).
  all: pose proof (ph_check_prev_vs _ _ _ _ _ _ _ (proj1 H) Hc) as Hpv.
  all: destruct (status =? PHCheckAlreadyHaveSignature) eqn:S1; [apply Hsame|].
  all: destruct (status =? PHCheckSignerUnrecognized) eqn:S2; [apply Hsame|].
  all: destruct (status =? PHCheckRoundTooOld) eqn:S3; [apply Hsame|].
  all: destruct (status =? PHCheckRoundTooFarInFuture) eqn:S4; [apply Hsame|].
  all: destruct (status =? PHCheckNextHeight) eqn:S5.
  - destruct backfilled; apply Hsame.
  - apply Hbody; try assumption.
    destruct HI as (HIc&_&HIs&_).
    eapply ph_check_view_vs; [exact HIc|exact HIs|exact (proj1 H)|exact Hc|eapply status_acceptable; eassumption].
  - destruct backfilled; [apply Hsame|].
    destruct (handle_votes_total KPrecommit s (vote_msg_of_pcp p) H) as ([s1 r1]&Hv&Hs1).
    rewrite Hv. cbn [bind fst]. cbn [fst] in Hs1. apply IH; [|exact Hs1].
    eapply INV_handle_votes; [right; reflexivity|exact HI|exact Hv].
  - apply Hbody; try assumption.
    destruct HI as (HIc&_&HIs&_).
    eapply ph_check_view_vs; [exact HIc|exact HIs|exact (proj1 H)|exact Hc|eapply status_acceptable; eassumption].
Qed.

Lemma handle_ph_total ih ivs s p : INV ih ivs s -> tinv s ->
  okT (fun sr => (snd sr = HandleProposedHeaderAccepted -> pow_ok (hd_next (ph_hdr p))) -> tinv (fst sr))
      (handle_ph s p).
Proof.
  intros HI H. unfold handle_ph. destruct (ph_key p).
  - apply (handle_ph_loop_total ih ivs); assumption.
  - apply okT_ret. intros _. exact H.
Qed.

(** * Replayed headers *)

(** [handle_replay], restructured into named pieces (definitionally the same function).  The
    header and its commit proof are validated against the state [replay_jumped s0 cp] (the mirror
    moved to the replayed round); every rejection returns the ORIGINAL state [s0]. *)
Definition replay_jumped (s0 : kstate) (cp : cproof) : kstate :=
  jump_until (N.to_nat (cp_round cp - v_r (k_vot s0))) s0 (cp_round cp).

Definition replay_temp (s : kstate) (hd : hdr) (cp : cproof) : pmap * bool :=
  fold_left (fun acc e =>
      let '(tm, av) := acc in
      let base := match pm_get (v_pc (k_vot s)) (fst e) with Some p => p | None => [] end in
      let '(p', a, _) := merge_sparse KPrecommit (hd_height hd) (cp_round cp) (fst e) (vs_keys (hd_vals hd)) base (snd e) in
      (pm_set tm (fst e) p', av && a)) (signed_entries (cp_proofs cp)) ([], true).

(** applying a validated replay: insertion of the header, the precommits, the shift check *)
Definition replay_apply (s : kstate) (hd : hdr) (cp : cproof) (temp : pmap) : res (kstate * N) :=
  bind (replay_insert s hd (cp_round cp)) (fun s1 =>
      let v := k_vot s1 in
      let pc' := fold_left (fun m e => pm_set m (fst e) (snd e)) temp (v_pc v) in
      let v1 := with_pc v pc' in
      let v2 := bump (with_sum v1 (sum_set_precommits (v_sum v1) (vs_pows (v_vals v1)) pc')) in
      let coll := map_to_sparse (vs_pkh (v_vals v2)) pc' in
      let s2 := ev_w (log_w (set_rounds (set_vot s1 v2) (rs_overwrite_pc (st_rounds s1) (hd_height hd) (cp_round cp) coll))
                            (WPC (hd_height hd) (cp_round cp) coll)) (EvMark ViewIDVoting v2) in
      bind (check_voting_precommit_shift s2) (fun s3 => Ok (s3, 0))).

Definition site_replay_earlier : string := "handleReplayedHeader: TODO: handle replay for earlier round".
Definition site_replay_fuel : string := "model: out of fuel in the replay round jump".

Definition handle_replay' (s0 : kstate) (hd : hdr) (cp : cproof) : res (kstate * N) :=
  if negb (hd_height hd =? v_h (k_vot s0)) then Ok (s0, 1)
  else if cp_round cp <? v_r (k_vot s0) then Panic site_replay_earlier
  else
  let s := replay_jumped s0 cp in
  if negb ((v_r (k_vot s) =? cp_round cp) && (v_h (k_vot s) =? hd_height hd)) then Panic site_replay_fuel else
  if negb (hd_ok hd) then Ok (s0, 2)
  else if negb (hd_height hd =? k_init_h s) && negb (bytes_eqb (hd_prev hd) (chdr_hash s)) then Ok (s0, 2)
  else if negb (valset_equal (hd_vals hd) (v_vals (k_vot s)) && vs_ok (hd_vals hd)) then Ok (s0, 2)
  else if negb (vs_ok (hd_next hd)) then Ok (s0, 2)
  else
  let '(temp, allv) := replay_temp s hd cp in
  if negb allv then Ok (s0, 2) else
  match pm_get temp (hd_hash hd) with
  | None => Ok (s0, 2)
  | Some hp =>
      bind (byz_majority (sm_avail (v_sum (k_vot s)))) (fun maj =>
      if proof_power (vs_pows (hd_vals hd)) hp <? maj then Ok (s0, 2) else replay_apply s hd cp temp)
  end.

Lemma handle_replay_eq s0 hd cp : handle_replay s0 hd cp = handle_replay' s0 hd cp.
Proof. reflexivity. Qed.

(** ** The guards of the two Panic sites of [handle_replay] *)

(** the header is for the voting height but for a round the mirror has already left *)
Definition replay_earlier_guard (s0 : kstate) (hd : hdr) (cp : cproof) : bool :=
  (hd_height hd =? v_h (k_vot s0)) && (cp_round cp <? v_r (k_vot s0)).

(** the model's jump loop did not arrive at the replayed round (unreachable for uint32 rounds) *)
Definition replay_fuel_guard (s0 : kstate) (hd : hdr) (cp : cproof) : bool :=
  (hd_height hd =? v_h (k_vot s0)) && (v_r (k_vot s0) <=? cp_round cp) &&
  negb ((v_r (k_vot (replay_jumped s0 cp)) =? cp_round cp) &&
        (v_h (k_vot (replay_jumped s0 cp)) =? hd_height hd)).

(** ** The jump loop reaches the replayed round (the "out of fuel" site is unreachable) *)
Lemma jump_round ih ivs s : cinv ih ivs s -> v_r (k_vot s) + 1 < two32 ->
  v_r (k_vot (jump_voting_round s)) = v_r (k_vot s) + 1 /\
  v_h (k_vot (jump_voting_round s)) = v_h (k_vot s).
Proof.
  intros (_&_&_&Hnh&Hnr&_) Hb.
  unfold jump_voting_round, update_observers, increment_voting_round. cbn [k_vot set_vot set_nxt ev_w log_w set_nhr v_r v_h bump].
  rewrite Hnr, Hnh. split; [|reflexivity]. unfold wrap32. apply N.mod_small. exact Hb.
Qed.

Lemma jump_until_reaches ih ivs fuel : forall s r,
  cinv ih ivs s -> v_r (k_vot s) <= r -> r < two32 ->
  (N.to_nat (r - v_r (k_vot s)) <= fuel)%nat ->
  v_r (k_vot (jump_until fuel s r)) = r /\ v_h (k_vot (jump_until fuel s r)) = v_h (k_vot s).
Proof.
  induction fuel as [|f IH]; intros s r H Hle Hr Hf; cbn [jump_until].
  - split; [lia|reflexivity].
  - destruct (N.ltb_spec (v_r (k_vot s)) r) as [Hlt|Hge]; [|split; [lia|reflexivity]].
    destruct (jump_round ih ivs s H) as [E1 E2]; [lia|].
    destruct (IH (jump_voting_round s) r (cinv_jump _ _ _ H)) as [F1 F2]; [lia|lia|lia|].
    split; [exact F1|congruence].
Qed.

Lemma replay_jumped_reaches ih ivs s0 cp :
  cinv ih ivs s0 -> v_r (k_vot s0) <= cp_round cp -> cp_round cp < two32 ->
  v_r (k_vot (replay_jumped s0 cp)) = cp_round cp /\ v_h (k_vot (replay_jumped s0 cp)) = v_h (k_vot s0).
Proof. intros H Hle Hb. apply (jump_until_reaches ih ivs); try assumption. lia. Qed.

Lemma replay_fuel_guard_false ih ivs s0 hd cp :
  cinv ih ivs s0 -> cp_round cp < two32 -> replay_fuel_guard s0 hd cp = false.
Proof.
  intros H Hb. unfold replay_fuel_guard.
  destruct (N.eqb_spec (hd_height hd) (v_h (k_vot s0))) as [Hh|_]; [|reflexivity].
  destruct (N.leb_spec (v_r (k_vot s0)) (cp_round cp)) as [Hle|_]; [|reflexivity].
  destruct (replay_jumped_reaches ih ivs s0 cp H Hle Hb) as [E1 E2].
  rewrite E1, E2, Hh, !N.eqb_refl. reflexivity.
Qed.

Lemma tinv_jump_until fuel : forall s r, tinv s -> tinv (jump_until fuel s r).
Proof.
  induction fuel as [|f IH]; intros s r H; cbn [jump_until]; [exact H|].
  destruct (_ <? _); [|exact H]. apply IH. split; [apply aok_jump, H|apply pok_jump, H].
Qed.

(** ** Totality of the replay handler outside the guards *)
Lemma replay_insert_total s hd r : tinv s ->
  okT (fun s1 => aok s1 /\ (hdr_wf hd -> pok s1)) (replay_insert s hd r).
Proof.
  intros [A P]. unfold replay_insert.
  destruct (existsb _ (v_phs (k_vot s))).
  - apply okT_ret. split; [exact A|intros _; exact P].
  - destruct (existsb _ (st_rounds s)); apply okT_ret; (split; [exact A|]);
      intros Hw q [Hq|Hq]; cbn in Hq;
      try (apply in_app_or in Hq as [Hq|[Hq|[]]]; [apply P; left; exact Hq|subst q; exact Hw]);
      apply P; right; exact Hq.
Qed.

Lemma replay_apply_total s hd cp temp : tinv s ->
  okT (fun sr => snd sr = 0 /\ (hdr_wf hd -> tinv (fst sr))) (replay_apply s hd cp temp).
Proof.
  intros H. unfold replay_apply.
  eapply okT_bind; [apply replay_insert_total; exact H|]. cbv beta. intros s1 (A1&P1). cbv zeta.
  match goal with |- okT _ (bind (check_voting_precommit_shift ?X) _) => set (s2 := X) end.
  assert (A2 : aok s2).
  { eapply aok_frame; [| | |exact A1]; unfold s2;
      cbn [k_vot k_nxt k_chdr log_w set_rounds set_vot v_sum with_sum with_pc]; try reflexivity.
    apply sm_avail_set_precommits. }
  assert (P2 : pok s1 -> pok s2) by (intros Hp; exact Hp).
  eapply okT_bind; [apply check_voting_total; exact A2|].
  cbv beta. intros s3 Hs3. apply okT_ret. cbn [fst snd]. split; [reflexivity|].
  intros Hw. apply Hs3, P2, P1, Hw.
Qed.

(** No hypothesis on the replayed round here: the handler returns Ok, or one of the two guards
    holds and it panics at that site.  A rejected replay (result 1 or 2) returns the state it was
    given; only an applied one (result 0) needs the announced next set to have non-zero power. *)
Lemma handle_replay_total ih ivs s0 hd cp :
  INV ih ivs s0 -> tinv s0 ->
  (okT (fun sr => (snd sr = 0 -> pow_ok (hd_next hd)) -> tinv (fst sr)) (handle_replay s0 hd cp) /\
   replay_earlier_guard s0 hd cp = false /\ replay_fuel_guard s0 hd cp = false) \/
  (replay_earlier_guard s0 hd cp = true /\ handle_replay s0 hd cp = Panic site_replay_earlier) \/
  (replay_fuel_guard s0 hd cp = true /\ handle_replay s0 hd cp = Panic site_replay_fuel).
Proof.
  intros HI HT. rewrite handle_replay_eq.
  unfold handle_replay', replay_earlier_guard, replay_fuel_guard.
  set (P := fun sr : kstate * N => (snd sr = 0 -> pow_ok (hd_next hd)) -> tinv (fst sr)).
  assert (Hsame : forall r0, okT P (Ok (s0, r0))) by (intros r0; apply okT_ret; intros _; exact HT).
  destruct (hd_height hd =? v_h (k_vot s0)) eqn:Hh; cbn [negb andb];
    [|left; split; [apply Hsame|split; reflexivity]].
  apply N.eqb_eq in Hh.
  destruct (N.ltb_spec (cp_round cp) (v_r (k_vot s0))) as [Hlt|Hge]; [right; left; split; reflexivity|].
  rewrite (proj2 (N.leb_le _ _) Hge). cbn [andb]. cbv zeta.
  pose proof (INV_jump_until ih ivs (N.to_nat (cp_round cp - v_r (k_vot s0))) s0 (cp_round cp) HI) as HIs.
  pose proof (tinv_jump_until (N.to_nat (cp_round cp - v_r (k_vot s0))) s0 (cp_round cp) HT) as HTs.
  fold (replay_jumped s0 cp) in HIs, HTs.
  set (s := replay_jumped s0 cp) in *.
  destruct ((v_r (k_vot s) =? cp_round cp) && (v_h (k_vot s) =? hd_height hd)); cbn [negb];
    [|right; right; split; reflexivity].
  left. split; [|split; reflexivity].
  destruct (hd_ok hd); cbn [negb]; [|apply Hsame].
  destruct (negb (hd_height hd =? k_init_h s) && negb (bytes_eqb (hd_prev hd) (chdr_hash s))); [apply Hsame|].
  destruct (valset_equal (hd_vals hd) (v_vals (k_vot s)) && vs_ok (hd_vals hd)) eqn:Hveq;
    cbn [negb]; [|apply Hsame].
  assert (Hvals : pow_ok (hd_vals hd)).
  { apply andb_true_iff in Hveq as [Hveq _]. eapply valset_equal_pow_ok; [exact Hveq|].
    destruct HIs as (_&_&[[Savail _] _]&_). destruct HTs as [([A1 _]&_) _].
    unfold pow_ok. rewrite <- Savail. lia. }
  destruct (vs_ok (hd_next hd)); cbn [negb]; [|apply Hsame].
  destruct (replay_temp s hd cp) as [temp allv].
  destruct allv; cbn [negb]; [|apply Hsame].
  destruct (pm_get temp (hd_hash hd)); [|apply Hsame].
  destruct (maj_ok _ (proj1 (proj1 HTs))) as [maj Hm]. rewrite Hm. cbn [bind].
  destruct (_ <? maj); [apply Hsame|].
  eapply okT_mono; [apply replay_apply_total; exact HTs|].
  cbv beta. intros sr (E&Hsr). unfold P. intros Hn. apply Hsr. split; [exact Hvals|apply Hn; exact E].
Qed.

(** * Every step *)

(** admissibility, result-independent form: the NEXT validator set a proposed / replayed header
    announces has non-zero total power (the application must not return a validator set of total
    power 0).  Nothing is required of the header's OWN validator set: the kernel compares it with
    the set of the view the header belongs to. *)
Definition op_wf (o : op) : Prop :=
  match o with
  | OpPH p => pow_ok (hd_next (ph_hdr p))
  | OpReplay x cp => pow_ok (hd_next x)
  | _ => True
  end.

(** what the history really needs: only a proposed header that the mirror ACCEPTED and a replayed
    header that it APPLIED (result 0) must announce a next validator set of non-zero power;
    rejected ones never enter a view (a rejected replay returns the state unchanged) *)
Definition step_adm (o : op) (res : N) : Prop :=
  match o with
  | OpPH p => res = HandleProposedHeaderAccepted -> pow_ok (hd_next (ph_hdr p))
  | OpReplay x cp => res = 0 -> pow_ok (hd_next x)
  | _ => True
  end.

Lemma op_wf_step_adm o res : op_wf o -> step_adm o res.
Proof. destruct o; cbn; auto. Qed.

(** a replayed commit proof's round is a uint32 (it is one in Go; the model's [N] is wider) *)
Definition replay_round_bounded (o : op) : Prop :=
  match o with OpReplay _ cp => cp_round cp < two32 | _ => True end.

Lemma step_total ih ivs s o :
  INV ih ivs s -> tinv s ->
  match o with
  | OpReplay x cp =>
      (okT (fun sr => step_adm o (snd sr) -> tinv (fst sr)) (step s o) /\
       replay_earlier_guard s x cp = false /\ replay_fuel_guard s x cp = false) \/
      (replay_earlier_guard s x cp = true /\ step s o = Panic site_replay_earlier) \/
      (replay_fuel_guard s x cp = true /\ step s o = Panic site_replay_fuel)
  | _ => okT (fun sr => step_adm o (snd sr) -> tinv (fst sr)) (step s o)
  end.
Proof.
  intros HI HT. destruct o as [p|m|m|x cp]; cbn [step step_adm].
  - apply (handle_ph_total ih ivs); assumption.
  - eapply okT_mono; [apply handle_votes_total; exact HT|]. cbv beta. intros sr H _. exact H.
  - eapply okT_mono; [apply handle_votes_total; exact HT|]. cbv beta. intros sr H _. exact H.
  - exact (handle_replay_total ih ivs s x cp HI HT).
Qed.

Lemma tinv_step ih ivs s o s' r :
  INV ih ivs s -> tinv s -> step_adm o r -> step s o = Ok (s', r) -> tinv s'.
Proof.
  intros HI HT Hw Hs.
  pose proof (step_total ih ivs s o HI HT) as H.
  assert (G : okT (fun sr => step_adm o (snd sr) -> tinv (fst sr)) (step s o) -> tinv s').
  { intros (x&E&Hx). rewrite Hs in E. inversion E; subst x. exact (Hx Hw). }
  destruct o as [p|m|m|x cp]; try (apply G; exact H).
  destruct H as [(H&_)|[(_&H)|(_&H)]]; [apply G; exact H| |]; rewrite Hs in H; discriminate.
Qed.

Lemma tinv_init ih ivs : pow_ok ivs -> tinv (init_state ih ivs).
Proof.
  intros H. pose proof (pow_ok_range _ H) as Hr.
  unfold tinv, aok, pok, init_state. cbn.
  split; [split; [exact Hr|split; [exact Hr|intros ch E; discriminate]]|intros p [[]|[]]].
Qed.

(** states reachable through admissible inputs *)
Inductive reachable_a (ih : N) (ivs : valset) : kstate -> Prop :=
| ra_init : reachable_a ih ivs (init_state ih ivs)
| ra_step s o s' res : reachable_a ih ivs s -> op_bounded o -> step_adm o res ->
    step s o = Ok (s', res) -> reachable_a ih ivs s'.

Lemma reachable_a_b ih ivs s : reachable_a ih ivs s -> reachable_b ih ivs s.
Proof. induction 1; [apply rb_init|eapply rb_step; eassumption]. Qed.

Theorem reachable_tinv ih ivs s :
  1 <= ih -> vs_ok ivs = true -> pow_ok ivs -> reachable_a ih ivs s -> tinv s.
Proof.
  intros Hi Hok Hp. induction 1 as [|s o s' res Hr IH Hb Hw Hs]; [apply tinv_init; exact Hp|].
  eapply tinv_step; try eassumption.
  apply reachable_INV; [exact Hi|exact Hok|apply reachable_a_b; exact Hr].
Qed.

(** the invariant, spelled out *)
Theorem reachable_tinv_explicit ih ivs s :
  1 <= ih -> vs_ok ivs = true -> 0 < sum_pows (vs_pows ivs) -> reachable_a ih ivs s ->
  (1 <= sm_avail (v_sum (k_vot s)) /\ sm_avail (v_sum (k_vot s)) < two64) /\
  (1 <= sm_avail (v_sum (k_nxt s)) /\ sm_avail (v_sum (k_nxt s)) < two64) /\
  (forall ch, k_chdr s = Some ch -> 0 < sum_pows (vs_pows (hd_vals ch))) /\
  (forall p, In p (v_phs (k_vot s)) \/ In p (v_phs (k_nxt s)) ->
     0 < sum_pows (vs_pows (hd_vals (ph_hdr p))) /\ 0 < sum_pows (vs_pows (hd_next (ph_hdr p)))).
Proof.
  intros H1 H2 H3 H4. destruct (reachable_tinv ih ivs s H1 H2 H3 H4) as [(A&B&C) D].
  split; [exact A|]. split; [exact B|]. split; [exact C|exact D].
Qed.

(** ** The theorem *)

(** for ANY replayed round: the two guards are exact *)
Theorem kernel_messages_never_panic_any_round ih ivs s o :
  1 <= ih -> vs_ok ivs = true -> 0 < sum_pows (vs_pows ivs) ->
  reachable_a ih ivs s ->
  match o with
  | OpPH _ | OpPrevote _ | OpPrecommit _ => exists s' r, step s o = Ok (s', r)
  | OpReplay x cp =>
      ((exists s' r, step s o = Ok (s', r)) /\
       replay_earlier_guard s x cp = false /\ replay_fuel_guard s x cp = false) \/
      (replay_earlier_guard s x cp = true /\ step s o = Panic site_replay_earlier) \/
      (replay_fuel_guard s x cp = true /\ step s o = Panic site_replay_fuel)
  end.
Proof.
  intros Hi Hok Hp Hr.
  pose proof (reachable_tinv ih ivs s Hi Hok Hp Hr) as HT.
  pose proof (reachable_INV ih ivs s Hi Hok (reachable_a_b _ _ _ Hr)) as HI.
  pose proof (step_total ih ivs s o HI HT) as H.
  assert (G : okT (fun sr => step_adm o (snd sr) -> tinv (fst sr)) (step s o) -> exists s' r, step s o = Ok (s', r)).
  { intros ([s' r]&E&_). exists s', r. exact E. }
  destruct o as [p|m|m|x cp]; try (apply G; exact H).
  destruct H as [(H&G1)|[H|H]]; [left; split; [apply G; exact H|exact G1]|right; left; exact H|right; right; exact H].
Qed.

(** for a uint32 replayed round only the earlier-round site remains *)
Theorem kernel_messages_never_panic ih ivs s o :
  1 <= ih -> vs_ok ivs = true -> 0 < sum_pows (vs_pows ivs) ->
  reachable_a ih ivs s -> replay_round_bounded o ->
  match o with
  | OpPH _ | OpPrevote _ | OpPrecommit _ => exists s' r, step s o = Ok (s', r)
  | OpReplay x cp =>
      ((exists s' r, step s o = Ok (s', r)) /\ replay_earlier_guard s x cp = false) \/
      (replay_earlier_guard s x cp = true /\ step s o = Panic site_replay_earlier)
  end.
Proof.
  intros Hi Hok Hp Hr Hb.
  pose proof (kernel_messages_never_panic_any_round ih ivs s o Hi Hok Hp Hr) as H.
  destruct o as [p|m|m|x cp]; try exact H.
  pose proof (replay_fuel_guard_false ih ivs s x cp
                (reachable_cinv ih ivs s Hi Hok (reachable_a_b _ _ _ Hr)) Hb) as Hf.
  destruct H as [(H&G1&_)|[H|(G&_)]]; [left; split; assumption|right; exact H|].
  rewrite Hf in G. discriminate.
Qed.

(** The same for any state satisfying the two invariants (e.g. a [reachable_b] state that happens
    to satisfy [tinv]). *)
Theorem kernel_total_in_good_states ih ivs s o :
  INV ih ivs s -> tinv s -> replay_round_bounded o ->
  match o with
  | OpReplay x cp => (exists s' r, step s o = Ok (s', r)) \/ step s o = Panic site_replay_earlier
  | _ => exists s' r, step s o = Ok (s', r)
  end.
Proof.
  intros HI HT Hb. pose proof (step_total ih ivs s o HI HT) as H.
  assert (G : okT (fun sr => step_adm o (snd sr) -> tinv (fst sr)) (step s o) -> exists s' r, step s o = Ok (s', r)).
  { intros ([s' r]&E&_). exists s', r. exact E. }
  destruct o as [p|m|m|x cp]; try (apply G; exact H).
  destruct H as [(H&_)|[(_&H)|(Gf&_)]]; [left; apply G; exact H|right; exact H|].
  rewrite (replay_fuel_guard_false ih ivs s x cp (proj1 HI) Hb) in Gf. discriminate.
Qed.

(** ** The guards are exact: whenever one holds the handler panics at that site *)
Lemma replay_earlier_panics s x cp :
  replay_earlier_guard s x cp = true -> step s (OpReplay x cp) = Panic site_replay_earlier.
Proof.
  unfold replay_earlier_guard. intros H. apply andb_true_iff in H as [H1 H2].
  cbn [step]. rewrite handle_replay_eq. unfold handle_replay'. rewrite H1, H2. reflexivity.
Qed.

Lemma replay_fuel_guard_panics s x cp :
  replay_fuel_guard s x cp = true -> step s (OpReplay x cp) = Panic site_replay_fuel.
Proof.
  unfold replay_fuel_guard. intros H. apply andb_true_iff in H as [H H3]. apply andb_true_iff in H as [H1 H2].
  cbn [step]. rewrite handle_replay_eq. unfold handle_replay'. rewrite H1. cbn [negb].
  apply N.leb_le in H2. destruct (N.ltb_spec (cp_round cp) (v_r (k_vot s))); [lia|].
  cbv zeta. rewrite H3. reflexivity.
Qed.

(** ** A rejected replay does not change the state *)
Theorem replay_rejected_is_identity s x cp s' res :
  step s (OpReplay x cp) = Ok (s', res) -> res <> 0 -> s' = s.
Proof.
  cbn [step]. rewrite handle_replay_eq. unfold handle_replay'.
  assert (Hsame : forall r0, Ok (s, r0) = Ok (s', res) -> res <> 0 -> s' = s)
    by (intros r0 E _; inversion E; reflexivity).
  destruct (negb (hd_height x =? _)); [apply Hsame|].
  destruct (cp_round cp <? _); [discriminate|]. cbv zeta.
  destruct (negb (_ && _)); [discriminate|].
  destruct (negb (hd_ok x)); [apply Hsame|].
  destruct (negb _ && negb _); [apply Hsame|].
  destruct (negb (_ && _)); [apply Hsame|].
  destruct (negb (vs_ok _)); [apply Hsame|].
  destruct (replay_temp _ x cp) as [temp allv].
  destruct (negb allv); [apply Hsame|].
  destruct (pm_get temp (hd_hash x)); [|apply Hsame].
  unfold bind at 1. destruct (byz_majority _); [|discriminate].
  destruct (_ <? _); [apply Hsame|].
  unfold replay_apply, bind. destruct (replay_insert _ _ _); [|discriminate].
  destruct (check_voting_precommit_shift _); [|discriminate].
  intros E Hne. inversion E; subst. contradiction.
Qed.

(** ** The "out of fuel" site of the model is unreachable *)
Theorem replay_fuel_site_unreachable ih ivs s x cp :
  1 <= ih -> vs_ok ivs = true -> reachable_b ih ivs s -> cp_round cp < two32 ->
  replay_fuel_guard s x cp = false.
Proof.
  intros Hi Hok Hr Hb. apply (replay_fuel_guard_false ih ivs); [eapply reachable_cinv; eassumption|exact Hb].
Qed.

Theorem replay_never_out_of_fuel ih ivs s x cp :
  1 <= ih -> vs_ok ivs = true -> 0 < sum_pows (vs_pows ivs) -> reachable_a ih ivs s ->
  cp_round cp < two32 -> step s (OpReplay x cp) <> Panic site_replay_fuel.
Proof.
  intros Hi Hok Hp Hr Hb E.
  destruct (kernel_messages_never_panic ih ivs s (OpReplay x cp) Hi Hok Hp Hr Hb) as [((s'&r&H)&_)|(_&H)];
    rewrite H in E; [discriminate|]; unfold site_replay_earlier, site_replay_fuel in E; discriminate.
Qed.

(** The round bound on a replayed commit proof is needed in the MODEL only: its rounds are [N],
    the views' rounds wrap at 2^32, so a replayed round >= 2^32 is never reached by the jump loop.
    (In Go the round is a uint32; the model would be tighter with [wrap32 (cp_round cp)].) *)
Lemma jump_until_round_lt ih ivs fuel : forall s r,
  cinv ih ivs s -> v_r (k_vot s) < two32 -> v_r (k_vot (jump_until fuel s r)) < two32.
Proof.
  induction fuel as [|f IH]; intros s r H Hlt; cbn [jump_until]; [exact Hlt|].
  destruct (_ <? _); [|exact Hlt]. apply IH; [apply cinv_jump; exact H|].
  destruct H as (_&_&_&_&Hnr&_).
  unfold jump_voting_round, update_observers, increment_voting_round.
  cbn [k_vot set_vot set_nxt ev_w log_w set_nhr v_r bump]. rewrite Hnr.
  unfold wrap32. apply N.mod_upper_bound. unfold two32. lia.
Qed.

Lemma replay_fuel_panics ih ivs s x cp :
  cinv ih ivs s -> hd_height x = v_h (k_vot s) -> v_r (k_vot s) < two32 -> two32 <= cp_round cp ->
  step s (OpReplay x cp) = Panic site_replay_fuel.
Proof.
  intros H Hh Hlt Hge. apply replay_fuel_guard_panics. unfold replay_fuel_guard.
  rewrite Hh, N.eqb_refl. rewrite (proj2 (N.leb_le _ _)) by lia. cbn [andb].
  pose proof (jump_until_round_lt ih ivs (N.to_nat (cp_round cp - v_r (k_vot s))) s (cp_round cp) H Hlt) as Hj.
  fold (replay_jumped s cp) in Hj.
  destruct (N.eqb_spec (v_r (k_vot (replay_jumped s cp))) (cp_round cp)) as [E|_]; [lia|].
  reflexivity.
Qed.

(** * Concrete runs: reachability by construction *)
Fixpoint run (s : kstate) (ops : list op) : res kstate :=
  match ops with
  | [] => Ok s
  | o :: rest => bind (step s o) (fun sr => run (fst sr) rest)
  end.

Definition op_bounded_b (o : op) : bool :=
  match o with
  | OpPH p => hd_height (ph_hdr p) + 1 <? two64
  | OpReplay x _ => hd_height x + 1 <? two64
  | _ => true
  end.

Definition op_wf_b (o : op) : bool :=
  match o with
  | OpPH p => pow_okb (hd_next (ph_hdr p))
  | OpReplay x cp => pow_okb (hd_next x)
  | _ => true
  end.

Lemma op_bounded_b_ok o : op_bounded_b o = true -> op_bounded o.
Proof. destruct o; cbn; try (intros _; exact I); intros H; apply N.ltb_lt in H; exact H. Qed.

Lemma op_wf_b_ok o : op_wf_b o = true -> op_wf o.
Proof. destruct o as [p|m|m|x cp]; cbn; try (intros _; exact I); intros H; apply pow_okb_ok; exact H. Qed.

Lemma run_reachable_a ih ivs ops : forall s s',
  reachable_a ih ivs s -> forallb (fun o => op_bounded_b o && op_wf_b o) ops = true ->
  run s ops = Ok s' -> reachable_a ih ivs s'.
Proof.
  induction ops as [|o rest IH]; intros s s' Hr Hf; cbn [run].
  - intros E; inversion E; subst; exact Hr.
  - cbn [forallb] in Hf. apply andb_true_iff in Hf as [Ho Hf]. apply andb_true_iff in Ho as [Ho1 Ho2].
    destruct (step s o) as [[s1 r1]|] eqn:Hs; cbn [bind fst]; [|discriminate].
    apply IH; [|exact Hf]. eapply ra_step; [exact Hr|apply op_bounded_b_ok; exact Ho1|apply op_wf_step_adm, op_wf_b_ok; exact Ho2|exact Hs].
Qed.

Lemma run_reachable_b ih ivs ops : forall s s',
  reachable_b ih ivs s -> forallb op_bounded_b ops = true ->
  run s ops = Ok s' -> reachable_b ih ivs s'.
Proof.
  induction ops as [|o rest IH]; intros s s' Hr Hf; cbn [run].
  - intros E; inversion E; subst; exact Hr.
  - cbn [forallb] in Hf. apply andb_true_iff in Hf as [Ho Hf].
    destruct (step s o) as [[s1 r1]|] eqn:Hs; cbn [bind fst]; [|discriminate].
    apply IH; [|exact Hf]. eapply rb_step; [exact Hr|apply op_bounded_b_ok; exact Ho|exact Hs].
Qed.

(** one validator (global key 7) with power 1, initial height 1 *)
Definition ex_vs : valset := mk_valset [7] [1] [1] [2] true.
(** the same validator with power 0: total power zero *)
Definition ex_zero : valset := mk_valset [7] [0] [3] [4] true.

Definition ex_hdr (vals next : valset) : hdr := mk_hdr [9] true 1 [] empty_cproof vals next.
Definition ex_ph (vals next : valset) : ph := mk_ph (ex_hdr vals next) 0 (Some 7) (SProposal 7 [5] 0) [5].
Definition ex_precommit (h r : N) (pkh target : bytes) : vmsg :=
  mk_vmsg h r pkh [(target, [mk_ssig (keyid_encode 0) (SVote 7 KPrecommit h r target)])].

Definition state_after (ops : list op) : kstate :=
  match run (init_state 1 ex_vs) ops with Ok s => s | Panic _ => init_state 1 ex_vs end.

Lemma state_after_reachable_a ops :
  forallb (fun o => op_bounded_b o && op_wf_b o) ops = true ->
  is_ok (run (init_state 1 ex_vs) ops) = true -> reachable_a 1 ex_vs (state_after ops).
Proof.
  intros Hf Hok. unfold state_after. destruct (run _ ops) as [s|] eqn:E; [|discriminate].
  eapply run_reachable_a; [apply ra_init|exact Hf|exact E].
Qed.

Lemma state_after_reachable_b ops :
  forallb op_bounded_b ops = true ->
  is_ok (run (init_state 1 ex_vs) ops) = true -> reachable_b 1 ex_vs (state_after ops).
Proof.
  intros Hf Hok. unfold state_after. destruct (run _ ops) as [s|] eqn:E; [|discriminate].
  eapply run_reachable_b; [apply rb_init|exact Hf|exact E].
Qed.

(** the hypotheses of the theorem are satisfiable *)
Example ex_hypotheses : 1 <= 1 /\ vs_ok ex_vs = true /\ 0 < sum_pows (vs_pows ex_vs).
Proof. vm_compute. repeat split; discriminate. Qed.

(** the fuel site of the model is hit by a replayed round that is not a uint32 *)
Example replay_fuel_site_needs_round_bound :
  step (init_state 1 ex_vs) (OpReplay (ex_hdr ex_vs ex_vs) (mk_cproof two32 [1] [])) = Panic site_replay_fuel.
Proof.
  apply (replay_fuel_panics 1 ex_vs).
  - apply cinv_init; [lia|reflexivity].
  - reflexivity.
  - vm_compute. reflexivity.
  - cbn [cp_round]. lia.
Qed.

(** ** The Panic site of [handle_replay] is reachable: a nil precommit of the whole power moves
    the mirror to round 1; the driver then replays a header of that height with a round-0 commit
    proof. *)
Definition ops_round1 : list op := [OpPrecommit (ex_precommit 1 0 [1] [])].

Example replay_earlier_round_reachable :
  reachable_a 1 ex_vs (state_after ops_round1) /\
  replay_earlier_guard (state_after ops_round1) (ex_hdr ex_vs ex_vs) (mk_cproof 0 [1] []) = true /\
  step (state_after ops_round1) (OpReplay (ex_hdr ex_vs ex_vs) (mk_cproof 0 [1] [])) = Panic site_replay_earlier.
Proof.
  split; [apply state_after_reachable_a; vm_compute; reflexivity|]. split; vm_compute; reflexivity.
Qed.

(** ** The former third site (round store refuses the replayed header) no longer panics: the
    header arrives as a proposed header in round 0, the mirror moves to round 1, and the same
    header is then replayed with a valid round-1 commit proof: it is filed as a keyless proposed
    header of round 1 (WPH) and committed (result 0). *)
Definition ops_ph_round1 : list op := [OpPH (ex_ph ex_vs ex_vs); OpPrecommit (ex_precommit 1 0 [1] [])].
Definition ex_cp_round1 : cproof :=
  mk_cproof 1 [1] [([9], [mk_ssig (keyid_encode 0) (SVote 7 KPrecommit 1 1 [9])])].

Example replay_store_refused_is_ok :
  reachable_a 1 ex_vs (state_after ops_ph_round1) /\
  exists s', step (state_after ops_ph_round1) (OpReplay (ex_hdr ex_vs ex_vs) ex_cp_round1) = Ok (s', 0) /\
             In (WPH (fake_ph (ex_hdr ex_vs ex_vs) 1)) (st_log s').
Proof.
  split; [apply state_after_reachable_a; vm_compute; reflexivity|].
  eexists. split; [vm_compute; reflexivity|]. vm_compute. tauto.
Qed.

(** a replay with an insufficient (here: empty) commit proof is rejected and changes nothing -
    not even the round, although the proof is for round 1 and the mirror is in round 0 *)
Example replay_rejected_example :
  step (init_state 1 ex_vs) (OpReplay (ex_hdr ex_vs ex_vs) (mk_cproof 1 [1] [])) = Ok (init_state 1 ex_vs, 2).
Proof. vm_compute. reflexivity. Qed.

(** a replay that is accepted (the Ok branch of the theorem is inhabited as well) *)
Example replay_accepted_example :
  exists s', step (init_state 1 ex_vs)
               (OpReplay (ex_hdr ex_vs ex_vs) (mk_cproof 0 [1] [([9], [mk_ssig (keyid_encode 0) (SVote 7 KPrecommit 1 0 [9])])])) = Ok (s', 0).
Proof. eexists. vm_compute. reflexivity. Qed.

(** * Without the admissibility of the announced next validator sets the statement is FALSE *)

(** Witness A (next validator set).  The only validator proposes, at the initial height, a header
    whose NextValidators has total power 0 and precommits it; the mirror commits it and its voting
    view for height 2 has available power 0.  The next precommit for height 2 (here: a nil
    precommit by that validator) reaches ByzantineMajority(0). *)
Definition ops_commit_zero_next : list op :=
  [OpPH (ex_ph ex_vs ex_zero); OpPrecommit (ex_precommit 1 0 [1] [9])].

Theorem message_panics_refuted :
  exists ih ivs s o site,
    1 <= ih /\ vs_ok ivs = true /\ 0 < sum_pows (vs_pows ivs) /\
    reachable_b ih ivs s /\ op_bounded o /\ op_wf o /\
    (exists m, o = OpPrecommit m) /\
    step s o = Panic site.
Proof.
  exists 1, ex_vs, (state_after ops_commit_zero_next), (OpPrecommit (ex_precommit 2 0 [3] [])), "ByzantineMajority:13"%string.
  split; [vm_compute; discriminate|]. split; [reflexivity|]. split; [vm_compute; reflexivity|].
  split; [apply state_after_reachable_b; vm_compute; reflexivity|].
  split; [exact I|]. split; [exact I|]. split; [eexists; reflexivity|].
  vm_compute. reflexivity.
Qed.

(** the same state also dies on a prevote for the next round (ByzantineMinority(0)) *)
Example message_panics_prevote :
  step (state_after ops_commit_zero_next)
       (OpPrevote (mk_vmsg 2 1 [3] [([], [mk_ssig (keyid_encode 0) (SVote 7 KPrevote 2 1 [])])])) =
  Panic "ByzantineMinority:34".
Proof. vm_compute. reflexivity. Qed.

(** Former witness B (the header's OWN validator set of total power 0) is now rejected: the
    kernel compares the header's set with the set of its view. *)
Example zero_own_valset_rejected :
  step (init_state 1 ex_vs) (OpPH (ex_ph ex_zero ex_vs)) = Ok (init_state 1 ex_vs, HandleProposedHeaderBadBlockHash).
Proof. vm_compute. reflexivity. Qed.

(** ... and in general, in every admissibly reachable state the committing header and every
    proposed header of the voting / next-round views have an own validator set of non-zero power
    ([reachable_tinv_explicit]) although [step_adm] asks nothing of it. *)
