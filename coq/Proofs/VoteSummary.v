(** Proofs about Model/VoteSummary.v (tm/tmconsensus/votesummary.go, tmi/votedistribution.go). *)
From Coq Require Import List NArith ZArith String Bool Lia ZifyBool ZifyN Permutation.
From GV Require Import Base.Ints Model.VoteSummary.
Import ListNotations.
Local Open Scope N_scope.

Lemma two64_pos : two64 <> 0.
Proof. unfold two64; lia. Qed.

(** * SetAvailablePower *)

Lemma set_available_gen vals acc :
  acc < two64 ->
  fold_left (fun a p => wrap64 (a + p)) vals acc = (acc + sum_powers vals) mod two64.
Proof.
  revert acc; induction vals as [|p vs IH]; intros acc Hacc; cbn [fold_left sum_powers fold_right].
  - rewrite N.add_0_r, N.mod_small; auto.
  - rewrite IH by (unfold wrap64; apply N.mod_lt, two64_pos).
    unfold wrap64. fold (sum_powers vs).
    rewrite N.add_mod_idemp_l by apply two64_pos. f_equal. lia.
Qed.

Theorem available_wrap vals : set_available vals = sum_powers vals mod two64.
Proof. unfold set_available. rewrite set_available_gen; [f_equal|]; unfold two64; lia. Qed.

Theorem available_spec vals : sum_powers vals < two64 -> set_available vals = sum_powers vals.
Proof. intros H. rewrite available_wrap, N.mod_small; auto. Qed.
