(** Proofs about Model/VoteSummary.v (tm/tmconsensus/votesummary.go, tmi/votedistribution.go). *)
From Coq Require Import List NArith ZArith String Bool Lia ZifyBool ZifyN Permutation.
From GV Require Import Base.Ints Model.VoteSummary Proofs.BytesOrder.
Import ListNotations.
Local Open Scope N_scope.

Lemma two64_pos : two64 <> 0.
Proof. unfold two64; lia. Qed.

(** * SetAvailablePower *)

Lemma set_available_gen vals acc :
  acc < two64 ->
  fold_left (fun a p => wrap64 (a + p)) vals acc = (acc + sum_powers vals) mod two64.
Proof.
  revert acc; induction vals as [|p vs IH]; intros acc Hacc; cbn [fold_left sum_powers fold_right].
  - rewrite N.add_0_r, N.mod_small; auto.
  - rewrite IH by (unfold wrap64; apply N.mod_lt, two64_pos).
    unfold wrap64. fold (sum_powers vs).
    rewrite N.add_mod_idemp_l by apply two64_pos. f_equal. lia.
Qed.

Theorem available_wrap vals : set_available vals = sum_powers vals mod two64.
Proof. unfold set_available. rewrite set_available_gen; [f_equal|]; unfold two64; lia. Qed.

Theorem available_spec vals : sum_powers vals < two64 -> set_available vals = sum_powers vals.
Proof. intros H. rewrite available_wrap, N.mod_small; auto. Qed.

(** * The bitset loop *)

Lemma bits_power_gen vals : forall i mask acc,
  acc < two64 ->
  bits_power i vals mask acc = (acc + mask_power_from i vals mask) mod two64.
Proof.
  induction vals as [|p vs IH]; intros i mask acc Hacc; cbn [bits_power mask_power_from].
  - rewrite N.add_0_r, N.mod_small; auto.
  - destruct (N.testbit mask i).
    + rewrite IH by (unfold wrap64; apply N.mod_lt, two64_pos).
      unfold wrap64. rewrite N.add_mod_idemp_l by apply two64_pos. f_equal. lia.
    + rewrite IH by assumption. f_equal.
Qed.

Definition bp (vals : list N) (mask : N) : N := bits_power 0 vals mask 0.

Lemma bp_wrap vals mask : bp vals mask = mask_power vals mask mod two64.
Proof. unfold bp, mask_power. rewrite bits_power_gen; [f_equal|]; unfold two64; lia. Qed.

Lemma mask_power_from_le i vals mask : mask_power_from i vals mask <= sum_powers vals.
Proof.
  revert i; induction vals as [|p vs IH]; intros i; cbn [mask_power_from sum_powers fold_right]; [lia|].
  specialize (IH (N.succ i)). fold (sum_powers vs). destruct (N.testbit mask i); lia.
Qed.

Lemma mask_power_le vals mask : mask_power vals mask <= sum_powers vals.
Proof. apply mask_power_from_le. Qed.

Lemma bp_exact vals mask : sum_powers vals < two64 -> bp vals mask = mask_power vals mask.
Proof.
  intros H. rewrite bp_wrap, N.mod_small; auto.
  pose proof (mask_power_le vals mask). lia.
Qed.

(** Monotone in the signer set; sub-additive on unions; additive on disjoint sets. *)
Definition mask_subset (a b : N) : Prop := forall i, N.testbit a i = true -> N.testbit b i = true.

Lemma mask_power_from_mono i vals a b :
  mask_subset a b -> mask_power_from i vals a <= mask_power_from i vals b.
Proof.
  intros Hs. revert i; induction vals as [|p vs IH]; intros i; cbn [mask_power_from]; [lia|].
  specialize (IH (N.succ i)). specialize (Hs i).
  destruct (N.testbit a i); [rewrite Hs by reflexivity|destruct (N.testbit b i)]; lia.
Qed.

Lemma mask_power_mono vals a b : mask_subset a b -> mask_power vals a <= mask_power vals b.
Proof. apply mask_power_from_mono. Qed.

Lemma mask_power_from_incl_excl i vals a b :
  mask_power_from i vals a + mask_power_from i vals b =
  mask_power_from i vals (N.lor a b) + mask_power_from i vals (N.land a b).
Proof.
  revert i; induction vals as [|p vs IH]; intros i; cbn [mask_power_from]; [reflexivity|].
  rewrite N.lor_spec, N.land_spec. specialize (IH (N.succ i)).
  destruct (N.testbit a i), (N.testbit b i); cbn [orb andb]; lia.
Qed.

Lemma mask_power_from_zero i vals : mask_power_from i vals 0 = 0.
Proof.
  revert i; induction vals as [|p vs IH]; intros i; cbn [mask_power_from]; [reflexivity|].
  rewrite N.bits_0, IH. reflexivity.
Qed.

(** * union_mask *)

Lemma union_mask_app l1 l2 : union_mask (l1 ++ l2) = N.lor (union_mask l1) (union_mask l2).
Proof.
  induction l1 as [|e l IH]; cbn [union_mask fold_right app].
  - rewrite N.lor_0_l. reflexivity.
  - fold (union_mask (l ++ l2)). fold (union_mask l). rewrite IH, N.lor_assoc. reflexivity.
Qed.

Lemma union_mask_snoc l e : union_mask (l ++ [e]) = N.lor (union_mask l) (snd e).
Proof. rewrite union_mask_app. cbn [union_mask fold_right]. rewrite N.lor_0_r. reflexivity. Qed.

Lemma union_mask_testbit l i :
  N.testbit (union_mask l) i = existsb (fun e => N.testbit (snd e) i) l.
Proof.
  induction l as [|e l IH]; cbn [union_mask fold_right existsb].
  - apply N.bits_0.
  - fold (union_mask l). rewrite N.lor_spec, IH. reflexivity.
Qed.

Lemma union_mask_perm l1 l2 : Permutation l1 l2 -> union_mask l1 = union_mask l2.
Proof.
  induction 1.
  - reflexivity.
  - cbn [union_mask fold_right]. fold (union_mask l). fold (union_mask l'). congruence.
  - cbn [union_mask fold_right]. fold (union_mask l).
    rewrite !N.lor_assoc, (N.lor_comm (snd y)). reflexivity.
  - congruence.
Qed.

Lemma entry_subset_union l e : In e l -> mask_subset (snd e) (union_mask l).
Proof.
  intros Hin i Hb. rewrite union_mask_testbit. apply existsb_exists. exists e. auto.
Qed.

Lemma union_subset l B : (forall e, In e l -> mask_subset (snd e) B) -> mask_subset (union_mask l) B.
Proof.
  intros H i Hb. rewrite union_mask_testbit in Hb. apply existsb_exists in Hb as [e [Hin He]].
  exact (H e Hin i He).
Qed.

(** * Association lists *)

Lemma map_get_set m k v h :
  map_get (map_set m k v) h = if bytes_eqb k h then v else map_get m h.
Proof.
  induction m as [|[k' v'] m IH]; cbn [map_set map_get].
  - reflexivity.
  - destruct (bytes_eqb k' k) eqn:E; cbn [map_get].
    + apply bytes_eqb_eq in E. subst k'. destruct (bytes_eqb k h); reflexivity.
    + rewrite IH. destruct (bytes_eqb k' h) eqn:E2; [|reflexivity].
      apply bytes_eqb_eq in E2. subst k'.
      destruct (bytes_eqb k h) eqn:E3; [|reflexivity].
      apply bytes_eqb_eq in E3. subst k. rewrite bytes_eqb_refl in E. discriminate.
Qed.

Definition keys {A} (m : list (hash * A)) : list hash := map fst m.

Lemma keys_map_set m k v h : In h (keys (map_set m k v)) <-> h = k \/ In h (keys m).
Proof.
  unfold keys. induction m as [|[k' v'] m IH]; cbn [map_set map fst In].
  - intuition (subst; auto).
  - destruct (bytes_eqb k' k) eqn:E; cbn [map fst In].
    + apply bytes_eqb_eq in E. subst k'. intuition (subst; auto).
    + rewrite IH. intuition (subst; auto).
Qed.

Lemma nodup_map_set m k v : NoDup (keys m) -> NoDup (keys (map_set m k v)).
Proof.
  unfold keys. induction m as [|[k' v'] m IH]; cbn [map_set map fst]; intros Hn.
  - constructor; [intros []|constructor].
  - inversion Hn as [|? ? Hnot Hn']; subst.
    destruct (bytes_eqb k' k) eqn:E; cbn [map fst].
    + apply bytes_eqb_eq in E. subst k'. constructor; assumption.
    + constructor; [|apply IH; assumption].
      intros Hin. apply (keys_map_set m k v k') in Hin. destruct Hin as [->|Hin]; [|contradiction].
      rewrite bytes_eqb_refl in E. discriminate.
Qed.

Lemma map_get_absent (m : list (hash * N)) h : ~ In h (keys m) -> map_get m h = 0.
Proof.
  unfold keys. induction m as [|[k v] m IH]; cbn [map_get map fst In]; intros Hn; [reflexivity|].
  destruct (bytes_eqb k h) eqn:E.
  - apply bytes_eqb_eq in E. subst. tauto.
  - apply IH. tauto.
Qed.

(** * The loop invariant of SetPrevotePowers / SetPrecommitPowers *)

Definition max_bp (vals : list N) (l : list entry) : N :=
  fold_right (fun e m => N.max (bp vals (snd e)) m) 0 l.

Lemma max_bp_snoc vals l e : max_bp vals (l ++ [e]) = N.max (max_bp vals l) (bp vals (snd e)).
Proof.
  induction l as [|x l IH]; cbn [max_bp fold_right app].
  - lia.
  - fold (max_bp vals (l ++ [e])). fold (max_bp vals l). rewrite IH. lia.
Qed.

Lemma max_bp_ge vals l e : In e l -> bp vals (snd e) <= max_bp vals l.
Proof.
  induction l as [|x l IH]; cbn [max_bp fold_right In]; [tauto|].
  fold (max_bp vals l). intros [->|Hin]; [lia|]. specialize (IH Hin). lia.
Qed.

Record inv (vals : list N) (l : list entry) (a : acc) : Prop := mk_inv {
  inv_present : a_present a = union_mask l;
  inv_block_in : forall h m, In (h, m) l -> NoDup (keys l) -> map_get (a_block a) h = bp vals m;
  inv_block_keys : forall h, In h (keys (a_block a)) <-> In h (keys l);
  inv_block_nodup : NoDup (keys (a_block a));
  inv_maxpow : a_maxpow a = max_bp vals l;
  inv_zero : a_maxpow a = 0 -> a_maxhash a = [];
  inv_arg : 0 < a_maxpow a -> exists m, In (a_maxhash a, m) l /\ bp vals m = a_maxpow a;
  inv_least : forall h m, In (h, m) l -> bp vals m = a_maxpow a -> 0 < a_maxpow a -> hash_le (a_maxhash a) h
}.

Lemma keys_snoc (l : list entry) h m : keys (l ++ [(h, m)]) = keys l ++ [h].
Proof. unfold keys. rewrite map_app. reflexivity. Qed.

Lemma nodup_snoc (l : list hash) h : NoDup (l ++ [h]) -> NoDup l /\ ~ In h l.
Proof.
  intros H. split.
  - apply NoDup_remove_1 in H. rewrite app_nil_r in H. exact H.
  - apply NoDup_remove_2 in H. rewrite app_nil_r in H. exact H.
Qed.

Lemma inv_init vals : inv vals [] acc0.
Proof.
  constructor; cbn [acc0 a_present a_block a_maxhash a_maxpow union_mask fold_right max_bp keys map In];
    try reflexivity; try tauto; try (intros; lia).
  constructor.
Qed.

Lemma block_step_in vals l a h m :
  inv vals l a ->
  forall h2 m2, In (h2, m2) (l ++ [(h, m)]) -> NoDup (keys (l ++ [(h, m)])) ->
  map_get (map_set (a_block a) h (bp vals m)) h2 = bp vals m2.
Proof.
  intros I h2 m2 Hin Hnd. rewrite keys_snoc in Hnd. apply nodup_snoc in Hnd as [Hnd Hnot].
  rewrite map_get_set. apply in_app_or in Hin as [Hin|[Heq|[]]].
  - destruct (bytes_eqb h h2) eqn:E.
    + apply bytes_eqb_eq in E. subst h2. exfalso. apply Hnot.
      unfold keys. apply in_map_iff. exists (h, m2). auto.
    + apply (inv_block_in _ _ _ I); assumption.
  - inversion Heq; subst. rewrite bytes_eqb_refl. reflexivity.
Qed.

Lemma block_step_keys vals l a h m :
  inv vals l a ->
  forall h2, In h2 (keys (map_set (a_block a) h (bp vals m))) <-> In h2 (keys (l ++ [(h, m)])).
Proof.
  intros I h2. rewrite keys_map_set, keys_snoc, in_app_iff, (inv_block_keys _ _ _ I).
  cbn [In]. intuition (subst; auto).
Qed.

Lemma inv_step vals l a h m :
  inv vals l a -> inv vals (l ++ [(h, m)]) (step_entry vals a (h, m)).
Proof.
  intros I. unfold step_entry. fold (bp vals m).
  pose proof (block_step_in vals l a h m I) as Bin.
  pose proof (block_step_keys vals l a h m I) as Bkeys.
  pose proof (nodup_map_set (a_block a) h (bp vals m) (inv_block_nodup _ _ _ I)) as Bnd.
  assert (Hpres : N.lor (a_present a) m = union_mask (l ++ [(h, m)])).
  { rewrite union_mask_snoc, (inv_present _ _ _ I). reflexivity. }
  pose proof (inv_maxpow _ _ _ I) as Hmax.
  pose proof (max_bp_snoc vals l (h, m)) as Hsnoc. cbn [snd] in Hsnoc.
  destruct (N.eqb_spec (bp vals m) (a_maxpow a)) as [Heq|Hne].
  - (* equal power: tie, keep the smaller hash *)
    constructor; cbn [a_present a_block a_maxhash a_maxpow]; auto.
    + rewrite Hsnoc, <- Hmax, Heq. symmetry. apply N.max_id.
    + intros Hz. rewrite (inv_zero _ _ _ I Hz). apply str_min_nil_l.
    + intros Hpos. destruct (str_min_cases (a_maxhash a) h) as [->| ->].
      * destruct (inv_arg _ _ _ I Hpos) as [m0 [Hin Hp]]. exists m0. split; [apply in_or_app; auto|exact Hp].
      * exists m. split; [apply in_or_app; right; left; reflexivity|exact Heq].
    + intros h2 m2 Hin Hp Hpos. apply in_app_or in Hin as [Hin|[Heq2|[]]].
      * eapply hash_le_trans; [apply str_min_le_l|]. eapply (inv_least _ _ _ I); eauto.
      * inversion Heq2; subst. apply str_min_le_r.
  - destruct (N.ltb_spec (a_maxpow a) (bp vals m)) as [Hlt|Hge].
    + (* strictly larger: new maximum *)
      constructor; cbn [a_present a_block a_maxhash a_maxpow]; auto.
      * rewrite Hsnoc, <- Hmax. symmetry. apply N.max_r. lia.
      * intros Hz. lia.
      * intros _. exists m. split; [apply in_or_app; right; left; reflexivity|reflexivity].
      * intros h2 m2 Hin Hp _. apply in_app_or in Hin as [Hin|[Heq2|[]]].
        -- pose proof (max_bp_ge vals l (h2, m2) Hin) as Hle. cbn [snd] in Hle. lia.
        -- inversion Heq2; subst. apply hash_le_refl.
    + (* smaller: unchanged *)
      constructor; cbn [a_present a_block a_maxhash a_maxpow]; auto.
      * rewrite Hsnoc, <- Hmax. symmetry. apply N.max_l. lia.
      * apply (inv_zero _ _ _ I).
      * intros Hpos. destruct (inv_arg _ _ _ I Hpos) as [m0 [Hin Hp]]. exists m0. split; [apply in_or_app; auto|exact Hp].
      * intros h2 m2 Hin Hp Hpos. apply in_app_or in Hin as [Hin|[Heq2|[]]].
        -- eapply (inv_least _ _ _ I); eauto.
        -- inversion Heq2; subst. lia.
Qed.

Lemma inv_fold vals l2 : forall l1 a,
  inv vals l1 a -> inv vals (l1 ++ l2) (fold_left (step_entry vals) l2 a).
Proof.
  induction l2 as [|[h m] l2 IH]; intros l1 a I; cbn [fold_left].
  - rewrite app_nil_r. exact I.
  - replace (l1 ++ (h, m) :: l2) with ((l1 ++ [(h, m)]) ++ l2) by (rewrite <- app_assoc; reflexivity).
    apply IH. apply inv_step. exact I.
Qed.

Lemma inv_final vals entries : inv vals entries (fold_left (step_entry vals) entries acc0).
Proof. apply (inv_fold vals entries [] acc0 (inv_init vals)). Qed.

(** * What SetPrevotePowers / SetPrecommitPowers compute, for every input (wrap-around included) *)

Lemma in_keys_exists (l : list entry) h : In h (keys l) <-> exists m, In (h, m) l.
Proof.
  unfold keys. rewrite in_map_iff. split.
  - intros [[h' m] [Hf Hin]]. cbn [fst] in Hf. subst. eauto.
  - intros [m Hin]. exists (h, m). auto.
Qed.

Definition hash_in_dec (h : hash) (l : list hash) : {In h l} + {~ In h l} :=
  in_dec (list_eq_dec N.eq_dec) h l.

Theorem total_wrap vals entries :
  p_total (set_powers vals entries) = bp vals (union_mask entries).
Proof. unfold set_powers, bp. cbn [p_total]. rewrite (inv_present _ _ _ (inv_final vals entries)). reflexivity. Qed.

Theorem block_power_wrap vals entries h m :
  NoDup (keys entries) -> In (h, m) entries ->
  map_get (p_block (set_powers vals entries)) h = bp vals m.
Proof. intros Hnd Hin. unfold set_powers. cbn [p_block]. apply (inv_block_in _ _ _ (inv_final vals entries)); assumption. Qed.

Theorem block_keys_spec vals entries h :
  In h (keys (p_block (set_powers vals entries))) <-> In h (keys entries).
Proof. unfold set_powers. cbn [p_block]. apply (inv_block_keys _ _ _ (inv_final vals entries)). Qed.

Theorem block_keys_nodup vals entries : NoDup (keys (p_block (set_powers vals entries))).
Proof. unfold set_powers. cbn [p_block]. apply (inv_block_nodup _ _ _ (inv_final vals entries)). Qed.

Theorem block_absent vals entries h :
  ~ In h (keys entries) -> map_get (p_block (set_powers vals entries)) h = 0.
Proof. intros Hn. apply map_get_absent. rewrite block_keys_spec. exact Hn. Qed.

Theorem most_voted_wrap vals entries :
  let s := set_powers vals entries in
  let M := max_bp vals entries in
  (M = 0 -> p_most s = []) /\
  (0 < M -> (exists m, In (p_most s, m) entries /\ bp vals m = M) /\
            (forall h m, In (h, m) entries -> bp vals m = M -> hash_le (p_most s) h)).
Proof.
  cbv zeta. unfold set_powers. cbn [p_most].
  pose proof (inv_final vals entries) as I. rewrite <- (inv_maxpow _ _ _ I).
  split; [apply (inv_zero _ _ _ I)|]. intros Hpos. split; [apply (inv_arg _ _ _ I Hpos)|].
  intros h m Hin Hp. eapply (inv_least _ _ _ I); eauto.
Qed.

Lemma most_block_wrap vals entries :
  NoDup (keys entries) ->
  map_get (p_block (set_powers vals entries)) (p_most (set_powers vals entries)) = max_bp vals entries.
Proof.
  intros Hnd. destruct (most_voted_wrap vals entries) as [Hz Hp].
  destruct (N.eq_dec (max_bp vals entries) 0) as [E|E].
  - rewrite (Hz E), E. destruct (hash_in_dec [] (keys entries)) as [Hin|Hn].
    + apply in_keys_exists in Hin as [m Hin]. rewrite (block_power_wrap _ _ _ _ Hnd Hin).
      pose proof (max_bp_ge vals entries ([], m) Hin) as Hle. cbn [snd] in Hle. lia.
    + apply block_absent. exact Hn.
  - destruct (Hp ltac:(lia)) as [[m [Hin Hm]] _]. rewrite (block_power_wrap _ _ _ _ Hnd Hin). exact Hm.
Qed.

(** ** Independence of the iteration order (Go map order, arrival order) -- no guard needed *)

Lemma max_bp_perm vals l1 l2 : Permutation l1 l2 -> max_bp vals l1 = max_bp vals l2.
Proof.
  induction 1.
  - reflexivity.
  - cbn [max_bp fold_right]. fold (max_bp vals l). fold (max_bp vals l'). congruence.
  - cbn [max_bp fold_right]. fold (max_bp vals l). rewrite !N.max_assoc, (N.max_comm (bp vals (snd y))). reflexivity.
  - congruence.
Qed.

Lemma keys_perm (l1 l2 : list entry) : Permutation l1 l2 -> Permutation (keys l1) (keys l2).
Proof. apply Permutation_map. Qed.

Theorem summary_perm_invariant vals es es' :
  Permutation es es' -> NoDup (keys es) ->
  let s := set_powers vals es in
  let s' := set_powers vals es' in
  p_total s = p_total s' /\ p_most s = p_most s' /\
  (forall h, map_get (p_block s) h = map_get (p_block s') h) /\
  (forall h, In h (keys (p_block s)) <-> In h (keys (p_block s'))).
Proof.
  intros Hp Hnd. cbv zeta.
  assert (Hnd' : NoDup (keys es')) by (eapply Permutation_NoDup; [apply keys_perm; exact Hp|exact Hnd]).
  split; [|split; [|split]].
  - rewrite !total_wrap, (union_mask_perm _ _ Hp). reflexivity.
  - destruct (most_voted_wrap vals es) as [Hz Hpos].
    destruct (most_voted_wrap vals es') as [Hz' Hpos'].
    rewrite <- (max_bp_perm vals _ _ Hp) in Hz', Hpos'.
    destruct (N.eq_dec (max_bp vals es) 0) as [E|E].
    + rewrite (Hz E), (Hz' E). reflexivity.
    + destruct (Hpos ltac:(lia)) as [[m [Hin Hm]] Hleast].
      destruct (Hpos' ltac:(lia)) as [[m' [Hin' Hm']] Hleast'].
      apply hash_le_antisym.
      * apply (Hleast _ m'); [eapply Permutation_in; [apply Permutation_sym; exact Hp|exact Hin']|exact Hm'].
      * apply (Hleast' _ m); [eapply Permutation_in; [exact Hp|exact Hin]|exact Hm].
  - intros h. destruct (hash_in_dec h (keys es)) as [Hin|Hn].
    + apply in_keys_exists in Hin as [m Hin].
      rewrite (block_power_wrap _ _ _ _ Hnd Hin).
      rewrite (block_power_wrap vals es' h m Hnd'); [reflexivity|eapply Permutation_in; eauto].
    + rewrite (block_absent _ _ _ Hn). symmetry. apply block_absent.
      intros Hin. apply Hn. eapply Permutation_in; [apply Permutation_sym, keys_perm; exact Hp|exact Hin].
  - intros h. rewrite !block_keys_spec. split; intros Hin.
    + eapply Permutation_in; [apply keys_perm; exact Hp|exact Hin].
    + eapply Permutation_in; [apply Permutation_sym, keys_perm; exact Hp|exact Hin].
Qed.

(** * Under the guard (sum of powers < 2^64): the exact, wrap-free statements *)

Lemma max_bp_exact vals l : sum_powers vals < two64 -> max_bp vals l = max_power vals l.
Proof.
  intros H. induction l as [|e l IH]; cbn [max_bp max_power fold_right]; [reflexivity|].
  fold (max_bp vals l). fold (max_power vals l). rewrite IH, bp_exact by assumption. reflexivity.
Qed.

Theorem total_counts_once vals entries :
  sum_powers vals < two64 ->
  p_total (set_powers vals entries) = mask_power vals (union_mask entries).
Proof. intros H. rewrite total_wrap. apply bp_exact. exact H. Qed.

Theorem block_power_spec vals entries h m :
  sum_powers vals < two64 -> NoDup (keys entries) -> In (h, m) entries ->
  map_get (p_block (set_powers vals entries)) h = mask_power vals m.
Proof. intros H Hnd Hin. rewrite (block_power_wrap _ _ _ _ Hnd Hin). apply bp_exact. exact H. Qed.

Theorem most_voted_spec vals entries :
  sum_powers vals < two64 ->
  let s := set_powers vals entries in
  let M := max_power vals entries in
  (M = 0 -> p_most s = []) /\
  (0 < M -> (exists m, In (p_most s, m) entries /\ mask_power vals m = M) /\
            (forall h m, In (h, m) entries -> mask_power vals m = M -> hash_le (p_most s) h)).
Proof.
  intros H. cbv zeta. rewrite <- (max_bp_exact vals entries H).
  destruct (most_voted_wrap vals entries) as [Hz Hp]. split; [exact Hz|].
  intros Hpos. destruct (Hp Hpos) as [[m [Hin Hm]] Hl]. split.
  - exists m. split; [exact Hin|]. rewrite <- (bp_exact vals m H). exact Hm.
  - intros h m' Hin' Hm'. apply (Hl h m' Hin'). rewrite (bp_exact vals m' H). exact Hm'.
Qed.

Lemma most_block_is_max vals entries :
  sum_powers vals < two64 -> NoDup (keys entries) ->
  map_get (p_block (set_powers vals entries)) (p_most (set_powers vals entries)) = max_power vals entries.
Proof. intros H Hnd. rewrite (most_block_wrap _ _ Hnd). apply max_bp_exact. exact H. Qed.

(** "Exactly once": the total is the sum, over the validator indices, of the power of each validator
    that signed at least one target -- however many targets it signed. *)
Fixpoint power_where (f : N -> bool) (i : N) (vals : list N) : N :=
  match vals with
  | [] => 0
  | p :: vs => (if f i then p else 0) + power_where f (N.succ i) vs
  end.

Lemma mask_power_union_where vals entries i :
  mask_power_from i vals (union_mask entries) =
  power_where (fun j => existsb (fun e => N.testbit (snd e) j) entries) i vals.
Proof.
  revert i; induction vals as [|p vs IH]; intros i; cbn [mask_power_from power_where]; [reflexivity|].
  rewrite union_mask_testbit, IH. reflexivity.
Qed.

Theorem total_each_validator_once vals entries :
  sum_powers vals < two64 ->
  p_total (set_powers vals entries) =
  power_where (fun j => existsb (fun e => N.testbit (snd e) j) entries) 0 vals.
Proof. intros H. rewrite (total_counts_once _ _ H). apply mask_power_union_where. Qed.

(** The total never exceeds the available power, and never exceeds the sum of the per-target
    powers (equality would be the double count of the unfixed code). *)
Lemma max_power_le_union vals entries : max_power vals entries <= mask_power vals (union_mask entries).
Proof.
  induction entries as [|e l IH]; cbn [max_power union_mask fold_right]; [lia|].
  fold (max_power vals l). fold (union_mask l).
  assert (mask_power vals (snd e) <= mask_power vals (N.lor (snd e) (union_mask l))).
  { apply mask_power_mono. intros i Hb. rewrite N.lor_spec, Hb. reflexivity. }
  assert (mask_power vals (union_mask l) <= mask_power vals (N.lor (snd e) (union_mask l))).
  { apply mask_power_mono. intros i Hb. rewrite N.lor_spec, Hb. apply orb_true_r. }
  lia.
Qed.

Theorem total_le_available vals entries :
  sum_powers vals < two64 ->
  p_total (set_powers vals entries) <= set_available vals.
Proof.
  intros H. rewrite (total_counts_once _ _ H), (available_spec _ H). apply mask_power_le.
Qed.
