(** C14 - proofs about the wire codec model (Model/Codec.v, Gen/Registry.v). *)
From Coq Require Import List NArith ZArith String Bool Lia Permutation.
From GV Require Import Base.Ints Base.GoBytes Gen.Registry Model.CodecTypes Model.Codec Monitors.C14m Model.CodecCheck.
Import ListNotations.
Local Open Scope N_scope.

(** The registry used by the harness satisfies the registry hypothesis of the theorems. *)
Lemma harness_registry_wf : reg_wf_b harness_registry = true.
Proof. vm_compute. reflexivity. Qed.

(** * Slices *)
Lemma slice_prefix (b : list N) (k : nat) s :
  (k <= List.length b)%nat -> slice_bytes b 0%Z (Z.of_nat k) s = Ok (firstn k b).
Proof.
  intros H. unfold slice_bytes.
  destruct ((0 <? 0)%Z || (Z.of_nat k <? 0)%Z || (Z.of_nat (List.length b) <? Z.of_nat k)%Z) eqn:E.
  - exfalso. rewrite !orb_true_iff in E. rewrite !Z.ltb_lt in E. lia.
  - cbn [Z.to_nat]. rewrite Nat2Z.id. rewrite Nat.sub_0_r. reflexivity.
Qed.

Lemma slice_suffix (b : list N) (k : nat) s :
  (k <= List.length b)%nat -> slice_bytes b (Z.of_nat k) (Z.of_nat (List.length b)) s = Ok (skipn k b).
Proof.
  intros H. unfold slice_bytes.
  destruct ((Z.of_nat k <? 0)%Z || (Z.of_nat (List.length b) <? Z.of_nat k)%Z ||
            (Z.of_nat (List.length b) <? Z.of_nat (List.length b))%Z) eqn:E.
  - exfalso. rewrite !orb_true_iff in E. rewrite !Z.ltb_lt in E. lia.
  - rewrite !Nat2Z.id. f_equal. apply firstn_all2. rewrite skipn_length. lia.
Qed.

(** * The generated Registry.Unmarshal against a closed-form specification.
      This is the lemma that breaks when registry.go's guard or slice bounds change. *)
Definition registry_unmarshal_spec {K} (bp : list N -> option (list N -> res (option K))) (b : list N)
  : res (option K) :=
  if (List.length b <? prefix_size)%nat then Ok None
  else match bp (trim_right_zeros (firstn prefix_size b)) with
       | None => Ok None
       | Some f => f (skipn prefix_size b)
       end.

Lemma registry_unmarshal_correct {K} bp (b : list N) :
  @registry_unmarshal K bp b = registry_unmarshal_spec bp b.
Proof.
  unfold registry_unmarshal, registry_unmarshal_spec, prefix_size.
  destruct (Z.of_nat (List.length b) <? 8)%Z eqn:E.
  - apply Z.ltb_lt in E. destruct (List.length b <? 8)%nat eqn:E2; [reflexivity|].
    apply Nat.ltb_ge in E2. lia.
  - apply Z.ltb_ge in E. destruct (List.length b <? 8)%nat eqn:E2.
    { apply Nat.ltb_lt in E2. lia. }
    apply Nat.ltb_ge in E2.
    change 8%Z with (Z.of_nat 8).
    rewrite (slice_prefix b 8) by exact E2. cbn [bind].
    destruct (bp (trim_right_zeros (firstn 8 b))) as [f|]; [|reflexivity].
    rewrite (slice_suffix b 8) by exact E2. reflexivity.
Qed.

(** * Totality: no conversion from an intermediate struct panics *)
Lemma apply_ctor_ok c b : is_ok (apply_ctor c b) = true.
Proof. destruct c; cbn; [reflexivity|]. destruct (N.eqb _ _); reflexivity. Qed.

Lemma reg_unmarshal_total r b : is_ok (reg_unmarshal r b) = true.
Proof.
  unfold reg_unmarshal. rewrite registry_unmarshal_correct. unfold registry_unmarshal_spec.
  destruct (_ <? _)%nat; [reflexivity|].
  destruct (alist_find _ (by_prefix r)) as [c|]; cbn; [apply apply_ctor_ok|reflexivity].
Qed.

Lemma bindE_ok {A B} (x : res (option A)) (f : A -> res (option B)) :
  is_ok x = true -> (forall a, is_ok (f a) = true) -> is_ok (bindE x f) = true.
Proof. intros Hx Hf. destruct x as [[a|]|s]; cbn in *; auto; discriminate. Qed.

Lemma to_validator_total r jv : is_ok (to_validator r jv) = true.
Proof. unfold to_validator. apply bindE_ok; [apply reg_unmarshal_total|reflexivity]. Qed.

Lemma to_validators_total r jvs : is_ok (to_validators r jvs) = true.
Proof.
  induction jvs as [|jv jvs IH]; cbn [to_validators]; [reflexivity|].
  apply bindE_ok; [apply to_validator_total|]. intros v.
  apply bindE_ok; [exact IH|reflexivity].
Qed.

Lemma to_valset_total r j : is_ok (to_valset r j) = true.
Proof. unfold to_valset. apply bindE_ok; [apply to_validators_total|reflexivity]. Qed.

Lemma to_header_total r j : is_ok (to_header r j) = true.
Proof.
  unfold to_header. apply bindE_ok; [apply to_valset_total|]. intros vs.
  apply bindE_ok; [apply to_valset_total|reflexivity].
Qed.

Lemma to_proposed_total r j : is_ok (to_proposed r j) = true.
Proof.
  unfold to_proposed. apply bindE_ok; [apply to_header_total|]. intros h.
  apply bindE_ok; [|reflexivity].
  destruct (jph_pub j) as [b|]; [|reflexivity].
  apply bindE_ok; [apply reg_unmarshal_total|reflexivity].
Qed.

Lemma to_committed_total r j : is_ok (to_committed r j) = true.
Proof. unfold to_committed. apply bindE_ok; [apply to_header_total|reflexivity]. Qed.

Lemma to_cmsg_total r j : is_ok (to_cmsg r j) = true.
Proof.
  unfold to_cmsg.
  destruct (jcm_ph j) as [| |jp]; destruct (jcm_pv j) as [| |p1]; destruct (jcm_pc j) as [| |p2];
    try reflexivity; (apply bindE_ok; [apply to_proposed_total|reflexivity]).
Qed.

(** decode_struct_total: for every registry and every value of every intermediate struct the
    conversion returns a value or an error - never a panic.  (Sparse proofs: [to_sparse] is a
    plain function, it cannot even return an error.) *)
Lemma decode_struct_total r :
  (forall j, c14_nopanic_mon (to_header r j) = true) /\
  (forall j, c14_nopanic_mon (to_proposed r j) = true) /\
  (forall j, c14_nopanic_mon (to_committed r j) = true) /\
  (forall j, c14_nopanic_mon (to_cmsg r j) = true) /\
  (forall b, c14_nopanic_mon (reg_unmarshal r b) = true).
Proof.
  unfold c14_nopanic_mon. repeat split; intros.
  - apply to_header_total. - apply to_proposed_total. - apply to_committed_total.
  - apply to_cmsg_total. - apply reg_unmarshal_total.
Qed.

(** A short key is an error (the fixed defect: it used to be a slice-bounds panic). *)
Lemma short_key_is_error r b :
  (List.length (gb2s b) < prefix_size)%nat -> reg_unmarshal r b = Ok None.
Proof.
  intros H. unfold reg_unmarshal. rewrite registry_unmarshal_correct. unfold registry_unmarshal_spec.
  apply Nat.ltb_lt in H. rewrite H. reflexivity.
Qed.

(** * Registry round trip *)
Lemma pad_to_length n name : List.length (pad_to n name) = n.
Proof.
  unfold pad_to. rewrite firstn_length, app_length, repeat_length. lia.
Qed.

Lemma type_find_In t m name : type_find t m = Some name -> In (t, name) m.
Proof.
  induction m as [|[t' n'] m IH]; cbn; [discriminate|].
  destruct (N.eqb t' t) eqn:E.
  - intros H. inversion H; subst. apply N.eqb_eq in E. subst. left. reflexivity.
  - intros H. right. apply IH, H.
Qed.

Lemma dec2b_true {P Q : Prop} (d : {P} + {Q}) : dec2b d = true -> P.
Proof. destruct d; cbn; [auto|discriminate]. Qed.

Lemma dec2b_refl {A} (dec : forall a b : A, {a = b} + {a <> b}) a : dec2b (dec a a) = true.
Proof. destruct (dec a a); [reflexivity|contradiction]. Qed.

Lemma apply_ctor_accepts c b :
  ctor_accepts_b c b = true -> apply_ctor c b = Ok (Some (mk_pk (ctor_tid c) b)).
Proof. destruct c; cbn; [reflexivity|]. intros ->. reflexivity. Qed.

(** Unmarshal (Marshal k) = k for every registered key the constructor accepts. *)
Lemma reg_roundtrip r k :
  reg_wf_b r = true -> key_wf_b r k = true ->
  exists b, reg_marshal r (Some k) = Ok b /\ reg_unmarshal r (Some b) = Ok (Some k).
Proof.
  intros Hr Hk. unfold key_wf_b in Hk.
  destruct (type_find (pk_type k) (by_type r)) as [name|] eqn:Et; [|discriminate].
  destruct (alist_find name (by_prefix r)) as [c|] eqn:Ec; [|discriminate].
  apply andb_true_iff in Hk as [Htid Hacc]. apply N.eqb_eq in Htid.
  unfold reg_wf_b in Hr. rewrite forallb_forall in Hr.
  specialize (Hr _ (type_find_In _ _ _ Et)). cbn [fst snd] in Hr.
  apply andb_true_iff in Hr as [Hr _]. apply andb_true_iff in Hr as [Hlen Htrim].
  apply dec2b_true in Htrim.
  exists (pad_to prefix_size name ++ pk_bytes k). split.
  - unfold reg_marshal. rewrite Et. reflexivity.
  - unfold reg_unmarshal. rewrite registry_unmarshal_correct. unfold registry_unmarshal_spec.
    cbn [gb2s].
    assert (Hl : List.length (pad_to prefix_size name) = prefix_size) by apply pad_to_length.
    destruct (_ <? _)%nat eqn:E.
    { apply Nat.ltb_lt in E. rewrite app_length in E. lia. }
    rewrite firstn_app, Hl, Nat.sub_diag. cbn [firstn]. rewrite app_nil_r.
    rewrite <- Hl at 1. rewrite firstn_all. rewrite Htrim, Ec. cbn [option_map].
    rewrite skipn_app, Hl, Nat.sub_diag. cbn [skipn].
    rewrite <- Hl at 1. rewrite skipn_all. cbn [app].
    rewrite (apply_ctor_accepts _ _ Hacc). rewrite Htid. destruct k; reflexivity.
Qed.

(** * Validators and validator sets *)
Lemma validators_rt r vs :
  reg_wf_b r = true -> forallb (validator_wf_b r) vs = true ->
  exists jvs, to_json_validators r vs = Ok jvs /\ to_validators r jvs = Ok (Some vs).
Proof.
  intros Hr. induction vs as [|v vs IH]; intros H.
  - exists []. split; reflexivity.
  - cbn [forallb] in H. apply andb_true_iff in H as [Hv Hvs].
    destruct (IH Hvs) as [jvs [E1 E2]].
    unfold validator_wf_b in Hv. destruct v as [[k|] p]; cbn [v_pub] in Hv; [|discriminate].
    destruct (reg_roundtrip r k Hr Hv) as [b [Em Eu]].
    exists (mk_jvalidator (Some b) p :: jvs). split.
    + cbn [to_json_validators]. unfold to_json_validator. cbn [v_pub v_power].
      rewrite Em. cbn [bind]. rewrite E1. reflexivity.
    + cbn [to_validators]. unfold to_validator. cbn [jv_pub jv_power].
      rewrite Eu. cbn [bindE]. rewrite E2. reflexivity.
Qed.

Definition rt_valset_of (vs : valset) : valset :=
  mk_valset (Some (opt_list (vs_vals vs))) (Some (map v_pub (opt_list (vs_vals vs)))) (vs_pkh vs) (vs_vph vs).

Lemma valset_rt r vs :
  reg_wf_b r = true -> valset_wf_b r vs = true ->
  exists j, to_json_valset r vs = Ok j /\ to_valset r j = Ok (Some (rt_valset_of vs)).
Proof.
  intros Hr H. unfold valset_wf_b in H. apply andb_true_iff in H as [Hv _].
  destruct (validators_rt r _ Hr Hv) as [jvs [E1 E2]].
  exists (mk_jvalset (Some jvs) (vs_pkh vs) (vs_vph vs)). split.
  - unfold to_json_valset. rewrite E1. reflexivity.
  - unfold to_valset. cbn [jvs_vals opt_list jvs_pkh jvs_vph]. rewrite E2. reflexivity.
Qed.

(** * Proof maps *)
Lemma existsb_eqb_In k ks : existsb (bytes_eqb k) ks = true <-> In k ks.
Proof.
  rewrite existsb_exists. split.
  - intros [x [Hin E]]. apply bytes_eqb_eq in E. subst. exact Hin.
  - intros H. exists k. split; [exact H|apply bytes_eqb_refl].
Qed.

Lemma nodup_keys_NoDup l : nodup_keys_b l = true <-> NoDup (map fst l).
Proof.
  induction l as [|kv l IH]; cbn [nodup_keys_b map].
  - split; [constructor|reflexivity].
  - rewrite andb_true_iff, negb_true_iff, IH. split.
    + intros [H1 H2]. constructor; [|exact H2]. intros Hin. apply existsb_eqb_In in Hin. congruence.
    + intros H. inversion H; subst. split; [|assumption].
      destruct (existsb _ _) eqn:E; [|reflexivity]. apply existsb_eqb_In in E. contradiction.
Qed.

Lemma alist_set_fresh {V} (m : list (list N * V)) k v :
  ~ In k (map fst m) -> alist_set m k v = m ++ [(k, v)].
Proof.
  induction m as [|[k' v'] m IH]; cbn [alist_set map fst In app]; intros H; [reflexivity|].
  destruct (bytes_eqb k' k) eqn:E.
  - apply bytes_eqb_eq in E. exfalso. apply H. left. exact E.
  - f_equal. apply IH. intros Hin. apply H. right. exact Hin.
Qed.

Definition mk_entry (kv : list N * gsigs) : jentry := mk_jentry (Some (fst kv)) (snd kv).

Lemma build_map_acc l : forall acc,
  NoDup (map fst (acc ++ l)) ->
  fold_left (fun m e => alist_set m (je_key e) (je_sigs e)) (map mk_entry l) acc = acc ++ l.
Proof.
  induction l as [|[k v] l IH]; intros acc H; cbn [map fold_left].
  - rewrite app_nil_r. reflexivity.
  - unfold mk_entry at 1. cbn [je_key je_hash je_sigs gb2s fst snd].
    rewrite alist_set_fresh.
    + rewrite IH; rewrite <- app_assoc; cbn [app]; [reflexivity|exact H].
    + rewrite map_app in H. cbn [map fst] in H. apply NoDup_remove_2 in H.
      intros Hin. apply H. apply in_or_app. left. exact Hin.
Qed.

(** Decoding the entries of a Go map (unique keys, any iteration order) rebuilds that map. *)
Lemma build_map_entries m : pmap_wf_b m = true -> build_map (entries_of m) = pm_list m.
Proof.
  intros H. apply nodup_keys_NoDup in H. unfold build_map, entries_of.
  change (fun kv : list N * gsigs => mk_jentry (Some (fst kv)) (snd kv)) with mk_entry.
  rewrite (build_map_acc (pm_list m) []); [reflexivity|exact H].
Qed.

Lemma commit_proof_rt p :
  pmap_wf_b (cp_proofs p) = true ->
  to_commit_proof (to_json_commit_proof p) =
  mk_commit_proof (cp_round p) (cp_pkh p) (Some (pm_list (cp_proofs p))).
Proof.
  intros H. unfold to_commit_proof, to_json_commit_proof.
  cbn [jcp_round jcp_pkh jcp_commits gb2s opt_list]. rewrite (build_map_entries _ H). reflexivity.
Qed.

(** * Map lookups are independent of the order of the association list *)
Lemma alist_find_none {V} k (l : list (list N * V)) : alist_find k l = None <-> ~ In k (map fst l).
Proof.
  induction l as [|[k' v] l IH]; cbn [alist_find map fst In].
  - split; [intros _ H; exact H|reflexivity].
  - destruct (bytes_eqb k' k) eqn:E.
    + apply bytes_eqb_eq in E. split; [discriminate|]. intros H. exfalso. apply H. left. exact E.
    + apply bytes_eqb_neq in E. rewrite IH. split.
      * intros H [H1|H1]; [exact (E H1)|exact (H H1)].
      * intros H H1. apply H. right. exact H1.
Qed.

Lemma alist_find_perm {V} k (l l' : list (list N * V)) :
  Permutation l l' -> NoDup (map fst l) -> alist_find k l = alist_find k l'.
Proof.
  induction 1 as [| [k1 v1] l l' HP IH | [k1 v1] [k2 v2] l | l l' l'' HP1 IH1 HP2 IH2]; intros ND.
  - reflexivity.
  - cbn [alist_find]. cbn [map fst] in ND. inversion ND; subst.
    destruct (bytes_eqb k1 k); [reflexivity|]. apply IH. assumption.
  - cbn [alist_find]. cbn [map fst] in ND. inversion ND as [|? ? Hn _]; subst.
    destruct (bytes_eqb k2 k) eqn:E2; destruct (bytes_eqb k1 k) eqn:E1; try reflexivity.
    apply bytes_eqb_eq in E1, E2. subst. exfalso. apply Hn. left. reflexivity.
  - rewrite IH1 by exact ND. apply IH2.
    eapply Permutation_NoDup; [apply Permutation_map; exact HP1|exact ND].
Qed.

Lemma insert_kv_perm e l : Permutation (insert_kv e l) (e :: l).
Proof.
  induction l as [|x l IH]; cbn [insert_kv]; [reflexivity|].
  destruct (bytes_ltb (fst e) (fst x)); [reflexivity|].
  rewrite perm_swap. constructor. exact IH.
Qed.

Lemma sort_kv_perm l : Permutation (sort_kv l) l.
Proof.
  induction l as [|x l IH]; cbn [sort_kv fold_right]; [reflexivity|].
  fold (sort_kv l). rewrite insert_kv_perm. constructor. exact IH.
Qed.

(** the encoder's sort commutes with the entry conversion *)
Lemma insert_entry_map e l : insert_entry (mk_entry e) (map mk_entry l) = map mk_entry (insert_kv e l).
Proof.
  induction l as [|x l IH]; cbn [insert_entry insert_kv map]; [reflexivity|].
  unfold je_key at 1 2. unfold mk_entry at 1 2. cbn [je_hash gb2s].
  destruct (bytes_ltb (fst e) (fst x)); cbn [map]; [reflexivity|]. f_equal. exact IH.
Qed.

Lemma sort_entries_map l : sort_entries (map mk_entry l) = map mk_entry (sort_kv l).
Proof.
  induction l as [|x l IH]; cbn [sort_entries sort_kv fold_right map]; [reflexivity|].
  fold (sort_entries (map mk_entry l)). fold (sort_kv l). rewrite IH. apply insert_entry_map.
Qed.

Lemma sort_kv_nodup l : NoDup (map fst l) -> NoDup (map fst (sort_kv l)).
Proof.
  intros H. eapply Permutation_NoDup; [|exact H].
  apply Permutation_map. symmetry. apply sort_kv_perm.
Qed.

(** MarshalPrevoteProof/MarshalPrecommitProof then Unmarshal: the map comes back sorted. *)
Lemma sparse_rt p :
  sparse_wf_b p = true ->
  rt_sparse p = mk_sparse (sp_height p) (sp_round p) (sp_pkh p) (Some (sort_kv (pm_list (sp_proofs p)))).
Proof.
  intros H. unfold sparse_wf_b, pmap_wf_b in H. apply nodup_keys_NoDup in H.
  unfold rt_sparse, to_sparse, to_json_sparse.
  cbn [jsp_height jsp_round jsp_pkh jsp_proofs gb2s opt_list]. f_equal. f_equal.
  unfold entries_of. change (fun kv : list N * gsigs => mk_jentry (Some (fst kv)) (snd kv)) with mk_entry.
  rewrite sort_entries_map. unfold build_map.
  rewrite (build_map_acc (sort_kv (pm_list (sp_proofs p))) []); [reflexivity|].
  cbn [app]. apply sort_kv_nodup. exact H.
Qed.

(** * The round-trip relation, in Prop (the boolean form is Monitors/C14m.v) *)
Definition pmap_eqv (a b : pmap) : Prop := forall k, pm_find k a = pm_find k b.
Definition commit_proof_eqv (a b : commit_proof) : Prop :=
  cp_round a = cp_round b /\ cp_pkh a = cp_pkh b /\ pmap_eqv (cp_proofs a) (cp_proofs b).
Definition valset_eqv (a b : valset) : Prop :=
  opt_list (vs_vals a) = opt_list (vs_vals b) /\ opt_list (vs_pubkeys a) = opt_list (vs_pubkeys b) /\
  vs_pkh a = vs_pkh b /\ vs_vph a = vs_vph b.
Definition header_eqv (a b : header) : Prop :=
  h_hash a = h_hash b /\ h_prev a = h_prev b /\ h_height a = h_height b /\
  commit_proof_eqv (h_pcp a) (h_pcp b) /\ valset_eqv (h_vs a) (h_vs b) /\ valset_eqv (h_nvs a) (h_nvs b) /\
  h_dataid a = h_dataid b /\ h_pash a = h_pash b /\ h_user a = h_user b /\ h_driver a = h_driver b.
Definition proposed_eqv (a b : proposed_header) : Prop :=
  header_eqv (ph_header a) (ph_header b) /\ ph_round a = ph_round b /\ ph_pub a = ph_pub b /\
  ph_user a = ph_user b /\ ph_driver a = ph_driver b /\ ph_sig a = ph_sig b.
Definition committed_eqv (a b : committed_header) : Prop :=
  header_eqv (ch_header a) (ch_header b) /\ commit_proof_eqv (ch_proof a) (ch_proof b).
Definition sparse_eqv (a b : sparse_proof) : Prop :=
  sp_height a = sp_height b /\ sp_round a = sp_round b /\ sp_pkh a = sp_pkh b /\
  pmap_eqv (sp_proofs a) (sp_proofs b).
Definition opt_eqv {A} (R : A -> A -> Prop) (a b : option A) : Prop :=
  match a, b with Some x, Some y => R x y | None, None => True | _, _ => False end.
Definition cmsg_eqv (a b : cmsg) : Prop :=
  opt_eqv proposed_eqv (cm_ph a) (cm_ph b) /\ opt_eqv sparse_eqv (cm_pv a) (cm_pv b) /\
  opt_eqv sparse_eqv (cm_pc a) (cm_pc b).

(** boolean and Prop forms agree *)
Lemma dec2b_iff {A} (dec : forall a b : A, {a = b} + {a <> b}) a b : dec2b (dec a b) = true <-> a = b.
Proof. destruct (dec a b); cbn; split; auto; try discriminate; try contradiction. Qed.

Lemma pmap_eqv_b_iff a b : pmap_eqv_b a b = true <-> pmap_eqv a b.
Proof.
  unfold pmap_eqv_b, pmap_eqv. rewrite forallb_forall. split.
  - intros H k.
    destruct (in_dec bytes_dec k (pm_keys a ++ pm_keys b)) as [Hin|Hnin].
    + apply (dec2b_iff ogsigs_dec). apply H. exact Hin.
    + unfold pm_find.
      assert (Ha : ~ In k (map fst (pm_list a))) by (intros X; apply Hnin, in_or_app; left; exact X).
      assert (Hb : ~ In k (map fst (pm_list b))) by (intros X; apply Hnin, in_or_app; right; exact X).
      apply alist_find_none in Ha, Hb. congruence.
  - intros H k _. apply (dec2b_iff ogsigs_dec). apply H.
Qed.

Lemma commit_proof_eqv_b_iff a b : commit_proof_eqv_b a b = true <-> commit_proof_eqv a b.
Proof.
  unfold commit_proof_eqv_b, commit_proof_eqv.
  rewrite !andb_true_iff, N.eqb_eq, (dec2b_iff bytes_dec), pmap_eqv_b_iff. tauto.
Qed.

Lemma valset_eqv_b_iff a b : valset_eqv_b a b = true <-> valset_eqv a b.
Proof.
  unfold valset_eqv_b, valset_eqv.
  rewrite !andb_true_iff, (dec2b_iff (list_eq_dec validator_dec)), (dec2b_iff (list_eq_dec opubkey_dec)),
    !(dec2b_iff gbytes_dec). tauto.
Qed.

Lemma header_eqv_b_iff a b : header_eqv_b a b = true <-> header_eqv a b.
Proof.
  unfold header_eqv_b, header_eqv.
  rewrite !andb_true_iff, !(dec2b_iff gbytes_dec), N.eqb_eq, commit_proof_eqv_b_iff, !valset_eqv_b_iff. tauto.
Qed.

Lemma proposed_eqv_b_iff a b : proposed_eqv_b a b = true <-> proposed_eqv a b.
Proof.
  unfold proposed_eqv_b, proposed_eqv.
  rewrite !andb_true_iff, !(dec2b_iff gbytes_dec), (dec2b_iff opubkey_dec), N.eqb_eq, header_eqv_b_iff. tauto.
Qed.

Lemma committed_eqv_b_iff a b : committed_eqv_b a b = true <-> committed_eqv a b.
Proof.
  unfold committed_eqv_b, committed_eqv. rewrite andb_true_iff, header_eqv_b_iff, commit_proof_eqv_b_iff. tauto.
Qed.

Lemma sparse_eqv_b_iff a b : sparse_eqv_b a b = true <-> sparse_eqv a b.
Proof.
  unfold sparse_eqv_b, sparse_eqv.
  rewrite !andb_true_iff, !N.eqb_eq, (dec2b_iff bytes_dec), pmap_eqv_b_iff. tauto.
Qed.

Lemma opt_eqv_b_iff {A} f (R : A -> A -> Prop) (H : forall x y, f x y = true <-> R x y) a b :
  opt_eqv_b f a b = true <-> opt_eqv R a b.
Proof. destruct a, b; cbn; try apply H; split; auto; try discriminate; contradiction. Qed.

Lemma cmsg_eqv_b_iff a b : cmsg_eqv_b a b = true <-> cmsg_eqv a b.
Proof.
  unfold cmsg_eqv_b, cmsg_eqv.
  rewrite !andb_true_iff, (opt_eqv_b_iff _ _ proposed_eqv_b_iff), !(opt_eqv_b_iff _ _ sparse_eqv_b_iff). tauto.
Qed.
