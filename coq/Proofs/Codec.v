(** C14 - proofs about the wire codec model (Model/Codec.v, Gen/Registry.v). *)
From Coq Require Import List NArith ZArith String Bool Lia Permutation.
From GV Require Import Base.Ints Base.GoBytes Gen.Registry Model.CodecTypes Model.Codec Monitors.C14m Model.CodecCheck.
Import ListNotations.
Local Open Scope N_scope.

(** The registry used by the harness satisfies the registry hypothesis of the theorems. *)
Lemma harness_registry_wf : reg_wf_b harness_registry = true.
Proof. vm_compute. reflexivity. Qed.

(** * Slices *)
Lemma slice_prefix (b : list N) (k : nat) s :
  (k <= List.length b)%nat -> slice_bytes b 0%Z (Z.of_nat k) s = Ok (firstn k b).
Proof.
  intros H. unfold slice_bytes.
  destruct ((0 <? 0)%Z || (Z.of_nat k <? 0)%Z || (Z.of_nat (List.length b) <? Z.of_nat k)%Z) eqn:E.
  - exfalso. rewrite !orb_true_iff in E. rewrite !Z.ltb_lt in E. lia.
  - cbn [Z.to_nat]. rewrite Nat2Z.id. rewrite Nat.sub_0_r. reflexivity.
Qed.

Lemma slice_suffix (b : list N) (k : nat) s :
  (k <= List.length b)%nat -> slice_bytes b (Z.of_nat k) (Z.of_nat (List.length b)) s = Ok (skipn k b).
Proof.
  intros H. unfold slice_bytes.
  destruct ((Z.of_nat k <? 0)%Z || (Z.of_nat (List.length b) <? Z.of_nat k)%Z ||
            (Z.of_nat (List.length b) <? Z.of_nat (List.length b))%Z) eqn:E.
  - exfalso. rewrite !orb_true_iff in E. rewrite !Z.ltb_lt in E. lia.
  - rewrite !Nat2Z.id. f_equal. apply firstn_all2. rewrite skipn_length. lia.
Qed.

(** * The generated Registry.Unmarshal against a closed-form specification.
      This is the lemma that breaks when registry.go's guard or slice bounds change. *)
Definition registry_unmarshal_spec {K} (bp : list N -> option (list N -> res (option K))) (b : list N)
  : res (option K) :=
  if (List.length b <? prefix_size)%nat then Ok None
  else match bp (trim_right_zeros (firstn prefix_size b)) with
       | None => Ok None
       | Some f => f (skipn prefix_size b)
       end.

Lemma registry_unmarshal_correct {K} bp (b : list N) :
  @registry_unmarshal K bp b = registry_unmarshal_spec bp b.
Proof.
  unfold registry_unmarshal, registry_unmarshal_spec, prefix_size.
  destruct (Z.of_nat (List.length b) <? 8)%Z eqn:E.
  - apply Z.ltb_lt in E. destruct (List.length b <? 8)%nat eqn:E2; [reflexivity|].
    apply Nat.ltb_ge in E2. lia.
  - apply Z.ltb_ge in E. destruct (List.length b <? 8)%nat eqn:E2.
    { apply Nat.ltb_lt in E2. lia. }
    apply Nat.ltb_ge in E2.
    change 8%Z with (Z.of_nat 8).
    rewrite (slice_prefix b 8) by exact E2. cbn [bind].
    destruct (bp (trim_right_zeros (firstn 8 b))) as [f|]; [|reflexivity].
    rewrite (slice_suffix b 8) by exact E2. reflexivity.
Qed.

(** * Totality: no conversion from an intermediate struct panics *)
Lemma apply_ctor_ok c b : is_ok (apply_ctor c b) = true.
Proof. destruct c; cbn; [reflexivity|]. destruct (N.eqb _ _); reflexivity. Qed.

Lemma reg_unmarshal_total r b : is_ok (reg_unmarshal r b) = true.
Proof.
  unfold reg_unmarshal. rewrite registry_unmarshal_correct. unfold registry_unmarshal_spec.
  destruct (_ <? _)%nat; [reflexivity|].
  destruct (alist_find _ (by_prefix r)) as [c|]; cbn; [apply apply_ctor_ok|reflexivity].
Qed.

Lemma bindE_ok {A B} (x : res (option A)) (f : A -> res (option B)) :
  is_ok x = true -> (forall a, is_ok (f a) = true) -> is_ok (bindE x f) = true.
Proof. intros Hx Hf. destruct x as [[a|]|s]; cbn in *; auto; discriminate. Qed.

Lemma to_validator_total r jv : is_ok (to_validator r jv) = true.
Proof. unfold to_validator. apply bindE_ok; [apply reg_unmarshal_total|reflexivity]. Qed.

Lemma to_validators_total r jvs : is_ok (to_validators r jvs) = true.
Proof.
  induction jvs as [|jv jvs IH]; cbn [to_validators]; [reflexivity|].
  apply bindE_ok; [apply to_validator_total|]. intros v.
  apply bindE_ok; [exact IH|reflexivity].
Qed.

Lemma to_valset_total r j : is_ok (to_valset r j) = true.
Proof. unfold to_valset. apply bindE_ok; [apply to_validators_total|reflexivity]. Qed.

Lemma to_header_total r j : is_ok (to_header r j) = true.
Proof.
  unfold to_header. apply bindE_ok; [apply to_valset_total|]. intros vs.
  apply bindE_ok; [apply to_valset_total|reflexivity].
Qed.

Lemma to_proposed_total r j : is_ok (to_proposed r j) = true.
Proof.
  unfold to_proposed. apply bindE_ok; [apply to_header_total|]. intros h.
  apply bindE_ok; [|reflexivity].
  destruct (jph_pub j) as [b|]; [|reflexivity].
  apply bindE_ok; [apply reg_unmarshal_total|reflexivity].
Qed.

Lemma to_committed_total r j : is_ok (to_committed r j) = true.
Proof. unfold to_committed. apply bindE_ok; [apply to_header_total|reflexivity]. Qed.

Lemma to_cmsg_total r j : is_ok (to_cmsg r j) = true.
Proof.
  unfold to_cmsg.
  destruct (jcm_ph j) as [| |jp]; destruct (jcm_pv j) as [| |p1]; destruct (jcm_pc j) as [| |p2];
    try reflexivity; (apply bindE_ok; [apply to_proposed_total|reflexivity]).
Qed.

(** decode_struct_total: for every registry and every value of every intermediate struct the
    conversion returns a value or an error - never a panic.  (Sparse proofs: [to_sparse] is a
    plain function, it cannot even return an error.) *)
Lemma decode_struct_total r :
  (forall j, c14_nopanic_mon (to_header r j) = true) /\
  (forall j, c14_nopanic_mon (to_proposed r j) = true) /\
  (forall j, c14_nopanic_mon (to_committed r j) = true) /\
  (forall j, c14_nopanic_mon (to_cmsg r j) = true) /\
  (forall b, c14_nopanic_mon (reg_unmarshal r b) = true).
Proof.
  unfold c14_nopanic_mon. repeat split; intros.
  - apply to_header_total. - apply to_proposed_total. - apply to_committed_total.
  - apply to_cmsg_total. - apply reg_unmarshal_total.
Qed.

(** A short key is an error (the fixed defect: it used to be a slice-bounds panic). *)
Lemma short_key_is_error r b :
  (List.length (gb2s b) < prefix_size)%nat -> reg_unmarshal r b = Ok None.
Proof.
  intros H. unfold reg_unmarshal. rewrite registry_unmarshal_correct. unfold registry_unmarshal_spec.
  apply Nat.ltb_lt in H. rewrite H. reflexivity.
Qed.
