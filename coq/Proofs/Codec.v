(** C14 - proofs about the wire codec model (Model/Codec.v, Gen/Registry.v). *)
From Coq Require Import List NArith ZArith String Bool Lia Permutation.
From GV Require Import Base.Ints Base.GoBytes Gen.Registry Model.CodecTypes Model.Codec Monitors.C14m Model.CodecCheck.
Import ListNotations.
Local Open Scope N_scope.

(** The registry used by the harness satisfies the registry hypothesis of the theorems. *)
Lemma harness_registry_wf : reg_wf_b harness_registry = true.
Proof. vm_compute. reflexivity. Qed.
