(** C14 - proofs about the wire codec model (Model/Codec.v, Gen/Registry.v). *)
From Coq Require Import List NArith ZArith String Bool Lia Permutation.
From GV Require Import Base.Ints Base.GoBytes Gen.Registry Model.CodecTypes Model.Codec Monitors.C14m Model.CodecCheck.
Import ListNotations.
Local Open Scope N_scope.

(** The registry used by the harness satisfies the registry hypothesis of the theorems. *)
Lemma harness_registry_wf : reg_wf_b harness_registry = true.
Proof. vm_compute. reflexivity. Qed.

(** * Slices *)
Lemma slice_prefix (b : list N) (k : nat) s :
  (k <= List.length b)%nat -> slice_bytes b 0%Z (Z.of_nat k) s = Ok (firstn k b).
Proof.
  intros H. unfold slice_bytes.
  destruct ((0 <? 0)%Z || (Z.of_nat k <? 0)%Z || (Z.of_nat (List.length b) <? Z.of_nat k)%Z) eqn:E.
  - exfalso. rewrite !orb_true_iff in E. rewrite !Z.ltb_lt in E. lia.
  - cbn [Z.to_nat]. rewrite Nat2Z.id. rewrite Nat.sub_0_r. reflexivity.
Qed.

Lemma slice_suffix (b : list N) (k : nat) s :
  (k <= List.length b)%nat -> slice_bytes b (Z.of_nat k) (Z.of_nat (List.length b)) s = Ok (skipn k b).
Proof.
  intros H. unfold slice_bytes.
  destruct ((Z.of_nat k <? 0)%Z || (Z.of_nat (List.length b) <? Z.of_nat k)%Z ||
            (Z.of_nat (List.length b) <? Z.of_nat (List.length b))%Z) eqn:E.
  - exfalso. rewrite !orb_true_iff in E. rewrite !Z.ltb_lt in E. lia.
  - rewrite !Nat2Z.id. f_equal. apply firstn_all2. rewrite skipn_length. lia.
Qed.

(** * The generated Registry.Unmarshal against a closed-form specification.
      This is the lemma that breaks when registry.go's guard or slice bounds change. *)
Definition registry_unmarshal_spec {K} (bp : list N -> option (list N -> res (option K))) (b : list N)
  : res (option K) :=
  if (List.length b <? prefix_size)%nat then Ok None
  else match bp (trim_right_zeros (firstn prefix_size b)) with
       | None => Ok None
       | Some f => f (skipn prefix_size b)
       end.

Lemma registry_unmarshal_correct {K} bp (b : list N) :
  @registry_unmarshal K bp b = registry_unmarshal_spec bp b.
Proof.
  unfold registry_unmarshal, registry_unmarshal_spec, prefix_size.
  destruct (Z.of_nat (List.length b) <? 8)%Z eqn:E.
  - apply Z.ltb_lt in E. destruct (List.length b <? 8)%nat eqn:E2; [reflexivity|].
    apply Nat.ltb_ge in E2. lia.
  - apply Z.ltb_ge in E. destruct (List.length b <? 8)%nat eqn:E2.
    { apply Nat.ltb_lt in E2. lia. }
    apply Nat.ltb_ge in E2.
    change 8%Z with (Z.of_nat 8).
    rewrite (slice_prefix b 8) by exact E2. cbn [bind].
    destruct (bp (trim_right_zeros (firstn 8 b))) as [f|]; [|reflexivity].
    rewrite (slice_suffix b 8) by exact E2. reflexivity.
Qed.

(** * Totality: no conversion from an intermediate struct panics *)
Lemma apply_ctor_ok c b : is_ok (apply_ctor c b) = true.
Proof. destruct c; cbn; [reflexivity|]. destruct (N.eqb _ _); reflexivity. Qed.

Lemma reg_unmarshal_total r b : is_ok (reg_unmarshal r b) = true.
Proof.
  unfold reg_unmarshal. rewrite registry_unmarshal_correct. unfold registry_unmarshal_spec.
  destruct (_ <? _)%nat; [reflexivity|].
  destruct (alist_find _ (by_prefix r)) as [c|]; cbn; [apply apply_ctor_ok|reflexivity].
Qed.

Lemma bindE_ok {A B} (x : res (option A)) (f : A -> res (option B)) :
  is_ok x = true -> (forall a, is_ok (f a) = true) -> is_ok (bindE x f) = true.
Proof. intros Hx Hf. destruct x as [[a|]|s]; cbn in *; auto; discriminate. Qed.

Lemma to_validator_total r jv : is_ok (to_validator r jv) = true.
Proof. unfold to_validator. apply bindE_ok; [apply reg_unmarshal_total|reflexivity]. Qed.

Lemma to_validators_total r jvs : is_ok (to_validators r jvs) = true.
Proof.
  induction jvs as [|jv jvs IH]; cbn [to_validators]; [reflexivity|].
  apply bindE_ok; [apply to_validator_total|]. intros v.
  apply bindE_ok; [exact IH|reflexivity].
Qed.

Lemma to_valset_total r j : is_ok (to_valset r j) = true.
Proof. unfold to_valset. apply bindE_ok; [apply to_validators_total|reflexivity]. Qed.

Lemma to_header_total r j : is_ok (to_header r j) = true.
Proof.
  unfold to_header. apply bindE_ok; [apply to_valset_total|]. intros vs.
  apply bindE_ok; [apply to_valset_total|reflexivity].
Qed.

Lemma to_proposed_total r j : is_ok (to_proposed r j) = true.
Proof.
  unfold to_proposed. apply bindE_ok; [apply to_header_total|]. intros h.
  apply bindE_ok; [|reflexivity].
  destruct (jph_pub j) as [b|]; [|reflexivity].
  apply bindE_ok; [apply reg_unmarshal_total|reflexivity].
Qed.

Lemma to_committed_total r j : is_ok (to_committed r j) = true.
Proof. unfold to_committed. apply bindE_ok; [apply to_header_total|reflexivity]. Qed.

Lemma to_cmsg_total r j : is_ok (to_cmsg r j) = true.
Proof.
  unfold to_cmsg.
  destruct (jcm_ph j) as [| |jp]; destruct (jcm_pv j) as [| |p1]; destruct (jcm_pc j) as [| |p2];
    try reflexivity; (apply bindE_ok; [apply to_proposed_total|reflexivity]).
Qed.

(** decode_struct_total: for every registry and every value of every intermediate struct the
    conversion returns a value or an error - never a panic.  (Sparse proofs: [to_sparse] is a
    plain function, it cannot even return an error.) *)
Lemma decode_struct_total r :
  (forall j, c14_nopanic_mon (to_header r j) = true) /\
  (forall j, c14_nopanic_mon (to_proposed r j) = true) /\
  (forall j, c14_nopanic_mon (to_committed r j) = true) /\
  (forall j, c14_nopanic_mon (to_cmsg r j) = true) /\
  (forall b, c14_nopanic_mon (reg_unmarshal r b) = true).
Proof.
  unfold c14_nopanic_mon. repeat split; intros.
  - apply to_header_total. - apply to_proposed_total. - apply to_committed_total.
  - apply to_cmsg_total. - apply reg_unmarshal_total.
Qed.

(** A short key is an error (the fixed defect: it used to be a slice-bounds panic). *)
Lemma short_key_is_error r b :
  (List.length (gb2s b) < prefix_size)%nat -> reg_unmarshal r b = Ok None.
Proof.
  intros H. unfold reg_unmarshal. rewrite registry_unmarshal_correct. unfold registry_unmarshal_spec.
  apply Nat.ltb_lt in H. rewrite H. reflexivity.
Qed.

(** * Registry round trip *)
Lemma pad_to_length n name : List.length (pad_to n name) = n.
Proof.
  unfold pad_to. rewrite firstn_length, app_length, repeat_length. lia.
Qed.

Lemma type_find_In t m name : type_find t m = Some name -> In (t, name) m.
Proof.
  induction m as [|[t' n'] m IH]; cbn; [discriminate|].
  destruct (N.eqb t' t) eqn:E.
  - intros H. inversion H; subst. apply N.eqb_eq in E. subst. left. reflexivity.
  - intros H. right. apply IH, H.
Qed.

Lemma dec2b_true {P Q : Prop} (d : {P} + {Q}) : dec2b d = true -> P.
Proof. destruct d; cbn; [auto|discriminate]. Qed.

Lemma dec2b_refl {A} (dec : forall a b : A, {a = b} + {a <> b}) a : dec2b (dec a a) = true.
Proof. destruct (dec a a); [reflexivity|contradiction]. Qed.

Lemma apply_ctor_accepts c b :
  ctor_accepts_b c b = true -> apply_ctor c b = Ok (Some (mk_pk (ctor_tid c) b)).
Proof. destruct c; cbn; [reflexivity|]. intros ->. reflexivity. Qed.

(** Unmarshal (Marshal k) = k for every registered key the constructor accepts. *)
Lemma reg_roundtrip r k :
  reg_wf_b r = true -> key_wf_b r k = true ->
  exists b, reg_marshal r (Some k) = Ok b /\ reg_unmarshal r (Some b) = Ok (Some k).
Proof.
  intros Hr Hk. unfold key_wf_b in Hk.
  destruct (type_find (pk_type k) (by_type r)) as [name|] eqn:Et; [|discriminate].
  destruct (alist_find name (by_prefix r)) as [c|] eqn:Ec; [|discriminate].
  apply andb_true_iff in Hk as [Htid Hacc]. apply N.eqb_eq in Htid.
  unfold reg_wf_b in Hr. rewrite forallb_forall in Hr.
  specialize (Hr _ (type_find_In _ _ _ Et)). cbn [fst snd] in Hr.
  apply andb_true_iff in Hr as [Hr _]. apply andb_true_iff in Hr as [Hlen Htrim].
  apply dec2b_true in Htrim.
  exists (pad_to prefix_size name ++ pk_bytes k). split.
  - unfold reg_marshal. rewrite Et. reflexivity.
  - unfold reg_unmarshal. rewrite registry_unmarshal_correct. unfold registry_unmarshal_spec.
    cbn [gb2s].
    assert (Hl : List.length (pad_to prefix_size name) = prefix_size) by apply pad_to_length.
    destruct (_ <? _)%nat eqn:E.
    { apply Nat.ltb_lt in E. rewrite app_length in E. lia. }
    rewrite firstn_app, Hl, Nat.sub_diag. cbn [firstn]. rewrite app_nil_r.
    rewrite <- Hl at 1. rewrite firstn_all. rewrite Htrim, Ec. cbn [option_map].
    rewrite skipn_app, Hl, Nat.sub_diag. cbn [skipn].
    rewrite <- Hl at 1. rewrite skipn_all. cbn [app].
    rewrite (apply_ctor_accepts _ _ Hacc). rewrite Htid. destruct k; reflexivity.
Qed.

(** * Validators and validator sets *)
Lemma validators_rt r vs :
  reg_wf_b r = true -> forallb (validator_wf_b r) vs = true ->
  exists jvs, to_json_validators r vs = Ok jvs /\ to_validators r jvs = Ok (Some vs).
Proof.
  intros Hr. induction vs as [|v vs IH]; intros H.
  - exists []. split; reflexivity.
  - cbn [forallb] in H. apply andb_true_iff in H as [Hv Hvs].
    destruct (IH Hvs) as [jvs [E1 E2]].
    unfold validator_wf_b in Hv. destruct v as [[k|] p]; cbn [v_pub] in Hv; [|discriminate].
    destruct (reg_roundtrip r k Hr Hv) as [b [Em Eu]].
    exists (mk_jvalidator (Some b) p :: jvs). split.
    + cbn [to_json_validators]. unfold to_json_validator. cbn [v_pub v_power].
      rewrite Em. cbn [bind]. rewrite E1. reflexivity.
    + cbn [to_validators]. unfold to_validator. cbn [jv_pub jv_power].
      rewrite Eu. cbn [bindE]. rewrite E2. reflexivity.
Qed.

Definition rt_valset_of (vs : valset) : valset :=
  mk_valset (Some (opt_list (vs_vals vs))) (Some (map v_pub (opt_list (vs_vals vs)))) (vs_pkh vs) (vs_vph vs).

Lemma valset_rt r vs :
  reg_wf_b r = true -> valset_wf_b r vs = true ->
  exists j, to_json_valset r vs = Ok j /\ to_valset r j = Ok (Some (rt_valset_of vs)).
Proof.
  intros Hr H. unfold valset_wf_b in H. apply andb_true_iff in H as [Hv _].
  destruct (validators_rt r _ Hr Hv) as [jvs [E1 E2]].
  exists (mk_jvalset (Some jvs) (vs_pkh vs) (vs_vph vs)). split.
  - unfold to_json_valset. rewrite E1. reflexivity.
  - unfold to_valset. cbn [jvs_vals opt_list jvs_pkh jvs_vph]. rewrite E2. reflexivity.
Qed.

(** * Proof maps *)
Lemma existsb_eqb_In k ks : existsb (bytes_eqb k) ks = true <-> In k ks.
Proof.
  rewrite existsb_exists. split.
  - intros [x [Hin E]]. apply bytes_eqb_eq in E. subst. exact Hin.
  - intros H. exists k. split; [exact H|apply bytes_eqb_refl].
Qed.

Lemma nodup_keys_NoDup l : nodup_keys_b l = true <-> NoDup (map fst l).
Proof.
  induction l as [|kv l IH]; cbn [nodup_keys_b map].
  - split; [constructor|reflexivity].
  - rewrite andb_true_iff, negb_true_iff, IH. split.
    + intros [H1 H2]. constructor; [|exact H2]. intros Hin. apply existsb_eqb_In in Hin. congruence.
    + intros H. inversion H; subst. split; [|assumption].
      destruct (existsb _ _) eqn:E; [|reflexivity]. apply existsb_eqb_In in E. contradiction.
Qed.

Lemma alist_set_fresh {V} (m : list (list N * V)) k v :
  ~ In k (map fst m) -> alist_set m k v = m ++ [(k, v)].
Proof.
  induction m as [|[k' v'] m IH]; cbn [alist_set map fst In app]; intros H; [reflexivity|].
  destruct (bytes_eqb k' k) eqn:E.
  - apply bytes_eqb_eq in E. exfalso. apply H. left. exact E.
  - f_equal. apply IH. intros Hin. apply H. right. exact Hin.
Qed.

Definition mk_entry (kv : list N * gsigs) : jentry := mk_jentry (Some (fst kv)) (snd kv).

Lemma build_map_acc l : forall acc,
  NoDup (map fst (acc ++ l)) ->
  fold_left (fun m e => alist_set m (je_key e) (je_sigs e)) (map mk_entry l) acc = acc ++ l.
Proof.
  induction l as [|[k v] l IH]; intros acc H; cbn [map fold_left].
  - rewrite app_nil_r. reflexivity.
  - unfold mk_entry at 1. cbn [je_key je_hash je_sigs gb2s fst snd].
    rewrite alist_set_fresh.
    + rewrite IH; rewrite <- app_assoc; cbn [app]; [reflexivity|exact H].
    + rewrite map_app in H. cbn [map fst] in H. apply NoDup_remove_2 in H.
      intros Hin. apply H. apply in_or_app. left. exact Hin.
Qed.

(** Decoding the entries of a Go map (unique keys, any iteration order) rebuilds that map. *)
Lemma build_map_entries m : pmap_wf_b m = true -> build_map (entries_of m) = pm_list m.
Proof.
  intros H. apply nodup_keys_NoDup in H. unfold build_map, entries_of.
  change (fun kv : list N * gsigs => mk_jentry (Some (fst kv)) (snd kv)) with mk_entry.
  rewrite (build_map_acc (pm_list m) []); [reflexivity|exact H].
Qed.

Lemma commit_proof_rt p :
  pmap_wf_b (cp_proofs p) = true ->
  to_commit_proof (to_json_commit_proof p) =
  mk_commit_proof (cp_round p) (cp_pkh p) (Some (pm_list (cp_proofs p))).
Proof.
  intros H. unfold to_commit_proof, to_json_commit_proof.
  cbn [jcp_round jcp_pkh jcp_commits gb2s opt_list]. rewrite (build_map_entries _ H). reflexivity.
Qed.

(** * Map lookups are independent of the order of the association list *)
Lemma alist_find_none {V} k (l : list (list N * V)) : alist_find k l = None <-> ~ In k (map fst l).
Proof.
  induction l as [|[k' v] l IH]; cbn [alist_find map fst In].
  - split; [intros _ H; exact H|reflexivity].
  - destruct (bytes_eqb k' k) eqn:E.
    + apply bytes_eqb_eq in E. split; [discriminate|]. intros H. exfalso. apply H. left. exact E.
    + apply bytes_eqb_neq in E. rewrite IH. split.
      * intros H [H1|H1]; [exact (E H1)|exact (H H1)].
      * intros H H1. apply H. right. exact H1.
Qed.

Lemma alist_find_perm {V} k (l l' : list (list N * V)) :
  Permutation l l' -> NoDup (map fst l) -> alist_find k l = alist_find k l'.
Proof.
  induction 1 as [| [k1 v1] l l' HP IH | [k1 v1] [k2 v2] l | l l' l'' HP1 IH1 HP2 IH2]; intros ND.
  - reflexivity.
  - cbn [alist_find]. cbn [map fst] in ND. inversion ND; subst.
    destruct (bytes_eqb k1 k); [reflexivity|]. apply IH. assumption.
  - cbn [alist_find]. cbn [map fst] in ND. inversion ND as [|? ? Hn _]; subst.
    destruct (bytes_eqb k2 k) eqn:E2; destruct (bytes_eqb k1 k) eqn:E1; try reflexivity.
    apply bytes_eqb_eq in E1, E2. subst. exfalso. apply Hn. left. reflexivity.
  - rewrite IH1 by exact ND. apply IH2.
    eapply Permutation_NoDup; [apply Permutation_map; exact HP1|exact ND].
Qed.

Lemma insert_kv_perm e l : Permutation (insert_kv e l) (e :: l).
Proof.
  induction l as [|x l IH]; cbn [insert_kv]; [reflexivity|].
  destruct (bytes_ltb (fst e) (fst x)); [reflexivity|].
  rewrite perm_swap. constructor. exact IH.
Qed.

Lemma sort_kv_perm l : Permutation (sort_kv l) l.
Proof.
  induction l as [|x l IH]; cbn [sort_kv fold_right]; [reflexivity|].
  fold (sort_kv l). rewrite insert_kv_perm. constructor. exact IH.
Qed.

(** the encoder's sort commutes with the entry conversion *)
Lemma insert_entry_map e l : insert_entry (mk_entry e) (map mk_entry l) = map mk_entry (insert_kv e l).
Proof.
  induction l as [|x l IH]; cbn [insert_entry insert_kv map]; [reflexivity|].
  unfold je_key at 1 2. unfold mk_entry at 1 2. cbn [je_hash gb2s].
  destruct (bytes_ltb (fst e) (fst x)); cbn [map]; [reflexivity|]. f_equal. exact IH.
Qed.

Lemma sort_entries_map l : sort_entries (map mk_entry l) = map mk_entry (sort_kv l).
Proof.
  induction l as [|x l IH]; cbn [sort_entries sort_kv fold_right map]; [reflexivity|].
  fold (sort_entries (map mk_entry l)). fold (sort_kv l). rewrite IH. apply insert_entry_map.
Qed.

Lemma sort_kv_nodup l : NoDup (map fst l) -> NoDup (map fst (sort_kv l)).
Proof.
  intros H. eapply Permutation_NoDup; [|exact H].
  apply Permutation_map. symmetry. apply sort_kv_perm.
Qed.

(** MarshalPrevoteProof/MarshalPrecommitProof then Unmarshal: the map comes back sorted. *)
Lemma sparse_rt p :
  sparse_wf_b p = true ->
  rt_sparse p = mk_sparse (sp_height p) (sp_round p) (sp_pkh p) (Some (sort_kv (pm_list (sp_proofs p)))).
Proof.
  intros H. unfold sparse_wf_b, pmap_wf_b in H. apply nodup_keys_NoDup in H.
  unfold rt_sparse, to_sparse, to_json_sparse.
  cbn [jsp_height jsp_round jsp_pkh jsp_proofs gb2s opt_list]. f_equal. f_equal.
  unfold entries_of. change (fun kv : list N * gsigs => mk_jentry (Some (fst kv)) (snd kv)) with mk_entry.
  rewrite sort_entries_map. unfold build_map.
  rewrite (build_map_acc (sort_kv (pm_list (sp_proofs p))) []); [reflexivity|].
  cbn [app]. apply sort_kv_nodup. exact H.
Qed.

(** * The round-trip relation, in Prop (the boolean form is Monitors/C14m.v) *)
Definition pmap_eqv (a b : pmap) : Prop := forall k, pm_find k a = pm_find k b.
Definition commit_proof_eqv (a b : commit_proof) : Prop :=
  cp_round a = cp_round b /\ cp_pkh a = cp_pkh b /\ pmap_eqv (cp_proofs a) (cp_proofs b).
Definition valset_eqv (a b : valset) : Prop :=
  opt_list (vs_vals a) = opt_list (vs_vals b) /\ opt_list (vs_pubkeys a) = opt_list (vs_pubkeys b) /\
  vs_pkh a = vs_pkh b /\ vs_vph a = vs_vph b.
Definition header_eqv (a b : header) : Prop :=
  h_hash a = h_hash b /\ h_prev a = h_prev b /\ h_height a = h_height b /\
  commit_proof_eqv (h_pcp a) (h_pcp b) /\ valset_eqv (h_vs a) (h_vs b) /\ valset_eqv (h_nvs a) (h_nvs b) /\
  h_dataid a = h_dataid b /\ h_pash a = h_pash b /\ h_user a = h_user b /\ h_driver a = h_driver b.
Definition proposed_eqv (a b : proposed_header) : Prop :=
  header_eqv (ph_header a) (ph_header b) /\ ph_round a = ph_round b /\ ph_pub a = ph_pub b /\
  ph_user a = ph_user b /\ ph_driver a = ph_driver b /\ ph_sig a = ph_sig b.
Definition committed_eqv (a b : committed_header) : Prop :=
  header_eqv (ch_header a) (ch_header b) /\ commit_proof_eqv (ch_proof a) (ch_proof b).
Definition sparse_eqv (a b : sparse_proof) : Prop :=
  sp_height a = sp_height b /\ sp_round a = sp_round b /\ sp_pkh a = sp_pkh b /\
  pmap_eqv (sp_proofs a) (sp_proofs b).
Definition opt_eqv {A} (R : A -> A -> Prop) (a b : option A) : Prop :=
  match a, b with Some x, Some y => R x y | None, None => True | _, _ => False end.
Definition cmsg_eqv (a b : cmsg) : Prop :=
  opt_eqv proposed_eqv (cm_ph a) (cm_ph b) /\ opt_eqv sparse_eqv (cm_pv a) (cm_pv b) /\
  opt_eqv sparse_eqv (cm_pc a) (cm_pc b).

(** boolean and Prop forms agree *)
Lemma dec2b_iff {A} (dec : forall a b : A, {a = b} + {a <> b}) a b : dec2b (dec a b) = true <-> a = b.
Proof. destruct (dec a b); cbn; split; auto; try discriminate; try contradiction. Qed.

Lemma pmap_eqv_b_iff a b : pmap_eqv_b a b = true <-> pmap_eqv a b.
Proof.
  unfold pmap_eqv_b, pmap_eqv. rewrite forallb_forall. split.
  - intros H k.
    destruct (in_dec bytes_dec k (pm_keys a ++ pm_keys b)) as [Hin|Hnin].
    + apply (dec2b_iff ogsigs_dec). apply H. exact Hin.
    + unfold pm_find.
      assert (Ha : ~ In k (map fst (pm_list a))) by (intros X; apply Hnin, in_or_app; left; exact X).
      assert (Hb : ~ In k (map fst (pm_list b))) by (intros X; apply Hnin, in_or_app; right; exact X).
      apply alist_find_none in Ha, Hb. congruence.
  - intros H k _. apply (dec2b_iff ogsigs_dec). apply H.
Qed.

Lemma commit_proof_eqv_b_iff a b : commit_proof_eqv_b a b = true <-> commit_proof_eqv a b.
Proof.
  unfold commit_proof_eqv_b, commit_proof_eqv.
  rewrite !andb_true_iff, N.eqb_eq, (dec2b_iff bytes_dec), pmap_eqv_b_iff. tauto.
Qed.

Lemma valset_eqv_b_iff a b : valset_eqv_b a b = true <-> valset_eqv a b.
Proof.
  unfold valset_eqv_b, valset_eqv.
  rewrite !andb_true_iff, (dec2b_iff (list_eq_dec validator_dec)), (dec2b_iff (list_eq_dec opubkey_dec)),
    !(dec2b_iff gbytes_dec). tauto.
Qed.

Lemma header_eqv_b_iff a b : header_eqv_b a b = true <-> header_eqv a b.
Proof.
  unfold header_eqv_b, header_eqv.
  rewrite !andb_true_iff, !(dec2b_iff gbytes_dec), N.eqb_eq, commit_proof_eqv_b_iff, !valset_eqv_b_iff. tauto.
Qed.

Lemma proposed_eqv_b_iff a b : proposed_eqv_b a b = true <-> proposed_eqv a b.
Proof.
  unfold proposed_eqv_b, proposed_eqv.
  rewrite !andb_true_iff, !(dec2b_iff gbytes_dec), (dec2b_iff opubkey_dec), N.eqb_eq, header_eqv_b_iff. tauto.
Qed.

Lemma committed_eqv_b_iff a b : committed_eqv_b a b = true <-> committed_eqv a b.
Proof.
  unfold committed_eqv_b, committed_eqv. rewrite andb_true_iff, header_eqv_b_iff, commit_proof_eqv_b_iff. tauto.
Qed.

Lemma sparse_eqv_b_iff a b : sparse_eqv_b a b = true <-> sparse_eqv a b.
Proof.
  unfold sparse_eqv_b, sparse_eqv.
  rewrite !andb_true_iff, !N.eqb_eq, (dec2b_iff bytes_dec), pmap_eqv_b_iff. tauto.
Qed.

Lemma opt_eqv_b_iff {A} f (R : A -> A -> Prop) (H : forall x y, f x y = true <-> R x y) a b :
  opt_eqv_b f a b = true <-> opt_eqv R a b.
Proof. destruct a, b; cbn; try apply H; split; auto; try discriminate; contradiction. Qed.

Lemma cmsg_eqv_b_iff a b : cmsg_eqv_b a b = true <-> cmsg_eqv a b.
Proof.
  unfold cmsg_eqv_b, cmsg_eqv.
  rewrite !andb_true_iff, (opt_eqv_b_iff _ _ proposed_eqv_b_iff), !(opt_eqv_b_iff _ _ sparse_eqv_b_iff). tauto.
Qed.

(** * Round-trip theorems *)
Lemma pmap_eqv_list m : pmap_eqv m (Some (pm_list m)).
Proof. intros k. reflexivity. Qed.

Lemma pmap_eqv_sorted m : pmap_wf_b m = true -> pmap_eqv m (Some (sort_kv (pm_list m))).
Proof.
  intros H k. unfold pm_find. cbn [pm_list]. apply nodup_keys_NoDup in H.
  symmetry. apply alist_find_perm; [apply sort_kv_perm|apply sort_kv_nodup; exact H].
Qed.

Lemma valset_eqv_rt r vs : valset_wf_b r vs = true -> valset_eqv vs (rt_valset_of vs).
Proof.
  intros H. unfold valset_wf_b in H. apply andb_true_iff in H as [_ H].
  apply (dec2b_iff (list_eq_dec opubkey_dec)) in H.
  unfold valset_eqv, rt_valset_of. cbn [vs_vals vs_pubkeys vs_pkh vs_vph opt_list]. auto.
Qed.

Definition rt_cp_of (p : commit_proof) : commit_proof :=
  mk_commit_proof (cp_round p) (cp_pkh p) (Some (pm_list (cp_proofs p))).
Definition rt_header_of (h : header) : header :=
  mk_header (h_hash h) (h_prev h) (h_height h) (rt_cp_of (h_pcp h)) (rt_valset_of (h_vs h))
            (rt_valset_of (h_nvs h)) (h_dataid h) (h_pash h) (h_user h) (h_driver h).

Lemma header_rt_exact r h :
  reg_wf_b r = true -> header_wf_b r h = true ->
  exists j, to_json_header r h = Ok j /\ to_header r j = Ok (Some (rt_header_of h)).
Proof.
  intros Hr H. unfold header_wf_b in H. apply andb_true_iff in H as [H Hp].
  apply andb_true_iff in H as [H1 H2].
  destruct (valset_rt r _ Hr H1) as [j1 [E1 D1]]. destruct (valset_rt r _ Hr H2) as [j2 [E2 D2]].
  eexists. split.
  - unfold to_json_header. rewrite E1, E2. cbn [bind]. reflexivity.
  - unfold to_header. cbn [jh_vs jh_nvs jh_pcp jh_hash jh_prev jh_height jh_dataid jh_pash jh_user jh_driver].
    rewrite D1, D2. cbn [bindE].
    change (jcp_pkh (to_json_commit_proof (h_pcp h))) with (Some (cp_pkh (h_pcp h))). cbv iota.
    rewrite (commit_proof_rt _ Hp). reflexivity.
Qed.

Lemma commit_proof_eqv_rt p : commit_proof_eqv p (rt_cp_of p).
Proof. unfold commit_proof_eqv, rt_cp_of. cbn. repeat split. Qed.

Lemma header_eqv_rt r h : header_wf_b r h = true -> header_eqv h (rt_header_of h).
Proof.
  intros H. unfold header_wf_b in H. apply andb_true_iff in H as [H _]. apply andb_true_iff in H as [H1 H2].
  unfold header_eqv, rt_header_of. cbn. repeat split; try (eapply valset_eqv_rt; eassumption).
Qed.

(** header_roundtrip *)
Lemma header_roundtrip r h :
  reg_wf_b r = true -> header_wf_b r h = true ->
  exists h', rt_header r h = Ok (Some h') /\ header_eqv h h'.
Proof.
  intros Hr H. destruct (header_rt_exact r h Hr H) as [j [E D]].
  exists (rt_header_of h). split.
  - unfold rt_header. rewrite E. exact D.
  - eapply header_eqv_rt; exact H.
Qed.

(** proposed_header_roundtrip *)
Lemma proposed_header_roundtrip r p :
  reg_wf_b r = true -> proposed_wf_b r p = true ->
  exists p', rt_proposed r p = Ok (Some p') /\ proposed_eqv p p'.
Proof.
  intros Hr H. unfold proposed_wf_b in H. apply andb_true_iff in H as [Hh Hk].
  destruct (header_rt_exact r _ Hr Hh) as [j [E D]].
  exists (mk_proposed (rt_header_of (ph_header p)) (ph_round p) (ph_pub p) (ph_user p) (ph_driver p) (ph_sig p)).
  split.
  - unfold rt_proposed, to_json_proposed. rewrite E. cbn [bind].
    destruct (ph_pub p) as [k|] eqn:Ek.
    + destruct (reg_roundtrip r k Hr Hk) as [b [Em Eu]]. rewrite Em. cbn [bind].
      unfold to_proposed. cbn [jph_header jph_pub jph_round jph_sig jph_user jph_driver].
      rewrite D. cbn [bindE]. rewrite Eu. reflexivity.
    + cbn [bind]. unfold to_proposed. cbn [jph_header jph_pub jph_round jph_sig jph_user jph_driver].
      rewrite D. reflexivity.
  - unfold proposed_eqv. split; [eapply header_eqv_rt; exact Hh|cbn; repeat split].
Qed.

(** committed_header_roundtrip *)
Lemma committed_header_roundtrip r c :
  reg_wf_b r = true -> committed_wf_b r c = true ->
  exists c', rt_committed r c = Ok (Some c') /\ committed_eqv c c'.
Proof.
  intros Hr H. unfold committed_wf_b in H. apply andb_true_iff in H as [Hh Hp].
  destruct (header_rt_exact r _ Hr Hh) as [j [E D]].
  exists (mk_committed (rt_header_of (ch_header c)) (rt_cp_of (ch_proof c))). split.
  - unfold rt_committed, to_json_committed. rewrite E. cbn [bind].
    unfold to_committed. cbn [jch_header jch_proof]. rewrite D. cbn [bindE].
    rewrite (commit_proof_rt _ Hp). reflexivity.
  - split; [eapply header_eqv_rt; exact Hh|apply commit_proof_eqv_rt].
Qed.

(** prevote_proof_roundtrip / precommit_proof_roundtrip (both are [sparse_proof]) *)
Lemma sparse_proof_roundtrip p : sparse_wf_b p = true -> sparse_eqv p (rt_sparse p).
Proof.
  intros H. rewrite (sparse_rt p H). unfold sparse_eqv. cbn. repeat split.
  apply pmap_eqv_sorted. exact H.
Qed.

(** message_variant_preserved, for EVERY message (any number of fields set) whose encoding
    decodes: the decoded message carries exactly the variant the encoder chose. *)
Lemma message_variant_preserved r m m' :
  rt_cmsg r m = Ok (Some m') -> cmsg_variant m' = cmsg_variant m /\ variant_of m' = cmsg_variant m.
Proof.
  unfold rt_cmsg, to_json_cmsg, cmsg_variant.
  destruct (cm_ph m) as [ph|].
  - destruct (to_json_proposed r ph) as [j|s]; cbn [bind]; [|discriminate].
    unfold to_cmsg. cbn [jcm_ph jcm_pv jcm_pc].
    destruct (to_proposed r j) as [[x|]|s]; cbn [bindE]; try discriminate.
    intros E. inversion E; subst. split; reflexivity.
  - destruct (cm_pv m) as [p|].
    + cbn [bind]. unfold to_cmsg. cbn [jcm_ph jcm_pv jcm_pc]. intros E. inversion E; subst. split; reflexivity.
    + destruct (cm_pc m) as [p|]; cbn [bind]; unfold to_cmsg; cbn [jcm_ph jcm_pv jcm_pc];
        intros E; inversion E; subst; split; reflexivity.
Qed.

(** consensus message round trip: a message with exactly one field set comes back with the same
    field set and an equivalent value. *)
Lemma cmsg_roundtrip r m :
  reg_wf_b r = true -> cmsg_wf_b r m = true ->
  exists m', rt_cmsg r m = Ok (Some m') /\ cmsg_eqv m m' /\ variant_of m' = variant_of m.
Proof.
  intros Hr H. unfold cmsg_wf_b in H. destruct m as [[ph|] [pv|] [pc|]]; cbn [cm_ph cm_pv cm_pc] in H; try discriminate.
  - destruct (proposed_header_roundtrip r ph Hr H) as [p' [E V]].
    exists (mk_cmsg (Some p') None None). unfold rt_cmsg, to_json_cmsg. cbn [cm_ph cm_pv cm_pc].
    unfold rt_proposed in E. destruct (to_json_proposed r ph) as [j|s]; cbn [bind] in *; [|discriminate].
    unfold to_cmsg. cbn [jcm_ph jcm_pv jcm_pc]. rewrite E. cbn [bindE].
    split; [reflexivity|]. split; [|reflexivity].
    unfold cmsg_eqv. cbn [cm_ph cm_pv cm_pc opt_eqv]. split; [exact V|split; exact I].
  - exists (mk_cmsg None (Some (rt_sparse pv)) None). unfold rt_cmsg, to_json_cmsg. cbn [cm_ph cm_pv cm_pc bind].
    unfold to_cmsg. cbn [jcm_ph jcm_pv jcm_pc]. split; [reflexivity|]. split; [|reflexivity].
    unfold cmsg_eqv. cbn [cm_ph cm_pv cm_pc opt_eqv]. repeat split; try exact I. apply sparse_proof_roundtrip. exact H.
  - exists (mk_cmsg None None (Some (rt_sparse pc))). unfold rt_cmsg, to_json_cmsg. cbn [cm_ph cm_pv cm_pc bind].
    unfold to_cmsg. cbn [jcm_ph jcm_pv jcm_pc]. split; [reflexivity|]. split; [|reflexivity].
    unfold cmsg_eqv. cbn [cm_ph cm_pv cm_pc opt_eqv]. repeat split; try exact I. apply sparse_proof_roundtrip. exact H.
Qed.

(** A decoded message never has more than one field set. *)
Lemma decoded_message_single_variant r j m : to_cmsg r j = Ok (Some m) -> variant_of m <> 4.
Proof.
  unfold to_cmsg. destruct (jcm_ph j) as [| |jp]; destruct (jcm_pv j) as [| |p1]; destruct (jcm_pc j) as [| |p2];
    try discriminate;
    try (intros E; inversion E; subst; cbn; discriminate);
    (destruct (to_proposed r jp) as [[x|]|s]; cbn [bindE]; try discriminate;
     intros E; inversion E; subst; cbn; discriminate).
Qed.

(** Duplicate entries in a decoded proof list: the LAST entry for a block hash wins. *)
Lemma alist_find_set {V} (m : list (list N * V)) k v k' :
  alist_find k' (alist_set m k v) = if bytes_eqb k k' then Some v else alist_find k' m.
Proof.
  induction m as [|[k0 v0] m IH]; cbn [alist_set alist_find].
  - reflexivity.
  - destruct (bytes_eqb k0 k) eqn:E0.
    + apply bytes_eqb_eq in E0. subst k0. cbn [alist_find]. destruct (bytes_eqb k k'); reflexivity.
    + cbn [alist_find]. destruct (bytes_eqb k0 k') eqn:E1.
      * destruct (bytes_eqb k k') eqn:E2; [|reflexivity].
        apply bytes_eqb_eq in E1, E2. subst. rewrite bytes_eqb_refl in E0. discriminate.
      * exact IH.
Qed.

Fixpoint find_last (k : list N) (es : list jentry) (acc : option gsigs) : option gsigs :=
  match es with
  | [] => acc
  | e :: es' => find_last k es' (if bytes_eqb (je_key e) k then Some (je_sigs e) else acc)
  end.

Lemma build_map_last_wins es k : alist_find k (build_map es) = find_last k es None.
Proof.
  unfold build_map.
  assert (G : forall acc, alist_find k (fold_left (fun m e => alist_set m (je_key e) (je_sigs e)) es acc)
                          = find_last k es (alist_find k acc)).
  { induction es as [|e es IH]; intros acc; cbn [fold_left find_last]; [reflexivity|].
    rewrite IH, alist_find_set. reflexivity. }
  apply G.
Qed.

(** * The model's outcomes satisfy the monitors (what the check evaluates on the real outcomes) *)
Lemma model_satisfies_rt_monitors r :
  reg_wf_b r = true ->
  (forall h, header_wf_b r h = true -> c14_rt_header_mon h (rt_header r h) = true) /\
  (forall p, proposed_wf_b r p = true -> c14_rt_proposed_mon p (rt_proposed r p) = true) /\
  (forall c, committed_wf_b r c = true -> c14_rt_committed_mon c (rt_committed r c) = true) /\
  (forall p, sparse_wf_b p = true -> c14_rt_sparse_mon p (Ok (Some (rt_sparse p))) = true) /\
  (forall m, cmsg_wf_b r m = true ->
     c14_rt_cmsg_mon m (rt_cmsg r m) = true /\ c14_variant_mon m (rt_cmsg r m) = true).
Proof.
  intros Hr. repeat split.
  - intros h H. destruct (header_roundtrip r h Hr H) as [h' [E V]]. rewrite E. cbn. apply header_eqv_b_iff, V.
  - intros p H. destruct (proposed_header_roundtrip r p Hr H) as [p' [E V]]. rewrite E. cbn. apply proposed_eqv_b_iff, V.
  - intros c H. destruct (committed_header_roundtrip r c Hr H) as [c' [E V]]. rewrite E. cbn. apply committed_eqv_b_iff, V.
  - intros p H. cbn. apply sparse_eqv_b_iff, sparse_proof_roundtrip, H.
  - destruct (cmsg_roundtrip r m Hr H) as [m' [E [V _]]]. rewrite E. cbn. apply cmsg_eqv_b_iff, V.
  - destruct (cmsg_roundtrip r m Hr H) as [m' [E [_ V]]]. rewrite E. cbn. rewrite V. apply N.eqb_refl.
Qed.

(** Monitor soundness: a true monitor on an observed outcome means the observed value is
    related to the original by the written-out relation. *)
Lemma rt_monitor_sound :
  (forall h o, c14_rt_header_mon h o = true -> exists h', o = Ok (Some h') /\ header_eqv h h') /\
  (forall p o, c14_rt_proposed_mon p o = true -> exists p', o = Ok (Some p') /\ proposed_eqv p p') /\
  (forall c o, c14_rt_committed_mon c o = true -> exists c', o = Ok (Some c') /\ committed_eqv c c') /\
  (forall p o, c14_rt_sparse_mon p o = true -> exists p', o = Ok (Some p') /\ sparse_eqv p p') /\
  (forall m o, c14_rt_cmsg_mon m o = true -> exists m', o = Ok (Some m') /\ cmsg_eqv m m').
Proof.
  repeat split; intros x o H; destruct o as [[y|]|s]; cbn in H; try discriminate; exists y; split; try reflexivity.
  - apply header_eqv_b_iff, H. - apply proposed_eqv_b_iff, H. - apply committed_eqv_b_iff, H.
  - apply sparse_eqv_b_iff, H. - apply cmsg_eqv_b_iff, H.
Qed.

(** * Non-vacuity: the hypotheses are satisfiable and the functions compute *)
Definition ex_key1 : pubkey := mk_pk 1 [1;2;3;4;5;6;7;8;9;10;11;12;13;14;15;16;17;18;19;20;21;22;23;24;25;26;27;28;29;30;31;32].
Definition ex_key2 : pubkey := mk_pk 2 [9;9;9;9].
Definition ex_valset : valset :=
  mk_valset (Some [mk_validator (Some ex_key1) 10; mk_validator (Some ex_key2) 18446744073709551615])
            (Some [Some ex_key1; Some ex_key2]) (Some [7;7]) None.
Definition ex_proofs : pmap :=
  Some [([66;65], Some [mk_ssig (Some [0;1]) (Some [5;5;5])]); ([], None); ([65], Some [])].
Definition ex_header : header :=
  mk_header (Some [1;2;3]) None 5 (mk_commit_proof 2 [8;8] ex_proofs) ex_valset
            (mk_valset None None None (Some [])) (Some []) None (Some [42]) None.
Definition ex_proposed : proposed_header := mk_proposed ex_header 3 (Some ex_key1) None (Some [1]) (Some [2;2]).
Definition ex_sparse : sparse_proof := mk_sparse 5 0 [8;8] ex_proofs.

Example ex_wf :
  header_wf_b harness_registry ex_header = true /\
  proposed_wf_b harness_registry ex_proposed = true /\
  committed_wf_b harness_registry (mk_committed ex_header (mk_commit_proof 0 [] None)) = true /\
  sparse_wf_b ex_sparse = true /\
  cmsg_wf_b harness_registry (mk_cmsg None None (Some ex_sparse)) = true.
Proof. vm_compute. repeat split. Qed.

(** the round trip is not the identity: nil Validators come back empty, the nil map of the
    zero commit proof comes back empty, and a sparse proof's map comes back sorted *)
Example ex_rt_not_identity :
  (exists h', rt_header harness_registry ex_header = Ok (Some h') /\ h' <> ex_header /\
              vs_vals (h_nvs h') = Some [] /\ header_eqv ex_header h') /\
  sp_proofs (rt_sparse ex_sparse) =
    Some [([], None); ([65], Some []); ([66;65], Some [mk_ssig (Some [0;1]) (Some [5;5;5])])].
Proof.
  split.
  - destruct (header_roundtrip harness_registry ex_header harness_registry_wf (proj1 ex_wf)) as [h' [E V]].
    exists h'. split; [exact E|]. split; [|split; [|exact V]].
    + vm_compute in E. inversion E; subst. discriminate.
    + vm_compute in E. inversion E; subst. reflexivity.
  - vm_compute. reflexivity.
Qed.

(** an unregistered or nil key makes the ENCODER panic (Registry.Marshal), a key its constructor
    refuses makes the decoder return an error: both are excluded by the well-formedness hypothesis *)
Example ex_not_wf :
  (exists s, rt_header harness_registry
     (mk_header None None 0 zero_commit_proof (mk_valset (Some [mk_validator (Some (mk_pk 3 [1])) 1]) None None None)
                (mk_valset None None None None) None None None None) = Panic s) /\
  rt_header harness_registry
     (mk_header None None 0 zero_commit_proof (mk_valset (Some [mk_validator (Some (mk_pk 2 [1;2;3;4;5])) 1]) None None None)
                (mk_valset None None None None) None None None None) = Ok None.
Proof. split; [eexists|]; vm_compute; reflexivity. Qed.
