(** Proofs about the combination index model (Model/CombIndex.v). *)
From Coq Require Import List NArith ZArith String Bool Lia ZifyBool ZifyN ZifyNat.
From GV Require Import Base.Ints Model.CombIndex.
Import ListNotations.
Local Open Scope N_scope.
Local Notation length := List.length.

(** * Examples *)
Example ex_binom_100_50 : binom 100 50 = 100891344545564193334812497256.
Proof. vm_compute. reflexivity. Qed.
Example ex_encode_5_2 : encode 5 2 [1; 3]%Z = Ok 5.
Proof. vm_compute. reflexivity. Qed.
Example ex_decode_5_2 : decode 5 2 5 = Ok (mask_of [1; 3]%Z).
Proof. vm_compute. reflexivity. Qed.
Example ex_decode_k0 : decode 5 0 0 = Panic "decodeCombinationIndex:571".
Proof. vm_compute. reflexivity. Qed.
Example ex_decode_idx_hi : decode 5 2 10 = Panic "binomialCoefficient:658".
Proof. vm_compute. reflexivity. Qed.
Example ex_decode_idx_max : decode 5 2 9 = Ok (mask_of [3; 4]%Z).
Proof. vm_compute. reflexivity. Qed.
Example ex_decode_k_gt_n : decode 3 5 0 = Panic "binomialCoefficient:658".
Proof. vm_compute. reflexivity. Qed.
Example ex_encode_full : encode 4 4 [0; 1; 2; 3]%Z = Ok 0.
Proof. vm_compute. reflexivity. Qed.
Example ex_encode_mask : encode_mask 5 10 = Ok 5.
Proof. vm_compute. reflexivity. Qed.
Example ex_decode_64 : decode 64 32 1832624140942590533 = Ok 18446744069414584320.
Proof. vm_compute. reflexivity. Qed.

(** Bits set at or above nKeys make bs.Count() exceed the number of visited bits:
    calculateCombinationIndex then reaches the binomialCoefficient panic. *)
Example ex_encode_stray_bits : encode 3 3 [2]%Z = Panic "binomialCoefficient:658".
Proof. vm_compute. reflexivity. Qed.
Example ex_encode_mask_stray_bits : encode_mask 3 28 = Panic "binomialCoefficient:658".
Proof. vm_compute. reflexivity. Qed.
Example ex_decode_n0 : decode 0 1 0 = Panic "binomialCoefficient:658".
Proof. vm_compute. reflexivity. Qed.
Example ex_decode_5_5 : decode 5 5 0 = Ok 31 /\ decode 5 5 1 = Panic "binomialCoefficient:658".
Proof. split; vm_compute; reflexivity. Qed.
Example ex_decode_5_1 : decode 5 1 4 = Ok 16 /\ decode 5 1 5 = Panic "binomialCoefficient:658".
Proof. split; vm_compute; reflexivity. Qed.

(** * Binomial coefficient *)
Lemma zipadd_length a b : length a = length b -> length (zipadd a b) = length a.
Proof.
  revert b; induction a as [|x a IH]; intros [|y b]; cbn [zipadd length]; intros H;
    try discriminate; try reflexivity.
  f_equal. apply IH. congruence.
Qed.

Lemma prow_length m : length (prow m) = S m.
Proof.
  induction m as [|m IH]; [reflexivity|].
  cbn [prow]. cbv zeta. rewrite zipadd_length.
  - cbn [length]. congruence.
  - cbn [length]. rewrite app_length. cbn [length]. lia.
Qed.

Lemma zipadd_nth a b k : length a = length b ->
  nth k (zipadd a b) 0 = nth k a 0 + nth k b 0.
Proof.
  revert b k; induction a as [|x a IH]; intros [|y b] k; cbn [zipadd length]; intros H;
    try discriminate.
  - destruct k; reflexivity.
  - destruct k as [|k]; cbn [nth]; [reflexivity|]. apply IH. congruence.
Qed.

Lemma nth_app_zero (r : list N) k : nth k (r ++ [0]) 0 = nth k r 0.
Proof.
  destruct (Nat.lt_ge_cases k (length r)) as [H|H].
  - apply app_nth1. exact H.
  - rewrite app_nth2 by exact H. rewrite (nth_overflow r) by exact H.
    destruct (k - length r)%nat as [|[|?]]; reflexivity.
Qed.

Lemma prow_S_nth m k :
  nth (S k) (prow (S m)) 0 = nth k (prow m) 0 + nth (S k) (prow m) 0.
Proof.
  cbn [prow]. cbv zeta. rewrite zipadd_nth.
  - cbn [nth]. rewrite nth_app_zero. reflexivity.
  - cbn [length]. rewrite app_length. cbn [length]. lia.
Qed.

Lemma prow_0_nth m : nth 0 (prow m) 0 = 1.
Proof.
  induction m as [|m IH]; [reflexivity|].
  cbn [prow]. cbv zeta. rewrite zipadd_nth.
  - cbn [nth]. rewrite nth_app_zero. rewrite IH. reflexivity.
  - cbn [length]. rewrite app_length. cbn [length]. lia.
Qed.

Theorem binom_0_r n : binom n 0 = 1.
Proof. unfold binom. change (N.to_nat 0) with O. apply prow_0_nth. Qed.

Theorem binom_gt n k : n < k -> binom n k = 0.
Proof.
  intros H. unfold binom. apply nth_overflow. rewrite prow_length. lia.
Qed.

Theorem binom_pascal n k : binom (n + 1) (k + 1) = binom n k + binom n (k + 1).
Proof.
  unfold binom.
  replace (N.to_nat (n + 1)) with (S (N.to_nat n)) by lia.
  replace (N.to_nat (k + 1)) with (S (N.to_nat k)) by lia.
  apply prow_S_nth.
Qed.

Theorem binom_diag n : binom n n = 1.
Proof.
  induction n as [|n IH] using N.peano_ind; [reflexivity|].
  rewrite <- N.add_1_r. rewrite binom_pascal, IH, binom_gt by lia. reflexivity.
Qed.

(** * Specification-level definitions *)

(** Binomial coefficient on Z arguments, as [binom_chk] computes it. *)
Definition B (a b : Z) : N := binom (Z.to_N a) (Z.to_N b).

Lemma B_0_r a : B a 0 = 1.
Proof. unfold B. apply binom_0_r. Qed.

Lemma B_gt a b : (0 <= a < b)%Z -> B a b = 0.
Proof. intros H. unfold B. apply binom_gt. lia. Qed.

Lemma B_diag a : B a a = 1.
Proof. unfold B. apply binom_diag. Qed.

Lemma B_pascal a b : (0 <= a)%Z -> (0 <= b)%Z -> B (a + 1) (b + 1) = B a b + B a (b + 1).
Proof.
  intros Ha Hb. unfold B.
  replace (Z.to_N (a + 1)) with (Z.to_N a + 1) by lia.
  replace (Z.to_N (b + 1)) with (Z.to_N b + 1) by lia.
  apply binom_pascal.
Qed.

Lemma binom_chk_ok a b : (b <= a)%Z -> binom_chk a b = Ok (B a b).
Proof.
  intros H. unfold binom_chk. destruct (Z.gtb_spec b a); [lia|reflexivity].
Qed.

Lemma binom_chk_panic a b : (a < b)%Z -> binom_chk a b = Panic "binomialCoefficient:658".
Proof.
  intros H. unfold binom_chk. destruct (Z.gtb_spec b a); [reflexivity|lia].
Qed.

Lemma binom_chk_inv a b s : binom_chk a b = Ok s -> (b <= a)%Z /\ s = B a b.
Proof.
  unfold binom_chk. destruct (Z.gtb_spec b a) as [G|G]; intros H; [discriminate|].
  inversion H. split; [lia|reflexivity].
Qed.

(** Strictly increasing list of positions, each in [lo, n). *)
Fixpoint asc_from (lo n : Z) (l : list Z) : Prop :=
  match l with
  | [] => True
  | i :: l' => (lo <= i < n)%Z /\ asc_from (i + 1) n l'
  end.

(** Strictly increasing, every element in [0, n). *)
Definition asc_in (n : Z) (l : list Z) : Prop := asc_from 0 n l.

Lemma asc_from_length lo n l : asc_from lo n l -> l <> [] -> (Z.of_nat (length l) <= n - lo)%Z.
Proof.
  revert lo; induction l as [|i l IH]; intros lo H Hne; [congruence|].
  destruct H as [Hi Hl]. cbn [length].
  destruct l as [|i' l'].
  - cbn [length]. lia.
  - specialize (IH _ Hl ltac:(discriminate)). lia.
Qed.

(** Sum of C(n-j-1, km1) for j = lo .. lo+cnt-1. *)
Fixpoint gsum (n km1 : Z) (j : Z) (cnt : nat) : N :=
  match cnt with
  | O => 0
  | S c => B (n - j - 1) km1 + gsum n km1 (j + 1) c
  end.

(** Lexicographic rank of an ascending list in the universe [lo, n). *)
Fixpoint rank (n lo : Z) (l : list Z) : N :=
  match l with
  | [] => 0
  | i :: l' => gsum n (Z.of_nat (length l')) lo (Z.to_nat (i - lo)) + rank n (i + 1) l'
  end.

(** Partial hockey stick identity. *)
Lemma hockey n k lo cnt : (0 <= k)%Z -> (lo + Z.of_nat cnt <= n)%Z ->
  gsum n k lo cnt + B (n - lo - Z.of_nat cnt) (k + 1) = B (n - lo) (k + 1).
Proof.
  intros Hk. revert lo; induction cnt as [|c IH]; intros lo H.
  - cbn [gsum]. rewrite N.add_0_l. f_equal. lia.
  - cbn [gsum].
    assert (E : B (n - lo) (k + 1) = B (n - lo - 1) k + B (n - lo - 1) (k + 1)).
    { replace (n - lo)%Z with (n - lo - 1 + 1)%Z at 1 by lia. apply B_pascal; lia. }
    rewrite E.
    pose proof (IH (lo + 1)%Z ltac:(lia)) as I.
    replace (n - (lo + 1) - Z.of_nat c)%Z with (n - lo - Z.of_nat (S c))%Z in I by lia.
    replace (n - (lo + 1))%Z with (n - lo - 1)%Z in I by lia.
    lia.
Qed.

Lemma rank_lt n lo l : asc_from lo n l -> rank n lo l < B (n - lo) (Z.of_nat (length l)).
Proof.
  revert lo; induction l as [|i l IH]; intros lo H.
  - cbn [rank length]. rewrite B_0_r. lia.
  - destruct H as [Hi Hl]. cbn [rank length].
    specialize (IH _ Hl).
    pose proof (hockey n (Z.of_nat (length l)) lo (Z.to_nat (i - lo)) ltac:(lia) ltac:(lia)) as Hh.
    replace (n - lo - Z.of_nat (Z.to_nat (i - lo)))%Z with (n - (i + 1) + 1)%Z in Hh by lia.
    rewrite B_pascal in Hh by lia.
    replace (Z.of_nat (S (length l))) with (Z.of_nat (length l) + 1)%Z by lia.
    lia.
Qed.

(** * encode computes rank *)
Lemma gap_sum_ok n km1 lo cnt out : (km1 <= n - lo - Z.of_nat cnt)%Z ->
  gap_sum n km1 lo cnt out = Ok (out + gsum n km1 lo cnt).
Proof.
  revert lo out; induction cnt as [|c IH]; intros lo out H.
  - cbn [gap_sum gsum]. f_equal. lia.
  - cbn [gap_sum gsum]. rewrite binom_chk_ok by lia. cbn [bind].
    rewrite IH by lia. f_equal. lia.
Qed.

Lemma encode_loop_rank n lo out l : asc_from lo n l ->
  encode_loop n (lo - 1) (Z.of_nat (length l)) out l = Ok (out + rank n lo l).
Proof.
  revert lo out; induction l as [|i l IH]; intros lo out H.
  - cbn [encode_loop rank]. f_equal. lia.
  - destruct H as [Hi Hl]. cbn [encode_loop rank length].
    replace (lo - 1 + 1)%Z with lo by lia.
    replace (Z.of_nat (S (length l)) - 1)%Z with (Z.of_nat (length l)) by lia.
    rewrite gap_sum_ok.
    + cbn [bind]. replace i with (i + 1 - 1)%Z at 1 by lia.
      rewrite IH by exact Hl. f_equal. lia.
    + destruct l as [|i' l']; [cbn [length]; lia|].
      pose proof (asc_from_length _ _ _ Hl ltac:(discriminate)). lia.
Qed.

Lemma encode_rank n l : asc_in n l ->
  encode n (Z.of_nat (length l)) l = Ok (rank n 0 l).
Proof.
  intros H. unfold encode. change (-1)%Z with (0 - 1)%Z.
  rewrite encode_loop_rank by exact H. f_equal.
Qed.

Lemma Z_to_N_of_nat x : Z.to_N (Z.of_nat x) = N.of_nat x.
Proof. lia. Qed.

Theorem encode_lt_binom : forall n l, asc_in n l ->
  exists idx, encode n (Z.of_nat (length l)) l = Ok idx /\
              idx < binom (Z.to_N n) (N.of_nat (length l)).
Proof.
  intros n l H. exists (rank n 0 l). split; [apply encode_rank; exact H|].
  pose proof (rank_lt n 0 l H) as Hr. unfold B in Hr.
  rewrite Z.sub_0_r, Z_to_N_of_nat in Hr. exact Hr.
Qed.

(** * decode inverts encode *)
Lemma dec_inner_find n rp i r' : forall cnt fuel lo,
  (lo + Z.of_nat cnt = i)%Z -> (i < n)%Z -> (1 <= rp)%Z -> (rp - 1 <= n - i - 1)%Z ->
  r' < B (n - i - 1) (rp - 1) -> (cnt < fuel)%nat ->
  dec_inner n rp fuel lo (gsum n (rp - 1) lo cnt + r') (B (n - lo - 1) (rp - 1)) = Ok (i, r').
Proof.
  induction cnt as [|c IH]; intros [|f] lo Hlo Hi Hrp Hk Hr Hf; try lia.
  - assert (lo = i) by lia. subst lo. cbn [dec_inner gsum].
    assert (C : ((i <? n)%Z && (B (n - i - 1) (rp - 1) <=? 0 + r'))%bool = false) by lia.
    rewrite C. f_equal.
  - cbn [dec_inner gsum]. cbv zeta.
    set (s := B (n - lo - 1) (rp - 1)) in *.
    set (g := gsum n (rp - 1) (lo + 1) c) in *.
    assert (C : ((lo <? n)%Z && (s <=? s + g + r'))%bool = true) by lia.
    rewrite C.
    assert (C2 : (lo + 1 <? n)%Z = true) by lia. rewrite C2.
    rewrite binom_chk_ok by lia. cbn [bind].
    replace (s + g + r' - s) with (g + r') by lia.
    subst g. apply IH; lia.
Qed.

Lemma lor_setbit_shift out m x : N.lor (N.setbit out x) m = N.lor out (N.setbit m x).
Proof.
  unfold N.setbit. rewrite <- N.lor_assoc. f_equal. apply N.lor_comm.
Qed.

Lemma dec_outer_rank n : forall l fuel lo out,
  asc_from lo n l -> (length l < fuel)%nat ->
  dec_outer n fuel lo (Z.of_nat (length l)) (rank n lo l) out = Ok (N.lor out (mask_of l)).
Proof.
  induction l as [|i l IH]; intros [|f] lo out H Hf; try (cbn [length] in Hf; lia).
  - cbn [dec_outer length rank mask_of]. change (0 <? Z.of_nat 0)%Z with false.
    cbv iota. rewrite N.lor_0_r. reflexivity.
  - destruct H as [Hi Hl]. cbn [length] in Hf.
    assert (Hlen : (Z.of_nat (length l) <= n - i - 1)%Z).
    { destruct l as [|i' l']; [cbn [length]; lia|].
      pose proof (asc_from_length _ _ _ Hl ltac:(discriminate)). lia. }
    pose proof (rank_lt n (i + 1) l Hl) as Hr.
    cbn [dec_outer length rank mask_of].
    set (rp := Z.of_nat (S (length l))).
    replace (Z.of_nat (length l)) with (rp - 1)%Z in * by lia.
    assert (C : (0 <? rp)%Z = true) by lia. rewrite C.
    rewrite binom_chk_ok by lia. cbn [bind].
    rewrite (dec_inner_find n rp i (rank n (i + 1) l)); try lia.
    + cbn [bind]. assert (C2 : (i <? n)%Z = true) by lia. rewrite C2.
      rewrite IH by (try exact Hl; lia). f_equal. apply lor_setbit_shift.
    + replace (n - i - 1)%Z with (n - (i + 1))%Z by lia. exact Hr.
Qed.

Theorem decode_encode : forall n l idx, asc_in n l -> l <> [] ->
  encode n (Z.of_nat (length l)) l = Ok idx ->
  decode n (Z.of_nat (length l)) idx = Ok (mask_of l).
Proof.
  intros n l idx H Hne He. rewrite encode_rank in He by exact H. inversion He; subst idx.
  unfold decode.
  destruct l as [|i l']; [congruence|].
  assert (C : (Z.of_nat (length (i :: l')) =? 0)%Z = false) by (cbn [length]; lia).
  rewrite C. rewrite Nat2Z.id.
  rewrite dec_outer_rank by (try exact H; lia). f_equal.
Qed.

(** * decode succeeds on every in-range index *)
Lemma dec_inner_ok n rp : forall fuel curr rem,
  (1 <= rp)%Z -> (rp <= n - curr)%Z -> rem < B (n - curr) rp ->
  (Z.to_nat (n - curr) < fuel)%nat ->
  exists c' r', dec_inner n rp fuel curr rem (B (n - curr - 1) (rp - 1)) = Ok (c', r') /\
    (curr <= c' < n)%Z /\ (rp <= n - c')%Z /\ r' < B (n - c' - 1) (rp - 1).
Proof.
  induction fuel as [|f IH]; intros curr rem Hrp Hle Hrem Hf; [lia|].
  cbn [dec_inner]. cbv zeta.
  set (s := B (n - curr - 1) (rp - 1)).
  assert (P : B (n - curr) rp = s + B (n - curr - 1) rp).
  { subst s. replace (n - curr)%Z with (n - curr - 1 + 1)%Z at 1 by lia.
    replace rp with (rp - 1 + 1)%Z at 1 3 by lia. apply B_pascal; lia. }
  destruct (N.leb_spec s rem) as [Hs|Hs].
  - assert (Hlt : (rp <= n - curr - 1)%Z).
    { destruct (Z.le_gt_cases rp (n - curr - 1)) as [G|G]; [exact G|].
      rewrite (B_gt (n - curr - 1) rp) in P by lia. lia. }
    assert (C : (curr <? n)%Z = true) by lia. rewrite C. cbn [andb].
    assert (C2 : (curr + 1 <? n)%Z = true) by lia. rewrite C2.
    rewrite binom_chk_ok by lia. cbn [bind].
    destruct (IH (curr + 1)%Z (rem - s)) as (c' & r' & E & H1 & H2 & H3); try lia.
    + replace (n - (curr + 1))%Z with (n - curr - 1)%Z by lia. lia.
    + exists c', r'. split; [exact E|]. split; [lia|]. split; assumption.
  - rewrite andb_false_r. exists curr, rem. split; [reflexivity|].
    split; [lia|]. split; [lia|exact Hs].
Qed.

Lemma dec_outer_ok n : forall fuel curr rp rem out,
  (0 <= rp <= n - curr)%Z -> rem < B (n - curr) rp -> (Z.to_nat rp < fuel)%nat ->
  exists m, dec_outer n fuel curr rp rem out = Ok m.
Proof.
  induction fuel as [|f IH]; intros curr rp rem out Hrp Hrem Hf; [lia|].
  cbn [dec_outer].
  destruct (Z.ltb_spec 0 rp) as [Hp|Hp]; [|exists out; reflexivity].
  rewrite binom_chk_ok by lia. cbn [bind].
  destruct (dec_inner_ok n rp (S (Z.to_nat (n - curr))) curr rem) as (c' & r' & E & H1 & H2 & H3);
    try lia.
  rewrite E. cbn [bind].
  assert (C : (c' <? n)%Z = true) by lia. rewrite C.
  apply IH; try lia.
  replace (n - (c' + 1))%Z with (n - c' - 1)%Z by lia. exact H3.
Qed.

Theorem decode_ok_of_range : forall n k idx, (1 <= k <= n)%Z ->
  idx < binom (Z.to_N n) (Z.to_N k) -> exists m, decode n k idx = Ok m.
Proof.
  intros n k idx Hk Hidx. unfold decode.
  assert (C : (k =? 0)%Z = false) by lia. rewrite C.
  apply dec_outer_ok; try lia.
  unfold B. rewrite Z.sub_0_r. exact Hidx.
Qed.

(** * Every successful decode is the inverse image of encode *)
Lemma dec_inner_sound n rp : forall fuel curr rem scratch c' r',
  (1 <= rp)%Z ->
  ((curr < n)%Z -> scratch = B (n - curr - 1) (rp - 1)) ->
  dec_inner n rp fuel curr rem scratch = Ok (c', r') ->
  (curr <= c')%Z /\
  ((c' < n)%Z -> rem = gsum n (rp - 1) curr (Z.to_nat (c' - curr)) + r' /\
                 r' < B (n - c' - 1) (rp - 1)).
Proof.
  induction fuel as [|f IH]; intros curr rem scratch c' r' Hrp Hs E; [discriminate|].
  cbn [dec_inner] in E. cbv zeta in E.
  destruct ((curr <? n)%Z && (scratch <=? rem))%bool eqn:C.
  - destruct (curr + 1 <? n)%Z eqn:C2.
    + destruct (binom_chk (n - (curr + 1) - 1) (rp - 1)) as [s|] eqn:Eb; cbn [bind] in E;
        [|discriminate].
      apply binom_chk_inv in Eb as [Hb ->].
      apply IH in E; [|lia|intros; reflexivity]. destruct E as [E1 E2].
      split; [lia|]. intros Hc. destruct (E2 Hc) as [E3 E4]. split; [|exact E4].
      replace (Z.to_nat (c' - curr)) with (S (Z.to_nat (c' - (curr + 1)))) by lia.
      cbn [gsum]. pose proof (Hs ltac:(lia)) as Hs'. subst scratch. lia.
    + apply IH in E; [|lia|intros; lia]. destruct E as [E1 E2].
      split; [lia|]. intros; lia.
  - inversion E; subst c' r'. split; [lia|]. intros Hc.
    rewrite Z.sub_diag. cbn [Z.to_nat gsum]. pose proof (Hs Hc) as Hs'. subst scratch. split; lia.
Qed.

Lemma dec_outer_past n fuel curr rp rem out m : (n <= curr)%Z -> (1 <= rp)%Z ->
  dec_outer n fuel curr rp rem out <> Ok m.
Proof.
  intros Hc Hrp. destruct fuel as [|f]; cbn [dec_outer]; [discriminate|].
  assert (C : (0 <? rp)%Z = true) by lia. rewrite C.
  rewrite binom_chk_panic by lia. cbn [bind]. discriminate.
Qed.

Lemma dec_outer_sound n : forall fuel curr rp rem out m,
  (0 <= rp)%Z -> (rp = 0%Z -> rem = 0) ->
  dec_outer n fuel curr rp rem out = Ok m ->
  exists l, asc_from curr n l /\ Z.of_nat (length l) = rp /\
            m = N.lor out (mask_of l) /\ rank n curr l = rem.
Proof.
  induction fuel as [|f IH]; intros curr rp rem out m Hrp H0 E; [discriminate|].
  cbn [dec_outer] in E.
  destruct (Z.ltb_spec 0 rp) as [Hp|Hp].
  - destruct (binom_chk (n - curr - 1) (rp - 1)) as [s|] eqn:Eb; cbn [bind] in E; [|discriminate].
    apply binom_chk_inv in Eb as [Hb ->].
    destruct (dec_inner n rp (S (Z.to_nat (n - curr))) curr rem (B (n - curr - 1) (rp - 1)))
      as [[c' r']|] eqn:Ei; cbn [bind] in E; [|discriminate].
    apply dec_inner_sound in Ei; [|lia|intros; reflexivity]. destruct Ei as [E1 E2].
    destruct (Z.ltb_spec c' n) as [Hc|Hc].
    + destruct (E2 Hc) as [E3 E4].
      apply IH in E; [|lia|].
      * destruct E as (l' & A & L & M & R).
        exists (c' :: l'). split; [cbn [asc_from]; split; [lia|exact A]|].
        split; [cbn [length]; lia|].
        split; [subst m; cbn [mask_of]; apply lor_setbit_shift|].
        cbn [rank]. rewrite R, L. symmetry. exact E3.
      * intros Z0. rewrite Z0, B_0_r in E4. lia.
    + exfalso. eapply dec_outer_past; [| |exact E]; lia.
  - inversion E; subst m. exists []. cbn [asc_from length mask_of rank].
    rewrite N.lor_0_r. repeat split; lia.
Qed.

Theorem decode_sound : forall n k idx m, (0 <= k)%Z -> decode n k idx = Ok m ->
  exists l, asc_in n l /\ length l = Z.to_nat k /\ m = mask_of l /\ encode n k l = Ok idx.
Proof.
  intros n k idx m Hk E. unfold decode in E.
  destruct (Z.eqb_spec k 0) as [K0|K0]; [discriminate|].
  apply dec_outer_sound in E; [|lia|lia].
  destruct E as (l & A & L & M & R). exists l.
  split; [exact A|]. split; [lia|]. split; [rewrite M; apply N.lor_0_l|].
  rewrite <- L, encode_rank by exact A. rewrite R. reflexivity.
Qed.

Theorem decode_panics_out_of_range : forall n k idx m, (0 <= k)%Z ->
  decode n k idx = Ok m -> (1 <= k <= n)%Z /\ idx < binom (Z.to_N n) (Z.to_N k).
Proof.
  intros n k idx m Hk E.
  assert (K0 : k <> 0%Z).
  { intros ->. unfold decode in E. cbn in E. discriminate. }
  destruct (decode_sound _ _ _ _ Hk E) as (l & A & L & _ & En).
  assert (Hne : l <> []) by (intros ->; cbn [length] in L; lia).
  pose proof (asc_from_length _ _ _ A Hne) as Hlen.
  split; [lia|].
  destruct (encode_lt_binom n l A) as (idx' & En' & Hlt).
  replace (Z.of_nat (length l)) with k in En' by lia.
  rewrite En in En'. inversion En'; subst idx'.
  replace (Z.to_N k) with (N.of_nat (length l)) by lia. exact Hlt.
Qed.

Theorem decode_total_iff : forall n k idx, (0 <= n)%Z -> (0 <= k)%Z ->
  ((exists m, decode n k idx = Ok m) <->
   (1 <= k <= n)%Z /\ idx < binom (Z.to_N n) (Z.to_N k)).
Proof.
  intros n k idx Hn Hk. split.
  - intros [m E]. eapply decode_panics_out_of_range; eassumption.
  - intros [H1 H2]. apply decode_ok_of_range; assumption.
Qed.

(** * Masks, positions, injectivity *)
Lemma testbit_mask_of lo n l j : (0 <= lo)%Z -> asc_from lo n l -> (0 <= j)%Z ->
  N.testbit (mask_of l) (Z.to_N j) = existsb (Z.eqb j) l.
Proof.
  revert lo; induction l as [|i l IH]; intros lo Hlo H Hj.
  - cbn [mask_of existsb]. apply N.bits_0.
  - destruct H as [Hi Hl]. cbn [mask_of existsb].
    rewrite N.setbit_eqb, (IH (i + 1)%Z) by (try assumption; lia).
    f_equal. lia.
Qed.

Lemma existsb_below lo n l j : asc_from lo n l -> (j < lo)%Z -> existsb (Z.eqb j) l = false.
Proof.
  revert lo; induction l as [|i l IH]; intros lo H Hj; [reflexivity|].
  destruct H as [Hi Hl]. cbn [existsb]. rewrite (IH (i + 1)%Z) by (try assumption; lia).
  lia.
Qed.

Lemma In_zrange j : forall c lo, In j (zrange lo c) -> (lo <= j)%Z.
Proof.
  induction c as [|c IH]; intros lo H; cbn [zrange In] in H; [contradiction|].
  destruct H as [H|H]; [lia|]. apply IH in H. lia.
Qed.

Lemma filter_zrange_mask n : forall cnt lo l, (0 <= lo)%Z -> asc_from lo n l ->
  (lo + Z.of_nat cnt = n)%Z ->
  filter (fun i => N.testbit (mask_of l) (Z.to_N i)) (zrange lo cnt) = l.
Proof.
  induction cnt as [|c IH]; intros lo l Hlo H Hn.
  - cbn [zrange filter]. destruct l as [|i l']; [reflexivity|]. destruct H as [Hi _]. lia.
  - cbn [zrange filter]. rewrite (testbit_mask_of lo n l lo) by (try assumption; lia).
    destruct l as [|i l'].
    + cbn [existsb]. apply (IH (lo + 1)%Z []); [lia|exact I|lia].
    + destruct H as [Hi Hl]. cbn [existsb]. destruct (Z.eqb_spec lo i) as [E|E].
      * subst i. cbn [orb]. f_equal.
        transitivity (filter (fun i => N.testbit (mask_of l') (Z.to_N i)) (zrange (lo + 1) c));
          [|apply IH; try assumption; lia].
        apply filter_ext_in. intros j Hj. apply In_zrange in Hj.
        cbn [mask_of]. rewrite N.setbit_eqb.
        assert (C : (Z.to_N lo =? Z.to_N j) = false) by lia. rewrite C. reflexivity.
      * rewrite (existsb_below (i + 1) n l' lo) by (try assumption; lia). cbn [orb].
        apply (IH (lo + 1)%Z (i :: l')); [lia| |lia]. split; [lia|exact Hl].
Qed.

Theorem positions_mask_of : forall n l, asc_in n l -> positions n (mask_of l) = l.
Proof.
  intros n l H. unfold positions.
  destruct (Z.le_gt_cases 0 n) as [Hn|Hn].
  - apply (filter_zrange_mask n); [lia|exact H|lia].
  - destruct l as [|i l']; [|destruct H as [Hi _]; lia].
    replace (Z.to_nat n) with O by lia. reflexivity.
Qed.

Theorem mask_of_injective : forall n l1 l2, asc_in n l1 -> asc_in n l2 ->
  mask_of l1 = mask_of l2 -> l1 = l2.
Proof.
  intros n l1 l2 H1 H2 E.
  rewrite <- (positions_mask_of n l1 H1), <- (positions_mask_of n l2 H2), E. reflexivity.
Qed.

Theorem encode_injective : forall n l1 l2 idx, asc_in n l1 -> asc_in n l2 ->
  length l1 = length l2 ->
  encode n (Z.of_nat (length l1)) l1 = Ok idx ->
  encode n (Z.of_nat (length l2)) l2 = Ok idx -> l1 = l2.
Proof.
  intros n l1 l2 idx H1 H2 L E1 E2.
  destruct l1 as [|a l1'].
  - destruct l2; [reflexivity|discriminate].
  - assert (N2 : l2 <> []) by (intros ->; discriminate).
    apply decode_encode in E1; [|exact H1|discriminate].
    apply decode_encode in E2; [|exact H2|exact N2].
    rewrite L in E1. rewrite E1 in E2. inversion E2.
    eapply mask_of_injective; eassumption.
Qed.

(** * The fuel of the model never runs out *)
Lemma dec_inner_fuel n rp : forall fuel curr rem scratch s,
  (Z.to_nat (n - curr) < fuel)%nat ->
  dec_inner n rp fuel curr rem scratch = Panic s -> s = "binomialCoefficient:658"%string.
Proof.
  induction fuel as [|f IH]; intros curr rem scratch s Hf E; [lia|].
  cbn [dec_inner] in E. cbv zeta in E.
  destruct ((curr <? n)%Z && (scratch <=? rem))%bool eqn:C; [|discriminate].
  destruct (curr + 1 <? n)%Z eqn:C2.
  - unfold binom_chk in E. destruct (rp - 1 >? n - (curr + 1) - 1)%Z; cbn [bind] in E.
    + inversion E. reflexivity.
    + eapply IH; [|exact E]. lia.
  - eapply IH; [|exact E]. lia.
Qed.

Lemma dec_outer_fuel n : forall fuel curr rp rem out s,
  (Z.to_nat rp + 2 <= fuel)%nat \/ ((n <= curr)%Z /\ (1 <= rp)%Z /\ (1 <= fuel)%nat) ->
  dec_outer n fuel curr rp rem out = Panic s -> s = "binomialCoefficient:658"%string.
Proof.
  induction fuel as [|f IH]; intros curr rp rem out s Hf E; [lia|].
  cbn [dec_outer] in E.
  destruct (Z.ltb_spec 0 rp) as [Hp|Hp]; [|discriminate].
  unfold binom_chk in E at 1. destruct (Z.gtb_spec (rp - 1) (n - curr - 1)) as [G|G]; cbn [bind] in E.
  - inversion E. reflexivity.
  - destruct Hf as [Hf|Hf]; [|lia].
    destruct (dec_inner n rp (S (Z.to_nat (n - curr))) curr rem _) as [[c' r']|s'] eqn:Ei;
      cbn [bind] in E.
    + destruct (Z.ltb_spec c' n) as [Hc|Hc]; (eapply IH; [|exact E]); lia.
    + inversion E; subst s'. eapply dec_inner_fuel; [|exact Ei]. lia.
Qed.

Theorem decode_fuel_sufficient : forall n k idx, decode n k idx <> Panic "decode:fuel".
Proof.
  intros n k idx E. unfold decode in E.
  destruct (k =? 0)%Z; [discriminate|].
  apply dec_outer_fuel in E; [discriminate|]. left. lia.
Qed.

(** Every panic of decode is one of the two Go panic sites. *)
Theorem decode_panic_sites : forall n k idx s, decode n k idx = Panic s ->
  s = "decodeCombinationIndex:571"%string \/ s = "binomialCoefficient:658"%string.
Proof.
  intros n k idx s E. unfold decode in E.
  destruct (k =? 0)%Z; [inversion E; left; reflexivity|].
  right. apply dec_outer_fuel in E; [exact E|]. left. lia.
Qed.

(** * The mask-level entry point agrees with the list-level one *)
Lemma asc_from_bound lo n n' l : asc_from lo n l ->
  (forall x, In x l -> (x < n')%Z) -> asc_from lo n' l.
Proof.
  revert lo; induction l as [|i l IH]; intros lo H Hb; [exact I|].
  destruct H as [Hi Hl]. split.
  - pose proof (Hb i (or_introl eq_refl)). lia.
  - apply IH; [exact Hl|]. intros x Hx. apply Hb. right. exact Hx.
Qed.

Lemma testbit_lt_size a i : N.testbit a i = true -> i < N.size a.
Proof.
  intros H. destruct (N.lt_ge_cases i (N.size a)) as [G|G]; [exact G|]. exfalso.
  destruct (N.eq_dec a 0) as [->|Ha].
  - rewrite N.bits_0 in H. discriminate.
  - rewrite N.size_log2 in G by exact Ha.
    rewrite N.bits_above_log2 in H by lia. discriminate.
Qed.

Lemma in_mask_testbit lo n l x : (0 <= lo)%Z -> asc_from lo n l -> In x l ->
  N.testbit (mask_of l) (Z.to_N x) = true.
Proof.
  intros Hlo H Hx.
  assert (Hx0 : (0 <= x)%Z).
  { clear -Hlo H Hx. revert lo Hlo H; induction l as [|i l IH]; intros lo Hlo H; [contradiction|].
    destruct H as [Hi Hl]. destruct Hx as [->|Hx]; [lia|]. apply (IH Hx (i + 1)%Z); [lia|exact Hl]. }
  rewrite (testbit_mask_of lo n l x) by assumption.
  apply existsb_exists. exists x. split; [exact Hx|apply Z.eqb_refl].
Qed.

Theorem popcountZ_mask_of : forall n l, asc_in n l -> popcountZ (mask_of l) = Z.of_nat (length l).
Proof.
  intros n l H. unfold popcountZ. rewrite positions_mask_of; [reflexivity|].
  apply (asc_from_bound 0 n); [exact H|]. intros x Hx.
  pose proof (testbit_lt_size _ _ (in_mask_testbit 0 n l x ltac:(lia) H Hx)). lia.
Qed.

Theorem encode_mask_of : forall n l, asc_in n l ->
  encode_mask n (mask_of l) = encode n (Z.of_nat (length l)) l.
Proof.
  intros n l H. unfold encode_mask.
  rewrite (popcountZ_mask_of n l H), (positions_mask_of n l H). reflexivity.
Qed.
