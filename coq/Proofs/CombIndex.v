(** Proofs about the combination index model (Model/CombIndex.v). *)
From Coq Require Import List NArith ZArith String Bool Lia ZifyBool ZifyN ZifyNat.
From GV Require Import Base.Ints Model.CombIndex.
Import ListNotations.
Local Open Scope N_scope.
Local Notation length := List.length.

(** * Examples *)
Example ex_binom_100_50 : binom 100 50 = 100891344545564193334812497256.
Proof. vm_compute. reflexivity. Qed.
Example ex_encode_5_2 : encode 5 2 [1; 3]%Z = Ok 5.
Proof. vm_compute. reflexivity. Qed.
Example ex_decode_5_2 : decode 5 2 5 = Ok (mask_of [1; 3]%Z).
Proof. vm_compute. reflexivity. Qed.
Example ex_decode_k0 : decode 5 0 0 = Panic "decodeCombinationIndex:571".
Proof. vm_compute. reflexivity. Qed.
Example ex_decode_idx_hi : decode 5 2 10 = Panic "binomialCoefficient:658".
Proof. vm_compute. reflexivity. Qed.
Example ex_decode_idx_max : decode 5 2 9 = Ok (mask_of [3; 4]%Z).
Proof. vm_compute. reflexivity. Qed.
Example ex_decode_k_gt_n : decode 3 5 0 = Panic "binomialCoefficient:658".
Proof. vm_compute. reflexivity. Qed.
Example ex_encode_full : encode 4 4 [0; 1; 2; 3]%Z = Ok 0.
Proof. vm_compute. reflexivity. Qed.
Example ex_encode_mask : encode_mask 5 10 = Ok 5.
Proof. vm_compute. reflexivity. Qed.
Example ex_decode_64 : decode 64 32 1832624140942590533 = Ok 18446744069414584320.
Proof. vm_compute. reflexivity. Qed.

(** * Binomial coefficient *)
Lemma zipadd_length a b : length a = length b -> length (zipadd a b) = length a.
Proof.
  revert b; induction a as [|x a IH]; intros [|y b]; cbn [zipadd length]; intros H;
    try discriminate; try reflexivity.
  f_equal. apply IH. congruence.
Qed.

Lemma prow_length m : length (prow m) = S m.
Proof.
  induction m as [|m IH]; [reflexivity|].
  cbn [prow]. cbv zeta. rewrite zipadd_length.
  - cbn [length]. congruence.
  - cbn [length]. rewrite app_length. cbn [length]. lia.
Qed.

Lemma zipadd_nth a b k : length a = length b ->
  nth k (zipadd a b) 0 = nth k a 0 + nth k b 0.
Proof.
  revert b k; induction a as [|x a IH]; intros [|y b] k; cbn [zipadd length]; intros H;
    try discriminate.
  - destruct k; reflexivity.
  - destruct k as [|k]; cbn [nth]; [reflexivity|]. apply IH. congruence.
Qed.

Lemma nth_app_zero (r : list N) k : nth k (r ++ [0]) 0 = nth k r 0.
Proof.
  destruct (Nat.lt_ge_cases k (length r)) as [H|H].
  - apply app_nth1. exact H.
  - rewrite app_nth2 by exact H. rewrite (nth_overflow r) by exact H.
    destruct (k - length r)%nat as [|[|?]]; reflexivity.
Qed.

Lemma prow_S_nth m k :
  nth (S k) (prow (S m)) 0 = nth k (prow m) 0 + nth (S k) (prow m) 0.
Proof.
  cbn [prow]. cbv zeta. rewrite zipadd_nth.
  - cbn [nth]. rewrite nth_app_zero. reflexivity.
  - cbn [length]. rewrite app_length. cbn [length]. lia.
Qed.

Lemma prow_0_nth m : nth 0 (prow m) 0 = 1.
Proof.
  induction m as [|m IH]; [reflexivity|].
  cbn [prow]. cbv zeta. rewrite zipadd_nth.
  - cbn [nth]. rewrite nth_app_zero. rewrite IH. reflexivity.
  - cbn [length]. rewrite app_length. cbn [length]. lia.
Qed.

Theorem binom_0_r n : binom n 0 = 1.
Proof. unfold binom. change (N.to_nat 0) with O. apply prow_0_nth. Qed.

Theorem binom_gt n k : n < k -> binom n k = 0.
Proof.
  intros H. unfold binom. apply nth_overflow. rewrite prow_length. lia.
Qed.

Theorem binom_pascal n k : binom (n + 1) (k + 1) = binom n k + binom n (k + 1).
Proof.
  unfold binom.
  replace (N.to_nat (n + 1)) with (S (N.to_nat n)) by lia.
  replace (N.to_nat (k + 1)) with (S (N.to_nat k)) by lia.
  apply prow_S_nth.
Qed.

Theorem binom_diag n : binom n n = 1.
Proof.
  induction n as [|n IH] using N.peano_ind; [reflexivity|].
  rewrite <- N.add_1_r. rewrite binom_pascal, IH, binom_gt by lia. reflexivity.
Qed.

(** * Specification-level definitions *)

(** Binomial coefficient on Z arguments, as [binom_chk] computes it. *)
Definition B (a b : Z) : N := binom (Z.to_N a) (Z.to_N b).

Lemma B_0_r a : B a 0 = 1.
Proof. unfold B. apply binom_0_r. Qed.

Lemma B_gt a b : (0 <= a < b)%Z -> B a b = 0.
Proof. intros H. unfold B. apply binom_gt. lia. Qed.

Lemma B_diag a : B a a = 1.
Proof. unfold B. apply binom_diag. Qed.

Lemma B_pascal a b : (0 <= a)%Z -> (0 <= b)%Z -> B (a + 1) (b + 1) = B a b + B a (b + 1).
Proof.
  intros Ha Hb. unfold B.
  replace (Z.to_N (a + 1)) with (Z.to_N a + 1) by lia.
  replace (Z.to_N (b + 1)) with (Z.to_N b + 1) by lia.
  apply binom_pascal.
Qed.

Lemma binom_chk_ok a b : (b <= a)%Z -> binom_chk a b = Ok (B a b).
Proof.
  intros H. unfold binom_chk. destruct (Z.gtb_spec b a); [lia|reflexivity].
Qed.

Lemma binom_chk_panic a b : (a < b)%Z -> binom_chk a b = Panic "binomialCoefficient:658".
Proof.
  intros H. unfold binom_chk. destruct (Z.gtb_spec b a); [reflexivity|lia].
Qed.

Lemma binom_chk_inv a b s : binom_chk a b = Ok s -> (b <= a)%Z /\ s = B a b.
Proof.
  unfold binom_chk. destruct (Z.gtb_spec b a) as [G|G]; intros H; [discriminate|].
  inversion H. split; [lia|reflexivity].
Qed.

(** Strictly increasing list of positions, each in [lo, n). *)
Fixpoint asc_from (lo n : Z) (l : list Z) : Prop :=
  match l with
  | [] => True
  | i :: l' => (lo <= i < n)%Z /\ asc_from (i + 1) n l'
  end.

(** Strictly increasing, every element in [0, n). *)
Definition asc_in (n : Z) (l : list Z) : Prop := asc_from 0 n l.

Lemma asc_from_length lo n l : asc_from lo n l -> l <> [] -> (Z.of_nat (length l) <= n - lo)%Z.
Proof.
  revert lo; induction l as [|i l IH]; intros lo H Hne; [congruence|].
  destruct H as [Hi Hl]. cbn [length].
  destruct l as [|i' l'].
  - cbn [length]. lia.
  - specialize (IH _ Hl ltac:(discriminate)). lia.
Qed.

(** Sum of C(n-j-1, km1) for j = lo .. lo+cnt-1. *)
Fixpoint gsum (n km1 : Z) (j : Z) (cnt : nat) : N :=
  match cnt with
  | O => 0
  | S c => B (n - j - 1) km1 + gsum n km1 (j + 1) c
  end.

(** Lexicographic rank of an ascending list in the universe [lo, n). *)
Fixpoint rank (n lo : Z) (l : list Z) : N :=
  match l with
  | [] => 0
  | i :: l' => gsum n (Z.of_nat (length l')) lo (Z.to_nat (i - lo)) + rank n (i + 1) l'
  end.

(** Partial hockey stick identity. *)
Lemma hockey n k lo cnt : (0 <= k)%Z -> (lo + Z.of_nat cnt <= n)%Z ->
  gsum n k lo cnt + B (n - lo - Z.of_nat cnt) (k + 1) = B (n - lo) (k + 1).
Proof.
  intros Hk. revert lo; induction cnt as [|c IH]; intros lo H.
  - cbn [gsum]. rewrite N.add_0_l. f_equal. lia.
  - cbn [gsum].
    assert (E : B (n - lo) (k + 1) = B (n - lo - 1) k + B (n - lo - 1) (k + 1)).
    { replace (n - lo)%Z with (n - lo - 1 + 1)%Z at 1 by lia. apply B_pascal; lia. }
    rewrite E.
    pose proof (IH (lo + 1)%Z ltac:(lia)) as I.
    replace (n - (lo + 1) - Z.of_nat c)%Z with (n - lo - Z.of_nat (S c))%Z in I by lia.
    replace (n - (lo + 1))%Z with (n - lo - 1)%Z in I by lia.
    lia.
Qed.

Lemma rank_lt n lo l : asc_from lo n l -> rank n lo l < B (n - lo) (Z.of_nat (length l)).
Proof.
  revert lo; induction l as [|i l IH]; intros lo H.
  - cbn [rank length]. rewrite B_0_r. lia.
  - destruct H as [Hi Hl]. cbn [rank length].
    specialize (IH _ Hl).
    pose proof (hockey n (Z.of_nat (length l)) lo (Z.to_nat (i - lo)) ltac:(lia) ltac:(lia)) as Hh.
    replace (n - lo - Z.of_nat (Z.to_nat (i - lo)))%Z with (n - (i + 1) + 1)%Z in Hh by lia.
    rewrite B_pascal in Hh by lia.
    replace (Z.of_nat (S (length l))) with (Z.of_nat (length l) + 1)%Z by lia.
    lia.
Qed.

(** * encode computes rank *)
Lemma gap_sum_ok n km1 lo cnt out : (km1 <= n - lo - Z.of_nat cnt)%Z ->
  gap_sum n km1 lo cnt out = Ok (out + gsum n km1 lo cnt).
Proof.
  revert lo out; induction cnt as [|c IH]; intros lo out H.
  - cbn [gap_sum gsum]. f_equal. lia.
  - cbn [gap_sum gsum]. rewrite binom_chk_ok by lia. cbn [bind].
    rewrite IH by lia. f_equal. lia.
Qed.

Lemma encode_loop_rank n lo out l : asc_from lo n l ->
  encode_loop n (lo - 1) (Z.of_nat (length l)) out l = Ok (out + rank n lo l).
Proof.
  revert lo out; induction l as [|i l IH]; intros lo out H.
  - cbn [encode_loop rank]. f_equal. lia.
  - destruct H as [Hi Hl]. cbn [encode_loop rank length].
    replace (lo - 1 + 1)%Z with lo by lia.
    replace (Z.of_nat (S (length l)) - 1)%Z with (Z.of_nat (length l)) by lia.
    rewrite gap_sum_ok.
    + cbn [bind]. replace i with (i + 1 - 1)%Z at 1 by lia.
      rewrite IH by exact Hl. f_equal. lia.
    + destruct l as [|i' l']; [cbn [length]; lia|].
      pose proof (asc_from_length _ _ _ Hl ltac:(discriminate)). lia.
Qed.

Lemma encode_rank n l : asc_in n l ->
  encode n (Z.of_nat (length l)) l = Ok (rank n 0 l).
Proof.
  intros H. unfold encode. change (-1)%Z with (0 - 1)%Z.
  rewrite encode_loop_rank by exact H. f_equal.
Qed.

Lemma Z_to_N_of_nat x : Z.to_N (Z.of_nat x) = N.of_nat x.
Proof. lia. Qed.

Theorem encode_lt_binom : forall n l, asc_in n l ->
  exists idx, encode n (Z.of_nat (length l)) l = Ok idx /\
              idx < binom (Z.to_N n) (N.of_nat (length l)).
Proof.
  intros n l H. exists (rank n 0 l). split; [apply encode_rank; exact H|].
  pose proof (rank_lt n 0 l H) as Hr. unfold B in Hr.
  rewrite Z.sub_0_r, Z_to_N_of_nat in Hr. exact Hr.
Qed.

(** * decode inverts encode *)
Lemma dec_inner_find n rp i r' : forall cnt fuel lo,
  (lo + Z.of_nat cnt = i)%Z -> (i < n)%Z -> (1 <= rp)%Z -> (rp - 1 <= n - i - 1)%Z ->
  r' < B (n - i - 1) (rp - 1) -> (cnt < fuel)%nat ->
  dec_inner n rp fuel lo (gsum n (rp - 1) lo cnt + r') (B (n - lo - 1) (rp - 1)) = Ok (i, r').
Proof.
  induction cnt as [|c IH]; intros [|f] lo Hlo Hi Hrp Hk Hr Hf; try lia.
  - assert (lo = i) by lia. subst lo. cbn [dec_inner gsum].
    assert (C : ((i <? n)%Z && (B (n - i - 1) (rp - 1) <=? 0 + r'))%bool = false) by lia.
    rewrite C. f_equal.
  - cbn [dec_inner gsum]. cbv zeta.
    set (s := B (n - lo - 1) (rp - 1)) in *.
    set (g := gsum n (rp - 1) (lo + 1) c) in *.
    assert (C : ((lo <? n)%Z && (s <=? s + g + r'))%bool = true) by lia.
    rewrite C.
    assert (C2 : (lo + 1 <? n)%Z = true) by lia. rewrite C2.
    rewrite binom_chk_ok by lia. cbn [bind].
    replace (s + g + r' - s) with (g + r') by lia.
    subst g. apply IH; lia.
Qed.

Lemma lor_setbit_shift out m x : N.lor (N.setbit out x) m = N.lor out (N.setbit m x).
Proof.
  unfold N.setbit. rewrite <- N.lor_assoc. f_equal. apply N.lor_comm.
Qed.

Lemma dec_outer_rank n : forall l fuel lo out,
  asc_from lo n l -> (length l < fuel)%nat ->
  dec_outer n fuel lo (Z.of_nat (length l)) (rank n lo l) out = Ok (N.lor out (mask_of l)).
Proof.
  induction l as [|i l IH]; intros [|f] lo out H Hf; try (cbn [length] in Hf; lia).
  - cbn [dec_outer length rank mask_of]. change (0 <? Z.of_nat 0)%Z with false.
    cbv iota. rewrite N.lor_0_r. reflexivity.
  - destruct H as [Hi Hl]. cbn [length] in Hf.
    assert (Hlen : (Z.of_nat (length l) <= n - i - 1)%Z).
    { destruct l as [|i' l']; [cbn [length]; lia|].
      pose proof (asc_from_length _ _ _ Hl ltac:(discriminate)). lia. }
    pose proof (rank_lt n (i + 1) l Hl) as Hr.
    cbn [dec_outer length rank mask_of].
    set (rp := Z.of_nat (S (length l))).
    replace (Z.of_nat (length l)) with (rp - 1)%Z in * by lia.
    assert (C : (0 <? rp)%Z = true) by lia. rewrite C.
    rewrite binom_chk_ok by lia. cbn [bind].
    rewrite (dec_inner_find n rp i (rank n (i + 1) l)); try lia.
    + cbn [bind]. assert (C2 : (i <? n)%Z = true) by lia. rewrite C2.
      rewrite IH by (try exact Hl; lia). f_equal. apply lor_setbit_shift.
    + replace (n - i - 1)%Z with (n - (i + 1))%Z by lia. exact Hr.
Qed.

Theorem decode_encode : forall n l idx, asc_in n l -> l <> [] ->
  encode n (Z.of_nat (length l)) l = Ok idx ->
  decode n (Z.of_nat (length l)) idx = Ok (mask_of l).
Proof.
  intros n l idx H Hne He. rewrite encode_rank in He by exact H. inversion He; subst idx.
  unfold decode.
  destruct l as [|i l']; [congruence|].
  assert (C : (Z.of_nat (length (i :: l')) =? 0)%Z = false) by (cbn [length]; lia).
  rewrite C. rewrite Nat2Z.id.
  rewrite dec_outer_rank by (try exact H; lia). f_equal.
Qed.
