(** C13 - the invariant "no bit without a valid signature" over all operation sequences,
    and the sparse round trip. *)
From Coq Require Import List NArith ZArith String Bool Lia ZifyBool ZifyN Permutation.
From GV Require Import Base.Ints Gen.KeyID Model.SimpleProofBase Model.SimpleProof Monitors.C13m
  Proofs.SimpleProof Proofs.SimpleMerge.
Import ListNotations.
Local Open Scope N_scope.

(** Every stored signature verifies under its key for the proof's message, that key is a candidate,
    and its bit is set; conversely every set bit is backed by such a stored signature. *)
Definition Inv (p : proof) : Prop :=
  (forall s k, In (s, k) (p_sigs p) ->
     sig_verify k (p_msg p) s = true /\ exists t, key_index (p_keys p) k = Some t /\ N.testbit (p_bits p) t = true) /\
  (forall i, N.testbit (p_bits p) i = true ->
     exists s k, In (s, k) (p_sigs p) /\ key_index (p_keys p) k = Some i /\ sig_verify k (p_msg p) s = true).

Lemma sigs_set_in m s k s' k' : In (s', k') (sigs_set m s k) -> (s', k') = (s, k) \/ In (s', k') m.
Proof.
  induction m as [|[s0 k0] t IH]; cbn [sigs_set]; intros H.
  - destruct H as [H|[]]. left. congruence.
  - destruct (sigv_eqb s0 s).
    + destruct H as [H|H]; [left; congruence|right; right; exact H].
    + destruct H as [H|H]; [right; left; exact H|]. destruct (IH H); [left|right; right]; assumption.
Qed.

Lemma sigs_set_new m s k : In (s, k) (sigs_set m s k).
Proof.
  induction m as [|[s0 k0] t IH]; cbn [sigs_set]; [left; reflexivity|].
  destruct (sigv_eqb s0 s); [left; reflexivity|right; exact IH].
Qed.

Lemma sigs_set_keep m s k s0 k0 : In (s0, k0) m -> (s0 = s -> k0 = k) -> In (s0, k0) (sigs_set m s k).
Proof.
  induction m as [|[s1 k1] t IH]; cbn [sigs_set]; intros H Hk; [destruct H|].
  destruct (sigv_eqb s1 s) eqn:E.
  - destruct H as [H|H]; [|right; exact H]. inversion H; subst. apply sigv_eqb_eq in E. subst.
    rewrite (Hk eq_refl). left. reflexivity.
  - destruct H as [H|H]; [left; exact H|right; apply IH; assumption].
Qed.

Lemma Inv_add_ok p s k t :
  Inv p -> sig_verify k (p_msg p) s = true -> key_index (p_keys p) k = Some t -> Inv (add_ok p s k t).
Proof.
  intros [I1 I2] Hv Hk. split; cbn [add_ok p_sigs p_msg p_keys p_bits].
  - intros s' k' H. apply sigs_set_in in H as [H|H].
    + inversion H; subst. split; [exact Hv|]. exists t. split; [exact Hk|].
      rewrite N.lor_spec, testbit_bit, N.eqb_refl. apply orb_true_r.
    + destruct (I1 _ _ H) as (V & t' & K & B). split; [exact V|]. exists t'. split; [exact K|].
      rewrite N.lor_spec, B. reflexivity.
  - intros i H. rewrite N.lor_spec, testbit_bit in H. apply orb_true_iff in H as [H|H].
    + destruct (I2 _ H) as (s0 & k0 & In0 & K0 & V0). exists s0, k0. repeat split; try assumption.
      apply sigs_set_keep; [exact In0|]. intros ->. eapply verify_signer; eassumption.
    + apply N.eqb_eq in H. subst i. exists s, k. repeat split; try assumption. apply sigs_set_new.
Qed.

Lemma Inv_add_signature p s key : Inv p -> Inv (fst (add_signature p s key)).
Proof.
  intros I. unfold add_signature.
  destruct (key_index (p_keys p) key) as [t|] eqn:K; [|exact I].
  destruct (sig_verify key (p_msg p) s) eqn:V; cbn [negb fst]; [|exact I].
  exact (Inv_add_ok p s key t I V K).
Qed.

Lemma Inv_merge_step st e : Inv (fst st) -> Inv (fst (merge_step st e)).
Proof.
  destruct st as [p [a b]], e as [s k]. cbn [fst]. intros I. unfold merge_step.
  destruct (sigs_get (p_sigs p) s) as [ck|].
  - destruct (negb (ck =? k)); exact I.
  - pose proof (Inv_add_signature p s k I) as I'. destruct (add_signature p s k) as [p' err]. cbn [fst] in I'.
    destruct (err =? 0); exact I'.
Qed.

Lemma Inv_merge p o : Inv p -> Inv (fst (merge p o)).
Proof.
  intros I. unfold merge. destruct (negb (matches p o)); [exact I|].
  assert (H : forall l st, Inv (fst st) -> Inv (fst (fold_left merge_step l st))).
  { induction l as [|e t IH]; intros st Hst; [exact Hst|]. cbn [fold_left]. apply IH. apply Inv_merge_step. exact Hst. }
  specialize (H (p_sigs o) (p, (true, false)) I).
  destruct (fold_left merge_step (p_sigs o) (p, (true, false))) as [p' [a b]]. exact H.
Qed.

Lemma Inv_ms_pure st e : Inv (fst st) -> Inv (fst (ms_pure st e)).
Proof.
  destruct st as [p [a b]]. cbn [fst]. intros I. unfold ms_pure.
  destruct (good_entry (p_keys p) (p_msg p) e) as [[n t]|] eqn:G; [|exact I]. cbn [fst].
  unfold good_entry in G. unfold entry_key.
  destruct (entry_index (List.length (p_keys p)) (fst e)) as [m|]; [|discriminate].
  destruct (nth_key (p_keys p) m) as [k|]; [|discriminate].
  destruct (sig_verify k (p_msg p) (snd e)) eqn:V; [|discriminate].
  destruct (key_index (p_keys p) k) as [t'|] eqn:K; [|discriminate]. inversion G; subst.
  apply Inv_add_ok; assumption.
Qed.

Lemma Inv_merge_sparse p s p' fl : Inv p -> merge_sparse p s = Ok (p', fl) -> Inv p'.
Proof.
  intros I. unfold merge_sparse. destruct (negb (bytes_eqb (p_hash p) (fst s))).
  - intros H; inversion H; subst; exact I.
  - rewrite ms_loop_pure. cbn [bind].
    assert (H : forall l st, Inv (fst st) -> Inv (fst (fold_left ms_pure l st))).
    { induction l as [|e t IH]; intros st Hst; [exact Hst|]. cbn [fold_left]. apply IH. apply Inv_ms_pure. exact Hst. }
    specialize (H (snd s) (p, (true, 0)) I).
    destruct (fold_left ms_pure (snd s) (p, (true, 0))) as [q [a b]]. intros E; inversion E; subst. exact H.
Qed.

Lemma Inv_new msg keys hash p : new_proof msg keys hash = Ok p -> Inv p.
Proof.
  unfold new_proof. destruct keys; [discriminate|]. intros H; inversion H; subst.
  split; cbn [p_sigs p_bits]; [intros s k []|]. intros i Hi. rewrite N.bits_0 in Hi. discriminate.
Qed.

Lemma Inv_derive p : Inv (derive p).
Proof.
  split; cbn [derive p_sigs p_bits]; [intros s k []|]. intros i Hi. rewrite N.bits_0 in Hi. discriminate.
Qed.

Lemma Inv_clone p : Inv p -> Inv (clone p).
Proof. destruct p; exact (fun H => H). Qed.

(** Registers after an operation sequence. *)
Fixpoint exec (tbl : list sigv) (rs : regs) (ops : list op) : regs :=
  match ops with
  | [] => rs
  | o :: t => exec tbl (fst (step tbl rs o)) t
  end.

Definition AllInv (rs : regs) : Prop := Forall (fun rp => Inv (snd rp)) rs.

Lemma AllInv_get rs r p : AllInv rs -> reg_get rs r = Some p -> Inv p.
Proof.
  induction 1 as [|[r' q] t Hq Ht IH]; cbn [reg_get]; [discriminate|].
  destruct (Nat.eqb r' r); [intros H; inversion H; subst; exact Hq|exact IH].
Qed.

Lemma AllInv_set rs r p : AllInv rs -> Inv p -> AllInv (reg_set rs r p).
Proof. intros H I. constructor; assumption. Qed.

Lemma AllInv_step tbl rs o : AllInv rs -> AllInv (fst (step tbl rs o)).
Proof.
  intros A. destruct o; cbn [step].
  - destruct (new_proof msg keys hash) eqn:E; cbn [fst]; [|exact A]. apply AllInv_set; [exact A|]. eapply Inv_new; eassumption.
  - destruct (reg_get rs r) eqn:E; [|exact A]. pose proof (Inv_add_signature p s key (AllInv_get _ _ _ A E)) as I.
    destruct (add_signature p s key). apply AllInv_set; assumption.
  - destruct (reg_get rs r) eqn:E; [|exact A]. destruct (reg_get rs o) eqn:E2; [|exact A].
    pose proof (Inv_merge p p0 (AllInv_get _ _ _ A E)) as I. destruct (merge p p0). apply AllInv_set; assumption.
  - destruct (reg_get rs r) eqn:E; [|exact A]. destruct (merge_sparse p (hash, ents)) as [[p' fl]|] eqn:M; [|exact A].
    apply AllInv_set; [exact A|]. eapply Inv_merge_sparse; [|exact M]. eapply AllInv_get; eassumption.
  - destruct (reg_get rs r) eqn:E; [|exact A]. destruct (reg_get rs o) eqn:E2; [|exact A].
    destruct (merge_sparse p (as_sparse p0)) as [[p' fl]|] eqn:M; [|exact A].
    apply AllInv_set; [exact A|]. eapply Inv_merge_sparse; [|exact M]. eapply AllInv_get; eassumption.
  - destruct (reg_get rs r); [|exact A]. destruct (has_sparse_key_id p id) as [[h v]|]; exact A.
  - destruct (reg_get rs r); exact A.
  - destruct (reg_get rs r) eqn:E; [|exact A]. apply AllInv_set; [exact A|]. apply Inv_clone. eapply AllInv_get; eassumption.
  - destruct (reg_get rs r) eqn:E; [|exact A]. apply AllInv_set; [exact A|]. apply Inv_derive.
  - destruct (reg_get rs r); exact A.
  - destruct (reg_get rs main); [|exact A]. destruct (regs_get_all rs rest); exact A.
  - exact A.
  - destruct (key_id_checker_valid nkeys id); exact A.
Qed.

(** no_bit_without_valid_sig: after ANY sequence of operations (constructors, AddSignature, Merge,
    MergeSparse with arbitrary input, clones, ...), in every register every set bit is backed by a stored
    signature that verifies under the candidate key with that index, and every stored signature verifies. *)
Theorem no_bit_without_valid_sig tbl ops r p : reg_get (exec tbl [] ops) r = Some p -> Inv p.
Proof.
  assert (H : forall ops rs, AllInv rs -> AllInv (exec tbl rs ops)).
  { induction ops0 as [|o t IH]; intros rs A; [exact A|]. cbn [exec]. apply IH. apply AllInv_step. exact A. }
  intros G. eapply AllInv_get; [|exact G]. apply H. constructor.
Qed.
