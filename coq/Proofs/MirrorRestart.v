(** C10: whatever the stores contain, a mirror that comes up holds only authentic votes:
    start-up rebuilds every proof by re-verifying the stored signatures, so the reloaded views
    satisfy the authenticity invariant unconditionally.  Also the refutation witness for
    "a restart lands on the same position as the uninterrupted run" (known finding). *)
From Coq Require Import List NArith Arith Bool Lia String.
From GV Require Import Base.Ints Gen.Math Gen.Kernel Model.Mirror Proofs.MirrorAuth.
Import ListNotations.
Local Open Scope N_scope.

Lemma to_full_entries_auth kind h r keys entries : forall pm,
  to_full_entries kind h r keys entries = Ok pm -> auth_pmap keys kind h r pm.
Proof.
  induction entries as [|[t sigs] rest IH]; intros pm; cbn [to_full_entries].
  - intros E; inversion E; subst. apply auth_pmap_nil.
  - destruct sigs as [|sg sigs']; [discriminate|].
    pose proof (merge_sparse_auth kind h r t keys [] (sg :: sigs') (auth_proof_nil _ _ _ _ _)) as Hm.
    destruct (merge_sparse kind h r t keys [] (sg :: sigs')) as [[p allv] inc]. cbn [fst] in Hm.
    destruct (allv && inc); [|discriminate].
    unfold bind. destruct (to_full_entries kind h r keys rest) as [m|] eqn:Hr; [|discriminate].
    intros E; inversion E; subst. apply pm_set_auth; [apply IH; reflexivity|exact Hm].
Qed.

Lemma to_full_map_auth kind h r keys c pm :
  to_full_map kind h r keys c = Ok pm -> auth_pmap keys kind h r pm.
Proof.
  unfold to_full_map. destruct c as [[pkh entries]|]; [|intros E; inversion E; subst; apply auth_pmap_nil].
  destruct keys; [destruct entries; [|discriminate]|]; apply to_full_entries_auth.
Qed.

Lemma load_initial_view_auth rs rp h r vs v :
  load_initial_view_r rs rp h r vs = Ok v -> auth_view v /\ v_h v = h /\ v_r v = r /\ v_vals v = vs.
Proof.
  unfold load_initial_view_r, bind.
  destruct (to_full_map KPrevote h r (vs_keys vs) _) as [pv|] eqn:Hpv; [|discriminate].
  destruct (to_full_map KPrecommit h r (vs_keys vs) _) as [pc|] eqn:Hpc; [|discriminate].
  intros E; inversion E; subst. cbn. repeat split; cbn.
  - eapply to_full_map_auth; exact Hpv.
  - eapply to_full_map_auth; exact Hpc.
Qed.

Lemma auth_recheck s s' : auth_state s -> recheck_view_shifts s = Ok s' -> auth_state s'.
Proof.
  intros H. unfold recheck_view_shifts, bind.
  destruct (check_voting_precommit_shift s) as [s1|] eqn:E1; [|discriminate].
  pose proof (auth_check_voting_precommit_shift _ _ H E1) as H1.
  destruct (negb _); [intros E; inversion E; subst; exact H1|].
  destruct (check_next_round_precommit_shift s1) as [s2|] eqn:E2; [|discriminate].
  pose proof (auth_check_next_round_precommit_shift _ _ H1 E2) as H2.
  destruct (negb _); [intros E; inversion E; subst; exact H2|].
  apply auth_check_prevote_shift; exact H2.
Qed.

(** For ALL store contents: if start-up succeeds, every vote in the reloaded views is authentic. *)
Theorem restart_views_authentic ih ivs st vals log s' :
  restart ih ivs st vals log = Ok s' -> auth_state s'.
Proof.
  unfold restart.
  destruct (sr_nhr st) as [[[vh0 vr0] ch0] cr0].
  destruct (if vh0 =? 0 then (ih, 0, 0, 0) else (vh0, vr0, ch0, cr0)) as [[[vh vr] ch] cr].
  unfold bind at 1.
  match goal with |- match ?X with _ => _ end = _ -> _ => destruct X as [[com chdr]|] eqn:Hcom end; [|discriminate].
  assert (Hc : auth_view com).
  { revert Hcom. destruct (ih <=? ch); [|intros E; inversion E; subst; apply auth_view_fresh].
    unfold bind at 1. destruct (if ch =? ih then _ else _) as [vs|]; [|discriminate].
    unfold bind at 1. destruct (load_initial_view_r (sr_rounds st) (sr_replayed st) ch cr vs) as [v0|] eqn:Hl; [|discriminate].
    destruct (load_initial_view_auth _ _ _ _ _ _ Hl) as (Ha&_).
    destruct (v_pc v0) eqn:Hpc0; [discriminate|].
    unfold bind at 1. destruct (if ih <? ch then _ else _) as [pcp|]; [|discriminate].
    destruct (hdr_get _ ch) as [[x xcp]|]; [|discriminate].
    intros E; inversion E; subst. apply auth_view_bump.
    destruct Ha as [A1 A2]. split; cbn; [exact A1|]. first [exact A2 | rewrite Hpc0; exact A2 | rewrite <- Hpc0; exact A2]. }
  unfold bind at 1. destruct (if vh =? ih then _ else _) as [vs|]; [|discriminate].
  unfold bind at 1. destruct (load_initial_view_r (sr_rounds st) (sr_replayed st) vh vr vs) as [vot0|] eqn:Hv; [|discriminate].
  unfold bind at 1. destruct (load_initial_view_r (sr_rounds st) (sr_replayed st) vh (wrap32 (vr + 1)) vs) as [nxt0|] eqn:Hn; [|discriminate].
  destruct (load_initial_view_auth _ _ _ _ _ _ Hv) as ([V1 V2]&_).
  destruct (load_initial_view_auth _ _ _ _ _ _ Hn) as ([N1 N2]&_).
  unfold bind. destruct (recheck_view_shifts _) as [s1|] eqn:Hr; [|discriminate].
  intros E; inversion E; subst. apply auth_update_observers.
  eapply auth_recheck; [|exact Hr].
  destruct Hc as [C1 C2]. unfold auth_state, auth_view. cbn. repeat split; assumption.
Qed.

(** Known finding: a clean restart does not always land on the position of the uninterrupted
    run.  One validator; a prevote for round 2 arrives early (stored as a future vote), a nil
    precommit moves the node to round 1 - the fresh next-round view ignores the stored vote - and
    a restart loads it and moves on to round 2. *)
Definition w_vs : valset := mk_valset [0] [1] [1] [2] true.
Definition w_m1 : vmsg := mk_vmsg 1 2 [1] [([], [mk_ssig [0; 0] (SVote 0 0 1 2 [])])].
Definition w_m2 : vmsg := mk_vmsg 1 0 [1] [([], [mk_ssig [0; 0] (SVote 0 1 1 0 [])])].

Definition run_x (s : kstate) (xs : list xop) : res (kstate * N) :=
  fold_left (fun r x => match r with Ok (s, _) => xstep s x | p => p end) xs (Ok (s, 0)).

Definition vpos (r : res (kstate * N)) : option (N * N) :=
  match r with Ok (s, _) => Some (v_h (k_vot s), v_r (k_vot s)) | Panic _ => None end.

Theorem restart_same_position_refuted :
  vpos (run_x (init_state 1 w_vs) [XOp (OpPrevote w_m1); XOp (OpPrecommit w_m2)]) = Some (1, 1) /\
  vpos (run_x (init_state 1 w_vs) [XOp (OpPrevote w_m1); XOp (OpPrecommit w_m2); XRestart]) = Some (1, 2).
Proof. vm_compute. split; reflexivity. Qed.
