(** C16 - proofs about Model/Stores.v: every store, run over ANY operation list, answers
    every call exactly as its history-based sequential contract (Monitors/C16m.v) requires.
    Generic refinement argument + one invariant per store.  (Action store: StoresAction.v) *)
From Coq Require Import List NArith Bool Lia.
From GV Require Import Base.Ints Model.Stores Model.StoresEq Monitors.C16m.
Import ListNotations.
Local Open Scope N_scope.

(** * Reflexivity of the observation comparisons *)
Lemma list_eqb_refl {A} (eqb : A -> A -> bool) (H : forall a, eqb a a = true) l : list_eqb eqb l l = true.
Proof. induction l; simpl; auto. rewrite H, IHl. reflexivity. Qed.
Lemma opt_eqb_refl {A} (eqb : A -> A -> bool) (H : forall a, eqb a a = true) o : opt_eqb eqb o o = true.
Proof. destruct o; simpl; auto. Qed.
Lemma akind_eqb_refl k : akind_eqb k k = true.
Proof. destruct k; reflexivity. Qed.
Lemma key_eqb_refl k : key_eqb k k = true.
Proof. destruct k; simpl; auto using bytes_eqb_refl. Qed.
Lemma err_eqb_refl e : err_eqb e e = true.
Proof.
  destruct e; simpl; rewrite ?akind_eqb_refl, ?bytes_eqb_refl, ?N.eqb_refl,
    ?(opt_eqb_refl bytes_eqb bytes_eqb_refl); reflexivity.
Qed.
Lemma ph_eqb_refl p : ph_eqb p p = true.
Proof. unfold ph_eqb. rewrite !N.eqb_refl, bytes_eqb_refl, key_eqb_refl. reflexivity. Qed.
Lemma ra_eqb_refl x : ra_eqb x x = true.
Proof. unfold ra_eqb. rewrite !N.eqb_refl, ph_eqb_refl, key_eqb_refl, !bytes_eqb_refl. reflexivity. Qed.
Lemma aout_eqb_refl o : aout_eqb o o = true.
Proof. destruct o; simpl; auto using err_eqb_refl, ra_eqb_refl. Qed.
Lemma fout_eqb_refl o : fout_eqb o o = true.
Proof. destruct o; simpl; rewrite ?err_eqb_refl, ?N.eqb_refl, ?bytes_eqb_refl; reflexivity. Qed.
Lemma cout_eqb_refl o : cout_eqb o o = true.
Proof. destruct o; simpl; rewrite ?err_eqb_refl, ?N.eqb_refl; reflexivity. Qed.
Lemma mout_eqb_refl o : mout_eqb o o = true.
Proof. destruct o; simpl; rewrite ?err_eqb_refl, ?N.eqb_refl; reflexivity. Qed.
Lemma sout_eqb_refl o : sout_eqb o o = true.
Proof. destruct o; simpl; rewrite ?err_eqb_refl, ?N.eqb_refl; reflexivity. Qed.
Lemma kp_eqb_refl x : kp_eqb x x = true.
Proof. unfold kp_eqb. rewrite bytes_eqb_refl, N.eqb_refl. reflexivity. Qed.
Lemma vout_eqb_refl o : vout_eqb o o = true.
Proof.
  destruct o; simpl; rewrite ?err_eqb_refl, ?bytes_eqb_refl, ?(list_eqb_refl bytes_eqb bytes_eqb_refl),
    ?(list_eqb_refl N.eqb N.eqb_refl), ?(list_eqb_refl kp_eqb kp_eqb_refl); reflexivity.
Qed.
Lemma ssc_eqb_refl c : ssc_eqb c c = true.
Proof.
  destruct c as [a [l|]]; unfold ssc_eqb; simpl; rewrite bytes_eqb_refl; simpl; auto.
  apply list_eqb_refl, kp_eqb_refl.
Qed.
Lemma rout_eqb_refl o : rout_eqb o o = true.
Proof.
  destruct o; simpl; rewrite ?err_eqb_refl, ?ssc_eqb_refl, ?N.eqb_refl, ?(list_eqb_refl ph_eqb ph_eqb_refl); reflexivity.
Qed.

(** * The generic refinement argument *)
Section Refine.
  Context {St Op Out : Type}
          (step : St -> Op -> St * Out) (expected : list (Op * Out) -> Op -> Out)
          (out_eqb : Out -> Out -> bool) (classify : list (Op * Out) -> Op -> Out -> Out -> N)
          (guard : list (Op * Out) -> Op -> bool)
          (R : list (Op * Out) -> St -> Prop).
  Hypothesis eqb_refl : forall o, out_eqb o o = true.
  Hypothesis R_step : forall hist s o, R hist s -> guard hist o = true ->
      snd (step s o) = expected hist o /\ R ((o, snd (step s o)) :: hist) (fst (step s o)).

  Fixpoint guarded (hist tr : list (Op * Out)) : bool :=
    match tr with
    | [] => true
    | (o, out) :: tr' => guard hist o && guarded ((o, out) :: hist) tr'
    end.

  Lemma refine_gen : forall ops hist s i, R hist s -> guarded hist (trace step s ops) = true ->
      mon_go expected out_eqb classify i hist (trace step s ops) = 0 /\
      R (rev (trace step s ops) ++ hist) (run step s ops).
  Proof.
    induction ops as [|o ops IH]; intros hist s i HR HG; simpl in *.
    - split; auto.
    - destruct (step s o) as [s' out] eqn:E. simpl in *.
      apply andb_true_iff in HG as [Hg HG].
      destruct (R_step hist s o HR Hg) as [Hout HR']. rewrite E in Hout, HR'. simpl in *.
      rewrite <- Hout, eqb_refl.
      destruct (IH _ _ (i + 1) HR' HG) as [A B]. split; auto.
      rewrite <- app_assoc. simpl. exact B.
  Qed.
End Refine.

(** For the stores without guards. *)
Definition no_guard {Op Out : Type} (_ : list (Op * Out)) (_ : Op) : bool := true.
Lemma guarded_no_guard {Op Out} hist (tr : list (Op * Out)) : guarded no_guard hist tr = true.
Proof. revert hist; induction tr as [|[o out] tr IH]; intros; simpl; auto. Qed.

(** * Finalization store *)
Lemma f_saved_cons h o out hist :
  f_saved h ((o, out) :: hist) =
  match o, out with
  | FSave h' r bh vs ah, FOk => if N.eqb h' h then Some (r, bh, vs, ah) else f_saved h hist
  | _, _ => f_saved h hist
  end.
Proof.
  unfold f_saved; simpl. destruct o; try reflexivity. destruct out; try reflexivity.
  destruct (N.eqb h0 h); reflexivity.
Qed.

Definition f_R (hist : list (fop * fout)) (s : fstate) : Prop :=
  forall h, al_get N.eqb h s = f_saved h hist.

Lemma f_R_step hist s o : f_R hist s -> no_guard hist o = true ->
  snd (fstep s o) = f_expected hist o /\ f_R ((o, snd (fstep s o)) :: hist) (fst (fstep s o)).
Proof.
  intros HR _. destruct o as [h r bh vs ah|h]; simpl.
  - rewrite <- (HR h). destruct (al_get N.eqb h s) eqn:E; simpl.
    + split; [reflexivity|]. intros h'. rewrite f_saved_cons. apply HR.
    + split; [reflexivity|]. intros h'. rewrite f_saved_cons. simpl. unfold al_set.
      rewrite (N.eqb_sym h' h). destruct (N.eqb h h'); auto.
  - rewrite <- (HR h). destruct (al_get N.eqb h s) as [[[[r bh] vs] ah]|] eqn:E; simpl;
      (split; [reflexivity|]; intros h'; rewrite f_saved_cons; apply HR).
Qed.

Lemma f_R_init : f_R [] finit.
Proof. intros h. reflexivity. Qed.

Lemma fin_refines : forall ops,
  f_mon (trace fstep finit ops) = 0 /\ f_R (rev (trace fstep finit ops)) (run fstep finit ops).
Proof.
  intros ops. unfold f_mon, mon_run.
  destruct (refine_gen fstep f_expected fout_eqb class1 no_guard f_R fout_eqb_refl f_R_step ops [] finit 0 f_R_init
              (guarded_no_guard _ _)) as [A B].
  rewrite app_nil_r in B. auto.
Qed.

Lemma fin_answers_by_contract : forall ops o,
  snd (fstep (run fstep finit ops) o) = f_expected (rev (trace fstep finit ops)) o.
Proof. intros. apply f_R_step; [apply fin_refines | reflexivity]. Qed.

(** A refused save changes nothing. *)
Lemma fin_refusal_keeps_state : forall s h r bh vs ah e,
  snd (fstep s (FSave h r bh vs ah)) = FErr e -> fst (fstep s (FSave h r bh vs ah)) = s /\ e = EFinOverwrite h.
Proof. intros s h r bh vs ah e. simpl. destruct (al_get N.eqb h s); simpl; intros H; inversion H; auto. Qed.

(** Once a finalization is stored for a height, no operation sequence changes it. *)
Lemma fin_stored_forever : forall ops s h v,
  al_get N.eqb h s = Some v -> al_get N.eqb h (run fstep s ops) = Some v.
Proof.
  induction ops as [|o ops IH]; intros s h v H; simpl; auto.
  apply IH. destruct o as [h' r bh vs ah|h']; simpl.
  - destruct (al_get N.eqb h' s) eqn:E; simpl; auto.
    unfold al_set. simpl. destruct (N.eqb h h') eqn:E2; auto.
    apply N.eqb_eq in E2. subst. congruence.
  - destruct (al_get N.eqb h' s) as [[[[? ?] ?] ?]|]; simpl; auto.
Qed.

Lemma fin_never_overwritten : forall ops1 ops2 h r bh vs ah,
  snd (fstep (run fstep finit ops1) (FSave h r bh vs ah)) = FOk ->
  let s := run fstep finit (ops1 ++ FSave h r bh vs ah :: ops2) in
  snd (fstep s (FLoad h)) = FLoaded r bh vs ah /\
  forall r' bh' vs' ah', fstep s (FSave h r' bh' vs' ah') = (s, FErr (EFinOverwrite h)).
Proof.
  intros ops1 ops2 h r bh vs ah Hok s.
  assert (Hs : al_get N.eqb h s = Some (r, bh, vs, ah)).
  { unfold s. clear s. revert Hok. generalize finit. induction ops1 as [|o ops1 IH]; intros s0 Hok; simpl in *.
    - apply fin_stored_forever. destruct (al_get N.eqb h s0); simpl in *; try discriminate.
      rewrite N.eqb_refl. reflexivity.
    - apply IH. exact Hok. }
  split.
  - simpl. rewrite Hs. reflexivity.
  - intros. simpl. rewrite Hs. reflexivity.
Qed.

(** * Committed header store *)
Lemma c_saved_cons h o out hist :
  c_saved h ((o, out) :: hist) =
  match o, out with
  | CSave h' tag, COk => if N.eqb h' h then Some tag else c_saved h hist
  | _, _ => c_saved h hist
  end.
Proof.
  unfold c_saved; simpl. destruct o; try reflexivity. destruct out; try reflexivity.
  destruct (N.eqb h0 h); reflexivity.
Qed.

Definition c_R (hist : list (cop * cout)) (s : cstate) : Prop :=
  forall h, al_get N.eqb h s = c_saved h hist.

Lemma c_R_step hist s o : c_R hist s -> no_guard hist o = true ->
  snd (cstep s o) = c_expected hist o /\ c_R ((o, snd (cstep s o)) :: hist) (fst (cstep s o)).
Proof.
  intros HR _. destruct o as [h tag|h]; simpl.
  - split; [reflexivity|]. intros h'. rewrite c_saved_cons. simpl. rewrite (N.eqb_sym h' h).
    destruct (N.eqb h h'); auto.
  - rewrite <- (HR h). destruct (al_get N.eqb h s) eqn:E; simpl;
      (split; [reflexivity|]; intros h'; rewrite c_saved_cons; apply HR).
Qed.

Lemma chs_refines : forall ops,
  c_mon (trace cstep cinit ops) = 0 /\ c_R (rev (trace cstep cinit ops)) (run cstep cinit ops).
Proof.
  intros ops. unfold c_mon, mon_run.
  destruct (refine_gen cstep c_expected cout_eqb class1 no_guard c_R cout_eqb_refl c_R_step ops [] cinit 0
              (fun h => eq_refl) (guarded_no_guard _ _)) as [A B].
  rewrite app_nil_r in B. auto.
Qed.

Lemma chs_answers_by_contract : forall ops o,
  snd (cstep (run cstep cinit ops) o) = c_expected (rev (trace cstep cinit ops)) o.
Proof. intros. apply c_R_step; [apply chs_refines | reflexivity]. Qed.

Lemma run_app {St Op Out} (step : St -> Op -> St * Out) s a b :
  run step s (a ++ b) = run step (run step s a) b.
Proof. revert s; induction a; intros; simpl; auto. Qed.

(** The documented overwrite behaviour: a load returns the LATEST save of the height,
    whatever was saved there before; other heights do not interfere. *)
Lemma chs_load_returns_latest_save : forall ops1 ops2 h tag,
  (forall t, ~ In (CSave h t) ops2) ->
  snd (cstep (run cstep cinit (ops1 ++ CSave h tag :: ops2)) (CLoad h)) = CLoaded tag.
Proof.
  intros ops1 ops2 h tag Hno. rewrite run_app. simpl.
  assert (G : forall ops s, (forall t, ~ In (CSave h t) ops) -> al_get N.eqb h s = Some tag ->
              al_get N.eqb h (run cstep s ops) = Some tag).
  { induction ops as [|o ops IH]; intros s Hn Hs; simpl; auto.
    apply IH. { intros t Ht. apply (Hn t). right. exact Ht. }
    destruct o as [h' t'|h']; simpl.
    - destruct (N.eqb h h') eqn:E; auto. apply N.eqb_eq in E. subst. exfalso. apply (Hn t'). left. reflexivity.
    - destruct (al_get N.eqb h' s); simpl; auto. }
  rewrite (G ops2 _ Hno). reflexivity. simpl. rewrite N.eqb_refl. reflexivity.
Qed.

Lemma chs_unknown_iff : forall ops h,
  snd (cstep (run cstep cinit ops) (CLoad h)) = CErr (EHeightUnknown h) <-> (forall t, ~ In (CSave h t) ops).
Proof.
  intros ops h.
  assert (G : forall ops0 s, (al_get N.eqb h (run cstep s ops0) = None <->
              (al_get N.eqb h s = None /\ forall t, ~ In (CSave h t) ops0))).
  { induction ops0 as [|o ops' IH]; intros s; simpl.
    - split; [intros H; split; auto | intros [H _]; exact H].
    - rewrite IH. destruct o as [h' t'|h']; simpl.
      + destruct (N.eqb h h') eqn:E.
        * apply N.eqb_eq in E. subst. split; [intros [H _]; discriminate|].
          intros [_ H]. exfalso. apply (H t'). left. reflexivity.
        * apply N.eqb_neq in E. split; intros [A B]; split; auto.
          -- intros t [Ht|Ht]; [inversion Ht; congruence | apply (B t Ht)].
          -- intros t Ht. apply (B t). right. exact Ht.
      + assert (fst (match al_get N.eqb h' s with Some tag => (s, CLoaded tag) | None => (s, CErr (EHeightUnknown h')) end) = s)
          as -> by (destruct (al_get N.eqb h' s); reflexivity).
        split; intros [A B]; split; auto.
        * intros t [Ht|Ht]; [discriminate | apply (B t Ht)].
        * intros t Ht. apply (B t). right. exact Ht. }
  simpl. specialize (G ops cinit). destruct (al_get N.eqb h (run cstep cinit ops)) eqn:E; simpl.
  - split; [discriminate|]. intros H. destruct G as [_ G]. discriminate G. split; auto.
  - split; auto. intros _. apply G. reflexivity.
Qed.

(** * Mirror store and state machine store *)
Lemma m_last_cons o out hist :
  m_last ((o, out) :: hist) =
  match o, out with MSet a b c d, MOk => Some (a, b, c, d) | _, _ => m_last hist end.
Proof. unfold m_last; simpl. destruct o; try reflexivity. destruct out; reflexivity. Qed.

Definition m_R (hist : list (mop * mout)) (s : mstate) : Prop :=
  s = match m_last hist with Some v => v | None => minit end.

Lemma m_R_step hist s o : m_R hist s -> no_guard hist o = true ->
  snd (mstep s o) = m_expected hist o /\ m_R ((o, snd (mstep s o)) :: hist) (fst (mstep s o)).
Proof.
  unfold m_R. intros HR _. destruct o as [vh vr ch cr|]; simpl.
  - split; auto.
  - subst s. destruct (m_last hist) as [[[[vh vr] ch] cr]|] eqn:E; simpl.
    + destruct (N.eqb vh 0); simpl; split; auto; rewrite m_last_cons, E; reflexivity.
    + unfold minit; simpl. split; [reflexivity|]. rewrite m_last_cons, E. reflexivity.
Qed.

Lemma mirror_refines : forall ops,
  m_mon (trace mstep minit ops) = 0 /\ m_R (rev (trace mstep minit ops)) (run mstep minit ops).
Proof.
  intros ops. unfold m_mon, mon_run.
  destruct (refine_gen mstep m_expected mout_eqb class1 no_guard m_R mout_eqb_refl m_R_step ops [] minit 0
              eq_refl (guarded_no_guard _ _)) as [A B].
  rewrite app_nil_r in B. auto.
Qed.

Lemma mirror_answers_by_contract : forall ops o,
  snd (mstep (run mstep minit ops) o) = m_expected (rev (trace mstep minit ops)) o.
Proof. intros. apply m_R_step; [apply mirror_refines | reflexivity]. Qed.

(** The last [MSet] of an op list ([None] when there is none). *)
Fixpoint last_mset (ops : list mop) (acc : option (N * N * N * N)) : option (N * N * N * N) :=
  match ops with
  | [] => acc
  | MSet a b c d :: ops' => last_mset ops' (Some (a, b, c, d))
  | MGet :: ops' => last_mset ops' acc
  end.

Lemma last_mset_some ops : forall x,
  last_mset ops (Some x) = Some (match last_mset ops None with Some v => v | None => x end).
Proof.
  induction ops as [|[a b c d|] ops IH]; intros x; simpl; auto.
  rewrite (IH (a, b, c, d)). reflexivity.
Qed.

Lemma mirror_state_is_last_set : forall ops s,
  run mstep s ops = match last_mset ops None with Some v => v | None => s end.
Proof.
  induction ops as [|[a b c d|] ops IH]; intros s; simpl; auto.
  - rewrite IH, last_mset_some. reflexivity.
  - assert (fst (let '(vh, vr, ch, cr) := s in if N.eqb vh 0 then (s, MErr EUninitialized) else (s, MVal vh vr ch cr)) = s) as ->.
    { destruct s as [[[vh vr] ch] cr]. destruct (N.eqb vh 0); reflexivity. }
    apply IH.
Qed.

Lemma mirror_uninitialized_iff : forall ops,
  snd (mstep (run mstep minit ops) MGet) = MErr EUninitialized <->
  match last_mset ops None with Some (vh, _, _, _) => vh = 0 | None => True end.
Proof.
  intros ops. rewrite mirror_state_is_last_set.
  destruct (last_mset ops None) as [[[[vh vr] ch] cr]|]; simpl.
  - destruct (N.eqb vh 0) eqn:E; simpl.
    + apply N.eqb_eq in E. split; auto.
    + apply N.eqb_neq in E. split; [discriminate | contradiction].
  - split; auto.
Qed.

Lemma mirror_load_returns_latest_save : forall ops vh vr ch cr,
  last_mset ops None = Some (vh, vr, ch, cr) -> vh <> 0 ->
  snd (mstep (run mstep minit ops) MGet) = MVal vh vr ch cr.
Proof.
  intros ops vh vr ch cr H Hnz. rewrite mirror_state_is_last_set, H. simpl.
  apply N.eqb_neq in Hnz. rewrite Hnz. reflexivity.
Qed.

Lemma s_last_cons o out hist :
  s_last ((o, out) :: hist) = match o, out with SSet a b, SOk => Some (a, b) | _, _ => s_last hist end.
Proof. unfold s_last; simpl. destruct o; try reflexivity. destruct out; reflexivity. Qed.

Definition s_R (hist : list (sop * sout)) (s : sstate) : Prop :=
  s = match s_last hist with Some v => v | None => sinit end.

Lemma s_R_step hist s o : s_R hist s -> no_guard hist o = true ->
  snd (sstep s o) = s_expected hist o /\ s_R ((o, snd (sstep s o)) :: hist) (fst (sstep s o)).
Proof.
  unfold s_R. intros HR _. destruct o as [h r|]; simpl.
  - split; auto.
  - subst s. destruct (s_last hist) as [[h r]|] eqn:E; simpl.
    + destruct (N.eqb h 0); simpl; split; auto; rewrite s_last_cons, E; reflexivity.
    + unfold sinit; simpl. split; [reflexivity|]. rewrite s_last_cons, E. reflexivity.
Qed.

Lemma sm_refines : forall ops,
  s_mon (trace sstep sinit ops) = 0 /\ s_R (rev (trace sstep sinit ops)) (run sstep sinit ops).
Proof.
  intros ops. unfold s_mon, mon_run.
  destruct (refine_gen sstep s_expected sout_eqb class1 no_guard s_R sout_eqb_refl s_R_step ops [] sinit 0
              eq_refl (guarded_no_guard _ _)) as [A B].
  rewrite app_nil_r in B. auto.
Qed.

Lemma sm_answers_by_contract : forall ops o,
  snd (sstep (run sstep sinit ops) o) = s_expected (rev (trace sstep sinit ops)) o.
Proof. intros. apply s_R_step; [apply sm_refines | reflexivity]. Qed.

Fixpoint last_sset (ops : list sop) (acc : option (N * N)) : option (N * N) :=
  match ops with
  | [] => acc
  | SSet a b :: ops' => last_sset ops' (Some (a, b))
  | SGet :: ops' => last_sset ops' acc
  end.

Lemma last_sset_some ops : forall x,
  last_sset ops (Some x) = Some (match last_sset ops None with Some v => v | None => x end).
Proof.
  induction ops as [|[a b|] ops IH]; intros x; simpl; auto.
  rewrite (IH (a, b)). reflexivity.
Qed.

Lemma sm_state_is_last_set : forall ops s,
  run sstep s ops = match last_sset ops None with Some v => v | None => s end.
Proof.
  induction ops as [|[a b|] ops IH]; intros s; simpl; auto.
  - rewrite IH, last_sset_some. reflexivity.
  - assert (fst (let '(h, r) := s in if N.eqb h 0 then (s, SErr EUninitialized) else (s, SVal h r)) = s) as ->.
    { destruct s as [h r]. destruct (N.eqb h 0); reflexivity. }
    apply IH.
Qed.

Lemma sm_uninitialized_iff : forall ops,
  snd (sstep (run sstep sinit ops) SGet) = SErr EUninitialized <->
  match last_sset ops None with Some (h, _) => h = 0 | None => True end.
Proof.
  intros ops. rewrite sm_state_is_last_set.
  destruct (last_sset ops None) as [[h r]|]; simpl.
  - destruct (N.eqb h 0) eqn:E; simpl.
    + apply N.eqb_eq in E. split; auto.
    + apply N.eqb_neq in E. split; [discriminate | contradiction].
  - split; auto.
Qed.

Lemma sm_load_returns_latest_save : forall ops h r,
  last_sset ops None = Some (h, r) -> h <> 0 ->
  snd (sstep (run sstep sinit ops) SGet) = SVal h r.
Proof.
  intros ops h r H Hnz. rewrite sm_state_is_last_set, H. simpl.
  apply N.eqb_neq in Hnz. rewrite Hnz. reflexivity.
Qed.
