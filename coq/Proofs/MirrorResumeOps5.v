(** C10 (crash at any point), continued: replayed headers. *)
From Coq Require Import List NArith Arith Bool Lia String.
From GV Require Import Base.Ints Gen.Math Gen.Kernel Model.Mirror
  Proofs.Thresholds Proofs.MirrorAuth Proofs.MirrorNoop Proofs.MirrorChain Proofs.MirrorCert
  Proofs.MirrorTotal Proofs.MirrorRestart Proofs.MirrorLog
  Proofs.MirrorResumeWit Proofs.MirrorResumeLoad Proofs.MirrorResumeRT Proofs.MirrorResumeInv Proofs.MirrorResumeStart
  Proofs.MirrorResumeOps Proofs.MirrorResumeOps2 Proofs.MirrorResumeOps3 Proofs.MirrorResumeOps4.
Import ListNotations.
Local Open Scope N_scope.

Lemma K_jump_until ih ivs fuel : forall s r, K ih ivs s ->
  K ih ivs (jump_until fuel s r) /\ pref ih ivs s (jump_until fuel s r).
Proof.
  induction fuel as [|f IH]; intros s r HK; cbn [jump_until].
  - split; [exact HK|apply pref_refl; exact (proj2 (proj2 (proj2 (proj2 (proj2 (proj2 HK))))))].
  - destruct (_ <? _).
    + destruct (K_jump ih ivs s HK) as [K1 P1]. destruct (IH (jump_voting_round s) r K1) as [K2 P2].
      split; [exact K2|eapply pref_trans; eassumption].
    + split; [exact HK|apply pref_refl; exact (proj2 (proj2 (proj2 (proj2 (proj2 (proj2 HK))))))].
Qed.

(** * What [rs_save_ph] does to the cells *)
Lemma rs_save_ph_cells rs p h0 r0 :
  re_pv (rs_entry (rs_save_ph rs p) h0 r0) = re_pv (rs_entry rs h0 r0) /\
  re_pc (rs_entry (rs_save_ph rs p) h0 r0) = re_pc (rs_entry rs h0 r0) /\
  incl (re_phs (rs_entry rs h0 r0)) (re_phs (rs_entry (rs_save_ph rs p) h0 r0)).
Proof.
  unfold rs_save_ph. set (e := rs_entry rs (hd_height (ph_hdr p)) (ph_round p)).
  destruct (existsb _ (re_phs e)); [repeat split; intros x Hx; exact Hx|].
  rewrite rs_entry_set. destruct ((_ =? h0) && (_ =? r0)) eqn:E; [|repeat split; intros x Hx; exact Hx].
  apply andb_true_iff in E as [A B]. apply N.eqb_eq in A, B. subst h0 r0. cbn [re_pv re_pc re_phs]. fold e.
  repeat split. intros x Hx. apply in_or_app; left; exact Hx.
Qed.

Lemma rs_save_ph_new rs p :
  exists q0, In q0 (re_phs (rs_entry (rs_save_ph rs p) (hd_height (ph_hdr p)) (ph_round p))) /\
             hd_hash (ph_hdr q0) = hd_hash (ph_hdr p).
Proof.
  unfold rs_save_ph. set (e := rs_entry rs (hd_height (ph_hdr p)) (ph_round p)).
  destruct (existsb _ (re_phs e)) eqn:Ex.
  - apply existsb_exists in Ex as (q0&Hq0&Eq0). apply andb_true_iff in Eq0 as [Eq0 _]. apply bytes_eqb_eq in Eq0.
    exists q0. split; [exact Hq0|exact Eq0].
  - rewrite rs_entry_set, !N.eqb_refl. cbn [andb re_phs]. exists p.
    split; [apply in_or_app; right; left; reflexivity|reflexivity].
Qed.

(** * Store updates by the replay handler *)
Lemma SI_save_ph ih ivs st vh vr ch cr p :
  SI ih ivs st -> sr_nhr st = (vh, vr, ch, cr) -> ch < vh ->
  ph_fine ih (sr_hdrs st) vh (ph_hdr p) ->
  SI ih ivs (mk_stores (sr_nhr st) (sr_hdrs st) (rs_save_ph (sr_rounds st) p) (sr_replayed st)).
Proof.
  intros HSI Hnhr Hlt Hfine. pose proof Hfine as (Eh&_).
  unfold rs_save_ph. set (e := rs_entry (sr_rounds st) (hd_height (ph_hdr p)) (ph_round p)).
  destruct (existsb _ (re_phs e)); [rewrite stores_eta; exact HSI|].
  eapply SI_set_cell; [exact HSI|exact Hnhr|lia| |intros E; lia].
  intros _.
  destruct HSI as (vh0&vr0&ch0&cr0&Hn0&_&_&_&Hrounds&_).
  rewrite Hnhr in Hn0. inversion Hn0; subst vh0 vr0 ch0 cr0.
  pose proof (voting_entry_good ih ivs st vh Hrounds _ eq_refl (ph_round p)) as (G1&G2&G3).
  rewrite <- Eh in G1, G2, G3. fold e in G1, G2, G3.
  unfold rentry_good. cbn [re_pv re_pc re_phs]. rewrite <- Eh. split; [exact G1|]. split; [exact G2|].
  intros q Hq. apply in_app_or in Hq as [Hq|[Hq|[]]]; [apply G3; exact Hq|]. subst q. rewrite Eh. exact Hfine.
Qed.

Lemma SI_add_replayed ih ivs st vh vr ch cr x :
  SI ih ivs st -> sr_nhr st = (vh, vr, ch, cr) -> ph_fine ih (sr_hdrs st) vh x ->
  SI ih ivs (mk_stores (sr_nhr st) (sr_hdrs st) (sr_rounds st) (sr_replayed st ++ [x])).
Proof.
  intros (vh0&vr0&ch0&cr0&Hn&Hshape&Hfine&Hcert&Hrounds&Hrep) Hnhr Hx.
  rewrite Hn in Hnhr. inversion Hnhr; subst vh0 vr0 ch0 cr0. clear Hnhr.
  exists vh, vr, ch, cr. cbn [sr_nhr sr_hdrs sr_rounds sr_replayed].
  split; [exact Hn|]. split; [exact Hshape|]. split; [exact Hfine|]. split; [exact Hcert|]. split; [exact Hrounds|].
  intros y Hy. apply in_app_or in Hy as [Hy|[Hy|[]]]; [apply Hrep; exact Hy|]. subst y.
  pose proof Hx as (Eh&_). split; [lia|]. intros _. exact Hx.
Qed.

(** * The optional insertion of the replayed header *)
Lemma K_replay_insert ih ivs s hd r s1 :
  K ih ivs s ->
  v_h (k_vot s) = hd_height hd -> v_r (k_vot s) = r -> hd_ok hd = true -> vs_ok (hd_next hd) = true -> hd_height hd + 1 < two64 ->
  negb (hd_height hd =? k_init_h s) && negb (bytes_eqb (hd_prev hd) (chdr_hash s)) = false ->
  pow_ok (hd_vals hd) -> pow_ok (hd_next hd) -> vs_keys (hd_next hd) <> [] ->
  replay_insert s hd r = Ok s1 ->
  K ih ivs s1 /\ pref ih ivs s s1.
Proof.
  intros HK Hh Hrr Hok Hnext Hb Hprev Hvals Hn Hkeys Hins.
  pose proof HK as (HI&HP&(Xc&(Nc&Nv&Nn)&(N1v&N1n)&Xk&Xs)). pose proof HI as (Hc&Ha&Hs&Hhi).
  pose proof (replay_checks_good _ _ _ _ r Hc Hh Hok Hnext Hb Hprev) as Hgood.
  destruct (cinv_replay_insert _ _ _ _ _ _ Hc Hgood Hins) as [Hc1 _].
  destruct (auth_replay_insert _ _ _ _ Ha Hins) as (Ha1&_).
  assert (Hpok1 : forall q, In q (v_phs (k_vot s) ++ [fake_ph hd r]) \/ In q (v_phs (k_nxt s)) -> hdr_wf (ph_hdr q)).
  { intros q [Hq|Hq]; [|apply HP; right; exact Hq].
    apply in_app_or in Hq as [Hq|[Hq|[]]]; [apply HP; left; exact Hq|subst q; split; assumption]. }
  pose proof (cinv_nhr _ _ _ Hc) as Hnhr. destruct (com_below _ _ _ Hc) as [Hlt _].
  (* the replayed header is like an accepted proposed header of the voting height *)
  assert (Hfine : ph_fine ih (st_hdrs s) (v_h (k_vot s)) hd).
  { unfold ph_fine. split; [symmetry; exact Hh|]. split; [exact Hok|]. split; [rewrite Hh; exact Hb|].
    split; [split; [exact Hvals|split; [exact Hnext|split; [exact Hn|exact Hkeys]]]|].
    intros Hne. destruct Hgood as (_&_&_&_&Gp). cbn [fake_ph ph_hdr] in Gp.
    destruct Hc as (Hi1&_&_&_&_&_&_&_&_&_&Hch).
    destruct Gp as (ch&Hck&Hpr); [rewrite Hi1, <- Hh; exact Hne|].
    unfold chain_ok in Hch. rewrite Hck in Hch. destruct Hch as (C1&C2&C3&(cp&rest&C4)&_).
    exists ch, cp. split; [|exact Hpr]. rewrite C4. unfold hdr_get. cbn [find fst].
    replace (v_h (k_vot s) - 1) with (hd_height ch) by lia. rewrite N.eqb_refl. reflexivity. }
  revert Hins. unfold replay_insert.
  destruct (existsb _ (v_phs _)); [intros E; inversion E; subst; split; [exact HK|apply pref_refl; exact Xs]|].
  assert (Hkok' : forall q, In q (v_phs (k_vot s) ++ [fake_ph hd r]) \/ In q (v_phs (k_nxt s)) -> vs_keys (hd_next (ph_hdr q)) <> []).
  { intros q [Hq|Hq]; [|apply (proj1 Xk); right; exact Hq].
    apply in_app_or in Hq as [Hq|[Hq|[]]]; [apply (proj1 Xk); left; exact Hq|subst q; exact Hkeys]. }
  destruct (existsb _ (st_rounds s)); intros E; inversion E; subst s1; clear E.
  - (* filed as a keyless proposed header of the replayed round *)
    match goal with |- K _ _ ?S /\ _ => set (s2 := S) in * end.
    assert (Est : stores_of s2 = mk_stores (sr_nhr (stores_of s)) (sr_hdrs (stores_of s))
                     (rs_save_ph (sr_rounds (stores_of s)) (fake_ph hd r)) (sr_replayed (stores_of s))) by reflexivity.
    assert (S2 : SI ih ivs (stores_of s2)).
    { rewrite Est. eapply SI_save_ph; [exact Xs|exact Hnhr|exact Hlt|exact Hfine]. }
    assert (Hcells : forall h0 r0, re_pc (rs_entry (rs_save_ph (st_rounds s) (fake_ph hd r)) h0 r0) = re_pc (rs_entry (st_rounds s) h0 r0)).
    { intros h0 r0. unfold rs_save_ph.
      set (e := rs_entry (st_rounds s) (hd_height (ph_hdr (fake_ph hd r))) (ph_round (fake_ph hd r))).
      destruct (existsb _ (re_phs e)); [reflexivity|].
      rewrite rs_entry_set. destruct ((_ =? h0) && (_ =? r0)) eqn:E; [|reflexivity].
      apply andb_true_iff in E as [A B]. apply N.eqb_eq in A, B. subst h0 r0. reflexivity. }
    split.
    + split; [split; [exact Hc1|split; [exact Ha1|split; [exact Hs|exact Hhi]]]|]. split; [exact Hpok1|].
      split; [exact Xc|]. split; [split; [exact Nc|split; [exact Nv|exact Nn]]|].
      split.
      { unfold n1, n1_view, s2. cbn. split; intros Hpc; rewrite Hcells; [apply N1v|apply N1n]; exact Hpc. }
      split; [|exact S2]. split; [exact Hkok'|]. destruct Xk as [_ [Yv Yn]].
      unfold Y, s2. cbn [st_rounds st_replayed k_vot k_nxt set_vot log_w set_rounds].
      split.
      * eapply (yview_phs_grow _ _ _ _ (k_vot s)); [exact Yv|reflexivity|reflexivity|reflexivity|reflexivity|reflexivity|reflexivity
          |apply rs_save_ph_cells|apply rs_save_ph_cells|apply rs_save_ph_cells|intros x Hx; exact Hx|].
        cbn [with_phs v_phs]. intros q Hq. apply in_app_or in Hq as [Hq|[Hq|[]]]; [left; exact Hq|right; left]. subst q.
        pose proof (rs_save_ph_new (st_rounds s) (fake_ph hd r)) as Hnew. cbn [fake_ph ph_hdr ph_round] in Hnew.
        rewrite Hh, Hrr. exact Hnew.
      * eapply yview_mono; [apply rs_save_ph_cells|apply rs_save_ph_cells|apply rs_save_ph_cells|intros x Hx; exact Hx|exact Yn].
    + apply (pref_one ih ivs s s2 (WPH (fake_ph hd r))); [reflexivity|reflexivity|exact Xs|exact S2| |reflexivity].
      rewrite Est. unfold sadv. cbn [sr_hdrs sr_nhr]. split; [auto|]. split; [lia|]. split; [lia|].
      intros _. split; [reflexivity|]. split; [reflexivity|apply rs_refl].
  - (* stored as a replayed header *)
    match goal with |- K _ _ ?S /\ _ => set (s2 := S) in * end.
    assert (Est : stores_of s2 = mk_stores (sr_nhr (stores_of s)) (sr_hdrs (stores_of s))
                     (sr_rounds (stores_of s)) (sr_replayed (stores_of s) ++ [hd])) by reflexivity.
    assert (S2 : SI ih ivs (stores_of s2)).
    { rewrite Est. eapply SI_add_replayed; [exact Xs|exact Hnhr|exact Hfine]. }
    split.
    + split; [split; [exact Hc1|split; [exact Ha1|split; [exact Hs|exact Hhi]]]|]. split; [exact Hpok1|].
      split; [exact Xc|]. split; [split; [exact Nc|split; [exact Nv|exact Nn]]|].
      split; [split; [exact N1v|exact N1n]|]. split; [|exact S2]. split; [exact Hkok'|]. destruct Xk as [_ [Yv Yn]].
      unfold Y, s2. cbn [st_rounds st_replayed k_vot k_nxt set_vot log_w set_replayed].
      split.
      * eapply (yview_phs_grow _ _ _ _ (k_vot s)); [exact Yv|reflexivity|reflexivity|reflexivity|reflexivity|reflexivity|reflexivity
          |reflexivity|reflexivity|intros x Hx; exact Hx|intros x Hx; apply in_or_app; left; exact Hx|].
        cbn [with_phs v_phs]. intros q Hq. apply in_app_or in Hq as [Hq|[Hq|[]]]; [left; exact Hq|right; right]. subst q.
        exists hd. split; [apply in_or_app; right; left; reflexivity|]. split; [symmetry; exact Hh|reflexivity].
      * eapply yview_mono; [reflexivity|reflexivity|intros x Hx; exact Hx|intros x Hx; apply in_or_app; left; exact Hx|exact Yn].
    + apply (pref_one ih ivs s s2 (WReplay hd)); [reflexivity|reflexivity|exact Xs|exact S2| |reflexivity].
      rewrite Est. unfold sadv. cbn [sr_hdrs sr_nhr]. split; [auto|]. split; [lia|]. split; [lia|].
      intros _. split; [reflexivity|]. split; [reflexivity|apply rs_refl].
Qed.

(** * The replayed commit proof *)
Lemma replay_temp_mono h r keys pc entries : forall tm av tm',
  fold_left (fun acc e =>
      let '(tm, av) := acc in
      let base := match pm_get pc (fst e) with Some p => p | None => [] end in
      let '(p', a, _) := merge_sparse KPrecommit h r (fst e) keys base (snd e) in
      (pm_set tm (fst e) p', av && a)) entries (tm, av) = (tm', true) -> av = true.
Proof.
  induction entries as [|e rest IH]; intros tm av tm'; cbn [fold_left].
  - intros E; inversion E; reflexivity.
  - cbv zeta. destruct (merge_sparse KPrecommit h r (fst e) keys _ (snd e)) as [[p' a] inc].
    intros Hf. apply IH in Hf. apply andb_true_iff in Hf as [Hf _]. exact Hf.
Qed.

Lemma replay_temp_ne h r keys (pc : pmap) entries : forall tm av tm',
  fold_left (fun acc e =>
      let '(tm, av) := acc in
      let base := match pm_get pc (fst e) with Some p => p | None => [] end in
      let '(p', a, _) := merge_sparse KPrecommit h r (fst e) keys base (snd e) in
      (pm_set tm (fst e) p', av && a)) entries (tm, av) = (tm', true) ->
  proofs_nonempty entries -> ne_pmap tm -> ne_pmap tm'.
Proof.
  induction entries as [|[t sigs] rest IH]; intros tm av tm'; cbn [fold_left].
  - intros E; inversion E; subst. intros _ H; exact H.
  - intros Hf Hne Htm. cbv zeta in Hf. cbn [fst snd] in Hf.
    destruct (merge_sparse KPrecommit h r t keys _ sigs) as [[p' a] inc] eqn:Em.
    pose proof (replay_temp_mono _ _ _ _ _ _ _ _ Hf) as Hav. apply andb_true_iff in Hav as [_ Hav]. subst a.
    apply (IH _ _ _ Hf); [intros t' s' Hin; apply (Hne t' s'); right; exact Hin|].
    apply pm_set_ne; [exact Htm|]. unfold merge_sparse in Em.
    destruct (merge_sigs KPrecommit h r t keys _ sigs) as [p0 a0] eqn:Es. inversion Em; subst p0 a0.
    eapply merge_sigs_true_nonempty; [exact Es|]. apply (Hne t sigs). left; reflexivity.
Qed.

Lemma replay_temp_nd h r keys (pc : pmap) entries : forall tm av tm' av',
  nd_pmap pc -> nd_pmap tm ->
  fold_left (fun acc e =>
      let '(tm, av) := acc in
      let base := match pm_get pc (fst e) with Some p => p | None => [] end in
      let '(p', a, _) := merge_sparse KPrecommit h r (fst e) keys base (snd e) in
      (pm_set tm (fst e) p', av && a)) entries (tm, av) = (tm', av') -> nd_pmap tm'.
Proof.
  induction entries as [|e rest IH]; intros tm av tm' av' Hpc Htm; cbn [fold_left].
  - intros E; inversion E; subst; exact Htm.
  - cbv zeta.
    assert (Hb : nd_proof (match pm_get pc (fst e) with Some p => p | None => [] end)).
    { destruct (pm_get pc (fst e)) eqn:Eg; [exact (Hpc _ _ (pm_get_in _ _ _ Eg))|constructor]. }
    pose proof (merge_sparse_nd KPrecommit h r (fst e) keys _ (snd e) Hb) as Hm.
    destruct (merge_sparse KPrecommit h r (fst e) keys _ (snd e)) as [[p' a] inc]. cbn [fst] in Hm.
    apply IH; [exact Hpc|].
    intros t' q Hin. apply pm_set_in in Hin as [Heq|Hin]; [inversion Heq; subst; exact Hm|exact (Htm _ _ Hin)].
Qed.

(** the part of [handle_replay] after the insertion of the header: the precommits are stored
    with the round, the voting view is marked updated (version bump, view-manager event) and the
    commit shift is evaluated - the shape of [apply_votes] for a precommit on the voting view *)
Definition replay_store (s1 : kstate) (hd : hdr) (cp : cproof) (temp : pmap) : res (kstate * N) :=
  let v := k_vot s1 in
  let pc' := fold_left (fun m e => pm_set m (fst e) (snd e)) temp (v_pc v) in
  let v1 := with_pc v pc' in
  let v2 := bump (with_sum v1 (sum_set_precommits (v_sum v1) (vs_pows (v_vals v1)) pc')) in
  let coll := map_to_sparse (vs_pkh (v_vals v2)) pc' in
  let s2 := ev_w (log_w (set_rounds (set_vot s1 v2) (rs_overwrite_pc (st_rounds s1) (hd_height hd) (cp_round cp) coll))
                        (WPC (hd_height hd) (cp_round cp) coll)) (EvMark ViewIDVoting v2) in
  bind (check_voting_precommit_shift s2) (fun s3 => Ok (s3, 0)).

Lemma K_replay_store ih ivs s1 hd cp temp s' res :
  K ih ivs s1 ->
  v_r (k_vot s1) = cp_round cp -> v_h (k_vot s1) = hd_height hd ->
  auth_pmap (vs_keys (v_vals (k_vot s1))) KPrecommit (v_h (k_vot s1)) (v_r (k_vot s1)) temp -> ne_pmap temp ->
  temp <> [] -> nd_pmap temp ->
  replay_store s1 hd cp temp = Ok (s', res) -> K ih ivs s' /\ pref ih ivs s1 s'.
Proof.
  intros HK Hr Hh Htemp Htne Htnn Htnd. pose proof HK as (HI&HP&(Xc&(Nc&Nv&Nn)&(N1v&N1n)&Xk&Xs)).
  pose proof HI as (Hc&Ha&Hs&Hhi).
  unfold replay_store. cbv zeta.
  set (v := k_vot s1).
  set (pc' := fold_left (fun m e => pm_set m (fst e) (snd e)) temp (v_pc v)).
  set (v1 := with_pc v pc').
  set (v2 := bump (with_sum v1 (sum_set_precommits (v_sum v1) (vs_pows (v_vals v1)) pc'))).
  set (coll := map_to_sparse (vs_pkh (v_vals v2)) pc').
  set (h := hd_height hd). set (r := cp_round cp).
  match goal with |- bind (check_voting_precommit_shift ?S) _ = _ -> _ => set (s2 := S) end.
  pose proof (cinv_nhr _ _ _ Hc) as Hnhr. destruct (com_below _ _ _ Hc) as [Hlt _].
  destruct (vot_vals _ _ _ Hc) as [Evv _].
  assert (F : frame_eq s1 s2) by (unfold s2, frame_eq, pos_eq; cbn; repeat split).
  assert (Hpc'a : auth_pmap (vs_keys (v_vals v)) KPrecommit (v_h v) (v_r v) pc').
  { apply fold_pm_set_auth; [destruct Ha as (_&[_ Hvpc]&_); exact Hvpc|exact Htemp]. }
  assert (Hpc'n : ne_pmap pc') by (apply fold_pm_set_ne; [exact (proj2 Nv)|exact Htne]).
  assert (Hpc'nn : pc' <> []) by (apply fold_pm_set_nonempty; left; exact Htnn).
  assert (I2 : INV ih ivs s2).
  { split; [eapply cinv_frame; [exact F|exact Hc]|]. split.
    { destruct Ha as (Hc1'&[Hv1 Hv2]&Hn1). unfold auth_state. split; [exact Hc1'|]. split; [|exact Hn1].
      unfold auth_view. cbn. split; [exact Hv1|exact Hpc'a]. }
    split.
    { destruct Hs as [[Sa Sp] Sn]. unfold sinv, sum_ok. cbn. split; [|exact Sn].
      unfold sum_set_precommits. cbn.
      destruct (set_powers (vs_pows (v_vals v)) pc') as [[t b] m] eqn:Esp.
      cbn. split; [exact Sa|]. unfold blocks. rewrite Esp. reflexivity. }
    exact Hhi. }
  set (e := rs_entry (st_rounds s1) h r).
  set (e' := mk_rentry (re_phs e) (re_pv e) (Some coll)).
  assert (Est : stores_of s2 = mk_stores (sr_nhr (stores_of s1)) (sr_hdrs (stores_of s1))
                   (rs_set (sr_rounds (stores_of s1)) h r e') (sr_replayed (stores_of s1))) by reflexivity.
  assert (Hcollne : exists pkh en l, coll = (pkh, en :: l)) by (apply map_to_sparse_nonempty; exact Hpc'nn).
  assert (Ehv : h = v_h (k_vot s1)) by (unfold h; symmetry; exact Hh).
  assert (Erv : r = v_r (k_vot s1)) by (unfold r; symmetry; exact Hr).
  assert (S2 : SI ih ivs (stores_of s2)).
  { rewrite Est. eapply SI_set_cell; [exact Xs|exact Hnhr|lia| |intros E; lia].
    intros _.
    destruct Xs as (vh0&vr0&ch0&cr0&Hn0&_&_&_&Hrounds&_).
    unfold stores_of in Hn0; cbn [sr_nhr] in Hn0. rewrite Hnhr in Hn0. inversion Hn0; subst vh0 vr0 ch0 cr0.
    pose proof (voting_entry_good ih ivs (stores_of s1) (v_h (k_vot s1)) Hrounds _ eq_refl r) as (G1&G2&G3).
    cbn [stores_of sr_hdrs sr_rounds] in G1, G2, G3 |- *. rewrite <- Evv in G1, G2 |- *. rewrite <- Ehv in G1, G2, G3 |- *.
    fold e in G1, G2, G3. unfold e', rentry_good. cbn [re_pv re_pc re_phs].
    split; [exact G1|]. split; [|exact G3].
    unfold coll. rewrite Ehv, Erv. apply map_to_sparse_good; assumption. }
  assert (Hcell : forall h0 r0, pc_ne (st_rounds s1) h0 r0 -> pc_ne (st_rounds s2) h0 r0).
  { intros h0 r0 Hc0. change (st_rounds s2) with (rs_set (st_rounds s1) h r e').
    unfold pc_ne. rewrite rs_entry_set. destruct ((h =? h0) && (r =? r0)); [|exact Hc0].
    unfold e'. cbn [re_pc]. destruct Hcollne as (pkh&en&l&Ec). rewrite Ec. eexists; eexists; eexists; reflexivity. }
  assert (K2 : K ih ivs s2).
  { split; [exact I2|]. split; [exact HP|]. split; [eapply comvals_frame; [exact F|exact Xc]|].
    split; [unfold ne_state, ne_view; cbn; split; [exact Nc|split; [split; [exact (proj1 Nv)|exact Hpc'n]|exact Nn]]|].
    split.
    { unfold n1, n1_view. split; intros Hpc.
      - change (pc_ne (st_rounds s2) (v_h (k_vot s1)) (v_r (k_vot s1))). rewrite <- Ehv, <- Erv.
        change (st_rounds s2) with (rs_set (st_rounds s1) h r e'). unfold pc_ne. rewrite rs_entry_set, !N.eqb_refl. cbn [andb].
        unfold e'. cbn [re_pc]. destruct Hcollne as (pkh&en&l&Ec). rewrite Ec. eexists; eexists; eexists; reflexivity.
      - apply Hcell. apply N1n. exact Hpc. }
    split; [|exact S2]. split; [exact (proj1 Xk)|]. destruct Xk as [_ [Yv Yn]].
    unfold Y. change (st_rounds s2) with (rs_set (st_rounds s1) h r e'). change (st_replayed s2) with (st_replayed s1).
    change (k_vot s2) with v2. change (k_nxt s2) with (k_nxt s1).
    split.
    - destruct Yv as ((A1&A2)&(B1&B2)&YC&YD&YE&YF).
      assert (Hwf' : votes_wf pc') by (split; [apply fold_pm_set_keys_nodup; exact B1|apply fold_pm_set_nd; assumption]).
      unfold yview, phs_corr. replace (v_h v2) with h by exact Ehv. replace (v_r v2) with r by exact Erv.
      rewrite rs_entry_set, !N.eqb_refl. cbn [andb].
      unfold phs_corr in YF. rewrite <- Ehv, <- Erv in YD, YE, YF. fold e in YD, YE, YF.
      unfold e'. cbn [re_pv re_pc re_phs].
      split; [split; assumption|]. split; [exact Hwf'|]. split.
      { unfold mpc_ok, v2, v1. cbn [bump with_sum with_pc v_sum v_vals v_pc]. unfold sum_set_precommits.
        destruct (set_powers (vs_pows (v_vals v)) pc') as [[t0 b0] m0]. reflexivity. }
      split; [exact YD|]. split; [|exact YF].
      unfold coll. apply (vrel_written KPrecommit v2); [exact Hpc'a|exact Hpc'n|exact (proj2 Hwf')].
    - assert (Hcw : ((h =? v_h (k_nxt s1)) && (r =? v_r (k_nxt s1))) = false).
      { destruct Hc as (_&_&_&_&Hnr&_). rewrite Hnr, Erv.
        destruct (N.eqb_spec (v_r (k_vot s1)) (wrap32 (v_r (k_vot s1) + 1))) as [E|_]; [|apply andb_false_r].
        exfalso. apply (wrap32_succ_neq (v_r (k_vot s1))). symmetry; exact E. }
      eapply yview_mono; [| | | |exact Yn]; rewrite ?rs_entry_set, ?Hcw; try reflexivity; intros x Hx; exact Hx. }
  assert (P2 : pref ih ivs s1 s2).
  { apply (pref_one ih ivs s1 s2 (WPC h r coll)); [reflexivity|reflexivity|exact Xs|exact S2| |reflexivity].
    eapply adv_sadv; [exact Hc|exact (proj1 I2)|apply adv_frame; exact F]. }
  unfold bind. destruct (check_voting_precommit_shift s2) as [s3|] eqn:Hcv; [|discriminate].
  intros E; inversion E; subst. destruct (K_check_voting _ _ _ _ K2 Hcv) as [K3 P3].
  split; [exact K3|eapply pref_trans; eassumption].
Qed.

(** * handleReplayedHeader: validated first (a rejected replay is the identity), then applied *)
Lemma tinv_jump_until' fuel : forall s r, tinv s -> tinv (jump_until fuel s r).
Proof.
  induction fuel as [|f IH]; intros s r H; cbn [jump_until]; [exact H|].
  destruct (_ <? _); [|exact H]. apply IH. split; [apply aok_jump, H|apply pok_jump, H].
Qed.

Lemma K_handle_replay ih ivs s0 hd cp s' res :
  K ih ivs s0 -> tinv s0 -> hd_height hd + 1 < two64 ->
  pow_ok (hd_next hd) -> vs_keys (hd_next hd) <> [] ->
  handle_replay s0 hd cp = Ok (s', res) -> K ih ivs s' /\ pref ih ivs s0 s'.
Proof.
  intros HK0 HT0 Hb Hn Hkeys. unfold handle_replay.
  assert (Hsame : forall r0, Ok (s0, r0) = Ok (s', res) -> K ih ivs s' /\ pref ih ivs s0 s')
    by (intros r0 E; inversion E; subst; split; [exact HK0|apply pref_refl; exact (proj2 (proj2 (proj2 (proj2 (proj2 (proj2 HK0))))))]).
  destruct (negb (hd_height hd =? _)); [apply Hsame|].
  destruct (cp_round cp <? _); [discriminate|].
  destruct (K_jump_until ih ivs (N.to_nat (cp_round cp - v_r (k_vot s0))) s0 (cp_round cp) HK0) as [HK P0].
  pose proof (tinv_jump_until' (N.to_nat (cp_round cp - v_r (k_vot s0))) s0 (cp_round cp) HT0) as HT.
  set (s := jump_until _ s0 _) in *.
  destruct ((v_r (k_vot s) =? cp_round cp) && (v_h (k_vot s) =? hd_height hd)) eqn:Hpos; cbn [negb]; [|discriminate].
  apply andb_true_iff in Hpos as [Hr Hh]. apply N.eqb_eq in Hr, Hh.
  pose proof HK as (HI&_&(_&(_&Nv&_)&_&_&Xs)).
  destruct (hd_ok hd) eqn:Hok; cbn [negb]; [|apply Hsame].
  destruct (negb (hd_height hd =? k_init_h s) && negb (bytes_eqb (hd_prev hd) (chdr_hash s))) eqn:Hprev; [apply Hsame|].
  destruct (valset_equal (hd_vals hd) (v_vals (k_vot s)) && vs_ok (hd_vals hd)) eqn:Hveq; cbn [negb]; [|apply Hsame].
  apply andb_true_iff in Hveq as [Hveq _]. destruct (valset_equal_keys _ _ Hveq) as [Hkeys' Hpows].
  assert (Hvals : pow_ok (hd_vals hd)).
  { eapply valset_equal_pow_ok; [exact Hveq|].
    destruct HI as (_&_&[[Savail _] _]&_). destruct HT as [([A1 _]&_) _].
    unfold pow_ok. rewrite <- Savail. lia. }
  destruct (vs_ok (hd_next hd)) eqn:Hnext; cbn [negb]; [|apply Hsame].
  destruct (fold_left _ (signed_entries (cp_proofs cp)) ([], true)) as [temp allv] eqn:Hf.
  destruct allv; cbn [negb]; [|apply Hsame].
  destruct (pm_get temp (hd_hash hd)) as [hp|] eqn:Hg; [|apply Hsame].
  assert (Htnn : temp <> []) by (intros E; rewrite E in Hg; discriminate).
  unfold bind at 1. destruct (byz_majority _); [|discriminate].
  destruct (_ <? _); [apply Hsame|].
  fold (replay_insert s hd (cp_round cp)).
  unfold bind at 1. destruct (replay_insert s hd (cp_round cp)) as [s1|] eqn:Hins; [|discriminate].
  destruct (K_replay_insert ih ivs s hd (cp_round cp) s1 HK Hh Hr Hok Hnext Hb Hprev Hvals Hn Hkeys Hins) as [K1 P1].
  destruct (auth_replay_insert _ _ _ _ (proj1 (proj2 HI)) Hins) as (_&E1&E2&E3&E4).
  assert (Htemp : auth_pmap (vs_keys (v_vals (k_vot s1))) KPrecommit (v_h (k_vot s1)) (v_r (k_vot s1)) temp).
  { rewrite E1, E2, E3, Hr, Hh, <- Hkeys'. eapply replay_temp_auth; [| |exact Hf].
    - destruct HI as (_&(_&[_ Hvpc]&_)&_). rewrite Hkeys', <- Hr, <- Hh. exact Hvpc.
    - apply auth_pmap_nil. }
  assert (Htne : ne_pmap temp).
  { eapply replay_temp_ne; [exact Hf|apply signed_entries_nonempty|intros t p []]. }
  assert (Htnd : nd_pmap temp).
  { eapply replay_temp_nd; [| |exact Hf]; [|intros t p []].
    pose proof HK as (_&_&(_&_&_&(_&(((_&_)&(_&B2)&_)&_))&_)). exact B2. }
  intros Hfin. fold (replay_store s1 hd cp temp) in Hfin.
  destruct (K_replay_store ih ivs s1 hd cp temp s' res K1 (eq_trans E2 Hr) (eq_trans E1 Hh) Htemp Htne Htnn Htnd Hfin) as [K2 P2].
  split; [exact K2|]. eapply pref_trans; [exact P0|]. eapply pref_trans; eassumption.
Qed.
