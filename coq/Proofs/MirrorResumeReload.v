(** C10, "without loss": what a view held is held again after a restart.

    For a reachable state [s] and the state [s'] after a clean restart that is at the same stored
    position: the voting and the next-round view of [s'] hold, target by target, every signer
    the corresponding view of [s] held (prevotes and precommits) - in fact exactly the same signer
    sets when the view of [s] held any vote of that kind -, and for every proposed header of the
    view of [s] a proposed header with the same hash (a replayed header is handed back by the
    round store only if its block has a stored precommit).  Whatever the position of [s'], the
    round store and the replayed headers are untouched by start-up and no committed header is
    lost: when the restarted node is AHEAD (known finding) the votes are still in the round
    store, only not in a view. *)
From Coq Require Import List NArith Arith Bool Lia String ZArith.
From GV Require Import Base.Ints Gen.Math Gen.Kernel Model.Mirror
  Proofs.Thresholds Proofs.MirrorAuth Proofs.MirrorNoop Proofs.MirrorChain Proofs.MirrorCert
  Proofs.MirrorTotal Proofs.MirrorRestart Proofs.MirrorLog
  Proofs.MirrorResumeWit Proofs.MirrorResumeLoad Proofs.MirrorResumeRT Proofs.MirrorResumeInv Proofs.MirrorResumeStart
  Proofs.MirrorResumeAhead Proofs.MirrorResumeOps Proofs.MirrorResumeOps2 Proofs.MirrorResumeOps3 Proofs.MirrorResumeOps4
  Proofs.MirrorResumeOps5 Proofs.MirrorResumeAhead2 Proofs.MirrorResume.
Import ListNotations.
Local Open Scope N_scope.

(** * The start-up re-evaluation either moves the position or changes nothing *)
Lemma wrap32_succ2_neq r : wrap32 (wrap32 (r + 1) + 1) <> r.
Proof.
  unfold wrap32. intros E.
  assert (H1 : (r + 1) mod two32 < two32) by (apply N.mod_upper_bound; unfold two32; lia).
  assert (H2 : ((r + 1) mod two32 + 1) mod two32 < two32) by (apply N.mod_upper_bound; unfold two32; lia).
  destruct (N.lt_ge_cases r two32) as [Hlt|Hge]; [|lia].
  destruct (N.eq_dec (r + 1) two32) as [E1|Hne].
  - rewrite E1, N.mod_same in E by (unfold two32; lia). rewrite N.mod_small in E by (unfold two32; lia). unfold two32 in *. lia.
  - rewrite (N.mod_small (r + 1)) in E by lia.
    destruct (N.eq_dec (r + 1 + 1) two32) as [E2|Hne2].
    + rewrite E2, N.mod_same in E by (unfold two32; lia). unfold two32 in *. lia.
    + rewrite N.mod_small in E by lia. lia.
Qed.

Lemma check_voting_cases s s' : check_voting_precommit_shift s = Ok s' ->
  s' = s \/ s' = advance_voting_round s \/ exists p, In p (v_phs (k_vot s)) /\ s' = shift_voting_to_committing s (ph_hdr p).
Proof.
  unfold check_voting_precommit_shift, bind. destruct (byz_majority _); [|discriminate].
  destruct (_ <? _).
  - destruct (_ =? _); intros E; inversion E; auto.
  - destruct (sm_mpc _); [intros E; inversion E; auto|].
    destruct (find _ _) as [p|] eqn:Hf; intros E; inversion E; auto.
    right; right. exists p. split; [eapply find_in; exact Hf|reflexivity].
Qed.

Definition same_pos (a b : kstate) : Prop := v_h (k_vot a) = v_h (k_vot b) /\ v_r (k_vot a) = v_r (k_vot b).

Lemma advance_pos ih ivs s : cinv ih ivs s ->
  v_h (k_vot (advance_voting_round s)) = v_h (k_vot s) /\ v_r (k_vot (advance_voting_round s)) = wrap32 (v_r (k_vot s) + 1).
Proof. intros (_&_&_&Hnh&Hnr&_). unfold advance_voting_round, update_observers, increment_voting_round. cbn. split; assumption. Qed.

Lemma jump_pos ih ivs s : cinv ih ivs s ->
  v_h (k_vot (jump_voting_round s)) = v_h (k_vot s) /\ v_r (k_vot (jump_voting_round s)) = wrap32 (v_r (k_vot s) + 1).
Proof. intros (_&_&_&Hnh&Hnr&_). unfold jump_voting_round, update_observers, increment_voting_round. cbn. split; assumption. Qed.

Lemma shift_pos ih ivs s p : cinv ih ivs s -> In p (v_phs (k_vot s)) ->
  v_h (k_vot (shift_voting_to_committing s (ph_hdr p))) = v_h (k_vot s) + 1.
Proof.
  intros Hc Hin. destruct (shift_hdrs ih ivs s p Hc Hin) as (_&_&_&_&Hb).
  unfold shift_voting_to_committing, update_observers. cbn. unfold wrap64. apply N.mod_small. exact Hb.
Qed.

(** a result of [check_voting_precommit_shift] other than the state itself is at another position *)
Lemma check_voting_moves ih ivs s s' : cinv ih ivs s -> check_voting_precommit_shift s = Ok s' ->
  s' = s \/ (v_h (k_vot s') = v_h (k_vot s) + 1) \/
  (v_h (k_vot s') = v_h (k_vot s) /\ v_r (k_vot s') = wrap32 (v_r (k_vot s) + 1)).
Proof.
  intros Hc E. destruct (check_voting_cases s s' E) as [->|[->|(p&Hin&->)]].
  - left; reflexivity.
  - right; right. apply (advance_pos ih ivs); exact Hc.
  - right; left. apply (shift_pos ih ivs); assumption.
Qed.

Lemma recheck_same_pos ih ivs s s' :
  cinv ih ivs s -> recheck_view_shifts s = Ok s' -> same_pos s' s -> s' = s.
Proof.
  intros Hc. unfold recheck_view_shifts, bind, same_pos.
  destruct (check_voting_precommit_shift s) as [s1|] eqn:E1; [|discriminate].
  pose proof (wrap32_succ_neq (v_r (k_vot s))) as N1. pose proof (wrap32_succ2_neq (v_r (k_vot s))) as N2.
  destruct (check_voting_moves ih ivs s s1 Hc E1) as [->|[Hm|[Hm1 Hm2]]].
  2:{ destruct (N.eqb_spec (v_h (k_vot s1)) (v_h (k_vot s))) as [Eh|_]; [lia|]. cbn [andb negb].
      intros E; inversion E; subst. intros [A _]. lia. }
  2:{ destruct (N.eqb_spec (v_r (k_vot s1)) (v_r (k_vot s))) as [Er|_]; [congruence|]. rewrite andb_false_r. cbn [negb].
      intros E; inversion E; subst. intros [_ B]. congruence. }
  rewrite !N.eqb_refl. cbn [andb negb].
  destruct (check_next_round_precommit_shift s) as [s2|] eqn:E2; [|discriminate].
  assert (H2 : s2 = s \/ ~ same_pos s2 s).
  { revert E2. unfold check_next_round_precommit_shift, bind.
    destruct (byz_minority _); [|discriminate]. destruct (_ <? _); [intros E; inversion E; left; reflexivity|].
    destruct (byz_majority _); [|discriminate].
    destruct (jump_pos ih ivs s Hc) as [J1 J2].
    destruct (_ <=? _).
    - intros E. right. unfold same_pos.
      destruct (check_voting_moves ih ivs _ s2 (cinv_jump ih ivs s Hc) E) as [->|[Hm|[Hm1 Hm2]]]; intros [A B].
      + rewrite J2 in B. exact (N1 B).
      + lia.
      + rewrite J2 in Hm2. rewrite Hm2 in B. exact (N2 B).
    - intros E; inversion E; subst. right. intros [A B]. congruence. }
  destruct H2 as [->|Hn].
  - rewrite !N.eqb_refl. cbn [andb negb]. unfold check_prevote_shift, bind.
    destruct (byz_minority _); [|discriminate]. destruct (_ <? _); intros E; inversion E; subst; [reflexivity|].
    destruct (jump_pos ih ivs s Hc) as [J1 J2]. intros [A B]. congruence.
  - destruct ((v_h (k_vot s2) =? v_h (k_vot s)) && (v_r (k_vot s2) =? v_r (k_vot s))) eqn:Ep; cbn [negb].
    + exfalso. apply Hn. apply andb_true_iff in Ep as [A B]. apply N.eqb_eq in A, B. split; assumption.
    + intros E; inversion E; subst. intros Hp. contradiction.
Qed.

(** the re-evaluation never touches the round store or the replayed headers *)
Lemma check_voting_rounds s s' : check_voting_precommit_shift s = Ok s' ->
  st_rounds s' = st_rounds s /\ st_replayed s' = st_replayed s.
Proof.
  intros E. destruct (check_voting_cases s s' E) as [->|[->|(p&_&->)]]; split; reflexivity.
Qed.

Lemma recheck_rounds s s' : recheck_view_shifts s = Ok s' ->
  st_rounds s' = st_rounds s /\ st_replayed s' = st_replayed s.
Proof.
  unfold recheck_view_shifts, bind.
  destruct (check_voting_precommit_shift s) as [s1|] eqn:E1; [|discriminate].
  destruct (check_voting_rounds _ _ E1) as [A1 B1].
  destruct (negb _); [intros E; inversion E; subst; split; assumption|].
  destruct (check_next_round_precommit_shift s1) as [s2|] eqn:E2; [|discriminate].
  assert (H2 : st_rounds s2 = st_rounds s1 /\ st_replayed s2 = st_replayed s1).
  { revert E2. unfold check_next_round_precommit_shift, bind.
    destruct (byz_minority _); [|discriminate]. destruct (_ <? _); [intros E; inversion E; split; reflexivity|].
    destruct (byz_majority _); [|discriminate]. destruct (_ <=? _).
    - intros E. destruct (check_voting_rounds _ _ E) as [A B]. split; [rewrite A|rewrite B]; reflexivity.
    - intros E; inversion E; split; reflexivity. }
  destruct H2 as [A2 B2].
  destruct (negb _); [intros E; inversion E; subst; split; congruence|].
  unfold check_prevote_shift, bind. destruct (byz_minority _); [|discriminate].
  destruct (_ <? _); intros E; inversion E; subst; [split; congruence|].
  split; [change (st_rounds s2 = st_rounds s)|change (st_replayed s2 = st_replayed s)]; congruence.
Qed.

(** * What a reloaded view holds *)
Definition votes_held_again (V L : view) : Prop :=
  forall kind t p i, (kind = KPrevote \/ kind = KPrecommit) ->
    pm_get (view_votes kind V) t = Some p -> In i (map fst p) ->
    exists p', pm_get (view_votes kind L) t = Some p' /\ In i (map fst p').

(** a replayed header is handed back by the round store only with a stored precommit for its
    (non-empty) hash: LoadRoundState's filter *)
Definition phs_held_again (rp : list hdr) (V L : view) : Prop :=
  forall p, In p (v_phs V) ->
    (exists q, In q (v_phs L) /\ hd_hash (ph_hdr q) = hd_hash (ph_hdr p)) \/
    (exists x, In x rp /\ hd_height x = v_h V /\ hd_hash x = hd_hash (ph_hdr p) /\
               (hd_hash (ph_hdr p) = [] \/ pm_get (v_pc V) (hd_hash (ph_hdr p)) = None)).

Lemma reload_votes kind rs V L :
  (kind = KPrevote \/ kind = KPrecommit) ->
  vrel kind V (coll_of (rs_entry rs (v_h V) (v_r V)) kind) ->
  to_full_map kind (v_h L) (v_r L) (vs_keys (v_vals L)) (coll_of (rs_entry rs (v_h L) (v_r L)) kind) = Ok (view_votes kind L) ->
  v_h L = v_h V -> v_r L = v_r V -> v_vals L = v_vals V ->
  view_votes kind V <> [] ->
  exists entries pkh, coll_of (rs_entry rs (v_h V) (v_r V)) kind = Some (pkh, entries) /\
    to_full_entries kind (v_h V) (v_r V) (vs_keys (v_vals V)) entries = Ok (view_votes kind L) /\
    pmeq (view_votes kind L) (view_votes kind V).
Proof.
  intros Hk [E|(pkh&entries&pm'&Ecell&Etf&Hpm)] Hl Eh Er Ev Hne; [contradiction|].
  rewrite Eh, Er, Ev, Ecell in Hl.
  assert (Eload : view_votes kind L = pm').
  { unfold to_full_map in Hl.
    destruct (vs_keys (v_vals V)) as [|k0 kl] eqn:Ek; [destruct entries as [|e0 el]; [|discriminate]|];
      rewrite Etf in Hl; inversion Hl; reflexivity. }
  exists entries, pkh. split; [exact Ecell|]. rewrite Eload. split; [exact Etf|exact Hpm].
Qed.

Lemma reload_view rs rp V L :
  yview rs rp V -> loadedview rs rp L ->
  v_h L = v_h V -> v_r L = v_r V -> v_vals L = v_vals V ->
  votes_held_again V L /\ phs_held_again rp V L.
Proof.
  intros (_&_&_&Rpv&Rpc&Pm) (Lpv&Lpc&Lphs) Eh Er Ev. split.
  - intros kind t p i Hk Hg Hi.
    assert (Hne : view_votes kind V <> []) by (intros E; rewrite E in Hg; discriminate).
    assert (Hpm : pmeq (view_votes kind L) (view_votes kind V)).
    { destruct Hk as [->| ->].
      - destruct (reload_votes KPrevote rs V L (or_introl eq_refl) Rpv Lpv Eh Er Ev Hne) as (_&_&_&_&H). exact H.
      - destruct (reload_votes KPrecommit rs V L (or_intror eq_refl) Rpc Lpc Eh Er Ev Hne) as (_&_&_&_&H). exact H. }
    specialize (Hpm t). rewrite Hg in Hpm.
    destruct (pm_get (view_votes kind L) t) as [p'|]; [|destruct Hpm].
    exists p'. split; [reflexivity|apply Hpm; exact Hi].
  - intros p Hp. rewrite Lphs, Eh, Er. unfold round_phs.
    destruct (Pm p Hp) as [(q&Hq&Eq)|(x&Hx&Hxh&Hxhash)].
    + left. exists q. split; [apply in_or_app; left; exact Hq|exact Eq].
    + destruct (hd_hash (ph_hdr p)) as [|b bs] eqn:Ehash.
      { right. exists x. repeat split; try assumption. left; reflexivity. }
      destruct (pm_get (v_pc V) (b :: bs)) as [pf|] eqn:Hpf.
      2:{ right. exists x. repeat split; try assumption. right; reflexivity. }
      left. exists (fake_ph x 0). split; [|exact Hxhash]. apply in_or_app; right.
      assert (Hne : view_votes KPrecommit V <> []) by (cbn; intros E; rewrite E in Hpf; discriminate).
      destruct (reload_votes KPrecommit rs V L (or_intror eq_refl) Rpc Lpc Eh Er Ev Hne) as (entries&pkh&Ecell&Etf&Hpm).
      cbn [coll_of N.eqb KPrevote KPrecommit Pos.eqb] in Ecell. rewrite Ecell.
      cbn [view_votes N.eqb KPrevote KPrecommit Pos.eqb] in Hpm, Etf.
      specialize (Hpm (b :: bs)). rewrite Hpf in Hpm.
      destruct (pm_get (v_pc L) (b :: bs)) as [pf'|] eqn:Hg'; [|destruct Hpm].
      destruct (to_full_entries_keys _ _ _ _ _ _ _ _ Etf Hg') as (sigs&Hsigs).
      apply in_flat_map. exists (b :: bs, sigs). split; [exact Hsigs|]. cbn [fst].
      apply (in_map (fun x1 => fake_ph x1 0)). apply filter_In. split; [exact Hx|].
      rewrite Hxh, N.eqb_refl, Hxhash. cbn [andb]. apply bytes_eqb_refl.
Qed.

(** * The theorem *)
Definition reloaded (s s' : kstate) : Prop :=
  (st_rounds s' = st_rounds s /\ st_replayed s' = st_replayed s /\
   forall h x, In (h, x) (st_hdrs s) -> In (h, x) (st_hdrs s')) /\
  (st_nhr s' = st_nhr s ->
     (votes_held_again (k_vot s) (k_vot s') /\ phs_held_again (st_replayed s) (k_vot s) (k_vot s')) /\
     (votes_held_again (k_nxt s) (k_nxt s') /\ phs_held_again (st_replayed s) (k_nxt s) (k_nxt s'))).

Lemma restart_reloads_gen ih ivs s vals log s' :
  1 <= ih -> vwf ivs -> K ih ivs s ->
  restart ih ivs (stores_of s) vals log = Ok s' -> reloaded s s'.
Proof.
  intros Hih Hivs HK Hx.
  pose proof HK as ((Hc&_)&_&(_&_&_&(_&(Yv&Yn))&HSI)).
  pose proof Hc as (Hi1&Hi2&_&Hnh&Hnr&_).
  destruct (restart_from ih ivs (stores_of s) vals log Hih Hivs HSI) as (s2&E2&_&_&(Hhd&_)).
  rewrite Hx in E2. inversion E2; subst s2. clear E2.
  destruct (restart_on_SI ih ivs (stores_of s) vals log Hih Hivs HSI)
    as (s0&s1&Er&Ec&Es&_&_&I0&_&_&_&_&_&L0&_&_&_).
  rewrite Er in Hx. inversion Hx; subst s'. clear Hx.
  destruct (recheck_rounds _ _ Ec) as [R1 R2].
  assert (Ers : st_rounds s0 = st_rounds s) by (apply (f_equal sr_rounds) in Es; exact Es).
  assert (Erp : st_replayed s0 = st_replayed s) by (apply (f_equal sr_replayed) in Es; exact Es).
  split.
  { split; [change (st_rounds s1 = st_rounds s); congruence|]. split; [change (st_replayed s1 = st_replayed s); congruence|exact Hhd]. }
  intros Hpos. destruct I0 as (Hc0&_). pose proof Hc0 as (_&_&_&Hnh0&Hnr0&_).
  assert (Enhr : st_nhr s0 = st_nhr s) by (apply (f_equal sr_nhr) in Es; exact Es).
  rewrite (cinv_nhr _ _ _ Hc0), (cinv_nhr _ _ _ Hc) in Enhr. inversion Enhr as [[Eh Er0 Ech Ecr]]. clear Enhr.
  assert (Hsame : s1 = s0).
  { apply (recheck_same_pos ih ivs s0 s1 Hc0 Ec).
    unfold update_observers in Hpos. cbn [st_nhr log_w set_nhr] in Hpos. rewrite (cinv_nhr _ _ _ Hc) in Hpos.
    inversion Hpos as [[A B C D]]. split; congruence. }
  subst s1. change (k_vot (update_observers s0)) with (k_vot s0). change (k_nxt (update_observers s0)) with (k_nxt s0).
  destruct (vot_vals _ _ _ Hc0) as [Ev0 En0]. destruct (vot_vals _ _ _ Hc) as [Evm Enm].
  assert (Ehd : st_hdrs s0 = st_hdrs s) by (apply (f_equal sr_hdrs) in Es; exact Es).
  destruct L0 as [Lv Ln]. rewrite Ers, Erp in Lv, Ln.
  split.
  - apply (reload_view (st_rounds s) (st_replayed s)); try assumption. rewrite Ev0, Evm, Ehd, Eh. reflexivity.
  - apply (reload_view (st_rounds s) (st_replayed s)); try assumption; try congruence; try (rewrite En0, Enm, Ehd, Eh; reflexivity).
Qed.

(** after a clean restart *)
Theorem restart_reloads ih ivs s s' :
  1 <= ih -> vwf ivs -> reachable_g ih ivs s -> xstep s XRestart = Ok (s', 0) -> reloaded s s'.
Proof.
  intros Hih Hivs Hr Hx. destruct (reachable_g_K ih ivs s Hih Hivs Hr) as [HK _].
  pose proof HK as ((Hc&_)&_). destruct Hc as (Hi1&Hi2&_).
  cbn [xstep] in Hx. rewrite Hi1, Hi2 in Hx.
  destruct (restart ih ivs (stores_of s) (st_vals s) (st_log s)) as [s2|] eqn:E; cbn [bind] in Hx; [|discriminate].
  inversion Hx; subst s2. eapply restart_reloads_gen; eassumption.
Qed.

(** after a crash that let every write of the operation land: relative to the state the
    uninterrupted operation produces *)
Theorem crash_after_all_writes_reloads ih ivs s o s1 r k s' :
  1 <= ih -> vwf ivs -> reachable_g ih ivs s -> step s o = Ok (s1, r) -> wf_op o r ->
  (List.length (st_log s1) - List.length (st_log s) <= k)%nat ->
  xstep s (XCrash k o) = Ok (s', r) -> reloaded s1 s'.
Proof.
  intros Hih Hivs Hr Hs Hw Hk Hx.
  assert (Hr1 : reachable_g ih ivs s1) by (eapply (rg_step ih ivs s (XOp o)); [exact Hr|exact Hw|exact Hs]).
  destruct (reachable_g_K ih ivs s1 Hih Hivs Hr1) as [HK1 _].
  destruct (reachable_g_K ih ivs s Hih Hivs Hr) as [((Hc&_)&_) _]. destruct Hc as (Hi1&Hi2&_).
  rewrite (crash_after_all_writes_is_clean_restart s o s1 r k Hs Hk) in Hx. rewrite Hi1, Hi2 in Hx.
  destruct (restart ih ivs (stores_of s1) (st_vals s) (st_log s1)) as [s2|] eqn:E; cbn [bind] in Hx; [|discriminate].
  inversion Hx; subst s2. eapply restart_reloads_gen; eassumption.
Qed.

(** the view / round-store correspondence is an invariant of every reachable state
    (operations, restarts, crashes at every point) *)
Theorem reachable_correspondence ih ivs s :
  1 <= ih -> vwf ivs -> reachable_g ih ivs s -> Y s.
Proof.
  intros Hih Hivs Hr. destruct (reachable_g_K ih ivs s Hih Hivs Hr) as [(_&_&(_&_&_&(_&HY)&_)) _]. exact HY.
Qed.
