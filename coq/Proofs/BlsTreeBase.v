(** C13 (BLS tree) - arithmetic of the array layout, array lemmas, key closed form. *)
From Coq Require Import List NArith ZArith String Bool Lia Arith.
From GV Require Import Base.Ints Model.SimpleProofBase Model.BlsTree.
Import ListNotations.
Local Open Scope N_scope.

(* ------------------------------------------------------------------ arrays *)
Lemma nth_error_upd : forall A (l : list A) i j v,
  nth_error (upd l i v) j = if Nat.eqb i j then (if Nat.ltb i (List.length l) then Some v else None) else nth_error l j.
Proof.
  induction l as [|x l IH]; intros i j v.
  - cbn. destruct (Nat.eqb i j); destruct j; destruct i; reflexivity.
  - destruct i, j; cbn [upd nth_error Nat.eqb]; try reflexivity.
    rewrite IH. destruct (Nat.eqb i j); [|reflexivity].
    cbn [List.length]. destruct (Nat.ltb i (List.length l)) eqn:E.
    + apply Nat.ltb_lt in E. replace (Nat.ltb (S i) (S (List.length l))) with true; [reflexivity|].
      symmetry. apply Nat.ltb_lt. lia.
    + apply Nat.ltb_ge in E. replace (Nat.ltb (S i) (S (List.length l))) with false; [reflexivity|].
      symmetry. apply Nat.ltb_ge. lia.
Qed.

Lemma upd_length : forall A (l : list A) i v, List.length (upd l i v) = List.length l.
Proof. induction l; intros [|i] v; cbn; auto. Qed.

Lemma lenN_updN : forall A (l : list A) i v, lenN (updN l i v) = lenN l.
Proof. intros. unfold lenN, updN. now rewrite upd_length. Qed.

Lemma nthN_updN_same : forall A (l : list A) i v, i < lenN l -> nthN (updN l i v) i = Some v.
Proof.
  intros. unfold nthN, updN, lenN in *. rewrite nth_error_upd, Nat.eqb_refl.
  replace (Nat.ltb (N.to_nat i) (List.length l)) with true; [reflexivity|].
  symmetry. apply Nat.ltb_lt. lia.
Qed.

Lemma nthN_updN_other : forall A (l : list A) i j v, i <> j -> nthN (updN l i v) j = nthN l j.
Proof.
  intros. unfold nthN, updN. rewrite nth_error_upd.
  destruct (Nat.eqb (N.to_nat i) (N.to_nat j)) eqn:E; [|reflexivity].
  apply Nat.eqb_eq in E. lia.
Qed.

Lemma nthN_some_lt : forall A (l : list A) i x, nthN l i = Some x -> i < lenN l.
Proof.
  intros. unfold nthN, lenN in *.
  assert (nth_error l (N.to_nat i) <> None) by congruence.
  apply nth_error_Some in H0. lia.
Qed.

Lemma nthN_lt_some : forall A (l : list A) i, i < lenN l -> exists x, nthN l i = Some x.
Proof.
  intros. unfold nthN, lenN in *.
  destruct (nth_error l (N.to_nat i)) eqn:E; [eauto|].
  apply nth_error_None in E. lia.
Qed.

Lemma nthN_repeatN : forall A (x : A) n i, i < n -> nthN (repeatN x n) i = Some x.
Proof.
  intros. unfold nthN, repeatN.
  assert (H1 : (N.to_nat i < N.to_nat n)%nat) by lia. revert H1.
  generalize (N.to_nat i) (N.to_nat n). intros a b. revert a.
  induction b; intros a Ha; [lia|]. destruct a; cbn; [reflexivity|]. apply IHb. lia.
Qed.

Lemma lenN_repeatN : forall A (x : A) n, lenN (repeatN x n) = n.
Proof. intros. unfold lenN, repeatN. rewrite repeat_length. lia. Qed.

Lemma listN_eqb_eq : forall a b, listN_eqb a b = true <-> a = b.
Proof.
  induction a as [|x a IH]; destruct b as [|y b]; cbn; split; intro H; try congruence; try discriminate.
  - apply andb_true_iff in H. destruct H as [H1 H2]. apply N.eqb_eq in H1. apply IH in H2. congruence.
  - inversion H; subst. rewrite N.eqb_refl. cbn. now apply IH.
Qed.

Lemma listN_eqb_refl : forall a, listN_eqb a a = true.
Proof. intro. now apply listN_eqb_eq. Qed.

Lemma bsig_eqb_eq : forall a b, bsig_eqb a b = true <-> a = b.
Proof.
  intros a b. destruct a, b; cbn; split; intro H; try congruence; try discriminate.
  - apply andb_true_iff in H. destruct H as [H1 H2]. apply N.eqb_eq in H1. apply listN_eqb_eq in H2. congruence.
  - inversion H; subst. now rewrite N.eqb_refl, listN_eqb_refl.
  - apply N.eqb_eq in H. congruence.
  - inversion H. apply N.eqb_refl.
  - apply N.eqb_eq in H. congruence.
  - inversion H. apply N.eqb_refl.
Qed.

Lemma key_eqb_eq : forall a b, key_eqb a b = true <-> a = b.
Proof.
  intros a b. destruct a as [x|], b as [y|]; cbn; split; intro H; try congruence; try discriminate.
  - apply listN_eqb_eq in H. congruence.
  - inversion H. apply listN_eqb_refl.
Qed.

(* ------------------------------------------------------------------ ranges *)
Lemma rangeN_aux_app : forall a b lo, rangeN_aux (a + b) lo = rangeN_aux a lo ++ rangeN_aux b (lo + N.of_nat a).
Proof.
  induction a; intros b lo; cbn [rangeN_aux plus app].
  - f_equal. lia.
  - f_equal. rewrite IHa. f_equal. f_equal. lia.
Qed.

Lemma rangeN_app : forall lo a b, rangeN lo (a + b) = rangeN lo a ++ rangeN (lo + a) b.
Proof.
  intros. unfold rangeN. rewrite N2Nat.inj_add, rangeN_aux_app. now rewrite N2Nat.id.
Qed.

Lemma rangeN_aux_In : forall c lo x, In x (rangeN_aux c lo) <-> lo <= x < lo + N.of_nat c.
Proof.
  induction c; intros lo x; cbn [rangeN_aux In].
  - lia.
  - rewrite IHc. lia.
Qed.

Lemma rangeN_In : forall lo c x, In x (rangeN lo c) <-> lo <= x < lo + c.
Proof. intros. unfold rangeN. rewrite rangeN_aux_In. lia. Qed.

Lemma rangeN_nil : forall lo c, rangeN lo c = [] <-> c = 0.
Proof.
  intros. unfold rangeN. split; intro H.
  - destruct (N.to_nat c) eqn:E; [lia|discriminate].
  - subst. reflexivity.
Qed.

Lemma rangeN_aux_length : forall c lo, List.length (rangeN_aux c lo) = c.
Proof. induction c; intros; cbn; auto. Qed.

Lemma nth_rangeN_aux : forall c lo i, (i < c)%nat -> nth_error (rangeN_aux c lo) i = Some (lo + N.of_nat i).
Proof.
  induction c; intros lo i Hi; [lia|]. destruct i; cbn [rangeN_aux nth_error].
  - f_equal. lia.
  - rewrite IHc by lia. f_equal. lia.
Qed.

(* ------------------------------------------------------------------ powers of two *)
Fixpoint p2 (k : nat) : N := match k with O => 1 | S k' => 2 * p2 k' end.

Lemma p2_pos : forall k, 1 <= p2 k.
Proof. induction k; cbn [p2]; lia. Qed.

Lemma p2_mono : forall a b, (a <= b)%nat -> p2 a <= p2 b.
Proof.
  intros a b H. induction H; [lia|]. cbn [p2]. pose proof (p2_pos m). lia.
Qed.

Lemma p2_S_le : forall a b, (a < b)%nat -> 2 * p2 a <= p2 b.
Proof. intros. change (2 * p2 a) with (p2 (S a)). apply p2_mono. lia. Qed.

Lemma p2_add : forall a b, p2 (a + b) = p2 a * p2 b.
Proof. induction a; intros; cbn [p2 plus]; [lia|]. rewrite IHa. lia. Qed.

Lemma p2_split : forall h d, (d <= h)%nat -> p2 d * p2 (h - d) = p2 h.
Proof. intros. rewrite <- p2_add. f_equal. lia. Qed.

Lemma p2_gt : forall k, N.of_nat k < p2 k.
Proof. induction k; cbn [p2]; lia. Qed.

(** start of the layer whose width is [p2 d] in a tree with leaf width [p2 h] *)
Definition lstart (h d : nat) : N := 2 * p2 h - 2 * p2 d.

Lemma lstart_h : forall h, lstart h h = 0.
Proof. intros. unfold lstart. lia. Qed.

Lemma lstart_S : forall h d, (S d <= h)%nat -> lstart h d = lstart h (S d) + p2 (S d).
Proof.
  intros. unfold lstart. cbn [p2]. pose proof (p2_mono (S d) h H). cbn [p2] in H0. lia.
Qed.

Lemma lstart_bound : forall h d off, (d <= h)%nat -> off < p2 d -> lstart h d + off < 2 * p2 h - 1.
Proof.
  intros. unfold lstart. pose proof (p2_mono d h H). pose proof (p2_pos d). lia.
Qed.

(** Every array index is a unique (layer, offset). *)
Lemma node_unique : forall h d off d' off',
  (d <= h)%nat -> (d' <= h)%nat -> off < p2 d -> off' < p2 d' ->
  lstart h d + off = lstart h d' + off' -> d = d' /\ off = off'.
Proof.
  intros h d off d' off' Hd Hd' Ho Ho' E.
  pose proof (p2_mono d h Hd). pose proof (p2_mono d' h Hd').
  destruct (lt_eq_lt_dec d d') as [[L|L]|L].
  - exfalso. pose proof (p2_S_le d d' L). unfold lstart in E. lia.
  - subst. split; [reflexivity|]. lia.
  - exfalso. pose proof (p2_S_le d' d L). unfold lstart in E. lia.
Qed.

Lemma node_exists_from : forall h d idx,
  (d <= h)%nat -> lstart h d <= idx -> idx < 2 * p2 h - 1 ->
  exists d' off, (d' <= d)%nat /\ off < p2 d' /\ idx = lstart h d' + off.
Proof.
  induction d; intros idx Hd Hlo Hhi.
  - exists O, 0. cbn [p2]. split; [lia|]. split; [lia|]. unfold lstart in *. cbn [p2] in *. lia.
  - destruct (N.ltb idx (lstart h (S d) + p2 (S d))) eqn:E.
    + apply N.ltb_lt in E. exists (S d), (idx - lstart h (S d)). split; [lia|]. split; lia.
    + apply N.ltb_ge in E. rewrite <- lstart_S in E by lia.
      destruct (IHd idx) as (d' & off & H1 & H2 & H3); try lia.
      exists d', off. split; [lia|]. auto.
Qed.

Lemma node_exists : forall h idx, idx < 2 * p2 h - 1 ->
  exists d off, (d <= h)%nat /\ off < p2 d /\ idx = lstart h d + off.
Proof.
  intros. destruct (node_exists_from h h idx) as (d & off & A & B & C); try lia.
  - rewrite lstart_h. lia.
  - eauto.
Qed.

(** The layer search loop finds the layer of [idx]. *)
Lemma shiftr1_p2 : forall d, N.shiftr (p2 (S d)) 1 = p2 d.
Proof.
  intros. rewrite N.shiftr_div_pow2. cbn [p2]. change (2 ^ 1) with 2.
  rewrite N.mul_comm. apply N.div_mul. lia.
Qed.

Lemma shiftl1 : forall x, N.shiftl x 1 = 2 * x.
Proof. intros. rewrite N.shiftl_mul_pow2. change (2 ^ 1) with 2. lia. Qed.

Lemma locate_spec : forall h d0 fuel d off,
  (d <= d0)%nat -> (d0 <= h)%nat -> off < p2 d -> (d0 < fuel)%nat ->
  locate fuel (lstart h d + off) (lstart h d0) (p2 d0) (p2 (h - d0)) = Some (lstart h d, p2 d, p2 (h - d)).
Proof.
  induction d0; intros fuel d off Hd Hh Ho Hf.
  - assert (d = O) by lia. subst. destruct fuel; [lia|]. cbn [locate].
    replace (lstart h 0 + p2 0 <=? lstart h 0 + off) with false; [reflexivity|].
    symmetry. apply N.leb_gt. lia.
  - destruct fuel; [lia|]. cbn [locate].
    destruct (Nat.eq_dec d (S d0)) as [->|Hne].
    + replace (lstart h (S d0) + p2 (S d0) <=? lstart h (S d0) + off) with false; [reflexivity|].
      symmetry. apply N.leb_gt. lia.
    + assert (Hd' : (d <= d0)%nat) by lia.
      replace (lstart h (S d0) + p2 (S d0) <=? lstart h d + off) with true.
      * rewrite <- lstart_S by lia. rewrite shiftr1_p2, shiftl1.
        replace (2 * p2 (h - S d0)) with (p2 (h - d0)).
        -- apply IHd0; lia.
        -- replace (h - d0)%nat with (S (h - S d0)) by lia. reflexivity.
      * symmetry. apply N.leb_le. rewrite <- lstart_S by lia.
        unfold lstart. pose proof (p2_mono d d0 Hd'). pose proof (p2_mono d0 h). lia.
Qed.

(* ------------------------------------------------------------------ leaves_width: checked for every admitted size *)
Definition lw_ok (n : N) : bool :=
  existsb (fun k => N.eqb (leaves_width n) (p2 k) && (n <=? p2 k)) (seq 0 17).

Lemma lw_all : forallb lw_ok (rangeN 1 65535) = true.
Proof. vm_compute. reflexivity. Qed.

Lemma leaves_width_p2 : forall n, 1 <= n <= 65535 ->
  exists h, (h <= 16)%nat /\ leaves_width n = p2 h /\ n <= p2 h.
Proof.
  intros n Hn. pose proof lw_all as H. rewrite forallb_forall in H.
  specialize (H n). assert (In n (rangeN 1 65535)) by (apply rangeN_In; lia).
  apply H in H0. unfold lw_ok in H0. apply existsb_exists in H0. destruct H0 as (k & Hk & Hb).
  apply in_seq in Hk. apply andb_true_iff in Hb. destruct Hb as [A B].
  apply N.eqb_eq in A. apply N.leb_le in B. exists k. split; [lia|]. auto.
Qed.

(* ------------------------------------------------------------------ the key closed form *)
(** the aggregate key of the real leaves in [lo, lo+len) *)
Definition rkey (n lo len : N) : option bkey :=
  if lo <? n then Some (rangeN lo (N.min (lo + len) n - lo)) else None.

Lemma rkey_some_nonempty : forall n lo len ks, 1 <= len -> rkey n lo len = Some ks -> ks <> [].
Proof.
  unfold rkey. intros. destruct (lo <? n) eqn:E; [|discriminate]. apply N.ltb_lt in E.
  inversion H0; subst. intro C. apply rangeN_nil in C. lia.
Qed.

Lemma aggK_rkey : forall n lo len, aggK (rkey n lo len) (rkey n (lo + len) len) = rkey n lo (2 * len).
Proof.
  intros. unfold rkey, aggK.
  destruct (lo + len <? n) eqn:E1; destruct (lo <? n) eqn:E2;
    try apply N.ltb_lt in E1; try apply N.ltb_lt in E2; try apply N.ltb_ge in E1; try apply N.ltb_ge in E2; try lia.
  - f_equal. replace (N.min (lo + 2 * len) n - lo) with (len + (N.min (lo + len + len) n - (lo + len))) by lia.
    rewrite rangeN_app. f_equal. f_equal. lia.
  - f_equal. f_equal. lia.
  - reflexivity.
Qed.

Lemma nth_pair_up : forall row j,
  (2 * j + 1 < List.length row)%nat ->
  nth_error (pair_up row) j =
  match nth_error row (2 * j), nth_error row (2 * j + 1) with
  | Some a, Some b => Some (aggK a b)
  | _, _ => None
  end.
Proof.
  fix IH 1. intros row j Hj. destruct row as [|a [|b t]]; cbn [List.length] in Hj; try lia.
  destruct j.
  - reflexivity.
  - cbn [pair_up nth_error]. rewrite IH by (cbn [List.length] in *; lia).
    replace (2 * S j)%nat with (S (S (2 * j))) by lia.
    replace (S (S (2 * j)) + 1)%nat with (S (S (2 * j + 1))) by lia. reflexivity.
Qed.

Lemma pair_up_length : forall row k, List.length row = (2 * k)%nat -> List.length (pair_up row) = k.
Proof.
  fix IH 1. intros row k H. destruct row as [|a [|b t]]; cbn [List.length] in H.
  - destruct k; [reflexivity|lia].
  - lia.
  - destruct k; [lia|]. cbn [pair_up List.length]. f_equal. apply IH. cbn [List.length]. lia.
Qed.

(** a row of layer [d]: entry [off] is the key of the real leaves in the node's range *)
Definition row_ok (n : N) (h d : nat) (row : list (option bkey)) : Prop :=
  lenN row = p2 d /\ forall off, off < p2 d -> nthN row off = Some (rkey n (off * p2 (h - d)) (p2 (h - d))).

Lemma pair_up_row_ok : forall n h d row, (S d <= h)%nat -> row_ok n h (S d) row -> row_ok n h d (pair_up row).
Proof.
  intros n h d row Hd [HL HR]. split.
  - unfold lenN in *. cbn [p2] in HL.
    rewrite (pair_up_length row (N.to_nat (p2 d))); lia.
  - intros off Ho. unfold nthN. rewrite nth_pair_up by (unfold lenN in HL; cbn [p2] in HL; lia).
    assert (A : 2 * off < p2 (S d)) by (cbn [p2]; lia).
    assert (B : 2 * off + 1 < p2 (S d)) by (cbn [p2]; lia).
    pose proof (HR _ A) as RA. pose proof (HR _ B) as RB. unfold nthN in RA, RB.
    replace (2 * N.to_nat off)%nat with (N.to_nat (2 * off)) by lia.
    replace (N.to_nat (2 * off) + 1)%nat with (N.to_nat (2 * off + 1)) by lia.
    rewrite RA, RB. f_equal.
    replace (h - d)%nat with (S (h - S d)) by lia. cbn [p2].
    replace ((2 * off + 1) * p2 (h - S d)) with (2 * off * p2 (h - S d) + p2 (h - S d)) by lia.
    rewrite aggK_rkey. f_equal. lia.
Qed.

Lemma build_rows_spec : forall n h d fuel row,
  (d <= h)%nat -> (d < fuel)%nat -> row_ok n h d row ->
  lenN (build_rows fuel row) = 2 * p2 d - 1 /\
  forall d' off, (d' <= d)%nat -> off < p2 d' ->
    nthN (build_rows fuel row) (lstart h d' - lstart h d + off) = Some (rkey n (off * p2 (h - d')) (p2 (h - d'))).
Proof.
  induction d; intros fuel row Hd Hf Hrow.
  - destruct fuel; [lia|]. cbn [build_rows]. destruct Hrow as [HL HR]. cbn [p2] in *.
    destruct row as [|a [|b t]]; unfold lenN in HL; cbn [List.length] in HL; try lia.
    rewrite app_nil_r. split; [unfold lenN; cbn; lia|].
    intros d' off Hd' Ho. assert (d' = O) by lia. subst. cbn [p2] in Ho.
    replace (lstart h 0 - lstart h 0 + off) with off by lia. apply HR. cbn [p2]. lia.
  - destruct fuel; [lia|]. cbn [build_rows].
    pose proof Hrow as [HL HR].
    assert (Hlen2 : (2 <= List.length row)%nat).
    { unfold lenN in HL. cbn [p2] in HL. pose proof (p2_pos d). lia. }
    destruct row as [|a [|b t]]; cbn [List.length] in Hlen2; try lia.
    set (row := a :: b :: t) in *.
    destruct (IHd fuel (pair_up row)) as [IL IR]; try lia.
    { apply pair_up_row_ok; [lia|exact Hrow]. }
    split.
    + unfold lenN in *. rewrite app_length. cbn [p2] in *. lia.
    + intros d' off Hd' Ho. unfold nthN.
      destruct (Nat.eq_dec d' (S d)) as [->|Hne].
      * replace (lstart h (S d) - lstart h (S d) + off) with off by lia.
        rewrite nth_error_app1 by (unfold lenN in HL; lia). apply HR. exact Ho.
      * assert (Hd'' : (d' <= d)%nat) by lia.
        pose proof (p2_mono d' d Hd''). pose proof (p2_mono d h). pose proof (p2_mono (S d) h Hd). cbn [p2] in *.
        assert (E : lstart h d' - lstart h (S d) + off = p2 (S d) + (lstart h d' - lstart h d + off)).
        { unfold lstart. cbn [p2]. lia. }
        rewrite E. rewrite nth_error_app2 by (unfold lenN in HL; cbn [p2] in *; lia).
        replace (N.to_nat (p2 (S d) + (lstart h d' - lstart h d + off)) - List.length row)%nat
          with (N.to_nat (lstart h d' - lstart h d + off)) by (unfold lenN in HL; cbn [p2] in *; lia).
        apply IR; auto.
Qed.

Lemma leaf_row_ok : forall n h, 1 <= n -> n <= p2 h -> row_ok n h h (leaf_row n (p2 h)).
Proof.
  intros n h Hn Hh. unfold leaf_row. split.
  - unfold lenN. rewrite app_length, map_length. unfold rangeN, repeatN.
    rewrite rangeN_aux_length, repeat_length. lia.
  - intros off Ho. rewrite Nat.sub_diag. cbn [p2]. unfold nthN, rkey.
    destruct (off * 1 <? n) eqn:E.
    + apply N.ltb_lt in E. rewrite nth_error_app1.
      2:{ rewrite map_length. unfold rangeN. rewrite rangeN_aux_length. lia. }
      rewrite nth_error_map. unfold rangeN. rewrite nth_rangeN_aux by lia. cbn [option_map].
      replace (N.min (off * 1 + 1) n - off * 1) with 1 by lia.
      replace (0 + N.of_nat (N.to_nat off)) with off by lia.
      replace (off * 1) with off by lia. reflexivity.
    + apply N.ltb_ge in E. rewrite nth_error_app2.
      2:{ rewrite map_length. unfold rangeN. rewrite rangeN_aux_length. lia. }
      rewrite map_length. unfold rangeN. rewrite rangeN_aux_length.
      unfold repeatN.
      assert (X : (N.to_nat off - N.to_nat n < N.to_nat (p2 h - n))%nat) by lia.
      revert X. generalize (N.to_nat off - N.to_nat n)%nat (N.to_nat (p2 h - n)).
      intros a b. revert a. induction b; intros a Ha; [lia|]. destruct a; cbn; [reflexivity|]. apply IHb. lia.
Qed.
